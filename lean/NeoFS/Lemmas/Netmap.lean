import NeoFS.Lemmas.NetmapMap
import NeoFS.Lemmas.NetmapSpec
/-! Lemmas about the Netmap model: bridge to the literals of the properties, `fourBytesBE`, `fillNetmap`,
decomposition of a HALTed `NewEpoch`, the invariant of all reachable states, the subscriber list, and
the refinement of the candidate requests to `Spec.candStep`. -/
namespace NeoFS.Netmap
open NeoFS

/-! ### bridge: regenerated constants = the literals of the property text -/

theorem keyOff_eq : keyOff = 2 := rfl
theorem keyEnd_eq : keyEnd = 35 := rfl
theorem pkLen_eq : pkLen = 33 := rfl
theorem stOnline_eq : stOnline = 1 := rfl
theorem stOffline_eq : stOffline = 2 := rfl
theorem stMaintenance_eq : stMaintenance = 3 := rfl
theorem hashLen_eq : hashLen = 20 := rfl
theorem init_count : init.count = 10 := rfl
theorem keyOf_eq_slice (blob : Bytes) : keyOf blob = Spec.slice blob := rfl

/-! ### `fourBytesBE` -/

theorem natLEk_length (k n : Nat) : (natLEk k n).length = k := by
  induction k generalizing n with
  | zero => rfl
  | succ k ih => simp [natLEk, ih]

theorem leVal_natLEk (k n : Nat) : leVal (natLEk k n) = n % 256 ^ k := by
  induction k generalizing n with
  | zero => simp [natLEk, leVal, Nat.mod_one]
  | succ k ih =>
    simp only [natLEk, leVal, ih]
    rw [Nat.pow_succ, Nat.mul_comm (256 ^ k) 256, Nat.mod_mul]

theorem be4_length (z : Int) : (be4 z).length = 4 := by
  unfold be4
  by_cases h : 0 ≤ z
  · simp [h, natLEk_length]
  · simp only [h, if_false, List.length_reverse, List.length_append, List.length_replicate, List.length_take]
    omega

theorem be4_inj (a b : Int) (ha : 0 ≤ a) (ha' : a < 4294967296) (hb : 0 ≤ b) (hb' : b < 4294967296)
    (h : be4 a = be4 b) : a = b := by
  unfold be4 at h
  simp only [ha, hb, if_true] at h
  have h1 : natLEk 4 a.toNat = natLEk 4 b.toNat := List.reverse_inj.mp h
  have h2 := congrArg leVal h1
  rw [leVal_natLEk, leVal_natLEk] at h2
  have e : (256 : Nat) ^ 4 = 4294967296 := by decide
  rw [e] at h2
  omega

/-- keys of the structured network maps of two different epochs (below 2^32) never meet -/
theorem be4_strip_other (a b : Int) (ha : 0 ≤ a) (ha' : a < 4294967296) (hb : 0 ≤ b) (hb' : b < 4294967296)
    (hne : a ≠ b) (k : Bytes) : Map.stripPrefix (be4 a) (be4 b ++ k) = none :=
  Map.stripPrefix_other _ _ _ (by rw [be4_length, be4_length]) (fun e => hne (be4_inj a b ha ha' hb hb' e))

/-! ### `fillNetmap` -/

theorem sorted_fill (m0 c2 : Map Node2) (e : Int) (h : Map.Sorted m0) : Map.Sorted (fillNetmap m0 c2 e) := by
  unfold fillNetmap
  induction c2 generalizing m0 with
  | nil => exact h
  | cons x r ih => exact ih _ (Map.sorted_put _ _ _ h)

theorem mem_fill {m0 c2 : Map Node2} {e : Int} {x : Bytes × Node2} (h : x ∈ fillNetmap m0 c2 e) :
    x ∈ m0 ∨ ∃ k, x.1 = be4 e ++ k := by
  unfold fillNetmap at h
  induction c2 generalizing m0 with
  | nil => exact Or.inl h
  | cons y r ih =>
    rcases ih h with h1 | h1
    · rcases Map.mem_put h1 with h2 | h2
      · exact Or.inr ⟨y.1, by rw [h2]⟩
      · exact Or.inl h2
    · exact Or.inr h1

/-- reading the map of epoch `e` right after `fillNetmap`: the structured candidate if there is one,
otherwise what was there before -/
theorem get_fill (m0 c2 : Map Node2) (e : Int) (hs : Map.Sorted c2) (k : Bytes) :
    Map.get (fillNetmap m0 c2 e) (be4 e ++ k) =
      match Map.get c2 k with
      | some v => some v
      | none => Map.get m0 (be4 e ++ k) := by
  unfold fillNetmap
  induction c2 generalizing m0 with
  | nil => rfl
  | cons x r ih =>
    obtain ⟨kx, vx⟩ := x
    have hs' := Map.sorted_cons.mp hs
    simp only [List.foldl_cons]
    rw [ih _ hs'.2]
    simp only [Map.get]
    by_cases hk : kx = k
    · subst hk
      have : Map.get r kx = none := Map.get_none_of_not_mem r kx (fun y hy e' => by
        have := hs'.1 y hy; rw [e', blt_irrefl] at this; cases this)
      simp [this, Map.get_put_same]
    · simp only [hk, if_false]
      have hne : be4 e ++ k ≠ be4 e ++ kx := fun e' => hk (List.append_cancel_left e').symm
      rw [Map.get_put_other _ _ _ _ hne]

/-- keys outside the epoch's prefix are not touched by `fillNetmap` -/
theorem get_fill_other (m0 c2 : Map Node2) (e : Int) (key : Bytes) (h : ∀ k, key ≠ be4 e ++ k) :
    Map.get (fillNetmap m0 c2 e) key = Map.get m0 key := by
  unfold fillNetmap
  induction c2 generalizing m0 with
  | nil => rfl
  | cons x r ih =>
    simp only [List.foldl_cons]
    rw [ih, Map.get_put_other _ _ _ _ (h x.1)]

/-! ### a HALTed `NewEpoch`, taken apart -/

/-- the state a successful `newEpoch(e)` leaves -/
def tickState (s : State) (env : Env) (e : Int) : State :=
  { s with
    epoch := e, block := env.height, curId := (s.curId + 1) % s.count,
    snaps := Map.put [((s.curId + 1) % s.count).toNat] (filterNetmap s) s.snaps,
    nm2 := if e > s.count then Map.delP (be4 (e - s.count)) (fillNetmap s.nm2 s.cands2 e)
           else fillNetmap s.nm2 s.cands2 e }

/-- the nested calls and the notification of a successful `newEpoch(e)` -/
def tickEvents (s : State) (e : Int) : List Event :=
  (subscribers s).map (fun h => Event.called h e) ++ [.newEpoch e]

theorem newEpoch_eq (s : State) (env : Env) (e : Int) :
    newEpoch s env e =
      if env.alphabet = true ∧ s.epoch < e ∧ s.count ≠ 0 ∧ (subscribers s).all (fun h => env.accepts h e) = true
      then some (tickState s env e, tickEvents s e) else none := by
  unfold newEpoch tickState tickEvents
  cases ha : env.alphabet with
  | false => simp
  | true =>
    by_cases he : e ≤ s.epoch
    · have : ¬ s.epoch < e := by omega
      simp [he, this]
    · have he' : s.epoch < e := by omega
      by_cases hc : s.count = 0
      · simp [he, hc]
      · cases hall : (subscribers s).all (fun h => env.accepts h e) with
        | false => simp [he, hc, hall]
        | true => simp [he, he', hc, hall]

theorem newEpoch_some {s : State} {env : Env} {e : Int} {r : Halt} (h : newEpoch s env e = some r) :
    env.alphabet = true ∧ s.epoch < e ∧ s.count ≠ 0 ∧ (∀ x ∈ subscribers s, env.accepts x e = true) ∧
    r = (tickState s env e, tickEvents s e) := by
  rw [newEpoch_eq] at h
  by_cases hc : env.alphabet = true ∧ s.epoch < e ∧ s.count ≠ 0 ∧ (subscribers s).all (fun h => env.accepts h e) = true
  · rw [if_pos hc] at h
    refine ⟨hc.1, hc.2.1, hc.2.2.1, ?_, (Option.some.inj h).symm⟩
    exact fun x hx => List.all_eq_true.mp hc.2.2.2 x hx
  · rw [if_neg hc] at h; cases h

/-! ### the subscriber family: index byte = position -/

/-- the records `e‖i‖h_i` for a list of hashes, starting at index `i` -/
def idxMap : Nat → List Hash → Map Unit
  | _, [] => []
  | i, h :: r => (i :: h, ()) :: idxMap (i + 1) r

theorem idxMap_keys_drop (i : Nat) (l : List Hash) : ((idxMap i l).keys).map (fun k => k.drop 1) = l := by
  induction l generalizing i with
  | nil => rfl
  | cons h r ih => simp only [idxMap, Map.keys, List.map_cons, List.drop_succ_cons, List.drop_zero] at ih ⊢; rw [ih]

theorem idxMap_mem_lt {i : Nat} {l : List Hash} {x : Bytes × Unit} (h : x ∈ idxMap i l) :
    ∃ j hh, x.1 = j :: hh ∧ i ≤ j ∧ j < i + l.length := by
  induction l generalizing i with
  | nil => cases h
  | cons a r ih =>
    simp only [idxMap] at h
    rcases List.mem_cons.mp h with h | h
    · subst h; exact ⟨i, a, rfl, Nat.le_refl _, by simp⟩
    · obtain ⟨j, hh, e1, e2, e3⟩ := ih h
      exact ⟨j, hh, e1, by omega, by simp only [List.length_cons]; omega⟩

theorem idxMap_append (i : Nat) (l : List Hash) (h : Hash) :
    idxMap i (l ++ [h]) = idxMap i l ++ [((i + l.length) :: h, ())] := by
  induction l generalizing i with
  | nil => simp [idxMap]
  | cons a r ih =>
    simp only [List.cons_append, idxMap, List.length_cons]
    rw [ih]
    have : i + 1 + r.length = i + (r.length + 1) := by omega
    rw [this]

theorem sorted_idxMap (i : Nat) (l : List Hash) : Map.Sorted (idxMap i l) := by
  induction l generalizing i with
  | nil => exact Map.sorted_nil
  | cons a r ih =>
    simp only [idxMap]
    refine Map.sorted_cons.mpr ⟨?_, ih (i + 1)⟩
    intro x hx
    obtain ⟨j, hh, e1, e2, _⟩ := idxMap_mem_lt hx
    rw [e1]; exact blt_cons_lt _ _ _ _ (by omega)

/-! ### `SubscribeForNewEpoch`, `updateCandidateState`, taken apart -/

theorem subscribe_eq (s : State) (env : Env) (h : Hash) :
    subscribe s env h =
      if Spec.subOk env h = true then
        (if (subscribers s).contains h = true then some (s, [])
         else if (subscribers s).length ≥ 256 then none
         else some ({ s with subs := Map.put ((subscribers s).length :: h) () s.subs }, [.subscription h]))
      else none := by
  unfold subscribe Spec.subOk
  cases ha : env.alphabet with
  | false => simp
  | true =>
    by_cases hl : h.length = 20
    · cases hm : env.hasNewEpoch h with
      | false => simp [hashLen, hl]
      | true => simp [hashLen, hl]
    · simp [hashLen, hl]

theorem updateNetmapState_eq (s : State) (k : Key) (st : Int) :
    updateNetmapState s k st =
      if (s.cands.get k).isNone = true ∧ (s.cands2.get k).isNone = true then none
      else some { s with cands := updCands s k st, cands2 := updCands2 s k st } := by
  unfold updateNetmapState
  cases h1 : (s.cands.get k).isNone <;> cases h2 : (s.cands2.get k).isNone <;> simp

theorem updateCandidateState_eq (s : State) (k : Key) (st : Int) :
    updateCandidateState s k st =
      if k.length ≠ pkLen then none
      else if st = stOffline then some (removeFromNetmap s k, [.updateStateSuccess k st])
      else if st = stOnline ∨ st = stMaintenance then
        (match updateNetmapState s k st with
         | some s' => some (s', [.updateStateSuccess k st])
         | none => none)
      else none := by
  unfold updateCandidateState
  by_cases hk : k.length ≠ pkLen <;> by_cases h1 : st = stOffline <;>
    by_cases h2 : st = stOnline ∨ st = stMaintenance <;>
    cases hu : updateNetmapState s k st <;> simp [hk, h1, h2]

/-- the modelled branches of `UpdateSnapshotCount` all refuse -/
theorem step_usc (s : State) (env : Env) (n : Int) : step s env (.updateSnapshotCount n) = none := by
  simp only [step]
  cases env.alphabet <;> simp

/-! ### the invariant of all reachable states -/

structure Inv (s : State) : Prop where
  snaps : Map.Sorted s.snaps
  cands : Map.Sorted s.cands
  cands2 : Map.Sorted s.cands2
  nm2 : Map.Sorted s.nm2
  count : 0 < s.count
  epoch : 0 ≤ s.epoch
  /-- every structured network map belongs to an epoch that has been the current one -/
  nmKeys : ∀ x ∈ s.nm2, ∃ e' k', 0 ≤ e' ∧ e' ≤ s.epoch ∧ x.1 = be4 e' ++ k'
  /-- the index byte of a subscriber record is its position in subscription order -/
  subs : s.subs = idxMap 0 (subscribers s)
  subsLen : (subscribers s).length ≤ 256
  subsNodup : (subscribers s).Nodup

theorem inv_init : Inv init := by
  refine ⟨?_, Map.sorted_nil, Map.sorted_nil, Map.sorted_nil, by decide, by decide, ?_, rfl, by decide, by decide⟩
  · show List.Pairwise _ _
    decide
  · intro x hx; cases hx

/-- single-byte keys of strictly increasing indices are sorted -/
theorem sorted_slots (l : List Nat) (h : l.Pairwise (· < ·)) :
    Map.Sorted (l.map (fun i => (([i] : Bytes), ([] : List Node)))) := by
  unfold Map.Sorted
  rw [List.pairwise_map]
  exact h.imp (fun hab => blt_cons_lt _ _ [] [] hab)

theorem initSlots_increasing (k : Nat) : (initSlots k).Pairwise (· < ·) := by
  unfold initSlots
  dsimp only
  split
  · exact List.pairwise_lt_range
  · rename_i hk
    have hd : Generated.netmap_DefaultSnapshotCount.toNat = 10 := rfl
    rw [hd] at hk ⊢
    rw [List.pairwise_cons]
    constructor
    · intro x hx
      obtain ⟨i, _, rfl⟩ := List.mem_map.mp hx
      omega
    · rw [List.pairwise_map]
      exact List.pairwise_lt_range.imp (fun hab => by omega)

/-- the deployment resized once to any positive count satisfies the invariant: every theorem about histories from a
state with `Inv` holds from these roots too -/
theorem inv_initWith (k : Nat) (hk : 0 < k) : Inv (initWith k) := by
  refine ⟨sorted_slots _ (initSlots_increasing k), Map.sorted_nil, Map.sorted_nil, Map.sorted_nil, ?_,
    (show (0 : Int) ≤ 0 by decide), ?_, rfl, (show ([] : List Hash).length ≤ 256 by decide), List.nodup_nil⟩
  · show (0 : Int) < (k : Int)
    omega
  · intro x hx; cases hx

theorem initWith_default : initWith Generated.netmap_DefaultSnapshotCount.toNat = init := by decide

theorem sorted_updCands (s : State) (k : Key) (st : Int) (h : Map.Sorted s.cands) : Map.Sorted (updCands s k st) := by
  unfold updCands; cases s.cands.get k with
  | none => exact h
  | some n => exact Map.sorted_put _ _ _ h

theorem sorted_updCands2 (s : State) (k : Key) (st : Int) (h : Map.Sorted s.cands2) : Map.Sorted (updCands2 s k st) := by
  unfold updCands2; cases s.cands2.get k with
  | none => exact h
  | some n => exact Map.sorted_put _ _ _ h

/-- an invocation that touches only the two candidate families keeps the invariant -/
theorem inv_of_cands {s s' : State} (hi : Inv s) (h1 : Map.Sorted s'.cands) (h2 : Map.Sorted s'.cands2)
    (he : s' = { s with cands := s'.cands, cands2 := s'.cands2 }) : Inv s' := by
  rw [he]
  exact ⟨hi.snaps, h1, h2, hi.nm2, hi.count, hi.epoch, hi.nmKeys, hi.subs, hi.subsLen, hi.subsNodup⟩

theorem inv_ucs {s : State} {k : Key} {st : Int} {r : Halt} (hi : Inv s)
    (h : updateCandidateState s k st = some r) : Inv r.1 := by
  rw [updateCandidateState_eq] at h
  by_cases hk : k.length ≠ pkLen
  · rw [if_pos hk] at h; cases h
  · rw [if_neg hk] at h
    by_cases h1 : st = stOffline
    · rw [if_pos h1] at h; cases h
      exact inv_of_cands hi (Map.sorted_del _ _ hi.cands) (Map.sorted_del _ _ hi.cands2) rfl
    · rw [if_neg h1] at h
      by_cases h2 : st = stOnline ∨ st = stMaintenance
      · rw [if_pos h2, updateNetmapState_eq] at h
        by_cases h3 : (s.cands.get k).isNone = true ∧ (s.cands2.get k).isNone = true
        · rw [if_pos h3] at h; cases h
        · rw [if_neg h3] at h; cases h
          exact inv_of_cands hi (sorted_updCands _ _ _ hi.cands) (sorted_updCands2 _ _ _ hi.cands2) rfl
      · rw [if_neg h2] at h; cases h

theorem inv_tick {s : State} (env : Env) (e : Int) (hi : Inv s) (he : s.epoch < e) : Inv (tickState s env e) := by
  have hf := sorted_fill s.nm2 s.cands2 e hi.nm2
  refine ⟨Map.sorted_put _ _ _ hi.snaps, hi.cands, hi.cands2, ?_, hi.count, ?_, ?_, hi.subs, hi.subsLen, hi.subsNodup⟩
  · show Map.Sorted (if e > s.count then _ else _)
    by_cases hc : e > s.count
    · rw [if_pos hc]; exact Map.sorted_delP _ _ hf
    · rw [if_neg hc]; exact hf
  · show 0 ≤ e
    have := hi.epoch; omega
  · intro x hx
    have hx' : x ∈ fillNetmap s.nm2 s.cands2 e := by
      have hx2 : x ∈ (if e > s.count then Map.delP (be4 (e - s.count)) (fillNetmap s.nm2 s.cands2 e)
                      else fillNetmap s.nm2 s.cands2 e) := hx
      by_cases hc : e > s.count
      · rw [if_pos hc] at hx2; exact Map.mem_delP hx2
      · rw [if_neg hc] at hx2; exact hx2
    show ∃ e' k', 0 ≤ e' ∧ e' ≤ e ∧ x.1 = be4 e' ++ k'
    rcases mem_fill hx' with h1 | ⟨k, hk⟩
    · obtain ⟨e', k', a, b, c⟩ := hi.nmKeys x h1
      exact ⟨e', k', a, by omega, c⟩
    · have := hi.epoch
      exact ⟨e, k, by omega, Int.le_refl _, hk⟩

theorem subscribers_put_new {s : State} (hi : Inv s) (h : Hash) :
    Map.put ((subscribers s).length :: h) () s.subs = idxMap 0 (subscribers s ++ [h]) := by
  rw [idxMap_append, Nat.zero_add]
  have e := hi.subs
  rw [Map.put_append]
  · rw [← e]
  · intro x hx
    rw [e] at hx
    obtain ⟨j, hh, e1, _, e3⟩ := idxMap_mem_lt hx
    rw [e1]; exact blt_cons_lt _ _ _ _ (by omega)

theorem inv_subscribe {s : State} {env : Env} {h : Hash} {r : Halt} (hi : Inv s)
    (hs : subscribe s env h = some r) : Inv r.1 := by
  rw [subscribe_eq] at hs
  by_cases h0 : Spec.subOk env h = true
  · rw [if_pos h0] at hs
    by_cases h1 : (subscribers s).contains h = true
    · rw [if_pos h1] at hs; cases hs; exact hi
    · rw [if_neg h1] at hs
      by_cases h2 : (subscribers s).length ≥ 256
      · rw [if_pos h2] at hs; cases hs
      · rw [if_neg h2] at hs; cases hs
        have hsub : subscribers { s with subs := Map.put ((subscribers s).length :: h) () s.subs } = subscribers s ++ [h] := by
          show ((Map.put ((subscribers s).length :: h) () s.subs).keys).map (fun k => k.drop 1) = _
          rw [subscribers_put_new hi, idxMap_keys_drop]
        refine ⟨hi.snaps, hi.cands, hi.cands2, hi.nm2, hi.count, hi.epoch, hi.nmKeys, ?_, ?_, ?_⟩
        · rw [hsub]; exact subscribers_put_new hi h
        · rw [hsub]; simp only [List.length_append, List.length_singleton]; omega
        · rw [hsub]
          have hn : h ∉ subscribers s := by
            intro hm; exact h1 (List.contains_iff_mem.mpr hm)
          exact List.nodup_append.mpr ⟨hi.subsNodup, List.nodup_cons.mpr ⟨List.not_mem_nil, List.nodup_nil⟩, by
            intro a ha b hb; rw [List.mem_singleton] at hb; subst hb; exact fun e => hn (e ▸ ha)⟩
  · rw [if_neg h0] at hs; cases hs

theorem inv_step {s : State} {env : Env} {op : Op} {r : Halt} (hi : Inv s) (h : step s env op = some r) : Inv r.1 := by
  cases op with
  | updateSnapshotCount n => rw [step_usc] at h; cases h
  | addPeerIR blob =>
    simp only [step] at h
    cases ha : env.alphabet with
    | false => simp [ha] at h
    | true =>
      cases hk : keyOf blob with
      | none => simp [ha, hk] at h
      | some k =>
        simp only [ha, hk, Bool.not_true, Bool.false_eq_true, if_false, Option.some.injEq] at h
        subst h
        exact inv_of_cands hi (Map.sorted_put _ _ _ hi.cands) hi.cands2 rfl
  | addPeer blob =>
    simp only [step] at h
    cases hk : keyOf blob with
    | none => simp [hk] at h
    | some k =>
      cases hw : nodeWitness env k with
      | false => simp [hk, hw] at h
      | true =>
        cases ha : env.alphabet with
        | false => simp [hk, hw, ha] at h
        | true =>
          simp only [hk, hw, ha, Bool.not_true, Bool.false_eq_true, if_false, Option.some.injEq] at h
          subst h
          exact inv_of_cands hi (Map.sorted_put _ _ _ hi.cands) hi.cands2 rfl
  | addNode n =>
    simp only [step] at h
    by_cases h1 : n.state ≠ stOnline
    · simp [h1] at h
    · by_cases h2 : n.key.length ≠ pkLen
      · simp [h1, h2] at h
      · cases hw : nodeWitness env n.key with
        | false => simp [h1, h2, hw] at h
        | true =>
          cases ha : env.alphabet with
          | false => simp [h1, h2, hw, ha] at h
          | true =>
            simp only [h1, h2, hw, ha, Bool.not_true, Bool.false_eq_true, if_false, Option.some.injEq] at h
            subst h
            exact inv_of_cands hi hi.cands (Map.sorted_put _ _ _ hi.cands2) rfl
  | deleteNode k =>
    simp only [step] at h
    by_cases h2 : k.length ≠ pkLen
    · simp [h2] at h
    · cases ha : env.alphabet with
      | false => simp [h2, ha] at h
      | true =>
        simp only [h2, ha, Bool.not_true, Bool.false_eq_true, if_false] at h
        exact inv_ucs hi h
  | updateState st k =>
    simp only [step] at h
    by_cases h2 : k.length ≠ pkLen
    · simp [h2] at h
    · cases hw : nodeWitness env k with
      | false => simp [h2, hw] at h
      | true =>
        cases ha : env.alphabet with
        | false => simp [h2, hw, ha] at h
        | true =>
          simp only [h2, hw, ha, Bool.not_true, Bool.false_eq_true, if_false] at h
          exact inv_ucs hi h
  | updateStateIR st k =>
    simp only [step] at h
    cases ha : env.alphabet with
    | false => simp [ha] at h
    | true =>
      simp only [ha, Bool.not_true, Bool.false_eq_true, if_false] at h
      exact inv_ucs hi h
  | newEpoch e =>
    simp only [step] at h
    obtain ⟨_, he, _, _, hr⟩ := newEpoch_some h
    rw [hr]; exact inv_tick env e hi he
  | subscribe x =>
    simp only [step] at h
    exact inv_subscribe hi h

theorem inv_invoke {s : State} (env : Env) (op : Op) (hi : Inv s) : Inv (invoke s env op).1 := by
  unfold invoke
  cases h : step s env op with
  | none => exact hi
  | some r => exact inv_step hi h

theorem inv_run {s : State} (hist : List (Env × Op)) (hi : Inv s) : Inv (run s hist) := by
  induction hist generalizing s with
  | nil => exact hi
  | cons x r ih => obtain ⟨env, op⟩ := x; exact ih (inv_invoke env op hi)

/-- `updateCandidateState` touches nothing but the two candidate families -/
theorem ucs_frame {s : State} {k : Key} {st : Int} {r : Halt} (h : updateCandidateState s k st = some r) :
    r.1 = { s with cands := r.1.cands, cands2 := r.1.cands2 } := by
  rw [updateCandidateState_eq] at h
  by_cases hk : k.length ≠ pkLen
  · rw [if_pos hk] at h; cases h
  · rw [if_neg hk] at h
    by_cases h1 : st = stOffline
    · rw [if_pos h1] at h; cases h; rfl
    · rw [if_neg h1] at h
      by_cases h2 : st = stOnline ∨ st = stMaintenance
      · rw [if_pos h2, updateNetmapState_eq] at h
        by_cases h3 : (s.cands.get k).isNone = true ∧ (s.cands2.get k).isNone = true
        · rw [if_pos h3] at h; cases h
        · rw [if_neg h3] at h; cases h; rfl
      · rw [if_neg h2] at h; cases h

theorem ucs_subs {s : State} {k : Key} {st : Int} {r : Halt} (h : updateCandidateState s k st = some r) :
    subscribers r.1 = subscribers s := by
  rw [ucs_frame h]; rfl

/-! ### C06: what a tick does -/

theorem newEpoch_isSome_iff (s : State) (env : Env) (e : Int) (hc : s.count ≠ 0) :
    (newEpoch s env e).isSome = true ↔
      env.alphabet = true ∧ s.epoch < e ∧ ∀ h ∈ subscribers s, env.accepts h e = true := by
  rw [newEpoch_eq]
  constructor
  · intro h
    by_cases hh : env.alphabet = true ∧ s.epoch < e ∧ s.count ≠ 0 ∧ (subscribers s).all (fun h => env.accepts h e) = true
    · exact ⟨hh.1, hh.2.1, fun x hx => List.all_eq_true.mp hh.2.2.2 x hx⟩
    · rw [if_neg hh] at h; cases h
  · rintro ⟨h1, h2, h3⟩
    have : (subscribers s).all (fun h => env.accepts h e) = true := List.all_eq_true.mpr h3
    rw [if_pos ⟨h1, h2, hc, this⟩]; rfl

theorem tick_netmap (s : State) (env : Env) (e : Int) : netmap (tickState s env e) = filterNetmap s := by
  show ((Map.put [((s.curId + 1) % s.count).toNat] (filterNetmap s) s.snaps).get [((s.curId + 1) % s.count).toNat]).getD [] = _
  rw [Map.get_put_same]; rfl

/-- the structured map of the new epoch is exactly the structured candidate family -/
theorem tick_findP {s : State} (env : Env) (e : Int) (hi : Inv s) (he : s.epoch < e) (hb : e < 4294967296) :
    Map.findP (be4 e) (tickState s env e).nm2 = s.cands2 := by
  have hf := sorted_fill s.nm2 s.cands2 e hi.nm2
  have he0 := hi.epoch
  have hc0 := hi.count
  -- no record of an earlier epoch sits under the new epoch's prefix
  have fresh : ∀ k, Map.get s.nm2 (be4 e ++ k) = none := by
    intro k
    apply Map.get_none_of_not_mem
    intro x hx heq
    obtain ⟨e', k', a, b, c⟩ := hi.nmKeys x hx
    rw [c] at heq
    have hl : (be4 e').length = (be4 e).length := by rw [be4_length, be4_length]
    have := (List.append_inj heq hl).1
    have := be4_inj e' e a (by omega) (by omega) hb this
    omega
  have key : ∀ k, Map.get (tickState s env e).nm2 (be4 e ++ k) = Map.get s.cands2 k := by
    intro k
    have h1 : Map.get (fillNetmap s.nm2 s.cands2 e) (be4 e ++ k) = Map.get s.cands2 k := by
      rw [get_fill _ _ _ hi.cands2, fresh]
      cases Map.get s.cands2 k <;> rfl
    show Map.get (if e > s.count then _ else _) _ = _
    by_cases hc : e > s.count
    · rw [if_pos hc, Map.get_delP]
      have : Map.stripPrefix (be4 (e - s.count)) (be4 e ++ k) = none :=
        be4_strip_other _ _ (by omega) (by omega) (by omega) hb (by omega) k
      rw [this]; exact h1
    · rw [if_neg hc]; exact h1
  apply Map.ext
  · exact Map.sorted_findP _ _ (inv_tick env e hi he).nm2
  · exact hi.cands2
  · intro k; rw [Map.get_findP]; exact key k

theorem tick_listNodes {s : State} (env : Env) (e : Int) (hi : Inv s) (he : s.epoch < e) (hb : e < 4294967296) :
    listNodesEpoch (tickState s env e) e = listCandidates s := by
  unfold listNodesEpoch listCandidates
  rw [tick_findP env e hi he hb]

/-! ### C06: subscriber list and epoch counter refine their specifications -/

theorem subscribers_step {s : State} (env : Env) (op : Op) (hi : Inv s) :
    subscribers (invoke s env op).1 = Spec.subStep (subscribers s) env op := by
  unfold invoke
  cases h : step s env op with
  | none =>
    show subscribers s = _
    cases op with
    | subscribe x =>
      simp only [step] at h
      rw [subscribe_eq] at h
      simp only [Spec.subStep]
      by_cases h0 : Spec.subOk env x = true
      · rw [if_pos h0] at h
        by_cases h1 : (subscribers s).contains x = true
        · rw [if_pos h1] at h; cases h
        · rw [if_neg h1] at h
          by_cases h2 : (subscribers s).length ≥ 256
          · have : ¬ (subscribers s).length < 256 := by omega
            simp [this]
          · rw [if_neg h2] at h; cases h
      · simp [h0]
    | _ => rfl
  | some r =>
    show subscribers r.1 = _
    cases op with
    | updateSnapshotCount n => rw [step_usc] at h; cases h
    | subscribe x =>
      simp only [step] at h
      rw [subscribe_eq] at h
      simp only [Spec.subStep]
      by_cases h0 : Spec.subOk env x = true
      · rw [if_pos h0] at h
        by_cases h1 : (subscribers s).contains x = true
        · rw [if_pos h1] at h; cases h
          have hm : x ∈ subscribers s := List.contains_iff_mem.mp h1
          simp [hm]
        · rw [if_neg h1] at h
          by_cases h2 : (subscribers s).length ≥ 256
          · rw [if_pos h2] at h; cases h
          · rw [if_neg h2] at h; cases h
            have hlt : (subscribers s).length < 256 := by omega
            have hsub : subscribers { s with subs := Map.put ((subscribers s).length :: x) () s.subs } = subscribers s ++ [x] := by
              show ((Map.put ((subscribers s).length :: x) () s.subs).keys).map (fun k => k.drop 1) = _
              rw [subscribers_put_new hi, idxMap_keys_drop]
            have hm : x ∉ subscribers s := fun m => h1 (List.contains_iff_mem.mpr m)
            rw [hsub]; simp [h0, hm, hlt]
      · rw [if_neg h0] at h; cases h
    | newEpoch e =>
      simp only [step] at h
      obtain ⟨_, _, _, _, hr⟩ := newEpoch_some h
      rw [hr]; rfl
    | addPeerIR blob =>
      simp only [step] at h
      cases ha : env.alphabet <;> cases hk : keyOf blob <;> simp [ha, hk] at h
      subst h; rfl
    | addPeer blob =>
      simp only [step] at h
      cases hk : keyOf blob with
      | none => simp [hk] at h
      | some k =>
        cases hw : nodeWitness env k <;> cases ha : env.alphabet <;> simp [hk, hw, ha] at h
        subst h; rfl
    | addNode n =>
      simp only [step] at h
      by_cases h1 : n.state ≠ stOnline
      · simp [h1] at h
      · by_cases h2 : n.key.length ≠ pkLen
        · simp [h1, h2] at h
        · cases hw : nodeWitness env n.key <;> cases ha : env.alphabet <;> simp [h1, h2, hw, ha] at h
          subst h; rfl
    | deleteNode k =>
      simp only [step] at h
      by_cases h2 : k.length ≠ pkLen
      · simp [h2] at h
      · cases ha : env.alphabet with
        | false => simp [h2, ha] at h
        | true =>
          simp only [h2, ha, Bool.not_true, Bool.false_eq_true, if_false] at h
          exact ucs_subs h
    | updateState st k =>
      simp only [step] at h
      by_cases h2 : k.length ≠ pkLen
      · simp [h2] at h
      · cases hw : nodeWitness env k with
        | false => simp [h2, hw] at h
        | true =>
          cases ha : env.alphabet with
          | false => simp [h2, hw, ha] at h
          | true =>
            simp only [h2, hw, ha, Bool.not_true, Bool.false_eq_true, if_false] at h
            exact ucs_subs h
    | updateStateIR st k =>
      simp only [step] at h
      cases ha : env.alphabet with
      | false => simp [ha] at h
      | true =>
        simp only [ha, Bool.not_true, Bool.false_eq_true, if_false] at h
        exact ucs_subs h

/-! ### C06: the epoch counter -/

theorem epoch_step (s : State) (env : Env) (op : Op) (hc : s.count ≠ 0) :
    (invoke s env op).1.epoch = Spec.epochStep s.epoch (subscribers s) env op := by
  unfold invoke
  cases h : step s env op with
  | none =>
    show s.epoch = _
    cases op with
    | newEpoch e =>
      simp only [step] at h
      rw [newEpoch_eq] at h
      simp only [Spec.epochStep]
      by_cases hh : env.alphabet = true ∧ s.epoch < e ∧ s.count ≠ 0 ∧ (subscribers s).all (fun h => env.accepts h e) = true
      · rw [if_pos hh] at h; cases h
      · have : ¬ (env.alphabet = true ∧ s.epoch < e ∧ (subscribers s).all (fun h => env.accepts h e) = true) :=
          fun ⟨a, b, c⟩ => hh ⟨a, b, hc, c⟩
        simp only [Bool.and_eq_true, decide_eq_true_eq]
        rw [if_neg (fun ⟨⟨a, b⟩, c⟩ => this ⟨a, b, c⟩)]
    | _ => rfl
  | some r =>
    show r.1.epoch = _
    cases op with
    | updateSnapshotCount n => rw [step_usc] at h; cases h
    | newEpoch e =>
      simp only [step] at h
      obtain ⟨a, b, _, d, hr⟩ := newEpoch_some h
      have : (subscribers s).all (fun h => env.accepts h e) = true := List.all_eq_true.mpr d
      simp only [Spec.epochStep, Bool.and_eq_true, decide_eq_true_eq]
      rw [if_pos ⟨⟨a, b⟩, this⟩, hr]; rfl
    | subscribe x =>
      simp only [step] at h
      rw [subscribe_eq] at h
      by_cases h0 : Spec.subOk env x = true
      · rw [if_pos h0] at h
        by_cases h1 : (subscribers s).contains x = true
        · rw [if_pos h1] at h; cases h; rfl
        · rw [if_neg h1] at h
          by_cases h2 : (subscribers s).length ≥ 256
          · rw [if_pos h2] at h; cases h
          · rw [if_neg h2] at h; cases h; rfl
      · rw [if_neg h0] at h; cases h
    | addPeerIR blob =>
      simp only [step] at h
      cases ha : env.alphabet <;> cases hk : keyOf blob <;> simp [ha, hk] at h
      subst h; rfl
    | addPeer blob =>
      simp only [step] at h
      cases hk : keyOf blob with
      | none => simp [hk] at h
      | some k =>
        cases hw : nodeWitness env k <;> cases ha : env.alphabet <;> simp [hk, hw, ha] at h
        subst h; rfl
    | addNode n =>
      simp only [step] at h
      by_cases h1 : n.state ≠ stOnline
      · simp [h1] at h
      · by_cases h2 : n.key.length ≠ pkLen
        · simp [h1, h2] at h
        · cases hw : nodeWitness env n.key <;> cases ha : env.alphabet <;> simp [h1, h2, hw, ha] at h
          subst h; rfl
    | deleteNode k =>
      simp only [step] at h
      by_cases h2 : k.length ≠ pkLen
      · simp [h2] at h
      · cases ha : env.alphabet with
        | false => simp [h2, ha] at h
        | true =>
          simp only [h2, ha, Bool.not_true, Bool.false_eq_true, if_false] at h
          rw [ucs_frame h]; rfl
    | updateState st k =>
      simp only [step] at h
      by_cases h2 : k.length ≠ pkLen
      · simp [h2] at h
      · cases hw : nodeWitness env k with
        | false => simp [h2, hw] at h
        | true =>
          cases ha : env.alphabet with
          | false => simp [h2, hw, ha] at h
          | true =>
            simp only [h2, hw, ha, Bool.not_true, Bool.false_eq_true, if_false] at h
            rw [ucs_frame h]; rfl
    | updateStateIR st k =>
      simp only [step] at h
      cases ha : env.alphabet with
      | false => simp [ha] at h
      | true =>
        simp only [ha, Bool.not_true, Bool.false_eq_true, if_false] at h
        rw [ucs_frame h]; rfl

theorem epochStep_mono (cur : Int) (subs : List Hash) (env : Env) (op : Op) :
    cur ≤ Spec.epochStep cur subs env op := by
  cases op with
  | newEpoch e =>
    simp only [Spec.epochStep]
    by_cases h : (env.alphabet && decide (cur < e) && subs.all (fun h => env.accepts h e)) = true
    · rw [if_pos h]
      simp only [Bool.and_eq_true, decide_eq_true_eq] at h
      omega
    · rw [if_neg h]; exact Int.le_refl _
  | _ => exact Int.le_refl _

/-! ### C07: the candidate families refine the candidate table -/

/-- abstraction: what the two candidate families say about a key -/
def abs (s : State) : Spec.Cand := fun k => ⟨s.cands.get k, s.cands2.get k⟩

theorem abs_put_cands (s : State) (k : Key) (n : Node) :
    abs { s with cands := Map.put k n s.cands } = (abs s).set k ⟨some n, (abs s k).structured⟩ := by
  funext k'
  unfold abs Spec.Cand.set
  by_cases h : k' = k
  · subst h; simp [Map.get_put_same]
  · simp [h, Map.get_put_other _ _ _ _ h]

theorem abs_put_cands2 (s : State) (k : Key) (n : Node2) :
    abs { s with cands2 := Map.put k n s.cands2 } = (abs s).set k ⟨(abs s k).legacy, some n⟩ := by
  funext k'
  unfold abs Spec.Cand.set
  by_cases h : k' = k
  · subst h; simp [Map.get_put_same]
  · simp [h, Map.get_put_other _ _ _ _ h]

theorem abs_remove (s : State) (k : Key) : abs (removeFromNetmap s k) = (abs s).set k ⟨none, none⟩ := by
  funext k'
  unfold abs Spec.Cand.set removeFromNetmap
  by_cases h : k' = k
  · subst h; simp [Map.get_del_same]
  · simp [h, Map.get_del_other _ _ _ h]

theorem abs_update (s : State) (k : Key) (st : Int) :
    abs { s with cands := updCands s k st, cands2 := updCands2 s k st } = (abs s).set k (Spec.withState st (abs s k)) := by
  funext k'
  unfold abs Spec.Cand.set Spec.withState updCands updCands2
  by_cases h : k' = k
  · subst h
    cases h1 : Map.get s.cands k' <;> cases h2 : Map.get s.cands2 k' <;> simp [h1, h2, Map.get_put_same]
  · cases h1 : Map.get s.cands k <;> cases h2 : Map.get s.cands2 k <;> simp [h, Map.get_put_other _ _ _ _ h]

theorem ucs_refines (s : State) (k : Key) (st : Int) :
    (updateCandidateState s k st).map (fun r => abs r.1) = Spec.change (abs s) st k := by
  rw [updateCandidateState_eq]
  unfold Spec.change
  rw [pkLen_eq, stOffline_eq, stOnline_eq, stMaintenance_eq]
  by_cases hk : k.length ≠ 33
  · simp [hk]
  · rw [if_neg hk, if_neg hk]
    by_cases h1 : st = 2
    · rw [if_pos h1, if_pos h1]; simp [abs_remove]
    · rw [if_neg h1, if_neg h1]
      by_cases h2 : st = 1 ∨ st = 3
      · rw [if_pos h2, if_pos h2, updateNetmapState_eq]
        have hkn : Spec.known (abs s k) = !((s.cands.get k).isNone && (s.cands2.get k).isNone) := by
          unfold Spec.known abs
          cases Map.get s.cands k <;> cases Map.get s.cands2 k <;> rfl
        by_cases h3 : (s.cands.get k).isNone = true ∧ (s.cands2.get k).isNone = true
        · rw [if_pos h3]
          have : Spec.known (abs s k) = false := by rw [hkn, h3.1, h3.2]; rfl
          simp [this]
        · rw [if_neg h3]
          have : Spec.known (abs s k) = true := by
            rw [hkn]
            cases ha : (s.cands.get k).isNone <;> cases hb : (s.cands2.get k).isNone <;> simp_all
          simp [this, abs_update]
      · rw [if_neg h2, if_neg h2]; rfl

/-- every candidate request: HALT exactly when the specification accepts, and then the candidate families
hold exactly the table the specification computes -/
theorem cand_refines (s : State) (env : Env) (op : Op) (hop : Spec.isCandOp op = true) :
    (step s env op).map (fun r => abs r.1) = Spec.candStep (abs s) env.alphabet (nodeWitness env) op := by
  cases op with
  | newEpoch e => cases hop
  | subscribe x => cases hop
  | updateSnapshotCount n => cases hop
  | addPeerIR blob =>
    simp only [step, Spec.candStep, ← keyOf_eq_slice]
    cases ha : env.alphabet <;> cases hk : keyOf blob <;> simp [addToNetmap, abs_put_cands, stOnline_eq]
  | addPeer blob =>
    simp only [step, Spec.candStep, ← keyOf_eq_slice]
    cases hk : keyOf blob with
    | none => simp
    | some k =>
      cases hw : nodeWitness env k <;> cases ha : env.alphabet <;> simp [hw, addToNetmap, abs_put_cands, stOnline_eq]
  | addNode n =>
    simp only [step, Spec.candStep, stOnline_eq, pkLen_eq]
    by_cases h1 : n.state = 1
    · by_cases h2 : n.key.length = 33
      · cases hw : nodeWitness env n.key <;> cases ha : env.alphabet <;> simp [h1, h2, abs_put_cands2]
      · simp [h1, h2]
    · simp [h1]
  | deleteNode k =>
    simp only [step, Spec.candStep]
    cases ha : env.alphabet with
    | false => by_cases h2 : k.length ≠ pkLen <;> simp [h2]
    | true =>
      by_cases h2 : k.length ≠ pkLen
      · have : k.length ≠ 33 := by rw [← pkLen_eq]; exact h2
        simp [h2, Spec.change, this]
      · simp only [h2, if_false, Bool.not_true, Bool.false_eq_true, if_true]
        rw [ucs_refines, stOffline_eq]
  | updateState st k =>
    simp only [step, Spec.candStep]
    by_cases h2 : k.length ≠ pkLen
    · have : k.length ≠ 33 := by rw [← pkLen_eq]; exact h2
      cases hw : nodeWitness env k <;> cases ha : env.alphabet <;> simp [h2, Spec.change, this]
    · cases hw : nodeWitness env k with
      | false => simp [h2]
      | true =>
        cases ha : env.alphabet with
        | false => simp [h2]
        | true =>
          simp only [h2, if_false, Bool.not_true, Bool.false_eq_true, Bool.and_self, if_true]
          rw [ucs_refines]
  | updateStateIR st k =>
    simp only [step, Spec.candStep]
    cases ha : env.alphabet with
    | false => simp
    | true =>
      simp only [Bool.not_true, Bool.false_eq_true, if_false, if_true]
      rw [ucs_refines]

/-- ticks and subscriptions leave both candidate families as they are -/
theorem noncand_frame {s : State} {env : Env} {op : Op} {r : Halt} (hop : Spec.isCandOp op = false)
    (h : step s env op = some r) : r.1.cands = s.cands ∧ r.1.cands2 = s.cands2 := by
  cases op with
  | updateSnapshotCount n => rw [step_usc] at h; cases h
  | newEpoch e =>
    simp only [step] at h
    obtain ⟨_, _, _, _, hr⟩ := newEpoch_some h
    rw [hr]; exact ⟨rfl, rfl⟩
  | subscribe x =>
    simp only [step] at h
    rw [subscribe_eq] at h
    by_cases h0 : Spec.subOk env x = true
    · rw [if_pos h0] at h
      by_cases h1 : (subscribers s).contains x = true
      · rw [if_pos h1] at h; cases h; exact ⟨rfl, rfl⟩
      · rw [if_neg h1] at h
        by_cases h2 : (subscribers s).length ≥ 256
        · rw [if_pos h2] at h; cases h
        · rw [if_neg h2] at h; cases h; exact ⟨rfl, rfl⟩
    · rw [if_neg h0] at h; cases h
  | addPeer _ => cases hop
  | addPeerIR _ => cases hop
  | addNode _ => cases hop
  | updateState _ _ => cases hop
  | updateStateIR _ _ => cases hop
  | deleteNode _ => cases hop

theorem abs_invoke (s : State) (env : Env) (op : Op) :
    abs (invoke s env op).1 = (Spec.candStep (abs s) env.alphabet (nodeWitness env) op).getD (abs s) := by
  cases hop : Spec.isCandOp op with
  | true =>
    have := cand_refines s env op hop
    unfold invoke
    cases h : step s env op with
    | none => rw [h] at this; rw [← this]; rfl
    | some r => rw [h] at this; rw [← this]; rfl
  | false =>
    have hspec : Spec.candStep (abs s) env.alphabet (nodeWitness env) op = some (abs s) := by
      cases op <;> first | rfl | cases hop
    rw [hspec]
    unfold invoke
    cases h : step s env op with
    | none => rfl
    | some r =>
      have := noncand_frame hop h
      show abs r.1 = abs s
      unfold abs; rw [this.1, this.2]

theorem abs_run (s : State) (hist : List (Env × Op)) : abs (run s hist) = Spec.candRun (abs s) hist := by
  induction hist generalizing s with
  | nil => rfl
  | cons x r ih =>
    obtain ⟨env, op⟩ := x
    simp only [run, Spec.candRun]
    rw [ih, abs_invoke]; rfl

theorem abs_init : abs init = Spec.Cand.empty := rfl
theorem abs_initWith (k : Nat) : abs (initWith k) = Spec.Cand.empty := rfl

/-! ### C07: well-formedness of the candidate table along all histories (at the level of the specification) -/

theorem candWF_empty : Spec.CandWF Spec.Cand.empty :=
  ⟨fun _ _ h => (by cases h), fun _ _ h => (by cases h)⟩

theorem candWF_set_legacy {c : Spec.Cand} (hc : Spec.CandWF c) (k : Key) (blob : Bytes)
    (hk : Spec.slice blob = some k) : Spec.CandWF (c.set k ⟨some ⟨blob, 1⟩, (c k).structured⟩) := by
  constructor
  · intro k' n h
    unfold Spec.Cand.set at h
    by_cases e : k' = k
    · simp only [e, if_true, Option.some.injEq] at h
      subst h; subst e; exact ⟨hk, Or.inl rfl⟩
    · simp only [e, if_false] at h; exact hc.1 k' n h
  · intro k' n h
    unfold Spec.Cand.set at h
    by_cases e : k' = k
    · simp only [e, if_true] at h; subst e; exact hc.2 k' n h
    · simp only [e, if_false] at h; exact hc.2 k' n h

theorem candWF_change {c c' : Spec.Cand} (hc : Spec.CandWF c) (st : Int) (k : Key)
    (h : Spec.change c st k = some c') : Spec.CandWF c' := by
  unfold Spec.change at h
  by_cases hk : k.length ≠ 33
  · rw [if_pos hk] at h; cases h
  · rw [if_neg hk] at h
    by_cases h1 : st = 2
    · rw [if_pos h1] at h; cases h
      constructor
      · intro k' n hn
        unfold Spec.Cand.set at hn
        by_cases e : k' = k
        · simp [e] at hn
        · simp only [e, if_false] at hn; exact hc.1 k' n hn
      · intro k' n hn
        unfold Spec.Cand.set at hn
        by_cases e : k' = k
        · simp [e] at hn
        · simp only [e, if_false] at hn; exact hc.2 k' n hn
    · rw [if_neg h1] at h
      by_cases h2 : st = 1 ∨ st = 3
      · rw [if_pos h2] at h
        cases hkn : Spec.known (c k) with
        | false => rw [hkn] at h; cases h
        | true =>
          rw [hkn] at h; cases h
          constructor
          · intro k' n hn
            unfold Spec.Cand.set Spec.withState at hn
            by_cases e : k' = k
            · subst e
              simp only [if_true] at hn
              cases hl : (c k').legacy with
              | none => rw [hl] at hn; cases hn
              | some m =>
                rw [hl] at hn; simp only [Option.map_some, Option.some.injEq] at hn
                subst hn
                exact ⟨(hc.1 k' m hl).1, h2⟩
            · simp only [e, if_false] at hn; exact hc.1 k' n hn
          · intro k' n hn
            unfold Spec.Cand.set Spec.withState at hn
            by_cases e : k' = k
            · subst e
              simp only [if_true] at hn
              cases hl : (c k').structured with
              | none => rw [hl] at hn; cases hn
              | some m =>
                rw [hl] at hn; simp only [Option.map_some, Option.some.injEq] at hn
                subst hn
                have := hc.2 k' m hl
                exact ⟨this.1, this.2.1, h2⟩
            · simp only [e, if_false] at hn; exact hc.2 k' n hn
      · rw [if_neg h2] at h; cases h

theorem candWF_step {c c' : Spec.Cand} (hc : Spec.CandWF c) (a : Bool) (nd : Key → Bool) (op : Op)
    (h : Spec.candStep c a nd op = some c') : Spec.CandWF c' := by
  cases op with
  | addPeer blob =>
    simp only [Spec.candStep] at h
    cases hk : Spec.slice blob with
    | none => rw [hk] at h; cases h
    | some k =>
      rw [hk] at h
      by_cases hh : (nd k && a) = true
      · simp only [hh, if_true, Option.some.injEq] at h; subst h; exact candWF_set_legacy hc k blob hk
      · simp only [hh] at h; cases h
  | addPeerIR blob =>
    simp only [Spec.candStep] at h
    cases hk : Spec.slice blob with
    | none => rw [hk] at h; cases h
    | some k =>
      rw [hk] at h
      by_cases hh : a = true
      · simp only [hh, if_true, Option.some.injEq] at h; subst h; exact candWF_set_legacy hc k blob hk
      · simp only [hh] at h; cases h
  | addNode n =>
    simp only [Spec.candStep] at h
    by_cases hh : n.state = 1 ∧ n.key.length = 33 ∧ nd n.key = true ∧ a = true
    · rw [if_pos hh] at h; cases h
      constructor
      · intro k' m hm
        unfold Spec.Cand.set at hm
        by_cases e : k' = n.key
        · simp only [e, if_true] at hm; subst e; exact hc.1 _ m hm
        · simp only [e, if_false] at hm; exact hc.1 k' m hm
      · intro k' m hm
        unfold Spec.Cand.set at hm
        by_cases e : k' = n.key
        · simp only [e, if_true, Option.some.injEq] at hm
          subst hm; subst e; exact ⟨rfl, hh.2.1, Or.inl hh.1⟩
        · simp only [e, if_false] at hm; exact hc.2 k' m hm
    · rw [if_neg hh] at h; cases h
  | updateState st k =>
    simp only [Spec.candStep] at h
    by_cases hh : (nd k && a) = true
    · simp only [hh, if_true] at h; exact candWF_change hc st k h
    · simp only [hh] at h; cases h
  | updateStateIR st k =>
    simp only [Spec.candStep] at h
    by_cases hh : a = true
    · simp only [hh, if_true] at h; exact candWF_change hc st k h
    · simp only [hh] at h; cases h
  | deleteNode k =>
    simp only [Spec.candStep] at h
    by_cases hh : a = true
    · simp only [hh, if_true] at h; exact candWF_change hc 2 k h
    · simp only [hh] at h; cases h
  | newEpoch e => simp only [Spec.candStep, Option.some.injEq] at h; subst h; exact hc
  | subscribe x => simp only [Spec.candStep, Option.some.injEq] at h; subst h; exact hc
  | updateSnapshotCount n => simp only [Spec.candStep, Option.some.injEq] at h; subst h; exact hc

theorem candWF_run {c : Spec.Cand} (hc : Spec.CandWF c) (hist : List (Env × Op)) : Spec.CandWF (Spec.candRun c hist) := by
  induction hist generalizing c with
  | nil => exact hc
  | cons x r ih =>
    obtain ⟨env, op⟩ := x
    simp only [Spec.candRun]
    apply ih
    cases h : Spec.candStep c env.alphabet (fun k => env.witnesses.contains k) op with
    | none => exact hc
    | some c' => exact candWF_step hc _ _ op h

/-- with a well-formed table the Offline filter of `filterNetmap` removes nothing -/
theorem filterNetmap_all {s : State} (hs : Map.Sorted s.cands) (hw : Spec.CandWF (abs s)) :
    filterNetmap s = netmapCandidates s := by
  unfold filterNetmap
  rw [List.filter_eq_self]
  intro n hn
  unfold netmapCandidates Map.vals at hn
  obtain ⟨⟨k, n'⟩, hm, e⟩ := List.mem_map.mp hn
  simp only at e; subst e
  have hg := Map.get_of_mem hs hm
  have := (hw.1 k n' hg).2
  rw [stOffline_eq]
  rcases this with h | h <;> simp [h]

/-! ### histories -/

theorem run_append (s : State) (h1 h2 : List (Env × Op)) : run s (h1 ++ h2) = run (run s h1) h2 := by
  induction h1 generalizing s with
  | nil => rfl
  | cons x r ih => obtain ⟨env, op⟩ := x; simp only [List.cons_append, run]; exact ih _

theorem tick_run {s : State} (hi : Inv s) (hist : List (Env × Op)) :
    ((run s hist).epoch, subscribers (run s hist)) = Spec.tickRun (s.epoch, subscribers s) hist := by
  induction hist generalizing s with
  | nil => rfl
  | cons x r ih =>
    obtain ⟨env, op⟩ := x
    simp only [run, Spec.tickRun]
    rw [ih (inv_invoke env op hi), epoch_step s env op (by have := hi.count; omega), subscribers_step env op hi]

theorem tickRun_epoch_mono (st : Int × List Hash) (hist : List (Env × Op)) : st.1 ≤ (Spec.tickRun st hist).1 := by
  induction hist generalizing st with
  | nil => exact Int.le_refl _
  | cons x r ih =>
    obtain ⟨env, op⟩ := x
    simp only [Spec.tickRun]
    exact Int.le_trans (epochStep_mono st.1 st.2 env op) (ih _)

theorem tickRun_subs (st : Int × List Hash) (hist : List (Env × Op)) :
    (Spec.tickRun st hist).2 = Spec.subRun st.2 hist := by
  induction hist generalizing st with
  | nil => rfl
  | cons x r ih => obtain ⟨env, op⟩ := x; simp only [Spec.tickRun, Spec.subRun]; exact ih _

theorem epoch_run_mono {s : State} (hi : Inv s) (hist : List (Env × Op)) : s.epoch ≤ (run s hist).epoch := by
  have h := tick_run hi hist
  have := tickRun_epoch_mono (s.epoch, subscribers s) hist
  rw [← h] at this; exact this

theorem subscribers_run {s : State} (hi : Inv s) (hist : List (Env × Op)) :
    subscribers (run s hist) = Spec.subRun (subscribers s) hist := by
  have h := tick_run hi hist
  have := tickRun_subs (s.epoch, subscribers s) hist
  rw [← h] at this; exact this

end NeoFS.Netmap
