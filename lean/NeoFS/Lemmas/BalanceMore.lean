import NeoFS.Lemmas.Balance
set_option linter.unusedSimpArgs false
set_option linter.unusedVariables false
/-! More helper lemmas for the Balance model: pointwise behaviour of the account map, an exact
description of `Token.transfer` (`xfer`) and inversion lemmas for every method of `step`.
Used by `NeoFS/Props/C01.lean`, `C02.lean`, `C09.lean`. -/
namespace NeoFS.Balance
open NeoFS

/-! ### pointwise lemmas on the account map -/

theorem getAcc_cons_self (m : Accts) (k : Hash) (a : Account) : getAcc ((k, a) :: m) k = a := by
  simp [getAcc, List.find?_cons]

theorem getAcc_cons_other (m : Accts) (k k' : Hash) (a : Account) (h : k' ≠ k) :
    getAcc ((k', a) :: m) k = getAcc m k := by
  simp [getAcc, List.find?_cons, h]

theorem getAcc_delAcc_self (m : Accts) (k : Hash) : getAcc (delAcc m k) k = Account.empty :=
  getAcc_absent _ _ (not_mem_del m k)

theorem getAcc_delAcc_other (m : Accts) (k k' : Hash) (h : k' ≠ k) :
    getAcc (delAcc m k') k = getAcc m k := by
  induction m with
  | nil => rfl
  | cons x xs ih =>
    obtain ⟨kx, vx⟩ := x
    by_cases e : kx = k'
    · subst e
      have e1 : delAcc ((kx, vx) :: xs) kx = delAcc xs kx := by simp [delAcc, List.filter_cons]
      rw [e1, ih, getAcc_cons_other _ _ _ _ h]
    · have e1 : delAcc ((kx, vx) :: xs) k' = (kx, vx) :: delAcc xs k' := by
        simp [delAcc, List.filter_cons, e]
      rw [e1]
      by_cases e2 : kx = k
      · subst e2; rw [getAcc_cons_self, getAcc_cons_self]
      · rw [getAcc_cons_other _ _ _ _ e2, getAcc_cons_other _ _ _ _ e2, ih]

theorem getAcc_setAcc_self (m : Accts) (k : Hash) (a : Account) : getAcc (setAcc m k a) k = a := by
  unfold setAcc; exact getAcc_cons_self _ _ _

theorem getAcc_setAcc_other (m : Accts) (k k' : Hash) (a : Account) (h : k' ≠ k) :
    getAcc (setAcc m k' a) k = getAcc m k := by
  unfold setAcc; rw [getAcc_cons_other _ _ _ _ h, getAcc_delAcc_other _ _ _ h]

theorem getAcc_nil (k : Hash) : getAcc [] k = Account.empty := rfl

/-- a key whose record differs from the empty record is stored -/
theorem mem_keys_of_getAcc (m : Accts) (k : Hash) (h : getAcc m k ≠ Account.empty) : k ∈ m.map (·.1) :=
  List.mem_map_of_mem (f := (·.1)) (getAcc_mem m k h)

/-! ### `Token.transfer` as "debit, then credit" -/

/-- the debit half of `Token.transfer` -/
def debitM (m : Accts) (f : Hash) (amt : Int) : Accts :=
  if f.length == 20 then
    (if (getAcc m f).bal = amt then delAcc m f
     else setAcc m f { getAcc m f with bal := (getAcc m f).bal - amt })
  else m

/-- the credit half of `Token.transfer` -/
def creditM (m : Accts) (t : Hash) (amt : Int) : Accts :=
  if t.length == 20 then setAcc m t { getAcc m t with bal := (getAcc m t).bal + amt } else m

theorem canTransfer_inv (m : Accts) (env : Env) (f t : Hash) (amt : Int) (ir : Bool) (a : Account)
    (h : canTransfer m env f t amt ir = some a) :
    0 ≤ amt ∧ (f.length = 20 → a = getAcc m f ∧ amt ≤ a.bal) ∧
      (ir = false → t.length = 20 ∧ f.length = 20 ∧ (f ∈ env.witnesses ∨ env.caller = f)) := by
  unfold canTransfer at h
  split at h
  · cases h
  · rename_i h0
    split at h
    · cases h
    · rename_i h1
      refine ⟨by omega, ?_, ?_⟩
      · intro hf
        split at h
        · rename_i h2
          simp [hf] at h2
        · dsimp only at h
          split at h
          · cases h
          · simp only [Option.some.injEq] at h
            subst h
            exact ⟨rfl, by omega⟩
      · intro hir
        subst hir
        simp [usable] at h1
        refine ⟨h1.1, h1.2.1, ?_⟩
        by_cases hw : f ∈ env.witnesses
        · exact Or.inl hw
        · exact Or.inr (h1.2.2 hw)

/-- exact description of a successful `Token.transfer` -/
theorem xfer_inv (m m' : Accts) (env : Env) (f t : Hash) (amt : Int) (ir : Bool) (d : List Nat)
    (ev : List Event) (h : xfer m env f t amt ir d = some (m', ev)) :
    0 ≤ amt ∧ ev = [.transfer f t amt, .transferX f t amt d] ∧
      m' = creditM (debitM m f amt) t amt ∧ (f.length = 20 → amt ≤ (getAcc m f).bal) ∧
      (ir = false → t.length = 20 ∧ f.length = 20 ∧ (f ∈ env.witnesses ∨ env.caller = f)) := by
  unfold xfer at h
  cases hc : canTransfer m env f t amt ir with
  | none => rw [hc] at h; cases h
  | some a =>
    rw [hc] at h
    simp only [Option.some.injEq, Prod.mk.injEq] at h
    obtain ⟨hm, hev⟩ := h
    obtain ⟨h0, hf, hir⟩ := canTransfer_inv m env f t amt ir a hc
    refine ⟨h0, hev.symm, ?_, ?_, hir⟩
    · rw [← hm]
      unfold creditM debitM
      by_cases hf20 : f.length = 20
      · obtain ⟨rfl, _⟩ := hf hf20
        rfl
      · have : (f.length == 20) = false := by simp [hf20]
        simp only [this]
        rfl
    · intro hf20
      obtain ⟨rfl, hle⟩ := hf hf20
      exact hle

/-- an Alphabet-side transfer from a 20-byte account succeeds whenever the funds are there -/
theorem xfer_ok_ir (m : Accts) (env : Env) (f t : Hash) (amt : Int) (d : List Nat)
    (h0 : 0 ≤ amt) (hf : f.length = 20) (hb : amt ≤ (getAcc m f).bal) :
    xfer m env f t amt true d =
      some (creditM (debitM m f amt) t amt, [.transfer f t amt, .transferX f t amt d]) := by
  have hc : canTransfer m env f t amt true = some (getAcc m f) := by
    unfold canTransfer
    have h1 : ¬ amt < 0 := by omega
    have h2 : ¬ (getAcc m f).bal < amt := by omega
    simp [h1, h2, hf]
  unfold xfer
  rw [hc]
  rfl

theorem debitM_badlen (m : Accts) (f : Hash) (amt : Int) (h : f.length ≠ 20) : debitM m f amt = m := by
  unfold debitM
  have : (f.length == 20) = false := by simp [h]
  simp [this]

theorem creditM_badlen (m : Accts) (t : Hash) (amt : Int) (h : t.length ≠ 20) : creditM m t amt = m := by
  unfold creditM
  have : (t.length == 20) = false := by simp [h]
  simp [this]

theorem getAcc_debitM_self (m : Accts) (f : Hash) (amt : Int) (hf : f.length = 20) :
    getAcc (debitM m f amt) f =
      if (getAcc m f).bal = amt then Account.empty
      else { getAcc m f with bal := (getAcc m f).bal - amt } := by
  unfold debitM
  have : (f.length == 20) = true := by simp [hf]
  simp only [this, if_true]
  split
  · exact getAcc_delAcc_self _ _
  · exact getAcc_setAcc_self _ _ _

theorem getAcc_debitM_other (m : Accts) (f k : Hash) (amt : Int) (h : f ≠ k) :
    getAcc (debitM m f amt) k = getAcc m k := by
  unfold debitM
  split
  · split
    · exact getAcc_delAcc_other _ _ _ h
    · exact getAcc_setAcc_other _ _ _ _ h
  · rfl

theorem getAcc_creditM_self (m : Accts) (t : Hash) (amt : Int) (ht : t.length = 20) :
    getAcc (creditM m t amt) t = { getAcc m t with bal := (getAcc m t).bal + amt } := by
  unfold creditM
  have : (t.length == 20) = true := by simp [ht]
  simp only [this, if_true]
  exact getAcc_setAcc_self _ _ _

theorem getAcc_creditM_other (m : Accts) (t k : Hash) (amt : Int) (h : t ≠ k) :
    getAcc (creditM m t amt) k = getAcc m k := by
  unfold creditM
  split
  · exact getAcc_setAcc_other _ _ _ _ h
  · rfl

/-- a credit never touches `till` and `parent` of any record -/
theorem getAcc_creditM_meta (m : Accts) (t k : Hash) (amt : Int) :
    (getAcc (creditM m t amt) k).till = (getAcc m k).till ∧
      (getAcc (creditM m t amt) k).parent = (getAcc m k).parent := by
  by_cases h : t = k
  · subst h
    by_cases ht : t.length = 20
    · rw [getAcc_creditM_self _ _ _ ht]; exact ⟨rfl, rfl⟩
    · rw [creditM_badlen _ _ _ ht]; exact ⟨rfl, rfl⟩
  · rw [getAcc_creditM_other _ _ _ _ h]; exact ⟨rfl, rfl⟩

/-- the balance function of an account map (what `balanceOf` returns) -/
def balOf (m : Accts) : Hash → Int := fun k => (getAcc m k).bal

theorem balOf_debitM (m : Accts) (f k : Hash) (amt : Int) :
    balOf (debitM m f amt) k = if f.length = 20 ∧ k = f then balOf m k - amt else balOf m k := by
  unfold balOf
  by_cases hk : k = f
  · subst hk
    by_cases hf : k.length = 20
    · rw [getAcc_debitM_self _ _ _ hf]
      simp only [hf, true_and, if_true]
      split
      · rename_i h; simp only [Account.empty]; omega
      · rfl
    · rw [debitM_badlen _ _ _ hf]; simp [hf]
  · rw [getAcc_debitM_other _ _ _ _ (fun e => hk e.symm)]
    simp [hk]

theorem balOf_creditM (m : Accts) (t k : Hash) (amt : Int) :
    balOf (creditM m t amt) k = if t.length = 20 ∧ k = t then balOf m k + amt else balOf m k := by
  unfold balOf
  by_cases hk : k = t
  · subst hk
    by_cases ht : k.length = 20
    · rw [getAcc_creditM_self _ _ _ ht]; simp [ht]
    · rw [creditM_badlen _ _ _ ht]; simp [ht]
  · rw [getAcc_creditM_other _ _ _ _ (fun e => hk e.symm)]
    simp [hk]

/-! ### inversion of `step`, method by method -/

theorem step_transfer_inv (s s' : State) (env : Env) (f t : Hash) (amt : Int) (r : Option Bool)
    (ev : List Event) (h : step s env (.transfer f t amt) = some (s', r, ev)) :
    (∃ m, xfer s.accts env f t amt false [] = some (m, ev) ∧ s' = { s with accts := m } ∧ r = some true) ∨
      (xfer s.accts env f t amt false [] = none ∧ s' = s ∧ r = some false ∧ ev = []) := by
  simp only [step] at h
  cases hx : xfer s.accts env f t amt false [] with
  | none =>
    rw [hx] at h
    simp only [Option.some.injEq, Prod.mk.injEq] at h
    exact Or.inr ⟨rfl, h.1.symm, h.2.1.symm, h.2.2.symm⟩
  | some p =>
    obtain ⟨m, ev'⟩ := p
    rw [hx] at h
    simp only [Option.some.injEq, Prod.mk.injEq] at h
    obtain ⟨h1, h2, h3⟩ := h
    subst h3
    exact Or.inl ⟨m, rfl, h1.symm, h2.symm⟩

theorem alpha_of_cond1 (a : Bool) (h : ¬ ((!a) = true)) : a = true := by
  cases a <;> simp at h ⊢

theorem step_transferX_inv (s s' : State) (env : Env) (f t : Hash) (amt : Int) (d : List Nat)
    (r : Option Bool) (ev : List Event) (h : step s env (.transferX f t amt d) = some (s', r, ev)) :
    env.alphabet = true ∧ badLen f = false ∧ badLen t = false ∧
      ∃ m, xfer s.accts env f t amt true d = some (m, ev) ∧ s' = { s with accts := m } ∧ r = none := by
  simp only [step] at h
  split at h
  · cases h
  · rename_i hc
    simp only [Bool.or_eq_true, not_or, Bool.not_eq_true, Bool.not_eq_false'] at hc
    refine ⟨hc.1.1, hc.1.2, hc.2, ?_⟩
    cases hx : xfer s.accts env f t amt true d with
    | none => rw [hx] at h; cases h
    | some p =>
      obtain ⟨m, ev'⟩ := p
      rw [hx] at h
      simp only [Option.some.injEq, Prod.mk.injEq] at h
      obtain ⟨h1, h2, h3⟩ := h
      subst h3
      exact ⟨m, rfl, h1.symm, h2.symm⟩

theorem step_mint_inv (s s' : State) (env : Env) (t : Hash) (amt : Int) (d : List Nat)
    (r : Option Bool) (ev : List Event) (h : step s env (.mint t amt d) = some (s', r, ev)) :
    env.alphabet = true ∧ badLen t = false ∧
      ∃ m, xfer s.accts env [] t amt true (1 :: d) = some (m, ev) ∧
        s' = { accts := m, supply := s.supply + amt } ∧ r = none := by
  simp only [step] at h
  split at h
  · cases h
  · rename_i hc
    simp only [Bool.or_eq_true, not_or, Bool.not_eq_true, Bool.not_eq_false'] at hc
    refine ⟨hc.1, hc.2, ?_⟩
    cases hx : xfer s.accts env [] t amt true (1 :: d) with
    | none => rw [hx] at h; cases h
    | some p =>
      obtain ⟨m, ev'⟩ := p
      rw [hx] at h
      simp only [Option.some.injEq, Prod.mk.injEq] at h
      obtain ⟨h1, h2, h3⟩ := h
      subst h3
      exact ⟨m, rfl, h1.symm, h2.symm⟩

theorem step_burn_inv (s s' : State) (env : Env) (f : Hash) (amt : Int) (d : List Nat)
    (r : Option Bool) (ev : List Event) (h : step s env (.burn f amt d) = some (s', r, ev)) :
    env.alphabet = true ∧ badLen f = false ∧
      ∃ m, xfer s.accts env f [] amt true (2 :: d) = some (m, ev) ∧ amt ≤ s.supply ∧
        s' = { accts := m, supply := s.supply - amt } ∧ r = none := by
  simp only [step] at h
  split at h
  · cases h
  · rename_i hc
    simp only [Bool.or_eq_true, not_or, Bool.not_eq_true, Bool.not_eq_false'] at hc
    refine ⟨hc.1, hc.2, ?_⟩
    cases hx : xfer s.accts env f [] amt true (2 :: d) with
    | none => rw [hx] at h; cases h
    | some p =>
      obtain ⟨m, ev'⟩ := p
      rw [hx] at h
      simp only at h
      split at h
      · cases h
      · rename_i hs
        simp only [Option.some.injEq, Prod.mk.injEq] at h
        obtain ⟨h1, h2, h3⟩ := h
        subst h3
        exact ⟨m, rfl, by omega, h1.symm, h2.symm⟩

theorem step_lock_inv (s s' : State) (env : Env) (d : List Nat) (f t : Hash) (amt till : Int)
    (r : Option Bool) (ev : List Event) (h : step s env (.lock d f t amt till) = some (s', r, ev)) :
    env.alphabet = true ∧ badLen f = false ∧ badLen t = false ∧
      ∃ m evx, xfer (setAcc s.accts t ⟨0, till, f⟩) env f t amt true (3 :: d) = some (m, evx) ∧
        s' = { s with accts := m } ∧ r = none ∧ ev = evx ++ [.lock d f t amt till] := by
  simp only [step] at h
  split at h
  · cases h
  · rename_i hc
    simp only [Bool.or_eq_true, not_or, Bool.not_eq_true, Bool.not_eq_false'] at hc
    refine ⟨hc.1.1, hc.1.2, hc.2, ?_⟩
    cases hx : xfer (setAcc s.accts t ⟨0, till, f⟩) env f t amt true (3 :: d) with
    | none => rw [hx] at h; cases h
    | some p =>
      obtain ⟨m, ev'⟩ := p
      rw [hx] at h
      simp only [Option.some.injEq, Prod.mk.injEq] at h
      obtain ⟨h1, h2, h3⟩ := h
      exact ⟨m, ev', rfl, h1.symm, h2.symm, h3.symm⟩

/-- the key snapshot the tick iterates over -/
def tickKeys (m : Accts) : List Hash := isort ((m.map (·.1)).filter (fun k => k.length == 20))

/-- the whole unlock loop of `NewEpoch` -/
def tickFold (env : Env) (e : Int) (m : Accts) : Accts × List Event :=
  (tickKeys m).foldl (unlockOne env e) (m, [])

theorem step_newEpoch_inv (s s' : State) (env : Env) (e : Int) (r : Option Bool) (ev : List Event)
    (h : step s env (.newEpoch e) = some (s', r, ev)) :
    env.alphabet = true ∧ s' = { s with accts := (tickFold env e s.accts).1 } ∧ r = none ∧
      ev = (tickFold env e s.accts).2 := by
  simp only [step] at h
  split at h
  · cases h
  · rename_i hc
    simp only [Bool.not_eq_true, Bool.not_eq_false'] at hc
    simp only [Option.some.injEq, Prod.mk.injEq] at h
    exact ⟨hc, h.1.symm, h.2.1.symm, h.2.2.symm⟩

theorem step_newEpoch_alpha (s : State) (env : Env) (e : Int) (ha : env.alphabet = true) :
    step s env (.newEpoch e) =
      some ({ s with accts := (tickFold env e s.accts).1 }, none, (tickFold env e s.accts).2) := by
  simp [step, ha, tickFold, tickKeys]

theorem mem_tickKeys (m : Accts) (k : Hash) : k ∈ tickKeys m ↔ k ∈ m.map (·.1) ∧ k.length = 20 := by
  unfold tickKeys
  rw [mem_isort, List.mem_filter]
  simp

/-- `invoke` in terms of `step` -/
theorem invoke_halt (s s' : State) (env : Env) (op : Op) (r : Option Bool) (ev : List Event)
    (h : step s env op = some (s', r, ev)) : invoke s env op = (s', some (r, ev)) := by
  unfold invoke; rw [h]

theorem invoke_fault (s : State) (env : Env) (op : Op) (h : step s env op = none) :
    invoke s env op = (s, none) := by
  unfold invoke; rw [h]

theorem invoke_some_inv (s : State) (env : Env) (op : Op) (r : Option Bool) (ev : List Event)
    (h : (invoke s env op).2 = some (r, ev)) : step s env op = some ((invoke s env op).1, r, ev) := by
  unfold invoke at h ⊢
  cases hs : step s env op with
  | none => rw [hs] at h; cases h
  | some p =>
    obtain ⟨s', r', ev'⟩ := p
    rw [hs] at h
    simp only [Option.some.injEq, Prod.mk.injEq] at h
    obtain ⟨rfl, rfl⟩ := h
    rfl

end NeoFS.Balance
