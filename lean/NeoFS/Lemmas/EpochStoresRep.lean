import NeoFS.Lemmas.EpochStoresStep
set_option linter.unusedSimpArgs false
set_option linter.unusedVariables false
/-! Reputation lemmas (C20): the listing invariant and the exact characterisation of `ListByEpoch`. -/
namespace NeoFS.EpochStores
open NeoFS

abbrev RepPut := Int × Bytes × Bytes   -- (epoch, peer, value)

def idOf (x : RepPut) : Bytes := storageID x.1 x.2.1

/-- what an invocation contributes to the log of ACCEPTED reputation puts -/
def repEntry (s : State) (env : Env) (op : Op) : List RepPut :=
  match op, step s env op with
  | .rput e p v, some _ => [(e, p, v)]
  | _, _ => []

/-- the accepted reputation puts of a history, oldest first -/
def repLog (s : State) : List (Env × Op) → List RepPut
  | [] => []
  | (env, op) :: rest => repEntry s env op ++ repLog (invoke s env op).1 rest

theorem repEntry_fault (s : State) (env : Env) (op : Op) (h : step s env op = none) : repEntry s env op = [] := by
  unfold repEntry; rw [h]; cases op <;> rfl

theorem repEntry_halt (s s' : State) (env : Env) (op : Op) (r : Ret) (ev : List Event)
    (h : step s env op = some (s', r, ev)) :
    (s'.rep = s.rep ∧ repEntry s env op = []) ∨
    (∃ e p v, op = .rput e p v ∧ env.alpha = true ∧ repPut s.rep e p v = some s'.rep ∧
      repEntry s env op = [(e, p, v)]) := by
  by_cases hop : ∃ e p v, op = .rput e p v
  · obtain ⟨e, p, v, rfl⟩ := hop
    right
    have hh := h
    simp only [step] at hh
    by_cases ha : env.alpha = true
    · simp only [ha, Bool.not_true, Bool.false_eq_true, if_false] at hh
      cases hp : repPut s.rep e p v with
      | none => rw [hp] at hh; cases hh
      | some r1 =>
        rw [hp] at hh
        simp only [Option.some.injEq, Prod.mk.injEq] at hh
        obtain ⟨hh1, _, _⟩ := hh
        subst hh1
        refine ⟨e, p, v, rfl, ha, hp, ?_⟩
        unfold repEntry; rw [h]
    · simp [ha] at hh
  · left
    rcases step_rep s s' env op r ev h with h1 | ⟨e, p, v, hop', _⟩
    · refine ⟨h1, ?_⟩
      unfold repEntry
      cases op <;> first | rfl | (exfalso; exact hop ⟨_, _, _, rfl⟩)
    · exact absurd ⟨e, p, v, hop'⟩ hop

theorem repP_ne : repCountP ≠ repValueP := by decide

/-- listing invariant: the count keys `'c' ‖ id` present are exactly those of the accepted puts; every other
key starts with `'r'` -/
def RepL (s : Store Bytes) (log : List RepPut) : Prop :=
  (∀ kv ∈ s, (∃ x ∈ log, kv.1 = repCountP :: idOf x) ∨ (∃ t, kv.1 = repValueP :: t)) ∧
  (∀ x ∈ log, ∃ v, (repCountP :: idOf x, v) ∈ s)

theorem repL_init : RepL [] [] := ⟨fun kv h => (by cases h), fun x h => (by cases h)⟩

theorem repPut_eq (s : Store Bytes) (e : Int) (p v : Bytes) :
    repPut s e p v =
      if (repCountP :: storageID e p).length ≤ maxKeyLen ∧
          (repValueP :: (storageID e p ++ encInt (repCount s (storageID e p) + 1))).length ≤ maxKeyLen then
        some (put (put s (repCountP :: storageID e p) (encInt (repCount s (storageID e p) + 1)))
          (repValueP :: (storageID e p ++ encInt (repCount s (storageID e p) + 1))) v)
      else none := by
  unfold repPut putK
  simp only
  by_cases h1 : (repCountP :: storageID e p).length ≤ maxKeyLen
  · by_cases h2 : (repValueP :: (storageID e p ++ encInt (repCount s (storageID e p) + 1))).length ≤ maxKeyLen
    · simp only [h1, h2, if_true, and_self]
    · simp only [h1, h2, if_true, if_false, and_false]
  · simp only [h1, if_false, false_and]

theorem repPut_shape (s s' : Store Bytes) (e : Int) (p v : Bytes) (h : repPut s e p v = some s') :
    ∃ cv n, s' = put (put s (repCountP :: storageID e p) cv) (repValueP :: (storageID e p ++ encInt n)) v := by
  rw [repPut_eq] at h
  split at h
  · simp only [Option.some.injEq] at h
    exact ⟨_, _, h.symm⟩
  · cases h

theorem repL_put (s s' : Store Bytes) (log : List RepPut) (e : Int) (p v : Bytes) (hl : RepL s log)
    (h : repPut s e p v = some s') : RepL s' (log ++ [(e, p, v)]) := by
  obtain ⟨cv, n, rfl⟩ := repPut_shape s s' e p v h
  obtain ⟨h1, h2⟩ := hl
  have hne : repCountP :: storageID e p ≠ repValueP :: (storageID e p ++ encInt n) := by
    intro e1; simp only [List.cons.injEq] at e1; exact repP_ne e1.1
  constructor
  · intro kv hkv
    rcases (mem_put_iff _ _ _ kv).mp hkv with e1 | ⟨_, hkv2⟩
    · right; exact ⟨_, by rw [e1]⟩
    · rcases (mem_put_iff _ _ _ kv).mp hkv2 with e2 | ⟨_, hkv3⟩
      · left; exact ⟨(e, p, v), by simp, by rw [e2]; rfl⟩
      · rcases h1 kv hkv3 with ⟨x, hx, e3⟩ | hr
        · left; exact ⟨x, by simp [hx], e3⟩
        · right; exact hr
  · intro x hx
    rw [List.mem_append] at hx
    have key : ∀ w, (repCountP :: idOf x, w) ∈ put s (repCountP :: storageID e p) cv →
        (repCountP :: idOf x, w) ∈ put (put s (repCountP :: storageID e p) cv)
          (repValueP :: (storageID e p ++ encInt n)) v := by
      intro w hw
      rw [mem_put_iff]; right
      refine ⟨?_, hw⟩
      simp only [ne_eq, List.cons.injEq, not_and]
      intro e1; exact absurd e1 repP_ne
    rcases hx with hx | hx
    · obtain ⟨w, hw⟩ := h2 x hx
      by_cases e1 : repCountP :: idOf x = repCountP :: storageID e p
      · refine ⟨cv, key cv ?_⟩
        rw [e1, mem_put_iff]; left; rfl
      · refine ⟨w, key w ?_⟩
        rw [mem_put_iff]; right; exact ⟨e1, hw⟩
    · simp only [List.mem_singleton] at hx
      subst hx
      refine ⟨cv, key cv ?_⟩
      rw [mem_put_iff]; left; rfl

/-- **exact characterisation of `ListByEpoch`**: the ids of ALL accepted puts whose id bytes begin with
`enc q` — whatever epoch they were put under -/
theorem mem_repListByEpoch (s : Store Bytes) (log : List RepPut) (hl : RepL s log) (q : Int) (id : Bytes) :
    id ∈ repListByEpoch s q ↔ (∃ x ∈ log, idOf x = id) ∧ encInt q <+: id := by
  obtain ⟨h1, h2⟩ := hl
  unfold repListByEpoch
  rw [List.mem_map]
  constructor
  · rintro ⟨kv, hkv, rfl⟩
    rw [mem_find_iff] at hkv
    obtain ⟨hm, hp⟩ := hkv
    rcases h1 kv hm with ⟨x, hx, e1⟩ | ⟨t, e1⟩
    · rw [e1] at hp ⊢
      rw [List.cons_prefix_cons] at hp
      exact ⟨⟨x, hx, by simp⟩, by simpa using hp.2⟩
    · rw [e1, List.cons_prefix_cons] at hp
      exact absurd hp.1 repP_ne
  · rintro ⟨⟨x, hx, rfl⟩, hp⟩
    obtain ⟨v, hv⟩ := h2 x hx
    refine ⟨(repCountP :: idOf x, v), ?_, by simp⟩
    rw [mem_find_iff]
    exact ⟨hv, by simp only; rw [List.cons_prefix_cons]; exact ⟨rfl, hp⟩⟩

theorem repL_run (hist : List (Env × Op)) (s : State) (log : List RepPut) (h : RepL s.rep log) :
    RepL (run s hist).rep (log ++ repLog s hist) := by
  induction hist generalizing s log with
  | nil => simpa [run, repLog] using h
  | cons x rest ih =>
    obtain ⟨env, op⟩ := x
    simp only [run, repLog]
    rw [← List.append_assoc]
    apply ih
    cases hs : step s env op with
    | none => rw [invoke_fault s env op hs, repEntry_fault s env op hs]; simpa using h
    | some res =>
      obtain ⟨s', r, ev⟩ := res
      rw [invoke_halt s s' env op r ev hs]
      rcases repEntry_halt s s' env op r ev hs with ⟨e1, e2⟩ | ⟨e, p, v, _, _, hp, e2⟩
      · rw [e1, e2]; simpa using h
      · rw [e2]; exact repL_put _ _ _ _ _ _ h hp

end NeoFS.EpochStores
