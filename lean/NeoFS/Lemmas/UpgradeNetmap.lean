import NeoFS.Lemmas.UpgradeOthers
/-! Netmap and NNS migrations. `Touches W s s'` = "`s'` differs from `s` only at keys satisfying `W`":
every `get` outside `W` and every listing whose prefix excludes `W` is preserved. -/
namespace NeoFS.Upgrade
open NeoFS NeoFS.Generated

structure Touches (W : Bytes → Prop) (s s' : Store) : Prop where
  get_eq : ∀ q, ¬ W q → get s' q = get s q
  snap_eq : ∀ p, (∀ k, W k → hasPrefix p k = false) → snapshot s' p = snapshot s p
  nodup : NodupKeys s → NodupKeys s'

theorem Touches.refl (W : Bytes → Prop) (s : Store) : Touches W s s :=
  ⟨fun _ _ => rfl, fun _ _ => rfl, fun h => h⟩

theorem Touches.trans {W : Bytes → Prop} {s t u : Store} (a : Touches W s t) (b : Touches W t u) : Touches W s u :=
  ⟨fun q hq => (b.get_eq q hq).trans (a.get_eq q hq),
   fun p hp => (b.snap_eq p hp).trans (a.snap_eq p hp), fun h => b.nodup (a.nodup h)⟩

theorem Touches.mono {W W' : Bytes → Prop} {s t : Store} (a : Touches W s t) (h : ∀ k, W k → W' k) : Touches W' s t :=
  ⟨fun q hq => a.get_eq q (fun w => hq (h q w)), fun p hp => a.snap_eq p (fun k w => hp k (h k w)), a.nodup⟩

theorem touches_put (s : Store) (k v : Bytes) : Touches (fun q => q = k) s (put s k v) :=
  ⟨fun q hq => get_put_other s k v q hq, fun p hp => snapshot_put s k v p (hp k rfl), fun h => nodup_put h k v⟩

theorem touches_del (s : Store) (k : Bytes) : Touches (fun q => q = k) s (del s k) :=
  ⟨fun q hq => get_del_other s k q hq, fun p hp => snapshot_del s k p (hp k rfl), fun h => nodup_del h k⟩

theorem touches_switchToNotary {extra : List Bytes} {purge : Bool} {s s1 : Store} {h : Int}
    (hs : switchToNotary extra purge s h = some s1) : Touches (fun q => q ∈ notaryKey :: voteKey :: extra) s s1 :=
  ⟨fun q hq => switchToNotary_get_other hs q hq, fun p hp => switchToNotary_snapshot hs p hp,
   fun hn => switchToNotary_nodup hs hn⟩

/-! ### Netmap: node structures (< 0.16) -/

/-- the new value of a snapshot item -/
def convSnapshot (data : Bytes) : Option Bytes :=
  match deser data with
  | none => none
  | some it =>
    match elems it with
    | none => none
    | some nodes =>
      match mapNodes nodes with
      | none => none
      | some nn => some (ser (.array nn))

theorem migrateSnapshotAt_eq (s : Store) (i : Nat) :
    migrateSnapshotAt s i =
      match get s (snapshotKey i) with
      | none => some s
      | some data => (convSnapshot data).map (put s (snapshotKey i)) := by
  unfold migrateSnapshotAt convSnapshot
  cases get s (snapshotKey i) with
  | none => rfl
  | some data =>
    simp only
    cases deser data with
    | none => rfl
    | some it =>
      simp only
      cases elems it with
      | none => rfl
      | some nodes =>
        simp only
        cases mapNodes nodes with
        | none => rfl
        | some nn => rfl

theorem snapshotKey_inj {i j : Nat} (h : snapshotKey i = snapshotKey j) : i = j := by
  unfold snapshotKey at h
  have := List.append_cancel_left h
  simpa using this

theorem touches_migrateSnapshotAt {s s' : Store} {i : Nat} (h : migrateSnapshotAt s i = some s') :
    Touches (fun q => ∃ j, q = snapshotKey j) s s' := by
  rw [migrateSnapshotAt_eq] at h
  cases hg : get s (snapshotKey i) with
  | none => rw [hg] at h; simp only [Option.some.injEq] at h; rw [← h]; exact Touches.refl _ _
  | some data =>
    rw [hg] at h
    simp only at h
    cases hc : convSnapshot data with
    | none => rw [hc] at h; cases h
    | some d' =>
      rw [hc] at h
      simp only [Option.map_some, Option.some.injEq] at h
      rw [← h]
      exact (touches_put s _ d').mono (fun k e => ⟨i, e⟩)

theorem touches_forSnapshots {s s' : Store} {l : List Nat} (h : forSnapshots s l = some s') :
    Touches (fun q => ∃ j, q = snapshotKey j) s s' := by
  induction l generalizing s with
  | nil => simp only [forSnapshots, Option.some.injEq] at h; rw [← h]; exact Touches.refl _ _
  | cons i r ih =>
    unfold forSnapshots at h
    cases h1 : migrateSnapshotAt s i with
    | none => rw [h1] at h; cases h
    | some s1 =>
      rw [h1] at h
      exact (touches_migrateSnapshotAt h1).trans (ih h)

/-- **every visited snapshot item is converted exactly once**, an absent one stays absent -/
theorem forSnapshots_effect {s s' : Store} {l : List Nat} (h : forSnapshots s l = some s') (hl : l.Nodup)
    (i : Nat) (hi : i ∈ l) :
    match get s (snapshotKey i) with
    | none => get s' (snapshotKey i) = none
    | some d => ∃ d', convSnapshot d = some d' ∧ get s' (snapshotKey i) = some d' := by
  induction l generalizing s with
  | nil => simp at hi
  | cons j r ih =>
    unfold forSnapshots at h
    rw [List.nodup_cons] at hl
    cases h1 : migrateSnapshotAt s j with
    | none => rw [h1] at h; cases h
    | some s1 =>
      rw [h1] at h
      by_cases hij : i = j
      · subst hij
        -- the remaining iterations do not touch this key
        have rest := (touches_forSnapshots h).get_eq (snapshotKey i)
        -- but they may: they touch snapshot keys of OTHER indices only
        have rest' : get s' (snapshotKey i) = get s1 (snapshotKey i) := by
          clear rest
          -- re-prove with the finer information that `i ∉ r`
          have : ∀ (t t' : Store) (r' : List Nat), forSnapshots t r' = some t' → i ∉ r' →
              get t' (snapshotKey i) = get t (snapshotKey i) := by
            intro t t' r'
            induction r' generalizing t with
            | nil => intro ht _; simp only [forSnapshots, Option.some.injEq] at ht; rw [ht]
            | cons m r'' ih' =>
              intro ht hnot
              unfold forSnapshots at ht
              simp only [List.mem_cons, not_or] at hnot
              cases h2 : migrateSnapshotAt t m with
              | none => rw [h2] at ht; cases ht
              | some t1 =>
                rw [h2] at ht
                rw [ih' t1 ht hnot.2]
                rw [migrateSnapshotAt_eq] at h2
                cases hg : get t (snapshotKey m) with
                | none => rw [hg] at h2; simp only [Option.some.injEq] at h2; rw [h2]
                | some d =>
                  rw [hg] at h2
                  simp only at h2
                  cases hc : convSnapshot d with
                  | none => rw [hc] at h2; cases h2
                  | some d' =>
                    rw [hc] at h2
                    simp only [Option.map_some, Option.some.injEq] at h2
                    rw [← h2]
                    exact get_put_other _ _ _ _ (fun e => hnot.1 (snapshotKey_inj e))
          exact this s1 s' r h hl.1
        rw [rest']
        rw [migrateSnapshotAt_eq] at h1
        cases hg : get s (snapshotKey i) with
        | none => rw [hg] at h1; simp only [Option.some.injEq] at h1; rw [← h1]; simpa using hg
        | some d =>
          rw [hg] at h1
          simp only at h1 ⊢
          cases hc : convSnapshot d with
          | none => rw [hc] at h1; cases h1
          | some d' =>
            rw [hc] at h1
            simp only [Option.map_some, Option.some.injEq] at h1
            exact ⟨d', rfl, by rw [← h1, get_put_self]⟩
      · simp only [List.mem_cons] at hi
        rcases hi with e | e
        · exact absurd e hij
        · have := ih h hl.2 e
          -- the first iteration did not touch key i
          have keep : get s1 (snapshotKey i) = get s (snapshotKey i) := by
            rw [migrateSnapshotAt_eq] at h1
            cases hg : get s (snapshotKey j) with
            | none => rw [hg] at h1; simp only [Option.some.injEq] at h1; rw [h1]
            | some d =>
              rw [hg] at h1
              simp only at h1
              cases hc : convSnapshot d with
              | none => rw [hc] at h1; cases h1
              | some d' =>
                rw [hc] at h1
                simp only [Option.map_some, Option.some.injEq] at h1
                rw [← h1]
                exact get_put_other _ _ _ _ (fun e' => hij (snapshotKey_inj e'))
          rw [keep] at this
          exact this

/-- node for node: the old structure `{BLOB, …}` becomes `{BLOB, Online}` -/
inductive NodesConv : List Item → List Item → Prop where
  | nil : NodesConv [] []
  | cons {n : Item} {b : Item} {rest ns ns' : List Item} (h : elems n = some (b :: rest)) (t : NodesConv ns ns') :
      NodesConv (n :: ns) (Item.struct [b, .int netmap_nodestate_Online] :: ns')

theorem NodesConv.length_eq {ns ns' : List Item} (h : NodesConv ns ns') : ns'.length = ns.length := by
  induction h with
  | nil => rfl
  | cons _ _ ih => simp [ih]

/-- what `mapNodes` produces -/
theorem mapNodes_spec {nodes nn : List Item} (h : mapNodes nodes = some nn) : NodesConv nodes nn := by
  induction nodes generalizing nn with
  | nil => simp only [mapNodes, Option.some.injEq] at h; rw [← h]; exact NodesConv.nil
  | cons n r ih =>
    unfold mapNodes at h
    cases h1 : nodeOldToNew n with
    | none => rw [h1] at h; cases h
    | some n' =>
      rw [h1] at h
      simp only at h
      cases h2 : mapNodes r with
      | none => rw [h2] at h; cases h
      | some r' =>
        rw [h2] at h
        simp only [Option.some.injEq] at h
        rw [← h]
        unfold nodeOldToNew at h1
        cases he : elems n with
        | none => rw [he] at h1; cases h1
        | some l =>
          rw [he] at h1
          cases l with
          | nil => cases h1
          | cons b rest =>
            simp only [Option.some.injEq] at h1
            rw [← h1]
            exact NodesConv.cons he (ih h2)

/-! ### Netmap: candidates (< 0.16) -/

theorem touches_forCandidates {s s' : Store} {l : Store} (h : forCandidates s l = some s') :
    Touches (fun q => q ∈ keys l) s s' := by
  induction l generalizing s with
  | nil => simp only [forCandidates, Option.some.injEq] at h; rw [← h]; exact Touches.refl _ _
  | cons kv r ih =>
    obtain ⟨k, v⟩ := kv
    unfold forCandidates at h
    cases hc : candOldToNew v with
    | none => rw [hc] at h; cases h
    | some v' =>
      rw [hc] at h
      simp only at h
      have a := (touches_put s k v').mono (W' := fun q => q ∈ keys ((k, v) :: r)) (fun q e => by simp [keys, e])
      have b := (ih h).mono (W' := fun q => q ∈ keys ((k, v) :: r))
        (fun q e => by simp only [keys, List.map_cons, List.mem_cons]; exact Or.inr e)
      exact a.trans b

/-- every candidate of the snapshot is rewritten with its converted value -/
theorem forCandidates_effect {s s' : Store} {l : Store} (h : forCandidates s l = some s') (hl : NodupKeys l)
    (k v : Bytes) (hm : (k, v) ∈ l) : ∃ v', candOldToNew v = some v' ∧ get s' k = some v' := by
  induction l generalizing s with
  | nil => simp at hm
  | cons kv r ih =>
    obtain ⟨k0, v0⟩ := kv
    unfold forCandidates at h
    simp only [NodupKeys, keys, List.map_cons, List.nodup_cons] at hl
    cases hc : candOldToNew v0 with
    | none => rw [hc] at h; cases h
    | some v0' =>
      rw [hc] at h
      simp only at h
      simp only [List.mem_cons, Prod.mk.injEq] at hm
      rcases hm with ⟨e1, e2⟩ | hm
      · subst e1; subst e2
        refine ⟨v0', hc, ?_⟩
        rw [(touches_forCandidates h).get_eq k hl.1, get_put_self]
      · exact ih h hl.2 hm

/-! ### Netmap: the whole update branch -/

def subPrefix : Bytes := netmap_newEpochSubscribersPrefix_bytes

/-- the keys the Netmap migration may write -/
def NetmapWrites (q : Bytes) : Prop :=
  (∃ j, q = snapshotKey j) ∨ hasPrefix netmap_candidatePrefix q = true ∨ hasPrefix subPrefix q = true ∨
    q ∈ [notaryKey, voteKey, innerRingKey, balanceHashKey, containerHashKey]

theorem mem_snapshot_prefix {s : Store} {p : Bytes} {kv : Bytes × Bytes} (h : kv ∈ snapshot s p) :
    hasPrefix p kv.1 = true ∧ kv ∈ s := by
  have := (snapshot_perm s p).mem_iff.mp h
  simp only [List.mem_filter] at this
  exact ⟨this.2, this.1⟩

theorem touches_netmapNodes16 {s s' : Store} (h : netmapNodes16 s = some s') : Touches NetmapWrites s s' := by
  unfold netmapNodes16 at h
  cases hc : snapshotCount s with
  | none => rw [hc] at h; cases h
  | some c =>
    rw [hc] at h
    simp only at h
    cases h1 : forSnapshots s (List.range c) with
    | none => rw [h1] at h; cases h
    | some s1 =>
      rw [h1] at h
      simp only at h
      have a := (touches_forSnapshots h1).mono (W' := NetmapWrites) (fun q e => Or.inl e)
      have b := (touches_forCandidates h).mono (W' := NetmapWrites) (fun q e => by
        right; left
        obtain ⟨kv, hm, rfl⟩ := List.mem_map.mp e
        exact (mem_snapshot_prefix hm).1)
      exact a.trans b

theorem touches_moveSubscriber {s s' : Store} {oldKey : Bytes} {idx : Nat} (h : moveSubscriber s oldKey idx = some s')
    (ho : oldKey = balanceHashKey ∨ oldKey = containerHashKey) : Touches NetmapWrites s s' := by
  unfold moveSubscriber at h
  cases hg : get s oldKey with
  | none => rw [hg] at h; cases h
  | some hsh =>
    rw [hg] at h
    simp only [Option.some.injEq] at h
    rw [← h]
    have a := (touches_put s (netmap_newEpochSubscribersPrefix_bytes ++ [idx] ++ hsh) []).mono (W' := NetmapWrites)
      (fun q e => by
        right; right; left
        rw [e]
        unfold subPrefix hasPrefix
        simp [netmap_newEpochSubscribersPrefix_bytes, List.isPrefixOf])
    have b := (touches_del (put s (netmap_newEpochSubscribersPrefix_bytes ++ [idx] ++ hsh) []) oldKey).mono
      (W' := NetmapWrites) (fun q e => by
        right; right; right
        rw [e]
        rcases ho with e' | e' <;> simp [e'])
    exact a.trans b

/-- **the Netmap migration writes nothing outside its own families** -/
theorem touches_netmapMigrate {v h : Int} {s s' : Store} (hm : netmapMigrate v h s = some s') :
    Touches NetmapWrites s s' := by
  unfold netmapMigrate at hm
  have stageA : ∀ s1, (if v < 16000 then netmapNodes16 s else some s) = some s1 → Touches NetmapWrites s s1 := by
    intro s1 h1
    by_cases hv : v < 16000
    · simp only [hv, if_true] at h1; exact touches_netmapNodes16 h1
    · simp only [hv, if_false, Option.some.injEq] at h1; rw [← h1]; exact Touches.refl _ _
  cases h1 : (if v < 16000 then netmapNodes16 s else some s) with
  | none => rw [h1] at hm; cases hm
  | some s1 =>
    rw [h1] at hm
    simp only at hm
    have tA := stageA s1 h1
    cases h2 : (if v < 17000 then switchToNotary [innerRingKey] true s1 h else some s1) with
    | none => rw [h2] at hm; cases hm
    | some s2 =>
      rw [h2] at hm
      simp only at hm
      have tB : Touches NetmapWrites s1 s2 := by
        by_cases hv : v < 17000
        · simp only [hv, if_true] at h2
          exact (touches_switchToNotary h2).mono (fun q e => by
            right; right; right
            simp only [List.mem_cons, List.not_mem_nil, or_false] at e ⊢
            rcases e with e | e | e
            · exact Or.inl e
            · exact Or.inr (Or.inl e)
            · exact Or.inr (Or.inr (Or.inl e)))
        · simp only [hv, if_false, Option.some.injEq] at h2; rw [← h2]; exact Touches.refl _ _
      by_cases hv : v < 19000
      · simp only [hv, if_true] at hm
        cases h3 : moveSubscriber s2 balanceHashKey 0 with
        | none => rw [h3] at hm; cases hm
        | some s3 =>
          rw [h3] at hm
          simp only at hm
          exact ((tA.trans tB).trans (touches_moveSubscriber h3 (Or.inl rfl))).trans
            (touches_moveSubscriber hm (Or.inr rfl))
      · simp only [hv, if_false, Option.some.injEq] at hm
        rw [← hm]; exact tA.trans tB

/-- **key separation**: nothing the migration writes looks like a configuration key -/
theorem netmapWrites_not_config (k : Bytes) (h : NetmapWrites k) : hasPrefix netmap_configPrefix k = false := by
  have two : ∀ (a b : Nat) (r : Bytes), (a ≠ 99 ∨ b ≠ 111) → hasPrefix netmap_configPrefix (a :: b :: r) = false := by
    intro a b r hab
    unfold hasPrefix netmap_configPrefix
    simp only [List.isPrefixOf]
    rcases hab with e | e
    · have : (99 == a) = false := by simpa using fun x => e x.symm
      simp [this]
    · have : (111 == b) = false := by simpa using fun x => e x.symm
      simp [this]
  rcases h with ⟨j, e⟩ | h | h | h
  · rw [e]; unfold snapshotKey netmap_snapshotKeyPrefix_bytes
    exact two _ _ _ (Or.inl (by decide))
  · unfold hasPrefix netmap_candidatePrefix at h
    match k, h with
    | [a], h => simp [List.isPrefixOf] at h
    | a :: b :: r, h =>
      simp only [List.isPrefixOf, Bool.and_eq_true, beq_iff_eq] at h
      exact two _ _ _ (Or.inr (by omega))
  · unfold subPrefix hasPrefix netmap_newEpochSubscribersPrefix_bytes at h
    match k, h with
    | [a], h =>
      simp only [List.isPrefixOf, Bool.and_eq_true, beq_iff_eq] at h
      unfold hasPrefix netmap_configPrefix; simp [List.isPrefixOf]
    | a :: b :: r, h =>
      simp only [List.isPrefixOf, Bool.and_eq_true, beq_iff_eq] at h
      exact two _ _ _ (Or.inl (by omega))
  · have : ∀ k ∈ [notaryKey, voteKey, innerRingKey, balanceHashKey, containerHashKey],
        hasPrefix netmap_configPrefix k = false := by decide
    exact this k h

/-- `listConfig()` answers the same records in the same order after the upgrade -/
theorem netmap_config_preserved {v h : Int} {s s' : Store} (hm : netmapMigrate v h s = some s') :
    nmConfig s' = nmConfig s := by
  unfold nmConfig
  rw [(touches_netmapMigrate hm).snap_eq netmap_configPrefix netmapWrites_not_config]

/-- a single configuration value (`config(key)`) is preserved as well -/
theorem netmap_config_get {v h : Int} {s s' : Store} (hm : netmapMigrate v h s = some s') (key : Bytes) :
    get s' (netmap_configPrefix ++ key) = get s (netmap_configPrefix ++ key) := by
  apply (touches_netmapMigrate hm).get_eq
  intro hw
  have := netmapWrites_not_config _ hw
  unfold hasPrefix at this
  have t : netmap_configPrefix.isPrefixOf (netmap_configPrefix ++ key) = true := by
    rw [List.isPrefixOf_iff_prefix]; exact List.prefix_append _ _
  rw [t] at this; cases this

/-- epoch, epoch block, current snapshot id and snapshot count are not written -/
theorem netmap_scalars_preserved {v h : Int} {s s' : Store} (hm : netmapMigrate v h s = some s') :
    ∀ k ∈ [netmap_snapshotEpoch_bytes, netmap_snapshotBlockKey_bytes, netmap_snapshotCurrentIDKey_bytes,
      netmap_snapshotCountKey_bytes], get s' k = get s k := by
  intro k hk
  apply (touches_netmapMigrate hm).get_eq
  intro hw
  have hlen : ∀ k ∈ [netmap_snapshotEpoch_bytes, netmap_snapshotBlockKey_bytes, netmap_snapshotCurrentIDKey_bytes,
      netmap_snapshotCountKey_bytes], k.length ≠ 10 ∧ hasPrefix netmap_candidatePrefix k = false ∧
      hasPrefix subPrefix k = false ∧ k ∉ [notaryKey, voteKey, innerRingKey, balanceHashKey, containerHashKey] := by
    decide
  obtain ⟨a, b, c, d⟩ := hlen k hk
  rcases hw with ⟨j, e⟩ | hw | hw | hw
  · apply a; rw [e]; simp [snapshotKey, netmap_snapshotKeyPrefix_bytes]
  · rw [b] at hw; cases hw
  · rw [c] at hw; cases hw
  · exact d hw

/-! ### NNS (< 0.18) -/

/-- the keys the NNS migration may write: balances, account tokens, name states -/
def NnsWrites (q : Bytes) : Prop :=
  q.head? = some nns_prefixBalance.toNat ∨ q.head? = some nns_prefixAccountToken.toNat ∨
    q.head? = some nns_prefixName.toNat

/-- balances and account tokens -/
def NnsBalTok (q : Bytes) : Prop :=
  q.head? = some nns_prefixBalance.toNat ∨ q.head? = some nns_prefixAccountToken.toNat

theorem touches_nnsDropOwner (s : Store) (owner tk : Bytes) : Touches NnsBalTok s (nnsDropOwner s owner tk) := by
  unfold nnsDropOwner
  simp only
  generalize storedIntOr0 s (nns_prefixBalance.toNat :: owner) = bal
  have W1 : ∀ q, q = nns_prefixBalance.toNat :: owner → NnsBalTok q := fun q e => Or.inl (by rw [e]; rfl)
  have W2 : ∀ q, q = nns_prefixAccountToken.toNat :: (owner ++ tk) → NnsBalTok q :=
    fun q e => Or.inr (by rw [e]; rfl)
  have first : Touches NnsBalTok s (if bal - 1 = 0 then del s (nns_prefixBalance.toNat :: owner)
      else put s (nns_prefixBalance.toNat :: owner) (encInt (bal - 1))) := by
    by_cases hb : bal - 1 = 0
    · simp only [hb, if_true]; exact (touches_del s _).mono W1
    · simp only [hb, if_false]; exact (touches_put s _ _).mono W1
  exact first.trans ((touches_del _ _).mono W2)

theorem touches_nnsStep {s s' : Store} {kv : Bytes × Bytes} (h : nnsStep s kv = some s')
    (hk : kv.1.head? = some nns_prefixName.toNat) : Touches NnsWrites s s' := by
  unfold nnsStep at h
  cases hd : deser kv.2 with
  | none => rw [hd] at h; cases h
  | some it =>
    rw [hd] at h
    simp only at h
    split at h
    · rename_i owner nameI rest _
      split at h
      · rename_i name
        split at h
        · simp only [Option.some.injEq] at h; rw [← h]; exact Touches.refl _ _
        · split at h
          · rename_i o
            simp only [Option.some.injEq] at h
            rw [← h]
            exact ((touches_nnsDropOwner s o _).mono (W' := NnsWrites) (fun q e => by
                rcases e with e | e
                · exact Or.inl e
                · exact Or.inr (Or.inl e))).trans
              ((touches_put _ kv.1 _).mono (fun q e => Or.inr (Or.inr (by rw [e]; exact hk))))
          · cases h
      · cases h
    · cases h

theorem touches_forNames {s s' : Store} {l : Store} (h : forNames s l = some s')
    (hl : ∀ kv ∈ l, kv.1.head? = some nns_prefixName.toNat) : Touches NnsWrites s s' := by
  induction l generalizing s with
  | nil => simp only [forNames, Option.some.injEq] at h; rw [← h]; exact Touches.refl _ _
  | cons kv r ih =>
    unfold forNames at h
    cases h1 : nnsStep s kv with
    | none => rw [h1] at h; cases h
    | some s1 =>
      rw [h1] at h
      exact (touches_nnsStep h1 (hl kv List.mem_cons_self)).trans
        (ih h (fun kv' hm => hl kv' (List.mem_cons_of_mem _ hm)))

/-- **the NNS migration writes only balances, account tokens and name states**: records (`0x22`),
roots (`0x20`), total supply (`0x00`) and the price (`0x10`) are out of its reach -/
theorem touches_nnsMigrate {v : Int} {s s' : Store} (hm : nnsMigrate v s = some s') : Touches NnsWrites s s' := by
  unfold nnsMigrate at hm
  by_cases hv : v ≥ 18000
  · simp only [hv, if_true, Option.some.injEq] at hm; rw [← hm]; exact Touches.refl _ _
  · simp only [hv, if_false] at hm
    apply touches_forNames hm
    intro kv hmem
    exact (hasPrefix_singleton _ _).mp (mem_snapshot_prefix hmem).1

end NeoFS.Upgrade
