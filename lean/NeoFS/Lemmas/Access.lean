import NeoFS.Model.Access
/-! Soundness of the abstract evaluator of the witness-inertness IR (C03). -/
namespace NeoFS.Access

theorem mem_ins (x r : Res) (l : List Res) : x ∈ ins r l ↔ x = r ∨ x ∈ l := by
  unfold ins
  split
  · rename_i h
    constructor
    · exact Or.inr
    · rintro (rfl | h')
      · exact List.contains_iff_mem.mp h
      · exact h'
  · simp

theorem mem_union (x : Res) (a b : List Res) : x ∈ union a b ↔ x ∈ a ∨ x ∈ b := by
  unfold union
  induction a with
  | nil => simp
  | cons y ys ih =>
    simp only [List.foldr_cons, mem_ins, ih, List.mem_cons]
    constructor
    · rintro (h | h | h)
      · exact Or.inl (Or.inl h)
      · exact Or.inl (Or.inr h)
      · exact Or.inr h
    · rintro ((h | h) | h)
      · exact Or.inl h
      · exact Or.inr (Or.inl h)
      · exact Or.inr (Or.inr h)

theorem mem_bind (x : Res) (l : List Res) (f : Res → List Res) : x ∈ bind l f ↔ ∃ r ∈ l, x ∈ f r := by
  unfold bind
  induction l with
  | nil => simp
  | cons y ys ih =>
    simp only [List.foldr_cons, mem_union, ih, List.mem_cons]
    constructor
    · rintro (h | ⟨r, hr, hx⟩)
      · exact ⟨y, Or.inl rfl, h⟩
      · exact ⟨r, Or.inr hr, hx⟩
    · rintro ⟨r, (rfl | hr), hx⟩
      · exact Or.inl hx
      · exact Or.inr ⟨r, hr, hx⟩

/-- the effect flag is monotone along every run -/
theorem Exec.mono {v s e r} (h : Exec v s e r) : e = true → r.2 = true := by
  induction h with
  | skip | fault | ret | retT | retF | brk | guardOk _ | guardNo _ => exact id
  | effect => intro _; rfl
  | seqNorm _ _ ih1 ih2 => exact fun h => ih2 (ih1 h)
  | seqStop _ _ ih => exact ih
  | ifT _ _ ih | ifF _ _ ih | choiceL _ ih | choiceR _ ih => exact ih
  | loopDone => exact id
  | loopStep _ _ _ ih1 ih2 => exact fun h => ih2 (ih1 h)
  | loopStop _ _ _ ih => exact ih
  | tryOk _ _ ih => exact ih
  | tryCatch _ _ ih1 ih2 => exact fun h => ih2 (ih1 h)
  | scopeRet _ _ ih => exact ih
  | scopeOther _ _ ih => exact ih
  | callT _ _ ih1 ih2 | callF _ _ ih1 ih2 => exact fun h => ih2 (ih1 h)
  | callUL _ _ _ ih1 ih2 | callUR _ _ _ ih1 ih2 => exact fun h => ih2 (ih1 h)
  | callFault _ ih => exact ih

def goesOn (r : Res) : Bool := (r.1 == .norm || r.1 == .brk) && r.2

theorem mem_loop_outs {v a e r} :
    r ∈ outs v (.loop a) e ↔
      ∃ h, (h = e ∨ (h = true ∧ (outs v a e).any goesOn = true)) ∧
        (r = (.norm, h) ∨ (r ∈ outs v a h ∧ r.1 ≠ .norm ∧ r.1 ≠ .brk)) := by
  have hfold : ∀ (heads : List Bool) (x : Res),
      x ∈ heads.foldr (fun h acc => union ((.norm, h) :: (outs v a h).filter (fun r => r.1 != .norm && r.1 != .brk)) acc) [] ↔
        ∃ h ∈ heads, (x = (.norm, h) ∨ (x ∈ outs v a h ∧ x.1 ≠ .norm ∧ x.1 ≠ .brk)) := by
    intro heads x
    induction heads with
    | nil => simp
    | cons h hs ih =>
      simp only [List.foldr_cons, mem_union, ih, List.mem_cons, List.mem_filter]
      constructor
      · rintro ((h1 | ⟨h1, h2⟩) | ⟨h', hh', hx⟩)
        · exact ⟨h, Or.inl rfl, Or.inl h1⟩
        · refine ⟨h, Or.inl rfl, Or.inr ⟨h1, ?_⟩⟩
          simpa using h2
        · exact ⟨h', Or.inr hh', hx⟩
      · rintro ⟨h', (rfl | hh'), hx⟩
        · left
          rcases hx with hx | ⟨h1, h2⟩
          · exact Or.inl hx
          · exact Or.inr ⟨h1, by simpa using h2⟩
        · exact Or.inr ⟨h', hh', hx⟩
  simp only [outs]
  rw [hfold]
  constructor
  · rintro ⟨h, hh, hr⟩
    refine ⟨h, ?_, hr⟩
    rcases List.mem_cons.mp hh with rfl | hh
    · exact Or.inl rfl
    · split at hh
      · rename_i hany
        simp at hh
        exact Or.inr ⟨hh, hany⟩
      · cases hh
  · rintro ⟨h, hh, hr⟩
    refine ⟨h, ?_, hr⟩
    rcases hh with rfl | ⟨rfl, hany⟩
    · exact List.mem_cons_self ..
    · apply List.mem_cons_of_mem
      have : (outs v a e).any (fun r => (r.1 == .norm || r.1 == .brk) && r.2) = true := hany
      rw [if_pos this]; simp

/-- every concrete outcome is listed by the abstract evaluator -/
theorem sound {v s e r} (h : Exec v s e r) : r ∈ outs v s e := by
  induction h with
  | skip | effect | fault | ret | retT | retF | brk => simp [outs]
  | guardOk hw => simp [outs, hw]
  | guardNo hw => simp [outs, hw]
  | seqNorm _ _ ih1 ih2 =>
    simp only [outs, mem_bind]; exact ⟨_, ih1, by simpa using ih2⟩
  | @seqStop a b e k e' _ hk ih =>
    simp only [outs, mem_bind]; exact ⟨_, ih, by simp [hk]⟩
  | ifT hw _ ih => simpa [outs, hw] using ih
  | ifF hw _ ih => simpa [outs, hw] using ih
  | choiceL _ ih => simp only [outs, mem_union]; exact Or.inl ih
  | choiceR _ ih => simp only [outs, mem_union]; exact Or.inr ih
  | loopDone => rw [mem_loop_outs]; exact ⟨_, Or.inl rfl, Or.inl rfl⟩
  | @loopStep a e k e' r h1 hk _ ih1 ih2 =>
    rw [mem_loop_outs] at ih2 ⊢
    obtain ⟨h, hh, hr⟩ := ih2
    have hmono := Exec.mono h1
    by_cases hee : e' = e
    · subst hee; exact ⟨h, hh, hr⟩
    · have he : e = false := by
        cases e with
        | false => rfl
        | true => exact absurd (hmono rfl) hee
      have he' : e' = true := by
        cases e' with
        | true => rfl
        | false => exact absurd he.symm hee
      subst he; subst he'
      have hany : (outs v a false).any goesOn = true := by
        rw [List.any_eq_true]
        refine ⟨_, ih1, ?_⟩
        rcases hk with rfl | rfl <;> simp [goesOn]
      have hh' : h = true := by
        rcases hh with rfl | ⟨rfl, _⟩ <;> rfl
      subst hh'
      exact ⟨true, Or.inr ⟨rfl, hany⟩, hr⟩
  | loopStop _ hk1 hk2 ih => rw [mem_loop_outs]; exact ⟨_, Or.inl rfl, Or.inr ⟨ih, hk1, hk2⟩⟩
  | @tryOk a h e k e' _ hk ih =>
    simp only [outs, mem_bind]; exact ⟨_, ih, by simp [hk]⟩
  | tryCatch _ _ ih1 ih2 =>
    simp only [outs, mem_bind]; exact ⟨_, ih1, by simpa using ih2⟩
  | @scopeRet a e k e' _ hk ih =>
    simp only [outs, mem_bind]; exact ⟨_, ih, by simp [hk]⟩
  | @scopeOther a e k e' _ hk ih =>
    simp only [outs, mem_bind]; exact ⟨_, ih, by simp [hk]⟩
  | callT _ _ ih1 ih2 =>
    simp only [outs, mem_bind]; exact ⟨_, ih1, by simpa using ih2⟩
  | callF _ _ ih1 ih2 =>
    simp only [outs, mem_bind]; exact ⟨_, ih1, by simpa using ih2⟩
  | @callUL c a b e k e' r _ hk _ ih1 ih2 =>
    simp only [outs, mem_bind]; refine ⟨_, ih1, ?_⟩
    rcases hk with rfl | rfl | rfl <;> simp [mem_union, ih2]
  | @callUR c a b e k e' r _ hk _ ih1 ih2 =>
    simp only [outs, mem_bind]; refine ⟨_, ih1, ?_⟩
    rcases hk with rfl | rfl | rfl <;> simp [mem_union, ih2]
  | callFault _ ih =>
    simp only [outs, mem_bind]; exact ⟨_, ih, by simp⟩

theorem inertB_sound (v : Val) (s : Stmt) (h : inertB v s = true) : Inert v s := by
  intro r hr
  have := List.all_eq_true.mp h r (sound hr)
  simpa using this

end NeoFS.Access
