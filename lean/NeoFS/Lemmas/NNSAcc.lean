import NeoFS.Lemmas.NNS
set_option linter.unusedSimpArgs false
set_option linter.unusedVariables false
/-! The NEP-11 accounting invariant of the NNS model (C10) and its preservation by every method. -/
namespace NeoFS.NNS
open NeoFS

/-- 1 when the non-TLD name `k` with state `ns` is recorded for owner `o` -/
def ind (k : Name) (ns : NameState) (o : Hash) : Int := if isTLD k = false ∧ ns.owner = o then 1 else 0

/-- number of non-TLD names recorded for `o` -/
def countOwned : Map Name NameState → Hash → Int
  | [], _ => 0
  | (k, ns) :: r, o => ind k ns o + countOwned r o

/-- number of non-TLD names recorded -/
def countNonTLD : Map Name NameState → Int
  | [] => 0
  | (k, _) :: r => (if isTLD k = false then 1 else 0) + countNonTLD r

def oldInd (m : Map Name NameState) (k : Name) (o : Hash) : Int :=
  match mget m k with
  | some ns => ind k ns o
  | none => 0

def oldCnt (m : Map Name NameState) (k : Name) : Int :=
  match mget m k with
  | some _ => if isTLD k = false then 1 else 0
  | none => 0

theorem countOwned_mdel {m : Map Name NameState} (k : Name) (o : Hash) (h : Uniq m) :
    countOwned (mdel m k) o = countOwned m o - oldInd m k o := by
  induction m with
  | nil => simp [mdel, countOwned, oldInd, mget]
  | cons x xs ih =>
    obtain ⟨k', v'⟩ := x
    have hx : k' ∉ mkeys xs := by unfold Uniq mkeys at h; exact (List.nodup_cons.mp h).1
    have hxs : Uniq xs := by unfold Uniq mkeys at h ⊢; exact (List.nodup_cons.mp h).2
    rw [mdel_cons]
    unfold oldInd
    rw [mget_cons]
    by_cases e : k' = k
    · subst e
      simp only [if_true, countOwned]
      rw [mdel_absent hx]; omega
    · simp only [e, if_false, countOwned]
      have := ih hxs
      unfold oldInd at this
      rw [this]; omega

theorem countOwned_mput {m : Map Name NameState} (k : Name) (ns : NameState) (o : Hash) (h : Uniq m) :
    countOwned (mput m k ns) o = countOwned m o - oldInd m k o + ind k ns o := by
  unfold mput; simp only [countOwned]; rw [countOwned_mdel k o h]; omega

theorem countNonTLD_mdel {m : Map Name NameState} (k : Name) (h : Uniq m) :
    countNonTLD (mdel m k) = countNonTLD m - oldCnt m k := by
  induction m with
  | nil => simp [mdel, countNonTLD, oldCnt, mget]
  | cons x xs ih =>
    obtain ⟨k', v'⟩ := x
    have hx : k' ∉ mkeys xs := by unfold Uniq mkeys at h; exact (List.nodup_cons.mp h).1
    have hxs : Uniq xs := by unfold Uniq mkeys at h ⊢; exact (List.nodup_cons.mp h).2
    rw [mdel_cons]
    unfold oldCnt
    rw [mget_cons]
    by_cases e : k' = k
    · subst e
      simp only [if_true, countNonTLD]
      rw [mdel_absent hx]; omega
    · simp only [e, if_false, countNonTLD]
      have := ih hxs
      unfold oldCnt at this
      rw [this]; omega

theorem countNonTLD_mput {m : Map Name NameState} (k : Name) (ns : NameState) (h : Uniq m) :
    countNonTLD (mput m k ns) = countNonTLD m - oldCnt m k + (if isTLD k = false then 1 else 0) := by
  unfold mput; simp only [countNonTLD]; rw [countNonTLD_mdel k h]; omega

/-- the balance part of `updateBalance` -/
def updBal (bal : Map Hash Int) (a : Hash) (d : Int) : Map Hash Int :=
  if (mget bal a).getD 0 + d = 0 then mdel bal a else mput bal a ((mget bal a).getD 0 + d)

theorem updateBalance_bal' (s : State) (t : Name) (a : Hash) (d : Int) :
    (updateBalance s t a d).bal = updBal s.bal a d := rfl

theorem uniq_updBal {bal : Map Hash Int} (a : Hash) (d : Int) (h : Uniq bal) : Uniq (updBal bal a d) := by
  unfold updBal; split
  · exact uniq_mdel a h
  · exact uniq_mput a _ h

theorem total_updBal {bal : Map Hash Int} (a : Hash) (d : Int) (h : Uniq bal) :
    total (updBal bal a d) = total bal + d := by
  unfold updBal; split
  · rw [total_mdel a h]; omega
  · rw [total_mput a _ h]; omega

theorem getD_updBal (bal : Map Hash Int) (a o : Hash) (d : Int) :
    (mget (updBal bal a d) o).getD 0 = (mget bal o).getD 0 + (if a = o then d else 0) := by
  unfold updBal; split
  · rename_i hz
    rw [mget_mdel]
    by_cases e : a = o
    · subst e; simp only [if_true, Option.getD_none]; omega
    · simp [e]
  · rw [mget_mput]
    by_cases e : a = o
    · subst e; simp
    · simp [e]

/-- The accounting invariant (C10): unique keys, every record is filed under its own name, TLDs are
committee-owned and every other name has a 20-byte owner, and the three NEP-11 books agree with the name
records: supply = number of non-TLD names = sum of balances, balance of `o` = number of names recorded
for `o`, and the token index of `o` holds exactly those names. -/
structure AccInv (s : State) : Prop where
  un : Uniq s.names
  ub : Uniq s.bal
  ut : Uniq s.toks
  key : ∀ k ns, mget s.names k = some ns → ns.name = k
  owner : ∀ k ns, mget s.names k = some ns → if isTLD k = true then ns.owner = [] else ns.owner.length = 20
  supply : s.supply = countNonTLD s.names
  sum : total s.bal = s.supply
  bal : ∀ o, (mget s.bal o).getD 0 = countOwned s.names o
  toks : ∀ o n, mget s.toks (o, n) =
    match mget s.names n with
    | some ns => if isTLD n = false ∧ ns.owner = o then some n else none
    | none => none

theorem accInv_init : AccInv init := by
  refine ⟨?_, ?_, ?_, ?_, ?_, rfl, rfl, ?_, ?_⟩ <;> simp [init, Uniq, mkeys, mget, countOwned]

/-- nothing but records, roots and the price changed -/
theorem acc_ledger {s s' : State} (h : AccInv s) (hn : s'.names = s.names) (hs : s'.supply = s.supply)
    (hb : s'.bal = s.bal) (ht : s'.toks = s.toks) : AccInv s' := by
  obtain ⟨a1, a2, a3, a4, a5, a6, a7, a8, a9⟩ := h
  refine ⟨?_, ?_, ?_, ?_, ?_, ?_, ?_, ?_, ?_⟩
  · rw [hn]; exact a1
  · rw [hb]; exact a2
  · rw [ht]; exact a3
  · rw [hn]; exact a4
  · rw [hn]; exact a5
  · rw [hn, hs]; exact a6
  · rw [hb, hs]; exact a7
  · rw [hn, hb]; exact a8
  · rw [hn, ht]; exact a9

/-- a record is rewritten with the same owner (renew, setAdmin, re-registration of a TLD) or a TLD is added -/
theorem acc_same_owner {s s' : State} (h : AccInv s) (k : Name) (ns' : NameState)
    (hold : ∀ ns, mget s.names k = some ns → ns'.owner = ns.owner)
    (hnew : mget s.names k = none → isTLD k = true ∧ ns'.owner = [])
    (hname : ns'.name = k)
    (hn : s'.names = mput s.names k ns') (hs : s'.supply = s.supply)
    (hb : s'.bal = s.bal) (ht : s'.toks = s.toks) : AccInv s' := by
  obtain ⟨a1, a2, a3, a4, a5, a6, a7, a8, a9⟩ := h
  have hind : ∀ o, oldInd s.names k o = ind k ns' o := by
    intro o
    unfold oldInd
    cases hg : mget s.names k with
    | none =>
      obtain ⟨t1, t2⟩ := hnew hg
      simp [ind, t1]
    | some ns =>
      simp only [ind, hold ns hg]
  have hcnt : oldCnt s.names k = if isTLD k = false then 1 else 0 := by
    unfold oldCnt
    cases hg : mget s.names k with
    | none => simp [(hnew hg).1]
    | some ns => rfl
  refine ⟨?_, ?_, ?_, ?_, ?_, ?_, ?_, ?_, ?_⟩
  · rw [hn]; exact uniq_mput k ns' a1
  · rw [hb]; exact a2
  · rw [ht]; exact a3
  · intro k2 ns2 hg
    rw [hn, mget_mput] at hg
    by_cases e : k = k2
    · subst e; simp at hg; subst hg; exact hname
    · simp [e] at hg; exact a4 k2 ns2 hg
  · intro k2 ns2 hg
    rw [hn, mget_mput] at hg
    by_cases e : k = k2
    · subst e; simp at hg; subst hg
      cases hg2 : mget s.names k with
      | none => simp [(hnew hg2).1, (hnew hg2).2]
      | some ns => rw [hold ns hg2]; exact a5 k ns hg2
    · simp [e] at hg; exact a5 k2 ns2 hg
  · rw [hn, hs, countNonTLD_mput k ns' a1, hcnt]; omega
  · rw [hb, hs]; exact a7
  · intro o
    rw [hn, hb, countOwned_mput k ns' o a1, hind o, a8 o]; omega
  · intro o n
    rw [hn, ht, mget_mput, a9 o n]
    by_cases e : k = n
    · subst e
      simp only [if_true]
      cases hg : mget s.names k with
      | none => simp [(hnew hg).1]
      | some ns => simp only [hold ns hg]
    · simp [e]

/-- the name `k` moves from its recorded owner to `ns'.owner` (transfer, takeover of an expired name) -/
theorem acc_move {s s' : State} (h : AccInv s) (k : Name) (ns ns' : NameState)
    (hk : isTLD k = false) (hg : mget s.names k = some ns) (hname : ns'.name = k) (hlen : ns'.owner.length = 20)
    (hn : s'.names = mput s.names k ns') (hs : s'.supply = s.supply)
    (hb : s'.bal = updBal (updBal s.bal ns.owner (-1)) ns'.owner 1)
    (ht : s'.toks = mput (mdel s.toks (ns.owner, k)) (ns'.owner, k) k) : AccInv s' := by
  obtain ⟨a1, a2, a3, a4, a5, a6, a7, a8, a9⟩ := h
  refine ⟨?_, ?_, ?_, ?_, ?_, ?_, ?_, ?_, ?_⟩
  · rw [hn]; exact uniq_mput k ns' a1
  · rw [hb]; exact uniq_updBal _ _ (uniq_updBal _ _ a2)
  · rw [ht]; exact uniq_mput _ _ (uniq_mdel _ a3)
  · intro k2 ns2 hg2
    rw [hn, mget_mput] at hg2
    by_cases e : k = k2
    · subst e; simp at hg2; subst hg2; exact hname
    · simp [e] at hg2; exact a4 k2 ns2 hg2
  · intro k2 ns2 hg2
    rw [hn, mget_mput] at hg2
    by_cases e : k = k2
    · subst e; simp at hg2; subst hg2; simp [hk, hlen]
    · simp [e] at hg2; exact a5 k2 ns2 hg2
  · rw [hn, hs, countNonTLD_mput k ns' a1]
    unfold oldCnt; rw [hg]; simp only []; omega
  · rw [hb, hs, total_updBal _ _ (uniq_updBal _ _ a2), total_updBal _ _ a2]; omega
  · intro o
    rw [hn, hb, countOwned_mput k ns' o a1, getD_updBal, getD_updBal, a8 o]
    unfold oldInd; rw [hg]; simp only [ind, hk, true_and]
    by_cases e1 : ns.owner = o <;> by_cases e2 : ns'.owner = o <;> simp [e1, e2] <;> omega
  · intro o n
    rw [hn, ht, mget_mput, mget_mput, mget_mdel, a9 o n]
    by_cases e : k = n
    · subst e
      simp only [if_true, hk, true_and, hg]
      by_cases e1 : ns'.owner = o
      · subst e1; simp
      · have : ¬((ns'.owner, k) = (o, k)) := by intro c; injection c with c1 _; exact e1 c1
        simp only [this, if_false, e1]
        by_cases e2 : ns.owner = o
        · subst e2; simp
        · have : ¬((ns.owner, k) = (o, k)) := by intro c; injection c with c1 _; exact e2 c1
          simp [this, e2]
    · have t1 : ¬((ns'.owner, k) = (o, n)) := by intro c; injection c with _ c2; exact e c2
      have t2 : ¬((ns.owner, k) = (o, n)) := by intro c; injection c with _ c2; exact e c2
      simp [t1, t2, e]

/-- a new non-TLD name is recorded for `ns'.owner` -/
theorem acc_new {s s' : State} (h : AccInv s) (k : Name) (ns' : NameState)
    (hk : isTLD k = false) (hg : mget s.names k = none) (hname : ns'.name = k) (hlen : ns'.owner.length = 20)
    (hn : s'.names = mput s.names k ns') (hs : s'.supply = s.supply + 1)
    (hb : s'.bal = updBal s.bal ns'.owner 1)
    (ht : s'.toks = mput s.toks (ns'.owner, k) k) : AccInv s' := by
  obtain ⟨a1, a2, a3, a4, a5, a6, a7, a8, a9⟩ := h
  refine ⟨?_, ?_, ?_, ?_, ?_, ?_, ?_, ?_, ?_⟩
  · rw [hn]; exact uniq_mput k ns' a1
  · rw [hb]; exact uniq_updBal _ _ a2
  · rw [ht]; exact uniq_mput _ _ a3
  · intro k2 ns2 hg2
    rw [hn, mget_mput] at hg2
    by_cases e : k = k2
    · subst e; simp at hg2; subst hg2; exact hname
    · simp [e] at hg2; exact a4 k2 ns2 hg2
  · intro k2 ns2 hg2
    rw [hn, mget_mput] at hg2
    by_cases e : k = k2
    · subst e; simp at hg2; subst hg2; simp [hk, hlen]
    · simp [e] at hg2; exact a5 k2 ns2 hg2
  · rw [hn, hs, countNonTLD_mput k ns' a1]
    unfold oldCnt; rw [hg]; simp only [hk, if_true]; omega
  · rw [hb, hs, total_updBal _ _ a2]; omega
  · intro o
    rw [hn, hb, countOwned_mput k ns' o a1, getD_updBal, a8 o]
    unfold oldInd; rw [hg]; simp only [ind, hk, true_and]
    by_cases e2 : ns'.owner = o <;> simp [e2]
  · intro o n
    rw [hn, ht, mget_mput, mget_mput, a9 o n]
    by_cases e : k = n
    · subst e
      simp only [if_true, hk, true_and, hg]
      by_cases e1 : ns'.owner = o
      · subst e1; simp
      · have : ¬((ns'.owner, k) = (o, k)) := by intro c; injection c with c1 _; exact e1 c1
        simp [this, e1]
    · have t1 : ¬((ns'.owner, k) = (o, n)) := by intro c; injection c with _ c2; exact e c2
      simp [t1, e]

theorem nameStateWithKey_some {s : State} {now : Int} {t : Name} {ns : NameState}
    (h : nameStateWithKey s now t = some ns) : mget s.names t = some ns ∧ now < ns.exp := by
  unfold nameStateWithKey at h
  split at h
  · simp at h
  · rename_i ns0 h0
    split at h
    · simp at h
    · rename_i hx
      injection h with h; subst h
      exact ⟨h0, by omega⟩

theorem fragNameState_some {s : State} {now : Int} {t : Name} {fr : List Bytes} {ns : NameState}
    (h : fragNameState s now t fr = some ns) :
    mget s.names t = some ns ∧ now < ns.exp ∧ parentExpired s now 1 fr = false := by
  unfold fragNameState at h
  split at h
  · simp at h
  · rename_i ns0 h0
    split at h
    · simp at h
    · rename_i hx
      injection h with h; subst h
      obtain ⟨g1, g2⟩ := nameStateWithKey_some h0
      exact ⟨g1, g2, by simpa using hx⟩

theorem isTLD_false_of_len {n : Name} (h : isTLD n = false) : (split dot n).length ≠ 1 := by
  unfold isTLD at h; simpa using h

/-- every method preserves the accounting invariant -/
theorem accInv_step (s : State) (env : Env) (op : Op) (h : AccInv s) : AccInv (invoke s env op).1 := by
  unfold invoke
  cases hst : step s env op with
  | none => exact h
  | some out =>
    obtain ⟨s', r, ev⟩ := out
    show AccInv s'
    cases op with
    | setPrice p =>
      obtain ⟨_, _, _, e⟩ := setPrice_inv hst
      injection e with e1 _; subst e1
      exact acc_ledger h rfl rfl rfl rfl
    | transfer to t =>
      obtain ⟨hto, htld, ns, hns, hcase⟩ := transfer_inv hst
      obtain ⟨hg, _⟩ := nameStateWithKey_some hns
      rcases hcase with ⟨_, e⟩ | ⟨_, _, e⟩
      · injection e with e1 _; subst e1; exact h
      · injection e with e1 _
        by_cases hft : ns.owner = to
        · rw [if_pos hft] at e1; subst e1; exact h
        · rw [if_neg hft] at e1; subst e1
          refine acc_move h t ns { ns with owner := to, admin := [] } htld hg (h.key t ns hg) hto rfl rfl rfl ?_
          simp [updateBalance_toks]
    | renew n y =>
      obtain ⟨_, _, _, ns, hns, _, _, _, e⟩ := renew_inv hst
      obtain ⟨hg, _, _⟩ := fragNameState_some hns
      injection e with e1 _; subst e1
      have hk := h.key n ns hg
      refine acc_same_owner h n { ns with exp := ns.exp + Generated.nns_millisecondsInYear * y } ?_ ?_ hk ?_ rfl rfl rfl
      · intro ns2 h2; rw [hg] at h2; injection h2 with h2; subst h2; rfl
      · intro h2; rw [hg] at h2; simp at h2
      · show mput s.names ns.name _ = mput s.names n _
        rw [hk]
    | setAdmin n a =>
      obtain ⟨_, _, ns, hns, _, e⟩ := setAdmin_inv hst
      obtain ⟨hg, _, _⟩ := fragNameState_some hns
      injection e with e1 _; subst e1
      have hk := h.key n ns hg
      refine acc_same_owner h n { ns with admin := a } ?_ ?_ hk ?_ rfl rfl rfl
      · intro ns2 h2; rw [hg] at h2; injection h2 with h2; subst h2; rfl
      · intro h2; rw [hg] at h2; simp at h2
      · show mput s.names ns.name _ = mput s.names n _
        rw [hk]
    | updateSOA n e a b c d =>
      obtain ⟨_, _, _, s1, hs1, e⟩ := updateSOA_inv hst
      injection e with e1 _; subst e1
      obtain ⟨_, ⟨l1, _, l3, l4, l5, _⟩, _⟩ := putSoaRecord_some hs1
      exact acc_ledger h l1 l3 l4 l5
    | registerTLD n e a b c d =>
      obtain ⟨_, _, htld, hroot, s1, hs1, e⟩ := registerTLD_inv hst
      injection e with e1 _; subst e1
      obtain ⟨_, l1, _, l3, l4, l5, _, _⟩ := saveDomain_some hs1
      refine acc_same_owner h n ⟨[], n, _, []⟩ ?_ ?_ rfl l1 l3 l4 l5
      · intro ns2 h2
        have := h.owner n ns2 h2
        rw [if_pos htld] at this
        exact this.symm
      · intro _; exact ⟨htld, rfl⟩
    | register n o e a b c d =>
      obtain ⟨_, htld, _, _, _, _, hlen, _, _, hcase⟩ := register_inv hst
      rcases hcase with ⟨ns, _, _, e⟩ | ⟨ns, s1, hg, _, _, hs1, e⟩ | ⟨s1, hg, _, hs1, e⟩
      · injection e with e1 _; subst e1; exact h
      · injection e with e1 _; subst e1
        obtain ⟨_, l1, _, l3, l4, l5, _, _⟩ := saveDomain_some hs1
        refine acc_move h n ns ⟨o, n, _, []⟩ htld hg rfl hlen l1 l3 ?_ ?_
        · rw [updateBalance_bal', l4]; rfl
        · rw [updateBalance_toks, l5]; simp [updateBalance_toks]
      · injection e with e1 _; subst e1
        obtain ⟨_, l1, _, l3, l4, l5, _, _⟩ := saveDomain_some hs1
        refine acc_new h n ⟨o, n, _, []⟩ htld hg rfl hlen l1 l3 ?_ ?_
        · rw [updateBalance_bal', l4]
        · rw [updateBalance_toks, l5]; simp
    | addRecord n t d =>
      obtain ⟨tok, tb, s1, _, _, _, _, _, hs1, e⟩ := addRecord_inv hst
      injection e with e1 _; subst e1
      obtain ⟨⟨l1, _, l3, l4, l5, _⟩, _⟩ := updateSoaSerial_some hs1
      exact acc_ledger h l1 l3 l4 l5
    | setRecord n t i d =>
      obtain ⟨tok, tb, idb, old, s1, _, _, _, _, _, hs1, e⟩ := setRecord_inv hst
      injection e with e1 _; subst e1
      obtain ⟨⟨l1, _, l3, l4, l5, _⟩, _⟩ := updateSoaSerial_some hs1
      exact acc_ledger h l1 l3 l4 l5
    | deleteRecords n t =>
      obtain ⟨_, _, _, ns, tb, s1, _, _, _, hs1, e⟩ := deleteRecords_inv hst
      injection e with e1 _; subst e1
      obtain ⟨⟨l1, _, l3, l4, l5, _⟩, _⟩ := updateSoaSerial_some hs1
      exact acc_ledger h l1 l3 l4 l5

/-- the invariant holds after every history from a fresh deployment -/
theorem accInv_run (hist : List (Env × Op)) : ∀ s, AccInv s → AccInv (run s hist) := by
  induction hist with
  | nil => intro s h; exact h
  | cons x xs ih =>
    intro s h
    obtain ⟨env, op⟩ := x
    exact ih _ (accInv_step s env op h)

/-! ### how one invocation changes the name records and which notifications it emits -/

def isTransferEv : Event → Bool
  | .transfer .. => true
  | _ => false

/-- the five ways a HALTed invocation relates the name records before and after to its notifications -/
inductive NamesChange (s s' : State) (ev : List Event) : Prop
  | same : s'.names = s.names → (∀ e ∈ ev, isTransferEv e = false) → NamesChange s s' ev
  | rewrite (k : Name) (ns ns' : NameState) : mget s.names k = some ns → ns'.owner = ns.owner →
      s'.names = mput s.names k ns' → (∀ e ∈ ev, isTransferEv e = false) → NamesChange s s' ev
  | tld (k : Name) (ns' : NameState) : isTLD k = true → ns'.owner = [] → s'.names = mput s.names k ns' →
      (∀ e ∈ ev, isTransferEv e = false) → NamesChange s s' ev
  | selfTransfer (k : Name) (ns : NameState) : isTLD k = false → mget s.names k = some ns → s' = s →
      ev = [.transfer ns.owner ns.owner 1 k] → NamesChange s s' ev
  | move (k : Name) (ns ns' : NameState) : isTLD k = false → mget s.names k = some ns →
      s'.names = mput s.names k ns' → ev = [.transfer ns.owner ns'.owner 1 k] → NamesChange s s' ev
  | new (k : Name) (ns' : NameState) : isTLD k = false → mget s.names k = none →
      s'.names = mput s.names k ns' → ev = [.transfer [] ns'.owner 1 k] → NamesChange s s' ev

theorem step_names_cases {s s' : State} {env : Env} {op : Op} {r : Ret} {ev : List Event} (h : AccInv s)
    (hst : step s env op = some (s', r, ev)) : NamesChange s s' ev := by
  cases op with
  | setPrice p =>
    obtain ⟨_, _, _, e⟩ := setPrice_inv hst
    injection e with e1 e2; injection e2 with _ e3; subst e1; subst e3
    exact .same rfl (by simp)
  | transfer to t =>
    obtain ⟨hto, htld, ns, hns, hcase⟩ := transfer_inv hst
    obtain ⟨hg, _⟩ := nameStateWithKey_some hns
    rcases hcase with ⟨_, e⟩ | ⟨_, _, e⟩
    · injection e with e1 e2; injection e2 with _ e3; subst e1; subst e3
      exact .same rfl (by simp)
    · injection e with e1 e2; injection e2 with _ e3; subst e3
      by_cases hft : ns.owner = to
      · rw [if_pos hft] at e1; subst e1
        have : [Event.transfer ns.owner to 1 t] = [Event.transfer ns.owner ns.owner 1 t] := by rw [← hft]
        rw [this]
        exact .selfTransfer t ns htld hg rfl rfl
      · rw [if_neg hft] at e1; subst e1
        exact .move t ns { ns with owner := to, admin := [] } htld hg rfl rfl
  | renew n y =>
    obtain ⟨_, _, _, ns, hns, _, _, _, e⟩ := renew_inv hst
    obtain ⟨hg, _, _⟩ := fragNameState_some hns
    injection e with e1 e2; injection e2 with _ e3; subst e1; subst e3
    have hk := h.key n ns hg
    refine .rewrite n ns { ns with exp := ns.exp + Generated.nns_millisecondsInYear * y } hg rfl ?_ (by simp [isTransferEv])
    show mput s.names ns.name _ = mput s.names n _
    rw [hk]
  | setAdmin n a =>
    obtain ⟨_, _, ns, hns, _, e⟩ := setAdmin_inv hst
    obtain ⟨hg, _, _⟩ := fragNameState_some hns
    injection e with e1 e2; injection e2 with _ e3; subst e1; subst e3
    have hk := h.key n ns hg
    refine .rewrite n ns { ns with admin := a } hg rfl ?_ (by simp [isTransferEv])
    show mput s.names ns.name _ = mput s.names n _
    rw [hk]
  | updateSOA n e a b c d =>
    obtain ⟨_, _, _, s1, hs1, e⟩ := updateSOA_inv hst
    injection e with e1 e2; injection e2 with _ e3; subst e1; subst e3
    obtain ⟨_, ⟨l1, _⟩, _⟩ := putSoaRecord_some hs1
    exact .same l1 (by simp)
  | registerTLD n e a b c d =>
    obtain ⟨_, _, htld, hroot, s1, hs1, e⟩ := registerTLD_inv hst
    injection e with e1 e2; injection e2 with _ e3; subst e1; subst e3
    obtain ⟨_, l1, _⟩ := saveDomain_some hs1
    exact .tld n ⟨[], n, _, []⟩ htld rfl l1 (by simp)
  | register n o e a b c d =>
    obtain ⟨_, htld, _, _, _, _, hlen, _, _, hcase⟩ := register_inv hst
    rcases hcase with ⟨ns, _, _, e⟩ | ⟨ns, s1, hg, _, _, hs1, e⟩ | ⟨s1, hg, _, hs1, e⟩
    · injection e with e1 e2; injection e2 with _ e3; subst e1; subst e3
      exact .same rfl (by simp)
    · injection e with e1 e2; injection e2 with _ e3; subst e1; subst e3
      obtain ⟨_, l1, _⟩ := saveDomain_some hs1
      exact .move n ns ⟨o, n, _, []⟩ htld hg l1 rfl
    · injection e with e1 e2; injection e2 with _ e3; subst e1; subst e3
      obtain ⟨_, l1, _⟩ := saveDomain_some hs1
      exact .new n ⟨o, n, _, []⟩ htld hg l1 rfl
  | addRecord n t d =>
    obtain ⟨tok, tb, s1, _, _, _, _, _, hs1, e⟩ := addRecord_inv hst
    injection e with e1 e2; injection e2 with _ e3; subst e1; subst e3
    obtain ⟨⟨l1, _⟩, _⟩ := updateSoaSerial_some hs1
    exact .same l1 (by simp)
  | setRecord n t i d =>
    obtain ⟨tok, tb, idb, old, s1, _, _, _, _, _, hs1, e⟩ := setRecord_inv hst
    injection e with e1 e2; injection e2 with _ e3; subst e1; subst e3
    obtain ⟨⟨l1, _⟩, _⟩ := updateSoaSerial_some hs1
    exact .same l1 (by simp)
  | deleteRecords n t =>
    obtain ⟨_, _, _, ns, tb, s1, _, _, _, hs1, e⟩ := deleteRecords_inv hst
    injection e with e1 e2; injection e2 with _ e3; subst e1; subst e3
    obtain ⟨⟨l1, _⟩, _⟩ := updateSoaSerial_some hs1
    exact .same l1 (by simp)

end NeoFS.NNS
