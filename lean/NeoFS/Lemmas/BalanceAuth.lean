import NeoFS.Lemmas.BalanceEvents
set_option linter.unusedSimpArgs false
set_option linter.unusedVariables false
/-! Lemmas for C02: who may lower a balance. -/
namespace NeoFS.Balance
open NeoFS

/-- `Token.transfer` lowers at most the balance of `from` -/
theorem xfer_debit_only_from (m m' : Accts) (env : Env) (f t : Hash) (amt : Int) (ir : Bool)
    (d : List Nat) (ev : List Event) (h : xfer m env f t amt ir d = some (m', ev)) (k : Hash)
    (hlt : balOf m' k < balOf m k) : k = f ∧ f.length = 20 := by
  obtain ⟨h0, _, rfl, _⟩ := xfer_inv _ _ _ _ _ _ _ _ _ h
  rw [balOf_creditM, balOf_debitM] at hlt
  by_cases hf : f.length = 20 ∧ k = f
  · exact ⟨hf.2, hf.1⟩
  · simp only [hf, if_false] at hlt
    split at hlt <;> omega

/-- the sender's authorisation in the public method -/
def OwnerAuth (env : Env) (a : Hash) : Prop := a ∈ env.witnesses ∨ env.caller = a

theorem public_debit_step (s s' : State) (env : Env) (f t : Hash) (amt : Int) (r : Option Bool)
    (ev : List Event) (h : step s env (.transfer f t amt) = some (s', r, ev)) (a : Hash)
    (hlt : balOf s'.accts a < balOf s.accts a) : a = f ∧ OwnerAuth env f := by
  rcases step_transfer_inv _ _ _ _ _ _ _ _ h with ⟨m, hx, rfl, _⟩ | ⟨_, rfl, _, _⟩
  · obtain ⟨_, _, _, _, hir⟩ := xfer_inv _ _ _ _ _ _ _ _ _ hx
    exact ⟨(xfer_debit_only_from _ _ _ _ _ _ _ _ _ hx a hlt).1, (hir rfl).2.2⟩
  · exact absurd hlt (Int.lt_irrefl _)

theorem debit_auth_step (s s' : State) (env : Env) (op : Op) (r : Option Bool) (ev : List Event)
    (h : step s env op = some (s', r, ev)) (a : Hash) (hlt : balOf s'.accts a < balOf s.accts a) :
    env.alphabet = true ∨ OwnerAuth env a := by
  cases op with
  | transfer f t amt =>
    obtain ⟨rfl, hw⟩ := public_debit_step _ _ _ _ _ _ _ _ h a hlt
    exact Or.inr hw
  | transferX f t amt d => exact Or.inl (step_transferX_inv _ _ _ _ _ _ _ _ _ h).1
  | mint t amt d => exact Or.inl (step_mint_inv _ _ _ _ _ _ _ _ h).1
  | burn f amt d => exact Or.inl (step_burn_inv _ _ _ _ _ _ _ _ h).1
  | lock d f t amt till => exact Or.inl (step_lock_inv _ _ _ _ _ _ _ _ _ _ h).1
  | newEpoch e => exact Or.inl (step_newEpoch_inv _ _ _ _ _ _ h).1

theorem debit_auth_invoke (s : State) (env : Env) (op : Op) (a : Hash)
    (hlt : balOf (invoke s env op).1.accts a < balOf s.accts a) :
    env.alphabet = true ∨ OwnerAuth env a := by
  cases hs : step s env op with
  | none =>
    rw [invoke_fault _ _ _ hs] at hlt
    exact absurd hlt (Int.lt_irrefl _)
  | some p =>
    obtain ⟨s', r, ev⟩ := p
    rw [invoke_halt _ _ _ _ _ _ hs] at hlt
    exact debit_auth_step _ _ _ _ _ _ hs a hlt

theorem public_debit_invoke (s : State) (env : Env) (f t : Hash) (amt : Int) (a : Hash)
    (hlt : balOf (invoke s env (.transfer f t amt)).1.accts a < balOf s.accts a) :
    a = f ∧ OwnerAuth env f := by
  cases hs : step s env (.transfer f t amt) with
  | none =>
    rw [invoke_fault _ _ _ hs] at hlt
    exact absurd hlt (Int.lt_irrefl _)
  | some p =>
    obtain ⟨s', r, ev⟩ := p
    rw [invoke_halt _ _ _ _ _ _ hs] at hlt
    exact public_debit_step _ _ _ _ _ _ _ _ hs a hlt

/-- exactly when the public method answers `true` -/
theorem xfer_public_some_iff (m : Accts) (env : Env) (f t : Hash) (amt : Int) :
    (∃ p, xfer m env f t amt false [] = some p) ↔
      0 ≤ amt ∧ t.length = 20 ∧ f.length = 20 ∧ OwnerAuth env f ∧ amt ≤ (getAcc m f).bal := by
  constructor
  · rintro ⟨⟨m', ev⟩, h⟩
    obtain ⟨h0, _, _, hle, hir⟩ := xfer_inv _ _ _ _ _ _ _ _ _ h
    obtain ⟨ht, hf, hw⟩ := hir rfl
    exact ⟨h0, ht, hf, hw, hle hf⟩
  · rintro ⟨h0, ht, hf, hw, hle⟩
    have hu : usable env f = true := by
      unfold usable
      rcases hw with hw | hw
      · simp [hf, hw]
      · simp [hf, hw]
    have hc : canTransfer m env f t amt false = some (getAcc m f) := by
      unfold canTransfer
      have h1 : ¬ amt < 0 := by omega
      have h2 : ¬ (getAcc m f).bal < amt := by omega
      simp [h1, h2, ht, hu]
    unfold xfer
    rw [hc]
    exact ⟨_, rfl⟩

theorem transfer_true_iff (s : State) (env : Env) (f t : Hash) (amt : Int) :
    (∃ ev, (invoke s env (.transfer f t amt)).2 = some (some true, ev)) ↔
      0 ≤ amt ∧ t.length = 20 ∧ f.length = 20 ∧ OwnerAuth env f ∧ amt ≤ (getAcc s.accts f).bal := by
  rw [← xfer_public_some_iff]
  unfold invoke
  simp only [step]
  cases hx : xfer s.accts env f t amt false [] with
  | none => simp
  | some p => simp

theorem run_append (s : State) (h1 h2 : List (Env × Op)) : run s (h1 ++ h2) = run (run s h1) h2 := by
  induction h1 generalizing s with
  | nil => rfl
  | cons x rest ih => obtain ⟨env, op⟩ := x; exact ih _

/-- over any sequence of invocations: a balance that ends lower than it started was debited by an
invocation that carried the Alphabet's or the holder's authorisation -/
theorem debit_auth_hist (hist : List (Env × Op)) (s : State) (a : Hash)
    (hlt : balOf (run s hist).accts a < balOf s.accts a) :
    ∃ x ∈ hist, x.1.alphabet = true ∨ OwnerAuth x.1 a := by
  induction hist generalizing s with
  | nil => exact absurd hlt (Int.lt_irrefl _)
  | cons x rest ih =>
    obtain ⟨env, op⟩ := x
    by_cases h1 : balOf (invoke s env op).1.accts a < balOf s.accts a
    · exact ⟨(env, op), List.mem_cons_self .., debit_auth_invoke s env op a h1⟩
    · have h2 : balOf (run (invoke s env op).1 rest).accts a < balOf (invoke s env op).1.accts a := by
        have : run s ((env, op) :: rest) = run (invoke s env op).1 rest := rfl
        rw [this] at hlt
        omega
      obtain ⟨y, hy, hauth⟩ := ih _ h2
      exact ⟨y, List.mem_cons_of_mem _ hy, hauth⟩

end NeoFS.Balance
