import NeoFS.Lemmas.NeoFSMain
set_option linter.unusedSimpArgs false
set_option linter.unusedVariables false
/-! Helper lemmas for the GAS accounting of the NeoFS main-contract model (C19): ledger algebra, the native
transfer, per-method charges, and the ledger identity over histories. Property theorems live in
`NeoFS/Props/C19.lean`. -/
namespace NeoFS.Main
open NeoFS NeoFS.Vote

/-! ### ledger algebra -/

theorem Ledger.add_apply (g : Ledger) (a : Hash) (x : Int) (b : Hash) :
    (g.add a x) b = g b + (if b = a then x else 0) := by
  unfold Ledger.add; split <;> simp

/-- a transfer takes `amt` from the sender and gives `amt` to the recipient, whoever they are
(`from = to` and amount 0 included) -/
theorem Ledger.move_apply (g : Ledger) (f t : Hash) (a : Int) (x : Hash) :
    (g.move f t a) x = g x - (if x = f then a else 0) + (if x = t then a else 0) := by
  unfold Ledger.move
  by_cases h : f = t ∨ a = 0
  · rw [if_pos h]
    rcases h with h | h
    · subst h; split <;> omega
    · subst h; split <;> split <;> omega
  · rw [if_neg h, Ledger.add_apply, Ledger.add_apply]
    split <;> split <;> omega

/-! ### native GAS transfer -/

theorem gasTransfer_true {w : World} {g g' : Ledger} {auth : Bool} {frm to : Hash} {amt : Int} {d : Data}
    {evs : List Event} (h : gasTransfer w g auth frm to amt d = some (true, g', evs)) :
    frm.length = 20 ∧ to.length = 20 ∧ 0 ≤ amt ∧ auth = true ∧ amt ≤ g frm ∧ g' = g.move frm to amt ∧
    (to = w.self → ∃ e, onPayment true frm amt d = some e ∧ evs = .gasT frm to amt :: e) ∧
    (to ≠ w.self → evs = [.gasT frm to amt]) := by
  unfold gasTransfer at h
  by_cases h1 : frm.length ≠ 20 ∨ to.length ≠ 20
  · simp [h1] at h
  · rw [if_neg h1] at h
    by_cases h2 : amt < 0
    · simp [h2] at h
    · rw [if_neg h2] at h
      cases auth with
      | false => simp at h
      | true =>
        simp only [Bool.not_true, Bool.false_eq_true, if_false] at h
        by_cases h3 : g frm < amt
        · simp [h3] at h
        · rw [if_neg h3] at h
          have hl : frm.length = 20 ∧ to.length = 20 := by
            constructor
            · apply Classical.byContradiction; intro c; exact h1 (Or.inl c)
            · apply Classical.byContradiction; intro c; exact h1 (Or.inr c)
          by_cases h4 : to = w.self
          · rw [if_pos h4] at h
            cases ho : onPayment true frm amt d with
            | none => rw [ho] at h; cases h
            | some e =>
              rw [ho] at h
              simp only [Option.some.injEq, Prod.mk.injEq, true_and] at h
              exact ⟨hl.1, hl.2, by omega, rfl, by omega, h.1.symm, fun _ => ⟨e, rfl, h.2.symm⟩, fun c => absurd h4 c⟩
          · rw [if_neg h4] at h
            simp only [Option.some.injEq, Prod.mk.injEq, true_and] at h
            exact ⟨hl.1, hl.2, by omega, rfl, by omega, h.1.symm, fun c => absurd c h4, fun _ => h.2.symm⟩

theorem gasTransfer_false {w : World} {g g' : Ledger} {auth : Bool} {frm to : Hash} {amt : Int} {d : Data}
    {evs : List Event} (h : gasTransfer w g auth frm to amt d = some (false, g', evs)) : g' = g ∧ evs = [] := by
  unfold gasTransfer at h
  by_cases h1 : frm.length ≠ 20 ∨ to.length ≠ 20
  · simp [h1] at h
  · rw [if_neg h1] at h
    by_cases h2 : amt < 0
    · rw [if_pos h2] at h; simp only [Option.some.injEq, Prod.mk.injEq, true_and] at h; exact ⟨h.1.symm, h.2.symm⟩
    · rw [if_neg h2] at h
      cases auth with
      | false => simp only [Bool.not_false, if_true, Option.some.injEq, Prod.mk.injEq, true_and] at h; exact ⟨h.1.symm, h.2.symm⟩
      | true =>
        simp only [Bool.not_true, Bool.false_eq_true, if_false] at h
        by_cases h3 : g frm < amt
        · rw [if_pos h3] at h; simp only [Option.some.injEq, Prod.mk.injEq, true_and] at h; exact ⟨h.1.symm, h.2.symm⟩
        · rw [if_neg h3] at h
          split at h
          · split at h
            · cases h
            · simp at h
          · simp at h

theorem mustTransfer_some {w : World} {g g' : Ledger} {auth : Bool} {frm to : Hash} {amt : Int} {d : Data}
    {evs : List Event} (h : mustTransfer w g auth frm to amt d = some (g', evs)) :
    gasTransfer w g auth frm to amt d = some (true, g', evs) := by
  unfold mustTransfer at h
  split at h
  · rename_i g'' evs' he
    simp only [Option.some.injEq, Prod.mk.injEq] at h
    rw [he, h.1, h.2]
  · cases h

/-- the ignore marker silences the callback for every caller and amount -/
theorem onPayment_marker (c : Bool) (frm : Hash) (amt : Int) : onPayment c frm amt (.bytes ignoreMarker) = some [] := by
  simp [onPayment, Data.form, onPaymentBody]

/-! ### the withdraw fee in vote mode: one transfer per stored key -/

theorem payEach_char {w : World} {u : Hash} {fee : Int} (ks : List Key) (g g' : Ledger) (evs evs' : List Event)
    (hself : ∀ k ∈ ks, w.acc k ≠ some w.self) (h : payEach w u fee ks g evs = some (g', evs')) :
    ∃ accts : List Hash, ks.map w.acc = accts.map some ∧
      g' = accts.foldl (fun g a => g.move u a fee) g ∧
      evs' = evs ++ accts.map (fun a => Event.gasT u a fee) ∧
      (ks ≠ [] → 0 ≤ fee) := by
  induction ks generalizing g evs with
  | nil =>
    simp only [payEach, Option.some.injEq, Prod.mk.injEq] at h
    exact ⟨[], rfl, h.1.symm, by simp [h.2], fun c => absurd rfl c⟩
  | cons k r ih =>
    simp only [payEach] at h
    cases ha : w.acc k with
    | none => rw [ha] at h; cases h
    | some a =>
      rw [ha] at h
      simp only at h
      cases hm : mustTransfer w g true u a fee (.bytes []) with
      | none => rw [hm] at h; cases h
      | some p =>
        obtain ⟨g1, e⟩ := p
        rw [hm] at h
        simp only at h
        obtain ⟨_, _, hfee, _, _, hg1, _, hev⟩ := gasTransfer_true (mustTransfer_some hm)
        have hne : a ≠ w.self := by
          intro c; exact hself k List.mem_cons_self (by rw [ha, c])
        have he := hev hne
        obtain ⟨accts, h1, h2, h3, _⟩ := ih g1 (evs ++ e) (fun k' hk' => hself k' (List.mem_cons_of_mem _ hk')) h
        refine ⟨a :: accts, by simp [ha, h1], ?_, ?_, fun _ => hfee⟩
        · rw [h2, hg1]; rfl
        · rw [h3, he]; simp

theorem mul_succ_cast (fee : Int) (n : Nat) : fee * ((n + 1 : Nat) : Int) = fee * (n : Int) + fee := by
  rw [Int.natCast_add, Int.mul_add]; simp

/-- after paying `fee` to each of `accts`, the payer is down `fee` per account and every account is up `fee`
per occurrence -/
theorem foldl_move_apply (u : Hash) (fee : Int) (accts : List Hash) (g : Ledger) (x : Hash) :
    (accts.foldl (fun g a => g.move u a fee) g) x =
      g x - (if x = u then fee * (accts.length : Int) else 0) + fee * ((accts.count x : Nat) : Int) := by
  induction accts generalizing g with
  | nil => simp
  | cons a r ih =>
    rw [List.foldl_cons, ih, Ledger.move_apply, List.length_cons, List.count_cons, mul_succ_cast]
    by_cases hxa : x = a
    · subst hxa
      simp only [beq_self_eq_true, if_true, mul_succ_cast]
      split <;> omega
    · have : (a == x) = false := by simp; exact fun c => hxa c.symm
      simp only [this, Bool.false_eq_true, if_false, Nat.add_zero, hxa]
      split <;> omega

/-! ### what each method does to the ledger -/

theorem deposit_char {w : World} {s : State} {env : Env} {frm : Hash} {amt : Int} {d : Data} {out : Halt}
    (h : step w s env (.deposit frm amt d) = some out) :
    out.st = { s with gas := out.st.gas } ∧
    ((out.ret = some true ∧ env.wit.contains frm = true ∧ frm.length = 20 ∧ 0 ≤ amt ∧ amt ≤ s.gas frm ∧
        out.st.gas = s.gas.move frm w.self amt ∧
        ∃ e, onPayment true frm amt d = some e ∧ out.evs = .gasT frm w.self amt :: e) ∨
     (out.ret = some false ∧ out.st.gas = s.gas ∧ out.evs = [])) := by
  simp only [step] at h
  cases hg : gasTransfer w s.gas (env.wit.contains frm) frm w.self amt d with
  | none => rw [hg] at h; cases h
  | some p =>
    obtain ⟨ok, g, evs⟩ := p
    rw [hg] at h
    simp only [Option.some.injEq] at h; subst h
    refine ⟨rfl, ?_⟩
    cases ok with
    | true =>
      obtain ⟨h1, _, h3, h4, h5, h6, h7, _⟩ := gasTransfer_true hg
      exact Or.inl ⟨rfl, h4, h1, h3, h5, h6, h7 rfl⟩
    | false =>
      obtain ⟨h1, h2⟩ := gasTransfer_false hg
      exact Or.inr ⟨rfl, h1, h2⟩

theorem xfer_char {w : World} {s : State} {env : Env} {frm to : Hash} {amt : Int} {out : Halt}
    (h : step w s env (.xfer frm to amt) = some out) :
    out.st = { s with gas := out.st.gas } ∧
    ((out.ret = some true ∧ env.wit.contains frm = true ∧ 0 ≤ amt ∧ amt ≤ s.gas frm ∧
        out.st.gas = s.gas.move frm to amt) ∨
     (out.ret = some false ∧ out.st.gas = s.gas ∧ out.evs = [])) := by
  simp only [step] at h
  cases hg : gasTransfer w s.gas (env.wit.contains frm) frm to amt .null with
  | none => rw [hg] at h; cases h
  | some p =>
    obtain ⟨ok, g, evs⟩ := p
    rw [hg] at h
    simp only [Option.some.injEq] at h; subst h
    refine ⟨rfl, ?_⟩
    cases ok with
    | true =>
      obtain ⟨_, _, h3, h4, h5, h6, _, _⟩ := gasTransfer_true hg
      exact Or.inl ⟨rfl, h4, h3, h5, h6⟩
    | false =>
      obtain ⟨h1, h2⟩ := gasTransfer_false hg
      exact Or.inr ⟨rfl, h1, h2⟩

theorem pay_char {w : World} {s : State} {env : Env} {frm : Hash} {amt : Int} {d : Data} {out : Halt}
    (h : step w s env (.pay frm amt d) = some out) :
    out.st = s ∧ out.evs = [] ∧ d.form = some ignoreMarker := by
  simp only [step] at h
  cases ho : onPayment false frm amt d with
  | none => rw [ho] at h; cases h
  | some evs =>
    rw [ho] at h
    simp only [Option.some.injEq] at h; subst h
    unfold onPayment at ho
    cases hf : d.form with
    | none => rw [hf] at ho; cases ho
    | some b =>
      rw [hf] at ho
      simp only at ho
      rcases onPaymentBody_some ho with ⟨e1, e2⟩ | ⟨_, c, _⟩
      · exact ⟨rfl, e2, by rw [e1]⟩
      · cases c

theorem withdraw_char {w : World} {s : State} {env : Env} {u : Hash} {a : Int} {out : Halt}
    (hproc : s.nd = false → s.proc ≠ w.self) (hkeys : s.nd = true → ∀ k ∈ s.keys, w.acc k ≠ some w.self)
    (h : step w s env (.withdraw u a) = some out) :
    out.st = { s with gas := out.st.gas } ∧
    ∃ fee, cfgInt s.cfg withdrawFeeKey = some fee ∧ u.length = 20 ∧ env.wit.contains u = true ∧ 0 ≤ a ∧ a ≤ maxWithdraw ∧
      (s.nd = true → ∃ accts : List Hash, s.keys.map w.acc = accts.map some ∧
          out.st.gas = accts.foldl (fun g x => g.move u x fee) s.gas ∧
          out.evs = accts.map (fun x => Event.gasT u x fee) ++ [.withdraw u (a * 100000000)] ∧
          (s.keys ≠ [] → 0 ≤ fee)) ∧
      (s.nd = false → 0 ≤ fee ∧ fee ≤ s.gas u ∧ out.st.gas = s.gas.move u s.proc fee ∧
          out.evs = [.gasT u s.proc fee, .withdraw u (a * 100000000)]) := by
  simp only [step] at h
  by_cases h1 : u.length ≠ 20
  · simp [h1] at h
  · rw [if_neg h1] at h
    cases hw : env.wit.contains u with
    | false => rw [hw] at h; simp at h
    | true =>
      rw [hw] at h
      simp only [Bool.not_true, Bool.false_eq_true, if_false] at h
      by_cases h2 : a < 0
      · simp [h2] at h
      · rw [if_neg h2] at h
        by_cases h3 : a > maxWithdraw
        · simp [h3] at h
        · rw [if_neg h3] at h
          cases hf : cfgInt s.cfg withdrawFeeKey with
          | none => rw [hf] at h; cases h
          | some fee =>
            rw [hf] at h
            simp only at h
            have hu : u.length = 20 := by apply Classical.byContradiction; intro c; exact h1 c
            cases hnd : s.nd with
            | true =>
              rw [hnd] at h
              simp only [if_true] at h
              cases hp : payEach w u fee s.keys s.gas [] with
              | none => rw [hp] at h; cases h
              | some p =>
                obtain ⟨g, evs⟩ := p
                rw [hp] at h
                simp only [Option.some.injEq] at h; subst h
                obtain ⟨accts, e1, e2, e3, e4⟩ := payEach_char s.keys s.gas g [] evs (hkeys hnd) hp
                refine ⟨rfl, fee, rfl, hu, rfl, by omega, by omega, fun _ => ⟨accts, e1, e2, ?_, e4⟩, fun c => by cases c⟩
                simp only [e3, List.nil_append]
            | false =>
              rw [hnd] at h
              simp only [Bool.false_eq_true, if_false] at h
              cases hp : mustTransfer w s.gas true u s.proc fee (.bytes []) with
              | none => rw [hp] at h; cases h
              | some p =>
                obtain ⟨g, evs⟩ := p
                rw [hp] at h
                simp only [Option.some.injEq] at h; subst h
                obtain ⟨_, _, hfee, _, hle, hg, _, hev⟩ := gasTransfer_true (mustTransfer_some hp)
                refine ⟨rfl, fee, rfl, hu, rfl, by omega, by omega, (fun c => by cases c), fun _ => ⟨hfee, hle, hg, ?_⟩⟩
                rw [hev (hproc hnd)]; rfl

theorem candAdd_char {w : World} {s : State} {env : Env} {k : Key} {out : Halt}
    (h : step w s env (.candAdd k) = some out) :
    ∃ a fee, w.acc k = some a ∧ env.wit.contains a = true ∧ s.cands.contains k = false ∧
      cfgInt s.cfg candidateFeeKey = some fee ∧ 0 ≤ fee ∧ fee ≤ s.gas a ∧
      out.st = { s with cands := k :: s.cands, gas := s.gas.move a w.self fee } ∧
      out.evs = [.gasT a w.self fee] := by
  simp only [step] at h
  cases ha : w.acc k with
  | none => rw [ha] at h; cases h
  | some a =>
    rw [ha] at h
    simp only at h
    cases hw : env.wit.contains a with
    | false => rw [hw] at h; simp at h
    | true =>
      rw [hw] at h
      simp only [Bool.not_true, Bool.false_eq_true, if_false] at h
      cases hc : s.cands.contains k with
      | true => rw [hc] at h; simp at h
      | false =>
        rw [hc] at h
        simp only [Bool.false_eq_true, if_false] at h
        cases hf : cfgInt s.cfg candidateFeeKey with
        | none => rw [hf] at h; cases h
        | some fee =>
          rw [hf] at h
          simp only at h
          cases hp : mustTransfer w s.gas true a w.self fee (.bytes ignoreMarker) with
          | none => rw [hp] at h; cases h
          | some p =>
            obtain ⟨g, evs⟩ := p
            rw [hp] at h
            simp only [Option.some.injEq] at h; subst h
            obtain ⟨_, _, hfee, _, hle, hg, hev, _⟩ := gasTransfer_true (mustTransfer_some hp)
            obtain ⟨e, he1, he2⟩ := hev rfl
            rw [onPayment_marker] at he1
            simp only [Option.some.injEq] at he1; subst he1
            exact ⟨a, fee, rfl, hw, rfl, rfl, hfee, hle, by rw [hg], he2⟩

/-- an executed cheque moves exactly `amount` from the contract to the user; the contract can afford it -/
theorem cheque_char {w : World} {s : State} {env : Env} {id : Bytes} {u : Hash} {a : Int} {l : Bytes} {out : Halt}
    (h : step w s env (.cheque id u a l) = some out) :
    (out.fired = true → 0 ≤ a ∧ a ≤ s.gas w.self ∧ u.length = 20 ∧ out.st.gas = s.gas.move w.self u a) ∧
    (out.fired = false → out.st.gas = s.gas ∧ out.evs = []) := by
  obtain ⟨h1, h2, _⟩ := cheque_effect h
  refine ⟨fun hf => ?_, fun hf => ⟨(h2 hf).2, (h2 hf).1⟩⟩
  obtain ⟨⟨evs, hm, _⟩, _⟩ := h1 hf
  obtain ⟨_, hu, ha, _, hle, hg, _, _⟩ := gasTransfer_true (mustTransfer_some hm)
  exact ⟨ha, hle, hu, hg⟩

/-! ### the contract's cash book -/

/-- GAS the contract receives in a HALTed invocation, in the property's vocabulary: accepted deposits (GAS
transfers to the contract), candidate fees, and a cheque drawn on itself -/
def received (w : World) (s : State) (op : Op) (out : Halt) : Int :=
  match op with
  | .deposit _ amt _ => if out.ret = some true then amt else 0
  | .xfer _ to amt => if out.ret = some true ∧ to = w.self then amt else 0
  | .candAdd _ => (cfgInt s.cfg candidateFeeKey).getD 0
  | .cheque _ u amt _ => if out.fired = true ∧ u = w.self then amt else 0
  | _ => 0

/-- GAS the contract pays out in a HALTed invocation: the amount of an executed cheque -/
def paid (op : Op) (out : Halt) : Int :=
  match op with
  | .cheque _ _ amt _ => if out.fired = true then amt else 0
  | _ => 0

/-- what the harness guarantees about the accounts: nobody can sign for the contract, the Processing
address and the accounts of public keys differ from the contract's own hash -/
structure Sane (w : World) (s : State) (env : Env) : Prop where
  noSelfWitness : env.wit.contains w.self = false
  procOther : s.proc ≠ w.self
  keyAccounts : ∀ k a, w.acc k = some a → a ≠ w.self

theorem ne_of_witness {w : World} {env : Env} {x : Hash} (hs : env.wit.contains w.self = false)
    (hx : env.wit.contains x = true) : x ≠ w.self := by
  intro c; subst c; rw [hs] at hx; cases hx

/-- one invocation: the contract's balance moves by exactly what it received minus what it paid -/
theorem step_ledger {w : World} {s : State} {env : Env} {op : Op} {out : Halt} (hs : Sane w s env)
    (h : step w s env op = some out) :
    out.st.gas w.self = s.gas w.self + received w s op out - paid op out ∧ out.st.proc = s.proc := by
  cases op with
  | skip => simp only [step, Option.some.injEq] at h; subst h; simp [received, paid]
  | deposit frm amt d =>
    obtain ⟨hst, hc⟩ := deposit_char h
    refine ⟨?_, by rw [hst]⟩
    rcases hc with ⟨hr, hw, _, _, _, hg, _⟩ | ⟨hr, hg, _⟩
    · have := ne_of_witness hs.noSelfWitness hw
      simp only [received, paid, hr, if_true, hg, Ledger.move_apply]
      have h1 : ¬ w.self = frm := fun c => this c.symm
      simp [h1]
    · simp [received, paid, hr, hg]
  | xfer frm to amt =>
    obtain ⟨hst, hc⟩ := xfer_char h
    refine ⟨?_, by rw [hst]⟩
    rcases hc with ⟨hr, hw, _, _, hg⟩ | ⟨hr, hg, _⟩
    · have := ne_of_witness hs.noSelfWitness hw
      have h1 : ¬ w.self = frm := fun c => this c.symm
      simp only [received, paid, hr, hg, Ledger.move_apply, h1, if_false, true_and]
      by_cases h2 : to = w.self
      · have : w.self = to := h2.symm
        simp [h2]
      · have : ¬ w.self = to := fun c => h2 c.symm
        simp [h2, this]
    · simp [received, paid, hr, hg]
  | pay frm amt d =>
    obtain ⟨hst, _⟩ := pay_char h
    simp [received, paid, hst]
  | withdraw u a =>
    obtain ⟨hst, fee, _, _, hw, _, _, hv, hn⟩ :=
      withdraw_char (fun _ => hs.procOther) (fun _ k _ c => hs.keyAccounts k w.self c rfl) h
    refine ⟨?_, by rw [hst]⟩
    have hu := ne_of_witness hs.noSelfWitness hw
    have h1 : ¬ w.self = u := fun c => hu c.symm
    simp only [received, paid, Int.add_zero, Int.sub_zero]
    cases hnd : s.nd with
    | true =>
      obtain ⟨accts, e1, e2, _, _⟩ := hv hnd
      rw [e2, foldl_move_apply]
      have hc : accts.count w.self = 0 := by
        apply List.count_eq_zero_of_not_mem
        intro hm
        have : some w.self ∈ accts.map some := List.mem_map_of_mem hm
        rw [← e1] at this
        obtain ⟨k, _, hk⟩ := List.mem_map.mp this
        exact hs.keyAccounts k w.self hk rfl
      simp [h1, hc]
    | false =>
      obtain ⟨_, _, e2, _⟩ := hn hnd
      rw [e2, Ledger.move_apply]
      have h2 : ¬ w.self = s.proc := fun c => hs.procOther c.symm
      simp [h1, h2]
  | cheque id u a l =>
    obtain ⟨h1, h2⟩ := cheque_char h
    obtain ⟨_, _, hcfg⟩ := cheque_effect h
    have hproc : out.st.proc = s.proc := by
      simp only [step] at h
      split at h
      · cases h
      · simp only [Option.some.injEq] at h; subst h; rfl
      · split at h
        · cases h
        · simp only [Option.some.injEq] at h; subst h; rfl
    refine ⟨?_, hproc⟩
    cases hf : out.fired with
    | true =>
      obtain ⟨_, _, _, hg⟩ := h1 hf
      simp only [received, paid, hf, if_true, true_and, hg, Ledger.move_apply]
      by_cases hu : u = w.self
      · have : w.self = u := hu.symm
        simp [hu]
      · have : ¬ w.self = u := fun c => hu c.symm
        simp [hu, this]
    | false =>
      simp [received, paid, hf, (h2 hf).1]
  | candAdd k =>
    obtain ⟨a, fee, ha, hw, _, hfee, _, _, hst, _⟩ := candAdd_char h
    have hne := ne_of_witness hs.noSelfWitness hw
    have h1 : ¬ w.self = a := fun c => hne c.symm
    rw [hst]
    simp only [received, paid, hfee, Option.getD_some, Ledger.move_apply, h1, if_false, if_true]
    simp
  | candRemove k idh =>
    obtain ⟨_, _, _, hg, _, _⟩ := candRemove_effect h
    have hproc : out.st.proc = s.proc := by
      simp only [step] at h
      cases ha : w.acc k with
      | none => rw [ha] at h; cases h
      | some a =>
        rw [ha] at h
        simp only at h
        split at h
        · simp only [Option.some.injEq] at h; subst h; rfl
        · split at h
          · split at h
            · cases h
            · cases h
            · split at h
              · cases h
              · simp only [Option.some.injEq] at h; subst h; rfl
              · simp only [Option.some.injEq] at h; subst h; rfl
          · split at h
            · cases h
            · split at h
              · cases h
              · simp only [Option.some.injEq] at h; subst h; rfl
    simp [received, paid, hg, hproc]
  | alphabetUpdate id ks na =>
    obtain ⟨_, _, hg, _⟩ := alphabetUpdate_effect h
    have hproc : out.st.proc = s.proc := by
      simp only [step] at h
      split at h
      · cases h
      · split at h
        · cases h
        · simp only [Option.some.injEq] at h; subst h; rfl
        · simp only [Option.some.injEq] at h; subst h; rfl
    simp [received, paid, hg, hproc]
  | setConfig id key val =>
    obtain ⟨_, _, hg, _⟩ := setConfig_effect h
    have hproc : out.st.proc = s.proc := by
      simp only [step] at h
      split at h
      · cases h
      · simp only [Option.some.injEq] at h; subst h; rfl
      · split at h
        · cases h
        · split at h
          · cases h
          · simp only [Option.some.injEq] at h; subst h; rfl
    simp [received, paid, hg, hproc]

/-- totals received and paid along a history -/
def flows (w : World) : State → List (Env × Op) → Int × Int
  | _, [] => (0, 0)
  | s, (env, op) :: rest =>
    match step w s env op with
    | none => flows w s rest
    | some out => (received w s op out + (flows w out.st rest).1, paid op out + (flows w out.st rest).2)

/-- **ledger identity over all histories** -/
theorem ledger_identity_run (w : World) (hist : List (Env × Op)) :
    ∀ s : State, s.proc ≠ w.self → (∀ k a, w.acc k = some a → a ≠ w.self) →
      (∀ e ∈ hist, e.1.wit.contains w.self = false) →
      (run w s hist).gas w.self = s.gas w.self + (flows w s hist).1 - (flows w s hist).2 := by
  induction hist with
  | nil => intro s _ _ _; simp [run, flows]
  | cons a rest ih =>
    obtain ⟨env, op⟩ := a
    intro s hp hk hw
    have hw' : ∀ e ∈ rest, e.1.wit.contains w.self = false := fun e he => hw e (List.mem_cons_of_mem _ he)
    simp only [run, flows]
    cases hs : step w s env op with
    | none =>
      rw [invoke_fault hs]
      exact ih s hp hk hw'
    | some out =>
      rw [invoke_halt hs]
      have hsane : Sane w s env := ⟨hw (env, op) List.mem_cons_self, hp, hk⟩
      obtain ⟨h1, h2⟩ := step_ledger hsane hs
      rw [ih out.st (by rw [h2]; exact hp) hk hw', h1]
      simp only
      omega

end NeoFS.Main
