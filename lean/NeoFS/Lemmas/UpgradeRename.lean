import NeoFS.Model.UpgradeView
import NeoFS.Lemmas.UpgradeGate
/-! The two key-renaming migrations: Balance `switchToAccPrefixes` (every 20-byte key `k` ↦ `a ‖ k`)
and the Container loop (32-byte `k` ↦ `x ‖ k`, 57-byte `k` ↦ `o ‖ k`). Each gets an exact
characterisation of `get` after the migration for EVERY storage with unique keys, from which the
read-API statements follow under the old-layout invariant. -/
namespace NeoFS.Upgrade
open NeoFS NeoFS.Generated

/-! ### views by prefix and by key length -/

theorem hasPrefix_singleton (p : Nat) (k : Bytes) : hasPrefix [p] k = true ↔ k.head? = some p := by
  unfold hasPrefix
  cases k with
  | nil => simp [List.isPrefixOf]
  | cons a r =>
    simp only [List.isPrefixOf, List.head?_cons, Option.some.injEq]
    constructor
    · intro h; simp at h; exact h.symm
    · intro h; simp [h]

theorem mem_prefixView {p : Nat} {s : Store} (hn : NodupKeys s) (k v : Bytes) :
    (k, v) ∈ prefixView p s ↔ get s (p :: k) = some v := by
  unfold prefixView
  simp only [List.mem_map, List.mem_filter, Prod.mk.injEq]
  constructor
  · rintro ⟨kv, ⟨hm, hp⟩, hk, hv⟩
    obtain ⟨k0, v0⟩ := kv
    simp only at hp hk hv
    rw [hasPrefix_singleton, List.head?_eq_some_iff] at hp
    obtain ⟨ys, rfl⟩ := hp
    simp only [List.drop_succ_cons, List.drop_zero] at hk
    subst hk; subst hv
    exact get_of_mem hn hm
  · intro hg
    exact ⟨(p :: k, v), ⟨get_some_mem hg, (hasPrefix_singleton p _).mpr rfl⟩, by simp, rfl⟩

theorem nodup_prefixView {p : Nat} {s : Store} (hn : NodupKeys s) : (prefixView p s).Nodup := by
  unfold prefixView
  have h1 : (s.filter (fun kv => hasPrefix [p] kv.1)).Nodup :=
    List.Nodup.sublist List.filter_sublist (nodup_of_nodupKeys hn)
  unfold List.Nodup at *
  rw [List.pairwise_map]
  refine List.Pairwise.imp_of_mem ?_ h1
  intro a b ha hb hne e
  apply hne
  simp only [List.mem_filter] at ha hb
  have pa := (hasPrefix_singleton p a.1).mp ha.2
  have pb := (hasPrefix_singleton p b.1).mp hb.2
  rw [List.head?_eq_some_iff] at pa pb
  obtain ⟨ya, ea⟩ := pa
  obtain ⟨yb, eb⟩ := pb
  obtain ⟨ka, va⟩ := a
  obtain ⟨kb, vb⟩ := b
  simp only at ea eb
  subst ea; subst eb
  simp only [List.drop_succ_cons, List.drop_zero, Prod.mk.injEq] at e
  rw [e.1, e.2]

theorem mem_lengthView {n : Nat} {s : Store} (hn : NodupKeys s) (k v : Bytes) :
    (k, v) ∈ lengthView n s ↔ get s k = some v ∧ k.length = n := by
  unfold lengthView
  simp only [List.mem_filter, decide_eq_true_eq]
  rw [mem_iff_get hn]

theorem nodup_lengthView {n : Nat} {s : Store} (hn : NodupKeys s) : (lengthView n s).Nodup :=
  List.Nodup.sublist List.filter_sublist (nodup_of_nodupKeys hn)

/-- the prefixed family of `t` lists exactly the `n`-byte family of `s` -/
theorem prefixView_perm_lengthView {p n : Nat} {s t : Store} (hs : NodupKeys s) (ht : NodupKeys t)
    (h : ∀ k v, get t (p :: k) = some v ↔ (get s k = some v ∧ k.length = n)) :
    (prefixView p t).Perm (lengthView n s) := by
  rw [List.perm_ext_iff_of_nodup (nodup_prefixView ht) (nodup_lengthView hs)]
  rintro ⟨k, v⟩
  rw [mem_prefixView ht, mem_lengthView hs, h]

theorem prefixView_perm_prefixView {p : Nat} {s t : Store} (hs : NodupKeys s) (ht : NodupKeys t)
    (h : ∀ k, get t (p :: k) = get s (p :: k)) : (prefixView p t).Perm (prefixView p s) := by
  rw [List.perm_ext_iff_of_nodup (nodup_prefixView ht) (nodup_prefixView hs)]
  rintro ⟨k, v⟩
  rw [mem_prefixView ht, mem_prefixView hs, h]

/-! ### Balance: `switchToAccPrefixes` -/

def renBal (k : Bytes) : Option Bytes := if k.length = 20 then some (accPrefix :: k) else none

theorem renBal_some {k q : Bytes} (h : renBal k = some q) : k.length = 20 ∧ q = accPrefix :: k := by
  unfold renBal at h
  by_cases h20 : k.length = 20
  · simp only [h20, if_true, Option.some.injEq] at h; exact ⟨h20, h.symm⟩
  · simp [h20] at h

theorem goodRen_bal : GoodRen renBal where
  ne := by
    intro k k' h e
    obtain ⟨h20, rfl⟩ := renBal_some h
    have := congrArg List.length e
    simp at this
  tgt := by
    intro k k' h
    obtain ⟨h20, rfl⟩ := renBal_some h
    unfold renBal
    simp [h20]
  inj := by
    intro k₁ k₂ q h1 h2
    obtain ⟨_, e1⟩ := renBal_some h1
    obtain ⟨_, e2⟩ := renBal_some h2
    rw [e1] at e2
    exact (List.cons.inj e2).2

theorem accPrefixStep_eq (st : Store) (kv : Bytes × Bytes) : accPrefixStep st kv = renStep renBal true st kv := by
  unfold accPrefixStep renStep renBal
  by_cases h : kv.1.length = 20 <;> simp [h]

theorem switchToAccPrefixes_eq (s : Store) :
    switchToAccPrefixes s = (snapshot s []).foldl (renStep renBal true) s := by
  unfold switchToAccPrefixes
  congr 1
  funext st kv
  exact accPrefixStep_eq st kv

theorem nodup_switchToAccPrefixes {s : Store} (hn : NodupKeys s) : NodupKeys (switchToAccPrefixes s) := by
  rw [switchToAccPrefixes_eq]; exact nodup_foldl_renStep _ _ hn _

theorem snapshot_nil_mem (s : Store) (kv : Bytes × Bytes) : kv ∈ snapshot s [] ↔ kv ∈ s :=
  (snapshot_nil_perm s).mem_iff

theorem snapshot_nil_keys (s : Store) (k : Bytes) : k ∈ keys (snapshot s []) ↔ k ∈ keys s := by
  unfold keys
  exact (List.Perm.map _ (snapshot_nil_perm s)).mem_iff

theorem snapshot_nil_nodup {s : Store} (hn : NodupKeys s) : NodupKeys (snapshot s []) :=
  nodupKeys_of_perm (snapshot_nil_perm s) hn

/-- **exact effect of `switchToAccPrefixes`** on every storage with unique keys -/
theorem get_switchToAccPrefixes {s : Store} (hn : NodupKeys s) (q : Bytes) :
    get (switchToAccPrefixes s) q =
      if q.length = 20 then none
      else if q.length = 21 ∧ q.head? = some accPrefix ∧ (get s q.tail).isSome then get s q.tail
      else get s q := by
  rw [switchToAccPrefixes_eq]
  by_cases h20 : q.length = 20
  · simp only [h20, if_true]
    by_cases hq : q ∈ keys s
    · exact ren_deleted goodRen_bal true _ (snapshot_nil_nodup hn) s q ((snapshot_nil_keys s q).mpr hq)
        (by unfold renBal; simp [h20])
    · rw [ren_untouched goodRen_bal true _ s q]
      · exact get_none_of_not_mem hq
      · intro kv _ e
        obtain ⟨h, e'⟩ := renBal_some e
        rw [e'] at h20; simp at h20; omega
      · left; intro hm; exact hq ((snapshot_nil_keys s q).mp hm)
  · simp only [h20, if_false]
    by_cases hc : q.length = 21 ∧ q.head? = some accPrefix ∧ (get s q.tail).isSome
    · simp only [hc, and_self, if_true]
      obtain ⟨_, hh, hs⟩ := hc
      rw [List.head?_eq_some_iff] at hh
      obtain ⟨ys, rfl⟩ := hh
      simp only [List.tail_cons] at hs ⊢
      obtain ⟨v, hv⟩ := Option.isSome_iff_exists.mp hs
      rw [hv]
      have hl : ys.length = 20 := by simp at *; omega
      exact ren_moved goodRen_bal true _ (snapshot_nil_nodup hn) s ys v _
        ((snapshot_nil_mem s _).mpr (get_some_mem hv)) (by unfold renBal; simp [hl])
    · simp only [hc, if_false]
      apply ren_untouched goodRen_bal true _ s q
      · intro kv hm e
        obtain ⟨h, e'⟩ := renBal_some e
        apply hc
        subst e'
        refine ⟨by simp [h], rfl, ?_⟩
        simp only [List.tail_cons]
        obtain ⟨v, hv⟩ := get_isSome_of_mem_keys (s := s) (k := kv.1)
          (List.mem_map.mpr ⟨kv, (snapshot_nil_mem s kv).mp hm, rfl⟩)
        rw [hv]; rfl
      · right; unfold renBal; simp [h20]

/-! ### Container: the rename loop of `_deploy` -/

def renCnr (k : Bytes) : Option Bytes :=
  if k.length = 32 then some (cnrPrefix :: k) else if k.length = 57 then some (ownPrefix :: k) else none

theorem renCnr_some {k q : Bytes} (h : renCnr k = some q) :
    (k.length = 32 ∧ q = cnrPrefix :: k) ∨ (k.length = 57 ∧ q = ownPrefix :: k) := by
  unfold renCnr at h
  by_cases h32 : k.length = 32
  · simp only [h32, if_true, Option.some.injEq] at h; exact Or.inl ⟨h32, h.symm⟩
  · by_cases h57 : k.length = 57
    · have e : (if k.length = 57 then some (ownPrefix :: k) else none) = some q := by
        simpa only [h32, if_false] using h
      simp only [h57, if_true, Option.some.injEq] at e
      exact Or.inr ⟨h57, e.symm⟩
    · simp [h32, h57] at h

theorem goodRen_cnr : GoodRen renCnr where
  ne := by
    intro k k' h e
    rcases renCnr_some h with ⟨_, rfl⟩ | ⟨_, rfl⟩ <;>
    · have := congrArg List.length e
      simp at this
  tgt := by
    intro k k' h
    rcases renCnr_some h with ⟨hl, rfl⟩ | ⟨hl, rfl⟩ <;>
    · unfold renCnr; simp [hl]
  inj := by
    intro k₁ k₂ q h1 h2
    rcases renCnr_some h1 with ⟨l1, e1⟩ | ⟨l1, e1⟩ <;> rcases renCnr_some h2 with ⟨l2, e2⟩ | ⟨l2, e2⟩
    · rw [e1] at e2; exact (List.cons.inj e2).2
    · rw [e1] at e2; have := congrArg List.length e2; simp at this; omega
    · rw [e1] at e2; have := congrArg List.length e2; simp at this; omega
    · rw [e1] at e2; exact (List.cons.inj e2).2

theorem cnrStep_eq (st : Store) (kv : Bytes × Bytes) : cnrStep st kv = renStep renCnr false st kv := by
  unfold cnrStep renStep renCnr
  by_cases h32 : kv.1.length = 32
  · have : ¬ kv.1.length = 57 := by omega
    simp [h32]
  · by_cases h57 : kv.1.length = 57 <;> simp [h32, h57]

theorem cnrRename_eq (s : Store) : cnrRename s = (snapshot s []).foldl (renStep renCnr false) s := by
  unfold cnrRename
  congr 1
  funext st kv
  exact cnrStep_eq st kv

theorem nodup_cnrRename {s : Store} (hn : NodupKeys s) : NodupKeys (cnrRename s) := by
  rw [cnrRename_eq]; exact nodup_foldl_renStep _ _ hn _

/-- **exact effect of the Container rename loop** on every storage with unique keys -/
theorem get_cnrRename {s : Store} (hn : NodupKeys s) (q : Bytes) :
    get (cnrRename s) q =
      if q.length = 32 ∨ q.length = 57 then none
      else if q.length = 33 ∧ q.head? = some cnrPrefix ∧ (get s q.tail).isSome then get s q.tail
      else if q.length = 58 ∧ q.head? = some ownPrefix ∧ (get s q.tail).isSome then get s q.tail
      else get s q := by
  rw [cnrRename_eq]
  by_cases hsel : q.length = 32 ∨ q.length = 57
  · simp only [hsel, if_true]
    have hren : (renCnr q).isSome := by
      unfold renCnr; rcases hsel with h | h <;> simp [h]
    by_cases hq : q ∈ keys s
    · exact ren_deleted goodRen_cnr false _ (snapshot_nil_nodup hn) s q ((snapshot_nil_keys s q).mpr hq) hren
    · rw [ren_untouched goodRen_cnr false _ s q]
      · exact get_none_of_not_mem hq
      · intro kv _ e
        have := goodRen_cnr.tgt _ _ e
        rw [this] at hren; cases hren
      · left; intro hm; exact hq ((snapshot_nil_keys s q).mp hm)
  · simp only [hsel, if_false]
    have hnone : renCnr q = none := by
      unfold renCnr
      have a : ¬ q.length = 32 := fun e => hsel (Or.inl e)
      have b : ¬ q.length = 57 := fun e => hsel (Or.inr e)
      simp [a, b]
    have moved : ∀ (p : Nat) (ys v : Bytes), q = p :: ys → get s ys = some v → renCnr ys = some q →
        get ((snapshot s []).foldl (renStep renCnr false) s) q = some v := by
      intro p ys v _ hv hr
      exact ren_moved goodRen_cnr false _ (snapshot_nil_nodup hn) s ys v _
        ((snapshot_nil_mem s _).mpr (get_some_mem hv)) hr
    by_cases hx : q.length = 33 ∧ q.head? = some cnrPrefix ∧ (get s q.tail).isSome
    · simp only [hx, and_self, if_true]
      obtain ⟨hl, hh, hs⟩ := hx
      rw [List.head?_eq_some_iff] at hh
      obtain ⟨ys, rfl⟩ := hh
      simp only [List.tail_cons] at hs ⊢
      obtain ⟨v, hv⟩ := Option.isSome_iff_exists.mp hs
      rw [hv]
      have hl' : ys.length = 32 := by simp at hl; omega
      exact moved _ ys v rfl hv (by unfold renCnr; simp [hl'])
    · simp only [hx, if_false]
      by_cases ho : q.length = 58 ∧ q.head? = some ownPrefix ∧ (get s q.tail).isSome
      · simp only [ho, and_self, if_true]
        obtain ⟨hl, hh, hs⟩ := ho
        rw [List.head?_eq_some_iff] at hh
        obtain ⟨ys, rfl⟩ := hh
        simp only [List.tail_cons] at hs ⊢
        obtain ⟨v, hv⟩ := Option.isSome_iff_exists.mp hs
        rw [hv]
        have hl' : ys.length = 57 := by simp at hl; omega
        exact moved _ ys v rfl hv (by unfold renCnr; simp [hl'])
      · simp only [ho, if_false]
        apply ren_untouched goodRen_cnr false _ s q _ (Or.inr hnone)
        intro kv hm e
        obtain ⟨v, hv⟩ := get_isSome_of_mem_keys (s := s) (k := kv.1)
          (List.mem_map.mpr ⟨kv, (snapshot_nil_mem s kv).mp hm, rfl⟩)
        rcases renCnr_some e with ⟨hl, e'⟩ | ⟨hl, e'⟩
        · apply hx; subst e'
          exact ⟨by simp [hl], rfl, by simp only [List.tail_cons]; rw [hv]; rfl⟩
        · apply ho; subst e'
          exact ⟨by simp [hl], rfl, by simp only [List.tail_cons]; rw [hv]; rfl⟩

end NeoFS.Upgrade
