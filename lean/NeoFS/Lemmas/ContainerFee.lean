import NeoFS.Lemmas.ContainerSteps
set_option linter.unusedSimpArgs false
set_option linter.unusedVariables false
/-! The fee loop of `PutNamed` on the Balance model: exact per-account deltas (C05). -/
namespace NeoFS.Container
open NeoFS NeoFS.Balance

theorem getAcc_cons (k' : Hash) (a' : Account) (r : Accts) (k : Hash) :
    getAcc ((k', a') :: r) k = if k' = k then a' else getAcc r k := by
  unfold getAcc
  by_cases e : k' = k
  · simp [List.find?_cons, e]
  · simp [List.find?_cons, e]

theorem getAcc_delAcc (m : Accts) (k k' : Hash) :
    getAcc (delAcc m k) k' = if k' = k then Account.empty else getAcc m k' := by
  induction m with
  | nil => simp [delAcc, getAcc]
  | cons x xs ih =>
    obtain ⟨kx, vx⟩ := x
    by_cases e : kx = k
    · have h1 : delAcc ((kx, vx) :: xs) k = delAcc xs k := by simp [delAcc, List.filter_cons, e]
      rw [h1, ih, getAcc_cons]
      by_cases e2 : k' = k
      · simp [e2]
      · have : ¬ kx = k' := by intro h; exact e2 (h ▸ e)
        simp [e2, this]
    · have h1 : delAcc ((kx, vx) :: xs) k = (kx, vx) :: delAcc xs k := by simp [delAcc, List.filter_cons, e]
      rw [h1, getAcc_cons, getAcc_cons, ih]
      by_cases e2 : k' = k
      · have : ¬ kx = k' := by intro h; exact e (h.trans e2)
        simp [e2, this, e]
      · simp [e2]

theorem getAcc_setAcc (m : Accts) (k : Hash) (a : Account) (k' : Hash) :
    getAcc (setAcc m k a) k' = if k' = k then a else getAcc m k' := by
  unfold setAcc
  rw [getAcc_cons, getAcc_delAcc]
  by_cases e : k' = k
  · simp [e]
  · have : ¬ k = k' := fun h => e h.symm
    simp [e, this]

/-- one Alphabet-authorised transfer between two 20-byte accounts: exact effect on every balance -/
theorem xfer_bal {m m' : Accts} {env : Balance.Env} {f t : Hash} {amt : Int} {d : List Nat} {ev : List Event}
    (hf : f.length = 20) (ht : t.length = 20) (h : xfer m env f t amt true d = some (m', ev)) :
    0 ≤ amt ∧ amt ≤ (getAcc m f).bal ∧
    ∀ a, (getAcc m' a).bal = (getAcc m a).bal - (if a = f then amt else 0) + (if a = t then amt else 0) := by
  unfold xfer at h
  cases hc : canTransfer m env f t amt true with
  | none => rw [hc] at h; cases h
  | some acc =>
    rw [hc] at h
    simp only [Option.some.injEq, Prod.mk.injEq] at h
    obtain ⟨hm, _⟩ := h
    unfold canTransfer at hc
    by_cases hneg : amt < 0
    · simp [hneg] at hc
    · have hf0 : (f.length == 0) = false := by simp [hf]
      simp only [hneg, if_false, Bool.not_true, Bool.false_and, Bool.true_and, hf0, Bool.false_eq_true] at hc
      by_cases hlt : (getAcc m f).bal < amt
      · simp [hlt] at hc
      · simp only [hlt, if_false, Option.some.injEq] at hc
        subst hc
        refine ⟨by omega, by omega, ?_⟩
        intro a
        have hfb : (f.length == 20) = true := by simp [hf]
        have htb : (t.length == 20) = true := by simp [ht]
        simp only [hfb, htb, if_true] at hm
        -- after the debit
        have h1 : ∀ x, (getAcc (if (getAcc m f).bal = amt then delAcc m f
                      else setAcc m f { getAcc m f with bal := (getAcc m f).bal - amt }) x).bal
                    = (getAcc m x).bal - (if x = f then amt else 0) := by
          intro x
          by_cases heq : (getAcc m f).bal = amt
          · simp only [heq, if_true, getAcc_delAcc]
            by_cases e : x = f
            · subst e; simp [Account.empty, heq]
            · simp [e]
          · simp only [heq, if_false, getAcc_setAcc]
            by_cases e : x = f
            · subst e; simp
            · simp [e]
        rw [← hm, getAcc_setAcc]
        by_cases e : a = t
        · subst e; simp only [if_true]; rw [h1 a]
        · simp only [e, if_false]; rw [h1 a]; omega

theorem transferX_bal {b b' : Balance.State} {env : Balance.Env} {f t : Hash} {amt : Int} {d : List Nat}
    {r : Option Bool} {ev : List Event}
    (hf : f.length = 20) (ht : t.length = 20) (h : Balance.step b env (.transferX f t amt d) = some (b', r, ev)) :
    b'.supply = b.supply ∧ 0 ≤ amt ∧ amt ≤ (getAcc b.accts f).bal ∧
    ∀ a, (getAcc b'.accts a).bal = (getAcc b.accts a).bal - (if a = f then amt else 0) + (if a = t then amt else 0) := by
  simp only [Balance.step] at h
  split at h
  · cases h
  · split at h
    · rename_i m ev' hx
      simp only [Option.some.injEq, Prod.mk.injEq] at h
      obtain ⟨rfl, _, _⟩ := h
      obtain ⟨h0, h1, h2⟩ := xfer_bal hf ht hx
      exact ⟨rfl, h0, h1, h2⟩
    · cases h

theorem count_cons_int (a t : Bytes) (tos : List Bytes) :
    ((List.count a (t :: tos) : Nat) : Int) = (List.count a tos : Int) + (if a = t then 1 else 0) := by
  rw [List.count_cons]
  by_cases e : a = t
  · subst e; simp
  · have : (t == a) = false := by simp; exact fun h => e h.symm
    simp [e, this]

/-- the whole loop: `from` pays `fee` once per Alphabet node, every node account receives `fee` once per
occurrence in the committee list, nothing else moves, supply is untouched -/
theorem payFees_bal {env : Env} {frm : Bytes} {fee : Int} {det : Bytes} (hf : frm.length = 20) :
    ∀ (tos : List Bytes) (cur cur' : Balance.State × List Balance.Event),
      (∀ t ∈ tos, t.length = 20) → payFees env frm fee det tos cur = some cur' →
      cur'.1.supply = cur.1.supply ∧ (tos ≠ [] → 0 ≤ fee) ∧
      ∀ a, (getAcc cur'.1.accts a).bal =
        (getAcc cur.1.accts a).bal - (if a = frm then fee * (tos.length : Int) else 0) + fee * (List.count a tos : Int) := by
  intro tos
  induction tos with
  | nil =>
    intro cur cur' _ h
    simp only [payFees, Option.some.injEq] at h
    subst h
    refine ⟨rfl, fun h => absurd rfl h, fun a => ?_⟩
    simp
  | cons t rest ih =>
    intro cur cur' hl h
    simp only [payFees] at h
    cases h1 : payOne env frm fee det cur t with
    | none => rw [h1] at h; cases h
    | some mid =>
      rw [h1] at h
      have ht : t.length = 20 := hl t List.mem_cons_self
      obtain ⟨hs2, _, hb2⟩ := ih mid cur' (fun x hx => hl x (List.mem_cons_of_mem _ hx)) h
      unfold payOne at h1
      cases h3 : Balance.step cur.1 (balEnv env) (.transferX frm t fee det) with
      | none => rw [h3] at h1; cases h1
      | some r =>
        obtain ⟨b1, r1, ev1⟩ := r
        rw [h3] at h1
        simp only [Option.some.injEq] at h1
        subst h1
        obtain ⟨hs1, h0, _, hb1⟩ := transferX_bal hf ht h3
        refine ⟨hs2.trans hs1, fun _ => h0, fun a => ?_⟩
        rw [hb2 a, hb1 a, count_cons_int]
        have e1 : fee * (((t :: rest).length : Nat) : Int) = fee * (rest.length : Int) + fee := by
          simp only [List.length_cons, Int.natCast_add, Int.mul_add]; simp
        have e2 : fee * ((List.count a rest : Int) + (if a = t then 1 else 0)) =
            fee * (List.count a rest : Int) + (if a = t then fee else 0) := by
          rw [Int.mul_add]; by_cases e : a = t <;> simp [e]
        rw [e1, e2]
        generalize fee * (rest.length : Int) = X
        generalize fee * (List.count a rest : Int) = C
        by_cases ea : a = frm
        · by_cases eb : a = t
          · simp only [if_pos ea, if_pos eb]; omega
          · simp only [if_pos ea, if_neg eb]; omega
        · by_cases eb : a = t
          · simp only [if_neg ea, if_pos eb]; omega
          · simp only [if_neg ea, if_neg eb]; omega

/-- events of the loop are Balance notifications only -/
theorem payFees_events (evs : List Balance.Event) :
    (evs.map Ev.bal).filter (fun e => match e with | .bal _ => false | _ => true) = [] := by
  induction evs with
  | nil => rfl
  | cons e r ih => simp [List.filter_cons, ih]

end NeoFS.Container
