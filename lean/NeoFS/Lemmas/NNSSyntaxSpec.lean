import NeoFS.Base.Bytes
/-! # C18 — the character-level specification of well-formed NNS names and record data.

Written from the property text and the RFCs, independently of the contract's scanners: no index arithmetic,
no `split`, no integer parser of the runtime.  Strings are byte lists (`Bytes`, bytes as `Nat`).
`'-'` = 45, `'.'` = 46, `':'` = 58, `'0'..'9'` = 48..57, `'A'..'F'` = 65..70, `'a'..'z'` = 97..122. -/
namespace NeoFS.NNSSyntax.Spec
open NeoFS

/-- the texts `x₀ sep x₁ sep … sep xₙ` -/
def sepJoin (sep : Nat) : List Bytes → Bytes
  | [] => []
  | [x] => x
  | x :: y :: r => x ++ sep :: sepJoin sep (y :: r)

def Lower (c : Nat) : Prop := 97 ≤ c ∧ c ≤ 122
def Digit (c : Nat) : Prop := 48 ≤ c ∧ c ≤ 57
def AlNum (c : Nat) : Prop := Lower c ∨ Digit c

/-- a label: 1..63 lower-case letters, digits and hyphens, the hyphens at inner positions only -/
def Label (v : Bytes) : Prop :=
  1 ≤ v.length ∧ v.length ≤ 63 ∧ (∀ c ∈ v, AlNum c ∨ c = 45) ∧
  (∀ c, v.head? = some c → AlNum c) ∧ (∀ c, v.getLast? = some c → AlNum c)

/-- a well-formed name: 3..255 bytes, dot-separated labels, the last label at most 16 bytes and starting
with a letter -/
def ValidName (s : Bytes) : Prop :=
  3 ≤ s.length ∧ s.length ≤ 255 ∧
  ∃ (init : List Bytes) (last : Bytes), s = sepJoin 46 (init ++ [last]) ∧
    (∀ v ∈ init, Label v) ∧ Label last ∧ last.length ≤ 16 ∧ (∀ c, last.head? = some c → Lower c)

/-! ## A records -/

/-- value of a decimal digit string, most significant digit first -/
def decVal (f : Bytes) : Nat := f.foldl (fun a c => a * 10 + (c - 48)) 0

/-- `f` is the canonical decimal text of the octet `n`: `0`, or digits without a leading zero, value ≤ 255 -/
def CanonOctet (f : Bytes) (n : Nat) : Prop :=
  f ≠ [] ∧ (∀ c ∈ f, Digit c) ∧ (1 < f.length → f.head? ≠ some 48) ∧ decVal f = n ∧ n ≤ 255

/-- public unicast by the exclusion list of the contract: not 0/8, 10/8, 127/8, 224/3 and above, 169.254/16,
172.16/12, 192.168/16, and the last octet is neither 0 nor 255 -/
def PublicUnicast4 (a b d : Nat) : Prop :=
  a ≠ 0 ∧ a ≠ 10 ∧ a ≠ 127 ∧ a < 224 ∧ ¬(a = 169 ∧ b = 254) ∧ ¬(a = 172 ∧ 16 ≤ b ∧ b ≤ 31) ∧
  ¬(a = 192 ∧ b = 168) ∧ d ≠ 0 ∧ d ≠ 255

/-- a canonical dotted-quad public unicast address -/
def CanonIPv4 (s : Bytes) : Prop :=
  ∃ f0 f1 f2 f3 a b c d, s = sepJoin 46 [f0, f1, f2, f3] ∧
    CanonOctet f0 a ∧ CanonOctet f1 b ∧ CanonOctet f2 c ∧ CanonOctet f3 d ∧ PublicUnicast4 a b d

/-! ## AAAA records -/

def HexChar (c : Nat) : Prop := Digit c ∨ (97 ≤ c ∧ c ≤ 102) ∨ (65 ≤ c ∧ c ≤ 70)

def hexCharVal (c : Nat) : Nat := if c ≤ 57 then c - 48 else if c ≤ 70 then c - 55 else c - 87

def groupVal (g : Bytes) : Nat := g.foldl (fun a c => a * 16 + hexCharVal c) 0

/-- one group: 1..4 hexadecimal digits of either case -/
def HexGroup (g : Bytes) : Prop := 1 ≤ g.length ∧ g.length ≤ 4 ∧ ∀ c ∈ g, HexChar c

/-- the text `s` denotes the eight 16-bit groups `v` (RFC 4291 section 2.2): form 1 = eight groups separated by
colons; form 2 = one `::` standing for one or more zero groups, with `as` before it and `bs` after it -/
def Denotes6 (s : Bytes) (v : List Nat) : Prop :=
  (∃ gs : List Bytes, gs.length = 8 ∧ (∀ g ∈ gs, HexGroup g) ∧ s = sepJoin 58 gs ∧ v = gs.map groupVal) ∨
  (∃ as bs : List Bytes, (∀ g ∈ as, HexGroup g) ∧ (∀ g ∈ bs, HexGroup g) ∧ as.length + bs.length ≤ 7 ∧
    s = sepJoin 58 as ++ [58, 58] ++ sepJoin 58 bs ∧
    v = as.map groupVal ++ List.replicate (8 - (as.length + bs.length)) 0 ++ bs.map groupVal)

/-- global unicast by the exclusion list of the contract: inside 2000::/3, not 2002::/16, not 3ffe::/16, and
inside 2001::/16 only from 2001:200:: on and not 2001:db8::/32 -/
def GlobalUnicast6 (v : List Nat) : Prop :=
  8192 ≤ v.getD 0 0 ∧ v.getD 0 0 ≤ 16383 ∧ v.getD 0 0 ≠ 8194 ∧ v.getD 0 0 ≠ 16382 ∧
  (v.getD 0 0 = 8193 → 512 ≤ v.getD 1 0 ∧ v.getD 1 0 ≠ 3512)

/-- a textual global-unicast IPv6 address -/
def TextIPv6 (s : Bytes) : Prop := ∃ v, Denotes6 s v ∧ GlobalUnicast6 v

/-! ## record data -/

/-- well-formed data of a record of type `typ` (A = 1, CNAME = 5, TXT = 16, AAAA = 28) -/
def WellFormedData (typ : Nat) (data : Bytes) : Prop :=
  (typ = 1 ∧ CanonIPv4 data) ∨ (typ = 5 ∧ ValidName data) ∨ (typ = 16 ∧ data.length ≤ 255) ∨
  (typ = 28 ∧ TextIPv6 data)

end NeoFS.NNSSyntax.Spec
