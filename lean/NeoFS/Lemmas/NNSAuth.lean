import NeoFS.Lemmas.NNSAcc
import NeoFS.Lemmas.NNSStr
set_option linter.unusedSimpArgs false
set_option linter.unusedVariables false
/-! C11 vocabulary (who may do what, read off the property text) and helper lemmas. -/
namespace NeoFS.NNS
open NeoFS

/-- "with the witness of its owner or admin (the committee for TLDs and committee-owned names)" -/
def OwnerOrAdmin (env : Env) (ns : NameState) : Prop :=
  if ns.owner = [] then env.committee = true
  else witness env ns.owner = true ∨ (ns.admin ≠ [] ∧ witness env ns.admin = true)

/-- the directly enclosing name: everything after the first dot -/
def parentName (n : Name) : Name := joinDots ((split dot n).drop 1)

/-- The authorisation the property demands for each mutating method, evaluated on the state in which the
call is made (so it follows ownership through every transfer, expiry and re-registration):
* records (add/set/delete): owner or admin of the enclosing registered name under which the records live;
* updateSOA / renew: owner or admin of the name itself;
* transfer: the owner; setAdmin: the owner together with the new admin (if any);
* register: the owner-to-be, and for level > 2 the owner or admin of the directly enclosing name;
* registerTLD (and setPrice): the committee. -/
def Authorised (s : State) (env : Env) : Op → Prop
  | .addRecord n _ _ | .setRecord n _ _ _ | .deleteRecords n _ =>
      ∃ ns, mget s.names (tokenOf s env.now n) = some ns ∧ OwnerOrAdmin env ns
  | .updateSOA n _ _ _ _ _ | .renew n _ => ∃ ns, mget s.names n = some ns ∧ OwnerOrAdmin env ns
  | .transfer _ t => ∃ ns, mget s.names t = some ns ∧ witness env ns.owner = true
  | .setAdmin n a => ∃ ns, mget s.names n = some ns ∧ witness env ns.owner = true ∧ (a = [] ∨ witness env a = true)
  | .register n o _ _ _ _ _ =>
      witness env o = true ∧
      ((split dot n).length > 2 → ∃ ns, mget s.names (parentName n) = some ns ∧ OwnerOrAdmin env ns)
  | .registerTLD _ _ _ _ _ _ | .setPrice _ => env.committee = true

theorem checkAdmin_iff (env : Env) (ns : NameState) : checkAdmin env ns = true ↔ OwnerOrAdmin env ns := by
  unfold checkAdmin OwnerOrAdmin
  by_cases h : ns.owner = []
  · simp [h]
  · have : ns.owner.length ≠ 0 := by
      intro c; exact h (List.eq_nil_of_length_eq_zero c)
    simp only [this, if_false, h, Bool.or_eq_true, Bool.and_eq_true, bne_iff_ne, ne_eq]
    constructor
    · rintro (h1 | ⟨h2, h3⟩)
      · exact Or.inl h1
      · right; refine ⟨?_, h3⟩
        intro c; rw [c] at h2; simp at h2
    · rintro (h1 | ⟨h2, h3⟩)
      · exact Or.inl h1
      · right; refine ⟨?_, h3⟩
        intro c; exact h2 (List.eq_nil_of_length_eq_zero c)

/-- a `false` answer (refused transfer, registration of an unexpired name) changes nothing and notifies nothing -/
theorem false_ret_inert {s s' : State} {env : Env} {op : Op} {ev : List Event}
    (h : step s env op = some (s', .bool false, ev)) : s' = s ∧ ev = [] := by
  cases op with
  | setPrice p =>
    obtain ⟨_, _, _, e⟩ := setPrice_inv h
    injection e with _ e2; injection e2 with e3 _; simp at e3
  | transfer to t =>
    obtain ⟨_, _, ns, _, hcase⟩ := transfer_inv h
    rcases hcase with ⟨_, e⟩ | ⟨_, _, e⟩
    · injection e with e1 e2; injection e2 with _ e3; exact ⟨e1, e3⟩
    · injection e with _ e2; injection e2 with e3 _; injection e3 with e4; simp at e4
  | renew n y =>
    obtain ⟨_, _, _, ns, _, _, _, _, e⟩ := renew_inv h
    injection e with _ e2; injection e2 with e3 _; simp at e3
  | setAdmin n a =>
    obtain ⟨_, _, ns, _, _, e⟩ := setAdmin_inv h
    injection e with _ e2; injection e2 with e3 _; simp at e3
  | updateSOA n e a b c d =>
    obtain ⟨_, _, _, s1, _, e⟩ := updateSOA_inv h
    injection e with _ e2; injection e2 with e3 _; simp at e3
  | registerTLD n e a b c d =>
    obtain ⟨_, _, _, _, s1, _, e⟩ := registerTLD_inv h
    injection e with _ e2; injection e2 with e3 _; simp at e3
  | register n o e a b c d =>
    obtain ⟨_, _, _, _, _, _, _, _, _, hcase⟩ := register_inv h
    rcases hcase with ⟨ns, _, _, e⟩ | ⟨ns, s1, _, _, _, _, e⟩ | ⟨s1, _, _, _, e⟩
    · injection e with e1 e2; injection e2 with _ e3; exact ⟨e1, e3⟩
    · injection e with _ e2; injection e2 with e3 _; injection e3 with e4; simp at e4
    · injection e with _ e2; injection e2 with e3 _; injection e3 with e4; simp at e4
  | addRecord n t d =>
    obtain ⟨_, _, s1, _, _, _, _, _, _, e⟩ := addRecord_inv h
    injection e with _ e2; injection e2 with e3 _; simp at e3
  | setRecord n t i d =>
    obtain ⟨_, _, _, _, s1, _, _, _, _, _, _, e⟩ := setRecord_inv h
    injection e with _ e2; injection e2 with e3 _; simp at e3
  | deleteRecords n t =>
    obtain ⟨_, _, _, ns, tb, s1, _, _, _, _, e⟩ := deleteRecords_inv h
    injection e with _ e2; injection e2 with e3 _; simp at e3

end NeoFS.NNS
