import NeoFS.Model.Placement
set_option linter.unusedSimpArgs false
set_option linter.unusedVariables false
/-! Store lemmas for the placement model (C14): the byte order, prefixes, `get`/`put`/`del`/`find` on
key-ordered stores, extensionality of ordered stores, and the two loops of `CommitContainerListUpdate`. -/
namespace NeoFS.Placement
open NeoFS

/-! ### the byte order -/

theorem blt_irrefl (a : Bytes) : blt a a = false := by
  induction a with
  | nil => rfl
  | cons x a ih => simp [blt, ih]

theorem blt_cons (a : Nat) (x y : Bytes) : blt (a :: x) (a :: y) = blt x y := by
  simp [blt]

theorem blt_append_left (p x y : Bytes) : blt (p ++ x) (p ++ y) = blt x y := by
  induction p with
  | nil => rfl
  | cons a p ih => simp [blt, ih]

theorem blt_trans {a b c : Bytes} (h1 : blt a b = true) (h2 : blt b c = true) : blt a c = true := by
  induction a generalizing b c with
  | nil =>
    cases c with
    | nil => cases b <;> simp [blt] at h1 h2
    | cons z c => simp [blt]
  | cons x a ih =>
    cases b with
    | nil => simp [blt] at h1
    | cons y b =>
      cases c with
      | nil => simp [blt] at h2
      | cons z c =>
        simp only [blt] at h1 h2 ⊢
        by_cases hxy : x < y
        · by_cases hyz : y < z
          · have : x < z := by omega
            simp [this]
          · by_cases e : y = z
            · subst e; simp [hxy]
            · simp [hyz, e] at h2
        · by_cases e : x = y
          · subst e
            simp only [hxy, if_false, if_true] at h1
            by_cases hyz : x < z
            · simp [hyz]
            · by_cases e2 : x = z
              · subst e2
                simp only [hyz, if_false, if_true] at h2 ⊢
                exact ih h1 h2
              · simp [hyz, e2] at h2
          · simp [hxy, e] at h1

theorem blt_total (a b : Bytes) : a = b ∨ blt a b = true ∨ blt b a = true := by
  induction a generalizing b with
  | nil => cases b <;> simp [blt]
  | cons x a ih =>
    cases b with
    | nil => simp [blt]
    | cons y b =>
      simp only [blt]
      by_cases h1 : x < y
      · simp [h1]
      · by_cases h2 : y < x
        · simp [h1, h2]
        · have e : x = y := by omega
          subst e
          simp only [h1, if_false, if_true]
          rcases ih b with h | h | h
          · left; rw [h]
          · right; left; exact h
          · right; right; exact h

theorem blt_asymm {a b : Bytes} (h : blt a b = true) : blt b a = false := by
  cases hb : blt b a with
  | false => rfl
  | true => have := blt_trans h hb; rw [blt_irrefl] at this; exact absurd this (by decide)

theorem blt_ne {a b : Bytes} (h : blt a b = true) : a ≠ b := by
  intro e; subst e; rw [blt_irrefl] at h; exact absurd h (by decide)

/-! ### prefixes -/

theorem isPre_iff (p k : Bytes) : isPre p k = true ↔ ∃ t, k = p ++ t := by
  induction p generalizing k with
  | nil => simp [isPre]
  | cons a p ih =>
    cases k with
    | nil => simp [isPre]
    | cons b k =>
      simp only [isPre]
      by_cases e : a = b
      · subst e
        simp only [if_true, ih, List.cons_append, List.cons.injEq, true_and]
      · simp only [e, if_false, List.cons_append, List.cons.injEq]
        constructor
        · intro h; cases h
        · rintro ⟨t, h1, _⟩; exact absurd h1.symm e

theorem isPre_append (p t : Bytes) : isPre p (p ++ t) = true := (isPre_iff _ _).mpr ⟨t, rfl⟩

theorem isPre_of_append {p q k : Bytes} (h : isPre (p ++ q) k = true) : isPre p k = true := by
  obtain ⟨t, rfl⟩ := (isPre_iff _ _).mp h
  rw [List.append_assoc]; exact isPre_append _ _

theorem isPre_cons_ne {a b : Nat} (p k : Bytes) (h : a ≠ b) : isPre (a :: p) (b :: k) = false := by
  simp [isPre, h]

/-- two prefixes of the same length: a key has both only if they are equal -/
theorem isPre_same_length {p q k : Bytes} (hl : p.length = q.length) (hp : isPre p k = true) (hq : isPre q k = true) :
    p = q := by
  obtain ⟨t, rfl⟩ := (isPre_iff _ _).mp hp
  obtain ⟨t', e⟩ := (isPre_iff _ _).mp hq
  exact (List.append_inj e hl).1

/-! ### get / put / del -/

theorem get_put (s : Store) (k v k' : Bytes) : get (put s k v) k' = if k' = k then some v else get s k' := by
  induction s with
  | nil =>
    simp only [put, get]
    by_cases e : k = k'
    · subst e; simp
    · have : ¬ k' = k := fun h => e h.symm
      simp [e, this]
  | cons x r ih =>
    obtain ⟨kx, vx⟩ := x
    simp only [put]
    by_cases e1 : k = kx
    · subst e1
      simp only [if_true, get]
      by_cases e : k = k'
      · subst e; simp
      · have : ¬ k' = k := fun h => e h.symm
        simp [e, this]
    · by_cases e2 : blt k kx = true
      · simp only [e1, if_false, e2, if_true, get]
        by_cases e : k = k'
        · subst e; simp
        · have : ¬ k' = k := fun h => e h.symm
          simp [e, this]
      · have e2' : blt k kx = false := by simpa using e2
        simp only [e1, if_false, e2', Bool.false_eq_true, get, ih]
        by_cases e : kx = k'
        · subst e
          have : ¬ kx = k := fun h => e1 h.symm
          simp [this]
        · simp [e]

theorem get_del (s : Store) (k k' : Bytes) : get (del s k) k' = if k' = k then none else get s k' := by
  induction s with
  | nil => simp [del, get]
  | cons x r ih =>
    obtain ⟨kx, vx⟩ := x
    have hd : del ((kx, vx) :: r) k = if kx = k then del r k else (kx, vx) :: del r k := by
      unfold del
      by_cases e : kx = k
      · simp [List.filter_cons, e]
      · simp [List.filter_cons, e]
    rw [hd]
    by_cases e : kx = k
    · subst e
      simp only [if_true, ih, get]
      by_cases e2 : k' = kx
      · simp [e2]
      · have : ¬ kx = k' := fun h => e2 h.symm
        simp [e2, this]
    · simp only [e, if_false, get, ih]
      by_cases e2 : kx = k'
      · subst e2; simp [e]
      · simp [e2]

theorem mem_put {s : Store} {k v : Bytes} {e : Bytes × Bytes} (h : e ∈ put s k v) : e = (k, v) ∨ e ∈ s := by
  induction s with
  | nil => simp only [put, List.mem_singleton] at h; exact Or.inl h
  | cons x r ih =>
    obtain ⟨kx, vx⟩ := x
    simp only [put] at h
    by_cases e1 : k = kx
    · simp only [e1, if_true, List.mem_cons] at h
      rcases h with h | h
      · left; rw [h, e1]
      · right; exact List.mem_cons_of_mem _ h
    · simp only [e1, if_false] at h
      by_cases e2 : blt k kx = true
      · simp only [e2, if_true, List.mem_cons] at h
        rcases h with h | h | h
        · left; exact h
        · right; rw [h]; exact List.mem_cons_self
        · right; exact List.mem_cons_of_mem _ h
      · have e2' : blt k kx = false := by simpa using e2
        simp only [e2', Bool.false_eq_true, if_false, List.mem_cons] at h
        rcases h with h | h
        · right; rw [h]; exact List.mem_cons_self
        · rcases ih h with h | h
          · left; exact h
          · right; exact List.mem_cons_of_mem _ h

/-! ### ordered stores -/

def Sorted (s : Store) : Prop := s.Pairwise (fun a b => blt a.1 b.1 = true)

theorem sorted_nil : Sorted [] := List.Pairwise.nil

theorem sorted_put {s : Store} (h : Sorted s) (k v : Bytes) : Sorted (put s k v) := by
  induction s with
  | nil => simp [put, Sorted]
  | cons x r ih =>
    obtain ⟨kx, vx⟩ := x
    unfold Sorted at h ih ⊢
    rw [List.pairwise_cons] at h
    simp only [put]
    by_cases e1 : k = kx
    · subst e1
      simp only [if_true]
      rw [List.pairwise_cons]; exact ⟨h.1, h.2⟩
    · simp only [e1, if_false]
      by_cases e2 : blt k kx = true
      · simp only [e2, if_true]
        rw [List.pairwise_cons]
        refine ⟨?_, List.pairwise_cons.mpr h⟩
        intro a ha
        rcases List.mem_cons.mp ha with ha | ha
        · rw [ha]; exact e2
        · exact blt_trans e2 (h.1 a ha)
      · have e2' : blt k kx = false := by simpa using e2
        simp only [e2', Bool.false_eq_true, if_false]
        rw [List.pairwise_cons]
        refine ⟨?_, ih h.2⟩
        intro a ha
        rcases mem_put ha with ha | ha
        · rw [ha]
          rcases blt_total k kx with t | t | t
          · exact absurd t e1
          · exact absurd t e2
          · exact t
        · exact h.1 a ha

theorem sorted_del {s : Store} (h : Sorted s) (k : Bytes) : Sorted (del s k) :=
  List.Pairwise.sublist List.filter_sublist h

theorem sorted_find {s : Store} (h : Sorted s) (p : Bytes) : Sorted (find s p) :=
  List.Pairwise.sublist List.filter_sublist h

theorem mem_iff_get {s : Store} (h : Sorted s) (k v : Bytes) : (k, v) ∈ s ↔ get s k = some v := by
  induction s with
  | nil => simp [get]
  | cons x r ih =>
    obtain ⟨kx, vx⟩ := x
    unfold Sorted at h ih
    rw [List.pairwise_cons] at h
    simp only [get, List.mem_cons, Prod.mk.injEq]
    by_cases e : kx = k
    · subst e
      simp only [if_true, Option.some.injEq, true_and]
      constructor
      · rintro (h1 | h1)
        · exact h1.symm
        · have := h.1 _ h1
          rw [blt_irrefl] at this; exact absurd this (by decide)
      · intro h1; left; exact h1.symm
    · simp only [e, if_false]
      rw [← ih h.2]
      constructor
      · rintro (h1 | h1)
        · exact absurd h1.1.symm e
        · exact h1
      · intro h1; right; exact h1

theorem mem_find {s : Store} {p : Bytes} {e : Bytes × Bytes} : e ∈ find s p ↔ e ∈ s ∧ isPre p e.1 = true := by
  unfold find; rw [List.mem_filter]

theorem mem_find_get {s : Store} (h : Sorted s) (p k v : Bytes) :
    (k, v) ∈ find s p ↔ get s k = some v ∧ isPre p k = true := by
  rw [mem_find, mem_iff_get h]

/-- an ordered store is determined by its elements -/
theorem sorted_ext {a b : Store} (ha : Sorted a) (hb : Sorted b) (h : ∀ e, e ∈ a ↔ e ∈ b) : a = b := by
  induction a generalizing b with
  | nil =>
    cases b with
    | nil => rfl
    | cons y b => exact absurd ((h y).mpr List.mem_cons_self) (by simp)
  | cons x a ih =>
    cases b with
    | nil => exact absurd ((h x).mp List.mem_cons_self) (by simp)
    | cons y b =>
      unfold Sorted at ha hb ih
      rw [List.pairwise_cons] at ha hb
      have hxy : x = y := by
        have h1 := (h x).mp List.mem_cons_self
        have h2 := (h y).mpr List.mem_cons_self
        rcases List.mem_cons.mp h1 with h1 | h1
        · exact h1
        · rcases List.mem_cons.mp h2 with h2 | h2
          · exact h2.symm
          · have t1 := hb.1 x h1
            have t2 := ha.1 y h2
            have := blt_trans t1 t2
            rw [blt_irrefl] at this; exact absurd this (by decide)
      subst hxy
      congr 1
      apply ih ha.2 hb.2
      intro e
      constructor
      · intro he
        rcases List.mem_cons.mp ((h e).mp (List.mem_cons_of_mem _ he)) with h1 | h1
        · subst h1
          have := ha.1 e he
          rw [blt_irrefl] at this; exact absurd this (by decide)
        · exact h1
      · intro he
        rcases List.mem_cons.mp ((h e).mpr (List.mem_cons_of_mem _ he)) with h1 | h1
        · subst h1
          have := hb.1 e he
          rw [blt_irrefl] at this; exact absurd this (by decide)
        · exact h1

/-- `Find` is determined by what `Get` answers on the keys with the prefix -/
theorem find_eq_of {s : Store} (hs : Sorted s) {p : Bytes} {L : Store} (hL : Sorted L)
    (h : ∀ k v, (k, v) ∈ L ↔ (get s k = some v ∧ isPre p k = true)) : find s p = L := by
  apply sorted_ext (sorted_find hs p) hL
  rintro ⟨k, v⟩
  rw [mem_find_get hs, h]

theorem find_congr {s s' : Store} (hs : Sorted s) (hs' : Sorted s') (p : Bytes)
    (h : ∀ k, isPre p k = true → get s k = get s' k) : find s p = find s' p := by
  apply find_eq_of hs (sorted_find hs' p)
  intro k v
  rw [mem_find_get hs']
  constructor
  · rintro ⟨h1, h2⟩; exact ⟨(h k h2) ▸ h1, h2⟩
  · rintro ⟨h1, h2⟩; exact ⟨(h k h2).symm ▸ h1, h2⟩

theorem find_append_filter (s : Store) (p q : Bytes) :
    find s (p ++ q) = (find s p).filter (fun e => isPre (p ++ q) e.1) := by
  unfold find
  rw [List.filter_filter]
  apply List.filter_congr
  intro e _
  cases h : isPre (p ++ q) e.1 with
  | false => simp
  | true => simp [isPre_of_append h]

theorem find_eq_nil_of {s : Store} {p : Bytes} (h : ∀ k, isPre p k = true → get s k = none) (hs : Sorted s) :
    find s p = [] := by
  apply find_eq_of hs sorted_nil
  intro k v
  constructor
  · intro h1; exact absurd h1 (by simp)
  · rintro ⟨h1, h2⟩; rw [h k h2] at h1; exact absurd h1 (by simp)

/-- the keys of an ordered store are pairwise different -/
theorem sorted_keys_ne {s : Store} (h : Sorted s) : s.Pairwise (fun a b => a.1 ≠ b.1) :=
  List.Pairwise.imp (fun hab => blt_ne hab) h

/-! ### the deletion loop -/

theorem sorted_delAll {s : Store} (h : Sorted s) (l : List (Bytes × Bytes)) : Sorted (delAll s l) := by
  induction l generalizing s with
  | nil => exact h
  | cons e l ih => exact ih (sorted_del h e.1)

theorem get_delAll (s : Store) (l : List (Bytes × Bytes)) (k : Bytes) :
    get (delAll s l) k = if k ∈ l.map (·.1) then none else get s k := by
  induction l generalizing s with
  | nil => simp [delAll]
  | cons e l ih =>
    unfold delAll at ih ⊢
    simp only [List.foldl_cons, ih, get_del, List.map_cons, List.mem_cons]
    by_cases h1 : k ∈ l.map (·.1)
    · simp [h1]
    · by_cases h2 : k = e.1
      · simp [h1, h2]
      · simp [h1, h2]

/-- `for it := Find(p); Next(it) { Delete(key) }` -/
theorem get_delAll_find {s : Store} (hs : Sorted s) (p k : Bytes) :
    get (delAll s (find s p)) k = if isPre p k = true then none else get s k := by
  rw [get_delAll]
  by_cases h : isPre p k = true
  · simp only [h, if_true]
    by_cases h2 : k ∈ (find s p).map (·.1)
    · simp [h2]
    · simp only [h2, if_false]
      cases hg : get s k with
      | none => rfl
      | some v =>
        exfalso; apply h2
        exact List.mem_map.mpr ⟨(k, v), (mem_find_get hs p k v).mpr ⟨hg, h⟩, rfl⟩
  · have : k ∉ (find s p).map (·.1) := by
      intro h2
      obtain ⟨e, he, rfl⟩ := List.mem_map.mp h2
      exact h (mem_find.mp he).2
    simp [h, this]

/-! ### the copy loop -/

theorem sorted_moveAll {s : Store} (h : Sorted s) (l : List (Bytes × Bytes)) : Sorted (moveAll s l) := by
  induction l generalizing s with
  | nil => exact h
  | cons e l ih => exact ih (sorted_put (sorted_del h e.1) _ _)

theorem get_moveAll_other (s : Store) (l : List (Bytes × Bytes)) (k : Bytes)
    (h1 : ∀ e ∈ l, e.1 ≠ k) (h2 : ∀ e ∈ l, pN :: e.1.drop 1 ≠ k) : get (moveAll s l) k = get s k := by
  induction l generalizing s with
  | nil => rfl
  | cons e l ih =>
    unfold moveAll at ih ⊢
    simp only [List.foldl_cons]
    rw [ih _ (fun e' he' => h1 e' (List.mem_cons_of_mem _ he')) (fun e' he' => h2 e' (List.mem_cons_of_mem _ he'))]
    have a1 : ¬ k = pN :: e.1.drop 1 := fun h => h2 e List.mem_cons_self h.symm
    have a2 : ¬ k = e.1 := fun h => h1 e List.mem_cons_self h.symm
    rw [get_put, get_del, if_neg a1, if_neg a2]

theorem pU_ne_pN : pU ≠ pN := by decide
theorem pU_ne_pR : pU ≠ pR := by decide
theorem pN_ne_pR : pN ≠ pR := by decide
theorem pM_ne_pU : pM ≠ pU := by decide
theorem pM_ne_pN : pM ≠ pN := by decide
theorem pM_ne_pR : pM ≠ pR := by decide

/-- on keys of the pending family the copy loop is a deletion loop -/
theorem get_moveAll_src (s : Store) (l : List (Bytes × Bytes)) (k : Bytes) (hk : ∃ t, k = pU :: t) :
    get (moveAll s l) k = if k ∈ l.map (·.1) then none else get s k := by
  induction l generalizing s with
  | nil => simp [moveAll]
  | cons x l ih =>
    unfold moveAll at ih ⊢
    obtain ⟨t, ht⟩ := hk
    have a1 : ¬ k = pN :: x.1.drop 1 := by
      rw [ht]; simp only [List.cons.injEq, not_and]
      intro h; exact absurd h pU_ne_pN
    simp only [List.foldl_cons, ih, List.map_cons, List.mem_cons]
    rw [get_put, if_neg a1, get_del]
    by_cases h1 : k ∈ l.map (·.1)
    · simp [h1]
    · by_cases h2 : k = x.1
      · simp [h1, h2]
      · simp [h1, h2]

/-- every moved item arrives under the committed prefix -/
theorem get_moveAll_dst (s : Store) (l : List (Bytes × Bytes)) (hu : ∀ e ∈ l, ∃ t, e.1 = pU :: t)
    (hd : l.Pairwise (fun a b => a.1 ≠ b.1)) (e : Bytes × Bytes) (he : e ∈ l) :
    get (moveAll s l) (pN :: e.1.drop 1) = some e.2 := by
  induction l generalizing s with
  | nil => exact absurd he (by simp)
  | cons x l ih =>
    rw [List.pairwise_cons] at hd
    have hu' : ∀ e' ∈ l, ∃ t, e'.1 = pU :: t := fun e' he' => hu e' (List.mem_cons_of_mem _ he')
    by_cases hin : e ∈ l
    · have := ih (put (del s x.1) (pN :: x.1.drop 1) x.2) hu' hd.2 hin
      unfold moveAll at this ⊢
      simpa only [List.foldl_cons] using this
    · have hx : e = x := by
        rcases List.mem_cons.mp he with h | h
        · exact h
        · exact absurd h hin
      subst hx
      have := get_moveAll_other (put (del s e.1) (pN :: e.1.drop 1) e.2) l (pN :: e.1.drop 1) ?_ ?_
      · unfold moveAll at this ⊢
        simp only [List.foldl_cons]
        rw [this, get_put]; simp
      · intro e' he' h
        obtain ⟨t', ht'⟩ := hu' e' he'
        rw [ht'] at h
        simp only [List.cons.injEq] at h
        exact absurd h.1 pU_ne_pN
      · intro e' he' h
        obtain ⟨t', ht'⟩ := hu' e' he'
        obtain ⟨t, ht⟩ := hu e List.mem_cons_self
        apply hd.1 e' he'
        rw [ht, ht'] at h ⊢
        simp only [List.drop_succ_cons, List.drop_zero, List.cons.injEq, true_and] at h
        rw [h]

end NeoFS.Placement
