import NeoFS.Lemmas.ContainerSpec
import NeoFS.Lemmas.ContainerFee
set_option linter.unusedSimpArgs false
set_option linter.unusedVariables false
/-! Finality of deletion, notifications, and the reduction of `WFHist` to collision freedom of the ids. -/
namespace NeoFS.Container
open NeoFS

theorem invoke_ok {env : Env} {s s' : State} {op : Op} {r : Ret} {ev : List Ev}
    (h : invoke env s op = (s', .ok (r, ev))) : step env s op = .ok (s', r, ev) := by
  unfold invoke at h
  cases hst : step env s op with
  | error e => rw [hst] at h; cases h
  | ok x => obtain ⟨a, b, c⟩ := x; rw [hst] at h; cases h; rfl

/-- fields of the state after a HALTed put -/
theorem put_fields {env : Env} {s s' : State} {cid blob sg pub token name zone : Bytes} {mt : Option Bool} {evs : List Ev}
    {owner : Bytes} {fee : Int} {b' : Balance.State} {bev : List Balance.Event} {needReg : Bool}
    (hp : PutOK env s cid blob sg pub token name zone mt s' evs owner fee b' bev needReg) :
    s'.x = AL.put s.x cid ⟨blob, sg, pub, token⟩ ∧ s'.o = AL.put s.o (owner, cid) cid ∧ s'.d = s.d ∧
    s'.m = metaSet s cid mt ∧ s'.eacl = s.eacl ∧ s'.bal = b' ∧ s'.cfg = s.cfg ∧ s'.roots = s.roots ∧
    s'.alias = (if name ≠ [] then AL.put s.alias cid (putDomain env name zone) else s.alias) := by
  have hal := hp.hAlias
  by_cases hn : name = []
  · simp only [hn, ne_eq, not_true_eq_false, if_false] at hal ⊢
    subst hal; exact ⟨rfl, rfl, rfl, rfl, rfl, rfl, rfl, rfl, rfl⟩
  · simp only [hn, ne_eq, not_false_eq_true, if_true] at hal ⊢
    obtain ⟨d1, d2, d3, _, _, _, rfl⟩ := putAlias_ok hal
    exact ⟨rfl, rfl, rfl, rfl, rfl, rfl, rfl, rfl, rfl⟩

/-- fields of the state after a HALTed delete of a stored container -/
theorem del_fields {env : Env} {s s' : State} {cid : Bytes} {evs : List Ev} {c : Cnr} {owner : Bytes} {s1 : State}
    (hd : DelOK env s cid s' evs c owner s1) :
    s'.x = AL.del s.x cid ∧ s'.o = AL.del s.o (owner, cid) ∧ s'.d = sadd s.d cid ∧ s'.m = sdel s.m cid ∧
    s'.eacl = AL.del s.eacl cid ∧ s'.bal = s.bal ∧ s'.cfg = s.cfg ∧
    (∀ k, AL.get s'.alias k = if k = cid then (if (AL.get s.alias cid).isSome && (AL.get s.alias cid) ≠ some [] then none else AL.get s.alias cid) else AL.get s.alias k) := by
  have hA := hd.hAlias
  have hS := hd.hS
  cases hal : AL.get s.alias cid with
  | none =>
    simp only [hal] at hA; subst hA; subst hS
    refine ⟨rfl, rfl, rfl, rfl, rfl, rfl, rfl, fun k => ?_⟩
    by_cases e : k = cid
    · subst e; simp [hal]
    · simp [e]
  | some domain =>
    simp only [hal] at hA
    split at hA
    · rename_i hlen
      obtain ⟨d', _, rfl⟩ := hA
      subst hS
      refine ⟨rfl, rfl, rfl, rfl, rfl, rfl, rfl, fun k => ?_⟩
      have : domain ≠ [] := by intro e; subst e; simp at hlen
      simp only [AL.get_del]
      by_cases e : k = cid
      · simp [e, this]
      · simp [e]
    · rename_i hlen
      subst hA; subst hS
      have : domain = [] := by
        apply List.eq_nil_of_length_eq_zero
        simpa using hlen
      refine ⟨rfl, rfl, rfl, rfl, rfl, rfl, rfl, fun k => ?_⟩
      by_cases e : k = cid
      · subst e; simp [hal, this]
      · simp [e]

/-- classification of a HALTed step -/
theorem step_ok_cases {env : Env} {s s' : State} {op : Op} {r : Ret} {ev : List Ev} (h : step env s op = .ok (s', r, ev)) :
    (∃ cid blob sg pub token name zone mt, op = .put cid blob sg pub token name zone mt ∧
        putStep env s cid blob sg pub token name zone mt = .ok (s', ev)) ∨
    (∃ cid sg token, op = .delete cid sg token ∧ deleteStep env s cid = .ok (s', ev)) ∨
    (∃ table sg pub token, op = .setEACL table sg pub token ∧ setEACLStep env s table sg pub token = .ok (s', ev)) ∨
    ((∀ cid blob sg pub token name zone mt, op ≠ .put cid blob sg pub token name zone mt) ∧
     (∀ cid sg token, op ≠ .delete cid sg token) ∧ (∀ table sg pub token, op ≠ .setEACL table sg pub token) ∧
     s'.x = s.x ∧ s'.o = s.o ∧ s'.d = s.d ∧ s'.m = s.m ∧ s'.eacl = s.eacl ∧ s'.alias = s.alias ∧
     ev.filter (fun e => match e with | .bal _ => false | _ => true) = []) := by
  cases op with
  | setcfg key val =>
    simp only [step] at h
    split at h
    · cases h
    · cases h; exact Or.inr (Or.inr (Or.inr ⟨by simp, by simp, by simp, rfl, rfl, rfl, rfl, rfl, rfl, rfl⟩))
  | bal bop =>
    simp only [step] at h
    split at h
    · cases h
    · cases h
      exact Or.inr (Or.inr (Or.inr ⟨by simp, by simp, by simp, rfl, rfl, rfl, rfl, rfl, rfl, payFees_events _⟩))
  | prereg domain owner =>
    simp only [step] at h
    split at h
    · cases h
    · rename_i s2 h2; cases h
      have : s'.x = s.x ∧ s'.o = s.o ∧ s'.d = s.d ∧ s'.m = s.m ∧ s'.eacl = s.eacl ∧ s'.alias = s.alias := by
        unfold preregStep at h2
        split at h2
        · cases h2
        · split at h2
          · cases h2
          · split at h2
            · cases h2
            · split at h2
              · cases h2
              · split at h2
                · cases h2
                · cases h2; exact ⟨rfl, rfl, rfl, rfl, rfl, rfl⟩
      obtain ⟨a, b, c, d, e, f⟩ := this
      exact Or.inr (Or.inr (Or.inr ⟨by simp, by simp, by simp, a, b, c, d, e, f, rfl⟩))
  | put cid blob sg pub token name zone mt =>
    simp only [step] at h
    split at h
    · cases h
    · rename_i s2 ev2 h2; cases h
      exact Or.inl ⟨cid, blob, sg, pub, token, name, zone, mt, rfl, h2⟩
  | delete cid sg token =>
    simp only [step] at h
    split at h
    · cases h
    · rename_i s2 ev2 h2; cases h
      exact Or.inr (Or.inl ⟨cid, sg, token, rfl, h2⟩)
  | setEACL table sg pub token =>
    simp only [step] at h
    split at h
    · cases h
    · rename_i s2 ev2 h2; cases h
      exact Or.inr (Or.inr (Or.inl ⟨table, sg, pub, token, rfl, h2⟩))
  | get cid =>
    simp only [step] at h; split at h <;> cases h
    exact Or.inr (Or.inr (Or.inr ⟨by simp, by simp, by simp, rfl, rfl, rfl, rfl, rfl, rfl, rfl⟩))
  | owner cid =>
    simp only [step] at h; split at h <;> cases h
    exact Or.inr (Or.inr (Or.inr ⟨by simp, by simp, by simp, rfl, rfl, rfl, rfl, rfl, rfl, rfl⟩))
  | alias cid =>
    simp only [step] at h; split at h <;> cases h
    exact Or.inr (Or.inr (Or.inr ⟨by simp, by simp, by simp, rfl, rfl, rfl, rfl, rfl, rfl, rfl⟩))
  | eacl cid =>
    simp only [step] at h; split at h <;> cases h
    exact Or.inr (Or.inr (Or.inr ⟨by simp, by simp, by simp, rfl, rfl, rfl, rfl, rfl, rfl, rfl⟩))
  | count =>
    simp only [step] at h; split at h <;> cases h
    exact Or.inr (Or.inr (Or.inr ⟨by simp, by simp, by simp, rfl, rfl, rfl, rfl, rfl, rfl, rfl⟩))
  | list o =>
    simp only [step] at h; split at h <;> cases h
    exact Or.inr (Or.inr (Or.inr ⟨by simp, by simp, by simp, rfl, rfl, rfl, rfl, rfl, rfl, rfl⟩))
  | containersOf o =>
    simp only [step] at h; split at h <;> cases h
    exact Or.inr (Or.inr (Or.inr ⟨by simp, by simp, by simp, rfl, rfl, rfl, rfl, rfl, rfl, rfl⟩))

/-! ### finality of deletion -/

/-- a tombstoned id is not stored (part of `Inv`, but kept by every operation without any assumption) -/
def DT (s : State) : Prop := ∀ c, c ∈ s.d → AL.get s.x c = none

theorem dt_step {env : Env} {s s' : State} {op : Op} {r : Ret} {ev : List Ev} (h : step env s op = .ok (s', r, ev))
    (hD : DT s) : DT s' ∧ ∀ c, c ∈ s.d → c ∈ s'.d := by
  rcases step_ok_cases h with ⟨cid, blob, sg, pub, token, name, zone, mt, _, h2⟩ | ⟨cid, sg, token, _, h2⟩ |
      ⟨table, sg, pub, token, _, h2⟩ | ⟨_, _, _, hx, _, hd, _⟩
  · obtain ⟨owner, fee, b', bev, needReg, hp⟩ := putStep_ok h2
    obtain ⟨fx, _, fd, _⟩ := put_fields hp
    refine ⟨fun c hc => ?_, fun c hc => fd ▸ hc⟩
    rw [fd] at hc
    have : c ≠ cid := by intro e; subst e; exact hp.notTomb hc
    rw [fx, AL.get_put_ne _ _ _ _ this]; exact hD c hc
  · rcases deleteStep_ok h2 with ⟨_, rfl, _⟩ | ⟨c0, owner, s1, hdl⟩
    · exact ⟨hD, fun _ h => h⟩
    · obtain ⟨fx, _, fd, _⟩ := del_fields hdl
      refine ⟨fun c hc => ?_, fun c hc => by rw [fd]; exact (mem_sadd _ _ _).mpr (Or.inr hc)⟩
      rw [fd] at hc; rw [fx, AL.get_del]
      by_cases e : c = cid
      · simp [e]
      · rcases (mem_sadd _ _ _).mp hc with h1 | h1
        · exact absurd h1 e
        · simp [e, hD c h1]
  · obtain ⟨cid, c, _, _, _, _, rfl, _⟩ := setEACLStep_ok h2
    exact ⟨hD, fun _ h => h⟩
  · exact ⟨fun c hc => by rw [hx]; rw [hd] at hc; exact hD c hc, fun c hc => hd ▸ hc⟩

theorem dt_invoke (env : Env) (s : State) (op : Op) (hD : DT s) :
    DT (invoke env s op).1 ∧ ∀ c, c ∈ s.d → c ∈ (invoke env s op).1.d := by
  unfold invoke
  cases hst : step env s op with
  | error e => exact ⟨hD, fun _ h => h⟩
  | ok r => obtain ⟨s', ret, ev⟩ := r; exact dt_step hst hD

theorem dt_run (hist : List (Env × Op)) (s : State) (hD : DT s) :
    DT (run s hist) ∧ ∀ c, c ∈ s.d → c ∈ (run s hist).d := by
  induction hist generalizing s with
  | nil => exact ⟨hD, fun _ h => h⟩
  | cons x rest ih =>
    obtain ⟨env, op⟩ := x
    obtain ⟨h1, h2⟩ := dt_invoke env s op hD
    obtain ⟨h3, h4⟩ := ih _ h1
    exact ⟨h3, fun c hc => h4 c (h2 c hc)⟩

theorem dt_init (roots : List Bytes) : DT (init roots) := by
  intro c hc; simp [init] at hc

/-! ### notifications -/

def isCnrEv : Ev → Bool
  | .bal _ => false
  | _ => true

/-- the Container contract's own notifications among the notifications of an invocation -/
def cnrEvents (evs : List Ev) : List Ev := evs.filter isCnrEv

theorem cnrEvents_bal (evs : List Balance.Event) : cnrEvents (evs.map Ev.bal) = [] := by
  unfold cnrEvents
  induction evs with
  | nil => rfl
  | cons e r ih => simp [List.filter_cons, isCnrEv, ih]

/-- what the property allows a HALTed invocation to announce: one notification naming the container for a
put, for a delete that found the container, for a setEACL; nothing for anything else -/
def expectedEvents (s : State) : Op → List Ev
  | .put cid _ _ pub _ _ _ _ => [.putSuccess cid pub]
  | .delete cid _ _ => if (AL.get s.x cid).isSome then [.deleteSuccess cid] else []
  | .setEACL table _ pub _ =>
    match eaclCID table with
    | some cid => [.setEACLSuccess cid pub]
    | none => []
  | _ => []

theorem events_step {env : Env} {s s' : State} {op : Op} {r : Ret} {ev : List Ev} (h : step env s op = .ok (s', r, ev)) :
    cnrEvents ev = expectedEvents s op := by
  rcases step_ok_cases h with ⟨cid, blob, sg, pub, token, name, zone, mt, rfl, h2⟩ | ⟨cid, sg, token, rfl, h2⟩ |
      ⟨table, sg, pub, token, rfl, h2⟩ | ⟨h1, h2, h3, _, _, _, _, _, _, hev⟩
  · obtain ⟨owner, fee, b', bev, needReg, hp⟩ := putStep_ok h2
    rw [hp.hEv]
    simp only [cnrEvents, List.filter_append, expectedEvents]
    have := cnrEvents_bal bev
    unfold cnrEvents at this
    rw [this]; simp [isCnrEv]
  · rcases deleteStep_ok h2 with ⟨hn, _, rfl⟩ | ⟨c0, owner, s1, hdl⟩
    · simp [hn, cnrEvents, expectedEvents]
    · rw [hdl.hEv]; simp [hdl.hX, cnrEvents, isCnrEv, expectedEvents]
  · obtain ⟨cid, c, hcid, _, _, _, _, rfl⟩ := setEACLStep_ok h2
    simp [hcid, cnrEvents, isCnrEv, expectedEvents]
  · have : cnrEvents ev = [] := by
      unfold cnrEvents
      have e : isCnrEv = (fun e => match e with | .bal _ => false | _ => true) := by
        funext e; cases e <;> rfl
      rw [e]; exact hev
    rw [this]
    cases op with
    | put cid blob sg pub token name zone mt => exact absurd rfl (h1 cid blob sg pub token name zone mt)
    | delete cid sg token => exact absurd rfl (h2 cid sg token)
    | setEACL table sg pub token => exact absurd rfl (h3 table sg pub token)
    | _ => rfl

/-! ### `WFHist` from collision freedom -/

/-- the (id, blob) pairs of the `put` operations of a history -/
def putsOf : List (Env × Op) → List (Bytes × Bytes)
  | [] => []
  | (_, .put cid blob _ _ _ _ _ _) :: rest => (cid, blob) :: putsOf rest
  | _ :: rest => putsOf rest

/-- no two different blobs carry the same id -/
def Consistent (l : List (Bytes × Bytes)) : Prop := ∀ p, p ∈ l → ∀ q, q ∈ l → p.1 = q.1 → p.2 = q.2

instance (l : List (Bytes × Bytes)) : Decidable (Consistent l) := by unfold Consistent; exact inferInstance

/-- every stored blob is one of the listed (id, blob) pairs -/
def StoredIn (s : State) (l : List (Bytes × Bytes)) : Prop := ∀ cid c, AL.get s.x cid = some c → (cid, c.value) ∈ l

theorem storedIn_invoke {env : Env} {s : State} {op : Op} {l : List (Bytes × Bytes)} (hS : StoredIn s l)
    (hop : ∀ cid blob sg pub token name zone mt, op = .put cid blob sg pub token name zone mt → (cid, blob) ∈ l) :
    StoredIn (invoke env s op).1 l := by
  unfold invoke
  cases hst : step env s op with
  | error e => exact hS
  | ok r =>
    obtain ⟨s', ret, ev⟩ := r
    show StoredIn s' l
    rcases step_ok_cases hst with ⟨cid, blob, sg, pub, token, name, zone, mt, rfl, h2⟩ | ⟨cid, sg, token, rfl, h2⟩ |
        ⟨table, sg, pub, token, rfl, h2⟩ | ⟨_, _, _, hx, _⟩
    · obtain ⟨owner, fee, b', bev, needReg, hp⟩ := putStep_ok h2
      obtain ⟨fx, _⟩ := put_fields hp
      intro c cn hcn
      rw [fx, AL.get_put] at hcn
      by_cases e : c = cid
      · simp only [e, if_true, Option.some.injEq] at hcn
        subst hcn; subst e
        exact hop _ _ _ _ _ _ _ _ rfl
      · simp only [e, if_false] at hcn; exact hS c cn hcn
    · rcases deleteStep_ok h2 with ⟨_, rfl, _⟩ | ⟨c0, owner, s1, hdl⟩
      · exact hS
      · obtain ⟨fx, _⟩ := del_fields hdl
        intro c cn hcn
        rw [fx, AL.get_del] at hcn
        by_cases e : c = cid
        · simp [e] at hcn
        · simp only [e, if_false] at hcn; exact hS c cn hcn
    · obtain ⟨cid, c, _, _, _, _, rfl, _⟩ := setEACLStep_ok h2
      exact hS
    · intro c cn hcn; rw [hx] at hcn; exact hS c cn hcn

theorem wfHist_of_consistent (hist : List (Env × Op)) (s : State) (l : List (Bytes × Bytes))
    (hC : Consistent l) (hS : StoredIn s l) (hsub : ∀ p, p ∈ putsOf hist → p ∈ l) : WFHist s hist := by
  induction hist generalizing s with
  | nil => trivial
  | cons x rest ih =>
    obtain ⟨env, op⟩ := x
    have hrest : ∀ p, p ∈ putsOf rest → p ∈ l := by
      intro p hp; apply hsub
      cases op <;> simp [putsOf, hp]
    have hop : ∀ cid blob sg pub token name zone mt, op = .put cid blob sg pub token name zone mt → (cid, blob) ∈ l := by
      intro cid blob sg pub token name zone mt e
      subst e; apply hsub; simp [putsOf]
    refine ⟨?_, ih _ (storedIn_invoke hS hop) hrest⟩
    cases op with
    | put cid blob sg pub token name zone mt =>
      intro c hc
      exact hC (cid, c.value) (hS cid c hc) (cid, blob) (hop _ _ _ _ _ _ _ _ rfl) rfl
    | _ => trivial

end NeoFS.Container
