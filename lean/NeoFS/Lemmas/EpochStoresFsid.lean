import NeoFS.Lemmas.EpochStoresStore
import NeoFS.Lemmas.EpochStoresEnc
set_option linter.unusedSimpArgs false
set_option linter.unusedVariables false
/-! NeoFSID and configuration-map lemmas (C20). -/
namespace NeoFS.EpochStores
open NeoFS

variable {α : Type}

/-! ### folds of puts / deletes -/

theorem get_foldl_put {β : Type} (f : β → Bytes) (v : α) (keys : List β) (s : Store α) (x : Bytes) :
    get (keys.foldl (fun s k => put s (f k) v) s) x = if (∃ k ∈ keys, f k = x) then some v else get s x := by
  induction keys generalizing s with
  | nil => simp
  | cons k ks ih =>
    rw [List.foldl_cons, ih]
    by_cases h1 : ∃ k' ∈ ks, f k' = x
    · have : ∃ k' ∈ k :: ks, f k' = x := by
        obtain ⟨k', hk, e⟩ := h1; exact ⟨k', List.mem_cons_of_mem _ hk, e⟩
      simp only [h1, this, if_true]
    · by_cases h2 : f k = x
      · have : ∃ k' ∈ k :: ks, f k' = x := ⟨k, List.mem_cons_self, h2⟩
        simp only [h1, this, if_true, if_false]
        rw [← h2, get_put_self]
      · have : ¬ ∃ k' ∈ k :: ks, f k' = x := by
          rintro ⟨k', hk, e⟩
          rcases List.mem_cons.mp hk with rfl | hk
          · exact h2 e
          · exact h1 ⟨k', hk, e⟩
        simp only [h1, this, if_false]
        rw [get_put_other _ _ _ _ (fun e => h2 e.symm)]

theorem get_foldl_del {β : Type} (f : β → Bytes) (keys : List β) (s : Store α) (x : Bytes) :
    get (keys.foldl (fun s k => del s (f k)) s) x = if (∃ k ∈ keys, f k = x) then none else get s x := by
  induction keys generalizing s with
  | nil => simp
  | cons k ks ih =>
    rw [List.foldl_cons, ih]
    by_cases h1 : ∃ k' ∈ ks, f k' = x
    · have : ∃ k' ∈ k :: ks, f k' = x := by
        obtain ⟨k', hk, e⟩ := h1; exact ⟨k', List.mem_cons_of_mem _ hk, e⟩
      simp only [h1, this, if_true]
    · by_cases h2 : f k = x
      · have : ∃ k' ∈ k :: ks, f k' = x := ⟨k, List.mem_cons_self, h2⟩
        simp only [h1, this, if_true, if_false]
        rw [← h2, get_del_self]
      · have : ¬ ∃ k' ∈ k :: ks, f k' = x := by
          rintro ⟨k', hk, e⟩
          rcases List.mem_cons.mp hk with rfl | hk
          · exact h2 e
          · exact h1 ⟨k', hk, e⟩
        simp only [h1, this, if_false]
        rw [get_del_other _ _ _ (fun e => h2 e.symm)]

theorem uniq_foldl_put {β : Type} (f : β → Bytes) (v : α) (keys : List β) (s : Store α) (h : Uniq s) :
    Uniq (keys.foldl (fun s k => put s (f k) v) s) := by
  induction keys generalizing s with
  | nil => exact h
  | cons k ks ih => rw [List.foldl_cons]; exact ih _ (uniq_put s _ v h)

theorem uniq_foldl_del {β : Type} (f : β → Bytes) (keys : List β) (s : Store α) (h : Uniq s) :
    Uniq (keys.foldl (fun s k => del s (f k)) s) := by
  induction keys generalizing s with
  | nil => exact h
  | cons k ks ih => rw [List.foldl_cons]; exact ih _ (uniq_del s _ h)

theorem mem_foldl_put {β : Type} (f : β → Bytes) (v : α) (keys : List β) (s : Store α) (kv : Bytes × α)
    (h : kv ∈ keys.foldl (fun s k => put s (f k) v) s) : kv ∈ s ∨ ∃ k ∈ keys, kv = (f k, v) := by
  induction keys generalizing s with
  | nil => exact Or.inl h
  | cons k ks ih =>
    rw [List.foldl_cons] at h
    rcases ih _ h with h1 | ⟨k', hk, e⟩
    · rcases (mem_put_iff s (f k) v kv).mp h1 with e | ⟨_, hm⟩
      · exact Or.inr ⟨k, List.mem_cons_self, e⟩
      · exact Or.inl hm
    · exact Or.inr ⟨k', List.mem_cons_of_mem _ hk, e⟩

theorem mem_foldl_del {β : Type} (f : β → Bytes) (keys : List β) (s : Store α) (kv : Bytes × α)
    (h : kv ∈ keys.foldl (fun s k => del s (f k)) s) : kv ∈ s := by
  induction keys generalizing s with
  | nil => exact h
  | cons k ks ih =>
    rw [List.foldl_cons] at h
    exact ((mem_del_iff s (f k) kv).mp (ih _ h)).2

/-! ### NeoFSID -/

/-- shape of the NeoFSID storage: every key is `'o' ‖ owner(25) ‖ key(33)` -/
def FsidWF (s : Store Bytes) : Prop :=
  Uniq s ∧ ∀ kv ∈ s, ∃ o k, o.length = 25 ∧ k.length = 33 ∧ kv.1 = fsidKeyOf o k

theorem ownerSize_eq : ownerSize = 25 := rfl
theorem ownerP_eq : ownerP = 111 := rfl

/-- the result of `Key(owner)` as a list (`[]` when the call FAULTs) -/
def keysOf (s : Store Bytes) (owner : Bytes) : List Bytes := (fsidKey s owner).getD []

theorem fsidKeyOf_inj (o o' k k' : Bytes) (ho : o.length = o'.length) (h : fsidKeyOf o k = fsidKeyOf o' k') :
    o = o' ∧ k = k' := by
  unfold fsidKeyOf at h
  simp only [List.cons.injEq, true_and] at h
  exact List.append_inj h ho

/-- `Key(owner)` returns exactly the keys bound to `owner`: fixed-width family -/
theorem mem_keysOf (s : Store Bytes) (h : FsidWF s) (owner k : Bytes) (ho : owner.length = 25) :
    k ∈ keysOf s owner ↔ k.length = 33 ∧ get s (fsidKeyOf owner k) ≠ none := by
  obtain ⟨hu, hs⟩ := h
  unfold keysOf fsidKey
  have hne : ¬ owner.length ≠ ownerSize := by rw [ownerSize_eq]; omega
  simp only [hne, if_false, Option.getD_some, List.mem_map]
  constructor
  · rintro ⟨kv, hkv, rfl⟩
    rw [mem_find_iff] at hkv
    obtain ⟨hm, hp⟩ := hkv
    obtain ⟨o', k', ho', hk', hkey⟩ := hs kv hm
    rw [hkey] at hp ⊢
    unfold fsidKeyOf at hp
    rw [List.cons_prefix_cons] at hp
    have e : owner = o' := (prefix_same_length (by omega)).mp hp.2
    subst e
    have hd : (fsidKeyOf owner k').drop (1 + owner.length) = k' := by
      unfold fsidKeyOf
      rw [Nat.add_comm, List.drop_succ_cons, List.drop_left' rfl]
    rw [hd]
    refine ⟨hk', ?_⟩
    obtain ⟨kk, vv⟩ := kv
    simp only at hkey
    subst hkey
    rw [get_eq_some_of_mem s hu _ vv hm]
    simp
  · rintro ⟨hk, hg⟩
    cases hgv : get s (fsidKeyOf owner k) with
    | none => exact absurd hgv hg
    | some v =>
      refine ⟨(fsidKeyOf owner k, v), ?_, ?_⟩
      · rw [mem_find_iff]
        refine ⟨mem_of_get_eq_some s _ v hgv, ?_⟩
        unfold fsidKeyOf
        rw [List.cons_prefix_cons]
        exact ⟨rfl, List.prefix_append _ _⟩
      · unfold fsidKeyOf
        simp only
        rw [Nat.add_comm, List.drop_succ_cons, List.drop_left' rfl]

theorem fsidArgsOk_iff (owner : Bytes) (keys : List Bytes) :
    fsidArgsOk owner keys = true ↔ owner.length = 25 ∧ ∀ k ∈ keys, k.length = 33 := by
  unfold fsidArgsOk
  simp [ownerSize_eq, List.all_eq_true]

theorem fsidAdd_spec (s s' : Store Bytes) (env : Env) (owner : Bytes) (keys : List Bytes) (h : FsidWF s)
    (hs : fsidAdd s env owner keys = some s') :
    env.alpha = true ∧ owner.length = 25 ∧ (∀ k ∈ keys, k.length = 33) ∧ FsidWF s' ∧
      ∀ x, get s' x = if (∃ k ∈ keys, fsidKeyOf owner k = x) then some [1] else get s x := by
  unfold fsidAdd at hs
  by_cases ha : fsidArgsOk owner keys = true
  · by_cases hal : env.alpha = true
    · simp only [ha, hal, Bool.not_true, Bool.false_eq_true, if_false, Option.some.injEq] at hs
      subst hs
      obtain ⟨ho, hk⟩ := (fsidArgsOk_iff owner keys).mp ha
      refine ⟨hal, ho, hk, ⟨uniq_foldl_put _ _ _ _ h.1, ?_⟩, fun x => get_foldl_put _ _ _ _ x⟩
      intro kv hkv
      rcases mem_foldl_put _ _ _ _ kv hkv with hm | ⟨k, hkm, e⟩
      · exact h.2 kv hm
      · exact ⟨owner, k, ho, hk k hkm, by rw [e]⟩
    · simp [ha, hal] at hs
  · simp [ha] at hs

theorem fsidRemove_spec (s s' : Store Bytes) (env : Env) (owner : Bytes) (keys : List Bytes) (h : FsidWF s)
    (hs : fsidRemove s env owner keys = some s') :
    env.alpha = true ∧ owner.length = 25 ∧ (∀ k ∈ keys, k.length = 33) ∧ FsidWF s' ∧
      ∀ x, get s' x = if (∃ k ∈ keys, fsidKeyOf owner k = x) then none else get s x := by
  unfold fsidRemove at hs
  by_cases ha : fsidArgsOk owner keys = true
  · by_cases hal : env.alpha = true
    · simp only [ha, hal, Bool.not_true, Bool.false_eq_true, if_false, Option.some.injEq] at hs
      subst hs
      obtain ⟨ho, hk⟩ := (fsidArgsOk_iff owner keys).mp ha
      refine ⟨hal, ho, hk, ⟨uniq_foldl_del _ _ _ h.1, ?_⟩, fun x => get_foldl_del _ _ _ x⟩
      intro kv hkv
      exact h.2 kv (mem_foldl_del _ _ _ kv hkv)
    · simp [ha, hal] at hs
  · simp [ha] at hs

/-! ### configuration maps -/

/-- shape of the configuration part of a contract's storage: every (modelled) key starts with the prefix -/
def CfgWF (p : Bytes) (s : Store Bytes) : Prop := Uniq s ∧ ∀ kv ∈ s, ∃ k, kv.1 = p ++ k

/-- `ListConfig()` returns exactly the pairs `(key, value)` with `Config(key) = value`, for ALL byte strings as
keys (also keys that are prefixes of one another): the read is an exact-match `Get`, the listing cuts a
fixed-width prefix. -/
theorem mem_cfgList (p : Bytes) (s : Store Bytes) (h : CfgWF p s) (k v : Bytes) :
    (k, v) ∈ cfgList p s ↔ cfgGet p s k = some v := by
  obtain ⟨hu, hs⟩ := h
  unfold cfgList cfgGet
  rw [List.mem_map]
  constructor
  · rintro ⟨kv, hkv, e⟩
    rw [mem_find_iff] at hkv
    obtain ⟨hm, _⟩ := hkv
    obtain ⟨k', hk'⟩ := hs kv hm
    obtain ⟨kk, vv⟩ := kv
    simp only at hk'
    subst hk'
    simp only [Prod.mk.injEq] at e
    rw [List.drop_left' rfl] at e
    obtain ⟨rfl, rfl⟩ := e
    exact get_eq_some_of_mem s hu _ _ hm
  · intro hg
    refine ⟨(p ++ k, v), ?_, ?_⟩
    · rw [mem_find_iff]; exact ⟨mem_of_get_eq_some s _ v hg, List.prefix_append _ _⟩
    · simp only [Prod.mk.injEq, and_true]; exact List.drop_left' rfl

theorem cfgSet_spec (p : Bytes) (s s' : Store Bytes) (env : Env) (key val : Bytes) (h : CfgWF p s)
    (hs : cfgSet p s env key val = some s') :
    env.alpha = true ∧ CfgWF p s' ∧ ∀ k, cfgGet p s' k = if k = key then some val else cfgGet p s k := by
  unfold cfgSet at hs
  by_cases hal : env.alpha = true
  · simp only [hal, Bool.not_true, Bool.false_eq_true, if_false] at hs
    unfold putK at hs
    by_cases hl : (p ++ key).length ≤ maxKeyLen
    · simp only [hl, if_true, Option.some.injEq] at hs
      subst hs
      refine ⟨hal, ⟨uniq_put s _ _ h.1, ?_⟩, ?_⟩
      · intro kv hkv
        rcases (mem_put_iff s _ _ kv).mp hkv with e | ⟨_, hm⟩
        · exact ⟨key, by rw [e]⟩
        · exact h.2 kv hm
      · intro k
        unfold cfgGet
        by_cases e : k = key
        · subst e; simp only [if_true]; exact get_put_self s _ _
        · simp only [e, if_false]
          apply get_put_other
          intro e2; exact e (List.append_cancel_left e2)
    · simp only [hl, if_false] at hs; cases hs
  · simp [hal] at hs

end NeoFS.EpochStores
