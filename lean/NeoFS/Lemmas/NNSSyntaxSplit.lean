import NeoFS.Model.NNSSyntax
import NeoFS.Lemmas.NNSSyntaxSpec
/-! Lemmas on `split` / `join` (the model of `std.StringSplit`) and their relation to the spec's `sepJoin`. -/
namespace NeoFS.NNSSyntax
open NeoFS NeoFS.NNSSyntax.Spec

theorem join_eq_sepJoin (sep : Nat) (xs : List Bytes) : join sep xs = sepJoin sep xs := by
  induction xs with
  | nil => rfl
  | cons x r ih =>
    cases r with
    | nil => rfl
    | cons y r' => simp only [join, sepJoin, ih]

theorem split_ne_nil (sep : Nat) (s : Bytes) : split sep s ≠ [] := by
  induction s with
  | nil => simp [split]
  | cons c r ih =>
    simp only [split]
    by_cases h : c = sep
    · simp [h]
    · simp only [h, if_false]
      cases hs : split sep r with
      | nil => simp
      | cons f fs => simp

theorem split_cons_sep (sep : Nat) (r : Bytes) : split sep (sep :: r) = [] :: split sep r := by
  simp [split]

theorem split_cons_ne (sep c : Nat) (r : Bytes) (h : c ≠ sep) :
    ∃ f fs, split sep r = f :: fs ∧ split sep (c :: r) = (c :: f) :: fs := by
  cases hs : split sep r with
  | nil => exact absurd hs (split_ne_nil sep r)
  | cons f fs => exact ⟨f, fs, rfl, by simp [split, h, hs]⟩

theorem join_split (sep : Nat) (s : Bytes) : join sep (split sep s) = s := by
  induction s with
  | nil => rfl
  | cons c r ih =>
    by_cases h : c = sep
    · subst h
      rw [split_cons_sep]
      cases hs : split c r with
      | nil => exact absurd hs (split_ne_nil c r)
      | cons f fs => rw [hs] at ih; simp only [join, List.nil_append, ih]
    · obtain ⟨f, fs, h1, h2⟩ := split_cons_ne sep c r h
      rw [h2]; rw [h1] at ih
      cases fs with
      | nil => simp only [join] at ih ⊢; rw [ih]
      | cons g gs => simp only [join, List.cons_append] at ih ⊢; rw [ih]

theorem split_no_sep (sep : Nat) (x : Bytes) (h : sep ∉ x) : split sep x = [x] := by
  induction x with
  | nil => rfl
  | cons c r ih =>
    have hc : c ≠ sep := fun e => h (by simp [e])
    have hr : sep ∉ r := fun e => h (by simp [e])
    simp [split, hc, ih hr]

theorem split_append_sep (sep : Nat) (x rest : Bytes) (h : sep ∉ x) :
    split sep (x ++ sep :: rest) = x :: split sep rest := by
  induction x with
  | nil => simp [split]
  | cons c r ih =>
    have hc : c ≠ sep := fun e => h (by simp [e])
    have hr : sep ∉ r := fun e => h (by simp [e])
    simp [split, hc, ih hr]

theorem split_join (sep : Nat) (xs : List Bytes) (hne : xs ≠ []) (h : ∀ x ∈ xs, sep ∉ x) :
    split sep (join sep xs) = xs := by
  induction xs with
  | nil => exact absurd rfl hne
  | cons x r ih =>
    cases r with
    | nil => simp only [join]; exact split_no_sep sep x (h x (by simp))
    | cons y r' =>
      simp only [join]
      rw [split_append_sep sep x _ (h x (by simp))]
      rw [ih (by simp) (fun z hz => h z (by simp [hz]))]

theorem mem_split_no_sep (sep : Nat) (s : Bytes) : ∀ f ∈ split sep s, sep ∉ f := by
  induction s with
  | nil => simp [split]
  | cons c r ih =>
    by_cases h : c = sep
    · subst h; rw [split_cons_sep]
      intro f hf; simp only [List.mem_cons] at hf
      rcases hf with rfl | hf
      · simp
      · exact ih f hf
    · obtain ⟨f, fs, h1, h2⟩ := split_cons_ne sep c r h
      rw [h2]; rw [h1] at ih
      intro g hg; simp only [List.mem_cons] at hg
      rcases hg with rfl | hg
      · intro hm; simp only [List.mem_cons] at hm
        rcases hm with e | hm
        · exact h e.symm
        · exact ih f (by simp) hm
      · exact ih g (by simp [hg])

/-- a list of fragments is the split of a string iff the string is their join and no fragment holds the separator -/
theorem split_eq_iff (sep : Nat) (s : Bytes) (xs : List Bytes) :
    split sep s = xs ↔ xs ≠ [] ∧ (∀ x ∈ xs, sep ∉ x) ∧ s = join sep xs := by
  constructor
  · intro h; subst h
    exact ⟨split_ne_nil sep s, mem_split_no_sep sep s, (join_split sep s).symm⟩
  · rintro ⟨h1, h2, rfl⟩; exact split_join sep xs h1 h2

def sumLen : List Bytes → Nat
  | [] => 0
  | x :: r => x.length + sumLen r

theorem length_join (sep : Nat) (xs : List Bytes) :
    (join sep xs).length + 1 = sumLen xs + xs.length ∨ xs = [] := by
  induction xs with
  | nil => exact Or.inr rfl
  | cons x r ih =>
    left
    cases r with
    | nil => simp [join, sumLen]
    | cons y r' =>
      rcases ih with ih | ih
      · simp only [join, sumLen, List.length_append, List.length_cons] at ih ⊢; omega
      · cases ih

theorem length_join_cons (sep : Nat) (x : Bytes) (r : List Bytes) :
    (join sep (x :: r)).length = sumLen (x :: r) + r.length := by
  have := length_join sep (x :: r)
  rcases this with h | h
  · simp only [List.length_cons] at h; omega
  · cases h

end NeoFS.NNSSyntax
