import NeoFS.Lemmas.BalanceAuth
set_option linter.unusedSimpArgs false
set_option linter.unusedVariables false
/-! Lemmas for C09: lock accounts, the epoch tick, burns. -/
namespace NeoFS.Balance
open NeoFS

/-! ### how a transfer treats `till` and `parent` -/

theorem getAcc_debitM_meta (m : Accts) (f k : Hash) (amt : Int)
    (h : (getAcc (debitM m f amt) k).parent ≠ []) :
    (getAcc (debitM m f amt) k).parent = (getAcc m k).parent ∧
      (getAcc (debitM m f amt) k).till = (getAcc m k).till := by
  by_cases hk : f = k
  · subst hk
    by_cases hf : f.length = 20
    · rw [getAcc_debitM_self _ _ _ hf] at h ⊢
      split
      · rename_i hb; rw [if_pos hb] at h; exact absurd rfl h
      · exact ⟨rfl, rfl⟩
    · rw [debitM_badlen _ _ _ hf]; exact ⟨rfl, rfl⟩
  · rw [getAcc_debitM_other _ _ _ _ hk]; exact ⟨rfl, rfl⟩

/-- a transfer never turns a record into a lock account and never edits `till`/`parent` of one -/
theorem xferM_meta (m : Accts) (f t k : Hash) (amt : Int)
    (h : (getAcc (creditM (debitM m f amt) t amt) k).parent ≠ []) :
    (getAcc (creditM (debitM m f amt) t amt) k).parent = (getAcc m k).parent ∧
      (getAcc (creditM (debitM m f amt) t amt) k).till = (getAcc m k).till := by
  obtain ⟨h1, h2⟩ := getAcc_creditM_meta (debitM m f amt) t k amt
  rw [h2] at h
  obtain ⟨h3, h4⟩ := getAcc_debitM_meta m f k amt h
  exact ⟨h2.trans h3, h1.trans h4⟩

/-! ### one iteration of the unlock loop -/

/-- a record the tick with epoch `e` does not release -/
def InertAt (e : Int) (a : Account) : Prop := a.parent = [] ∨ e < a.till

theorem unlockOne_noop (env : Env) (e : Int) (cur : Accts × List Event) (k : Hash)
    (h : InertAt e (getAcc cur.1 k)) : unlockOne env e cur k = cur := by
  unfold unlockOne
  simp only
  split
  · rfl
  · rename_i hp
    split
    · rename_i ht
      rcases h with h | h
      · exact absurd h hp
      · omega
    · rfl

/-- either nothing happens or exactly the full-balance transfer to the parent is executed -/
theorem unlockOne_cases (env : Env) (e : Int) (cur : Accts × List Event) (k : Hash) :
    unlockOne env e cur k = cur ∨
      ((getAcc cur.1 k).parent ≠ [] ∧ (getAcc cur.1 k).till ≤ e ∧ 0 ≤ (getAcc cur.1 k).bal ∧
        unlockOne env e cur k =
          (creditM (debitM cur.1 k (getAcc cur.1 k).bal) (getAcc cur.1 k).parent (getAcc cur.1 k).bal,
           cur.2 ++ [.transfer k (getAcc cur.1 k).parent (getAcc cur.1 k).bal,
                     .transferX k (getAcc cur.1 k).parent (getAcc cur.1 k).bal (4 :: encInt e)])) := by
  unfold unlockOne
  simp only
  split
  · exact Or.inl rfl
  · rename_i hp
    split
    · rename_i ht
      cases hx : xfer cur.1 env k (getAcc cur.1 k).parent (getAcc cur.1 k).bal true (4 :: encInt e) with
      | none => exact Or.inl rfl
      | some p =>
        obtain ⟨m', ev⟩ := p
        obtain ⟨h0, rfl, rfl, _⟩ := xfer_inv _ _ _ _ _ _ _ _ _ hx
        exact Or.inr ⟨hp, by omega, h0, rfl⟩
    · exact Or.inl rfl

/-- the releasing transfer of an expired lock on a 20-byte key with a non-negative balance
always goes through -/
theorem unlockOne_fires (env : Env) (e : Int) (cur : Accts × List Event) (k : Hash)
    (hk : k.length = 20) (hp : (getAcc cur.1 k).parent ≠ []) (ht : (getAcc cur.1 k).till ≤ e)
    (h0 : 0 ≤ (getAcc cur.1 k).bal) :
    unlockOne env e cur k =
      (creditM (debitM cur.1 k (getAcc cur.1 k).bal) (getAcc cur.1 k).parent (getAcc cur.1 k).bal,
       cur.2 ++ [.transfer k (getAcc cur.1 k).parent (getAcc cur.1 k).bal,
                 .transferX k (getAcc cur.1 k).parent (getAcc cur.1 k).bal (4 :: encInt e)]) := by
  unfold unlockOne
  simp only
  rw [if_neg hp, if_pos (by omega : e ≥ (getAcc cur.1 k).till),
    xfer_ok_ir _ _ _ _ _ _ h0 hk (Int.le_refl _)]

/-- after its iteration a 20-byte key is never an expired lock -/
theorem unlockOne_released (env : Env) (e : Int) (cur : Accts × List Event) (k : Hash)
    (hk : k.length = 20) (h0 : 0 ≤ (getAcc cur.1 k).bal) :
    InertAt e (getAcc (unlockOne env e cur k).1 k) := by
  by_cases hp : (getAcc cur.1 k).parent = []
  · rw [unlockOne_noop _ _ _ _ (Or.inl hp)]; exact Or.inl hp
  · by_cases ht : (getAcc cur.1 k).till ≤ e
    · rw [unlockOne_fires env e cur k hk hp ht h0]
      refine Or.inl ?_
      show (getAcc (creditM _ _ _) k).parent = []
      rw [(getAcc_creditM_meta _ _ _ _).2, getAcc_debitM_self _ _ _ hk, if_pos rfl]
      rfl
    · have : e < (getAcc cur.1 k).till := by omega
      rw [unlockOne_noop _ _ _ _ (Or.inr this)]; exact Or.inr this

/-- an iteration never creates a lock account nor edits the `till`/`parent` of one -/
theorem unlockOne_meta (env : Env) (e : Int) (cur : Accts × List Event) (k0 k : Hash)
    (h : (getAcc (unlockOne env e cur k0).1 k).parent ≠ []) :
    (getAcc (unlockOne env e cur k0).1 k).parent = (getAcc cur.1 k).parent ∧
      (getAcc (unlockOne env e cur k0).1 k).till = (getAcc cur.1 k).till := by
  rcases unlockOne_cases env e cur k0 with h1 | ⟨_, _, _, h1⟩
  · rw [h1]; exact ⟨rfl, rfl⟩
  · rw [h1] at h ⊢
    exact xferM_meta _ _ _ _ _ h

/-- `a'` is `a` with the same lock data and at least the same balance -/
def KeepsUp (a a' : Account) : Prop := a'.till = a.till ∧ a'.parent = a.parent ∧ a.bal ≤ a'.bal

theorem keepsUp_refl (a : Account) : KeepsUp a a := ⟨rfl, rfl, Int.le_refl _⟩

theorem keepsUp_trans (a b c : Account) (h1 : KeepsUp a b) (h2 : KeepsUp b c) : KeepsUp a c :=
  ⟨h2.1.trans h1.1, h2.2.1.trans h1.2.1, Int.le_trans h1.2.2 h2.2.2⟩

theorem inertAt_keepsUp (e : Int) (a b : Account) (h : KeepsUp a b) (hi : InertAt e a) : InertAt e b := by
  unfold InertAt at *
  rw [h.1, h.2.1]; exact hi

/-- a record that is not due keeps `till`/`parent` through any iteration and is never debited -/
theorem unlockOne_inert_key (env : Env) (e : Int) (cur : Accts × List Event) (k0 k : Hash)
    (h : InertAt e (getAcc cur.1 k)) : KeepsUp (getAcc cur.1 k) (getAcc (unlockOne env e cur k0).1 k) := by
  rcases unlockOne_cases env e cur k0 with h1 | ⟨hp, ht, h0, h1⟩
  · rw [h1]; exact keepsUp_refl _
  · have hne : k0 ≠ k := by
      intro hk; subst hk
      rcases h with h | h
      · exact hp h
      · omega
    rw [h1]
    obtain ⟨hm1, hm2⟩ := getAcc_creditM_meta (debitM cur.1 k0 (getAcc cur.1 k0).bal)
      (getAcc cur.1 k0).parent k (getAcc cur.1 k0).bal
    refine ⟨?_, ?_, ?_⟩
    · show (getAcc (creditM _ _ _) k).till = _
      rw [hm1, getAcc_debitM_other _ _ _ _ hne]
    · show (getAcc (creditM _ _ _) k).parent = _
      rw [hm2, getAcc_debitM_other _ _ _ _ hne]
    · have hb := balOf_creditM (debitM cur.1 k0 (getAcc cur.1 k0).bal) (getAcc cur.1 k0).parent k
        (getAcc cur.1 k0).bal
      have hd : balOf (debitM cur.1 k0 (getAcc cur.1 k0).bal) k = balOf cur.1 k := by
        unfold balOf; rw [getAcc_debitM_other _ _ _ _ hne]
      rw [hd] at hb
      unfold balOf at hb
      show (getAcc cur.1 k).bal ≤ (getAcc (creditM _ _ _) k).bal
      rw [hb]
      split <;> omega

theorem foldl_inert_key (env : Env) (e : Int) (keys : List Hash) (cur : Accts × List Event) (k : Hash)
    (h : InertAt e (getAcc cur.1 k)) :
    KeepsUp (getAcc cur.1 k) (getAcc (keys.foldl (unlockOne env e) cur).1 k) := by
  induction keys generalizing cur with
  | nil => exact keepsUp_refl _
  | cons k0 ks ih =>
    have h1 := unlockOne_inert_key env e cur k0 k h
    exact keepsUp_trans _ _ _ h1 (ih _ (inertAt_keepsUp e _ _ h1 h))

/-! ### records nobody refunds to -/

/-- no lock account names `k` as its parent -/
def NoChild (k : Hash) (m : Accts) : Prop := ∀ k', (getAcc m k').parent ≠ [] → (getAcc m k').parent ≠ k

theorem noChild_of_mem (k : Hash) (m : Accts) (h : ∀ kv ∈ m, kv.2.parent ≠ k) : NoChild k m := by
  intro k' hp
  have hne : getAcc m k' ≠ Account.empty := by
    intro e; rw [e] at hp; exact hp rfl
  exact h _ (getAcc_mem m k' hne)

theorem unlockOne_nochild (env : Env) (e : Int) (cur : Accts × List Event) (k0 k : Hash)
    (hn : NoChild k cur.1) (h : InertAt e (getAcc cur.1 k)) :
    NoChild k (unlockOne env e cur k0).1 ∧ getAcc (unlockOne env e cur k0).1 k = getAcc cur.1 k := by
  constructor
  · intro k' hp
    rw [(unlockOne_meta env e cur k0 k' hp).1]
    rw [(unlockOne_meta env e cur k0 k' hp).1] at hp
    exact hn k' hp
  · rcases unlockOne_cases env e cur k0 with h1 | ⟨hp, ht, h0, h1⟩
    · rw [h1]
    · have hne : k0 ≠ k := by
        intro hk; subst hk
        rcases h with h | h
        · exact hp h
        · omega
      rw [h1]
      show getAcc (creditM _ _ _) k = _
      rw [getAcc_creditM_other _ _ _ _ (hn k0 hp), getAcc_debitM_other _ _ _ _ hne]

theorem foldl_nochild (env : Env) (e : Int) (keys : List Hash) (cur : Accts × List Event) (k : Hash)
    (hn : NoChild k cur.1) (h : InertAt e (getAcc cur.1 k)) :
    getAcc (keys.foldl (unlockOne env e) cur).1 k = getAcc cur.1 k := by
  induction keys generalizing cur with
  | nil => rfl
  | cons k0 ks ih =>
    obtain ⟨h1, h2⟩ := unlockOne_nochild env e cur k0 k hn h
    simp only [List.foldl_cons]
    rw [ih _ h1 (by rw [h2]; exact h), h2]

/-! ### the tick releases every expired lock -/

theorem foldl_releases (env : Env) (e : Int) (keys : List Hash) (hk : ∀ k ∈ keys, k.length = 20)
    (cur : Accts × List Event) (hi : TInv cur.1)
    (hrem : ∀ k, k.length = 20 → ¬ InertAt e (getAcc cur.1 k) → k ∈ keys) :
    ∀ k, k.length = 20 → InertAt e (getAcc (keys.foldl (unlockOne env e) cur).1 k) := by
  induction keys generalizing cur with
  | nil =>
    intro k hk20
    by_cases h : InertAt e (getAcc cur.1 k)
    · exact h
    · exact absurd (hrem k hk20 h) (List.not_mem_nil)
  | cons k0 ks ih =>
    simp only [List.foldl_cons]
    have hk0 : k0.length = 20 := hk k0 (List.mem_cons_self ..)
    have hi' := (unlockOne_inv env e cur k0 hk0 hi).1
    refine ih (fun k' hk' => hk k' (List.mem_cons_of_mem _ hk')) _ hi' ?_
    intro k hk20 hni
    have hp : (getAcc (unlockOne env e cur k0).1 k).parent ≠ [] := fun hp => hni (Or.inl hp)
    obtain ⟨hm1, hm2⟩ := unlockOne_meta env e cur k0 k hp
    have hni0 : ¬ InertAt e (getAcc cur.1 k) := by
      intro h0
      apply hni
      unfold InertAt at *
      rw [hm1, hm2]; exact h0
    rcases List.mem_cons.mp (hrem k hk20 hni0) with rfl | hmem
    · exact absurd (unlockOne_released env e cur k hk20 (getAcc_nonneg _ _ hi.nonneg)) hni
    · exact hmem

theorem tickFold_releases (env : Env) (e : Int) (m : Accts) (hi : TInv m) :
    ∀ k, k.length = 20 → InertAt e (getAcc (tickFold env e m).1 k) := by
  unfold tickFold
  refine foldl_releases env e (tickKeys m) (fun k hk => ((mem_tickKeys m k).mp hk).2) (m, []) hi ?_
  intro k hk20 hni
  rw [mem_tickKeys]
  refine ⟨mem_keys_of_getAcc m k ?_, hk20⟩
  intro he
  apply hni
  show InertAt e (getAcc m k)
  rw [he]; exact Or.inl rfl

/-! ### exactly one unlock -/

/-- what the releasing iteration does, record by record -/
theorem unlockOne_exact (env : Env) (e : Int) (cur : Accts × List Event) (k : Hash)
    (hk : k.length = 20) (hp : (getAcc cur.1 k).parent ≠ []) (ht : (getAcc cur.1 k).till ≤ e)
    (hpl : (getAcc cur.1 k).parent.length = 20) (hpk : (getAcc cur.1 k).parent ≠ k)
    (h0 : 0 ≤ (getAcc cur.1 k).bal) :
    getAcc (unlockOne env e cur k).1 k = Account.empty ∧
      getAcc (unlockOne env e cur k).1 (getAcc cur.1 k).parent =
        { getAcc cur.1 (getAcc cur.1 k).parent with
          bal := (getAcc cur.1 (getAcc cur.1 k).parent).bal + (getAcc cur.1 k).bal } ∧
      (∀ k', k' ≠ k → k' ≠ (getAcc cur.1 k).parent → getAcc (unlockOne env e cur k).1 k' = getAcc cur.1 k') ∧
      (unlockOne env e cur k).2 =
        cur.2 ++ [.transfer k (getAcc cur.1 k).parent (getAcc cur.1 k).bal,
                  .transferX k (getAcc cur.1 k).parent (getAcc cur.1 k).bal (4 :: encInt e)] := by
  rw [unlockOne_fires env e cur k hk hp ht h0]
  refine ⟨?_, ?_, ?_, rfl⟩
  · show getAcc (creditM _ _ _) k = _
    rw [getAcc_creditM_other _ _ _ _ hpk, getAcc_debitM_self _ _ _ hk, if_pos rfl]
  · show getAcc (creditM _ _ _) _ = _
    rw [getAcc_creditM_self _ _ _ hpl, getAcc_debitM_other _ _ _ _ (fun h => hpk h.symm)]
  · intro k' h1 h2
    show getAcc (creditM _ _ _) k' = _
    rw [getAcc_creditM_other _ _ _ _ (fun h => h2 h.symm), getAcc_debitM_other _ _ _ _ (fun h => h1 h.symm)]

theorem foldl_all_inert (env : Env) (e : Int) (keys : List Hash) (cur : Accts × List Event)
    (h : ∀ k ∈ keys, InertAt e (getAcc cur.1 k)) : keys.foldl (unlockOne env e) cur = cur := by
  induction keys with
  | nil => rfl
  | cons k0 ks ih =>
    simp only [List.foldl_cons]
    rw [unlockOne_noop _ _ _ _ (h k0 (List.mem_cons_self ..))]
    exact ih (fun k hk => h k (List.mem_cons_of_mem _ hk))

/-- if `k` is the only key of the snapshot that is due, the loop is one iteration on `k` -/
theorem foldl_single (env : Env) (e : Int) (keys : List Hash) (cur : Accts × List Event) (k : Hash)
    (hmem : k ∈ keys) (hbefore : ∀ k' ∈ keys, k' ≠ k → InertAt e (getAcc cur.1 k'))
    (hafter : ∀ k' ∈ keys, InertAt e (getAcc (unlockOne env e cur k).1 k')) :
    keys.foldl (unlockOne env e) cur = unlockOne env e cur k := by
  induction keys with
  | nil => exact absurd hmem (List.not_mem_nil)
  | cons k0 ks ih =>
    simp only [List.foldl_cons]
    by_cases h0 : k0 = k
    · subst h0
      exact foldl_all_inert env e ks _ (fun k' hk' => hafter k' (List.mem_cons_of_mem _ hk'))
    · rw [unlockOne_noop _ _ _ _ (hbefore k0 (List.mem_cons_self ..) h0)]
      have hm : k ∈ ks := by
        rcases List.mem_cons.mp hmem with h | h
        · exact absurd h.symm h0
        · exact h
      exact ih hm (fun k' hk' => hbefore k' (List.mem_cons_of_mem _ hk'))
        (fun k' hk' => hafter k' (List.mem_cons_of_mem _ hk'))

/-- whole tick with exactly one due lock `k`: the loop equals the single releasing iteration -/
theorem tickFold_single (env : Env) (e : Int) (m : Accts) (k : Hash) (hn : Nonneg m)
    (hk : k.length = 20) (hp : (getAcc m k).parent ≠ []) 
    (hothers : ∀ k', k'.length = 20 → k' ≠ k → InertAt e (getAcc m k')) :
    tickFold env e m = unlockOne env e (m, []) k := by
  unfold tickFold
  have hmem : k ∈ tickKeys m := by
    rw [mem_tickKeys]
    refine ⟨mem_keys_of_getAcc m k ?_, hk⟩
    intro he; rw [he] at hp; exact hp rfl
  refine foldl_single env e (tickKeys m) (m, []) k hmem ?_ ?_
  · intro k' hk' hne
    exact hothers k' ((mem_tickKeys m k').mp hk').2 hne
  · intro k' hk'
    have hk'20 := ((mem_tickKeys m k').mp hk').2
    by_cases hkk : k' = k
    · subst hkk
      exact unlockOne_released env e (m, []) k' hk (getAcc_nonneg m k' hn)
    · exact inertAt_keepsUp e _ _ (unlockOne_inert_key env e (m, []) k k' (hothers k' hk'20 hkk))
        (hothers k' hk'20 hkk)

/-! ### a due lock on an address nobody refunds to is released with exactly its pre-tick balance -/

theorem unlockOne_events_extend (env : Env) (e : Int) (cur : Accts × List Event) (k0 : Hash) :
    ∃ ev, (unlockOne env e cur k0).2 = cur.2 ++ ev := by
  rcases unlockOne_cases env e cur k0 with h | ⟨_, _, _, h⟩
  · exact ⟨[], by rw [h, List.append_nil]⟩
  · exact ⟨_, by rw [h]⟩

theorem foldl_events_extend (env : Env) (e : Int) (keys : List Hash) (cur : Accts × List Event) :
    ∃ ev, (keys.foldl (unlockOne env e) cur).2 = cur.2 ++ ev := by
  induction keys generalizing cur with
  | nil => exact ⟨[], by simp⟩
  | cons k0 ks ih =>
    obtain ⟨ev1, h1⟩ := unlockOne_events_extend env e cur k0
    obtain ⟨ev2, h2⟩ := ih (unlockOne env e cur k0)
    exact ⟨ev1 ++ ev2, by simp only [List.foldl_cons]; rw [h2, h1, List.append_assoc]⟩

theorem unlockOne_nochild_pres (env : Env) (e : Int) (cur : Accts × List Event) (k0 k : Hash)
    (hn : NoChild k cur.1) : NoChild k (unlockOne env e cur k0).1 := by
  intro k' hp
  rw [(unlockOne_meta env e cur k0 k' hp).1]
  rw [(unlockOne_meta env e cur k0 k' hp).1] at hp
  exact hn k' hp

theorem unlockOne_nochild_get (env : Env) (e : Int) (cur : Accts × List Event) (k0 k : Hash)
    (hn : NoChild k cur.1) (hne : k0 ≠ k) : getAcc (unlockOne env e cur k0).1 k = getAcc cur.1 k := by
  rcases unlockOne_cases env e cur k0 with h1 | ⟨hp, _, _, h1⟩
  · rw [h1]
  · rw [h1]
    show getAcc (creditM _ _ _) k = _
    rw [getAcc_creditM_other _ _ _ _ (hn k0 hp), getAcc_debitM_other _ _ _ _ hne]

theorem foldl_emits (env : Env) (e : Int) (keys : List Hash) (cur : Accts × List Event) (k : Hash)
    (hmem : k ∈ keys) (hk : k.length = 20) (hp : (getAcc cur.1 k).parent ≠ [])
    (ht : (getAcc cur.1 k).till ≤ e) (h0 : 0 ≤ (getAcc cur.1 k).bal) (hn : NoChild k cur.1) :
    ∃ ev1 ev2, (keys.foldl (unlockOne env e) cur).2 =
      cur.2 ++ ev1 ++ [.transfer k (getAcc cur.1 k).parent (getAcc cur.1 k).bal,
        .transferX k (getAcc cur.1 k).parent (getAcc cur.1 k).bal (4 :: encInt e)] ++ ev2 := by
  induction keys generalizing cur with
  | nil => exact absurd hmem (List.not_mem_nil)
  | cons k0 ks ih =>
    simp only [List.foldl_cons]
    by_cases hk0 : k0 = k
    · subst hk0
      obtain ⟨ev2, h2⟩ := foldl_events_extend env e ks (unlockOne env e cur k0)
      refine ⟨[], ev2, ?_⟩
      rw [h2, unlockOne_fires env e cur k0 hk hp ht h0, List.append_nil]
    · have hm : k ∈ ks := by
        rcases List.mem_cons.mp hmem with h | h
        · exact absurd h.symm hk0
        · exact h
      have hg := unlockOne_nochild_get env e cur k0 k hn hk0
      obtain ⟨ev0, h0'⟩ := unlockOne_events_extend env e cur k0
      obtain ⟨ev1, ev2, h⟩ := ih (unlockOne env e cur k0) hm (by rw [hg]; exact hp) (by rw [hg]; exact ht)
        (by rw [hg]; exact h0) (unlockOne_nochild_pres env e cur k0 k hn)
      refine ⟨ev0 ++ ev1, ev2, ?_⟩
      rw [h, hg, h0']
      simp only [List.append_assoc]

theorem tickFold_emits (env : Env) (e : Int) (m : Accts) (k : Hash) (hn : Nonneg m)
    (hk : k.length = 20) (hp : (getAcc m k).parent ≠ []) (ht : (getAcc m k).till ≤ e)
    (hno : ∀ kv ∈ m, kv.2.parent ≠ k) :
    ∃ ev1 ev2, (tickFold env e m).2 =
      ev1 ++ [.transfer k (getAcc m k).parent (getAcc m k).bal,
        .transferX k (getAcc m k).parent (getAcc m k).bal (4 :: encInt e)] ++ ev2 := by
  have hmem : k ∈ tickKeys m := by
    rw [mem_tickKeys]
    refine ⟨mem_keys_of_getAcc m k ?_, hk⟩
    intro he; rw [he] at hp; exact hp rfl
  obtain ⟨ev1, ev2, h⟩ := foldl_emits env e (tickKeys m) (m, []) k hmem hk hp ht
    (getAcc_nonneg m k hn) (noChild_of_mem k m hno)
  exact ⟨ev1, ev2, by unfold tickFold; rw [h]; simp⟩

/-! ### invoke-level helpers for the tick -/

theorem invoke_tick_cases (s : State) (env : Env) (e : Int) :
    (invoke s env (.newEpoch e)).1 = s ∨
      (env.alphabet = true ∧
        invoke s env (.newEpoch e) =
          ({ s with accts := (tickFold env e s.accts).1 }, some (none, (tickFold env e s.accts).2))) := by
  by_cases ha : env.alphabet = true
  · exact Or.inr ⟨ha, invoke_halt _ _ _ _ _ _ (step_newEpoch_alpha s env e ha)⟩
  · have : step s env (.newEpoch e) = none := by simp [step, ha]
    rw [invoke_fault _ _ _ this]; exact Or.inl rfl

theorem invoke_tick_alpha (s : State) (env : Env) (e : Int) (ha : env.alphabet = true) :
    invoke s env (.newEpoch e) =
      ({ s with accts := (tickFold env e s.accts).1 }, some (none, (tickFold env e s.accts).2)) :=
  invoke_halt _ _ _ _ _ _ (step_newEpoch_alpha s env e ha)

theorem invoke_eq_halt_inv (s s' : State) (env : Env) (op : Op) (r : Option Bool) (ev : List Event)
    (h : invoke s env op = (s', some (r, ev))) : step s env op = some (s', r, ev) := by
  have h2 : (invoke s env op).2 = some (r, ev) := by rw [h]
  have h1 : (invoke s env op).1 = s' := by rw [h]
  rw [← h1]; exact invoke_some_inv _ _ _ _ _ h2

/-! ### `Lock` and `Burn`, record by record -/

theorem lock_step_exact (s s' : State) (env : Env) (d : List Nat) (f t : Hash) (amt till : Int)
    (r : Option Bool) (ev : List Event) (hf : f.length = 20) (ht : t.length = 20) (hft : f ≠ t)
    (h : step s env (.lock d f t amt till) = some (s', r, ev)) :
    0 ≤ amt ∧ amt ≤ (getAcc s.accts f).bal ∧
      getAcc s'.accts t = ⟨amt, till, f⟩ ∧
      getAcc s'.accts f = (if (getAcc s.accts f).bal = amt then Account.empty
        else { getAcc s.accts f with bal := (getAcc s.accts f).bal - amt }) ∧
      (getAcc s'.accts f).bal = (getAcc s.accts f).bal - amt ∧
      (∀ k, k ≠ f → k ≠ t → getAcc s'.accts k = getAcc s.accts k) := by
  obtain ⟨_, _, _, m, evx, hx, rfl, _, _⟩ := step_lock_inv _ _ _ _ _ _ _ _ _ _ h
  obtain ⟨h0, _, rfl, hle, _⟩ := xfer_inv _ _ _ _ _ _ _ _ _ hx
  have hle' := hle hf
  rw [getAcc_setAcc_other _ _ _ _ (fun e => hft e.symm)] at hle'
  have hfrec : getAcc (creditM (debitM (setAcc s.accts t ⟨0, till, f⟩) f amt) t amt) f =
      (if (getAcc s.accts f).bal = amt then Account.empty
        else { getAcc s.accts f with bal := (getAcc s.accts f).bal - amt }) := by
    rw [getAcc_creditM_other _ _ _ _ (fun e => hft e.symm), getAcc_debitM_self _ _ _ hf,
      getAcc_setAcc_other _ _ _ _ (fun e => hft e.symm)]
  refine ⟨h0, hle', ?_, hfrec, ?_, ?_⟩
  · show getAcc (creditM _ _ _) t = _
    rw [getAcc_creditM_self _ _ _ ht, getAcc_debitM_other _ _ _ _ hft, getAcc_setAcc_self]
    simp
  · show (getAcc (creditM _ _ _) f).bal = _
    rw [hfrec]
    split
    · rename_i hb; simp only [Account.empty]; omega
    · rfl
  · intro k h1 h2
    show getAcc (creditM _ _ _) k = _
    rw [getAcc_creditM_other _ _ _ _ (fun e => h2 e.symm), getAcc_debitM_other _ _ _ _ (fun e => h1 e.symm),
      getAcc_setAcc_other _ _ _ _ (fun e => h2 e.symm)]

theorem burn_step_exact (s s' : State) (env : Env) (f : Hash) (amt : Int) (d : List Nat)
    (r : Option Bool) (ev : List Event) (hf : f.length = 20)
    (h : step s env (.burn f amt d) = some (s', r, ev)) :
    0 ≤ amt ∧ amt ≤ (getAcc s.accts f).bal ∧
      (getAcc s'.accts f).bal = (getAcc s.accts f).bal - amt ∧
      (amt < (getAcc s.accts f).bal →
        getAcc s'.accts f = { getAcc s.accts f with bal := (getAcc s.accts f).bal - amt }) ∧
      (amt = (getAcc s.accts f).bal → f ∉ s'.accts.map (·.1) ∧ getAcc s'.accts f = Account.empty) ∧
      (∀ k, k ≠ f → getAcc s'.accts k = getAcc s.accts k) ∧
      s'.supply = s.supply - amt := by
  obtain ⟨_, _, m, hx, _, rfl, _⟩ := step_burn_inv _ _ _ _ _ _ _ _ h
  obtain ⟨h0, _, rfl, hle, _⟩ := xfer_inv _ _ _ _ _ _ _ _ _ hx
  have hc : creditM (debitM s.accts f amt) [] amt = debitM s.accts f amt :=
    creditM_badlen _ _ _ (by simp)
  refine ⟨h0, hle hf, ?_, ?_, ?_, ?_, rfl⟩
  · dsimp only
    rw [hc, getAcc_debitM_self _ _ _ hf]
    split
    · rename_i hb; simp only [Account.empty]; omega
    · rfl
  · intro hlt
    dsimp only
    rw [hc, getAcc_debitM_self _ _ _ hf, if_neg (by omega)]
  · intro heq
    dsimp only
    rw [hc]
    constructor
    · unfold debitM
      have : (f.length == 20) = true := by simp [hf]
      simp only [this, if_true]
      rw [if_pos heq.symm]
      exact not_mem_del _ _
    · rw [getAcc_debitM_self _ _ _ hf, if_pos heq.symm]
  · intro k hk
    dsimp only
    rw [hc, getAcc_debitM_other _ _ _ _ (fun e => hk e.symm)]

end NeoFS.Balance
