import NeoFS.Model.NNS
set_option linter.unusedSimpArgs false
set_option linter.unusedVariables false
/-! Association-list lemmas for the NNS model (C10–C12). -/
namespace NeoFS.NNS
open NeoFS

variable {κ ν : Type} [DecidableEq κ]

def mkeys (m : Map κ ν) : List κ := m.map (·.1)
def Uniq (m : Map κ ν) : Prop := (mkeys m).Nodup

theorem mget_cons (k' : κ) (v : ν) (r : Map κ ν) (k : κ) :
    mget ((k', v) :: r) k = if k' = k then some v else mget r k := rfl

theorem mdel_cons (k' : κ) (v : ν) (r : Map κ ν) (k : κ) :
    mdel ((k', v) :: r) k = if k' = k then mdel r k else (k', v) :: mdel r k := rfl

theorem mem_mdel {m : Map κ ν} {k : κ} {kv : κ × ν} : kv ∈ mdel m k ↔ kv ∈ m ∧ kv.1 ≠ k := by
  induction m with
  | nil => simp [mdel]
  | cons x xs ih =>
    obtain ⟨k', v⟩ := x
    rw [mdel_cons]
    by_cases e : k' = k
    · simp only [e, if_true, ih, List.mem_cons]
      constructor
      · rintro ⟨h1, h2⟩; exact ⟨Or.inr h1, h2⟩
      · rintro ⟨h1 | h1, h2⟩
        · exact absurd (by rw [h1]) h2
        · exact ⟨h1, h2⟩
    · simp only [e, if_false, List.mem_cons, ih]
      constructor
      · rintro (h | ⟨h1, h2⟩)
        · exact ⟨Or.inl h, by rw [h]; exact e⟩
        · exact ⟨Or.inr h1, h2⟩
      · rintro ⟨h1 | h1, h2⟩
        · exact Or.inl h1
        · exact Or.inr ⟨h1, h2⟩

theorem mget_mdel_self (m : Map κ ν) (k : κ) : mget (mdel m k) k = none := by
  induction m with
  | nil => rfl
  | cons x xs ih =>
    obtain ⟨k', v⟩ := x
    rw [mdel_cons]
    by_cases e : k' = k
    · simp [e, ih]
    · simp [e, mget_cons, ih]

theorem mget_mdel_other (m : Map κ ν) {k k2 : κ} (h : k ≠ k2) : mget (mdel m k) k2 = mget m k2 := by
  induction m with
  | nil => rfl
  | cons x xs ih =>
    obtain ⟨k', v⟩ := x
    rw [mdel_cons]
    by_cases e : k' = k
    · have : k' ≠ k2 := by rw [e]; exact h
      simp [e, mget_cons, ih, h]
    · simp [e, mget_cons, ih]

theorem mget_mput_self (m : Map κ ν) (k : κ) (v : ν) : mget (mput m k v) k = some v := by
  simp [mput, mget_cons]

theorem mget_mput_other (m : Map κ ν) {k k2 : κ} (v : ν) (h : k ≠ k2) : mget (mput m k v) k2 = mget m k2 := by
  simp [mput, mget_cons, h, mget_mdel_other m h]

theorem mget_mput (m : Map κ ν) (k k2 : κ) (v : ν) :
    mget (mput m k v) k2 = if k = k2 then some v else mget m k2 := by
  by_cases h : k = k2
  · subst h; simp [mget_mput_self]
  · simp [h, mget_mput_other m v h]

theorem mget_mdel (m : Map κ ν) (k k2 : κ) :
    mget (mdel m k) k2 = if k = k2 then none else mget m k2 := by
  by_cases h : k = k2
  · subst h; simp [mget_mdel_self]
  · simp [h, mget_mdel_other m h]

theorem mget_some_mem {m : Map κ ν} {k : κ} {v : ν} (h : mget m k = some v) : (k, v) ∈ m := by
  induction m with
  | nil => simp [mget] at h
  | cons x xs ih =>
    obtain ⟨k', v'⟩ := x
    rw [mget_cons] at h
    by_cases e : k' = k
    · simp [e] at h; subst h; subst e; exact List.mem_cons_self
    · simp [e] at h; exact List.mem_cons_of_mem _ (ih h)

theorem mget_none_not_mem {m : Map κ ν} {k : κ} (h : mget m k = none) : k ∉ mkeys m := by
  induction m with
  | nil => simp [mkeys]
  | cons x xs ih =>
    obtain ⟨k', v'⟩ := x
    rw [mget_cons] at h
    by_cases e : k' = k
    · simp [e] at h
    · simp [e] at h
      simp only [mkeys, List.map_cons, List.mem_cons, not_or]
      exact ⟨fun c => e c.symm, ih h⟩

theorem not_mem_mget_none {m : Map κ ν} {k : κ} (h : k ∉ mkeys m) : mget m k = none := by
  induction m with
  | nil => rfl
  | cons x xs ih =>
    obtain ⟨k', v'⟩ := x
    simp only [mkeys, List.map_cons, List.mem_cons, not_or] at h
    rw [mget_cons]
    have : k' ≠ k := fun c => h.1 c.symm
    simp [this]
    exact ih h.2

theorem mem_mget_of_uniq {m : Map κ ν} (hu : Uniq m) {k : κ} {v : ν} (h : (k, v) ∈ m) : mget m k = some v := by
  induction m with
  | nil => simp at h
  | cons x xs ih =>
    obtain ⟨k', v'⟩ := x
    have hx : k' ∉ mkeys xs := by unfold Uniq mkeys at hu; exact (List.nodup_cons.mp hu).1
    have hxs : Uniq xs := by unfold Uniq mkeys at hu ⊢; exact (List.nodup_cons.mp hu).2
    rw [mget_cons]
    rcases List.mem_cons.mp h with e | e
    · injection e with e1 e2; subst e1; subst e2; simp
    · have : k' ≠ k := by
        intro c; subst c
        exact hx (List.mem_map_of_mem (f := (·.1)) e)
      simp [this]; exact ih hxs e

theorem mdel_absent {m : Map κ ν} {k : κ} (h : k ∉ mkeys m) : mdel m k = m := by
  induction m with
  | nil => rfl
  | cons x xs ih =>
    obtain ⟨k', v'⟩ := x
    simp only [mkeys, List.map_cons, List.mem_cons, not_or] at h
    rw [mdel_cons]
    have : k' ≠ k := fun c => h.1 c.symm
    simp [this]; exact ih h.2

theorem mkeys_mdel_sub (m : Map κ ν) (k : κ) : (mkeys (mdel m k)).Sublist (mkeys m) := by
  induction m with
  | nil => exact List.Sublist.slnil
  | cons x xs ih =>
    obtain ⟨k', v'⟩ := x
    rw [mdel_cons]
    by_cases e : k' = k
    · simp only [e, if_true, mkeys, List.map_cons]; exact List.Sublist.cons _ ih
    · simp only [e, if_false, mkeys, List.map_cons]; exact List.Sublist.cons_cons _ ih

theorem uniq_mdel {m : Map κ ν} (k : κ) (h : Uniq m) : Uniq (mdel m k) :=
  List.Nodup.sublist (mkeys_mdel_sub m k) h

theorem not_mem_keys_mdel (m : Map κ ν) (k : κ) : k ∉ mkeys (mdel m k) := by
  intro h
  unfold mkeys at h
  rw [List.mem_map] at h
  obtain ⟨kv, hkv, e⟩ := h
  exact (mem_mdel.mp hkv).2 e

theorem uniq_mput {m : Map κ ν} (k : κ) (v : ν) (h : Uniq m) : Uniq (mput m k v) := by
  unfold mput Uniq mkeys
  rw [List.map_cons, List.nodup_cons]
  exact ⟨not_mem_keys_mdel m k, uniq_mdel k h⟩

theorem mem_mput {m : Map κ ν} {k : κ} {v : ν} {kv : κ × ν} :
    kv ∈ mput m k v ↔ kv = (k, v) ∨ (kv ∈ m ∧ kv.1 ≠ k) := by
  unfold mput; rw [List.mem_cons, mem_mdel]

theorem mget_isSome_iff_mem_keys {m : Map κ ν} {k : κ} : (mget m k).isSome ↔ k ∈ mkeys m := by
  constructor
  · intro h
    cases hg : mget m k with
    | none => rw [hg] at h; simp at h
    | some v => exact List.mem_map_of_mem (f := (·.1)) (mget_some_mem hg)
  · intro h
    cases hg : mget m k with
    | none => exact absurd h (mget_none_not_mem hg)
    | some v => rfl

/-! ### sums over integer-valued maps -/

def total {κ : Type} : Map κ Int → Int
  | [] => 0
  | (_, v) :: r => v + total r

theorem total_mdel {m : Map κ Int} (k : κ) (h : Uniq m) : total (mdel m k) = total m - (mget m k).getD 0 := by
  induction m with
  | nil => simp [mdel, total, mget]
  | cons x xs ih =>
    obtain ⟨k', v'⟩ := x
    have hx : k' ∉ mkeys xs := by unfold Uniq mkeys at h; exact (List.nodup_cons.mp h).1
    have hxs : Uniq xs := by unfold Uniq mkeys at h ⊢; exact (List.nodup_cons.mp h).2
    rw [mdel_cons, mget_cons]
    by_cases e : k' = k
    · subst e
      simp only [if_true, total, Option.getD_some]
      rw [mdel_absent hx]; omega
    · simp only [e, if_false, total]
      rw [ih hxs]; omega

theorem total_mput {m : Map κ Int} (k : κ) (v : Int) (h : Uniq m) :
    total (mput m k v) = total m - (mget m k).getD 0 + v := by
  unfold mput; simp only [total]; rw [total_mdel k h]; omega

end NeoFS.NNS
