import NeoFS.Lemmas.ContainerSteps
set_option linter.unusedSimpArgs false
set_option linter.unusedVariables false
/-! The invariant that ties the index families of the Container contract (and the alias records in NNS)
together, and its preservation by every operation. -/
namespace NeoFS.Container
open NeoFS

/-- mutual consistency of the families `x o d m eACL nnsHasAlias` and of the alias TXT records -/
structure Inv (s : State) : Prop where
  ux : (AL.keys s.x).Nodup
  uo : (AL.keys s.o).Nodup
  ue : (AL.keys s.eacl).Nodup
  ua : (AL.keys s.alias).Nodup
  ud : s.d.Nodup
  um : s.m.Nodup
  udoms : (AL.keys s.doms).Nodup
  /-- every owner-index entry `o‖owner‖cid ↦ v` has `v = cid`, and `cid` is stored with that owner in its blob -/
  ox : ∀ ow cid v, AL.get s.o (ow, cid) = some v →
        v = cid ∧ ∃ c, AL.get s.x cid = some c ∧ ownerOf c.value = some ow
  /-- every stored container has its owner-index entry -/
  xo : ∀ cid c, AL.get s.x cid = some c → ∃ ow, ownerOf c.value = some ow ∧ AL.get s.o (ow, cid) = some cid
  xlen : ∀ cid c, AL.get s.x cid = some c → cid.length = 32
  sat_e : ∀ cid, AL.get s.x cid = none → AL.get s.eacl cid = none
  sat_a : ∀ cid, AL.get s.x cid = none → AL.get s.alias cid = none
  sat_m : ∀ cid, cid ∈ s.m → ∃ c, AL.get s.x cid = some c
  /-- a tombstoned id is not stored -/
  dt : ∀ cid, cid ∈ s.d → AL.get s.x cid = none
  alias_ne : ∀ cid dom, AL.get s.alias cid = some dom → dom ≠ []
  /-- every alias TXT record in NNS points at a container whose stored alias is that domain … -/
  rec_alias : ∀ dom dm cid, AL.get s.doms dom = some dm → cid ∈ dm.txt → AL.get s.alias cid = some dom
  /-- … and every stored alias has its record -/
  alias_rec : ∀ cid dom, AL.get s.alias cid = some dom → ∃ dm, AL.get s.doms dom = some dm ∧ cid ∈ dm.txt
  txt1 : ∀ dom dm, AL.get s.doms dom = some dm → dm.txt.length ≤ 1

theorem inv_init (roots : List Bytes) : Inv (init roots) := by
  constructor <;> simp [init, AL.keys]

/-- what `NoClash` asks of a `put`: an id that is already stored is only re-put with the blob it stands for
(SHA-256 collision freedom on the blobs of a history; the id on the line is the blob's digest) -/
def NoClash (s : State) : Op → Prop
  | .put cid blob _ _ _ _ _ _ => ∀ c, AL.get s.x cid = some c → c.value = blob
  | _ => True

theorem txt_two {dm : Dom} {a b : Bytes} (ha : a ∈ dm.txt) (hb : b ∈ dm.txt) (hne : a ≠ b) (h1 : dm.txt.length ≤ 1) : False := by
  cases ht : dm.txt with
  | nil => rw [ht] at ha; cases ha
  | cons x r =>
    cases r with
    | nil =>
      rw [ht] at ha hb
      simp only [List.mem_cons, List.not_mem_nil, or_false] at ha hb
      exact hne (ha.trans hb.symm)
    | cons y r' => rw [ht] at h1; simp at h1

/-! ### addContainer (+ meta flag, + balances) -/

theorem inv_store {s : State} {cid blob sg pub token owner : Bytes} (l : List Bytes) (b' : Balance.State)
    (hI : Inv s) (hO : ownerOf blob = some owner) (hT : cid ∉ s.d) (hC : cid.length = 32)
    (hNC : ∀ c, AL.get s.x cid = some c → c.value = blob)
    (hl : l.Nodup) (hlm : ∀ c, c ∈ l → c = cid ∨ c ∈ s.m) :
    Inv { s with m := l, bal := b', o := AL.put s.o (owner, cid) cid, x := AL.put s.x cid ⟨blob, sg, pub, token⟩ } := by
  constructor
  · exact AL.nodup_put _ _ _ hI.ux
  · exact AL.nodup_put _ _ _ hI.uo
  · exact hI.ue
  · exact hI.ua
  · exact hI.ud
  · exact hl
  · exact hI.udoms
  · -- ox
    intro ow c v hv
    simp only [AL.get_put] at hv ⊢
    by_cases e : (ow, c) = (owner, cid)
    · simp only [e, if_true, Option.some.injEq] at hv
      cases e
      exact ⟨hv.symm, ⟨blob, sg, pub, token⟩, by simp, hO⟩
    · simp only [e, if_false] at hv
      obtain ⟨h1, cn, h2, h3⟩ := hI.ox ow c v hv
      refine ⟨h1, ?_⟩
      by_cases ec : c = cid
      · subst ec
        have := hNC cn h2
        rw [this, hO] at h3
        cases h3
        exact absurd rfl e
      · exact ⟨cn, by simp [ec, h2], h3⟩
  · -- xo
    intro c cn hcn
    simp only [AL.get_put] at hcn ⊢
    by_cases ec : c = cid
    · subst ec
      simp only [if_true, Option.some.injEq] at hcn
      subst hcn
      exact ⟨owner, hO, by simp⟩
    · simp only [ec, if_false] at hcn
      obtain ⟨ow, h1, h2⟩ := hI.xo c cn hcn
      refine ⟨ow, h1, ?_⟩
      have : ¬ (ow, c) = (owner, cid) := by intro e; cases e; exact ec rfl
      simp [this, h2]
  · -- xlen
    intro c cn hcn
    simp only [AL.get_put] at hcn
    by_cases ec : c = cid
    · subst ec; exact hC
    · simp only [ec, if_false] at hcn; exact hI.xlen c cn hcn
  · intro c hc
    simp only [AL.get_put] at hc
    by_cases ec : c = cid
    · simp [ec] at hc
    · simp only [ec, if_false] at hc; exact hI.sat_e c hc
  · intro c hc
    simp only [AL.get_put] at hc
    by_cases ec : c = cid
    · simp [ec] at hc
    · simp only [ec, if_false] at hc; exact hI.sat_a c hc
  · intro c hc
    simp only [AL.get_put]
    by_cases ec : c = cid
    · exact ⟨⟨blob, sg, pub, token⟩, by simp [ec]⟩
    · rcases hlm c hc with h | h
      · exact absurd h ec
      · obtain ⟨cn, hcn⟩ := hI.sat_m c h
        exact ⟨cn, by simp [ec, hcn]⟩
  · intro c hc
    simp only [AL.get_put]
    have ec : c ≠ cid := by intro e; subst e; exact hT hc
    simp [ec, hI.dt c hc]
  · exact hI.alias_ne
  · exact hI.rec_alias
  · exact hI.alias_rec
  · exact hI.txt1

/-! ### the NNS part of putNamed -/

/-- pointwise description of the record map after `register?` + `addRecord` -/
theorem addTXT_pointwise {env : Env} {doms d1 d2 : List (Bytes × Dom)} {roots : List Bytes} {domain cid : Bytes} {needReg : Bool}
    (hu : (AL.keys doms).Nodup)
    (hreg : if needReg then nnsRegister env roots doms domain = .ok d1 else d1 = doms)
    (hpre : needReg = false → ∃ dm, AL.get doms domain = some dm ∧ dm.txt = [])
    (hadd : nnsAddTXT env d1 domain cid = .ok d2) :
    (AL.keys d2).Nodup ∧ (needReg = true → AL.get doms domain = none) ∧
    ∃ ow, ∀ k, AL.get d2 k = if k = domain then some ⟨ow, [cid]⟩ else AL.get doms k := by
  obtain ⟨dm, hdm, rfl⟩ := nnsAddTXT_ok hadd
  cases needReg with
  | true =>
    simp only [if_true] at hreg
    obtain ⟨hnone, rfl⟩ := nnsRegister_ok hreg
    simp only [AL.get_put_self, Option.some.injEq] at hdm
    subst hdm
    refine ⟨AL.nodup_put _ _ _ (AL.nodup_put _ _ _ hu), fun _ => hnone, env.self, ?_⟩
    intro k
    by_cases e : k = domain
    · simp [e, AL.get_put]
    · simp [e, AL.get_put]
  | false =>
    simp only [Bool.false_eq_true, if_false] at hreg
    subst hreg
    obtain ⟨dm0, h0, ht⟩ := hpre rfl
    obtain rfl : dm0 = dm := by rw [h0] at hdm; exact Option.some.inj hdm
    refine ⟨AL.nodup_put _ _ _ hu, (fun h => Bool.noConfusion h), dm0.owner, ?_⟩
    intro k
    by_cases e : k = domain
    · simp [e, AL.get_put, ht]
    · simp [e, AL.get_put]

theorem inv_alias {env : Env} {s s2 : State} {cid domain : Bytes} {needReg : Bool}
    (hI : Inv s) (hx : ∃ c, AL.get s.x cid = some c) (hdne : domain ≠ [])
    (hpre : needReg = false → ∃ dm, AL.get s.doms domain = some dm ∧ dm.txt = [])
    (h : putAlias env s cid domain needReg = .ok s2) : Inv s2 := by
  obtain ⟨d1, d2, d3, hreg, hadd, hold, rfl⟩ := putAlias_ok h
  obtain ⟨hu2, hnew, ow, hd2⟩ := addTXT_pointwise hI.udoms hreg hpre hadd
  -- the domain held no record before
  have hempty : ∀ dm, AL.get s.doms domain = some dm → dm.txt = [] := by
    intro dm hdm
    cases needReg with
    | true => rw [hnew rfl] at hdm; cases hdm
    | false => obtain ⟨dm0, h0, ht⟩ := hpre rfl; rw [h0] at hdm; cases hdm; exact ht
  -- hence no container had it as alias
  have hnoalias : ∀ c, AL.get s.alias c ≠ some domain := by
    intro c hc
    obtain ⟨dm, hdm, hmem⟩ := hI.alias_rec c domain hc
    rw [hempty dm hdm] at hmem; cases hmem
  -- pointwise description of d3
  have hd3 : (AL.keys d3).Nodup ∧ ∀ k, AL.get d3 k =
      if k = domain then some ⟨ow, [cid]⟩
      else if AL.get s.alias cid = some k then (AL.get s.doms k).map (fun dm => { dm with txt := [] })
      else AL.get s.doms k := by
    cases hal : AL.get s.alias cid with
    | none =>
      simp only [hal] at hold
      subst hold
      refine ⟨hu2, fun k => ?_⟩
      rw [hd2 k]; simp
    | some old =>
      simp only [hal] at hold
      have hod : old ≠ domain := fun e => hnoalias cid (e ▸ hal)
      simp only [hod, ne_eq, not_false_eq_true, if_true] at hold
      rcases nnsDeleteTXT_ok hold with ⟨hn, rfl⟩ | ⟨dm, hdm, rfl⟩
      · refine ⟨hu2, fun k => ?_⟩
        rw [hd2 k]
        by_cases e : k = domain
        · simp [e]
        · simp only [e, if_false, Option.some.injEq]
          by_cases e2 : old = k
          · subst e2
            rw [hd2 old] at hn; simp only [hod, if_false] at hn
            simp [hn]
          · simp [e2]
      · refine ⟨AL.nodup_put _ _ _ hu2, fun k => ?_⟩
        rw [AL.get_put]
        by_cases e : k = domain
        · have : ¬ k = old := fun e3 => hod (e3.symm.trans e)
          simp only [this, if_false]; rw [hd2 k]; simp [e]
        · simp only [e, if_false, Option.some.injEq]
          by_cases e2 : k = old
          · subst e2
            rw [hd2 k] at hdm; simp only [e, if_false] at hdm
            simp [hdm]
          · have : ¬ old = k := fun e3 => e2 e3.symm
            simp only [e2, this, if_false]; rw [hd2 k]; simp [e]
  obtain ⟨hu3, hd3⟩ := hd3
  constructor
  · exact hI.ux
  · exact hI.uo
  · exact hI.ue
  · exact AL.nodup_put _ _ _ hI.ua
  · exact hI.ud
  · exact hI.um
  · exact hu3
  · exact hI.ox
  · exact hI.xo
  · exact hI.xlen
  · exact hI.sat_e
  · -- sat_a
    intro c hc
    simp only [AL.get_put]
    have ec : c ≠ cid := by
      intro e; subst e; obtain ⟨cn, hcn⟩ := hx; rw [hcn] at hc; cases hc
    simp [ec, hI.sat_a c hc]
  · exact hI.sat_m
  · exact hI.dt
  · -- alias_ne
    intro c dom hc
    simp only [AL.get_put] at hc
    by_cases ec : c = cid
    · simp only [ec, if_true, Option.some.injEq] at hc; subst hc; exact hdne
    · simp only [ec, if_false] at hc; exact hI.alias_ne c dom hc
  · -- rec_alias
    intro dom dm c hdm hc
    simp only [AL.get_put]
    rw [hd3 dom] at hdm
    by_cases e : dom = domain
    · simp only [e, if_true, Option.some.injEq] at hdm
      subst hdm
      simp only [List.mem_cons, List.not_mem_nil, or_false] at hc
      simp [hc, e]
    · simp only [e, if_false] at hdm
      by_cases e2 : AL.get s.alias cid = some dom
      · simp only [e2, if_true] at hdm
        cases hg : AL.get s.doms dom with
        | none => rw [hg] at hdm; cases hdm
        | some dm0 => rw [hg] at hdm; simp at hdm; subst hdm; cases hc
      · simp only [e2, if_false] at hdm
        have hal := hI.rec_alias dom dm c hdm hc
        have ec : c ≠ cid := by intro e3; subst e3; exact e2 hal
        simp [ec, hal]
  · -- alias_rec
    intro c dom hc
    simp only [AL.get_put] at hc
    by_cases ec : c = cid
    · simp only [ec, if_true, Option.some.injEq] at hc
      subst hc
      exact ⟨⟨ow, [cid]⟩, by rw [hd3]; simp, by simp [ec]⟩
    · simp only [ec, if_false] at hc
      obtain ⟨dm, hdm, hmem⟩ := hI.alias_rec c dom hc
      have e : dom ≠ domain := fun e => hnoalias c (e ▸ hc)
      have e2 : ¬ AL.get s.alias cid = some dom := by
        intro h2
        obtain ⟨dm', hdm', hmem'⟩ := hI.alias_rec cid dom h2
        rw [hdm] at hdm'; cases hdm'
        exact txt_two hmem hmem' ec (hI.txt1 dom dm hdm)
      exact ⟨dm, by rw [hd3]; simp [e, e2, hdm], hmem⟩
  · -- txt1
    intro dom dm hdm
    rw [hd3 dom] at hdm
    by_cases e : dom = domain
    · simp only [e, if_true, Option.some.injEq] at hdm; subst hdm; simp
    · simp only [e, if_false] at hdm
      by_cases e2 : AL.get s.alias cid = some dom
      · simp only [e2, if_true] at hdm
        cases hg : AL.get s.doms dom with
        | none => rw [hg] at hdm; cases hdm
        | some dm0 => rw [hg] at hdm; simp at hdm; subst hdm; simp
      · simp only [e2, if_false] at hdm; exact hI.txt1 dom dm hdm

/-! ### put -/

theorem metaSet_nodup (s : State) (cid : Bytes) (mt : Option Bool) (h : s.m.Nodup) : (metaSet s cid mt).Nodup := by
  unfold metaSet; split
  · exact nodup_sadd _ _ h
  · exact h

theorem metaSet_mem (s : State) (cid : Bytes) (mt : Option Bool) (c : Bytes) (h : c ∈ metaSet s cid mt) : c = cid ∨ c ∈ s.m := by
  unfold metaSet at h; split at h
  · exact (mem_sadd _ _ _).mp h
  · exact Or.inr h

theorem putDomain_ne (env : Env) (name zone : Bytes) : putDomain env name zone ≠ [] := by
  unfold putDomain; intro h
  have := congrArg List.length h
  simp at this

theorem inv_put {env : Env} {s s' : State} {cid blob sg pub token name zone : Bytes} {mt : Option Bool} {evs : List Ev}
    (hI : Inv s) (hNC : ∀ c, AL.get s.x cid = some c → c.value = blob)
    (h : putStep env s cid blob sg pub token name zone mt = .ok (s', evs)) : Inv s' := by
  obtain ⟨owner, fee, b', bev, needReg, hp⟩ := putStep_ok h
  have hbase := inv_store (sg := sg) (pub := pub) (token := token) (metaSet s cid mt) b' hI hp.hOwner hp.notTomb hp.hCid hNC
    (metaSet_nodup s cid mt hI.um) (metaSet_mem s cid mt)
  have hal := hp.hAlias
  by_cases hn : name = []
  · simp only [hn, ne_eq, not_true_eq_false, if_false] at hal
    rw [hal]; exact hbase
  · simp only [hn, ne_eq, not_false_eq_true, if_true] at hal
    refine inv_alias hbase ⟨⟨blob, sg, pub, token⟩, by simp [AL.get_put_self]⟩ (putDomain_ne env name zone) ?_ hal
    intro hf
    have := hp.hNice hn
    rw [hf] at this
    exact checkNiceName_false this

/-! ### delete -/

theorem inv_delete {env : Env} {s s' : State} {cid : Bytes} {evs : List Ev}
    (hI : Inv s) (h : deleteStep env s cid = .ok (s', evs)) : Inv s' := by
  rcases deleteStep_ok h with ⟨_, rfl, _⟩ | ⟨c0, owner, s1, hd⟩
  · exact hI
  · -- state after the alias part
    have hs1 : s1.x = s.x ∧ s1.o = s.o ∧ s1.m = s.m ∧ s1.eacl = s.eacl ∧ s1.d = s.d ∧
        (AL.keys s1.alias).Nodup ∧ (AL.keys s1.doms).Nodup ∧
        (∀ c, AL.get s1.alias c = if c = cid then none else AL.get s.alias c) ∧
        (∀ k, AL.get s1.doms k =
            if AL.get s.alias cid = some k then (AL.get s.doms k).map (fun dm => { dm with txt := [] })
            else AL.get s.doms k) := by
      have hA := hd.hAlias
      cases hal : AL.get s.alias cid with
      | none =>
        simp only [hal] at hA
        subst hA
        refine ⟨rfl, rfl, rfl, rfl, rfl, hI.ua, hI.udoms, ?_, ?_⟩
        · intro c; by_cases e : c = cid
          · simp [e, hal]
          · simp [e]
        · intro k; simp
      | some domain =>
        simp only [hal] at hA
        have hne : domain.length ≠ 0 := by
          intro h0; exact hI.alias_ne cid domain hal (List.eq_nil_of_length_eq_zero h0)
        simp only [hne, ne_eq, not_false_eq_true, if_true] at hA
        obtain ⟨d', hd', rfl⟩ := hA
        refine ⟨rfl, rfl, rfl, rfl, rfl, AL.nodup_del _ _ hI.ua, ?_, ?_, ?_⟩
        · rcases nnsDeleteTXT_ok hd' with ⟨_, rfl⟩ | ⟨dm, _, rfl⟩
          · exact hI.udoms
          · exact AL.nodup_put _ _ _ hI.udoms
        · intro c; exact AL.get_del _ _ _
        · intro k
          rcases nnsDeleteTXT_ok hd' with ⟨hn, rfl⟩ | ⟨dm, hdm, rfl⟩
          · by_cases e : domain = k
            · subst e; simp [hn]
            · have : ¬ some domain = some k := by simpa using e
              simp [this]
          · simp only [AL.get_put]
            by_cases e : k = domain
            · subst e; simp [hdm]
            · have : ¬ some domain = some k := by intro h2; cases h2; exact e rfl
              simp [e, this]
    obtain ⟨ex, eo, em, ee, ed, hua, hud, hal1, hdm1⟩ := hs1
    have hS := hd.hS
    rw [ex, eo, em, ee, ed] at hS
    subst hS
    constructor
    · exact AL.nodup_del _ _ hI.ux
    · exact AL.nodup_del _ _ hI.uo
    · exact AL.nodup_del _ _ hI.ue
    · exact hua
    · exact nodup_sadd _ _ hI.ud
    · exact nodup_sdel _ _ hI.um
    · exact hud
    · -- ox
      intro ow c v hv
      simp only [AL.get_del] at hv ⊢
      by_cases e : (ow, c) = (owner, cid)
      · simp [e] at hv
      · simp only [e, if_false] at hv
        obtain ⟨h1, cn, h2, h3⟩ := hI.ox ow c v hv
        refine ⟨h1, cn, ?_, h3⟩
        have ec : c ≠ cid := by
          intro e2; subst e2
          rw [hd.hX] at h2; cases h2
          rw [hd.hOwner] at h3; cases h3
          exact e rfl
        simp [ec, h2]
    · -- xo
      intro c cn hcn
      simp only [AL.get_del] at hcn ⊢
      by_cases ec : c = cid
      · simp [ec] at hcn
      · simp only [ec, if_false] at hcn
        obtain ⟨ow, h1, h2⟩ := hI.xo c cn hcn
        refine ⟨ow, h1, ?_⟩
        have : ¬ (ow, c) = (owner, cid) := by intro e; cases e; exact ec rfl
        simp [this, h2]
    · intro c cn hcn
      simp only [AL.get_del] at hcn
      by_cases ec : c = cid
      · simp [ec] at hcn
      · simp only [ec, if_false] at hcn; exact hI.xlen c cn hcn
    · intro c hc
      simp only [AL.get_del] at hc ⊢
      by_cases ec : c = cid
      · simp [ec]
      · simp only [ec, if_false] at hc ⊢; exact hI.sat_e c hc
    · intro c hc
      simp only [AL.get_del] at hc
      rw [hal1 c]
      by_cases ec : c = cid
      · simp [ec]
      · simp only [ec, if_false] at hc ⊢; exact hI.sat_a c hc
    · intro c hc
      obtain ⟨h1, h2⟩ := (mem_sdel _ _ _).mp hc
      obtain ⟨cn, hcn⟩ := hI.sat_m c h1
      exact ⟨cn, by simp [AL.get_del, h2, hcn]⟩
    · intro c hc
      simp only [AL.get_del]
      by_cases ec : c = cid
      · simp [ec]
      · rcases (mem_sadd _ _ _).mp hc with h1 | h1
        · exact absurd h1 ec
        · simp [ec, hI.dt c h1]
    · intro c dom hc
      rw [hal1 c] at hc
      by_cases ec : c = cid
      · simp [ec] at hc
      · simp only [ec, if_false] at hc; exact hI.alias_ne c dom hc
    · -- rec_alias
      intro dom dm c hdm hc
      rw [hdm1 dom] at hdm
      rw [hal1 c]
      by_cases e2 : AL.get s.alias cid = some dom
      · simp only [e2, if_true] at hdm
        cases hg : AL.get s.doms dom with
        | none => rw [hg] at hdm; cases hdm
        | some dm0 => rw [hg] at hdm; simp at hdm; subst hdm; cases hc
      · simp only [e2, if_false] at hdm
        have hal := hI.rec_alias dom dm c hdm hc
        have ec : c ≠ cid := by intro e3; subst e3; exact e2 hal
        simp [ec, hal]
    · -- alias_rec
      intro c dom hc
      rw [hal1 c] at hc
      by_cases ec : c = cid
      · simp [ec] at hc
      · simp only [ec, if_false] at hc
        obtain ⟨dm, hdm, hmem⟩ := hI.alias_rec c dom hc
        have e2 : ¬ AL.get s.alias cid = some dom := by
          intro h2
          obtain ⟨dm', hdm', hmem'⟩ := hI.alias_rec cid dom h2
          rw [hdm] at hdm'; cases hdm'
          exact txt_two hmem hmem' ec (hI.txt1 dom dm hdm)
        exact ⟨dm, by rw [hdm1]; simp [e2, hdm], hmem⟩
    · intro dom dm hdm
      rw [hdm1 dom] at hdm
      by_cases e2 : AL.get s.alias cid = some dom
      · simp only [e2, if_true] at hdm
        cases hg : AL.get s.doms dom with
        | none => rw [hg] at hdm; cases hdm
        | some dm0 => rw [hg] at hdm; simp at hdm; subst hdm; simp
      · simp only [e2, if_false] at hdm; exact hI.txt1 dom dm hdm

/-! ### setEACL, prereg and the rest -/

theorem inv_setEACL {env : Env} {s s' : State} {table sg pub token : Bytes} {evs : List Ev}
    (hI : Inv s) (h : setEACLStep env s table sg pub token = .ok (s', evs)) : Inv s' := by
  obtain ⟨cid, c, _, hc, _, _, rfl, _⟩ := setEACLStep_ok h
  refine { hI with ue := AL.nodup_put _ _ _ hI.ue, sat_e := ?_ }
  intro c' hc'
  simp only [AL.get_put]
  have : c' ≠ cid := by intro e; subst e; rw [hc] at hc'; cases hc'
  simp [this, hI.sat_e c' hc']

theorem inv_prereg {s s' : State} {domain owner : Bytes} (hI : Inv s) (h : preregStep s domain owner = .ok s') : Inv s' := by
  unfold preregStep at h
  split at h
  · cases h
  · split at h
    · cases h
    · split at h
      · cases h
      · split at h
        · cases h
        · split at h
          · cases h
          · rename_i hnone
            cases h
            refine { hI with udoms := AL.nodup_put _ _ _ hI.udoms, rec_alias := ?_, alias_rec := ?_, txt1 := ?_ }
            · intro dom dm c hdm hc
              simp only [AL.get_put] at hdm
              by_cases e : dom = domain
              · simp only [e, if_true, Option.some.injEq] at hdm; subst hdm; cases hc
              · simp only [e, if_false] at hdm; exact hI.rec_alias dom dm c hdm hc
            · intro c dom hc
              obtain ⟨dm, hdm, hmem⟩ := hI.alias_rec c dom hc
              have e : dom ≠ domain := by intro e; subst e; rw [hnone] at hdm; cases hdm
              exact ⟨dm, by simp [AL.get_put, e, hdm], hmem⟩
            · intro dom dm hdm
              simp only [AL.get_put] at hdm
              by_cases e : dom = domain
              · simp only [e, if_true, Option.some.injEq] at hdm; subst hdm; simp
              · simp only [e, if_false] at hdm; exact hI.txt1 dom dm hdm

/-- every invocation keeps the invariant (`NoClash`: the collision-freedom assumption on `put`) -/
theorem inv_invoke (env : Env) (s : State) (op : Op) (hI : Inv s) (hNC : NoClash s op) : Inv (invoke env s op).1 := by
  unfold invoke
  cases hst : step env s op with
  | error e => exact hI
  | ok r =>
    obtain ⟨s', ret, ev⟩ := r
    show Inv s'
    cases op with
    | setcfg key val =>
      simp only [step] at hst
      split at hst
      · cases hst
      · cases hst; exact { hI with }
    | bal bop =>
      simp only [step] at hst
      split at hst
      · cases hst
      · cases hst; exact { hI with }
    | prereg domain owner =>
      simp only [step] at hst
      split at hst
      · cases hst
      · rename_i s2 h2; cases hst; exact inv_prereg hI h2
    | put cid blob sg pub token name zone mt =>
      simp only [step] at hst
      split at hst
      · cases hst
      · rename_i s2 ev2 h2; cases hst; exact inv_put hI hNC h2
    | delete cid sg token =>
      simp only [step] at hst
      split at hst
      · cases hst
      · rename_i s2 ev2 h2; cases hst; exact inv_delete hI h2
    | setEACL table sg pub token =>
      simp only [step] at hst
      split at hst
      · cases hst
      · rename_i s2 ev2 h2; cases hst; exact inv_setEACL hI h2
    | get cid => simp only [step] at hst; split at hst <;> cases hst; exact hI
    | owner cid => simp only [step] at hst; split at hst <;> cases hst; exact hI
    | alias cid => simp only [step] at hst; split at hst <;> cases hst; exact hI
    | eacl cid => simp only [step] at hst; split at hst <;> cases hst; exact hI
    | count => simp only [step] at hst; split at hst <;> cases hst; exact hI
    | list o => simp only [step] at hst; split at hst <;> cases hst; exact hI
    | containersOf o => simp only [step] at hst; split at hst <;> cases hst; exact hI

/-- histories inside the quantifier: collision freedom at every `put` -/
def WFHist (s : State) : List (Env × Op) → Prop
  | [] => True
  | (env, op) :: rest => NoClash s op ∧ WFHist (invoke env s op).1 rest

theorem inv_run (hist : List (Env × Op)) (s : State) (hI : Inv s) (hw : WFHist s hist) : Inv (run s hist) := by
  induction hist generalizing s with
  | nil => exact hI
  | cons x rest ih =>
    obtain ⟨env, op⟩ := x
    exact ih _ (inv_invoke env s op hI hw.1) hw.2

end NeoFS.Container
