import NeoFS.Lemmas.NNSSyntaxHex
/-! `checkIPv6`: the loop over the fragments, analysed on states of the form `written values ++ zeros`. -/
namespace NeoFS.NNSSyntax
open NeoFS NeoFS.NNSSyntax.Spec

/-! ### the number array -/

def zeros (k : Nat) : List Int := List.replicate k 0

theorem zeros_zero : zeros 0 = [] := rfl
theorem zeros_succ (k : Nat) : zeros (k + 1) = 0 :: zeros k := rfl
theorem length_zeros (k : Nat) : (zeros k).length = k := by simp [zeros]
theorem zeros_add (a b : Nat) : zeros (a + b) = zeros a ++ zeros b := by
  induction a with
  | zero => simp [zeros_zero]
  | succ a ih => rw [Nat.succ_add, zeros_succ, zeros_succ, ih]; rfl
theorem zeros_snoc (k : Nat) : zeros k ++ [0] = zeros (k + 1) := by
  rw [zeros_add k 1]; rfl
theorem zeros_pos (k : Nat) (h : 0 < k) : zeros k = 0 :: zeros (k - 1) := by
  cases k with
  | zero => omega
  | succ k => rfl

theorem setAt_append_zeros (w : List Int) (k : Nat) (v : Int) (hk : 0 < k) :
    setAt (w ++ zeros k) w.length v = (w ++ [v]) ++ zeros (k - 1) := by
  induction w with
  | nil => rw [zeros_pos k hk]; rfl
  | cons x r ih =>
    show x :: setAt (r ++ zeros k) r.length v = x :: ((r ++ [v]) ++ zeros (k - 1))
    rw [ih]

theorem zeroFill_zeros (n : Nat) : ∀ (w : List Int) (k : Nat), n ≤ k →
    zeroFill (w ++ zeros k) w.length n = w ++ zeros k := by
  induction n with
  | zero => intro w k _; rfl
  | succ n ih =>
    intro w k h
    show zeroFill (setAt (w ++ zeros k) w.length 0) (w.length + 1) n = w ++ zeros k
    rw [setAt_append_zeros w k 0 (by omega)]
    have := ih (w ++ [0]) (k - 1) (by omega)
    rw [List.length_append, List.length_singleton] at this
    rw [this, List.append_assoc, List.singleton_append, ← zeros_pos k (by omega)]

/-! ### one iteration -/

theorem v6loop_cons_iff (frs : List Bytes) (l i : Nat) (f : Bytes) (r : List Bytes) (st st' : V6St) :
    v6loop frs l i (f :: r) st = some (some st') ↔
      ∃ st1, v6step frs l i f st = some (some st1) ∧ v6loop frs l (i + 1) r st1 = some (some st') := by
  simp only [v6loop]
  cases h1 : v6step frs l i f st with
  | none => simp
  | some o =>
    cases o with
    | none => simp
    | some st1 => simp

theorem v6loop_nil_iff (frs : List Bytes) (l i : Nat) (st st' : V6St) :
    v6loop frs l i [] st = some (some st') ↔ st' = st := by
  simp only [v6loop, Option.some.injEq]; exact eq_comm

/-- a non-empty fragment: stored iff it is a hexadecimal group and the write position is inside the array -/
theorem v6step_group_iff (frs : List Bytes) (l i : Nat) (f : Bytes) (he : Bool) (w : List Int) (st1 : V6St)
    (hf : f ≠ []) (hpos : (if he = true then i + 8 - l else i) = w.length) (hw : w.length ≤ 8) :
    v6step frs l i f ⟨he, w ++ zeros (8 - w.length)⟩ = some (some st1) ↔
      HexGroup f ∧ w.length < 8 ∧
      st1 = ⟨he, (w ++ [((groupVal f : Nat) : Int)]) ++ zeros (8 - (w.length + 1))⟩ := by
  have hlen : f.length ≠ 0 := by
    intro e; exact hf (List.eq_nil_of_length_eq_zero e)
  unfold v6step
  rw [if_neg hlen]
  by_cases h4 : 4 < f.length
  · rw [if_pos h4]
    constructor
    · intro h; cases h
    · rintro ⟨⟨_, h, _⟩, _⟩; omega
  · rw [if_neg h4]
    by_cases hx : ∀ c ∈ f, HexChar c
    · have hg : HexGroup f := ⟨by omega, by omega, hx⟩
      rw [atoi16_pad_group f hg]
      have hle := groupVal_le f hg
      dsimp only
      rw [if_neg (by omega), hpos]
      by_cases h8 : 8 ≤ w.length
      · rw [if_pos h8]
        constructor
        · intro h; cases h
        · rintro ⟨_, h, _⟩; omega
      · rw [if_neg h8, setAt_append_zeros w _ _ (by omega)]
        have e : 8 - w.length - 1 = 8 - (w.length + 1) := by omega
        rw [e]
        constructor
        · intro h; exact ⟨hg, by omega, (Option.some.inj (Option.some.inj h)).symm⟩
        · rintro ⟨_, _, h⟩; rw [h]
    · rw [atoi16_pad_bad f (by omega) (by omega) hx]
      constructor
      · intro h; cases h
      · rintro ⟨⟨_, _, h⟩, _⟩; exact absurd h hx

/-- the empty fragment at index 0 (a leading `:`) -/
theorem v6step_empty_first (frs : List Bytes) (l : Nat) (st st1 : V6St) :
    v6step frs l 0 [] st = some (some st1) ↔
      frs.getD 1 [] = [] ∧ st1 = { st with nums := setAt st.nums 0 0 } := by
  unfold v6step
  rw [if_pos (show ([] : Bytes).length = 0 from rfl), if_pos (rfl : (0 : Nat) = 0)]
  by_cases h : (frs.getD 1 []).length ≠ 0
  · rw [if_pos h]
    constructor
    · intro h'; cases h'
    · rintro ⟨h', _⟩; rw [h'] at h; exact absurd rfl h
  · rw [if_neg h]
    have h' : frs.getD 1 [] = [] := List.eq_nil_of_length_eq_zero (by omega)
    constructor
    · intro e; exact ⟨h', (Option.some.inj (Option.some.inj e)).symm⟩
    · rintro ⟨_, e⟩; rw [e]

/-- the empty fragment at the last index (a trailing `:`) -/
theorem v6step_empty_last (frs : List Bytes) (l i : Nat) (st st1 : V6St) (h0 : i ≠ 0) (hl : i = l - 1) :
    v6step frs l i [] st = some (some st1) ↔
      frs.getD (i - 1) [] = [] ∧ st1 = { st with nums := setAt st.nums 7 0 } := by
  unfold v6step
  rw [if_pos (show ([] : Bytes).length = 0 from rfl), if_neg h0, if_pos hl]
  by_cases h : (frs.getD (i - 1) []).length ≠ 0
  · rw [if_pos h]
    constructor
    · intro h'; cases h'
    · rintro ⟨h', _⟩; rw [h'] at h; exact absurd rfl h
  · rw [if_neg h]
    have h' : frs.getD (i - 1) [] = [] := List.eq_nil_of_length_eq_zero (by omega)
    constructor
    · intro e; exact ⟨h', (Option.some.inj (Option.some.inj e)).symm⟩
    · rintro ⟨_, e⟩; rw [e]

/-- an empty fragment strictly inside: the one place where `::` may stand -/
theorem v6step_empty_mid (frs : List Bytes) (l i : Nat) (st st1 : V6St) (h0 : i ≠ 0) (hl : i ≠ l - 1) :
    v6step frs l i [] st = some (some st1) ↔
      st.hasEmpty = false ∧ st1 = ⟨true, zeroFill st.nums i (9 - l + i - i)⟩ := by
  unfold v6step
  rw [if_pos (show ([] : Bytes).length = 0 from rfl), if_neg h0, if_neg hl]
  cases hh : st.hasEmpty with
  | true =>
    simp only [if_true]
    constructor
    · intro h'; cases h'
    · rintro ⟨h', _⟩; cases h'
  | false =>
    simp only [Bool.false_eq_true, if_false]
    constructor
    · intro e; exact ⟨trivial, (Option.some.inj (Option.some.inj e)).symm⟩
    · rintro ⟨_, e⟩; rw [e]

/-! ### a run of non-empty fragments -/

def vals (gs : List Bytes) : List Int := gs.map (fun g => ((groupVal g : Nat) : Int))

theorem length_vals (gs : List Bytes) : (vals gs).length = gs.length := by simp [vals]

theorem v6loop_groups (frs : List Bytes) (l : Nat) (gs : List Bytes) :
    ∀ (i : Nat) (rest : List Bytes) (he : Bool) (w : List Int) (st' : V6St),
      (∀ g ∈ gs, g ≠ []) → (if he = true then i + 8 - l else i) = w.length → (he = true → l ≤ i + 8) →
      w.length ≤ 8 →
      (v6loop frs l i (gs ++ rest) ⟨he, w ++ zeros (8 - w.length)⟩ = some (some st') ↔
        (∀ g ∈ gs, HexGroup g) ∧ w.length + gs.length ≤ 8 ∧
        v6loop frs l (i + gs.length) rest
          ⟨he, (w ++ vals gs) ++ zeros (8 - (w.length + gs.length))⟩ = some (some st')) := by
  induction gs with
  | nil =>
    intro i rest he w st' _ _ _ hw
    simp only [List.nil_append, vals, List.map_nil, List.append_nil, List.length_nil, Nat.add_zero]
    constructor
    · intro h; exact ⟨(fun g hg => nomatch hg), hw, h⟩
    · rintro ⟨_, _, h⟩; exact h
  | cons g gs ih =>
    intro i rest he w st' hne hpos hl hw
    rw [List.cons_append, v6loop_cons_iff]
    have hpos' : (if he = true then i + 1 + 8 - l else i + 1) = (w ++ [((groupVal g : Nat) : Int)]).length := by
      rw [List.length_append, List.length_singleton, ← hpos]
      cases he with
      | true => simp only [if_true]; have := hl rfl; omega
      | false => simp only [Bool.false_eq_true, if_false]
    constructor
    · rintro ⟨st1, h1, h2⟩
      obtain ⟨hg, hlt, e⟩ := (v6step_group_iff frs l i g he w st1 (hne g (by simp)) hpos hw).mp h1
      subst e
      have hw' : (w ++ [((groupVal g : Nat) : Int)]).length ≤ 8 := by
        rw [List.length_append, List.length_singleton]; omega
      have e8 : 8 - (w.length + 1) = 8 - (w ++ [((groupVal g : Nat) : Int)]).length := by
        rw [List.length_append, List.length_singleton]
      rw [e8] at h2
      obtain ⟨a, b, c⟩ := (ih (i + 1) rest he _ st' (fun x hx => hne x (by simp [hx])) hpos'
        (fun e => by have := hl e; omega) hw').mp h2
      refine ⟨?_, ?_, ?_⟩
      · intro x hx; simp only [List.mem_cons] at hx
        rcases hx with rfl | hx
        · exact hg
        · exact a x hx
      · rw [List.length_append, List.length_singleton] at b
        simp only [List.length_cons]; omega
      · rw [List.length_append, List.length_singleton] at c
        have e1 : i + 1 + gs.length = i + (g :: gs).length := by simp only [List.length_cons]; omega
        have e2 : w.length + 1 + gs.length = w.length + (g :: gs).length := by
          simp only [List.length_cons]; omega
        have e3 : (w ++ [((groupVal g : Nat) : Int)]) ++ vals gs = w ++ vals (g :: gs) := by
          simp [vals]
        rw [e1, e2, e3] at c; exact c
    · rintro ⟨a, b, c⟩
      have hg : HexGroup g := a g (by simp)
      have hlt : w.length < 8 := by simp only [List.length_cons] at b; omega
      refine ⟨_, (v6step_group_iff frs l i g he w _ (hne g (by simp)) hpos hw).mpr ⟨hg, hlt, rfl⟩, ?_⟩
      have hw' : (w ++ [((groupVal g : Nat) : Int)]).length ≤ 8 := by
        rw [List.length_append, List.length_singleton]; omega
      have e8 : 8 - (w.length + 1) = 8 - (w ++ [((groupVal g : Nat) : Int)]).length := by
        rw [List.length_append, List.length_singleton]
      rw [e8]
      apply (ih (i + 1) rest he _ st' (fun x hx => hne x (by simp [hx])) hpos'
        (fun e => by have := hl e; omega) hw').mpr
      refine ⟨fun x hx => a x (by simp [hx]), ?_, ?_⟩
      · rw [List.length_append, List.length_singleton]; simp only [List.length_cons] at b; omega
      · rw [List.length_append, List.length_singleton]
        have e1 : i + 1 + gs.length = i + (g :: gs).length := by simp only [List.length_cons]; omega
        have e2 : w.length + 1 + gs.length = w.length + (g :: gs).length := by
          simp only [List.length_cons]; omega
        have e3 : (w ++ [((groupVal g : Nat) : Int)]) ++ vals gs = w ++ vals (g :: gs) := by
          simp [vals]
        rw [e1, e2, e3]; exact c

/-! ### fragments before and after the place of `::` -/

theorem span_ne (xs : List Bytes) :
    ∃ gs rest, xs = gs ++ rest ∧ (∀ g ∈ gs, g ≠ []) ∧ (rest = [] ∨ ∃ r, rest = [] :: r) := by
  induction xs with
  | nil => exact ⟨[], [], rfl, (fun g hg => nomatch hg), Or.inl rfl⟩
  | cons x r ih =>
    by_cases hx : x = []
    · subst hx; exact ⟨[], [] :: r, rfl, (fun g hg => nomatch hg), Or.inr ⟨r, rfl⟩⟩
    · obtain ⟨gs, rest, h1, h2, h3⟩ := ih
      refine ⟨x :: gs, rest, by rw [h1]; rfl, ?_, h3⟩
      intro g hg; simp only [List.mem_cons] at hg
      rcases hg with rfl | hg
      · exact hx
      · exact h2 g hg

theorem getD_append_length (pre : List Bytes) (x : Bytes) (post : List Bytes) (d : Bytes) :
    (pre ++ x :: post).getD pre.length d = x := by
  induction pre with
  | nil => rfl
  | cons y r ih => simpa using ih

theorem hexGroup_ne_nil {g : Bytes} (h : HexGroup g) : g ≠ [] := by
  intro e; subst e; have := h.1; simp at this

theorem not_hexGroup_nil : ¬ HexGroup [] := fun h => hexGroup_ne_nil h rfl

/-- the fragments after the place of `::`: either groups up to the end, or nothing but the second half of a trailing `::` -/
theorem v6loop_tail (frs pre r : List Bytes) (l i : Nat) (w : List Int) (st' : V6St)
    (hfrs : frs = pre ++ r) (hpre : pre.length = i) (hi : 1 ≤ i) (hlen : frs.length = l)
    (hw : w.length = i + 8 - l) (hl : l ≤ i + 8) (hr : r ≠ []) :
    v6loop frs l i r ⟨true, w ++ zeros (8 - w.length)⟩ = some (some st') ↔
      ((∀ g ∈ r, HexGroup g) ∧ st' = ⟨true, w ++ vals r⟩) ∨
      (r = [[]] ∧ frs.getD (i - 1) [] = [] ∧ st' = ⟨true, setAt (w ++ zeros (8 - w.length)) 7 0⟩) := by
  have hil : i + r.length = l := by
    rw [← hlen, hfrs, List.length_append, hpre]
  obtain ⟨gs, rest, hr', hgs, hrest⟩ := span_ne r
  subst hr'
  rw [List.length_append] at hil
  rw [v6loop_groups frs l gs i rest true w st' hgs (by simp only [if_true]; omega) (fun _ => hl) (by omega)]
  rcases hrest with rfl | ⟨r3, rfl⟩
  · -- groups up to the end
    simp only [List.length_nil, Nat.add_zero] at hil
    rw [v6loop_nil_iff, List.append_nil]
    have e0 : 8 - (w.length + gs.length) = 0 := by omega
    rw [e0, zeros_zero, List.append_nil]
    constructor
    · rintro ⟨h1, _, h3⟩; exact Or.inl ⟨h1, h3⟩
    · rintro (⟨h1, h3⟩ | ⟨h1, _, _⟩)
      · exact ⟨h1, by omega, h3⟩
      · exact absurd rfl (hgs [] (by rw [h1]; simp))
  · simp only [List.length_cons] at hil
    have hnil_mem : ([] : Bytes) ∈ gs ++ [] :: r3 := by simp
    rw [v6loop_cons_iff]
    by_cases h3 : r3 = []
    · subst h3
      simp only [List.length_nil, Nat.zero_add] at hil
      have hj0 : i + gs.length ≠ 0 := by omega
      have hjl : i + gs.length = l - 1 := by omega
      constructor
      · rintro ⟨_, _, st1, hs, hn⟩
        obtain ⟨hprev, e1⟩ := (v6step_empty_last frs l _ _ st1 hj0 hjl).mp hs
        have e2 := (v6loop_nil_iff _ _ _ _ _).mp hn
        rcases List.eq_nil_or_concat gs with hg0 | ⟨gs', g, hg1⟩
        · subst hg0
          right
          refine ⟨rfl, by simpa using hprev, ?_⟩
          rw [e2, e1]
          simp only [vals, List.map_nil, List.append_nil, List.length_nil, Nat.add_zero]
        · exfalso
          rw [List.concat_eq_append] at hg1
          subst hg1
          have hidx : i + (gs' ++ [g]).length - 1 = (pre ++ gs').length := by
            simp only [List.length_append, List.length_singleton, hpre]; omega
          have hfr : frs = (pre ++ gs') ++ g :: [[]] := by
            rw [hfrs]; simp
          rw [hidx, hfr, getD_append_length] at hprev
          exact hgs g (by simp) hprev
      · rintro (⟨h1, _⟩ | ⟨h1, hprev, h3⟩)
        · exact absurd (h1 [] hnil_mem) not_hexGroup_nil
        · have hg0 : gs = [] := by
            cases gs with
            | nil => rfl
            | cons a b => simp at h1
          subst hg0
          refine ⟨(fun g hg => nomatch hg), by omega, _, (v6step_empty_last frs l _ _ _ hj0 hjl).mpr ⟨by simpa using hprev, rfl⟩, ?_⟩
          rw [v6loop_nil_iff, h3]
          simp only [vals, List.map_nil, List.append_nil, List.length_nil, Nat.add_zero]
    · have hr3 : 1 ≤ r3.length := by
        cases r3 with
        | nil => exact absurd rfl h3
        | cons _ _ => simp
      have hj0 : i + gs.length ≠ 0 := by omega
      have hjl : i + gs.length ≠ l - 1 := by omega
      constructor
      · rintro ⟨_, _, st1, hs, _⟩
        have := ((v6step_empty_mid frs l _ _ st1 hj0 hjl).mp hs).1
        cases this
      · rintro (⟨h1, _⟩ | ⟨h1, _, _⟩)
        · exact absurd (h1 [] hnil_mem) not_hexGroup_nil
        · exfalso
          have := congrArg List.length h1
          simp only [List.length_append, List.length_cons, List.length_nil] at this
          omega

end NeoFS.NNSSyntax
