import NeoFS.Lemmas.PlacementRoster
set_option linter.unusedSimpArgs false
set_option linter.unusedVariables false
/-! `CommitContainerListUpdate` (C14): the pending family of the container becomes its committed family,
the pending family is emptied, the REP numbers are replaced, everything else stays. -/
namespace NeoFS.Placement
open NeoFS

/-- storage after the three loops, before the REP numbers are written -/
def commitCore (s : Store) (cid : Bytes) : Store :=
  let s1 := delAll s (find s (nKey cid))
  let s2 := moveAll s1 (find s1 (uKey cid))
  delAll s2 (find s2 (rKey cid))

theorem isPre_u_n (cid k : Bytes) (h1 : isPre (uKey cid) k = true) (h2 : isPre (nKey cid) k = true) : False := by
  obtain ⟨t, rfl⟩ := (isPre_iff _ _).mp h1
  obtain ⟨t', e⟩ := (isPre_iff _ _).mp h2
  simp only [uKey, nKey, List.cons_append, List.cons.injEq] at e
  exact pU_ne_pN e.1

theorem isPre_u_r (cid k : Bytes) (h1 : isPre (uKey cid) k = true) (h2 : isPre (rKey cid) k = true) : False := by
  obtain ⟨t, rfl⟩ := (isPre_iff _ _).mp h1
  obtain ⟨t', e⟩ := (isPre_iff _ _).mp h2
  simp only [uKey, rKey, List.cons_append, List.cons.injEq] at e
  exact pU_ne_pR e.1

theorem isPre_n_r (cid k : Bytes) (h1 : isPre (nKey cid) k = true) (h2 : isPre (rKey cid) k = true) : False := by
  obtain ⟨t, rfl⟩ := (isPre_iff _ _).mp h1
  obtain ⟨t', e⟩ := (isPre_iff _ _).mp h2
  simp only [nKey, rKey, List.cons_append, List.cons.injEq] at e
  exact pN_ne_pR e.1

theorem find_u_after_del_n (s : Store) (hs : Sorted s) (cid : Bytes) : find (delAll s (find s (nKey cid))) (uKey cid) = find s (uKey cid) := by
  apply find_congr (sorted_delAll hs _) hs
  intro k hk
  rw [get_delAll_find hs]
  have : ¬ isPre (nKey cid) k = true := fun h => isPre_u_n cid k hk h
  simp [this]

theorem sorted_commitCore (s : Store) (hs : Sorted s) (cid : Bytes) : Sorted (commitCore s cid) := by
  unfold commitCore
  exact sorted_delAll (sorted_moveAll (sorted_delAll hs _) _) _

/-- keys of the moved items begin with the pending prefix -/
theorem moved_keys_u (s : Store) (cid : Bytes) : ∀ e ∈ find s (uKey cid), ∃ t, e.1 = pU :: t := by
  intro e he
  obtain ⟨t, ht⟩ := (isPre_iff _ _).mp (mem_find.mp he).2
  exact ⟨cid ++ t, by rw [ht]; rfl⟩

theorem commitCore_u (s : Store) (hs : Sorted s) (cid : Bytes) (k : Bytes) (hk : isPre (uKey cid) k = true) : get (commitCore s cid) k = none := by
  unfold commitCore
  simp only
  rw [get_delAll_find (sorted_moveAll (sorted_delAll hs _) _)]
  have nr : ¬ isPre (rKey cid) k = true := fun h => isPre_u_r cid k hk h
  rw [if_neg nr, find_u_after_del_n s hs cid]
  have hku : ∃ t, k = pU :: t := by
    obtain ⟨t, ht⟩ := (isPre_iff _ _).mp hk
    exact ⟨cid ++ t, by rw [ht]; rfl⟩
  rw [get_moveAll_src _ _ _ hku]
  by_cases hin : k ∈ (find s (uKey cid)).map (·.1)
  · simp [hin]
  · rw [if_neg hin, get_delAll_find hs]
    have nn : ¬ isPre (nKey cid) k = true := fun h => isPre_u_n cid k hk h
    rw [if_neg nn]
    cases hg : get s k with
    | none => rfl
    | some v =>
      exfalso; apply hin
      exact List.mem_map.mpr ⟨(k, v), (mem_find_get hs _ k v).mpr ⟨hg, hk⟩, rfl⟩

theorem commitCore_r (s : Store) (hs : Sorted s) (cid : Bytes) (k : Bytes) (hk : isPre (rKey cid) k = true) : get (commitCore s cid) k = none := by
  unfold commitCore
  simp only
  rw [get_delAll_find (sorted_moveAll (sorted_delAll hs _) _), if_pos hk]

theorem commitCore_n (s : Store) (hs : Sorted s) (cid : Bytes) (k v : Bytes) (hk : isPre (nKey cid) k = true) :
    get (commitCore s cid) k = some v ↔ ∃ e ∈ find s (uKey cid), k = pN :: e.1.drop 1 ∧ v = e.2 := by
  unfold commitCore
  simp only
  rw [get_delAll_find (sorted_moveAll (sorted_delAll hs _) _)]
  have nr : ¬ isPre (rKey cid) k = true := fun h => isPre_n_r cid k hk h
  rw [if_neg nr, find_u_after_del_n s hs cid]
  have hu := moved_keys_u s cid
  have hd : (find s (uKey cid)).Pairwise (fun a b => a.1 ≠ b.1) := sorted_keys_ne (sorted_find hs _)
  constructor
  · intro hg
    by_cases hex : ∃ e ∈ find s (uKey cid), pN :: e.1.drop 1 = k
    · obtain ⟨e, he, hek⟩ := hex
      refine ⟨e, he, hek.symm, ?_⟩
      rw [← hek, get_moveAll_dst _ _ hu hd e he] at hg
      simpa using hg.symm
    · exfalso
      rw [get_moveAll_other, get_delAll_find hs, if_pos hk] at hg
      · exact absurd hg (by simp)
      · intro e he h
        obtain ⟨t, ht⟩ := hu e he
        obtain ⟨t', ht'⟩ := (isPre_iff _ _).mp hk
        rw [← h, ht] at ht'
        simp only [nKey, List.cons_append, List.cons.injEq] at ht'
        exact pU_ne_pN ht'.1
      · intro e he h; exact hex ⟨e, he, h⟩
  · rintro ⟨e, he, hek, hv⟩
    rw [hek, hv]
    exact get_moveAll_dst _ _ hu hd e he

theorem commitCore_other (s : Store) (hs : Sorted s) (cid : Bytes) (k : Bytes) (h1 : isPre (uKey cid) k = false) (h2 : isPre (nKey cid) k = false)
    (h3 : isPre (rKey cid) k = false) : get (commitCore s cid) k = get s k := by
  unfold commitCore
  simp only
  rw [get_delAll_find (sorted_moveAll (sorted_delAll hs _) _)]
  simp only [h3, Bool.false_eq_true, if_false]
  rw [find_u_after_del_n s hs cid, get_moveAll_other, get_delAll_find hs]
  · simp [h2]
  · intro e he h
    have := (mem_find.mp he).2
    rw [h, h1] at this; exact absurd this (by decide)
  · intro e he h
    obtain ⟨t, ht⟩ := (isPre_iff _ _).mp (mem_find.mp he).2
    have : isPre (nKey cid) k = true := by
      rw [← h, ht]
      simp only [uKey, List.cons_append, List.drop_succ_cons, List.drop_zero]
      exact isPre_append (nKey cid) t
    rw [h2] at this; exact absurd this (by decide)

/-! ### the REP numbers -/

/-- the puts of the REP loop, without the tests -/
def repPuts (cid : Bytes) : Store → Nat → List Int → Store
  | s, _, [] => s
  | s, n, r :: rs => repPuts cid (put s (rKey cid ++ [n]) (encInt r)) (n + 1) rs

/-- the items `r ‖ cid ‖ n, r ‖ cid ‖ n+1, …` -/
def repEnum (cid : Bytes) : Nat → List Int → Store
  | _, [] => []
  | n, r :: rs => (rKey cid ++ [n], encInt r) :: repEnum cid (n + 1) rs

theorem putReps_eq (cid : Bytes) (s : Store) (n : Nat) (rs : List Int) (hn : n ≤ 256) :
    putReps cid s (n : Int) rs =
      if (∀ r ∈ rs, r ≤ maxREPs) ∧ n + rs.length ≤ 256 then some (repPuts cid s n rs) else none := by
  induction rs generalizing s n with
  | nil => simp [putReps, repPuts, hn]
  | cons r rs ih =>
    simp only [putReps, repPuts]
    by_cases hr : r > maxREPs
    · have : ¬ r ≤ maxREPs := by omega
      simp [hr, this]
    · have hr' : r ≤ maxREPs := by omega
      simp only [hr, if_false]
      by_cases hn2 : n ≤ 255
      · rw [byteOf_nat n hn2]
        have e : (n : Int) + 1 = ((n + 1 : Nat) : Int) := by omega
        simp only [e, ih _ (n + 1) (by omega), List.mem_cons, forall_eq_or_imp, hr', true_and, List.length_cons]
        have : n + 1 + rs.length = n + (rs.length + 1) := by omega
        rw [this]
      · have hn3 : n = 256 := by omega
        subst hn3
        have : byteOf ((256 : Nat) : Int) = none := by decide
        rw [this]
        simp

theorem sorted_repPuts (cid : Bytes) (s : Store) (n : Nat) (rs : List Int) (h : Sorted s) :
    Sorted (repPuts cid s n rs) := by
  induction rs generalizing s n with
  | nil => exact h
  | cons r rs ih => exact ih _ _ (sorted_put h _ _)

theorem get_repPuts_other (cid : Bytes) (s : Store) (n : Nat) (rs : List Int) (k : Bytes)
    (h : ∀ j, j < rs.length → k ≠ rKey cid ++ [n + j]) : get (repPuts cid s n rs) k = get s k := by
  induction rs generalizing s n with
  | nil => rfl
  | cons r rs ih =>
    simp only [repPuts]
    rw [ih]
    · rw [get_put, if_neg]
      have := h 0 (by simp)
      simpa using this
    · intro j hj
      have := h (j + 1) (by simpa using hj)
      have e : n + (j + 1) = n + 1 + j := by omega
      rw [e] at this; exact this

theorem get_repPuts_new (cid : Bytes) (s : Store) (n : Nat) (rs : List Int) (j : Nat) (hj : j < rs.length) :
    get (repPuts cid s n rs) (rKey cid ++ [n + j]) = some (encInt rs[j]) := by
  induction rs generalizing s n j with
  | nil => exact absurd hj (by simp)
  | cons r rs ih =>
    simp only [List.length_cons] at hj
    simp only [repPuts]
    cases j with
    | zero =>
      rw [get_repPuts_other]
      · simp [get_put]
      · intro j' hj' e
        have := List.append_cancel_left e
        simp only [List.cons.injEq, and_true] at this
        omega
    | succ j' =>
      have := ih (put s (rKey cid ++ [n]) (encInt r)) (n + 1) j' (by omega)
      have e : n + (j' + 1) = n + 1 + j' := by omega
      rw [e, this]; simp

theorem mem_repEnum (cid : Bytes) (n : Nat) (rs : List Int) (k v : Bytes) :
    (k, v) ∈ repEnum cid n rs ↔ ∃ j, ∃ (h : j < rs.length), k = rKey cid ++ [n + j] ∧ v = encInt rs[j] := by
  induction rs generalizing n with
  | nil => simp [repEnum]
  | cons r rs ih =>
    simp only [repEnum, List.mem_cons, Prod.mk.injEq, ih]
    constructor
    · rintro (⟨h1, h2⟩ | ⟨j, hj, h1, h2⟩)
      · exact ⟨0, by simp, by simpa using h1, by simpa using h2⟩
      · refine ⟨j + 1, by simpa using hj, ?_, by simpa using h2⟩
        have : n + 1 + j = n + (j + 1) := by omega
        rw [← this]; exact h1
    · rintro ⟨j, hj, h1, h2⟩
      cases j with
      | zero => left; exact ⟨by simpa using h1, by simpa using h2⟩
      | succ j' =>
        right
        refine ⟨j', by simpa using hj, ?_, by simpa using h2⟩
        have : n + 1 + j' = n + (j' + 1) := by omega
        rw [this]; exact h1

theorem sorted_repEnum (cid : Bytes) (n : Nat) (rs : List Int) : Sorted (repEnum cid n rs) := by
  induction rs generalizing n with
  | nil => exact sorted_nil
  | cons r rs ih =>
    unfold Sorted at ih ⊢
    simp only [repEnum]
    rw [List.pairwise_cons]
    refine ⟨?_, ih (n + 1)⟩
    rintro ⟨k, v⟩ hm
    obtain ⟨j, hj, hk, _⟩ := (mem_repEnum cid (n + 1) rs k v).mp hm
    simp only [hk, blt_append_left, blt]
    have : n < n + 1 + j := by omega
    simp [this]

theorem repEnum_map_snd (cid : Bytes) (n : Nat) (rs : List Int) : (repEnum cid n rs).map (·.2) = rs.map encInt := by
  induction rs generalizing n with
  | nil => rfl
  | cons r rs ih => simp [repEnum, ih]

/-- items of the pending family, re-keyed under the committed prefix -/
def rekey (e : Bytes × Bytes) : Bytes × Bytes := (pN :: e.1.drop 1, e.2)

theorem sorted_map_rekey (l : Store) (hl : Sorted l) (hu : ∀ e ∈ l, ∃ t, e.1 = pU :: t) : Sorted (l.map rekey) := by
  induction l with
  | nil => exact sorted_nil
  | cons x l ih =>
    unfold Sorted at hl ih ⊢
    rw [List.pairwise_cons] at hl
    simp only [List.map_cons]
    rw [List.pairwise_cons]
    refine ⟨?_, ih hl.2 (fun e he => hu e (List.mem_cons_of_mem _ he))⟩
    intro a ha
    obtain ⟨e, he, rfl⟩ := List.mem_map.mp ha
    have := hl.1 e he
    obtain ⟨t, ht⟩ := hu x List.mem_cons_self
    obtain ⟨t', ht'⟩ := hu e (List.mem_cons_of_mem _ he)
    simp only [rekey, ht, ht', List.drop_succ_cons, List.drop_zero, blt_cons] at this ⊢
    exact this

/-- What a successful `CommitContainerListUpdate` does (for every key-ordered storage). -/
theorem commit_spec (s : Store) (hs : Sorted s) (cid : Bytes) (hc : cid.length = cidLen) (reps : Option (List Int))
    (hr : ∀ rs, reps = some rs → (∀ r ∈ rs, r ≤ maxREPs) ∧ rs.length ≤ 256) :
    ∃ s', commitContainerListUpdate s true cid reps = some s' ∧ Sorted s' ∧
      (∀ b, find s' (nKey cid ++ [b]) = (find s (uKey cid ++ [b])).map rekey) ∧
      find s' (uKey cid) = [] ∧
      find s' (rKey cid) = repEnum cid 0 (reps.getD []) ∧
      ∀ k, isPre (uKey cid) k = false → isPre (nKey cid) k = false → isPre (rKey cid) k = false →
        get s' k = get s k := by
  -- the final storage
  let s' := repPuts cid (commitCore s cid) 0 (reps.getD [])
  have hcore := sorted_commitCore s hs cid
  have hs' : Sorted s' := sorted_repPuts _ _ _ _ hcore
  have hrun : commitContainerListUpdate s true cid reps = some s' := by
    unfold commitContainerListUpdate
    simp only [hc, ne_eq, not_true_eq_false, if_false, Bool.not_true, Bool.false_eq_true]
    cases reps with
    | none => rfl
    | some rs =>
      have := putReps_eq cid (commitCore s cid) 0 rs (by omega)
      simp only [Int.natCast_zero] at this
      have h2 := hr rs rfl
      show putReps cid (commitCore s cid) 0 rs = _
      rw [this, if_pos ⟨h2.1, by omega⟩]
      rfl
  -- keys outside the REP family are not touched by the last loop
  have notr : ∀ k, isPre (rKey cid) k = false → get s' k = get (commitCore s cid) k := by
    intro k hk
    apply get_repPuts_other
    intro j hj e
    rw [e, isPre_append] at hk
    exact absurd hk (by decide)
  refine ⟨s', hrun, hs', ?_, ?_, ?_, ?_⟩
  · intro b
    have hu : ∀ e ∈ find s (uKey cid ++ [b]), ∃ t, e.1 = pU :: t := by
      intro e he
      obtain ⟨t, ht⟩ := (isPre_iff _ _).mp (mem_find.mp he).2
      exact ⟨cid ++ [b] ++ t, by rw [ht]; simp [uKey]⟩
    apply find_eq_of hs' (sorted_map_rekey _ (sorted_find hs _) hu)
    intro k v
    constructor
    · intro hm
      obtain ⟨e, he, hek⟩ := List.mem_map.mp hm
      simp only [rekey, Prod.mk.injEq] at hek
      obtain ⟨t, ht⟩ := (isPre_iff _ _).mp (mem_find.mp he).2
      have hpre : isPre (nKey cid ++ [b]) k = true := by
        rw [← hek.1, ht]
        simp only [uKey, List.cons_append, List.drop_succ_cons, List.drop_zero]
        exact isPre_append (nKey cid ++ [b]) t
      refine ⟨?_, hpre⟩
      have hn : isPre (nKey cid) k = true := isPre_of_append hpre
      have nr : isPre (rKey cid) k = false := by
        cases h : isPre (rKey cid) k with
        | false => rfl
        | true => exact absurd (isPre_n_r cid k hn h) id
      rw [notr k nr, commitCore_n s hs cid k v hn]
      refine ⟨e, ?_, hek.1.symm, hek.2.symm⟩
      rw [find_append_filter] at he
      exact (List.mem_filter.mp he).1
    · rintro ⟨hg, hpre⟩
      have hn : isPre (nKey cid) k = true := isPre_of_append hpre
      have nr : isPre (rKey cid) k = false := by
        cases h : isPre (rKey cid) k with
        | false => rfl
        | true => exact absurd (isPre_n_r cid k hn h) id
      rw [notr k nr, commitCore_n s hs cid k v hn] at hg
      obtain ⟨e, he, hek, hv⟩ := hg
      apply List.mem_map.mpr
      refine ⟨e, ?_, by simp [rekey, hek, hv]⟩
      rw [mem_find]
      refine ⟨(mem_find.mp he).1, ?_⟩
      obtain ⟨t, ht⟩ := moved_keys_u s cid e he
      obtain ⟨t', ht'⟩ := (isPre_iff _ _).mp hpre
      rw [hek, ht] at ht'
      simp only [nKey, List.cons_append, List.drop_succ_cons, List.drop_zero, List.cons.injEq, true_and] at ht'
      rw [ht, ht']
      simp only [uKey, List.cons_append]
      exact isPre_append (pU :: (cid ++ [b])) t'
  · apply find_eq_nil_of _ hs'
    intro k hk
    have nr : isPre (rKey cid) k = false := by
      cases h : isPre (rKey cid) k with
      | false => rfl
      | true => exact absurd (isPre_u_r cid k hk h) id
    rw [notr k nr, commitCore_u s hs cid k hk]
  · apply find_eq_of hs' (sorted_repEnum _ _ _)
    intro k v
    rw [mem_repEnum]
    constructor
    · rintro ⟨j, hj, hk, hv⟩
      refine ⟨?_, by rw [hk]; exact isPre_append _ _⟩
      rw [hk, hv]
      exact get_repPuts_new cid _ 0 _ j hj
    · rintro ⟨hg, hpre⟩
      by_cases hex : ∃ j, j < (reps.getD []).length ∧ k = rKey cid ++ [0 + j]
      · obtain ⟨j, hj, hk⟩ := hex
        refine ⟨j, hj, hk, ?_⟩
        rw [hk] at hg
        have := get_repPuts_new cid (commitCore s cid) 0 (reps.getD []) j hj
        show v = encInt (reps.getD [])[j]
        have e2 : get s' (rKey cid ++ [0 + j]) = some (encInt (reps.getD [])[j]) := this
        rw [e2] at hg
        simpa using hg.symm
      · exfalso
        have : get s' k = get (commitCore s cid) k := by
          apply get_repPuts_other
          intro j hj e; exact hex ⟨j, hj, e⟩
        rw [this, commitCore_r s hs cid k hpre] at hg
        exact absurd hg (by simp)
  · intro k h1 h2 h3
    rw [notr k h3, commitCore_other s hs cid k h1 h2 h3]

end NeoFS.Placement
