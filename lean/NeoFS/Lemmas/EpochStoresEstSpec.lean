import NeoFS.Lemmas.EpochStoresEst
set_option linter.unusedSimpArgs false
set_option linter.unusedVariables false
/-! Container size estimation lemmas (C20), part 2: refinement of the byte-level stores to the typed map
`(epoch, container, node) ↦ estimation` with the cleanup rules as the property states them. -/
namespace NeoFS.EpochStores
open NeoFS

/-- the estimations in the property's vocabulary: (epoch, container id, digest of the node key) ↦ estimation -/
abbrev Spec := Int → Bytes → Bytes → Option Est

/-- accepted `putContainerSize(e, cid, ·, node)`: the node's estimations of this container that are more than
3 epochs older than `e` are dropped, the new one is stored -/
def specPut (A : Spec) (e : Int) (cid h : Bytes) (new : Est) : Spec :=
  fun e' c' h' =>
    if e' = e ∧ c' = cid ∧ h' = h then some new
    else if c' = cid ∧ h' = h ∧ e - e' > 3 then none
    else A e' c' h'

/-- accepted `newEpoch(E)`: every estimation more than 4 epochs older than `E` is dropped -/
def specTick (A : Spec) (E : Int) : Spec :=
  fun e' c' h' => if E - e' > 4 then none else A e' c' h'

/-- the digests of the node keys of a history: 20 bytes each, pairwise different in their first 10 bytes
(RIPEMD-160 is not computed in the model; collision-freeness on the finitely many keys of a history is assumed) -/
def NodesOK (N : List Bytes) : Prop :=
  (∀ h ∈ N, h.length = 20) ∧ (∀ h ∈ N, ∀ h' ∈ N, h.take 10 = h'.take 10 → h = h')

/-- refinement relation between the Container contract's estimation stores and the typed map -/
structure EstR (c : CState) (A : Spec) (N : List Bytes) : Prop where
  uq : Uniq c.cnr
  r1 : ∀ e' c' h', EstWF e' c' h' → h' ∈ N → get c.cnr (estimationKey e' c' h') = A e' c' h'
  r2 : ∀ kv ∈ c.cnr, ∃ e' c' h', EstWF e' c' h' ∧ h' ∈ N ∧ kv.1 = estimationKey e' c' h'
  r3 : ∀ e' c' h', EstWF e' c' h' → h' ∈ N → A e' c' h' ≠ none →
        e' ∈ (get c.est (estP ++ (c' ++ h'))).getD []
  r4 : ∀ k l, get c.est k = some l → ∀ o ∈ l, EpochOK o
  r5 : ∀ cid ∈ c.live, cid.length = 32

theorem estR_init (N : List Bytes) : EstR ⟨[], [], [], []⟩ (fun _ _ _ => none) N where
  uq := uniq_nil
  r1 := fun _ _ _ _ _ => rfl
  r2 := fun kv h => (by cases h)
  r3 := fun _ _ _ _ _ h => absurd rfl h
  r4 := fun k l h => (by simp [get] at h)
  r5 := fun cid h => (by cases h)

theorem estKeyOf_inj (cid cid' h h' : Bytes) (hc : cid.length = cid'.length)
    (hk : estP ++ (cid ++ h) = estP ++ (cid' ++ h')) : cid = cid' ∧ h = h' :=
  List.append_inj (List.append_cancel_left hk) hc

theorem estR_put (c c' : CState) (A : Spec) (N : List Bytes) (env : Env) (snap : Option (List Bytes)) (e : Int)
    (cid : Bytes) (size : Int) (pub h : Bytes) (hN : NodesOK N) (hr : EstR c A N) (he : EpochOK e) (hh : h ∈ N)
    (hp : estPut c env snap e cid size pub h = some c') : EstR c' (specPut A e cid h ⟨pub, size⟩) N := by
  obtain ⟨hlive, _, _, _⟩ := estPut_admitted c c' env snap e cid size pub h hp
  obtain ⟨_, hcnr, hest, hlv⟩ := estPut_effect c c' env snap e cid size pub h hp
  have hcid : cid.length = 32 := hr.r5 cid hlive
  have hh20 : h.length = 20 := hN.1 h hh
  have hwf : EstWF e cid h := ⟨he, hcid, hh20⟩
  -- the old list and its members
  have hold : ∀ o ∈ (get c.est (estP ++ (cid ++ h))).getD [], EpochOK o := by
    intro o ho
    cases hg : get c.est (estP ++ (cid ++ h)) with
    | none => rw [hg] at ho; cases ho
    | some l => rw [hg] at ho; exact hr.r4 _ l hg o ho
  constructor
  · rw [hcnr]; exact updLoop_uniq _ _ _ _ _ (uniq_put _ _ _ hr.uq)
  · -- r1
    intro e' c' h' hw' hh'
    rw [hcnr, updLoop_get]
    unfold specPut
    by_cases hA : e' = e ∧ c' = cid ∧ h' = h
    · obtain ⟨rfl, rfl, rfl⟩ := hA
      have hno : ¬ ∃ o ∈ (get c.est (estP ++ (c' ++ h'))).getD [], e' - o > cleanupDelta ∧
          estimationKey e' c' h' = estimationKey o c' h' := by
        rintro ⟨o, ho, hgt, hk⟩
        have := (estimationKey_inj e' o c' c' h' h' hw' ⟨hold o ho, hcid, hh20⟩ hk).1
        subst this
        rw [cleanupDelta_eq] at hgt; omega
      rw [if_neg hno, if_pos ⟨rfl, rfl, rfl⟩]
      exact get_put_self _ _ _
    · rw [if_neg hA]
      by_cases hB : c' = cid ∧ h' = h ∧ e - e' > 3
      · obtain ⟨rfl, rfl, hgt⟩ := hB
        have hrhs : (if c' = c' ∧ h' = h' ∧ e - e' > 3 then (none : Option Est) else A e' c' h') = none :=
          if_pos ⟨rfl, rfl, hgt⟩
        rw [hrhs]
        by_cases hcond : ∃ o ∈ (get c.est (estP ++ (c' ++ h'))).getD [], e - o > cleanupDelta ∧
            estimationKey e' c' h' = estimationKey o c' h'
        · exact if_pos hcond
        · rw [if_neg hcond]
          have hne : estimationKey e' c' h' ≠ estimationKey e c' h' := by
            intro hk
            have := (estimationKey_inj e' e c' c' h' h' hw' hwf hk).1
            omega
          rw [get_put_other _ _ _ _ hne, hr.r1 e' c' h' hw' hh']
          cases hAv : A e' c' h' with
          | none => rfl
          | some v =>
            exfalso
            apply hcond
            have := hr.r3 e' c' h' hw' hh' (by rw [hAv]; simp)
            exact ⟨e', this, by rw [cleanupDelta_eq]; exact hgt, rfl⟩
      · have hrhs : (if c' = cid ∧ h' = h ∧ e - e' > 3 then (none : Option Est) else A e' c' h') = A e' c' h' :=
          if_neg hB
        rw [hrhs]
        have hcond : ¬ ∃ o ∈ (get c.est (estP ++ (cid ++ h))).getD [], e - o > cleanupDelta ∧
            estimationKey e' c' h' = estimationKey o cid h := by
          rintro ⟨o, ho, hgt, hk⟩
          obtain ⟨e1, e2, e3⟩ := estimationKey_inj e' o c' cid h' h hw' ⟨hold o ho, hcid, hh20⟩ hk
          have := hN.2 h' hh' h hh e3
          subst e1
          exact hB ⟨e2, this, by rw [cleanupDelta_eq] at hgt; exact hgt⟩
        rw [if_neg hcond]
        have hne : estimationKey e' c' h' ≠ estimationKey e cid h := by
          intro hk
          obtain ⟨e1, e2, e3⟩ := estimationKey_inj e' e c' cid h' h hw' hwf hk
          exact hA ⟨e1, e2, hN.2 h' hh' h hh e3⟩
        rw [get_put_other _ _ _ _ hne]
        exact hr.r1 e' c' h' hw' hh'
  · -- r2
    intro kv hkv
    rw [hcnr] at hkv
    have := updLoop_mem _ _ _ _ _ kv hkv
    rcases (mem_put_iff _ _ _ kv).mp this with e1 | ⟨_, hm⟩
    · exact ⟨e, cid, h, hwf, hh, by rw [e1]⟩
    · exact hr.r2 kv hm
  · -- r3
    intro e' c' h' hw' hh' hne
    rw [hest]
    by_cases hsame : c' = cid ∧ h' = h
    · obtain ⟨rfl, rfl⟩ := hsame
      rw [get_put_self]
      simp only [Option.getD_some, List.mem_append, List.mem_singleton]
      by_cases e1 : e' = e
      · right; exact e1
      · left
        rw [updLoop_list, List.mem_filter]
        unfold specPut at hne
        have hA : ¬ (e' = e ∧ c' = c' ∧ h' = h') := fun hh => e1 hh.1
        rw [if_neg hA] at hne
        by_cases hgt : e - e' > 3
        · rw [if_pos ⟨rfl, rfl, hgt⟩] at hne; exact absurd rfl hne
        · rw [if_neg (fun hh => hgt hh.2.2)] at hne
          refine ⟨hr.r3 e' c' h' hw' hh' hne, ?_⟩
          rw [cleanupDelta_eq]; simp [hgt]
    · have hk : estP ++ (c' ++ h') ≠ estP ++ (cid ++ h) := by
        intro hk
        have := estKeyOf_inj c' cid h' h (by rw [hw'.2.1, hcid]) hk
        exact hsame this
      rw [get_put_other _ _ _ _ hk]
      unfold specPut at hne
      have hA : ¬ (e' = e ∧ c' = cid ∧ h' = h) := fun hh => hsame hh.2
      have hB : ¬ (c' = cid ∧ h' = h ∧ e - e' > 3) := fun hh => hsame ⟨hh.1, hh.2.1⟩
      rw [if_neg hA, if_neg hB] at hne
      exact hr.r3 e' c' h' hw' hh' hne
  · -- r4
    intro k l hg o ho
    rw [hest] at hg
    by_cases hk : k = estP ++ (cid ++ h)
    · subst hk
      rw [get_put_self] at hg
      simp only [Option.some.injEq] at hg
      subst hg
      rw [List.mem_append] at ho
      rcases ho with ho | ho
      · rw [updLoop_list, List.mem_filter] at ho
        exact hold o ho.1
      · simp only [List.mem_singleton] at ho; subst ho; exact he
    · rw [get_put_other _ _ _ _ hk] at hg
      exact hr.r4 k l hg o ho
  · rw [hlv]; exact hr.r5

theorem estR_tick (c : CState) (cnr' : Store Est) (A : Spec) (N : List Bytes) (E : Int) (hN : NodesOK N)
    (hr : EstR c A N) (hc : cleanup c.cnr E = some cnr') :
    EstR { c with cnr := cnr' } (specTick A E) N := by
  have hshape : ∀ kv ∈ c.cnr, cnrP <+: kv.1 ∧ 45 ≤ kv.1.length := by
    intro kv hkv
    obtain ⟨e', c', h', hw, _, hk⟩ := hr.r2 kv hkv
    rw [hk]; exact estimationKey_shape e' c' h' hw.2.1 hw.2.2
  obtain ⟨cnr'', h1, h2, h3, h4⟩ := cleanup_spec c.cnr E hshape
  rw [hc] at h1
  simp only [Option.some.injEq] at h1
  subst h1
  constructor
  · exact h4 hr.uq
  · intro e' c' h' hw' hh'
    simp only
    rw [h2, keyEpoch_estimationKey e' c' h' hw', totalCleanupDelta_eq]
    unfold specTick
    by_cases hgt : E - e' > 4
    · rw [if_pos hgt, if_pos hgt]
    · rw [if_neg hgt, if_neg hgt]; exact hr.r1 e' c' h' hw' hh'
  · intro kv hkv; exact hr.r2 kv (h3 kv hkv)
  · intro e' c' h' hw' hh' hne
    simp only
    unfold specTick at hne
    by_cases hgt : E - e' > 4
    · rw [if_pos hgt] at hne; exact absurd rfl hne
    · rw [if_neg hgt] at hne; exact hr.r3 e' c' h' hw' hh' hne
  · exact hr.r4
  · exact hr.r5

/-! ### the read API over the typed map -/

theorem mem_dedup (l : List Bytes) (x : Bytes) : x ∈ dedup l ↔ x ∈ l := by
  induction l with
  | nil => simp [dedup]
  | cons a l ih =>
    unfold dedup
    by_cases hc : (dedup l).contains a = true
    · rw [if_pos hc, List.mem_cons, ih]
      constructor
      · intro h; exact Or.inr h
      · rintro (rfl | h)
        · have : x ∈ dedup l := by simpa using hc
          exact ih.mp this
        · exact h
    · rw [if_neg hc, List.mem_cons, List.mem_cons, ih]

/-- a stored pair, read through the typed map -/
theorem estR_mem (c : CState) (A : Spec) (N : List Bytes) (hr : EstR c A N) (k : Bytes) (x : Est) :
    (k, x) ∈ c.cnr ↔ ∃ e' c' h', EstWF e' c' h' ∧ h' ∈ N ∧ k = estimationKey e' c' h' ∧ A e' c' h' = some x := by
  constructor
  · intro hm
    obtain ⟨e', c', h', hw, hh, hk⟩ := hr.r2 _ hm
    simp only at hk
    refine ⟨e', c', h', hw, hh, hk, ?_⟩
    rw [← hr.r1 e' c' h' hw hh, ← hk]
    exact get_eq_some_of_mem _ hr.uq _ _ hm
  · rintro ⟨e', c', h', hw, hh, rfl, hA⟩
    rw [← hr.r1 e' c' h' hw hh] at hA
    exact mem_of_get_eq_some _ _ _ hA

/-- **exact characterisation of `IterateContainerSizes(e, cid)`**: the estimations of every stored
(epoch, container, node) whose key bytes begin with `enc e ‖ cid` -/
theorem mem_estIter (c : CState) (A : Spec) (N : List Bytes) (hr : EstR c A N) (e : Int) (cid : Bytes) (l : List Est)
    (h : estIter c e cid = some l) (x : Est) :
    x ∈ l ↔ ∃ e' c' h', EstWF e' c' h' ∧ h' ∈ N ∧ A e' c' h' = some x ∧
      encInt e ++ cid <+: encInt e' ++ (c' ++ h'.take 10) := by
  unfold estIter at h
  split at h
  · cases h
  · simp only [Option.some.injEq] at h
    subst h
    rw [List.mem_map]
    constructor
    · rintro ⟨kv, hkv, rfl⟩
      rw [mem_find_iff] at hkv
      obtain ⟨e', c', h', hw, hh, hk, hA⟩ := (estR_mem c A N hr kv.1 kv.2).mp hkv.1
      refine ⟨e', c', h', hw, hh, hA, ?_⟩
      have hp := hkv.2
      rw [hk] at hp
      unfold estimationKey at hp
      rw [List.prefix_append_right_inj, ← List.append_assoc] at hp
      simpa [postfixSize_eq, List.append_assoc] using hp
    · rintro ⟨e', c', h', hw, hh, hA, hp⟩
      refine ⟨(estimationKey e' c' h', x), ?_, rfl⟩
      rw [mem_find_iff]
      refine ⟨(estR_mem c A N hr _ _).mpr ⟨e', c', h', hw, hh, rfl, hA⟩, ?_⟩
      unfold estimationKey
      simp only
      rw [List.prefix_append_right_inj, ← List.append_assoc]
      simpa [postfixSize_eq, List.append_assoc] using hp

theorem prefix_two_same_length {a b a' b' t : Bytes} (ha : a.length = a'.length) (hb : b.length = b'.length) :
    a ++ b <+: a' ++ (b' ++ t) ↔ a = a' ∧ b = b' := by
  rw [← List.append_assoc, prefix_same_length (by simp [ha, hb])]
  constructor
  · intro h; exact List.append_inj h ha
  · rintro ⟨rfl, rfl⟩; rfl

/-- `IterateContainerSizes(e, cid)` is exact when every stored epoch's encoding is as long as `enc e` -/
theorem mem_estIter_exact (c : CState) (A : Spec) (N : List Bytes) (hr : EstR c A N) (e : Int) (cid : Bytes)
    (l : List Est) (h : estIter c e cid = some l) (he : EpochOK e) (hN : NodesOK N)
    (hlen : ∀ e' c' h', EstWF e' c' h' → h' ∈ N → A e' c' h' ≠ none → (encInt e').length = (encInt e).length)
    (x : Est) : x ∈ l ↔ ∃ h' ∈ N, A e cid h' = some x := by
  have hcid : cid.length = 32 := by
    unfold estIter at h
    split at h
    · cases h
    · rename_i hc; simpa using hc
  rw [mem_estIter c A N hr e cid l h x]
  constructor
  · rintro ⟨e', c', h', hw, hh, hA, hp⟩
    have hl := hlen e' c' h' hw hh (by rw [hA]; simp)
    obtain ⟨e1, e2⟩ := (prefix_two_same_length hl.symm (by rw [hcid, hw.2.1])).mp hp
    have := encInt_inj e e' he hw.1 e1
    subst this; subst e2
    exact ⟨h', hh, hA⟩
  · rintro ⟨h', hh, hA⟩
    exact ⟨e, cid, h', ⟨he, hcid, hN.1 h' hh⟩, hh, hA, by rw [← List.append_assoc]; exact List.prefix_append _ _⟩

theorem estimationKey_strip (e : Int) (cid h : Bytes) (hh : h.length = 20) :
    (estimationKey e cid h).take ((estimationKey e cid h).length - postfixSize) = cnrP ++ (encInt e ++ cid) := by
  unfold estimationKey
  have ht : (h.take postfixSize).length = 10 := by rw [List.length_take, postfixSize_eq, hh]; rfl
  have e1 : cnrP ++ (encInt e ++ (cid ++ h.take postfixSize)) = (cnrP ++ (encInt e ++ cid)) ++ h.take postfixSize := by
    simp only [List.append_assoc]
  rw [e1]
  apply List.take_left'
  rw [List.length_append (as := cnrP ++ (encInt e ++ cid)), ht, postfixSize_eq, List.length_append]
  omega

/-- **exact characterisation of `ListContainerSizes(e)`**: the ids `cnr ‖ enc e' ‖ cid'` of every stored
(epoch, container, node) whose key bytes begin with `enc e` — whatever its epoch -/
theorem mem_estList (c : CState) (A : Spec) (N : List Bytes) (hN : NodesOK N) (hr : EstR c A N) (e : Int) (id : Bytes) :
    id ∈ estList c e ↔ ∃ e' c' h', EstWF e' c' h' ∧ h' ∈ N ∧ A e' c' h' ≠ none ∧
      id = cnrP ++ (encInt e' ++ c') ∧ encInt e <+: encInt e' ++ (c' ++ h'.take 10) := by
  unfold estList
  rw [mem_dedup, List.mem_map]
  constructor
  · rintro ⟨kv, hkv, rfl⟩
    rw [mem_find_iff] at hkv
    obtain ⟨e', c', h', hw, hh, hk, hA⟩ := (estR_mem c A N hr kv.1 kv.2).mp hkv.1
    refine ⟨e', c', h', hw, hh, by rw [hA]; simp, ?_, ?_⟩
    · rw [hk]; exact estimationKey_strip e' c' h' hw.2.2
    · have hp := hkv.2
      rw [hk] at hp
      unfold estimationKey at hp
      rw [List.prefix_append_right_inj] at hp
      simpa [postfixSize_eq] using hp
  · rintro ⟨e', c', h', hw, hh, hA, rfl, hp⟩
    cases hAv : A e' c' h' with
    | none => exact absurd hAv hA
    | some x =>
      refine ⟨(estimationKey e' c' h', x), ?_, estimationKey_strip e' c' h' hw.2.2⟩
      rw [mem_find_iff]
      refine ⟨(estR_mem c A N hr _ _).mpr ⟨e', c', h', hw, hh, rfl, hAv⟩, ?_⟩
      unfold estimationKey
      simp only
      rw [List.prefix_append_right_inj]
      simpa [postfixSize_eq] using hp

/-- **exact characterisation of `IterateAllContainerSizes(e)`** (values) -/
theorem mem_estIterAll (c : CState) (A : Spec) (N : List Bytes) (hr : EstR c A N) (e : Int) (x : Est) :
    x ∈ (estIterAll c e).map (·.2) ↔ ∃ e' c' h', EstWF e' c' h' ∧ h' ∈ N ∧ A e' c' h' = some x ∧
      encInt e <+: encInt e' ++ (c' ++ h'.take 10) := by
  unfold estIterAll
  rw [List.map_map, List.mem_map]
  constructor
  · rintro ⟨kv, hkv, rfl⟩
    rw [mem_find_iff] at hkv
    obtain ⟨e', c', h', hw, hh, hk, hA⟩ := (estR_mem c A N hr kv.1 kv.2).mp hkv.1
    refine ⟨e', c', h', hw, hh, hA, ?_⟩
    have hp := hkv.2
    rw [hk] at hp
    unfold estimationKey at hp
    rw [List.prefix_append_right_inj] at hp
    simpa [postfixSize_eq] using hp
  · rintro ⟨e', c', h', hw, hh, hA, hp⟩
    refine ⟨(estimationKey e' c' h', x), ?_, rfl⟩
    rw [mem_find_iff]
    refine ⟨(estR_mem c A N hr _ _).mpr ⟨e', c', h', hw, hh, rfl, hA⟩, ?_⟩
    unfold estimationKey
    simp only
    rw [List.prefix_append_right_inj]
    simpa [postfixSize_eq] using hp

/-- **exact characterisation of `GetContainerSize(id)`**: the container id is the last 32 bytes of `id`, the
estimations are those of every stored key that begins with `id` -/
theorem mem_estGet (c : CState) (A : Spec) (N : List Bytes) (hr : EstR c A N) (id cid : Bytes) (l : List Est)
    (h : estGet c id = some (cid, l)) (x : Est) :
    cid = id.drop (id.length - 32) ∧ cnrP <+: id ∧
    (x ∈ l ↔ ∃ e' c' h', EstWF e' c' h' ∧ h' ∈ N ∧ A e' c' h' = some x ∧ id <+: estimationKey e' c' h') := by
  unfold estGet at h
  split at h
  · cases h
  · rename_i hc
    simp only [Option.some.injEq, Prod.mk.injEq] at h
    obtain ⟨rfl, rfl⟩ := h
    simp only [Bool.or_eq_true, decide_eq_true_eq, not_or, bne_iff_ne, ne_eq, Decidable.not_not] at hc
    refine ⟨by rw [cidSize_eq], ?_, ?_⟩
    · rw [List.prefix_iff_eq_take]; exact hc.2.symm
    · rw [List.mem_map]
      constructor
      · rintro ⟨kv, hkv, rfl⟩
        rw [mem_find_iff] at hkv
        obtain ⟨e', c', h', hw, hh, hk, hA⟩ := (estR_mem c A N hr kv.1 kv.2).mp hkv.1
        exact ⟨e', c', h', hw, hh, hA, by rw [← hk]; exact hkv.2⟩
      · rintro ⟨e', c', h', hw, hh, hA, hp⟩
        refine ⟨(estimationKey e' c' h', x), ?_, rfl⟩
        rw [mem_find_iff]
        exact ⟨(estR_mem c A N hr _ _).mpr ⟨e', c', h', hw, hh, rfl, hA⟩, hp⟩

/-! ### histories -/

/-- the typed map after one invocation -/
def estSpecEntry (A : Spec) (s : State) (env : Env) (op : Op) : Spec :=
  match op with
  | .cput _ e cid size pub h => if (step s env op).isSome then specPut A e cid h ⟨pub, size⟩ else A
  | .ctick E => if (step s env op).isSome then specTick A E else A
  | .tick _ E => if (step s env op).isSome then specTick A E else A
  | _ => A

/-- the typed map after a history: only ACCEPTED operations count -/
def estSpec (s : State) : List (Env × Op) → Spec → Spec
  | [], A => A
  | (env, op) :: rest, A => estSpec (invoke s env op).1 rest (estSpecEntry A s env op)

/-- the property's quantifier for estimation histories: epochs are epoch numbers, node digests come from `N`,
container ids are 32 bytes -/
def opOK (N : List Bytes) : Op → Prop
  | .cput _ e _ _ _ h => EpochOK e ∧ h ∈ N
  | .cmk cid => cid.length = 32
  | _ => True

def EstHistOK (N : List Bytes) (hist : List (Env × Op)) : Prop := ∀ x ∈ hist, opOK N x.2

theorem estSpecEntry_fault (A : Spec) (s : State) (env : Env) (op : Op) (h : step s env op = none) :
    estSpecEntry A s env op = A := by
  unfold estSpecEntry; cases op <;> simp [h]

theorem step_live (s s' : State) (env : Env) (op : Op) (r : Ret) (ev : List Event)
    (h : step s env op = some (s', r, ev)) : ∀ x ∈ s'.cnt.live, x ∈ s.cnt.live ∨ op = .cmk x := by
  cases op <;> simp only [step, guardLen] at h <;> step_split h <;> intro x hx <;>
    first
    | (left; exact hx)
    | (left
       rw [(estPut_effect _ _ _ _ _ _ _ _ _ (by assumption)).2.2.2] at hx
       exact hx)
    | (simp only [List.mem_cons, List.mem_filter] at hx
       rcases hx with rfl | hx
       · right; rfl
       · left; exact hx.1)
    | (simp only [List.mem_filter] at hx
       left; exact hx.1)

theorem estR_step (s s' : State) (A : Spec) (N : List Bytes) (env : Env) (op : Op) (r : Ret) (ev : List Event)
    (hN : NodesOK N) (hok : opOK N op) (hr : EstR s.cnt A N) (h : step s env op = some (s', r, ev)) :
    EstR s'.cnt (estSpecEntry A s env op) N := by
  have hsome : (step s env op).isSome = true := by rw [h]; rfl
  have hlive := step_live s s' env op r ev h
  by_cases hput : ∃ snap e cid size pub hh, op = .cput snap e cid size pub hh
  · obtain ⟨snap, e, cid, size, pub, hh, rfl⟩ := hput
    have h2 := h
    simp only [step] at h2
    cases hp : estPut s.cnt env snap e cid size pub hh with
    | none => rw [hp] at h2; cases h2
    | some c' =>
      rw [hp] at h2
      simp only [Option.some.injEq, Prod.mk.injEq] at h2
      obtain ⟨hh1, _, _⟩ := h2
      subst hh1
      have : estSpecEntry A s env (.cput snap e cid size pub hh) = specPut A e cid hh ⟨pub, size⟩ := by
        unfold estSpecEntry; simp only [hsome, if_true]
      rw [this]
      exact estR_put s.cnt c' A N env snap e cid size pub hh hN hr hok.1 hok.2 hp
  · by_cases htick : ∃ E, op = .ctick E ∨ ∃ cur, op = .tick cur E
    · obtain ⟨E, hE⟩ := htick
      have hspec : estSpecEntry A s env op = specTick A E := by
        rcases hE with rfl | ⟨cur, rfl⟩ <;> (unfold estSpecEntry; simp only [hsome, if_true])
      rw [hspec]
      rcases step_cnr s s' env op r ev h with ⟨_, _⟩ | ⟨snap, e, cid, size, pub, hh, hop, _⟩ | ⟨E', hE', _, hc, hest⟩
      · -- cannot be: a tick goes through cleanup; read the model
        rcases hE with rfl | ⟨cur, rfl⟩
        · have h2 := h
          simp only [step] at h2
          split at h2
          · cases h2
          · cases hc : cleanup s.cnt.cnr E with
            | none => rw [hc] at h2; cases h2
            | some cnr' =>
              rw [hc] at h2
              simp only [Option.some.injEq, Prod.mk.injEq] at h2
              obtain ⟨hh1, _, _⟩ := h2
              subst hh1
              exact estR_tick _ _ _ _ _ hN hr hc
        · have h2 := h
          simp only [step] at h2
          split at h2
          · cases h2
          · split at h2
            · cases h2
            · cases hc : cleanup s.cnt.cnr E with
              | none => rw [hc] at h2; cases h2
              | some cnr' =>
                rw [hc] at h2
                simp only [Option.some.injEq, Prod.mk.injEq] at h2
                obtain ⟨hh1, _, _⟩ := h2
                subst hh1
                exact estR_tick _ _ _ _ _ hN hr hc
      · exact absurd ⟨snap, e, cid, size, pub, hh, hop⟩ hput
      · have hEE : E' = E := by
          rcases hE with rfl | ⟨cur, rfl⟩
          · rcases hE' with e1 | ⟨cur', e1, _⟩
            · cases e1; rfl
            · cases e1
          · rcases hE' with e1 | ⟨cur', e1, _⟩
            · cases e1
            · cases e1; rfl
        subst hEE
        have ht := estR_tick s.cnt s'.cnt.cnr A N E' hN hr hc
        constructor
        · exact ht.uq
        · exact ht.r1
        · exact ht.r2
        · intro e' c' h' hw hh' hne; rw [hest]; exact ht.r3 e' c' h' hw hh' hne
        · intro k l hg; rw [hest] at hg; exact ht.r4 k l hg
        · intro cid hcid
          rcases hlive cid hcid with hl | hop
          · exact hr.r5 cid hl
          · rcases hE with rfl | ⟨cur, rfl⟩ <;> cases hop
    · have hspec : estSpecEntry A s env op = A := by
        unfold estSpecEntry
        cases op <;> first | rfl | (exfalso; exact hput ⟨_, _, _, _, _, _, rfl⟩) | (exfalso; exact htick ⟨_, Or.inl rfl⟩) | (exfalso; exact htick ⟨_, Or.inr ⟨_, rfl⟩⟩)
      rw [hspec]
      rcases step_cnr s s' env op r ev h with ⟨e1, e2⟩ | ⟨snap, e, cid, size, pub, hh, hop, _⟩ | ⟨E', hE', _, _, _⟩
      · constructor
        · rw [e1]; exact hr.uq
        · rw [e1]; exact hr.r1
        · rw [e1]; exact hr.r2
        · rw [e2]; exact hr.r3
        · rw [e2]; exact hr.r4
        · intro cid hcid
          rcases hlive cid hcid with hl | hop
          · exact hr.r5 cid hl
          · subst hop; exact hok
      · exact absurd ⟨snap, e, cid, size, pub, hh, hop⟩ hput
      · exfalso
        rcases hE' with e1 | ⟨cur, e1, _⟩
        · exact htick ⟨E', Or.inl e1⟩
        · exact htick ⟨E', Or.inr ⟨cur, e1⟩⟩

theorem estR_run (hist : List (Env × Op)) (s : State) (A : Spec) (N : List Bytes) (hN : NodesOK N)
    (hok : EstHistOK N hist) (hr : EstR s.cnt A N) : EstR (run s hist).cnt (estSpec s hist A) N := by
  induction hist generalizing s A with
  | nil => simpa [run, estSpec] using hr
  | cons x rest ih =>
    obtain ⟨env, op⟩ := x
    simp only [run, estSpec]
    apply ih
    · intro y hy; exact hok y (List.mem_cons_of_mem _ hy)
    · cases hs : step s env op with
      | none => rw [invoke_fault s env op hs, estSpecEntry_fault A s env op hs]; exact hr
      | some res =>
        obtain ⟨s', r, ev⟩ := res
        rw [invoke_halt s s' env op r ev hs]
        exact estR_step s s' A N env op r ev hN (hok (env, op) List.mem_cons_self) hr hs

end NeoFS.EpochStores
