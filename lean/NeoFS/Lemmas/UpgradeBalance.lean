import NeoFS.Lemmas.UpgradeRename
/-! Balance: the storage before 0.20 (`BalanceOld`), and what the whole `_deploy` update branch
(`switchToNotary`, then `switchToAccPrefixes`) does to the read API. -/
namespace NeoFS.Upgrade
open NeoFS NeoFS.Generated

/-- the named keys of the Balance storage: circulation counter and the non-notary leftovers -/
def balanceNamed : List Bytes :=
  [notaryKey, voteKey, netmapHashKey, containerHashKey, balance_circulation_bytes]

/-- **old-layout invariant** (every version before 0.20): an item is an account record under its bare
20-byte script hash, or one of the named keys -/
def BalanceOld (s : Store) : Prop := ∀ k ∈ keys s, k.length = 20 ∨ k ∈ balanceNamed

/-- key-length separation: no named key can be taken for an account (20 bytes), for a migrated
account (21 bytes), or starts with the account prefix -/
theorem balanceNamed_sep : ∀ k ∈ balanceNamed, k.length ≠ 20 ∧ k.length ≠ 21 ∧ k.head? ≠ some accPrefix := by
  decide

theorem balanceDeleted_sub : ∀ k ∈ [notaryKey, voteKey, netmapHashKey, containerHashKey], k ∈ balanceNamed := by
  decide

theorem circulation_not_deleted :
    balance_circulation_bytes ∉ [notaryKey, voteKey, netmapHashKey, containerHashKey] := by decide

/-- the optional first stage of the Balance migration -/
def balanceStage1 (v h : Int) (s : Store) : Option Store :=
  if v < 17000 then switchToNotary [netmapHashKey, containerHashKey] true s h else some s

theorem balanceMigrate_eq (v h : Int) (s : Store) :
    balanceMigrate v h s =
      match balanceStage1 v h s with
      | none => none
      | some s1 => some (if v < 20000 then switchToAccPrefixes s1 else s1) := rfl

theorem balanceStage1_spec {v h : Int} {s s1 : Store} (h1 : balanceStage1 v h s = some s1) (hn : NodupKeys s) :
    NodupKeys s1 ∧ (∀ q w, get s1 q = some w → get s q = some w) ∧
      (∀ q, q ∉ [notaryKey, voteKey, netmapHashKey, containerHashKey] → get s1 q = get s q) := by
  unfold balanceStage1 at h1
  by_cases hv : v < 17000
  · simp only [hv, if_true] at h1
    exact ⟨switchToNotary_nodup h1 hn, switchToNotary_sub h1, switchToNotary_get_other h1⟩
  · simp only [hv, if_false, Option.some.injEq] at h1
    subst h1
    exact ⟨hn, fun _ _ h => h, fun _ _ => rfl⟩

theorem balanceOld_stage1 {v h : Int} {s s1 : Store} (h1 : balanceStage1 v h s = some s1) (hn : NodupKeys s)
    (ho : BalanceOld s) : BalanceOld s1 := by
  intro k hk
  obtain ⟨w, hw⟩ := get_isSome_of_mem_keys hk
  exact ho k (mem_keys_of_get ((balanceStage1_spec h1 hn).2.1 k w hw))

/-- in an old-layout storage nothing lives under `a ‖ acc` -/
theorem balanceOld_no_prefixed {s : Store} (ho : BalanceOld s) (acc : Bytes) (h20 : acc.length = 20) :
    get s (accPrefix :: acc) = none := by
  apply get_none_of_not_mem
  intro hm
  rcases ho _ hm with h | h
  · simp [h20] at h
  · have := (balanceNamed_sep _ h).2.1
    simp [h20] at this

/-- **the account record moves**: after the migration the record of a 20-byte account is under
`a ‖ acc`, whatever else the (old-layout) storage holds -/
theorem balance_record_moves {v h : Int} {s s' : Store} (hn : NodupKeys s) (ho : BalanceOld s)
    (hv : v < 20000) (hm : balanceMigrate v h s = some s') (acc : Bytes) (h20 : acc.length = 20) :
    get s' (accPrefix :: acc) = get s acc ∧ get s' acc = none := by
  rw [balanceMigrate_eq] at hm
  cases h1 : balanceStage1 v h s with
  | none => rw [h1] at hm; cases hm
  | some s1 =>
    rw [h1] at hm
    simp only [hv, if_true, Option.some.injEq] at hm
    subst hm
    obtain ⟨hn1, _, hoth⟩ := balanceStage1_spec h1 hn
    have ho1 := balanceOld_stage1 h1 hn ho
    have hacc : get s1 acc = get s acc := by
      apply hoth
      intro hmem
      have := (balanceNamed_sep _ (balanceDeleted_sub _ hmem)).1
      exact this h20
    constructor
    · rw [get_switchToAccPrefixes hn1]
      have l21 : (accPrefix :: acc).length = 21 := by simp [h20]
      simp only [l21, List.head?_cons, List.tail_cons, true_and]
      have : ¬ (21 : Nat) = 20 := by omega
      simp only [this, if_false]
      cases hg : get s1 acc with
      | some w => simp [← hacc, hg]
      | none =>
        simp only [Option.isSome_none, Bool.false_eq_true, if_false]
        rw [balanceOld_no_prefixed ho1 acc h20, ← hacc, hg]
    · rw [get_switchToAccPrefixes hn1]; simp [h20]

/-- keys that are neither 20 nor 21 bytes long and are not removed by `switchToNotary` are untouched -/
theorem balance_other_untouched {v h : Int} {s s' : Store} (hn : NodupKeys s)
    (hm : balanceMigrate v h s = some s') (q : Bytes) (h20 : q.length ≠ 20) (h21 : q.length ≠ 21)
    (hq : q ∉ [notaryKey, voteKey, netmapHashKey, containerHashKey]) : get s' q = get s q := by
  rw [balanceMigrate_eq] at hm
  cases h1 : balanceStage1 v h s with
  | none => rw [h1] at hm; cases hm
  | some s1 =>
    rw [h1] at hm
    simp only [Option.some.injEq] at hm
    obtain ⟨hn1, _, hoth⟩ := balanceStage1_spec h1 hn
    subst hm
    by_cases hv : v < 20000
    · simp only [hv, if_true]
      rw [get_switchToAccPrefixes hn1]
      simp only [h20, if_false, h21, false_and]
      exact hoth q hq
    · simp only [hv, if_false]; exact hoth q hq

theorem balance_nodup {v h : Int} {s s' : Store} (hn : NodupKeys s) (hm : balanceMigrate v h s = some s') :
    NodupKeys s' := by
  rw [balanceMigrate_eq] at hm
  cases h1 : balanceStage1 v h s with
  | none => rw [h1] at hm; cases hm
  | some s1 =>
    rw [h1] at hm
    simp only [Option.some.injEq] at hm
    subst hm
    have hn1 := (balanceStage1_spec h1 hn).1
    by_cases hv : v < 20000
    · simp only [hv, if_true]; exact nodup_switchToAccPrefixes hn1
    · simp only [hv, if_false]; exact hn1

/-- the set of account records is the same, only re-keyed -/
theorem balance_accounts_perm {v h : Int} {s s' : Store} (hn : NodupKeys s) (ho : BalanceOld s)
    (hv : v < 20000) (hm : balanceMigrate v h s = some s') : (accountsNew s').Perm (accountsOld s) := by
  unfold accountsNew accountsOld
  apply prefixView_perm_lengthView hn (balance_nodup hn hm)
  intro k w
  by_cases h20 : k.length = 20
  · rw [(balance_record_moves hn ho hv hm k h20).1]
    simp [h20]
  · constructor
    · intro hg
      exfalso
      -- a key `a ‖ k` with |k| ≠ 20 cannot exist after the migration
      by_cases h19 : (accPrefix :: k).length = 20
      · -- it is a bare 20-byte key itself: deleted
        rw [balanceMigrate_eq] at hm
        cases h1 : balanceStage1 v h s with
        | none => rw [h1] at hm; cases hm
        | some s1 =>
          rw [h1] at hm
          simp only [hv, if_true, Option.some.injEq] at hm
          subst hm
          rw [get_switchToAccPrefixes (balanceStage1_spec h1 hn).1] at hg
          simp only [h19, if_true] at hg
          cases hg
      · have h21 : (accPrefix :: k).length ≠ 21 := by simp; omega
        by_cases hq : accPrefix :: k ∈ [notaryKey, voteKey, netmapHashKey, containerHashKey]
        · have := (balanceNamed_sep _ (balanceDeleted_sub _ hq)).2.2
          simp at this
        · rw [balance_other_untouched hn hm _ h19 h21 hq] at hg
          rcases ho _ (mem_keys_of_get hg) with hl | hl
          · exact h19 hl
          · have := (balanceNamed_sep _ hl).2.2
            simp at this
    · intro ⟨_, hl⟩; exact absurd hl h20

end NeoFS.Upgrade
