import NeoFS.Lemmas.NNSMap
set_option linter.unusedSimpArgs false
set_option linter.unusedVariables false
/-! Helper lemmas for the NNS model: frame lemmas of the storage helpers and one inversion lemma per
method (what a HALT tells about the guards and the new state). Property theorems live in NeoFS/Props. -/
namespace NeoFS.NNS
open NeoFS

/-! ### frames of the storage helpers -/

@[simp] theorem updateBalance_names (s : State) (t : Name) (a : Hash) (d : Int) : (updateBalance s t a d).names = s.names := rfl
@[simp] theorem updateBalance_roots (s : State) (t : Name) (a : Hash) (d : Int) : (updateBalance s t a d).roots = s.roots := rfl
@[simp] theorem updateBalance_supply (s : State) (t : Name) (a : Hash) (d : Int) : (updateBalance s t a d).supply = s.supply := rfl
@[simp] theorem updateBalance_recs (s : State) (t : Name) (a : Hash) (d : Int) : (updateBalance s t a d).recs = s.recs := rfl
@[simp] theorem updateBalance_price (s : State) (t : Name) (a : Hash) (d : Int) : (updateBalance s t a d).price = s.price := rfl

theorem updateBalance_bal (s : State) (t : Name) (a : Hash) (d : Int) :
    (updateBalance s t a d).bal =
      if (mget s.bal a).getD 0 + d = 0 then mdel s.bal a else mput s.bal a ((mget s.bal a).getD 0 + d) := rfl

theorem updateBalance_toks (s : State) (t : Name) (a : Hash) (d : Int) :
    (updateBalance s t a d).toks = if d < 0 then mdel s.toks (a, t) else mput s.toks (a, t) t := rfl

/-- the part of the state that record operations never touch -/
def sameLedger (s s' : State) : Prop :=
  s'.names = s.names ∧ s'.roots = s.roots ∧ s'.supply = s.supply ∧ s'.bal = s.bal ∧ s'.toks = s.toks ∧ s'.price = s.price

theorem sameLedger_refl (s : State) : sameLedger s s := ⟨rfl, rfl, rfl, rfl, rfl, rfl⟩

theorem sameLedger_trans {a b c : State} (h1 : sameLedger a b) (h2 : sameLedger b c) : sameLedger a c := by
  obtain ⟨a1, a2, a3, a4, a5, a6⟩ := h1
  obtain ⟨b1, b2, b3, b4, b5, b6⟩ := h2
  exact ⟨b1.trans a1, b2.trans a2, b3.trans a3, b4.trans a4, b5.trans a5, b6.trans a6⟩

theorem storeRecord_ledger (s : State) (tok n : Name) (tb idb : Nat) (typ id : Int) (d : Bytes) :
    sameLedger s (storeRecord s tok n tb idb typ id d) := ⟨rfl, rfl, rfl, rfl, rfl, rfl⟩

theorem storeRecord_recs (s : State) (tok n : Name) (tb idb : Nat) (typ id : Int) (d : Bytes) :
    (storeRecord s tok n tb idb typ id d).recs = mput s.recs (tok, n, tb, idb) ⟨n, typ, d, id⟩ := rfl

theorem putSoaRecord_some {s s' : State} {env : Env} {name email : Bytes} {a b c d : Int}
    (h : putSoaRecord s env name email a b c d = some s') :
    env.nameOK name = true ∧ sameLedger s s' ∧
    ∃ data, s'.recs = mput s.recs (tokenOf s env.now name, name, soaByte, 0) ⟨name, soaType, data, 0⟩ := by
  unfold putSoaRecord tokenIDFromName at h
  by_cases hn : env.nameOK name = true
  · simp only [hn, if_true] at h
    injection h with h; subst h
    exact ⟨hn, storeRecord_ledger .., _, rfl⟩
  · simp only [hn] at h; simp at h

theorem updateSoaSerial_some {s s' : State} {now : Int} {token : Name}
    (h : updateSoaSerial s now token = some s') :
    sameLedger s s' ∧ ∃ rec a b c d e f g,
      mget s.recs (token, token, soaByte, 0) = some rec ∧
      splitNonEmpty space rec.data = [a, b, c, d, e, f, g] ∧
      s'.recs = mput s.recs (token, token, soaByte, 0)
        { rec with data := a ++ space :: b ++ space :: itoa now ++ space :: d ++ space :: e ++ space :: f ++ space :: g } := by
  unfold updateSoaSerial at h
  split at h
  · simp at h
  · rename_i rec hrec
    split at h
    · rename_i a b c d e f g hs
      injection h with h; subst h
      exact ⟨⟨rfl, rfl, rfl, rfl, rfl, rfl⟩, rec, a, b, c, d, e, f, g, hrec, hs, rfl⟩
    · simp at h

theorem saveDomain_some {s s' : State} {env : Env} {name email : Bytes} {a b c d : Int} {owner : Hash}
    (h : saveDomain s env name email a b c d owner = some s') :
    env.nameOK name = true ∧
    s'.names = mput s.names name ⟨owner, name, env.now + c * Generated.nns_millisecondsInSecond, []⟩ ∧
    s'.roots = s.roots ∧ s'.supply = s.supply ∧ s'.bal = s.bal ∧ s'.toks = s.toks ∧ s'.price = s.price ∧
    ∃ tok data, s'.recs = mput s.recs (tok, name, soaByte, 0) ⟨name, soaType, data, 0⟩ := by
  unfold saveDomain at h
  obtain ⟨h1, ⟨l1, l2, l3, l4, l5, l6⟩, data, hr⟩ := putSoaRecord_some h
  exact ⟨h1, l1, l2, l3, l4, l5, l6, _, data, hr⟩

/-! ### inversion lemmas: what a HALT of each method tells -/

theorem postTransfer_some {env : Env} {f t : Hash} {n : Name} {ev : List Event}
    (h : postTransfer env f t n = some ev) : env.recv ≠ 2 ∧ ev = [.transfer f t 1 n] := by
  unfold postTransfer at h
  split at h
  · simp at h
  · rename_i hr
    injection h with h
    exact ⟨hr, h.symm⟩

theorem setPrice_inv {s : State} {env : Env} {p : Int} {out : Halt} (h : setPrice s env p = some out) :
    env.committee = true ∧ 0 ≤ p ∧ p ≤ Generated.nns_maxRegisterPrice ∧ out = ({ s with price := p }, .null, []) := by
  unfold setPrice at h
  by_cases hc : env.committee = true
  · simp only [hc, Bool.not_true, Bool.false_eq_true, if_false] at h
    by_cases hp : p < 0 ∨ p > Generated.nns_maxRegisterPrice
    · simp [hp] at h
    · simp only [hp, if_false] at h
      injection h with h
      refine ⟨hc, ?_, ?_, h.symm⟩ <;> omega
  · simp [hc] at h

theorem transfer_inv {s : State} {env : Env} {to : Hash} {t : Name} {out : Halt} (h : transfer s env to t = some out) :
    to.length = 20 ∧ isTLD t = false ∧ ∃ ns, nameStateWithKey s env.now t = some ns ∧
      ((witness env ns.owner = false ∧ out = (s, .bool false, [])) ∨
       (witness env ns.owner = true ∧ env.recv ≠ 2 ∧
        out = ((if ns.owner = to then s else
                  updateBalance (updateBalance { s with names := mput s.names t { ns with owner := to, admin := [] } } t ns.owner (-1)) t to 1),
               .bool true, [.transfer ns.owner to 1 t]))) := by
  unfold transfer at h
  by_cases h1 : to.length ≠ 20
  · simp [h1] at h
  · simp only [h1, if_false] at h
    by_cases h2 : (split dot t).length = 1
    · simp [h2] at h
    · simp only [h2, if_false] at h
      split at h
      · simp at h
      · rename_i ns hns
        refine ⟨by omega, by simp [isTLD, h2], ns, hns, ?_⟩
        by_cases hw : witness env ns.owner = true
        · simp only [hw, Bool.not_true, Bool.false_eq_true, if_false] at h
          unfold postTransfer at h
          by_cases hr : env.recv = 2
          · simp [hr] at h
          · simp only [hr, if_false] at h
            injection h with h
            exact Or.inr ⟨hw, hr, h.symm⟩
        · simp only [hw, Bool.not_false, if_true] at h
          injection h with h
          have : witness env ns.owner = false := by simpa using hw
          exact Or.inl ⟨this, h.symm⟩

theorem renew_inv {s : State} {env : Env} {n : Name} {y : Int} {out : Halt} (h : renew s env n y = some out) :
    1 ≤ y ∧ y ≤ 10 ∧ 0 < s.price * y ∧ ∃ ns, fragNameState s env.now n (split dot n) = some ns ∧ checkAdmin env ns = true ∧
      env.nameOK n = true ∧
      ((split dot n).length > 1 → ns.exp + Generated.nns_millisecondsInYear * y ≤ env.now + Generated.nns_millisecondsInTenYears) ∧
      out = ({ s with names := mput s.names ns.name { ns with exp := ns.exp + Generated.nns_millisecondsInYear * y } },
             .int (ns.exp + Generated.nns_millisecondsInYear * y),
             [.renew n ns.exp (ns.exp + Generated.nns_millisecondsInYear * y)]) := by
  unfold renew at h
  by_cases h1 : y < 1 ∨ y > 10
  · simp [h1] at h
  · simp only [h1, if_false] at h
    by_cases h2 : (n.length : Int) > Generated.nns_maxDomainNameLength
    · simp [h2] at h
    · simp only [h2, if_false] at h
      by_cases h3 : s.price * y ≤ 0
      · simp [h3] at h
      · simp only [h3, if_false] at h
        split at h
        · simp at h
        · rename_i ns hns
          by_cases h4 : checkAdmin env ns = true
          · simp only [h4, Bool.not_true, Bool.false_eq_true, if_false] at h
            by_cases h5 : env.nameOK n = true
            · simp only [h5, Bool.not_true, Bool.false_eq_true, if_false] at h
              by_cases h6 : (split dot n).length > 1 ∧
                  ns.exp + Generated.nns_millisecondsInYear * y > env.now + Generated.nns_millisecondsInTenYears
              · simp [h6] at h
              · simp only [h6, if_false] at h
                injection h with h
                refine ⟨by omega, by omega, by omega, ns, hns, h4, h5, ?_, h.symm⟩
                intro hl
                have := fun c => h6 ⟨hl, c⟩
                omega
            · simp [h5] at h
          · simp [h4] at h

theorem setAdmin_inv {s : State} {env : Env} {n : Name} {adm : Hash} {out : Halt} (h : setAdmin s env n adm = some out) :
    isTLD n = false ∧ (adm.length = 0 ∨ witness env adm = true) ∧
    ∃ ns, fragNameState s env.now n (split dot n) = some ns ∧ witness env ns.owner = true ∧
      out = ({ s with names := mput s.names ns.name { ns with admin := adm } }, .null, [.setAdmin n ns.admin adm]) := by
  unfold setAdmin at h
  by_cases h1 : (n.length : Int) > Generated.nns_maxDomainNameLength
  · simp [h1] at h
  · simp only [h1, if_false] at h
    by_cases h2 : (split dot n).length = 1
    · simp [h2] at h
    · simp only [h2, if_false] at h
      by_cases h3 : adm.length ≠ 0 ∧ (!witness env adm) = true
      · simp [h3] at h
      · simp only [h3, if_false] at h
        split at h
        · simp at h
        · rename_i ns hns
          by_cases h4 : witness env ns.owner = true
          · simp only [h4, Bool.not_true, Bool.false_eq_true, if_false] at h
            injection h with h
            refine ⟨by simp [isTLD, h2], ?_, ns, hns, h4, h.symm⟩
            by_cases ha : adm.length = 0
            · exact Or.inl ha
            · right
              cases hw : witness env adm with
              | true => rfl
              | false => exact absurd ⟨ha, by simp [hw]⟩ h3
          · simp [h4] at h

theorem updateSOA_inv {s : State} {env : Env} {n e : Bytes} {a b c d : Int} {out : Halt}
    (h : updateSOA s env n e a b c d = some out) :
    ∃ ns, fragNameState s env.now n (split dot n) = some ns ∧ checkAdmin env ns = true ∧
      ∃ s1, putSoaRecord s env n e a b c d = some s1 ∧ out = (s1, .null, []) := by
  unfold updateSOA at h
  by_cases h1 : (n.length : Int) > Generated.nns_maxDomainNameLength
  · simp [h1] at h
  · simp only [h1, if_false] at h
    split at h
    · simp at h
    · rename_i ns hns
      by_cases h4 : checkAdmin env ns = true
      · simp only [h4, Bool.not_true, Bool.false_eq_true, if_false] at h
        split at h
        · simp at h
        · rename_i s1 hs1
          injection h with h
          exact ⟨ns, hns, h4, s1, hs1, h.symm⟩
      · simp [h4] at h

theorem registerTLD_inv {s : State} {env : Env} {n e : Bytes} {a b c d : Int} {out : Halt}
    (h : registerTLD s env n e a b c d = some out) :
    env.committee = true ∧ env.nameOK n = true ∧ isTLD n = true ∧
    (s.roots.contains n = true → parentExpired s env.now 0 (split dot n) = true) ∧
    ∃ s1, saveDomain { s with roots := if s.roots.contains n then s.roots else n :: s.roots } env n e a b c d [] = some s1 ∧
      out = (s1, .null, []) := by
  unfold registerTLD at h
  dsimp only at h
  split at h
  · simp at h
  · rename_i h1
    split at h
    · simp at h
    · rename_i h2
      split at h
      · simp at h
      · rename_i h3
        split at h
        · simp at h
        · rename_i h4
          split at h
          · simp at h
          · rename_i s1 hs1
            injection h with h
            refine ⟨by simpa using h1, by simpa using h2, ?_, ?_, s1, hs1, h.symm⟩
            · have : (split dot n).length = 1 := by omega
              simp [isTLD, this]
            · intro hc
              cases hp : parentExpired s env.now 0 (split dot n) with
              | true => rfl
              | false => exact absurd ⟨hc, by simp [hp]⟩ h4

theorem register_inv {s : State} {env : Env} {n : Name} {o : Hash} {e : Bytes} {a b c d : Int} {out : Halt}
    (h : register s env n o e a b c d = some out) :
    env.nameOK n = true ∧ isTLD n = false ∧ s.roots.contains ((split dot n).getLastD []) = true ∧
    parentExpired s env.now 1 (split dot n) = false ∧
    ((split dot n).length > 2 → parentAuth s env n = true) ∧
    conflict s (joinDots ((split dot n).drop 1)) n = false ∧
    o.length = 20 ∧ witness env o = true ∧ 0 < s.price ∧
    ((∃ ns, mget s.names n = some ns ∧ env.now < ns.exp ∧ out = (s, .bool false, [])) ∨
     (∃ ns s1, mget s.names n = some ns ∧ ns.exp ≤ env.now ∧ env.recv ≠ 2 ∧
        saveDomain (updateBalance s n ns.owner (-1)) env n e a b c d o = some s1 ∧
        out = (updateBalance s1 n o 1, .bool true, [.transfer ns.owner o 1 n])) ∨
     (∃ s1, mget s.names n = none ∧ env.recv ≠ 2 ∧
        saveDomain { s with supply := s.supply + 1 } env n e a b c d o = some s1 ∧
        out = (updateBalance s1 n o 1, .bool true, [.transfer [] o 1 n]))) := by
  unfold register at h
  split at h
  · simp at h
  · rename_i hg
    have hg' : registerGuards s env n o = true := by simpa using hg
    unfold registerGuards at hg'
    simp only [Bool.and_eq_true, Bool.not_eq_true', Bool.or_eq_true, decide_eq_true_eq, beq_iff_eq, beq_eq_false_iff_ne,
      decide_eq_false_iff_not] at hg'
    obtain ⟨⟨⟨⟨⟨⟨⟨⟨g1, g2⟩, g3⟩, g4⟩, g5⟩, g6⟩, g7⟩, g8⟩, g9⟩ := hg'
    refine ⟨g1, by simp [isTLD, g2], g3, g4, ?_, g6, g7, g8, g9, ?_⟩
    · intro hl
      rcases g5 with g5 | g5
      · exact absurd hl g5
      · exact g5
    · split at h
      · rename_i ns hns
        split at h
        · rename_i hx
          injection h with h
          exact Or.inl ⟨ns, hns, hx, h.symm⟩
        · rename_i hx
          split at h
          · simp at h
          · rename_i s1 hs1
            split at h
            · simp at h
            · rename_i ev hev
              obtain ⟨hr, hev⟩ := postTransfer_some hev
              subst hev
              injection h with h
              exact Or.inr (Or.inl ⟨ns, s1, hns, by omega, hr, hs1, h.symm⟩)
      · rename_i hns
        split at h
        · simp at h
        · rename_i s1 hs1
          split at h
          · simp at h
          · rename_i ev hev
            obtain ⟨hr, hev⟩ := postTransfer_some hev
            subst hev
            injection h with h
            exact Or.inr (Or.inr ⟨s1, hns, hr, hs1, h.symm⟩)

/-- what `checkRecord` establishes -/
theorem checkRecord_some {s : State} {env : Env} {n : Name} {typ : Int} {data : Bytes} {tok : Name}
    (h : checkRecord s env n typ data = some tok) :
    env.nameOK n = true ∧ tok = tokenOf s env.now n ∧ isTLD tok = false ∧
    (typ = 1 ∨ typ = 5 ∨ typ = 16 ∨ typ = 28) ∧
    (typ = 5 → env.nameOK data = true) ∧ (typ = 16 → data.length ≤ 255) ∧
    ∃ ns, fragNameState s env.now tok (split dot tok) = some ns ∧ checkAdmin env ns = true := by
  unfold checkRecord tokenIDFromName at h
  by_cases h1 : env.nameOK n = true
  · simp only [h1, if_true] at h
    have gA : Generated.nns_recordtype_A = 1 := rfl
    have gC : Generated.nns_recordtype_CNAME = 5 := rfl
    have gT : Generated.nns_recordtype_TXT = 16 := rfl
    have g6 : Generated.nns_recordtype_AAAA = 28 := rfl
    have gL : Generated.nns_maxTXTRecordLength = 255 := rfl
    rw [gA, gC, gT, g6, gL] at h
    have fin : ∀ (hok : (typ = 1 ∨ typ = 5 ∨ typ = 16 ∨ typ = 28) ∧ (typ = 5 → env.nameOK data = true) ∧ (typ = 16 → data.length ≤ 255))
        (h : (if (split dot (tokenOf s env.now n)).length = 1 then none else
              match fragNameState s env.now (tokenOf s env.now n) (split dot (tokenOf s env.now n)) with
              | none => none
              | some ns => if checkAdmin env ns then some (tokenOf s env.now n) else none) = some tok),
        env.nameOK n = true ∧ tok = tokenOf s env.now n ∧ isTLD tok = false ∧
        (typ = 1 ∨ typ = 5 ∨ typ = 16 ∨ typ = 28) ∧
        (typ = 5 → env.nameOK data = true) ∧ (typ = 16 → data.length ≤ 255) ∧
        ∃ ns, fragNameState s env.now tok (split dot tok) = some ns ∧ checkAdmin env ns = true := by
      intro hok h
      by_cases h2 : (split dot (tokenOf s env.now n)).length = 1
      · simp [h2] at h
      · simp only [h2, if_false] at h
        split at h
        · simp at h
        · rename_i ns hns
          by_cases h4 : checkAdmin env ns = true
          · simp only [h4, if_true] at h
            injection h with h; subst h
            exact ⟨h1, rfl, by simp [isTLD, h2], hok.1, hok.2.1, hok.2.2, ns, hns, h4⟩
          · simp [h4] at h
    by_cases t1 : typ = 1
    · subst t1
      simp only [if_true] at h
      cases hip : env.ipOK with
      | false => simp [hip] at h
      | true =>
        simp only [hip] at h
        exact fin ⟨Or.inl rfl, by omega, by omega⟩ h
    · by_cases t5 : typ = 5
      · subst t5
        simp only [t1, if_false, if_true] at h
        by_cases hd : env.nameOK data = true
        · simp only [hd] at h
          exact fin ⟨Or.inr (Or.inl rfl), fun _ => hd, by omega⟩ h
        · have hd' : env.nameOK data = false := by simpa using hd
          simp [hd'] at h
      · by_cases t16 : typ = 16
        · subst t16
          simp only [t1, t5, if_false, if_true] at h
          by_cases hd : (data.length : Int) ≤ 255
          · simp only [hd, decide_true] at h
            exact fin ⟨Or.inr (Or.inr (Or.inl rfl)), by omega, fun _ => by omega⟩ h
          · simp [hd] at h
        · by_cases t28 : typ = 28
          · subst t28
            simp only [t1, t5, t16, if_false, if_true] at h
            cases hip : env.ipOK with
            | false => simp [hip] at h
            | true =>
              simp only [hip] at h
              exact fin ⟨Or.inr (Or.inr (Or.inr rfl)), by omega, by omega⟩ h
          · simp [t1, t5, t16, t28] at h
  · simp [h1] at h

theorem addRecord_inv {s : State} {env : Env} {n : Name} {typ : Int} {data : Bytes} {out : Halt}
    (h : addRecord s env n typ data = some out) :
    ∃ tok tb s1, checkRecord s env n typ data = some tok ∧ byteOf typ = some tb ∧
      (recsByType s tok n tb).any (fun r => r.name == n && r.typ == typ && r.data == data) = false ∧
      ((recsByType s tok n tb).length : Int) ≤ Generated.nns_maxRecordID ∧
      (typ = cnameType → (recsByType s tok n tb).length = 0) ∧
      updateSoaSerial (storeRecord s tok n tb (recsByType s tok n tb).length typ (recsByType s tok n tb).length data)
        env.now tok = some s1 ∧
      out = (s1, .null, []) := by
  unfold addRecord at h
  split at h
  · simp at h
  · rename_i tok htok
    split at h
    · simp at h
    · rename_i tb htb
      dsimp only at h
      split at h
      · simp at h
      · rename_i h1
        split at h
        · simp at h
        · rename_i h2
          split at h
          · simp at h
          · rename_i h3
            split at h
            · simp at h
            · rename_i s1 hs1
              injection h with h
              refine ⟨tok, tb, s1, htok, htb, by simpa using h1, by omega, ?_, hs1, h.symm⟩
              intro hc
              have := fun c => h3 ⟨hc, c⟩
              omega

theorem setRecord_inv {s : State} {env : Env} {n : Name} {typ id : Int} {data : Bytes} {out : Halt}
    (h : setRecord s env n typ id data = some out) :
    ∃ tok tb idb old s1, checkRecord s env n typ data = some tok ∧ byteOf typ = some tb ∧ byteOf id = some idb ∧
      mget s.recs (tok, n, tb, idb) = some old ∧
      (recsByType s tok n tb).any (fun r => r.id != id && r.data == data) = false ∧
      updateSoaSerial (storeRecord s tok n tb idb typ id data) env.now tok = some s1 ∧
      out = (s1, .null, []) := by
  unfold setRecord at h
  split at h
  · simp at h
  · rename_i tok htok
    split at h
    · rename_i tb idb htb hidb
      split at h
      · simp at h
      · rename_i old hold
        split at h
        · simp at h
        · rename_i h1
          split at h
          · simp at h
          · rename_i s1 hs1
            injection h with h
            exact ⟨tok, tb, idb, old, s1, htok, htb, hidb, hold, by simpa using h1, hs1, h.symm⟩
    · simp at h

theorem deleteRecords_inv {s : State} {env : Env} {n : Name} {typ : Int} {out : Halt}
    (h : deleteRecords s env n typ = some out) :
    typ ≠ soaType ∧ env.nameOK n = true ∧ isTLD (tokenOf s env.now n) = false ∧
    ∃ ns tb s1, fragNameState s env.now (tokenOf s env.now n) (split dot (tokenOf s env.now n)) = some ns ∧
      checkAdmin env ns = true ∧ byteOf typ = some tb ∧
      updateSoaSerial { s with recs := s.recs.filter (fun kv =>
          !(kv.1.1 == tokenOf s env.now n && kv.1.2.1 == n && kv.1.2.2.1 == tb)) } env.now (tokenOf s env.now n) = some s1 ∧
      out = (s1, .null, []) := by
  unfold deleteRecords tokenIDFromName at h
  split at h
  · simp at h
  · rename_i h0
    split at h
    · simp at h
    · rename_i tok htok
      split at htok
      · rename_i hok
        injection htok with htok; subst htok
        dsimp only at h
        split at h
        · simp at h
        · rename_i h2
          split at h
          · simp at h
          · rename_i ns hns
            split at h
            · simp at h
            · rename_i h4
              split at h
              · simp at h
              · rename_i tb htb
                split at h
                · simp at h
                · rename_i s1 hs1
                  injection h with h
                  exact ⟨h0, hok, by simp [isTLD, h2], ns, tb, s1, hns, by simpa using h4, htb, hs1, h.symm⟩
      · simp at htok

end NeoFS.NNS
