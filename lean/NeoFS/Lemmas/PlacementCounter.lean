import NeoFS.Lemmas.PlacementStore
set_option linter.unusedSimpArgs false
set_option linter.unusedVariables false
/-! The two-byte counter of the roster keys (C14): `counterToBytes` is the big-endian encoding on
0 … 32767, `counterFromBytes` inverts it, and the byte order on the encodings is the numeric order. -/
namespace NeoFS.Placement
open NeoFS

theorem natLE_zero (f : Nat) : natLE f 0 = [] := by
  cases f <;> simp [natLE]

theorem natLE_one_digit (f n : Nat) (h0 : 0 < n) (h : n < 256) : natLE (f + 1) n = [n] := by
  have h1 : n ≠ 0 := by omega
  have h2 : n / 256 = 0 := by omega
  have h3 : n % 256 = n := by omega
  simp [natLE, h1, h2, h3, natLE_zero]

theorem natLE_two_digits (f n : Nat) (h0 : 256 ≤ n) (h : n < 65536) : natLE (f + 2) n = [n % 256, n / 256] := by
  have h1 : n ≠ 0 := by omega
  have h2 : n / 256 ≠ 0 := by omega
  have h3 : n / 256 / 256 = 0 := by omega
  have h4 : n / 256 % 256 = n / 256 := by omega
  simp [natLE, h1, h2, h3, h4, natLE_zero]

/-- the VM encoding of the counters in range -/
theorem encInt_counter (n : Nat) (h : n ≤ 32767) :
    encInt (n : Int) =
      if n = 0 then [] else if n < 128 then [n] else if n < 256 then [n, 0] else [n % 256, n / 256] := by
  have hnn : (0 : Int) ≤ (n : Int) := Int.natCast_nonneg n
  simp only [encInt, hnn, if_true, Int.toNat_natCast, encNat]
  by_cases h0 : n = 0
  · subst h0; simp [natLE]
  · by_cases h1 : n < 256
    · have e : natLE 40 n = [n] := natLE_one_digit 39 n (by omega) h1
      rw [e]
      by_cases h2 : n < 128
      · have : ¬ 128 ≤ n := by omega
        simp [h0, h2, this]
      · have : 128 ≤ n := by omega
        simp [h0, h2, h1, this]
    · have e : natLE 40 n = [n % 256, n / 256] := natLE_two_digits 38 n (by omega) (by omega)
      rw [e]
      have a1 : ¬ n < 128 := by omega
      have a2 : ¬ 128 ≤ n / 256 := by omega
      simp [h0, h1, a1, a2]

/-- `counterToBytes c` is the two-byte big-endian encoding for 0 ≤ c ≤ 32767 -/
theorem counterToBytes_eq (n : Nat) (h : n ≤ 32767) : counterToBytes (n : Int) = [n / 256, n % 256] := by
  unfold counterToBytes
  rw [encInt_counter n h]
  by_cases h0 : n = 0
  · subst h0; simp
  · by_cases h2 : n < 128
    · have a1 : n / 256 = 0 := by omega
      have a2 : n % 256 = n := by omega
      simp [h0, h2, a1, a2]
    · by_cases h1 : n < 256
      · have a1 : n / 256 = 0 := by omega
        have a2 : n % 256 = n := by omega
        simp [h0, h2, h1, a1, a2]
      · simp [h0, h2, h1]

theorem counterToBytes_eq_be (n : Nat) (h : n ≤ 32767) : counterToBytes (n : Int) = be 2 n := by
  rw [counterToBytes_eq n h]
  have : n / 256 % 256 = n / 256 := by omega
  simp [be, natLEk, this]

theorem counterToBytes_length (n : Nat) (h : n ≤ 32767) : (counterToBytes (n : Int)).length = 2 := by
  rw [counterToBytes_eq n h]; rfl

/-- `counterFromBytes` inverts `counterToBytes` on 0 … 32767 -/
theorem counterFromBytes_counterToBytes (n : Nat) (h : n ≤ 32767) :
    counterFromBytes (counterToBytes (n : Int)) = some (n : Int) := by
  rw [counterToBytes_eq n h]
  have a : ¬ 128 ≤ n / 256 := by omega
  simp only [counterFromBytes, decInt, List.getLast?_cons_cons, List.getLast?_singleton, a, if_false, leVal]
  congr 1
  have : n % 256 + 256 * (n / 256 + 256 * 0) = n := by omega
  rw [this]

/-- the byte order of the encodings is the order of the counters (what makes `Find` return the roster in
submission order) -/
theorem counterToBytes_lt (a b : Nat) (ha : a ≤ 32767) (hb : b ≤ 32767) :
    blt (counterToBytes (a : Int)) (counterToBytes (b : Int)) = decide (a < b) := by
  rw [counterToBytes_eq a ha, counterToBytes_eq b hb]
  simp only [blt]
  by_cases h1 : a / 256 < b / 256
  · have : a < b := by omega
    simp [h1, this]
  · by_cases h2 : a / 256 = b / 256
    · by_cases h3 : a % 256 < b % 256
      · have : a < b := by omega
        simp [h1, h2, h3, this]
      · have : ¬ a < b := by omega
        by_cases h4 : a % 256 = b % 256
        · simp [h1, h2, h3, h4, this]
        · simp [h1, h2, h3, h4, this]
    · have : ¬ a < b := by omega
      simp [h1, h2, this]

theorem counterToBytes_inj (a b : Nat) (ha : a ≤ 32767) (hb : b ≤ 32767)
    (h : counterToBytes (a : Int) = counterToBytes (b : Int)) : a = b := by
  rw [counterToBytes_eq a ha, counterToBytes_eq b hb] at h
  simp only [List.cons.injEq, and_true] at h
  omega

/-- beyond the range the encoding takes three bytes: the bound of the lemmas above is sharp -/
theorem counterToBytes_32768 : counterToBytes 32768 = [128, 0, 0] := by decide

end NeoFS.Placement
