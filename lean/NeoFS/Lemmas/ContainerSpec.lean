import NeoFS.Lemmas.ContainerInv
set_option linter.unusedSimpArgs false
set_option linter.unusedVariables false
/-! The abstract specification of C04 (live containers and tombstones, in the property's own vocabulary),
the abstraction function, and the refinement / read-API lemmas. -/
namespace NeoFS.Container
open NeoFS

/-- what the property says about one live container -/
structure Info where
  cnr : Cnr                  -- the stored blob with signature, key and session token
  owner : Bytes              -- the owner encoded in the blob
  eacl : Option Cnr          -- the last eACL table set
  alias : Option Bytes       -- the last name set
  metaOn : Bool              -- meta-on-chain flag
  deriving DecidableEq

/-- the property's state: the live containers and the set of deleted ids -/
structure Spec where
  live : Bytes → Option Info
  tomb : Bytes → Prop

theorem Spec.ext' {a b : Spec} (h1 : ∀ c, a.live c = b.live c) (h2 : ∀ c, a.tomb c ↔ b.tomb c) : a = b := by
  cases a; cases b
  simp only [Spec.mk.injEq]
  exact ⟨funext h1, funext (fun c => propext (h2 c))⟩

def abs (s : State) : Spec where
  live := fun cid =>
    match AL.get s.x cid with
    | none => none
    | some c => some ⟨c, (ownerOf c.value).getD [], AL.get s.eacl cid, AL.get s.alias cid, decide (cid ∈ s.m)⟩
  tomb := fun cid => cid ∈ s.d

def upd (f : Bytes → Option Info) (k : Bytes) (v : Option Info) : Bytes → Option Info :=
  fun c => if c = k then v else f c

/-- the effect of a HALTed operation on the live set, as the property describes it (`root` is the default
zone of container names) -/
def specStep (root : Bytes) (sp : Spec) : Op → Spec
  | .put cid blob sg pub token name zone mt =>
    let old := sp.live cid
    { sp with live := upd sp.live cid (some
        { cnr := ⟨blob, sg, pub, token⟩
          owner := (ownerOf blob).getD []
          eacl := old.bind (·.eacl)                                  -- re-put keeps the table
          alias := if name ≠ [] then some (name ++ dot :: (if zone = [] then root else zone))
                   else old.bind (·.alias)                           -- the last name set
          metaOn := decide (mt = some true) || (old.map (·.metaOn)).getD false }) }
  | .delete cid _ _ =>
    match sp.live cid with
    | none => sp                                                    -- nothing to delete
    | some _ => { live := upd sp.live cid none, tomb := fun c => c = cid ∨ sp.tomb c }
  | .setEACL table sg pub token =>
    match eaclCID table with
    | none => sp
    | some cid =>
      match sp.live cid with
      | none => sp
      | some i => { sp with live := upd sp.live cid (some { i with eacl := some ⟨table, sg, pub, token⟩ }) }
  | _ => sp

/-! ### refinement -/

theorem abs_live_none {s : State} {cid : Bytes} (h : AL.get s.x cid = none) : (abs s).live cid = none := by
  simp [abs, h]

theorem abs_live_some {s : State} {cid : Bytes} {c : Cnr} (h : AL.get s.x cid = some c) :
    (abs s).live cid = some ⟨c, (ownerOf c.value).getD [], AL.get s.eacl cid, AL.get s.alias cid, decide (cid ∈ s.m)⟩ := by
  simp [abs, h]

theorem refine_put {env : Env} {s s' : State} {cid blob sg pub token name zone : Bytes} {mt : Option Bool} {evs : List Ev}
    (hI : Inv s) (h : putStep env s cid blob sg pub token name zone mt = .ok (s', evs)) :
    abs s' = specStep env.root (abs s) (.put cid blob sg pub token name zone mt) := by
  obtain ⟨owner, fee, b', bev, needReg, hp⟩ := putStep_ok h
  -- the fields of the final state that `abs` reads
  have hf : s'.x = AL.put s.x cid ⟨blob, sg, pub, token⟩ ∧ s'.eacl = s.eacl ∧ s'.m = metaSet s cid mt ∧ s'.d = s.d ∧
      s'.alias = (if name ≠ [] then AL.put s.alias cid (putDomain env name zone) else s.alias) := by
    have hal := hp.hAlias
    by_cases hn : name = []
    · simp only [hn, ne_eq, not_true_eq_false, if_false] at hal ⊢
      subst hal; exact ⟨rfl, rfl, rfl, rfl, rfl⟩
    · simp only [hn, ne_eq, not_false_eq_true, if_true] at hal ⊢
      obtain ⟨d1, d2, d3, _, _, _, rfl⟩ := putAlias_ok hal
      exact ⟨rfl, rfl, rfl, rfl, rfl⟩
  obtain ⟨fx, fe, fm, fd, fa⟩ := hf
  apply Spec.ext'
  · intro c
    simp only [specStep, upd]
    by_cases ec : c = cid
    · subst ec
      simp only [if_true]
      have hx' : AL.get s'.x c = some ⟨blob, sg, pub, token⟩ := by rw [fx]; exact AL.get_put_self _ _ _
      rw [abs_live_some hx']
      simp only [Option.some.injEq, Info.mk.injEq, true_and, fe]
      cases hold : AL.get s.x c with
      | none =>
        rw [abs_live_none hold]
        refine ⟨by simp [hI.sat_e c hold], ?_, ?_⟩
        · rw [fa]
          by_cases hn : name = []
          · simp [hn, hI.sat_a c hold]
          · simp [hn, AL.get_put_self, putDomain]
        · rw [fm]
          have hnm : c ∉ s.m := by
            intro hm; obtain ⟨cn, hcn⟩ := hI.sat_m c hm; rw [hold] at hcn; cases hcn
          unfold metaSet
          by_cases hmt : mt = some true
          · simp [hmt, mem_sadd]
          · simp [hmt, hnm]
      | some c0 =>
        rw [abs_live_some hold]
        refine ⟨by simp, ?_, ?_⟩
        · rw [fa]
          by_cases hn : name = []
          · simp [hn]
          · simp [hn, AL.get_put_self, putDomain]
        · rw [fm]
          unfold metaSet
          by_cases hmt : mt = some true
          · simp [hmt, mem_sadd]
          · simp [hmt]
    · simp only [ec, if_false]
      have hx' : AL.get s'.x c = AL.get s.x c := by rw [fx]; exact AL.get_put_ne _ _ _ _ ec
      have ha' : AL.get s'.alias c = AL.get s.alias c := by
        rw [fa]; split
        · exact AL.get_put_ne _ _ _ _ ec
        · rfl
      have hm' : (c ∈ s'.m) = (c ∈ s.m) := by
        rw [fm]; unfold metaSet; split
        · exact propext ⟨fun h => ((mem_sadd _ _ _).mp h).resolve_left ec, fun h => (mem_sadd _ _ _).mpr (Or.inr h)⟩
        · rfl
      simp only [abs, hx', ha', fe, hm']
  · intro c
    simp only [specStep, abs, fd]

theorem refine_delete {env : Env} {s s' : State} {cid sg token : Bytes} {evs : List Ev}
    (hI : Inv s) (h : deleteStep env s cid = .ok (s', evs)) :
    abs s' = specStep env.root (abs s) (.delete cid sg token) := by
  rcases deleteStep_ok h with ⟨hn, rfl, _⟩ | ⟨c0, owner, s1, hd⟩
  · simp [specStep, abs_live_none hn]
  · have hs1 : s1.x = s.x ∧ s1.m = s.m ∧ s1.eacl = s.eacl ∧ s1.d = s.d ∧
        (∀ c, c ≠ cid → AL.get s1.alias c = AL.get s.alias c) := by
      have hA := hd.hAlias
      cases hal : AL.get s.alias cid with
      | none => simp only [hal] at hA; subst hA; exact ⟨rfl, rfl, rfl, rfl, fun _ _ => rfl⟩
      | some domain =>
        simp only [hal] at hA
        split at hA
        · obtain ⟨d', _, rfl⟩ := hA
          exact ⟨rfl, rfl, rfl, rfl, fun c hc => AL.get_del_ne _ _ _ hc⟩
        · subst hA; exact ⟨rfl, rfl, rfl, rfl, fun _ _ => rfl⟩
    obtain ⟨ex, em, ee, ed, ha⟩ := hs1
    have hS := hd.hS
    subst hS
    have hl := abs_live_some hd.hX
    apply Spec.ext'
    · intro c
      simp only [specStep, hl, upd]
      by_cases ec : c = cid
      · subst ec
        simp only [if_true]
        apply abs_live_none
        rw [ex]; exact AL.get_del_self _ _
      · simp only [ec, if_false]
        have hm' : (c ∈ sdel s1.m cid) = (c ∈ s.m) := by
          rw [em]; exact propext ⟨fun h => ((mem_sdel _ _ _).mp h).1, fun h => (mem_sdel _ _ _).mpr ⟨h, ec⟩⟩
        simp only [abs, ex, ee, AL.get_del_ne _ _ _ ec, ha c ec, hm']
    · intro c
      simp only [specStep, hl]
      show c ∈ sadd s1.d cid ↔ c = cid ∨ c ∈ s.d
      rw [ed]; exact mem_sadd _ _ _

theorem refine_setEACL {env : Env} {s s' : State} {table sg pub token : Bytes} {evs : List Ev}
    (hI : Inv s) (h : setEACLStep env s table sg pub token = .ok (s', evs)) :
    abs s' = specStep env.root (abs s) (.setEACL table sg pub token) := by
  obtain ⟨cid, c0, hcid, hc0, _, _, rfl, _⟩ := setEACLStep_ok h
  have hl := abs_live_some hc0
  apply Spec.ext'
  · intro c
    simp only [specStep, hcid, hl, upd]
    by_cases ec : c = cid
    · subst ec
      simp only [if_true]
      have hx' : AL.get ({ s with eacl := AL.put s.eacl c ⟨table, sg, pub, token⟩ } : State).x c = some c0 := hc0
      rw [abs_live_some hx']
      simp [AL.get_put_self]
    · simp only [ec, if_false]
      simp only [abs, AL.get_put_ne _ _ _ _ ec]
  · intro c
    simp only [specStep, hcid, hl]
    exact Iff.rfl

/-- **Refinement**: a HALTed invocation acts on the abstract state exactly as the specification says,
a FAULTed one not at all. -/
theorem refinement (env : Env) (s : State) (op : Op) (hI : Inv s) :
    abs (invoke env s op).1 =
      match (invoke env s op).2 with
      | .ok _ => specStep env.root (abs s) op
      | .error _ => abs s := by
  unfold invoke
  cases hst : step env s op with
  | error e => rfl
  | ok r =>
    obtain ⟨s', ret, ev⟩ := r
    show abs s' = specStep env.root (abs s) op
    cases op with
    | setcfg key val =>
      simp only [step] at hst
      split at hst
      · cases hst
      · cases hst; rfl
    | bal bop =>
      simp only [step] at hst
      split at hst
      · cases hst
      · cases hst; rfl
    | prereg domain owner =>
      simp only [step] at hst
      split at hst
      · cases hst
      · rename_i s2 h2; cases hst
        unfold preregStep at h2
        split at h2
        · cases h2
        · split at h2
          · cases h2
          · split at h2
            · cases h2
            · split at h2
              · cases h2
              · split at h2
                · cases h2
                · cases h2; rfl
    | put cid blob sg pub token name zone mt =>
      simp only [step] at hst
      split at hst
      · cases hst
      · rename_i s2 ev2 h2; cases hst; exact refine_put hI h2
    | delete cid sg token =>
      simp only [step] at hst
      split at hst
      · cases hst
      · rename_i s2 ev2 h2; cases hst; exact refine_delete hI h2
    | setEACL table sg pub token =>
      simp only [step] at hst
      split at hst
      · cases hst
      · rename_i s2 ev2 h2; cases hst; exact refine_setEACL hI h2
    | get cid => simp only [step] at hst; split at hst <;> cases hst; rfl
    | owner cid => simp only [step] at hst; split at hst <;> cases hst; rfl
    | alias cid => simp only [step] at hst; split at hst <;> cases hst; rfl
    | eacl cid => simp only [step] at hst; split at hst <;> cases hst; rfl
    | count => simp only [step] at hst; split at hst <;> cases hst; rfl
    | list o => simp only [step] at hst; split at hst <;> cases hst; rfl
    | containersOf o => simp only [step] at hst; split at hst <;> cases hst; rfl

/-! ### the read API reads exactly the live set -/

theorem live_owner {s : State} (hI : Inv s) {cid : Bytes} {i : Info} (h : (abs s).live cid = some i) :
    ownerOf i.cnr.value = some i.owner ∧ i.owner.length = 25 ∧ AL.get s.x cid = some i.cnr ∧ cid.length = 32 := by
  cases hx : AL.get s.x cid with
  | none => rw [abs_live_none hx] at h; cases h
  | some c =>
    rw [abs_live_some hx] at h
    cases h
    obtain ⟨ow, ho, _⟩ := hI.xo cid c hx
    simp only [ho, Option.getD_some]
    exact ⟨trivial, ownerOf_length _ _ ho, trivial, hI.xlen cid c hx⟩

theorem read_get {s : State} (hI : Inv s) (cid : Bytes) :
    readStep s (.get cid) = match (abs s).live cid with
      | none => .error .notFound
      | some i => .ok (.cnr i.cnr) := by
  cases hx : AL.get s.x cid with
  | none => simp [readStep, hx, abs_live_none hx]
  | some c =>
    obtain ⟨ow, ho, _⟩ := hI.xo cid c hx
    have := ownerOf_blob_nonempty _ _ ho
    simp [readStep, hx, abs_live_some hx, this]

theorem ownerByID_live {s : State} (hI : Inv s) (cid : Bytes) :
    ownerByID s cid = ((abs s).live cid).map (·.owner) := by
  cases hx : AL.get s.x cid with
  | none => simp [ownerByID, hx, abs_live_none hx]
  | some c =>
    obtain ⟨ow, ho, _⟩ := hI.xo cid c hx
    simp [ownerByID, hx, abs_live_some hx, ho]

theorem read_owner {s : State} (hI : Inv s) (cid : Bytes) :
    readStep s (.owner cid) = match (abs s).live cid with
      | none => .error .notFound
      | some i => .ok (.bytes i.owner) := by
  simp only [readStep, ownerByID_live hI]
  cases (abs s).live cid <;> rfl

theorem read_alias {s : State} (hI : Inv s) (cid : Bytes) :
    readStep s (.alias cid) = match (abs s).live cid with
      | none => .error .notFound
      | some i => .ok (.optBytes i.alias) := by
  simp only [readStep, ownerByID_live hI]
  cases hx : AL.get s.x cid with
  | none => simp [abs_live_none hx]
  | some c => simp [abs_live_some hx]

theorem read_eacl {s : State} (hI : Inv s) (cid : Bytes) :
    readStep s (.eacl cid) = match (abs s).live cid with
      | none => .error .notFound
      | some i => .ok (.cnr (i.eacl.getD emptyCnr)) := by
  simp only [readStep, ownerByID_live hI]
  cases hx : AL.get s.x cid with
  | none => simp [abs_live_none hx]
  | some c => simp [abs_live_some hx]

/-- ids of the live containers of `ow` -/
def LiveOf (sp : Spec) (ow : Bytes) (cid : Bytes) : Prop := ∃ i, sp.live cid = some i ∧ i.owner = ow
def LiveAny (sp : Spec) (cid : Bytes) : Prop := ∃ i, sp.live cid = some i

theorem liveAny_iff {s : State} (cid : Bytes) : LiveAny (abs s) cid ↔ cid ∈ AL.keys s.x := by
  rw [AL.mem_keys_iff]
  constructor
  · rintro ⟨i, hi⟩
    cases hx : AL.get s.x cid with
    | none => rw [abs_live_none hx] at hi; cases hi
    | some c => exact ⟨c, rfl⟩
  · rintro ⟨c, hc⟩
    exact ⟨_, abs_live_some hc⟩

/-- entries of the owner index, as a relation -/
theorem o_entry {s : State} (hI : Inv s) (kv : (Bytes × Bytes) × Bytes) (h : kv ∈ s.o) :
    kv.2 = kv.1.2 ∧ ∃ c, AL.get s.x kv.1.2 = some c ∧ ownerOf c.value = some kv.1.1 := by
  obtain ⟨⟨ow, cid⟩, v⟩ := kv
  have := AL.get_of_mem s.o (ow, cid) v hI.uo h
  exact hI.ox ow cid v this

theorem findO_owner_mem {s : State} (hI : Inv s) (ow cid : Bytes) (how : ow.length = 25) :
    cid ∈ findO s ow ↔ LiveOf (abs s) ow cid := by
  unfold findO
  rw [List.mem_map]
  constructor
  · rintro ⟨kv, hkv, rfl⟩
    rw [List.mem_filter] at hkv
    obtain ⟨hmem, hpre⟩ := hkv
    obtain ⟨hv, c, hc, hoc⟩ := o_entry hI kv hmem
    have hl := ownerOf_length _ _ hoc
    have : ow = kv.1.1 := prefix_eq_of_length ow kv.1.1 kv.1.2 (by omega) hpre
    rw [hv]
    exact ⟨_, abs_live_some hc, by simp [hoc, this]⟩
  · rintro ⟨i, hi, rfl⟩
    obtain ⟨ho, _, hx, _⟩ := live_owner hI hi
    obtain ⟨ow', ho', hget⟩ := hI.xo cid i.cnr hx
    rw [ho] at ho'; cases ho'
    refine ⟨((i.owner, cid), cid), ?_, rfl⟩
    rw [List.mem_filter]
    refine ⟨AL.mem_of_get _ _ _ hget, ?_⟩
    rw [List.isPrefixOf_iff_prefix]
    exact List.prefix_append _ _

theorem findO_all_mem {s : State} (hI : Inv s) (cid : Bytes) :
    cid ∈ findO s [] ↔ LiveAny (abs s) cid := by
  unfold findO
  rw [List.mem_map]
  constructor
  · rintro ⟨kv, hkv, rfl⟩
    rw [List.mem_filter] at hkv
    obtain ⟨hv, c, hc, hoc⟩ := o_entry hI kv hkv.1
    rw [hv]; exact ⟨_, abs_live_some hc⟩
  · rintro ⟨i, hi⟩
    obtain ⟨ho, _, hx, _⟩ := live_owner hI hi
    obtain ⟨ow', ho', hget⟩ := hI.xo cid i.cnr hx
    refine ⟨((ow', cid), cid), ?_, rfl⟩
    rw [List.mem_filter]
    exact ⟨AL.mem_of_get _ _ _ hget, by simp [List.isPrefixOf]⟩

theorem findO_nodup {s : State} (hI : Inv s) (arg : Bytes) : (findO s arg).Nodup := by
  unfold findO
  rw [List.nodup_iff_pairwise_ne, List.pairwise_map]
  apply List.Pairwise.filter
  have hk : List.Pairwise (fun a b : (Bytes × Bytes) × Bytes => a.1 ≠ b.1) s.o := by
    have := hI.uo
    unfold AL.keys at this
    rw [List.nodup_iff_pairwise_ne, List.pairwise_map] at this
    exact this
  refine List.Pairwise.imp_of_mem ?_ hk
  intro a b ha hb hne heq
  obtain ⟨hva, ca, hca, hoa⟩ := o_entry hI a ha
  obtain ⟨hvb, cb, hcb, hob⟩ := o_entry hI b hb
  have h2 : a.1.2 = b.1.2 := by rw [← hva, ← hvb]; exact heq
  rw [h2] at hca; rw [hca] at hcb; cases hcb
  rw [hoa] at hob
  have h1 : a.1.1 = b.1.1 := Option.some.inj hob
  apply hne
  exact Prod.ext h1 h2

end NeoFS.Container
