import NeoFS.Lemmas.NetmapRingResize
/-! # C08: exactly when `updateSnapshotCount` HALTs. Under the invariant the only FAULT
besides the guards (witness, `1 ≤ K ≤ 256`, changed count) is a move whose source slot is absent (deleted by an earlier grow and not refilled yet):
`storage.Put(key, nil)`. -/
namespace NeoFS.NetmapRing
open NeoFS

theorem applyMoves_isSome_iff (ms : List (Nat × Nat)) (hsafe : Par.Safe ms)
    (hb : ∀ m ∈ ms, m.1 ≤ 255 ∧ m.2 ≤ 255) : ∀ r : Ring,
    (applyMoves r ms).isSome = true ↔ ∀ m ∈ ms, (rget r m.1).isSome = true := by
  induction ms with
  | nil => intro r; simp [applyMoves]
  | cons m ms ih =>
    intro r
    obtain ⟨f, t⟩ := m
    obtain ⟨h1, h2⟩ := hsafe
    have hf := (hb (f, t) List.mem_cons_self).1
    have ht := (hb (f, t) List.mem_cons_self).2
    have hb' : ∀ m ∈ ms, m.1 ≤ 255 ∧ m.2 ≤ 255 := fun m hm => hb m (List.mem_cons_of_mem _ hm)
    simp only [applyMoves, moveSnapshot, slotKey_le f hf, slotKey_le t ht]
    cases hv : rget r f with
    | none =>
      simp only [Option.isSome_none]
      constructor
      · intro h; exact absurd h (by simp)
      · intro h; have := h (f, t) List.mem_cons_self; simp [hv] at this
    | some v =>
      simp only []
      rw [ih h2 hb' (rset r t v)]
      constructor
      · intro h m hm
        rcases List.mem_cons.mp hm with e | e
        · subst e; simp [hv]
        · have := h m e; rw [rget_rset, if_neg (h1 m e).1] at this; exact this
      · intro h m hm
        rw [rget_rset, if_neg (h1 m hm).1]
        exact h m (List.mem_cons_of_mem _ hm)

theorem delSlots_isSome (ks : List Nat) (hb : ∀ k ∈ ks, k ≤ 255) : ∀ r : Ring, (delSlots r ks).isSome = true := by
  induction ks with
  | nil => intro r; rfl
  | cons k ks ih =>
    intro r
    simp only [delSlots, slotKey_le k (hb k List.mem_cons_self)]
    exact ih (fun k' hk' => hb k' (List.mem_cons_of_mem _ hk')) _

/-- the moves `updateSnapshotCount new` performs in state `s` -/
def movesOf (s : State) (new : Nat) : List (Nat × Nat) :=
  if s.count < new then growMoves s.count new s.id
  else shrinkMoves (if s.id < new then s.id + 1 else 0)
         (if s.id < new then s.count - new else s.id - new + 1) new

theorem movesOf_bound (s : State) (p : Spec) (h : RingInv s p) (new : Nat) (hn : new ≤ 256) :
    ∀ m ∈ movesOf s new, m.1 ≤ 255 ∧ m.2 ≤ 255 := by
  have hc := h.count_eq
  have hid := h.id_lt
  have hle := h.n_le
  intro m hm
  unfold movesOf at hm
  split at hm
  · unfold growMoves at hm; simp only [List.mem_map, List.mem_range] at hm
    obtain ⟨i, hi, rfl⟩ := hm; simp only []; omega
  · unfold shrinkMoves at hm; simp only [List.mem_map, mem_upTo] at hm
    obtain ⟨k, hk, rfl⟩ := hm; simp only []
    split <;> omega

theorem resize_halts_iff_nat (s : State) (p : Spec) (h : RingInv s p) (env : Env) (new : Nat) :
    (updateSnapshotCount s env (new : Int)).isSome = true ↔
      env.alphabet = true ∧ 0 < new ∧ new ≤ 256 ∧ s.count ≠ new ∧
      ∀ m ∈ movesOf s new, (rget s.ring m.1).isSome = true := by
  have hc := h.count_eq
  have hid := h.id_lt
  have hle := h.n_le
  constructor
  · intro hs
    obtain ⟨s', hs'⟩ := Option.isSome_iff_exists.mp hs
    obtain ⟨ha, hpos, hn, hne, hcase⟩ := resize_some_nat s s' env new hs'
    have hbound := movesOf_bound s p h new hn
    refine ⟨ha, hpos, hn, hne, ?_⟩
    rcases hcase with ⟨hlt, r, r', h1, _, _⟩ | ⟨hlt, r, r', h1, _, _⟩
    · have e : movesOf s new = growMoves s.count new s.id := by simp [movesOf, hlt]
      rw [e] at hbound ⊢
      exact (applyMoves_isSome_iff _ (growMoves_safe _ _ _) hbound s.ring).mp (by rw [h1]; rfl)
    · have e : movesOf s new = shrinkMoves (if s.id < new then s.id + 1 else 0)
          (if s.id < new then s.count - new else s.id - new + 1) new := by
        have : ¬ s.count < new := by omega
        simp [movesOf, this]
      rw [e] at hbound ⊢
      exact (applyMoves_isSome_iff _ (shrinkMoves_safe _ _ _) hbound s.ring).mp (by rw [h1]; rfl)
  · rintro ⟨ha, hpos, hn, hne, hsrc⟩
    have hbound := movesOf_bound s p h new hn
    rw [updateSnapshotCount_nat]
    have hna : ¬ ((!env.alphabet) = true) := by simp [ha]
    have hk : ¬ ((new : Int) ≤ 0) := by omega
    have hu : ¬ ((new : Int) > 256) := by omega
    rw [if_neg hna, if_neg hk, if_neg hu, if_neg hne]
    by_cases hg : s.count < new
    · rw [if_pos hg]
      have e : movesOf s new = growMoves s.count new s.id := by simp [movesOf, hg]
      rw [e] at hbound hsrc
      obtain ⟨r, hr⟩ := Option.isSome_iff_exists.mp
        ((applyMoves_isSome_iff _ (growMoves_safe _ _ _) hbound s.ring).mpr hsrc)
      rw [hr]
      simp only []
      obtain ⟨r', hr'⟩ := Option.isSome_iff_exists.mp (delSlots_isSome
        (upTo (s.id + 1) (if s.count < s.id + 1 + (new - s.count) then s.count else s.id + 1 + (new - s.count)))
        (by intro k hk'; rw [mem_upTo] at hk'; split at hk' <;> omega) r)
      rw [hr']; rfl
    · rw [if_neg hg]
      have e : movesOf s new = shrinkMoves (if s.id < new then s.id + 1 else 0)
          (if s.id < new then s.count - new else s.id - new + 1) new := by simp [movesOf, hg]
      rw [e] at hbound hsrc
      obtain ⟨r, hr⟩ := Option.isSome_iff_exists.mp
        ((applyMoves_isSome_iff _ (shrinkMoves_safe _ _ _) hbound s.ring).mpr hsrc)
      rw [hr]
      simp only []
      obtain ⟨r', hr'⟩ := Option.isSome_iff_exists.mp (delSlots_isSome (upTo new s.count)
        (by intro k hk'; rw [mem_upTo] at hk'; omega) r)
      rw [hr']; rfl

/-- a ring without holes: every slot below the count holds a (possibly empty) list — true after deployment,
kept by ticks, and restored `new-old` ticks after a grow -/
def Full (s : State) : Prop := ∀ j, j < s.count → (rget s.ring j).isSome = true

theorem full_moves (s : State) (p : Spec) (h : RingInv s p) (hf : Full s) (new : Nat) :
    ∀ m ∈ movesOf s new, (rget s.ring m.1).isSome = true := by
  have hc := h.count_eq
  have hid := h.id_lt
  intro m hm
  apply hf
  unfold movesOf at hm
  split at hm
  · unfold growMoves at hm; simp only [List.mem_map, List.mem_range] at hm
    obtain ⟨i, hi, rfl⟩ := hm; simp only []; omega
  · unfold shrinkMoves at hm; simp only [List.mem_map, mem_upTo] at hm
    obtain ⟨k, hk, rfl⟩ := hm; simp only []
    split <;> split at hk <;> omega

theorem full_init : Full init := by
  have h10 : ∀ j, j < 10 → (rget init.ring j).isSome = true := by decide
  intro j hj; exact h10 j hj

theorem full_tick (s s' : State) (env : Env) (e : Int) (hf : Full s) (ht : newEpoch s env e = some s') : Full s' := by
  obtain ⟨_, _, _, _, rfl⟩ := newEpoch_some s s' env e ht
  intro j hj
  show (rget (rset s.ring ((s.id + 1) % s.count) s.c1) j).isSome = true
  rw [rget_rset]
  split
  · rfl
  · exact hf j hj

end NeoFS.NetmapRing
