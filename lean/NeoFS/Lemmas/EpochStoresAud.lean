import NeoFS.Lemmas.EpochStoresStep
set_option linter.unusedSimpArgs false
set_option linter.unusedVariables false
/-! Audit lemmas (C20): admission, the id set, exact characterisation of the listings, `Get`. -/
namespace NeoFS.EpochStores
open NeoFS

/-- an accepted audit result: parsed header, SHA-256 of the auditor key, the stored blob -/
structure AudPut where
  hdr : AHeader
  h : Bytes
  raw : Bytes

def idA (x : AudPut) : Bytes := auditID x.hdr.epoch x.hdr.cid x.h

/-- **admission**: an audit result is stored only if its header parses, the key in the header is an Inner Ring
member and that key witnesses the transaction; it is stored under `ID(header)` unchanged -/
theorem audPut_spec (s s' : Store Bytes) (env : Env) (ir : List Bytes) (raw h : Bytes)
    (hp : audPut s env ir raw h = some s') :
    ∃ hdr, parseHeader raw = some hdr ∧ hdr.frm ∈ ir ∧ hdr.frm ∈ env.wit ∧ hdr.frm.length = 33 ∧
      (auditID hdr.epoch hdr.cid h).length ≤ maxKeyLen ∧ s' = put s (auditID hdr.epoch hdr.cid h) raw := by
  unfold audPut at hp
  cases hh : parseHeader raw with
  | none => rw [hh] at hp; cases hp
  | some hdr =>
    rw [hh] at hp
    simp only at hp
    cases hw : checkWitnessKey env hdr.frm with
    | none => rw [hw] at hp; cases hp
    | some w =>
      rw [hw] at hp
      simp only at hp
      cases w with
      | false => simp at hp
      | true =>
        by_cases hpr : ir.contains hdr.frm = true
        · simp only [hpr, Bool.not_true, Bool.or_self, Bool.false_eq_true, if_false] at hp
          unfold putK at hp
          split at hp
          · simp only [Option.some.injEq] at hp
            obtain ⟨h33, hwit⟩ := checkWitnessKey_true env _ hw
            exact ⟨hdr, rfl, by simpa using hpr, hwit, h33, by assumption, hp.symm⟩
          · cases hp
        · simp only [hpr, Bool.not_true, Bool.not_false, Bool.false_or, Bool.or_true, if_true] at hp
          first | cases hp | (simp at hpr; simp [hpr] at hp)

def audEntry (s : State) (env : Env) (op : Op) : List AudPut :=
  match op with
  | .aput _ raw h =>
    match step s env op, parseHeader raw with
    | some _, some hdr => [⟨hdr, h, raw⟩]
    | _, _ => []
  | _ => []

/-- the accepted audit puts of a history, oldest first -/
def audLog (s : State) : List (Env × Op) → List AudPut
  | [] => []
  | (env, op) :: rest => audEntry s env op ++ audLog (invoke s env op).1 rest

theorem audEntry_fault (s : State) (env : Env) (op : Op) (h : step s env op = none) : audEntry s env op = [] := by
  unfold audEntry; cases op <;> simp only [h]

theorem audEntry_halt (s s' : State) (env : Env) (op : Op) (r : Ret) (ev : List Event)
    (h : step s env op = some (s', r, ev)) :
    (s'.aud = s.aud ∧ audEntry s env op = []) ∨
    (∃ x ir, op = .aput ir x.raw x.h ∧ parseHeader x.raw = some x.hdr ∧ x.hdr.frm ∈ ir ∧ x.hdr.frm ∈ env.wit ∧
      (idA x).length ≤ maxKeyLen ∧ s'.aud = put s.aud (idA x) x.raw ∧ audEntry s env op = [x]) := by
  by_cases hop : ∃ ir raw hh, op = .aput ir raw hh
  · obtain ⟨ir, raw, hh, rfl⟩ := hop
    right
    rcases step_aud s s' env _ r ev h with h1 | ⟨ir', raw', hh', hop', hp⟩
    · -- cannot happen syntactically, but the disjunction does not say so: read the model again
      have h2 := h
      simp only [step] at h2
      cases hp : audPut s.aud env ir raw hh with
      | none => rw [hp] at h2; cases h2
      | some a =>
        rw [hp] at h2
        simp only [Option.some.injEq, Prod.mk.injEq] at h2
        obtain ⟨hh1, _, _⟩ := h2
        subst hh1
        obtain ⟨hdr, e1, e2, e3, e4, e5, e6⟩ := audPut_spec _ _ _ _ _ _ hp
        refine ⟨⟨hdr, hh, raw⟩, ir, rfl, e1, e2, e3, e5, e6, ?_⟩
        unfold audEntry; simp only [h, e1]
    · cases hop'
      obtain ⟨hdr, e1, e2, e3, e4, e5, e6⟩ := audPut_spec _ _ _ _ _ _ hp
      refine ⟨⟨hdr, hh, raw⟩, ir, rfl, e1, e2, e3, e5, e6, ?_⟩
      unfold audEntry; simp only [h, e1]
  · left
    rcases step_aud s s' env op r ev h with h1 | ⟨ir, raw, hh, hop', _⟩
    · refine ⟨h1, ?_⟩
      unfold audEntry
      cases op <;> first | rfl | (exfalso; exact hop ⟨_, _, _, rfl⟩)
    · exact absurd ⟨ir, raw, hh, hop'⟩ hop

/-- the last blob put under an id -/
def lastRaw (log : List AudPut) (id : Bytes) : Option Bytes :=
  ((log.filter (fun x => decide (idA x = id))).getLast?).map (·.raw)

/-- audit invariant: the stored ids are exactly the ids of the accepted puts, each holding the last blob -/
def AudL (s : Store Bytes) (log : List AudPut) : Prop :=
  Uniq s ∧ (∀ kv ∈ s, ∃ x ∈ log, kv.1 = idA x) ∧ (∀ id, get s id = lastRaw log id)

theorem audL_init : AudL [] [] := ⟨uniq_nil, fun kv h => (by cases h), fun id => (by simp [get, lastRaw])⟩

theorem lastRaw_append (log : List AudPut) (x : AudPut) (id : Bytes) :
    lastRaw (log ++ [x]) id = if idA x = id then some x.raw else lastRaw log id := by
  unfold lastRaw
  rw [List.filter_append]
  by_cases h : idA x = id
  · simp [h, List.filter_cons]
  · simp [h, List.filter_cons]

theorem audL_put (s : Store Bytes) (log : List AudPut) (x : AudPut) (h : AudL s log) :
    AudL (put s (idA x) x.raw) (log ++ [x]) := by
  obtain ⟨hu, h1, h2⟩ := h
  refine ⟨uniq_put s _ _ hu, ?_, ?_⟩
  · intro kv hkv
    rcases (mem_put_iff _ _ _ kv).mp hkv with e | ⟨_, hm⟩
    · exact ⟨x, by simp, by rw [e]⟩
    · obtain ⟨y, hy, e⟩ := h1 kv hm
      exact ⟨y, by simp [hy], e⟩
  · intro id
    rw [lastRaw_append]
    by_cases e : idA x = id
    · subst e; simp only [if_true]; exact get_put_self s _ _
    · simp only [e, if_false]
      rw [get_put_other _ _ _ _ (fun e2 => e e2.symm)]
      exact h2 id

theorem lastRaw_isSome_iff (log : List AudPut) (id : Bytes) : (lastRaw log id).isSome ↔ ∃ x ∈ log, idA x = id := by
  unfold lastRaw
  rw [Option.isSome_map]
  constructor
  · intro h
    cases hf : (log.filter (fun x => decide (idA x = id))).getLast? with
    | none => rw [hf] at h; cases h
    | some y =>
      have hm := List.mem_of_getLast? hf
      rw [List.mem_filter] at hm
      exact ⟨y, hm.1, by simpa using hm.2⟩
  · rintro ⟨x, hx, e⟩
    cases hf : (log.filter (fun x => decide (idA x = id))).getLast? with
    | none =>
      rw [List.getLast?_eq_none_iff] at hf
      have : x ∈ log.filter (fun x => decide (idA x = id)) := by rw [List.mem_filter]; exact ⟨hx, by simpa using e⟩
      rw [hf] at this; cases this
    | some y => rfl

/-- every listing of the Audit contract is a prefix query over the id set:
`Find(p, KeysOnly)` returns exactly the ids of the accepted puts whose bytes begin with `p` -/
theorem mem_audFind (s : Store Bytes) (log : List AudPut) (hl : AudL s log) (p id : Bytes) :
    id ∈ (find s p).map (·.1) ↔ (∃ x ∈ log, idA x = id) ∧ p <+: id := by
  obtain ⟨hu, h1, h2⟩ := hl
  rw [List.mem_map]
  constructor
  · rintro ⟨kv, hkv, rfl⟩
    rw [mem_find_iff] at hkv
    obtain ⟨x, hx, e⟩ := h1 kv hkv.1
    exact ⟨⟨x, hx, e.symm⟩, hkv.2⟩
  · rintro ⟨hx, hp⟩
    have := (lastRaw_isSome_iff log id).mpr hx
    rw [← h2 id] at this
    cases hg : get s id with
    | none => rw [hg] at this; cases this
    | some v =>
      exact ⟨(id, v), by rw [mem_find_iff]; exact ⟨mem_of_get_eq_some s id v hg, hp⟩, rfl⟩

theorem audL_run (hist : List (Env × Op)) (s : State) (log : List AudPut) (h : AudL s.aud log) :
    AudL (run s hist).aud (log ++ audLog s hist) := by
  induction hist generalizing s log with
  | nil => simpa [run, audLog] using h
  | cons x rest ih =>
    obtain ⟨env, op⟩ := x
    simp only [run, audLog]
    rw [← List.append_assoc]
    apply ih
    cases hs : step s env op with
    | none => rw [invoke_fault s env op hs, audEntry_fault s env op hs]; simpa using h
    | some res =>
      obtain ⟨s', r, ev⟩ := res
      rw [invoke_halt s s' env op r ev hs]
      rcases audEntry_halt s s' env op r ev hs with ⟨e1, e2⟩ | ⟨x, ir, _, _, _, _, _, hp, e2⟩
      · rw [e1, e2]; simpa using h
      · rw [e2, hp]; exact audL_put _ _ _ h

/-- every accepted put of a history was admitted: parsed header, Inner Ring membership, witness -/
theorem audLog_admitted (hist : List (Env × Op)) (s : State) :
    ∀ x ∈ audLog s hist, parseHeader x.raw = some x.hdr ∧ (idA x).length ≤ maxKeyLen := by
  induction hist generalizing s with
  | nil => intro x hx; cases hx
  | cons y rest ih =>
    obtain ⟨env, op⟩ := y
    intro x hx
    simp only [audLog, List.mem_append] at hx
    rcases hx with hx | hx
    · cases hs : step s env op with
      | none => rw [audEntry_fault s env op hs] at hx; cases hx
      | some res =>
        obtain ⟨s', r, ev⟩ := res
        rcases audEntry_halt s s' env op r ev hs with ⟨_, e2⟩ | ⟨x', ir, _, h1, _, _, h4, _, e2⟩
        · rw [e2] at hx; cases hx
        · rw [e2] at hx
          simp only [List.mem_singleton] at hx
          subst hx
          exact ⟨h1, h4⟩
    · exact ih _ x hx

end NeoFS.EpochStores
