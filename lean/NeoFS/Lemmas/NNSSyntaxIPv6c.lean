import NeoFS.Lemmas.NNSSyntaxIPv6b
/-! `checkIPv6` answers `true` exactly on the textual global-unicast IPv6 addresses (`Spec.TextIPv6`). -/
namespace NeoFS.NNSSyntax
open NeoFS NeoFS.NNSSyntax.Spec

def castL (v : List Nat) : List Int := v.map (fun n => ((n : Nat) : Int))

theorem vals_eq_castL (gs : List Bytes) : vals gs = castL (gs.map groupVal) := by
  simp [vals, castL, List.map_map, Function.comp_def]

theorem castL_append (a b : List Nat) : castL (a ++ b) = castL a ++ castL b := by simp [castL]

theorem castL_replicate (k : Nat) : castL (List.replicate k 0) = zeros k := by
  simp [castL, zeros]

theorem castL_injective (a b : List Nat) (h : castL a = castL b) : a = b := by
  induction a generalizing b with
  | nil =>
    cases b with
    | nil => rfl
    | cons _ _ => simp [castL] at h
  | cons x r ih =>
    cases b with
    | nil => simp [castL] at h
    | cons y r' =>
      simp only [castL, List.map_cons, List.cons.injEq] at h
      have := ih r' h.2
      rw [this]
      have : x = y := by omega
      rw [this]

theorem getAt_castL (v : List Nat) (i : Nat) : getAt (castL v) i = ((v.getD i 0 : Nat) : Int) := by
  induction v generalizing i with
  | nil => cases i <;> rfl
  | cons x r ih =>
    cases i with
    | zero => rfl
    | succ i => simpa [castL, getAt] using ih i

theorem v6range_iff (v : List Nat) : v6range (castL v) = true ↔ GlobalUnicast6 v := by
  unfold v6range GlobalUnicast6
  simp only [getAt_castL]
  by_cases h1 : ((v.getD 0 0 : Nat) : Int) < 8192 ∨ ((v.getD 0 0 : Nat) : Int) = 8194 ∨
      ((v.getD 0 0 : Nat) : Int) = 16382 ∨ 16383 < ((v.getD 0 0 : Nat) : Int)
  · rw [if_pos h1]
    constructor
    · intro h; cases h
    · rintro ⟨_, _, _, _, _⟩; omega
  · rw [if_neg h1]
    by_cases h2 : ((v.getD 0 0 : Nat) : Int) = 8193
    · rw [if_pos h2]
      by_cases h3 : ((v.getD 1 0 : Nat) : Int) < 512 ∨ ((v.getD 1 0 : Nat) : Int) = 3512
      · rw [if_pos h3]
        constructor
        · intro h; cases h
        · rintro ⟨_, _, _, _, h⟩
          have := h (by omega); omega
      · rw [if_neg h3]
        constructor
        · intro _; refine ⟨by omega, by omega, by omega, by omega, fun _ => by omega⟩
        · intro _; rfl
    · rw [if_neg h2]
      constructor
      · intro _; refine ⟨by omega, by omega, by omega, by omega, fun h => by omega⟩
      · intro _; rfl

/-! ### from fragments back to the text -/

theorem hexGroup_no_colon {g : Bytes} (h : HexGroup g) : 58 ∉ g := by
  intro hm; have := h.2.2 58 hm; unfold HexChar Digit at this; omega

theorem pad_ne_nil (xs : List Bytes) : pad xs ≠ [] := by
  unfold pad; by_cases h : xs = []
  · rw [if_pos h]; simp
  · rw [if_neg h]; exact h

theorem join_pad (sep : Nat) (xs : List Bytes) : join sep (pad xs) = join sep xs := by
  unfold pad; by_cases h : xs = []
  · rw [if_pos h, h]; rfl
  · rw [if_neg h]

theorem join_append_cons (sep : Nat) (xs : List Bytes) (y : Bytes) (ys : List Bytes) (h : xs ≠ []) :
    join sep (xs ++ y :: ys) = join sep xs ++ sep :: join sep (y :: ys) := by
  induction xs with
  | nil => exact absurd rfl h
  | cons x r ih =>
    cases r with
    | nil => rfl
    | cons x' r' =>
      have := ih (by simp)
      simp only [List.cons_append, join] at this ⊢
      rw [this, List.append_assoc]; rfl

theorem join_nil_cons (sep : Nat) (ys : List Bytes) (h : ys ≠ []) : join sep ([] :: ys) = sep :: join sep ys := by
  cases ys with
  | nil => exact absurd rfl h
  | cons y r => rfl

/-- the text with `::` between `as` and `bs` is the join of the padded fragment list -/
theorem join_form2 (as bs : List Bytes) :
    join 58 (pad as ++ [] :: pad bs) = sepJoin 58 as ++ [58, 58] ++ sepJoin 58 bs := by
  rw [join_append_cons 58 _ _ _ (pad_ne_nil as), join_nil_cons 58 _ (pad_ne_nil bs), join_pad, join_pad,
    join_eq_sepJoin, join_eq_sepJoin]
  simp

theorem mem_pad {xs : List Bytes} {g : Bytes} (h : g ∈ pad xs) : g = [] ∨ g ∈ xs := by
  unfold pad at h
  by_cases e : xs = []
  · rw [if_pos e] at h; left; simpa using h
  · rw [if_neg e] at h; exact Or.inr h

theorem length_sepJoin_le (xs : List Bytes) (h : ∀ g ∈ xs, HexGroup g) :
    (sepJoin 58 xs).length ≤ 5 * xs.length := by
  induction xs with
  | nil => simp [sepJoin]
  | cons x r ih =>
    have hx := (h x (by simp)).2.1
    cases r with
    | nil => simp only [sepJoin, List.length_cons, List.length_nil]; omega
    | cons y r' =>
      have := ih (fun g hg => h g (by simp [hg]))
      simp only [sepJoin, List.length_append, List.length_cons] at this ⊢
      omega

theorem length_sepJoin_eight (gs : List Bytes) (h8 : gs.length = 8) (h : ∀ g ∈ gs, HexGroup g) :
    8 ≤ (sepJoin 58 gs).length ∧ (sepJoin 58 gs).length ≤ 39 := by
  match gs, h8 with
  | [a, b, c, d, e, f, g, i], _ =>
    have ha := h a (by simp); have hb := h b (by simp); have hc := h c (by simp); have hd := h d (by simp)
    have he := h e (by simp); have hf := h f (by simp); have hg := h g (by simp); have hi := h i (by simp)
    unfold HexGroup at ha hb hc hd he hf hg hi
    simp only [sepJoin, List.length_append, List.length_cons]
    omega

/-- the fragment-level reading and the character-level reading of an address agree -/
theorem fragsDenote_iff (s : Bytes) (v : List Nat) :
    FragsDenote (split 58 s) (castL v) ↔ Denotes6 s v := by
  unfold FragsDenote Denotes6
  constructor
  · rintro (⟨h8, hG, hv⟩ | ⟨as, bs, hA, hB, hle, hfrs, hv⟩)
    · left
      refine ⟨split 58 s, h8, hG, ?_, ?_⟩
      · rw [← join_eq_sepJoin, join_split]
      · rw [vals_eq_castL] at hv; exact castL_injective _ _ hv
    · right
      refine ⟨as, bs, hA, hB, hle, ?_, ?_⟩
      · rw [← join_form2, ← hfrs, join_split]
      · apply castL_injective
        rw [hv, castL_append, castL_append, castL_replicate, vals_eq_castL, vals_eq_castL]
  · rintro (⟨gs, h8, hG, hs, hv⟩ | ⟨as, bs, hA, hB, hle, hs, hv⟩)
    · left
      have hsp : split 58 s = gs := by
        rw [hs, ← join_eq_sepJoin]
        exact split_join 58 gs (by intro e; rw [e] at h8; simp at h8) (fun g hg => hexGroup_no_colon (hG g hg))
      rw [hsp]
      exact ⟨h8, hG, by rw [hv, vals_eq_castL]⟩
    · right
      refine ⟨as, bs, hA, hB, hle, ?_, ?_⟩
      · rw [hs, ← join_form2]
        apply split_join
        · simp
        · intro g hg
          simp only [List.mem_append, List.mem_cons] at hg
          rcases hg with hg | rfl | hg
          · rcases mem_pad hg with rfl | hg
            · simp
            · exact hexGroup_no_colon (hA g hg)
          · simp
          · rcases mem_pad hg with rfl | hg
            · simp
            · exact hexGroup_no_colon (hB g hg)
      · rw [hv, castL_append, castL_append, castL_replicate, vals_eq_castL, vals_eq_castL]

theorem denotes6_length (s : Bytes) (v : List Nat) (h : Denotes6 s v) : 2 ≤ s.length ∧ s.length ≤ 39 := by
  rcases h with ⟨gs, h8, hG, hs, _⟩ | ⟨as, bs, hA, hB, hle, hs, _⟩
  · have := length_sepJoin_eight gs h8 hG
    rw [hs]; omega
  · have h1 := length_sepJoin_le as hA
    have h2 := length_sepJoin_le bs hB
    rw [hs]; simp only [List.length_append, List.length_cons, List.length_nil]
    omega

theorem fragsDenote_cast (frs : List Bytes) (v' : List Int) (h : FragsDenote frs v') : ∃ v : List Nat, v' = castL v := by
  rcases h with ⟨_, _, hv⟩ | ⟨as, bs, _, _, _, _, hv⟩
  · exact ⟨frs.map groupVal, by rw [hv, vals_eq_castL]⟩
  · refine ⟨as.map groupVal ++ List.replicate (8 - (as.length + bs.length)) 0 ++ bs.map groupVal, ?_⟩
    rw [hv, castL_append, castL_append, castL_replicate, vals_eq_castL, vals_eq_castL]

/-- `checkIPv6` in terms of the loop -/
theorem checkIPv6_true_iff_loop (s : Bytes) :
    checkIPv6 s = some true ↔
      (2 ≤ s.length ∧ s.length ≤ 39) ∧ ∃ v, LoopAccepts (split 58 s) v ∧ v6range v = true := by
  have hz : (List.replicate 8 (0 : Int)) = zeros 8 := rfl
  unfold checkIPv6 LoopAccepts nineOK
  dsimp only
  rw [hz]
  by_cases h1 : s.length < 2 ∨ 39 < s.length
  · rw [if_pos h1]
    constructor
    · intro h; cases h
    · rintro ⟨h, _⟩; omega
  · rw [if_neg h1]
    by_cases h2 : (split 58 s).length < 3 ∨ 9 < (split 58 s).length
    · rw [if_pos h2]
      constructor
      · intro h; cases h
      · rintro ⟨_, v, ⟨h3, h9, _⟩, _⟩; omega
    · rw [if_neg h2]
      by_cases h3 : (split 58 s).length = 9 ∧
          ¬(((split 58 s).getD 0 []).length = 0 ∧ ((split 58 s).getD 1 []).length = 0) ∧
          ¬(((split 58 s).getD 7 []).length = 0 ∧ ((split 58 s).getD 8 []).length = 0)
      · rw [if_pos h3]
        constructor
        · intro h; cases h
        · rintro ⟨_, v, ⟨_, _, hn, _⟩, _⟩; exact absurd h3 hn
      · rw [if_neg h3]
        cases hl : v6loop (split 58 s) (split 58 s).length 0 (split 58 s) ⟨false, zeros 8⟩ with
        | none =>
          constructor
          · intro h; cases h
          · rintro ⟨_, v, ⟨_, _, _, st, h, _⟩, _⟩; cases h
        | some o =>
          cases o with
          | none =>
            constructor
            · intro h; cases h
            · rintro ⟨_, v, ⟨_, _, _, st, h, _⟩, _⟩; cases h
          | some st =>
            dsimp only
            by_cases h4 : (split 58 s).length < 8 ∧ st.hasEmpty = false
            · rw [if_pos h4]
              constructor
              · intro h; cases h
              · rintro ⟨_, v, ⟨_, _, _, st', h, hf, _⟩, _⟩
                have : st' = st := (Option.some.inj (Option.some.inj h)).symm
                rw [this] at hf; exact absurd h4 hf
            · rw [if_neg h4]
              constructor
              · intro h
                refine ⟨by omega, st.nums, ⟨by omega, by omega, h3, st, rfl, h4, rfl⟩, Option.some.inj h⟩
              · rintro ⟨_, v, ⟨_, _, _, st', h, _, hv⟩, hr⟩
                have : st' = st := (Option.some.inj (Option.some.inj h)).symm
                rw [this] at hv; rw [hv, hr]

/-- **checkIPv6 answers true exactly on the textual global-unicast IPv6 addresses** -/
theorem checkIPv6_true_iff (s : Bytes) : checkIPv6 s = some true ↔ TextIPv6 s := by
  rw [checkIPv6_true_iff_loop]
  unfold TextIPv6
  constructor
  · rintro ⟨_, v', hacc, hr⟩
    have hd := (loopAccepts_iff _ _).mp hacc
    obtain ⟨v, rfl⟩ := fragsDenote_cast _ _ hd
    exact ⟨v, (fragsDenote_iff s v).mp hd, (v6range_iff v).mp hr⟩
  · rintro ⟨v, hd, hg⟩
    exact ⟨denotes6_length s v hd, castL v, (loopAccepts_iff _ _).mpr ((fragsDenote_iff s v).mpr hd),
      (v6range_iff v).mpr hg⟩

end NeoFS.NNSSyntax
