/-! Bytes as lists of naturals (each < 256 by construction of the producers), hex I/O,
    and the NeoVM integer ⇄ byte-string conversion used by the contracts. -/
namespace NeoFS

abbrev Bytes := List Nat

def hexVal (c : Char) : Nat :=
  if c.isDigit then c.toNat - '0'.toNat
  else if 'a' ≤ c ∧ c ≤ 'f' then c.toNat - 'a'.toNat + 10
  else if 'A' ≤ c ∧ c ≤ 'F' then c.toNat - 'A'.toNat + 10 else 0

def parseHexChars : List Char → Bytes
  | a :: b :: r => (hexVal a * 16 + hexVal b) :: parseHexChars r
  | _ => []

/-- "-" is the empty byte string -/
def parseHex (s : String) : Bytes := if s == "-" then [] else parseHexChars s.toList

def hexOf (b : Bytes) : String :=
  if b.isEmpty then "-" else
  String.ofList (b.flatMap (fun n => [Nat.digitChar (n / 16), Nat.digitChar (n % 16)]))

/-- little-endian base-256 digits; `fuel` bounds the number of digits -/
def natLE : Nat → Nat → Bytes
  | 0, _ => []
  | f + 1, n => if n = 0 then [] else (n % 256) :: natLE f (n / 256)

/-- exactly `k` little-endian digits -/
def natLEk : Nat → Nat → Bytes
  | 0, _ => []
  | k + 1, n => (n % 256) :: natLEk k (n / 256)

/-- number of base-256 digits of `n` -/
def digits256 : Nat → Nat → Nat
  | 0, _ => 0
  | f + 1, n => if n = 0 then 0 else 1 + digits256 f (n / 256)

/-- NeoVM `bigint.ToBytes` for a non-negative number: minimal little-endian two's complement, `0 ↦ []` -/
def encNat (n : Nat) : Bytes :=
  let d := natLE 40 n
  match d.getLast? with
  | none => []
  | some top => if 128 ≤ top then d ++ [0] else d

/-- smallest `k ≥ 1` with `m ≤ 2^(8k-1)`, searched up to `fuel` -/
def negWidth : Nat → Nat → Nat → Nat
  | 0, k, _ => k
  | f + 1, k, m => if m ≤ 2 ^ (8 * k - 1) then k else negWidth f (k + 1) m

/-- NeoVM integer → bytes (numbers up to 256 bits, as in the VM) -/
def encInt (z : Int) : Bytes :=
  if 0 ≤ z then encNat z.toNat
  else
    let m := (-z).toNat
    let k := negWidth 40 1 m
    natLEk k (2 ^ (8 * k) - m)

def leVal : Bytes → Nat
  | [] => 0
  | b :: r => b + 256 * leVal r

/-- NeoVM bytes → integer (little-endian two's complement) -/
def decInt (b : Bytes) : Int :=
  match b.getLast? with
  | none => 0
  | some top => if 128 ≤ top then (leVal b : Int) - (2 ^ (8 * b.length) : Nat) else (leVal b : Int)

/-- big-endian fixed width -/
def be (k n : Nat) : Bytes := (natLEk k n).reverse

example : encInt 0 = [] := by decide
example : encInt 1 = [1] := by decide
example : encInt 127 = [127] := by decide
example : encInt 128 = [128, 0] := by decide
example : encInt 255 = [255, 0] := by decide
example : encInt 256 = [0, 1] := by decide
example : encInt 257 = [1, 1] := by decide
example : encInt 65535 = [255, 255, 0] := by decide
example : encInt (-1) = [255] := by decide
example : encInt (-128) = [128] := by decide
example : encInt (-129) = [127, 255] := by decide
example : decInt [127, 255] = -129 := by decide
example : decInt [128, 0] = 128 := by decide

end NeoFS
