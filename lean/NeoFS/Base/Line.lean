import NeoFS.Base.Bytes
/-! Line-protocol helpers shared by the drivers (core Lean only, so the drivers link as executables). -/
namespace NeoFS

def words (line : String) : List String :=
  (line.trimAscii.toString.splitOn " ").filter (· ≠ "")

/-- decimal integer with optional sign; malformed input is reported, never defaulted -/
def parseInt? (s : String) : Option Int := s.toInt?

def parseNat? (s : String) : Option Nat := s.toNat?

/-- comma separated list of hex strings; "-" = empty list -/
def parseHexList (s : String) : List Bytes :=
  if s == "-" then [] else (s.splitOn ",").map parseHex

def joinWith (sep : String) (xs : List String) : String := sep.intercalate xs

/-- generic driver loop: `step` consumes one line and returns the new state and the output lines -/
partial def driverLoop {σ : Type} (h : IO.FS.Stream) (out : IO.FS.Stream) (s : σ)
    (step : σ → String → σ × List String) : IO Unit := do
  let line ← h.getLine
  if line.isEmpty then
    out.flush
    return ()
  let (s', outs) := step s line
  for o in outs do
    out.putStrLn o
  driverLoop h out s' step

def runDriver {σ : Type} (init : σ) (step : σ → String → σ × List String) : IO Unit := do
  let stdin ← IO.getStdin
  let stdout ← IO.getStdout
  driverLoop stdin stdout init step

end NeoFS
