import NeoFS.Lemmas.ContainerFinal
set_option linter.unusedSimpArgs false
set_option linter.unusedVariables false
/-! # C05 — Container creation charges exactly the configured fee, atomically

Property theorems only. Model: `NeoFS/Model/Container.lean` (fee pre-check and `transferX` loop of
`PutNamed`, composed with the Balance model `NeoFS/Model/Balance.lean` and the Netmap configuration map).
Quantifier: every configuration (any byte strings under `ContainerFee` / `ContainerAliasFee`, absent ones
included), every committee list of 20-byte accounts (any length, repetitions allowed), every balance sheet,
named and unnamed containers, any state reached before. -/
namespace NeoFS.Props.C05
open NeoFS NeoFS.Container

/-- bridge: the configuration keys are the literals of the property text -/
theorem fee_keys_are_literals :
    feeKey = [67, 111, 110, 116, 97, 105, 110, 101, 114, 70, 101, 101] ∧                          -- "ContainerFee"
    aliasFeeKey = [67, 111, 110, 116, 97, 105, 110, 101, 114, 65, 108, 105, 97, 115, 70, 101, 101] ∧ -- "ContainerAliasFee"
    feeDetails [] = [16] := by decide

/-- the fee of a put is `ContainerFee`, plus `ContainerAliasFee` when a name is given, both read (as NeoVM
integers) from the configuration of the state the invocation starts in -/
theorem fee_is_the_configured_one (s : State) (named : Bool) (fee : Int) :
    putFee s named = some fee ↔
      ∃ f, cfgInt s.cfg feeKey = some f ∧
        (if named then ∃ a, cfgInt s.cfg aliasFeeKey = some a ∧ fee = f + a else fee = f) := by
  unfold putFee
  cases h1 : cfgInt s.cfg feeKey with
  | none => simp
  | some f =>
    cases named with
    | false => simp [eq_comm]
    | true =>
      cases h2 : cfgInt s.cfg aliasFeeKey with
      | none => simp
      | some a => simp [eq_comm]

/-- **put_fee_exact**: a HALTed put / putNamed / putMeta moved exactly `fee` from the owner's account to the
account of every Alphabet node (once per entry of the committee list), i.e. the owner's account changes by
`−N·fee` plus `fee` for every entry that is the owner's own account, every other account by `fee` per entry,
nothing else changes, the supply is untouched, the owner could afford `N·fee`, and the container is stored —
all in the one invocation. -/
theorem put_fee_exact (env : Env) (s s' : State) (cid blob sg pub token name zone : Bytes) (mt : Option Bool)
    (r : Ret) (ev : List Ev) (hA : ∀ a, a ∈ env.alphabet → a.length = 20)
    (h : invoke env s (.put cid blob sg pub token name zone mt) = (s', .ok (r, ev))) :
    ∃ owner fee,
      ownerOf blob = some owner ∧ putFee s (decide (name ≠ [])) = some fee ∧
      (∀ a, (Balance.getAcc s'.bal.accts a).bal =
            (Balance.getAcc s.bal.accts a).bal
              - (if a = walletToScriptHash owner then fee * (env.alphabet.length : Int) else 0)
              + fee * (List.count a env.alphabet : Int)) ∧
      s'.bal.supply = s.bal.supply ∧
      fee * (env.alphabet.length : Int) ≤ (Balance.getAcc s.bal.accts (walletToScriptHash owner)).bal ∧
      (env.alphabet ≠ [] → 0 ≤ fee) ∧
      AL.get s'.x cid = some ⟨blob, sg, pub, token⟩ ∧ s'.cfg = s.cfg := by
  have hst := invoke_ok h
  simp only [step] at hst
  split at hst
  · cases hst
  · rename_i s2 ev2 h2
    cases hst
    obtain ⟨owner, fee, b', bev, needReg, hp⟩ := putStep_ok h2
    obtain ⟨fx, _, _, _, _, fb, fc, _⟩ := put_fields hp
    have hfrm : (walletToScriptHash owner).length = 20 :=
      walletToScriptHash_length owner (ownerOf_length _ _ hp.hOwner)
    obtain ⟨hs, h0, hb⟩ := payFees_bal (env := env) (fee := fee) (det := feeDetails cid) hfrm env.alphabet (s.bal, []) (b', bev) hA hp.hPay
    refine ⟨owner, fee, hp.hOwner, hp.hFee, ?_, ?_, ?_, h0, ?_, fc⟩
    · intro a; rw [fb]; exact hb a
    · rw [fb]; exact hs
    · have := hp.hBal; omega
    · rw [fx]; exact AL.get_put_self _ _ _

/-- the same for a committee list without repetitions (as `neo.GetCommittee` returns it): the owner pays
`N·fee` and gets `fee` back if its account is an Alphabet node's account; each Alphabet account gets `fee` -/
theorem put_fee_exact_nodup (env : Env) (s s' : State) (cid blob sg pub token name zone : Bytes) (mt : Option Bool)
    (r : Ret) (ev : List Ev) (hA : ∀ a, a ∈ env.alphabet → a.length = 20) (hN : env.alphabet.Nodup)
    (h : invoke env s (.put cid blob sg pub token name zone mt) = (s', .ok (r, ev))) :
    ∃ owner fee,
      ownerOf blob = some owner ∧ putFee s (decide (name ≠ [])) = some fee ∧
      ∀ a, (Balance.getAcc s'.bal.accts a).bal =
            (Balance.getAcc s.bal.accts a).bal
              - (if a = walletToScriptHash owner then fee * (env.alphabet.length : Int) else 0)
              + (if a ∈ env.alphabet then fee else 0) := by
  obtain ⟨owner, fee, h1, h2, h3, _⟩ := put_fee_exact env s s' cid blob sg pub token name zone mt r ev hA h
  refine ⟨owner, fee, h1, h2, fun a => ?_⟩
  rw [h3 a, List.Nodup.count hN]
  by_cases e : a ∈ env.alphabet <;> simp [e]

/-- **underfunded ⇒ FAULT ⇒ nothing changes**: if the owner's balance is below `N·fee` the invocation FAULTs
and the state (balances, registry, NNS, configuration) is the one before. -/
theorem put_underfunded_faults (env : Env) (s : State) (cid blob sg pub token name zone : Bytes) (mt : Option Bool)
    (owner : Bytes) (fee : Int) (hO : ownerOf blob = some owner) (hF : putFee s (decide (name ≠ [])) = some fee)
    (hB : (Balance.getAcc s.bal.accts (walletToScriptHash owner)).bal < fee * (env.alphabet.length : Int)) :
    ∃ e, invoke env s (.put cid blob sg pub token name zone mt) = (s, .error e) := by
  cases hst : putStep env s cid blob sg pub token name zone mt with
  | error e => exact ⟨e, by simp [invoke, step, hst]⟩
  | ok x =>
    obtain ⟨s', ev⟩ := x
    obtain ⟨owner', fee', _, _, _, hp⟩ := putStep_ok hst
    have e1 : owner' = owner := by have := hp.hOwner; rw [hO] at this; exact (Option.some.inj this).symm
    have e2 : fee' = fee := by have := hp.hFee; rw [hF] at this; exact (Option.some.inj this).symm
    subst e1; subst e2
    exact absurd hB hp.hBal

/-- a fee that is not configured (or does not decode) also makes the put FAULT -/
theorem put_unconfigured_faults (env : Env) (s : State) (cid blob sg pub token name zone : Bytes) (mt : Option Bool)
    (hF : putFee s (decide (name ≠ [])) = none) :
    ∃ e, invoke env s (.put cid blob sg pub token name zone mt) = (s, .error e) := by
  cases hst : putStep env s cid blob sg pub token name zone mt with
  | error e => exact ⟨e, by simp [invoke, step, hst]⟩
  | ok x =>
    obtain ⟨s', ev⟩ := x
    obtain ⟨_, fee', _, _, _, hp⟩ := putStep_ok hst
    have := hp.hFee; rw [hF] at this; cases this

/-- **atomicity**: whatever makes an invocation FAULT (insufficient balance, a failing transfer in the middle
of the loop, a taken name, a bad key after the payment, …) the state afterwards is the state before. -/
theorem fault_changes_nothing (env : Env) (s : State) (op : Op) (e : Fault) (h : (invoke env s op).2 = .error e) :
    (invoke env s op).1 = s := by
  unfold invoke at *
  split at h
  · rfl
  · cases h

/-- a configuration change takes effect for the next put: after a HALTed `setConfig(key, val)` the value
read for `key` is `val` as a NeoVM integer, every other key reads as before -/
theorem config_change_takes_effect (env : Env) (s s' : State) (key val : Bytes) (r : Ret) (ev : List Ev)
    (h : invoke env s (.setcfg key val) = (s', .ok (r, ev))) :
    cfgInt s'.cfg key = (if val.length ≤ 32 then some (decInt val) else none) ∧
    (∀ k, k ≠ key → cfgInt s'.cfg k = cfgInt s.cfg k) ∧ s'.bal = s.bal ∧ s'.x = s.x := by
  have hst := invoke_ok h
  simp only [step] at hst
  split at hst
  · cases hst
  · cases hst
    refine ⟨by simp [cfgInt, AL.get_put_self], fun k hk => by simp [cfgInt, AL.get_put_ne _ _ _ _ hk], rfl, rfl⟩

/-- only registration charges: delete and setEACL leave every balance and the supply alone -/
theorem delete_and_setEACL_do_not_charge (env : Env) (s s' : State) (op : Op) (r : Ret) (ev : List Ev)
    (hop : (∃ cid sg token, op = .delete cid sg token) ∨ (∃ t sg pub token, op = .setEACL t sg pub token))
    (h : invoke env s op = (s', .ok (r, ev))) : s'.bal = s.bal := by
  have hst := invoke_ok h
  rcases hop with ⟨cid, sg, token, rfl⟩ | ⟨t, sg, pub, token, rfl⟩
  · simp only [step] at hst
    split at hst
    · cases hst
    · rename_i s2 ev2 h2
      cases hst
      rcases deleteStep_ok h2 with ⟨_, rfl, _⟩ | ⟨c0, owner, s1, hd⟩
      · rfl
      · exact (del_fields hd).2.2.2.2.2.1
  · simp only [step] at hst
    split at hst
    · cases hst
    · rename_i s2 ev2 h2
      cases hst
      obtain ⟨cid, c, _, _, _, _, rfl, _⟩ := setEACLStep_ok h2
      rfl

/-! ### non-vacuity -/
section demo

def own : Bytes := 53 :: List.replicate 20 5 ++ [1, 2, 3, 4]
def acct : Bytes := List.replicate 20 5
def blob1 : Bytes := [10, 0, 9, 9, 9, 9] ++ own
def cid1 : Bytes := List.replicate 32 1
def pubk : Bytes := List.replicate 33 3
def alphaA : Bytes := List.replicate 20 7
def n1 : Bytes := List.replicate 20 11
/-- three Alphabet nodes, one of them is the owner's own account -/
def env0 : Env := ⟨List.replicate 20 9, alphaA, List.replicate 20 8, [n1, acct, List.replicate 20 12],
  Generated.container_nnsDefaultTLD_bytes, [alphaA]⟩
def pre (bal : Int) : State :=
  run (init [Generated.container_nnsDefaultTLD_bytes])
    [(env0, .setcfg feeKey [100]), (env0, .setcfg aliasFeeKey [50]), (env0, .bal (.mint acct bal []))]

def balOf (s : State) (a : Bytes) : Int := (Balance.getAcc s.bal.accts a).bal

example : ∀ a, a ∈ env0.alphabet → a.length = 20 := by decide
-- unnamed: fee 100 × 3 nodes; the owner is node 2, so it pays 300 and receives 100
example : balOf (invoke env0 (pre 300) (.put cid1 blob1 [1] pubk [4] [] [] none)).1 acct = 100 := by decide
example : balOf (invoke env0 (pre 300) (.put cid1 blob1 [1] pubk [4] [] [] none)).1 n1 = 100 := by decide
-- one unit short: FAULT, nothing moved, nothing stored
example : (invoke env0 (pre 299) (.put cid1 blob1 [1] pubk [4] [] [] none)).2.toOption = none := by decide
example : balOf (invoke env0 (pre 299) (.put cid1 blob1 [1] pubk [4] [] [] none)).1 acct = 299 := by decide
example : AL.get (invoke env0 (pre 299) (.put cid1 blob1 [1] pubk [4] [] [] none)).1.x cid1 = none := by decide
-- named: (100 + 50) × 3 = 450
example : balOf (invoke env0 (pre 450) (.put cid1 blob1 [1] pubk [4] [97, 97, 97] [] none)).1 acct = 150 := by decide
example : (invoke env0 (pre 449) (.put cid1 blob1 [1] pubk [4] [97, 97, 97] [] none)).2.toOption = none := by decide
-- a failure after the payment (33-byte key required) rolls the payment back
example : balOf (invoke env0 (pre 300) (.put cid1 blob1 [1] [1, 2] [4] [] [] none)).1 acct = 300 := by decide

end demo

end NeoFS.Props.C05
