import NeoFS.Lemmas.Netmap
import NeoFS.Generated.Consts
import NeoFS.Generated.Footprint
/-! # C06 — Netmap tick: growing epoch, atomic candidate publication, subscriber fan-out

Property theorems only. Model: `NeoFS/Model/Netmap.lean`; specifications in the property's vocabulary:
`NeoFS/Lemmas/NetmapSpec.lean` (`Spec.epochStep`, `Spec.subStep`, `Spec.tickRun`); lemmas:
`NeoFS/Lemmas/Netmap.lean`. Every statement quantifies over ALL histories `hist` (any mix of candidate
requests, subscriptions and ticks with arbitrary arguments, environments and signer sets) from the deployed
state `init`; `Env.accepts` is an arbitrary description of which subscriber rejects which call.

One part of the statement is false of the code (and of the model) for epochs that do not fit four bytes:
`structured_publication_wraps_at_2pow32` is the kernel-checked witness, `tick_publishes_structured` carries
the hypothesis `e < 2^32` explicitly. -/
namespace NeoFS.Props.C06
open NeoFS NeoFS.Netmap

/-- all states reachable from the deployed contract satisfy the invariant the other theorems rest on -/
theorem reachable_inv (hist : List (Env × Op)) : Inv (run init hist) := inv_run hist inv_init

/-! ### success condition; a failed call changes nothing; the epoch only grows -/

/-- `newEpoch(e)` succeeds iff it is Alphabet-witnessed, `e` exceeds the current epoch and no subscriber
rejects the call. -/
theorem newEpoch_halts_iff (hist : List (Env × Op)) (env : Env) (e : Int) :
    (step (run init hist) env (.newEpoch e)).isSome = true ↔
      env.alphabet = true ∧ (run init hist).epoch < e ∧
      ∀ h ∈ subscribers (run init hist), env.accepts h e = true := by
  have hi := reachable_inv hist
  exact newEpoch_isSome_iff _ env e (by have := hi.count; omega)

/-- otherwise nothing changes (any method, any state): a FAULTed invocation leaves the state as it was -/
theorem failed_invocation_changes_nothing (s : State) (env : Env) (op : Op) (h : step s env op = none) :
    invoke s env op = (s, none) := by
  unfold invoke; rw [h]

/-- the epoch counter and the subscriber list after any history are exactly what the property's reading
computes: a tick counts iff Alphabet ∧ e > current ∧ nobody rejects, nothing else moves the counter -/
theorem epoch_and_subscribers_follow_spec (hist : List (Env × Op)) :
    ((run init hist).epoch, subscribers (run init hist)) = Spec.tickRun (0, []) hist :=
  tick_run inv_init hist

/-- the epoch counter only grows: along every history, every later state has an epoch ≥ every earlier one -/
theorem epoch_monotone (h1 h2 : List (Env × Op)) : (run init h1).epoch ≤ (run init (h1 ++ h2)).epoch := by
  rw [run_append]; exact epoch_run_mono (reachable_inv h1) h2

/-- one invocation: the epoch changes only by a successful tick, and then to the tick's argument, which exceeds it -/
theorem epoch_changes_only_by_tick (hist : List (Env × Op)) (env : Env) (op : Op)
    (h : (invoke (run init hist) env op).1.epoch ≠ (run init hist).epoch) :
    ∃ e, op = .newEpoch e ∧ (run init hist).epoch < e ∧ (invoke (run init hist) env op).1.epoch = e := by
  have hi := reachable_inv hist
  rw [epoch_step _ env op (by have := hi.count; omega)] at h ⊢
  cases op with
  | newEpoch e =>
    refine ⟨e, rfl, ?_⟩
    simp only [Spec.epochStep] at h ⊢
    by_cases hc : (env.alphabet && decide ((run init hist).epoch < e) &&
        (subscribers (run init hist)).all (fun x => env.accepts x e)) = true
    · rw [if_pos hc]
      simp only [Bool.and_eq_true, decide_eq_true_eq] at hc
      exact ⟨hc.1.2, rfl⟩
    · rw [if_neg hc] at h; exact absurd rfl h
  | _ => exact absurd rfl h

example : (step init ⟨true, [], 7, fun _ => true, fun _ _ => true⟩ (.newEpoch 1)).isSome = true := by decide
example : (step init ⟨true, [], 7, fun _ => true, fun _ _ => true⟩ (.newEpoch 0)).isSome = false := by decide
example : (step init ⟨false, [], 7, fun _ => true, fun _ _ => true⟩ (.newEpoch 1)).isSome = false := by decide

/-! ### a successful tick publishes the candidate set in both formats, atomically -/

/-- the new epoch and the tick height are recorded -/
theorem tick_records_epoch_and_height (hist : List (Env × Op)) (env : Env) (e : Int) (r : Halt)
    (h : step (run init hist) env (.newEpoch e) = some r) : r.1.epoch = e ∧ r.1.block = env.height := by
  simp only [step] at h
  obtain ⟨_, _, _, _, hr⟩ := newEpoch_some h
  rw [hr]; exact ⟨rfl, rfl⟩

/-- legacy format: the new network map is the list of all non-offline legacy candidates — which, along every
history, is the whole legacy candidate list (no stored candidate is ever Offline) -/
theorem tick_publishes_legacy (hist : List (Env × Op)) (env : Env) (e : Int) (r : Halt)
    (h : step (run init hist) env (.newEpoch e) = some r) :
    netmap r.1 = (netmapCandidates (run init hist)).filter (fun n => n.state != 2) ∧
    netmap r.1 = netmapCandidates (run init hist) := by
  simp only [step] at h
  obtain ⟨_, _, _, _, hr⟩ := newEpoch_some h
  rw [hr, tick_netmap]
  refine ⟨rfl, filterNetmap_all (reachable_inv hist).cands ?_⟩
  rw [abs_run, abs_init]; exact candWF_run candWF_empty hist

/-- structured format: the node list of epoch `e` (and hence the current one) is exactly the structured
candidate list, for every epoch that fits the four key bytes -/
theorem tick_publishes_structured (hist : List (Env × Op)) (env : Env) (e : Int) (r : Halt)
    (hb : e < 4294967296) (h : step (run init hist) env (.newEpoch e) = some r) :
    listNodesEpoch r.1 e = listCandidates (run init hist) ∧ listNodes r.1 = listCandidates (run init hist) := by
  simp only [step] at h
  obtain ⟨_, he, _, _, hr⟩ := newEpoch_some h
  have := tick_listNodes env e (reachable_inv hist) he hb
  rw [hr]; exact ⟨this, this⟩

/-- the full statement (no bound on `e`) is false: after `addNode A; tick 1; deleteNode A; addNode B`, the tick
`2^32 + 1` publishes under the key prefix of epoch 1 and the stale record of `A` is listed again.
(`fourBytesBE` keeps the low 32 bits; the same input on the real contract: corpus/C06/epoch-wrap-2pow32.ops.) -/
theorem structured_publication_wraps_at_2pow32 :
    ∃ (hist : List (Env × Op)) (env : Env) (e : Int) (r : Halt),
      step (run init hist) env (.newEpoch e) = some r ∧
      (listNodesEpoch r.1 e).length = 2 ∧ (listCandidates (run init hist)).length = 1 := by
  let a : Key := List.replicate 33 1
  let b : Key := List.replicate 33 2
  let env : Env := ⟨true, [a, b], 5, fun _ => true, fun _ _ => true⟩
  refine ⟨[(env, .addNode ⟨[], [], a, 1⟩), (env, .newEpoch 1), (env, .deleteNode a), (env, .addNode ⟨[], [], b, 1⟩)],
    env, 4294967297, _, rfl, ?_, ?_⟩ <;> decide

/-- the candidate set itself is left unchanged by a tick, in both formats -/
theorem tick_keeps_candidates (hist : List (Env × Op)) (env : Env) (e : Int) (r : Halt)
    (h : step (run init hist) env (.newEpoch e) = some r) :
    netmapCandidates r.1 = netmapCandidates (run init hist) ∧ listCandidates r.1 = listCandidates (run init hist) := by
  simp only [step] at h
  obtain ⟨_, _, _, _, hr⟩ := newEpoch_some h
  rw [hr]; exact ⟨rfl, rfl⟩

example :
    let a : Key := List.replicate 33 1
    let env : Env := ⟨true, [a], 9, fun _ => true, fun _ _ => true⟩
    let blob : Bytes := [0, 0] ++ a ++ [7]
    let s := run init [(env, .addPeer blob), (env, .addNode ⟨[[97]], [([65], [49])], a, 1⟩)]
    (step s env (.newEpoch 3)).map (fun r => (netmap r.1, listNodes r.1, r.1.epoch, r.1.block)) =
      some ([⟨blob, 1⟩], [⟨[[97]], [([65], [49])], a, 1⟩], 3, 9) := by decide

/-! ### fan-out: every subscribed contract exactly once, in subscription order -/

/-- the subscriber list is the subscription order of the property's reading: a contract enters at the end
when its (acceptable) subscription is the first one, and only then -/
theorem subscribers_in_subscription_order (hist : List (Env × Op)) :
    subscribers (run init hist) = Spec.subRun [] hist ∧ (subscribers (run init hist)).Nodup :=
  ⟨subscribers_run inv_init hist, (reachable_inv hist).subsNodup⟩

/-- a successful tick calls `newEpoch(e)` on every subscribed contract, exactly once each (the list has no
duplicates), in subscription order, and then announces the epoch -/
theorem tick_fanout (hist : List (Env × Op)) (env : Env) (e : Int) (r : Halt)
    (h : step (run init hist) env (.newEpoch e) = some r) :
    r.2 = (Spec.subRun [] hist).map (fun c => Event.called c e) ++ [.newEpoch e] ∧ (Spec.subRun [] hist).Nodup := by
  have hs := subscribers_in_subscription_order hist
  simp only [step] at h
  obtain ⟨_, _, _, _, hr⟩ := newEpoch_some h
  rw [hr, ← hs.1]; exact ⟨rfl, hs.2⟩

/-- subscribing twice has no additional effect: once a contract is subscribed, any further subscription of
it (by anybody, at any time later in the history) leaves the state untouched and announces nothing -/
theorem subscribe_idempotent (hist : List (Env × Op)) (env : Env) (c : Hash)
    (hc : c ∈ subscribers (run init hist)) :
    invoke (run init hist) env (.subscribe c) = (run init hist, some []) ∨
    invoke (run init hist) env (.subscribe c) = (run init hist, none) := by
  unfold invoke
  simp only [step]
  rw [subscribe_eq]
  by_cases h0 : Spec.subOk env c = true
  · rw [if_pos h0, if_pos (List.contains_iff_mem.mpr hc)]; exact Or.inl rfl
  · rw [if_neg h0]; exact Or.inr rfl

/-- … in particular right after the first subscription -/
theorem subscribe_twice (hist : List (Env × Op)) (env env' : Env) (c : Hash) (r : Halt)
    (h : step (run init hist) env (.subscribe c) = some r) :
    (invoke r.1 env' (.subscribe c)).1 = r.1 := by
  have e : r.1 = run init (hist ++ [(env, .subscribe c)]) := by
    rw [run_append]; simp only [run, invoke, h]
  have hm : c ∈ subscribers r.1 := by
    have hs := subscribers_step env (.subscribe c) (reachable_inv hist)
    simp only [invoke, h] at hs
    rw [hs]
    simp only [step] at h
    rw [subscribe_eq] at h
    simp only [Spec.subStep]
    by_cases h0 : Spec.subOk env c = true
    · rw [if_pos h0] at h
      by_cases h1 : (subscribers (run init hist)).contains c = true
      · have := List.contains_iff_mem.mp h1
        simp [this]
      · rw [if_neg h1] at h
        by_cases h2 : (subscribers (run init hist)).length ≥ 256
        · rw [if_pos h2] at h; cases h
        · have hlt : (subscribers (run init hist)).length < 256 := by omega
          have hm : c ∉ subscribers (run init hist) := fun m => h1 (List.contains_iff_mem.mpr m)
          simp [h0, hm, hlt]
    · rw [if_neg h0] at h; cases h
  rw [e] at hm ⊢
  rcases subscribe_idempotent (hist ++ [(env, .subscribe c)]) env' c hm with h | h <;> rw [h]

example :
    let p : Hash := List.replicate 20 1
    let q : Hash := List.replicate 20 2
    let env : Env := ⟨true, [], 4, fun _ => true, fun _ _ => true⟩
    let s := run init [(env, .subscribe q), (env, .subscribe p), (env, .subscribe q)]
    (step s env (.newEpoch 5)).map (·.2) = some [.called q 5, .called p 5, .newEpoch 5] := by decide

example :
    let p : Hash := List.replicate 20 1
    let env : Env := ⟨true, [], 4, fun _ => true, fun h _ => h != p⟩
    (step (run init [(env, .subscribe p)]) env (.newEpoch 5)).isSome = false := by decide

/-! ### further roots: the deployment whose snapshot count was changed once, before anything else

`UpdateSnapshotCount(k)` is legal for `0 < k ≤ 256`, `k ≠ DefaultSnapshotCount`. Called on the untouched deployment it leaves
the state `initWith k` (count `k`, current id 0, the slots `initSlots k`, everything else as deployed; observed on the raw
storage for `k ∈ {1, 2, 255, 256}`). The statements above hold for every history from every such root — for every positive
`k`, so the bound 256 is not even needed. The snapshot count matters to the tick: `dropNetmap(e - count)` runs only when
`e > count`; without that guard a tick `e ∈ 128..255` at count 256 would delete the map it has just written, because the
four key bytes of the negative epoch `e - 256` are those of `e` (`be4_of_negative_collides`). -/

/-- the new roots contain the old one -/
theorem default_count_root_is_deployment : initWith 10 = init := initWith_default

/-- all states reachable from a once-resized deployment satisfy the invariant -/
theorem reachable_inv_resized (k : Nat) (hk : 0 < k) (hist : List (Env × Op)) : Inv (run (initWith k) hist) :=
  inv_run hist (inv_initWith k hk)

/-- success condition of a tick, from every root -/
theorem newEpoch_halts_iff_resized (k : Nat) (hk : 0 < k) (hist : List (Env × Op)) (env : Env) (e : Int) :
    (step (run (initWith k) hist) env (.newEpoch e)).isSome = true ↔
      env.alphabet = true ∧ (run (initWith k) hist).epoch < e ∧
      ∀ h ∈ subscribers (run (initWith k) hist), env.accepts h e = true := by
  have hi := reachable_inv_resized k hk hist
  exact newEpoch_isSome_iff _ env e (by have := hi.count; omega)

/-- epoch counter and subscriber list follow the specification's fold, from every root -/
theorem epoch_and_subscribers_follow_spec_resized (k : Nat) (hk : 0 < k) (hist : List (Env × Op)) :
    ((run (initWith k) hist).epoch, subscribers (run (initWith k) hist)) = Spec.tickRun (0, []) hist :=
  tick_run (inv_initWith k hk) hist

/-- legacy publication, from every root: `netmap()` after a successful tick = the non-offline (= all) legacy candidates -/
theorem tick_publishes_legacy_resized (k : Nat) (hk : 0 < k) (hist : List (Env × Op)) (env : Env) (e : Int) (r : Halt)
    (h : step (run (initWith k) hist) env (.newEpoch e) = some r) :
    netmap r.1 = (netmapCandidates (run (initWith k) hist)).filter (fun n => n.state != 2) ∧
    netmap r.1 = netmapCandidates (run (initWith k) hist) := by
  simp only [step] at h
  obtain ⟨_, _, _, _, hr⟩ := newEpoch_some h
  rw [hr, tick_netmap]
  refine ⟨rfl, filterNetmap_all (reachable_inv_resized k hk hist).cands ?_⟩
  rw [abs_run, abs_initWith]; exact candWF_run candWF_empty hist

/-- structured publication, from every root (any positive snapshot count, in particular 256 with `e` in 128..255):
`listNodes(e)` = `listNodes()` = the structured candidates before the tick, for `e < 2^32` -/
theorem tick_publishes_structured_resized (k : Nat) (hk : 0 < k) (hist : List (Env × Op)) (env : Env) (e : Int) (r : Halt)
    (hb : e < 4294967296) (h : step (run (initWith k) hist) env (.newEpoch e) = some r) :
    listNodesEpoch r.1 e = listCandidates (run (initWith k) hist) ∧
    listNodes r.1 = listCandidates (run (initWith k) hist) := by
  simp only [step] at h
  obtain ⟨_, he, _, _, hr⟩ := newEpoch_some h
  have := tick_listNodes env e (reachable_inv_resized k hk hist) he hb
  rw [hr]; exact ⟨this, this⟩

/-- fan-out, from every root -/
theorem tick_fanout_resized (k : Nat) (hk : 0 < k) (hist : List (Env × Op)) (env : Env) (e : Int) (r : Halt)
    (h : step (run (initWith k) hist) env (.newEpoch e) = some r) :
    r.2 = (Spec.subRun [] hist).map (fun c => Event.called c e) ++ [.newEpoch e] ∧ (Spec.subRun [] hist).Nodup := by
  have hi := inv_initWith k hk
  have hs : subscribers (run (initWith k) hist) = Spec.subRun [] hist := subscribers_run hi hist
  simp only [step] at h
  obtain ⟨_, _, _, _, hr⟩ := newEpoch_some h
  rw [hr, ← hs]; exact ⟨rfl, (reachable_inv_resized k hk hist).subsNodup⟩

/-- why the guard `e > count` before `dropNetmap(e - count)` is part of the publication: the key prefix of the negative
epoch `e - 256` is the prefix of `e` itself for every `e` in 128..255 -/
theorem be4_of_negative_collides :
    (List.range' 128 128).all (fun e => be4 ((e : Int) - 256) == be4 (e : Int)) = true ∧
    be4 (127 - 256) ≠ be4 127 ∧ be4 (256 - 256) ≠ be4 256 := by decide

example : initSlots 256 = [0, 247, 248, 249, 250, 251, 252, 253, 254, 255] ∧ initSlots 255 = [0, 246, 247, 248, 249, 250, 251, 252, 253, 254]
    ∧ initSlots 2 = [0, 1] ∧ initSlots 1 = [0] ∧ initSlots 11 = [0, 2, 3, 4, 5, 6, 7, 8, 9, 10] := by decide

example :
    let a : Key := List.replicate 33 1
    let env : Env := ⟨true, [a], 9, fun _ => true, fun _ _ => true⟩
    let blob : Bytes := [0, 0] ++ a ++ [7]
    let s := run (initWith 256) [(env, .addPeer blob), (env, .addNode ⟨[[97]], [([65], [49])], a, 1⟩), (env, .newEpoch 127)]
    (step s env (.newEpoch 128)).map (fun r => (netmap r.1, listNodes r.1, listNodesEpoch r.1 127, r.1.epoch, r.1.curId, r.1.count)) =
      some ([⟨blob, 1⟩], [⟨[[97]], [([65], [49])], a, 1⟩], [⟨[[97]], [([65], [49])], a, 1⟩], 128, 2, 256) := by decide

/-! ## Frame of the model, regenerated: what a tick can write

Checked by kernel evaluation over `NeoFS.Generated.Footprint.table` (grouped by contract: `contracts`), the MAY-WRITE footprint recomputed from the Go sources on
every run (`extract footprint`; `Model/Footprint.lean`). -/
section Footprint
open NeoFS.Footprint NeoFS.Generated.Footprint

def fpEpochKey : Fam := exactly NeoFS.Generated.netmap_snapshotEpoch_bytes
def fpBlockKey : Fam := exactly NeoFS.Generated.netmap_snapshotBlockKey_bytes
def fpCandidates : Fam := startingWith NeoFS.Generated.netmap_candidatePrefix_bytes
def fpCandidates2 : Fam := startingWith NeoFS.Generated.netmap_node2CandidatePrefix_bytes
def fpNetmap2 : Fam := startingWith NeoFS.Generated.netmap_node2NetmapPrefix_bytes
def fpSubscribers : Fam := startingWith NeoFS.Generated.netmap_newEpochSubscribersPrefix_bytes

/-- "the epoch counter only grows" rests on: the epoch key and the tick height are written by `newEpoch` (and at deployment)
only, and nobody deletes them. -/
theorem epoch_and_tick_height_written_only_by_newEpoch :
    onlyBy contracts "netmap" "put" fpEpochKey ["newEpoch", "_deploy"] = true ∧
    onlyBy contracts "netmap" "put" fpBlockKey ["newEpoch", "_deploy"] = true ∧
    onlyBy contracts "netmap" "delete" fpEpochKey [] = true ∧ onlyBy contracts "netmap" "delete" fpBlockKey [] = true := by decide +kernel

/-- "leaves the candidate set itself unchanged": no storage write of `newEpoch` can concern a candidate key of either format. -/
theorem newEpoch_never_writes_a_candidate : touchesNone contracts "netmap" "newEpoch" [fpCandidates, fpCandidates2] = true := by
  decide +kernel

/-- The structured network map of an epoch is published by `newEpoch` only. -/
theorem structured_netmap_published_only_by_newEpoch : onlyBy contracts "netmap" "put" fpNetmap2 ["newEpoch"] = true := by decide +kernel

/-- Subscriptions are added by `subscribeForNewEpoch` (and by the upgrade migration) only, nobody removes one; `newEpoch` is the
only method that calls `newEpoch` of another contract, and the only one that emits `NewEpoch`. -/
theorem subscribers_written_only_by_subscribe_and_ticked_only_by_newEpoch :
    onlyBy contracts "netmap" "put" fpSubscribers ["subscribeForNewEpoch", "_deploy"] = true ∧
    onlyBy contracts "netmap" "delete" fpSubscribers [] = true ∧
    namedOnlyBy contracts "netmap" "call" "newEpoch" ["newEpoch"] = true ∧
    namedOnlyBy contracts "netmap" "notify" "NewEpoch" ["newEpoch"] = true := by decide +kernel

example : does contracts "netmap" "newEpoch" "put" fpEpochKey = true ∧ does contracts "netmap" "newEpoch" "put" fpBlockKey = true ∧
    does contracts "netmap" "newEpoch" "put" fpNetmap2 = true ∧ does contracts "netmap" "subscribeForNewEpoch" "put" fpSubscribers = true ∧
    named contracts "netmap" "newEpoch" "call" "newEpoch" = true := by decide +kernel
example : touchesNone (withRow contracts ⟨"netmap", "newEpoch", "delete", "", "", NeoFS.Generated.netmap_candidatePrefix_bytes ++ [1], false⟩)
    "netmap" "newEpoch" [fpCandidates, fpCandidates2] = false := by decide +kernel
end Footprint

end NeoFS.Props.C06
