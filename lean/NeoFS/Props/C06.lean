import NeoFS.Lemmas.Netmap
/-! # C06 — Netmap tick: growing epoch, atomic candidate publication, subscriber fan-out

Property theorems only. Model: `NeoFS/Model/Netmap.lean`; specifications in the property's vocabulary:
`NeoFS/Lemmas/NetmapSpec.lean` (`Spec.epochStep`, `Spec.subStep`, `Spec.tickRun`); lemmas:
`NeoFS/Lemmas/Netmap.lean`. Every statement quantifies over ALL histories `hist` (any mix of candidate
requests, subscriptions and ticks with arbitrary arguments, environments and signer sets) from the deployed
state `init`; `Env.accepts` is an arbitrary description of which subscriber rejects which call.

One part of the statement is false of the code (and of the model) for epochs that do not fit four bytes:
`structured_publication_wraps_at_2pow32` is the kernel-checked witness, `tick_publishes_structured` carries
the hypothesis `e < 2^32` explicitly. -/
namespace NeoFS.Props.C06
open NeoFS NeoFS.Netmap

/-- all states reachable from the deployed contract satisfy the invariant the other theorems rest on -/
theorem reachable_inv (hist : List (Env × Op)) : Inv (run init hist) := inv_run hist inv_init

/-! ### success condition; a failed call changes nothing; the epoch only grows -/

/-- `newEpoch(e)` succeeds iff it is Alphabet-witnessed, `e` exceeds the current epoch and no subscriber
rejects the call. -/
theorem newEpoch_halts_iff (hist : List (Env × Op)) (env : Env) (e : Int) :
    (step (run init hist) env (.newEpoch e)).isSome = true ↔
      env.alphabet = true ∧ (run init hist).epoch < e ∧
      ∀ h ∈ subscribers (run init hist), env.accepts h e = true := by
  have hi := reachable_inv hist
  exact newEpoch_isSome_iff _ env e (by have := hi.count; omega)

/-- otherwise nothing changes (any method, any state): a FAULTed invocation leaves the state as it was -/
theorem failed_invocation_changes_nothing (s : State) (env : Env) (op : Op) (h : step s env op = none) :
    invoke s env op = (s, none) := by
  unfold invoke; rw [h]

/-- the epoch counter and the subscriber list after any history are exactly what the property's reading
computes: a tick counts iff Alphabet ∧ e > current ∧ nobody rejects, nothing else moves the counter -/
theorem epoch_and_subscribers_follow_spec (hist : List (Env × Op)) :
    ((run init hist).epoch, subscribers (run init hist)) = Spec.tickRun (0, []) hist :=
  tick_run inv_init hist

/-- the epoch counter only grows: along every history, every later state has an epoch ≥ every earlier one -/
theorem epoch_monotone (h1 h2 : List (Env × Op)) : (run init h1).epoch ≤ (run init (h1 ++ h2)).epoch := by
  rw [run_append]; exact epoch_run_mono (reachable_inv h1) h2

/-- one invocation: the epoch changes only by a successful tick, and then to the tick's argument, which exceeds it -/
theorem epoch_changes_only_by_tick (hist : List (Env × Op)) (env : Env) (op : Op)
    (h : (invoke (run init hist) env op).1.epoch ≠ (run init hist).epoch) :
    ∃ e, op = .newEpoch e ∧ (run init hist).epoch < e ∧ (invoke (run init hist) env op).1.epoch = e := by
  have hi := reachable_inv hist
  rw [epoch_step _ env op (by have := hi.count; omega)] at h ⊢
  cases op with
  | newEpoch e =>
    refine ⟨e, rfl, ?_⟩
    simp only [Spec.epochStep] at h ⊢
    by_cases hc : (env.alphabet && decide ((run init hist).epoch < e) &&
        (subscribers (run init hist)).all (fun x => env.accepts x e)) = true
    · rw [if_pos hc]
      simp only [Bool.and_eq_true, decide_eq_true_eq] at hc
      exact ⟨hc.1.2, rfl⟩
    · rw [if_neg hc] at h; exact absurd rfl h
  | _ => exact absurd rfl h

example : (step init ⟨true, [], 7, fun _ => true, fun _ _ => true⟩ (.newEpoch 1)).isSome = true := by decide
example : (step init ⟨true, [], 7, fun _ => true, fun _ _ => true⟩ (.newEpoch 0)).isSome = false := by decide
example : (step init ⟨false, [], 7, fun _ => true, fun _ _ => true⟩ (.newEpoch 1)).isSome = false := by decide

/-! ### a successful tick publishes the candidate set in both formats, atomically -/

/-- the new epoch and the tick height are recorded -/
theorem tick_records_epoch_and_height (hist : List (Env × Op)) (env : Env) (e : Int) (r : Halt)
    (h : step (run init hist) env (.newEpoch e) = some r) : r.1.epoch = e ∧ r.1.block = env.height := by
  simp only [step] at h
  obtain ⟨_, _, _, _, hr⟩ := newEpoch_some h
  rw [hr]; exact ⟨rfl, rfl⟩

/-- legacy format: the new network map is the list of all non-offline legacy candidates — which, along every
history, is the whole legacy candidate list (no stored candidate is ever Offline) -/
theorem tick_publishes_legacy (hist : List (Env × Op)) (env : Env) (e : Int) (r : Halt)
    (h : step (run init hist) env (.newEpoch e) = some r) :
    netmap r.1 = (netmapCandidates (run init hist)).filter (fun n => n.state != 2) ∧
    netmap r.1 = netmapCandidates (run init hist) := by
  simp only [step] at h
  obtain ⟨_, _, _, _, hr⟩ := newEpoch_some h
  rw [hr, tick_netmap]
  refine ⟨rfl, filterNetmap_all (reachable_inv hist).cands ?_⟩
  rw [abs_run, abs_init]; exact candWF_run candWF_empty hist

/-- structured format: the node list of epoch `e` (and hence the current one) is exactly the structured
candidate list, for every epoch that fits the four key bytes -/
theorem tick_publishes_structured (hist : List (Env × Op)) (env : Env) (e : Int) (r : Halt)
    (hb : e < 4294967296) (h : step (run init hist) env (.newEpoch e) = some r) :
    listNodesEpoch r.1 e = listCandidates (run init hist) ∧ listNodes r.1 = listCandidates (run init hist) := by
  simp only [step] at h
  obtain ⟨_, he, _, _, hr⟩ := newEpoch_some h
  have := tick_listNodes env e (reachable_inv hist) he hb
  rw [hr]; exact ⟨this, this⟩

/-- the full statement (no bound on `e`) is false: after `addNode A; tick 1; deleteNode A; addNode B`, the tick
`2^32 + 1` publishes under the key prefix of epoch 1 and the stale record of `A` is listed again.
(`fourBytesBE` keeps the low 32 bits; the same input on the real contract: corpus/C06/epoch-wrap-2pow32.ops.) -/
theorem structured_publication_wraps_at_2pow32 :
    ∃ (hist : List (Env × Op)) (env : Env) (e : Int) (r : Halt),
      step (run init hist) env (.newEpoch e) = some r ∧
      (listNodesEpoch r.1 e).length = 2 ∧ (listCandidates (run init hist)).length = 1 := by
  let a : Key := List.replicate 33 1
  let b : Key := List.replicate 33 2
  let env : Env := ⟨true, [a, b], 5, fun _ => true, fun _ _ => true⟩
  refine ⟨[(env, .addNode ⟨[], [], a, 1⟩), (env, .newEpoch 1), (env, .deleteNode a), (env, .addNode ⟨[], [], b, 1⟩)],
    env, 4294967297, _, rfl, ?_, ?_⟩ <;> decide

/-- the candidate set itself is left unchanged by a tick, in both formats -/
theorem tick_keeps_candidates (hist : List (Env × Op)) (env : Env) (e : Int) (r : Halt)
    (h : step (run init hist) env (.newEpoch e) = some r) :
    netmapCandidates r.1 = netmapCandidates (run init hist) ∧ listCandidates r.1 = listCandidates (run init hist) := by
  simp only [step] at h
  obtain ⟨_, _, _, _, hr⟩ := newEpoch_some h
  rw [hr]; exact ⟨rfl, rfl⟩

example :
    let a : Key := List.replicate 33 1
    let env : Env := ⟨true, [a], 9, fun _ => true, fun _ _ => true⟩
    let blob : Bytes := [0, 0] ++ a ++ [7]
    let s := run init [(env, .addPeer blob), (env, .addNode ⟨[[97]], [([65], [49])], a, 1⟩)]
    (step s env (.newEpoch 3)).map (fun r => (netmap r.1, listNodes r.1, r.1.epoch, r.1.block)) =
      some ([⟨blob, 1⟩], [⟨[[97]], [([65], [49])], a, 1⟩], 3, 9) := by decide

/-! ### fan-out: every subscribed contract exactly once, in subscription order -/

/-- the subscriber list is the subscription order of the property's reading: a contract enters at the end
when its (acceptable) subscription is the first one, and only then -/
theorem subscribers_in_subscription_order (hist : List (Env × Op)) :
    subscribers (run init hist) = Spec.subRun [] hist ∧ (subscribers (run init hist)).Nodup :=
  ⟨subscribers_run inv_init hist, (reachable_inv hist).subsNodup⟩

/-- a successful tick calls `newEpoch(e)` on every subscribed contract, exactly once each (the list has no
duplicates), in subscription order, and then announces the epoch -/
theorem tick_fanout (hist : List (Env × Op)) (env : Env) (e : Int) (r : Halt)
    (h : step (run init hist) env (.newEpoch e) = some r) :
    r.2 = (Spec.subRun [] hist).map (fun c => Event.called c e) ++ [.newEpoch e] ∧ (Spec.subRun [] hist).Nodup := by
  have hs := subscribers_in_subscription_order hist
  simp only [step] at h
  obtain ⟨_, _, _, _, hr⟩ := newEpoch_some h
  rw [hr, ← hs.1]; exact ⟨rfl, hs.2⟩

/-- subscribing twice has no additional effect: once a contract is subscribed, any further subscription of
it (by anybody, at any time later in the history) leaves the state untouched and announces nothing -/
theorem subscribe_idempotent (hist : List (Env × Op)) (env : Env) (c : Hash)
    (hc : c ∈ subscribers (run init hist)) :
    invoke (run init hist) env (.subscribe c) = (run init hist, some []) ∨
    invoke (run init hist) env (.subscribe c) = (run init hist, none) := by
  unfold invoke
  simp only [step]
  rw [subscribe_eq]
  by_cases h0 : Spec.subOk env c = true
  · rw [if_pos h0, if_pos (List.contains_iff_mem.mpr hc)]; exact Or.inl rfl
  · rw [if_neg h0]; exact Or.inr rfl

/-- … in particular right after the first subscription -/
theorem subscribe_twice (hist : List (Env × Op)) (env env' : Env) (c : Hash) (r : Halt)
    (h : step (run init hist) env (.subscribe c) = some r) :
    (invoke r.1 env' (.subscribe c)).1 = r.1 := by
  have e : r.1 = run init (hist ++ [(env, .subscribe c)]) := by
    rw [run_append]; simp only [run, invoke, h]
  have hm : c ∈ subscribers r.1 := by
    have hs := subscribers_step env (.subscribe c) (reachable_inv hist)
    simp only [invoke, h] at hs
    rw [hs]
    simp only [step] at h
    rw [subscribe_eq] at h
    simp only [Spec.subStep]
    by_cases h0 : Spec.subOk env c = true
    · rw [if_pos h0] at h
      by_cases h1 : (subscribers (run init hist)).contains c = true
      · have := List.contains_iff_mem.mp h1
        simp [this]
      · rw [if_neg h1] at h
        by_cases h2 : (subscribers (run init hist)).length ≥ 256
        · rw [if_pos h2] at h; cases h
        · have hlt : (subscribers (run init hist)).length < 256 := by omega
          have hm : c ∉ subscribers (run init hist) := fun m => h1 (List.contains_iff_mem.mpr m)
          simp [h0, hm, hlt]
    · rw [if_neg h0] at h; cases h
  rw [e] at hm ⊢
  rcases subscribe_idempotent (hist ++ [(env, .subscribe c)]) env' c hm with h | h <;> rw [h]

example :
    let p : Hash := List.replicate 20 1
    let q : Hash := List.replicate 20 2
    let env : Env := ⟨true, [], 4, fun _ => true, fun _ _ => true⟩
    let s := run init [(env, .subscribe q), (env, .subscribe p), (env, .subscribe q)]
    (step s env (.newEpoch 5)).map (·.2) = some [.called q 5, .called p 5, .newEpoch 5] := by decide

example :
    let p : Hash := List.replicate 20 1
    let env : Env := ⟨true, [], 4, fun _ => true, fun h _ => h != p⟩
    (step (run init [(env, .subscribe p)]) env (.newEpoch 5)).isSome = false := by decide

end NeoFS.Props.C06
