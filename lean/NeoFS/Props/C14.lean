import NeoFS.Lemmas.PlacementSpec
import NeoFS.Lemmas.PlacementVerify
import NeoFS.Generated.Consts
import NeoFS.Generated.Footprint
/-! # C14 — Placement roster is what was committed; signatures need REP distinct members

Property theorems only. Model: `NeoFS/Model/Placement.lean` (byte-keyed storage, real key layout).
Specification (`Roster`, `addOK`, `commitOK`, `specRun`, `Refines`, `WFHist`, `VectorOK`): in the
property's own words, `NeoFS/Lemmas/PlacementSpec.lean` and `NeoFS/Lemmas/PlacementVerify.lean`.
Helper lemmas: `NeoFS/Lemmas/Placement*.lean`. -/
namespace NeoFS.Props.C14
open NeoFS NeoFS.Placement

/-! ## bridge: regenerated constants are the literals of the key layout and of the property text -/

theorem prefix_pending : pU = 'u'.toNat := by decide
theorem prefix_committed : pN = 'n'.toNat := by decide
theorem prefix_replicas : pR = 'r'.toNat := by decide
theorem prefix_meta : pM = 'm'.toNat := by decide
theorem max_rep : maxREPs = 255 := by decide
theorem families_disjoint : pU ≠ pN ∧ pU ≠ pR ∧ pN ≠ pR ∧ pM ≠ pU ∧ pM ≠ pN ∧ pM ≠ pR := by decide

/-! ## the two-byte counter -/

/-- `counterToBytes c` is the 2-byte big-endian encoding for 0 ≤ c ≤ 32767 -/
theorem counter_is_big_endian (c : Nat) (h : c ≤ 32767) : counterToBytes (c : Int) = be 2 c :=
  counterToBytes_eq_be c h

/-- `counterFromBytes` is its inverse there -/
theorem counter_roundtrip (c : Nat) (h : c ≤ 32767) : counterFromBytes (counterToBytes (c : Int)) = some (c : Int) :=
  counterFromBytes_counterToBytes c h

/-- and the encoding preserves the order (lexicographic order of the keys = order of the counters), which
is why `storage.Find` returns the roster in submission order -/
theorem counter_order (a b : Nat) (ha : a ≤ 32767) (hb : b ≤ 32767) :
    blt (counterToBytes (a : Int)) (counterToBytes (b : Int)) = decide (a < b) :=
  counterToBytes_lt a b ha hb

example : counterToBytes 127 = [0, 127] ∧ counterToBytes 128 = [0, 128] ∧ counterToBytes 255 = [0, 255] ∧
    counterToBytes 256 = [1, 0] ∧ counterToBytes 300 = [1, 44] ∧ counterToBytes 32767 = [127, 255] := by decide
example : blt (counterToBytes 127) (counterToBytes 128) = true ∧ blt (counterToBytes 255) (counterToBytes 256) = true ∧
    blt (counterToBytes 256) (counterToBytes 255) = false := by decide
/-- the bound is sharp: 32768 is encoded in three bytes -/
example : counterToBytes 32768 = [128, 0, 0] := by decide

/-! ## roster: the stored keys refine the abstract roster along every history -/

variable {σ : Type}

/-- `addNextEpochNodes` HALTs exactly when the specification accepts the call; in particular it FAULTs
unless the vector number continues the numbering (the vector contiguity check) -/
theorem add_halts_iff_accepted (s : Store) (r : Roster) (hI : Inv s) (hR : Refines s r) (alphabet : Bool) (cid : Bytes)
    (vec : Int) (keys : Option (List Bytes)) (h0 : 0 ≤ vec) :
    (addNextEpochNodes s alphabet cid vec keys).isSome = addOK r alphabet cid vec keys :=
  add_halts_iff s r hI hR alphabet cid vec keys h0

/-- `commitContainerListUpdate` HALTs exactly when the specification accepts the call (any storage) -/
theorem commit_halts_iff_accepted (s : Store) (alphabet : Bool) (cid : Bytes) (reps : Option (List Int)) :
    (commitContainerListUpdate s alphabet cid reps).isSome = commitOK alphabet cid reps :=
  commit_halts_iff s alphabet cid reps

/-- One HALTed commit, any key-ordered storage: `nodes(cid, b)` afterwards iterates over exactly the
values that were pending for vector `b`, in the same order; nothing is pending for the container any more
(the raw pending family is empty); `replicasNumbers(cid)` iterates over the submitted REP numbers in order. -/
theorem commit_fixes_pending_and_empties_it (s : Store) (hs : Sorted s) (alphabet : Bool) (cid : Bytes)
    (reps : Option (List Int)) (s' : Store) (h : commitContainerListUpdate s alphabet cid reps = some s') :
    (∀ b, nodesOf s' cid b = pendingOf s cid b) ∧ find s' (uKey cid) = [] ∧ (∀ b, pendingOf s' cid b = []) ∧
      repsOf s' cid = (reps.getD []).map encInt :=
  commit_effect s hs alphabet cid reps s' h

/-- … and that holds after every history whatsoever (no restriction on vector numbers, REP numbers or
roster sizes), because every invocation keeps the storage in key order -/
theorem commit_fixes_pending_after_any_history (metaCids : List Bytes) (hist : List (Env σ × Op σ)) (alphabet : Bool)
    (cid : Bytes) (reps : Option (List Int)) (s' : Store)
    (h : commitContainerListUpdate (run (initWith metaCids) hist) alphabet cid reps = some s') :
    (∀ b, nodesOf s' cid b = pendingOf (run (initWith metaCids) hist) cid b) ∧ find s' (uKey cid) = [] ∧
      (∀ b, pendingOf s' cid b = []) ∧ repsOf s' cid = (reps.getD []).map encInt :=
  commit_effect _ (sorted_run _ (sorted_initWith metaCids) hist) alphabet cid reps s' h

/-- Every history inside the quantifier, from the storage a deployment leaves behind: the storage shows
the abstract roster — per container and vector, pending = everything accepted since the previous commit in
submission order, committed = what was pending at the last commit, REP numbers = those of the last commit. -/
theorem roster_refines_all_histories (metaCids : List Bytes) (hist : List (Env σ × Op σ))
    (hw : WFHist (initWith metaCids) hist) :
    Refines (run (initWith metaCids) hist) (specRun Roster.empty hist) :=
  (run_refines _ _ (inv_initWith metaCids) (refines_initWith metaCids) hist hw).2

/-- … hence the read API returns exactly that: `nodes(cid, i)` the committed keys of vector `i` in submission
order, `replicasNumbers(cid)` the committed REP numbers in order. -/
theorem read_api_returns_the_committed_roster (metaCids : List Bytes) (hist : List (Env σ × Op σ))
    (hw : WFHist (initWith metaCids) hist) (cid : Bytes) (hc : cid.length = 32) :
    (∀ vec : Int, 0 ≤ vec → vec ≤ 255 →
      nodes (run (initWith metaCids) hist) cid vec = some ((specRun Roster.empty hist).nodes cid vec.toNat)) ∧
    (replicasNumbers (run (initWith metaCids) hist) cid).map (·.map decInt) = some ((specRun Roster.empty hist).reps cid) := by
  have hR := roster_refines_all_histories metaCids hist hw cid hc
  refine ⟨?_, ?_⟩
  · intro vec h0 h1
    rw [nodes_eq _ cid hc vec h0 h1, (hR.1 vec.toNat (by omega)).2]
  · rw [replicasNumbers_eq _ cid hc]
    simp only [Option.map_some, hR.2]

/-- the specification in one line each: an accepted add appends, an accepted commit fixes and empties -/
theorem spec_add_appends (r : Roster) (cid : Bytes) (v : Nat) (ks : List Bytes) :
    (r.add cid v ks).pending cid v = r.pending cid v ++ ks ∧ (r.add cid v ks).nodes = r.nodes ∧ (r.add cid v ks).reps = r.reps := by
  simp [Roster.add]

theorem spec_commit_fixes_and_empties (r : Roster) (cid : Bytes) (reps : Option (List Int)) (i : Nat) :
    (r.commit cid reps).nodes cid i = r.pending cid i ∧ (r.commit cid reps).pending cid i = [] ∧
      (r.commit cid reps).reps cid = reps.getD [] := by
  simp [Roster.commit]

/-- vector numbers stay contiguous in every reachable storage: vector `b + 1` has (pending / committed) keys
only if vector `b` has -/
theorem vectors_contiguous_all_histories (metaCids : List Bytes) (hist : List (Env σ × Op σ))
    (hw : WFHist (initWith metaCids) hist) (cid : Bytes) (hc : cid.length = 32) (b : Nat) (hb : b + 1 < 256) :
    (pendingOf (run (initWith metaCids) hist) cid (b + 1) ≠ [] → pendingOf (run (initWith metaCids) hist) cid b ≠ []) ∧
    (nodesOf (run (initWith metaCids) hist) cid (b + 1) ≠ [] → nodesOf (run (initWith metaCids) hist) cid b ≠ []) := by
  have hR := roster_refines_all_histories metaCids hist hw cid hc
  have hC := specRun_contiguous (σ := σ) Roster.empty (fun _ _ h => absurd rfl h) (fun _ _ h => absurd rfl h) hist
  rw [(hR.1 (b + 1) hb).1, (hR.1 b (by omega)).1, (hR.1 (b + 1) hb).2, (hR.1 b (by omega)).2]
  exact ⟨hC.1 cid b, hC.2 cid b⟩

/-- a FAULT leaves the storage as it was, and the four read-only methods never change it -/
theorem fault_and_reads_change_nothing (s : Store) (env : Env σ) (op : Op σ) :
    (step s env op = none → (invoke s env op).1 = s) ∧
    (∀ cid vec, (invoke s env (.nodes cid vec)).1 = s) ∧ (∀ cid, (invoke s env (.reps cid)).1 = s) ∧
    (∀ cid msg sigs, (invoke s env (.verify cid msg sigs)).1 = s) ∧
    (∀ mi raw sigs, (invoke s env (.submit mi raw sigs)).1 = s) := by
  refine ⟨?_, ?_, ?_, ?_, ?_⟩
  · intro h; simp [invoke, h]
  · intro cid vec; simp only [invoke, step]; cases nodes s cid vec <;> rfl
  · intro cid; simp only [invoke, step]; cases replicasNumbers s cid <;> rfl
  · intro cid msg sigs; simp only [invoke, step]; cases verifyPlacementSignatures env.oracle s cid msg sigs <;> rfl
  · intro mi raw sigs; simp only [invoke, step]; cases submitObjectPut s env mi raw sigs <;> rfl

/-! ## signatures: soundness for every verification oracle -/

/-- `verifyPlacementSignatures = true` only if for every placement vector `i` (every committed REP number)
the matrix has a row `i` and at least `REP_i` distinct members of vector `i` have a valid signature of `msg`
in that row. For every storage, every oracle `verify`, every matrix (rows and matrix may be Null). -/
theorem signatures_sound (o : Oracle σ) (s : Store) (cid msg : Bytes) (sigs : Matrix σ)
    (h : verifyPlacementSignatures o s cid msg sigs = some true) :
    ∃ vals, replicasNumbers s cid = some vals ∧
      ∀ i (hi : i < vals.length), ∃ (row : List σ) (members K : List Bytes),
        rowAt sigs i = some row ∧ nodes s cid (i : Int) = some members ∧
        K.Nodup ∧ (∀ k ∈ K, k ∈ members ∧ ∃ sg ∈ row, o.verify msg k sg = true) ∧ (K.length : Int) ≥ decInt vals[i] :=
  verify_sound o s cid msg sigs h

/-- the same read the other way: if for some vector fewer than REP distinct members signed (whatever else
the row holds: signatures of non-members, of other messages, repetitions), or the vector's row is missing,
the matrix is not accepted -/
theorem insufficient_signers_not_accepted (o : Oracle σ) (s : Store) (cid msg : Bytes) (sigs : Matrix σ)
    (vals : List Bytes) (hv : replicasNumbers s cid = some vals) (i : Nat) (hi : i < vals.length)
    (hbad : ∀ (row : List σ) (members K : List Bytes), rowAt sigs i = some row → nodes s cid (i : Int) = some members →
      K.Nodup → (∀ k ∈ K, k ∈ members ∧ ∃ sg ∈ row, o.verify msg k sg = true) → (K.length : Int) < decInt vals[i]) :
    verifyPlacementSignatures o s cid msg sigs ≠ some true := by
  intro h
  obtain ⟨vals', hv', hall⟩ := verify_sound o s cid msg sigs h
  rw [hv] at hv'
  simp only [Option.some.injEq] at hv'
  subst hv'
  obtain ⟨row, members, K, h1, h2, h3, h4, h5⟩ := hall i hi
  have := hbad row members K h1 h2 h3 h4
  omega

/-- `submitObjectPut` HALTs only if the meta information names a meta-on-chain container and the matrix is
sound for that container with the meta information itself as the signed message -/
theorem submit_sound (s : Store) (env : Env σ) (mi : Option Meta) (raw : Bytes) (sigs : Matrix σ) (ev : List Event)
    (h : submitObjectPut s env mi raw sigs = some ev) :
    ∃ mt cid vals, mi = some mt ∧ mt.cid = some cid ∧ (get s (mKey cid)).isSome = true ∧
      replicasNumbers s cid = some vals ∧
      ∀ i (hi : i < vals.length), VectorOK env.oracle s cid raw sigs i (decInt vals[i]) := by
  obtain ⟨mt, cid, oid, h1, h2, _, _, h5, h6⟩ := submit_verified s env mi raw sigs ev h
  obtain ⟨vals, hv, hall⟩ := verify_sound env.oracle s cid raw sigs h6
  exact ⟨mt, cid, vals, h1, h2, h5, hv, hall⟩

/-! ## non-vacuity: a concrete history and concrete matrices -/

section examples
/-- signatures of the examples: (signer's key, variant); variant 1 is the `(r, n − s)` twin -/
abbrev Sg := Bytes × Nat
def cidA : Bytes := List.replicate 32 7
def key (i : Nat) : Bytes := 2 :: List.replicate 32 i
def orc : Oracle Sg := { verify := fun _ k sg => sg.1 == k, badKey := fun _ => false }
def alpha : Env Sg := { alphabet := true, height := 10, magic := 42, oracle := orc }
def nobody : Env Sg := { alpha with alphabet := false }
/-- two batches for vector 0, one for vector 1, a refused call in between, commit with REP 3 and 1 -/
def hist1 : List (Env Sg × Op Sg) :=
  [(alpha, .add cidA 0 (some [key 1, key 2])), (nobody, .add cidA 0 (some [key 9])),
   (alpha, .add cidA 2 (some [key 9])),                 -- vector 1 is still empty: refused
   (alpha, .add cidA 0 (some [key 3])), (alpha, .add cidA 1 (some [key 4])),
   (alpha, .commit cidA (some [3, 1]))]
def st1 : Store := run (initWith [cidA]) hist1

example : nodes st1 cidA 0 = some [key 1, key 2, key 3] ∧ nodes st1 cidA 1 = some [key 4] ∧
    nodes st1 cidA 2 = some [] ∧ (replicasNumbers st1 cidA).map (·.map decInt) = some [3, 1] ∧
    find st1 (uKey cidA) = [] := by decide
/-- an empty commit clears the roster -/
example : nodes (run st1 [(alpha, .commit cidA none)]) cidA 0 = some [] ∧
    replicasNumbers (run st1 [(alpha, .commit cidA none)]) cidA = some [] := by decide
example : WFHist (initWith [cidA]) hist1 := by
  simp only [hist1, WFHist, WFOp, and_true]
  refine ⟨⟨by decide, ?_⟩, ⟨by decide, ?_⟩, ⟨by decide, ?_⟩, ⟨by decide, ?_⟩, ⟨by decide, ?_⟩, ?_⟩
  · intro ks h; cases h; decide
  · intro ks h; cases h; decide
  · intro ks h; cases h; decide
  · intro ks h; cases h; decide
  · intro ks h; cases h; decide
  · intro rs h; cases h; decide

def sg (i : Nat) : Sg := (key i, 0)
def twin (i : Nat) : Sg := (key i, 1)
/-- the honest matrix is accepted (also with the signatures in another order and junk in front) -/
example : verifyPlacementSignatures orc st1 cidA [1] (some [some [sg 1, sg 2, sg 3], some [sg 4]]) = some true := by decide
example : verifyPlacementSignatures orc st1 cidA [1] (some [some [sg 8, sg 3, sg 1, sg 2], some [sg 4]]) = some true := by decide
/-- F5: one member's signature three times for REP 3 is rejected … -/
example : verifyPlacementSignatures orc st1 cidA [1] (some [some [sg 1, sg 1, sg 1], some [sg 4]]) = some false := by decide
/-- … also when the repetitions are `(r, n − s)` twins, … -/
example : verifyPlacementSignatures orc st1 cidA [1] (some [some [sg 1, twin 1, sg 2], some [sg 4]]) = some false := by decide
/-- … a non-member or a member of another vector does not count, a missing vector is fatal -/
example : verifyPlacementSignatures orc st1 cidA [1] (some [some [sg 1, sg 2, sg 4], some [sg 4]]) = some false := by decide
example : verifyPlacementSignatures orc st1 cidA [1] (some [some [sg 1, sg 2, sg 3]]) = some false := by decide
example : verifyPlacementSignatures orc st1 cidA [1] none = some false := by decide
/-- a container without committed roster is accepted vacuously (what the statement says) -/
example : verifyPlacementSignatures orc (initWith [cidA]) cidA [1] none = some true := by decide
/-- submitObjectPut: accepted with the honest matrix, refused with the repeated signature -/
def meta1 : Meta :=
  ⟨some cidA, some (List.replicate 32 1), some 42, some 5, some [], some [], some 11⟩
example : submitObjectPut st1 alpha (some meta1) [1] (some [some [sg 1, sg 2, sg 3], some [sg 4]]) =
    some [.objectPut cidA (List.replicate 32 1)] := by decide
example : submitObjectPut st1 alpha (some meta1) [1] (some [some [sg 1, sg 1, sg 1], some [sg 4]]) = none := by decide
example : submitObjectPut st1 alpha (some { meta1 with validUntil := some 10 }) [1]
    (some [some [sg 1, sg 2, sg 3], some [sg 4]]) = none := by decide
/-- A vector may list one key at several positions (a node submitted again in a second batch; `addNextEpochNodes`
does not de-duplicate). The model's roster is that list with its repeats, `counted` holds KEYS, and the `K` of
`signatures_sound` is a duplicate-free list of keys: a repeated key is one member. Vector 0 = [1, 2, 1, 3], vector 1 =
[4, 1], REP 2 and 2. -/
def hist2 : List (Env Sg × Op Sg) :=
  [(alpha, .add cidA 0 (some [key 1, key 2])), (alpha, .add cidA 0 (some [key 1, key 3])),
   (alpha, .add cidA 1 (some [key 4, key 1])), (alpha, .commit cidA (some [2, 2]))]
def st2 : Store := run (initWith [cidA]) hist2
def other (i : Nat) : Sg := (key i, 2)
example : nodes st2 cidA 0 = some [key 1, key 2, key 1, key 3] ∧ nodes st2 cidA 1 = some [key 4, key 1] := by decide
/-- two signatures of the one node — the same twice, a signature and its twin, two different valid ones — are one member -/
example : verifyPlacementSignatures orc st2 cidA [1] (some [some [sg 1, sg 1], some [sg 4, sg 1]]) = some false := by decide
example : verifyPlacementSignatures orc st2 cidA [1] (some [some [sg 1, twin 1], some [sg 4, sg 1]]) = some false := by decide
example : verifyPlacementSignatures orc st2 cidA [1] (some [some [sg 1, other 1], some [sg 4, sg 1]]) = some false := by decide
example : verifyPlacementSignatures orc st2 cidA [1] (some [some [sg 1, sg 3], some [sg 1, other 1]]) = some false := by decide
/-- the node and one other member is REP 2 (the node may sign for both vectors it belongs to); repetitions are skipped -/
example : verifyPlacementSignatures orc st2 cidA [1] (some [some [sg 1, sg 3], some [sg 4, sg 1]]) = some true := by decide
example : verifyPlacementSignatures orc st2 cidA [1] (some [some [sg 1, twin 1, sg 1, sg 2], some [sg 1, sg 4]]) = some true := by decide
example : submitObjectPut st2 alpha (some meta1) [1] (some [some [sg 1, twin 1], some [sg 4, sg 1]]) = none := by decide

end examples

/-! ## Frame of the model, regenerated: who can write the placement roster

Checked by kernel evaluation over `NeoFS.Generated.Footprint.table` (grouped by contract: `contracts`), the MAY-WRITE footprint recomputed from the Go sources on
every run (`extract footprint`; `Model/Footprint.lean`). -/
section Footprint
open NeoFS.Footprint NeoFS.Generated.Footprint

def fpNodes : Fam := startingWith NeoFS.Generated.container_nodesPrefix_bytes
def fpReplicas : Fam := startingWith NeoFS.Generated.container_replicasNumberPrefix_bytes
def fpPending : Fam := startingWith NeoFS.Generated.container_nextEpochNodesPrefix_bytes
/-- `nnsHasAlias ‖ cid` (43 bytes) shares its first byte `n` with the roster keys `n ‖ cid ‖ vector ‖ key` (67 bytes): at the level
of leading constants the two families overlap, the key lengths keep them apart; rows inside this family are left out below -/
def fpAliasFlags : Fam := startingWith NeoFS.Generated.container_nnsHasAliasKey_bytes

/-- The committed roster (keys and REP numbers) is written and deleted by `commitContainerListUpdate` only; the pending roster is
filled by `addNextEpochNodes` only and emptied by `commitContainerListUpdate` only (the upgrade migration, whose keys are of
unknown shape, and deployment, which stores the fixed keys `netmapScriptHash`, `nnsScriptHash`, `nnsRoot`, excepted); both methods
write nothing else. -/
theorem roster_written_only_by_add_and_commit :
    onlyByApartFrom contracts "container" "put" fpNodes (·.within fpAliasFlags) ["commitContainerListUpdate", "_deploy"] = true ∧
    onlyBy contracts "container" "put" fpReplicas ["commitContainerListUpdate"] = true ∧
    onlyBy contracts "container" "put" fpPending ["addNextEpochNodes"] = true ∧
    [fpNodes, fpReplicas, fpPending].all
      (fun f => onlyByApartFrom contracts "container" "delete" f (·.within fpAliasFlags) ["commitContainerListUpdate", "_deploy"]) = true ∧
    writesWithin contracts "container" "commitContainerListUpdate" [fpNodes, fpReplicas, fpPending] = true ∧
    writesWithin contracts "container" "addNextEpochNodes" [fpPending] = true := by decide +kernel

example : does contracts "container" "commitContainerListUpdate" "put" fpNodes = true ∧
    does contracts "container" "commitContainerListUpdate" "put" fpReplicas = true ∧
    does contracts "container" "commitContainerListUpdate" "delete" fpPending = true ∧
    does contracts "container" "addNextEpochNodes" "put" fpPending = true := by decide +kernel
example : onlyByApartFrom (withRow contracts ⟨"container", "setEACL", "put", "", "", NeoFS.Generated.container_nodesPrefix_bytes, false⟩)
    "container" "put" fpNodes (·.within fpAliasFlags) ["commitContainerListUpdate", "_deploy"] = false := by decide +kernel
end Footprint

end NeoFS.Props.C14
