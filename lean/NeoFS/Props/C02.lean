import NeoFS.Lemmas.BalanceAuth
import NeoFS.Model.BalanceSystem
/-! # C02 — Balance: a balance can only be lowered with the holder's or the Alphabet's authorisation

Property theorems only; helper lemmas are in `NeoFS/Lemmas/BalanceAuth.lean` (and the files it
imports), the model in `NeoFS/Model/Balance.lean`. `env.witnesses` are the witnesses carried by the
transaction, `env.caller` the calling script hash, `env.alphabet` the Alphabet multi-signature.
None of the theorems needs an invariant on the state or a restriction on the arguments. -/
namespace NeoFS.Props.C02
open NeoFS NeoFS.Balance

/-- One invocation of any method with any arguments in any state: if the balance of `a` goes down,
the transaction carries the Alphabet multi-signature, or `a`'s witness, or `a` is the caller. -/
theorem debit_authorised (s : State) (env : Env) (op : Op) (a : Hash)
    (h : (getAcc (invoke s env op).1.accts a).bal < (getAcc s.accts a).bal) :
    env.alphabet = true ∨ (a ∈ env.witnesses ∨ env.caller = a) :=
  debit_auth_invoke s env op a h

/-- The public `transfer` lowers at most the balance of its `from` argument and only with `from`'s
own authorisation; the Alphabet flag of the environment gives no rights here. -/
theorem public_transfer_only_debits_from (s : State) (env : Env) (f t : Hash) (amt : Int) (a : Hash)
    (h : (getAcc (invoke s env (.transfer f t amt)).1.accts a).bal < (getAcc s.accts a).bal) :
    a = f ∧ (f ∈ env.witnesses ∨ env.caller = f) :=
  public_debit_invoke s env f t amt a h

/-- `transfer` answers `false` ⇒ the state is untouched and nothing is notified. -/
theorem transfer_refusal (s : State) (env : Env) (f t : Hash) (amt : Int) (ev : List Event)
    (h : (invoke s env (.transfer f t amt)).2 = some (some false, ev)) :
    (invoke s env (.transfer f t amt)).1 = s ∧ ev = [] := refusal_inert s env f t amt ev h

/-- `transfer` never FAULTs: it answers `true` or `false`. -/
theorem transfer_always_answers (s : State) (env : Env) (f t : Hash) (amt : Int) :
    ∃ b ev, (invoke s env (.transfer f t amt)).2 = some (some b, ev) := transfer_halts s env f t amt

/-- `transfer` answers `true` exactly when the amount is non-negative, both addresses have 20
bytes, `from` authorised the call and holds the amount. -/
theorem transfer_accepts_iff (s : State) (env : Env) (f t : Hash) (amt : Int) :
    (∃ ev, (invoke s env (.transfer f t amt)).2 = some (some true, ev)) ↔
      0 ≤ amt ∧ t.length = 20 ∧ f.length = 20 ∧ (f ∈ env.witnesses ∨ env.caller = f) ∧
        amt ≤ (getAcc s.accts f).bal :=
  transfer_true_iff s env f t amt

/-- Every step of every history: the balance of `a` after `pre ++ [(env, op)]` is lower than after
`pre` only if that invocation was authorised by the Alphabet or by `a`. -/
theorem debit_authorised_every_step (pre : List (Env × Op)) (env : Env) (op : Op) (a : Hash)
    (h : (getAcc (run init (pre ++ [(env, op)])).accts a).bal < (getAcc (run init pre).accts a).bal) :
    env.alphabet = true ∨ (a ∈ env.witnesses ∨ env.caller = a) := by
  rw [run_append] at h
  exact debit_auth_invoke (run init pre) env op a h

/-- Any sequence of invocations from any state: a balance that ends lower than it started was
debited by one of the invocations, and that one was authorised by the Alphabet or by the holder. -/
theorem debit_needs_authorised_invocation (hist : List (Env × Op)) (s : State) (a : Hash)
    (h : (getAcc (run s hist).accts a).bal < (getAcc s.accts a).bal) :
    ∃ x ∈ hist, x.1.alphabet = true ∨ (a ∈ x.1.witnesses ∨ x.1.caller = a) :=
  debit_auth_hist hist s a h

/-- One transaction = several invocations that share the witnesses `w` and the Alphabet flag `al`
(the calling contract may differ from call to call): a balance can end lower only if the transaction
carries the Alphabet multi-signature or the account's witness, or the account itself made a call. -/
theorem tx_debit_authorised (hist : List (Env × Op)) (s : State) (a : Hash) (w : List Hash) (al : Bool)
    (htx : ∀ x ∈ hist, x.1.witnesses = w ∧ x.1.alphabet = al)
    (h : (getAcc (run s hist).accts a).bal < (getAcc s.accts a).bal) :
    al = true ∨ a ∈ w ∨ ∃ x ∈ hist, x.1.caller = a := by
  obtain ⟨x, hx, hauth⟩ := debit_auth_hist hist s a h
  obtain ⟨hw, ha⟩ := htx x hx
  unfold OwnerAuth at hauth
  rw [hw, ha] at hauth
  rcases hauth with h1 | h1 | h1
  · exact Or.inl h1
  · exact Or.inr (Or.inl h1)
  · exact Or.inr (Or.inr ⟨x, hx, h1⟩)

-- non-vacuity: an authorised debit happens, unauthorised attempts are refused / FAULT
def st : State := run init demo
def asB : Env := ⟨[B], [], false⟩
def viaA : Env := ⟨[], A, false⟩
def fakeAlpha : Env := ⟨[B], [], true⟩
example : (getAcc st.accts A).bal = 660 ∧ (getAcc st.accts B).bal = 300 := by decide
example : (getAcc (invoke st asA (.transfer A B 60)).1.accts A).bal = 600 := by decide
example : (getAcc (invoke st viaA (.transfer A B 60)).1.accts A).bal = 600 := by decide
example : (invoke st asB (.transfer A B 60)).2 = some (some false, []) := by decide
example : (invoke st fakeAlpha (.transfer A B 60)).2 = some (some false, []) := by decide
example : (invoke st asB (.transferX A B 60 [])).2 = none := by decide
example : (getAcc (invoke st alpha (.transferX A B 60 [])).1.accts A).bal = 600 := by decide
example : (getAcc (run init (demo ++ [(asA, .transfer A B 60)])).accts A).bal
    < (getAcc (run init demo).accts A).bal := by decide

/-! ## The same inside the system: debits made through Netmap ticks

`NeoFS.BalanceSystem` (Balance + Netmap's epoch gate, executed by the driver for real `netmap.newEpoch` transactions): a
Netmap tick reaches Balance only as an Alphabet-witnessed invocation, so every step of every history of the system —
direct invocation or Netmap tick — that lowers a balance carries the holder's authorisation or the Alphabet's. -/
theorem system_debit_authorised (d : BalanceSystem.State) (env : Env) (op : BalanceSystem.Op) (a : Hash)
    (h : (getAcc (BalanceSystem.invoke d env op).1.bal.accts a).bal < (getAcc d.bal.accts a).bal) :
    env.alphabet = true ∨ (a ∈ env.witnesses ∨ env.caller = a) := by
  cases op with
  | bal op => exact debit_authorised d.bal env op a (by simpa [BalanceSystem.invoke] using h)
  | nmtick e =>
    by_cases ha : env.alphabet = true
    · exact Or.inl ha
    · have : (BalanceSystem.invoke d env (.nmtick e)).1 = d := by simp [BalanceSystem.invoke, ha]
      rw [this] at h; exact absurd h (Int.lt_irrefl _)

theorem system_debit_needs_authorised_transaction (hist : List (Env × BalanceSystem.Op)) (d : BalanceSystem.State) (a : Hash)
    (h : (getAcc (BalanceSystem.run d hist).bal.accts a).bal < (getAcc d.bal.accts a).bal) :
    ∃ x ∈ hist, x.1.alphabet = true ∨ (a ∈ x.1.witnesses ∨ x.1.caller = a) := by
  induction hist generalizing d with
  | nil => exact absurd h (Int.lt_irrefl _)
  | cons x rest ih =>
    obtain ⟨env, op⟩ := x
    by_cases hstep : (getAcc (BalanceSystem.invoke d env op).1.bal.accts a).bal < (getAcc d.bal.accts a).bal
    · exact ⟨(env, op), List.mem_cons_self, system_debit_authorised d env op a hstep⟩
    · have h' : (getAcc (BalanceSystem.run (BalanceSystem.invoke d env op).1 rest).bal.accts a).bal <
          (getAcc (BalanceSystem.invoke d env op).1.bal.accts a).bal := by
        have : BalanceSystem.run d ((env, op) :: rest) = BalanceSystem.run (BalanceSystem.invoke d env op).1 rest := rfl
        rw [this] at h; omega
      obtain ⟨y, hy, hauth⟩ := ih _ h'
      exact ⟨y, List.mem_cons_of_mem _ hy, hauth⟩

-- non-vacuity: a tick signed by a stranger changes nothing; the Alphabet's tick releases a lock (a debit of the lock account)
def sysSt : BalanceSystem.State := BalanceSystem.run BalanceSystem.init
  [(alpha, .bal (.mint A 1000 [])), (alpha, .bal (.lock [] A B 100 1))]
example : (BalanceSystem.invoke sysSt asB (.nmtick 1)).2 = none := by decide
example : (getAcc (BalanceSystem.invoke sysSt alpha (.nmtick 1)).1.bal.accts B).bal < (getAcc sysSt.bal.accts B).bal := by decide

end NeoFS.Props.C02
