import NeoFS.Lemmas.NNSAcc
import NeoFS.Lemmas.NNSStr
import NeoFS.Generated.Consts
import NeoFS.Generated.Footprint
set_option linter.unusedSimpArgs false
set_option linter.unusedVariables false
/-! # C10 — NNS ownership lifecycle and NEP-11 accounting stay consistent over time

Property theorems only; the model is `NeoFS/Model/NNS.lean`, helper lemmas are in `NeoFS/Lemmas/NNS*.lean`.
Histories are lists of (environment, operation): the environment carries the signer set, the caller, the
block time and the verdicts of the string scanners, all universally quantified. -/
namespace NeoFS.Props.C10
open NeoFS NeoFS.NNS

/-! ### bridge lemmas: the literals of the property text are the constants of the sources -/
theorem year_ms : Generated.nns_millisecondsInYear = 31536000000 := rfl
theorem ten_years_ms : Generated.nns_millisecondsInTenYears = 10 * 31536000000 := rfl
theorem second_ms : Generated.nns_millisecondsInSecond = 1000 := rfl

/-- the recorded owner of a name (`none`: never registered) -/
def ownerRec (s : State) (n : Name) : Option Hash := (mget s.names n).map (·.owner)

/-! ### accounting -/

/-- One invocation (any method, signer set, caller, time, arguments) preserves the accounting invariant. -/
theorem accounting_step (s : State) (env : Env) (op : Op) (h : AccInv s) : AccInv (invoke s env op).1 :=
  accInv_step s env op h

/-- Every state reached by a history from a fresh deployment satisfies the invariant: this discharges the
hypothesis `AccInv s` of the per-invocation theorems below for all reachable states. -/
theorem reachable_accounting (hist : List (Env × Op)) : AccInv (run init hist) := accInv_run hist init accInv_init

/-- After every prefix of every history from a fresh deployment: `totalSupply` = number of non-TLD names
recorded = sum of all balances; `balanceOf o` = number of names recorded for `o`; `tokensOf o` lists
exactly the non-TLD names whose recorded owner is `o`. -/
theorem accounting_all_histories (hist : List (Env × Op)) :
    let s := run init hist
    totalSupply s = countNonTLD s.names ∧ total s.bal = totalSupply s ∧
    (∀ o, o.length = 20 → balanceOf s o = some (countOwned s.names o)) ∧
    (∀ o n, o.length = 20 →
      (n ∈ (tokensOf s o).getD [] ↔ ∃ ns, mget s.names n = some ns ∧ isTLD n = false ∧ ns.owner = o)) := by
  intro s
  have h : AccInv s := accInv_run hist init accInv_init
  refine ⟨h.supply, h.sum, ?_, ?_⟩
  · intro o ho
    simp only [balanceOf, ho, if_true, h.bal o]
  · intro o n ho
    simp only [tokensOf, ho, if_true, Option.getD_some, List.mem_map, List.mem_filter, beq_iff_eq]
    constructor
    · rintro ⟨kv, ⟨hkv, hko⟩, hv⟩
      obtain ⟨⟨o', k⟩, v⟩ := kv
      simp only at hko hv; subst hko; subst hv
      have hg := mem_mget_of_uniq h.ut hkv
      rw [h.toks o' k] at hg
      cases hn : mget s.names k with
      | none => simp only [hn] at hg; simp at hg
      | some ns =>
        simp only [hn] at hg
        by_cases c : isTLD k = false ∧ ns.owner = o'
        · rw [if_pos c] at hg; injection hg with hg; subst hg
          exact ⟨ns, hn, c.1, c.2⟩
        · rw [if_neg c] at hg; simp at hg
    · rintro ⟨ns, hn, ht, ho'⟩
      have hg := h.toks o n
      simp only [hn] at hg
      rw [if_pos ⟨ht, ho'⟩] at hg
      exact ⟨((o, n), n), ⟨mget_some_mem hg, rfl⟩, rfl⟩

/-- A recorded name is never removed: "names ever registered" and "names recorded" coincide, so the supply
counts the non-TLD names ever registered. -/
theorem names_persist_step (s : State) (env : Env) (op : Op) (h : AccInv s) (n : Name)
    (hn : mget s.names n ≠ none) : mget (invoke s env op).1.names n ≠ none := by
  unfold invoke
  cases hst : step s env op with
  | none => exact hn
  | some out =>
    obtain ⟨s', r, ev⟩ := out
    show mget s'.names n ≠ none
    have put : ∀ k v, mget (mput s.names k v) n ≠ none := by
      intro k v; rw [mget_mput]; split
      · simp
      · exact hn
    cases step_names_cases h hst with
    | same e _ => rw [e]; exact hn
    | rewrite k ns ns' _ _ e _ => rw [e]; exact put k ns'
    | tld k ns' _ _ e _ => rw [e]; exact put k ns'
    | selfTransfer k ns _ _ e _ => rw [e]; exact hn
    | move k ns ns' _ _ e _ => rw [e]; exact put k ns'
    | new k ns' _ _ e _ => rw [e]; exact put k ns'

theorem names_persist (h1 h2 : List (Env × Op)) (n : Name)
    (hn : mget (run init h1).names n ≠ none) : mget (run init (h1 ++ h2)).names n ≠ none := by
  have happ : ∀ (l1 l2 : List (Env × Op)) (s : State), run s (l1 ++ l2) = run (run s l1) l2 := by
    intro l1; induction l1 with
    | nil => intro l2 s; rfl
    | cons x xs ih => intro l2 s; obtain ⟨e, o⟩ := x; exact ih l2 _
  rw [happ]
  have hinv : AccInv (run init h1) := accInv_run h1 init accInv_init
  generalize run init h1 = s at hn hinv
  induction h2 generalizing s with
  | nil => exact hn
  | cons x xs ih =>
    obtain ⟨e, o⟩ := x
    exact ih _ (names_persist_step s e o hinv n hn) (accInv_step s e o hinv)

/-! ### availability -/

/-- Below an existing TLD and an unexpired parent chain, a well-formed non-TLD name is available exactly
when it is unregistered or `now ≥ expiration`, and the parent holds no records of sub-names of it (C12). -/
theorem availability_boundary (s : State) (env : Env) (n : Name)
    (hok : env.nameOK n = true) (hl : isTLD n = false)
    (hroot : s.roots.contains ((split dot n).getLastD []) = true)
    (hpar : parentExpired s env.now 1 (split dot n) = false) :
    isAvailable s env n = some (!live s env.now n && !conflict s (joinDots ((split dot n).drop 1)) n) := by
  have hlen := isTLD_false_of_len hl
  unfold isAvailable
  simp only [hok, Bool.not_true, Bool.false_eq_true, if_false, hroot, parentExpired_zero, hpar, Bool.or_false]
  cases hlive : live s env.now n with
  | true => simp
  | false => simp [hlen]

/-- unavailable from its registration until its expiration time … -/
theorem unavailable_until_expiration (s : State) (env : Env) (n : Name) (ns : NameState)
    (hok : env.nameOK n = true) (hl : isTLD n = false)
    (hroot : s.roots.contains ((split dot n).getLastD []) = true)
    (hpar : parentExpired s env.now 1 (split dot n) = false)
    (hreg : mget s.names n = some ns) (ht : env.now < ns.exp) : isAvailable s env n = some false := by
  rw [availability_boundary s env n hok hl hroot hpar]
  have : live s env.now n = true := (live_iff s env.now n).mpr ⟨ns, hreg, ht⟩
  simp [this]

/-- … and available again from that very instant (`now = expiration` included). -/
theorem available_from_expiration (s : State) (env : Env) (n : Name) (ns : NameState)
    (hok : env.nameOK n = true) (hl : isTLD n = false)
    (hroot : s.roots.contains ((split dot n).getLastD []) = true)
    (hpar : parentExpired s env.now 1 (split dot n) = false)
    (hreg : mget s.names n = some ns) (ht : ns.exp ≤ env.now)
    (hc : conflict s (joinDots ((split dot n).drop 1)) n = false) : isAvailable s env n = some true := by
  rw [availability_boundary s env n hok hl hroot hpar]
  have : live s env.now n = false := by
    cases hlv : live s env.now n with
    | false => rfl
    | true =>
      obtain ⟨ns2, h2, h3⟩ := (live_iff s env.now n).mp hlv
      rw [hreg] at h2; injection h2 with h2; subst h2; omega
  rw [this, hc]; rfl

/-- `register` on a recorded name answers `false` and changes nothing exactly while `now < expiration` … -/
theorem register_refuses_unexpired (s : State) (env : Env) (n : Name) (o : Hash) (e : Bytes) (a b c d : Int)
    (ns : NameState) (out : Halt) (hreg : mget s.names n = some ns) (ht : env.now < ns.exp)
    (h : register s env n o e a b c d = some out) : out = (s, .bool false, []) := by
  obtain ⟨_, _, _, _, _, _, _, _, _, hcase⟩ := register_inv h
  rcases hcase with ⟨ns2, h2, _, e2⟩ | ⟨ns2, s1, h2, h3, _⟩ | ⟨s1, h2, _⟩
  · exact e2
  · rw [hreg] at h2; injection h2 with h2; subst h2; omega
  · rw [hreg] at h2; simp at h2

/-- … and from `now ≥ expiration` on a successful `register` moves the name from the old owner to the new
one: the record gets the new owner, no admin and a fresh expiration, the supply is unchanged, exactly
`Transfer(old, new, 1, name)` is emitted, and balances and token lists follow. -/
theorem register_takeover (s s' : State) (env : Env) (n : Name) (o : Hash) (e : Bytes) (a b c d : Int)
    (ns : NameState) (r : Ret) (ev : List Event) (hinv : AccInv s)
    (hreg : mget s.names n = some ns) (ht : ns.exp ≤ env.now)
    (h : register s env n o e a b c d = some (s', r, ev)) :
    r = .bool true ∧ ev = [.transfer ns.owner o 1 n] ∧
    mget s'.names n = some ⟨o, n, env.now + c * 1000, []⟩ ∧
    s'.supply = s.supply ∧
    (∀ x, (mget s'.bal x).getD 0 =
        (mget s.bal x).getD 0 + (if ns.owner = x then -1 else 0) + (if o = x then 1 else 0)) ∧
    mget s'.toks (o, n) = some n ∧ (ns.owner ≠ o → mget s'.toks (ns.owner, n) = none) := by
  obtain ⟨_, htld, _, _, _, _, hlen, _, _, hcase⟩ := register_inv h
  rcases hcase with ⟨ns2, h2, h3, _⟩ | ⟨ns2, s1, h2, _, _, hs1, e2⟩ | ⟨s1, h2, _⟩
  · rw [hreg] at h2; injection h2 with h2; subst h2; omega
  · rw [hreg] at h2; injection h2 with h2; subst h2
    injection e2 with e3 e4; injection e4 with e5 e6
    subst e3; subst e5; subst e6
    obtain ⟨_, l1, _, l3, l4, l5, _, _⟩ := saveDomain_some hs1
    have hinv' : AccInv (updateBalance s1 n o 1) := by
      have := accInv_step s env (.register n o e a b c d) hinv
      unfold invoke at this
      rw [show step s env (.register n o e a b c d) = register s env n o e a b c d from rfl, h] at this
      exact this
    have hnew : mget (updateBalance s1 n o 1).names n = some ⟨o, n, env.now + c * 1000, []⟩ := by
      rw [updateBalance_names, l1, mget_mput_self]; rfl
    refine ⟨rfl, rfl, hnew, l3, ?_, ?_, ?_⟩
    · intro x
      rw [updateBalance_bal', l4, updateBalance_bal', getD_updBal, getD_updBal]
    · have := hinv'.toks o n
      rw [hnew] at this
      rw [this]; simp [htld]
    · intro hne
      have := hinv'.toks ns.owner n
      rw [hnew] at this
      rw [this]
      have : ¬(isTLD n = false ∧ o = ns.owner) := fun c => hne c.2.symm
      simp [this]
  · rw [hreg] at h2; simp at h2

/-! ### transfer and renew -/

/-- A successful `transfer` is witnessed by the recorded owner, announces exactly `Transfer(from, to, 1,
name)` and changes only the owner (clearing the admin) of that one name; a transfer to oneself changes
nothing at all. Roots, supply, price, records and every other name stay as they are. -/
theorem transfer_frame (s s' : State) (env : Env) (to : Hash) (t : Name) (ev : List Event)
    (h : transfer s env to t = some (s', .bool true, ev)) :
    ∃ ns, mget s.names t = some ns ∧ env.now < ns.exp ∧ witness env ns.owner = true ∧
      ev = [.transfer ns.owner to 1 t] ∧
      (ns.owner = to → s' = s) ∧
      (ns.owner ≠ to → mget s'.names t = some { ns with owner := to, admin := [] }) ∧
      (∀ k, k ≠ t → mget s'.names k = mget s.names k) ∧
      s'.roots = s.roots ∧ s'.supply = s.supply ∧ s'.recs = s.recs ∧ s'.price = s.price := by
  obtain ⟨hto, htld, ns, hns, hcase⟩ := transfer_inv h
  obtain ⟨hg, hlt⟩ := nameStateWithKey_some hns
  rcases hcase with ⟨_, e⟩ | ⟨hw, _, e⟩
  · injection e with _ e2; injection e2 with e3 _; injection e3 with e4; simp at e4
  · injection e with e1 e2; injection e2 with _ e3; subst e3
    refine ⟨ns, hg, hlt, hw, rfl, ?_, ?_, ?_, ?_, ?_, ?_, ?_⟩
    · intro hft; rw [if_pos hft] at e1; exact e1
    · intro hft; rw [if_neg hft] at e1; subst e1
      simp only [updateBalance_names]; rw [mget_mput_self]
    · intro k hk
      by_cases hft : ns.owner = to
      · rw [if_pos hft] at e1; subst e1; rfl
      · rw [if_neg hft] at e1; subst e1
        simp only [updateBalance_names]; rw [mget_mput_other _ _ (Ne.symm hk)]
    all_goals
      by_cases hft : ns.owner = to
      · rw [if_pos hft] at e1; subst e1; rfl
      · rw [if_neg hft] at e1; subst e1; rfl

/-- A successful `renew` adds a whole number of years (1..10) to the expiration, for non-TLD names never
beyond ten years after the block time, returns the new expiration and changes nothing else. -/
theorem renew_bounds (s s' : State) (env : Env) (n : Name) (y : Int) (r : Ret) (ev : List Event) (hinv : AccInv s)
    (h : renew s env n y = some (s', r, ev)) :
    ∃ ns, mget s.names n = some ns ∧ 1 ≤ y ∧ y ≤ 10 ∧
      mget s'.names n = some { ns with exp := ns.exp + 31536000000 * y } ∧
      r = .int (ns.exp + 31536000000 * y) ∧ ev = [.renew n ns.exp (ns.exp + 31536000000 * y)] ∧
      (isTLD n = false → ns.exp + 31536000000 * y ≤ env.now + 10 * 31536000000) ∧
      (∀ k, k ≠ n → mget s'.names k = mget s.names k) ∧
      s'.roots = s.roots ∧ s'.supply = s.supply ∧ s'.bal = s.bal ∧ s'.toks = s.toks ∧ s'.recs = s.recs := by
  obtain ⟨h1, h2, _, ns, hns, _, _, hten, e⟩ := renew_inv h
  obtain ⟨hg, _, _⟩ := fragNameState_some hns
  have hk := hinv.key n ns hg
  injection e with e1 e2; injection e2 with e3 e4; subst e1; subst e3; subst e4
  rw [year_ms, ten_years_ms] at *
  refine ⟨ns, hg, h1, h2, ?_, rfl, rfl, ?_, ?_, rfl, rfl, rfl, rfl, rfl⟩
  · show mget (mput s.names ns.name _) n = _
    rw [hk, mget_mput_self]
  · intro hl
    have := isTLD_false_of_len hl
    have hne := split_ne_nil dot n
    apply hten
    cases hs : split dot n with
    | nil => exact absurd hs hne
    | cons f fs =>
      rw [hs] at this
      cases fs with
      | nil => simp at this
      | cons g gs => simp
  · intro k hkn
    show mget (mput s.names ns.name _) k = _
    rw [hk, mget_mput_other _ _ (Ne.symm hkn)]

/-! ### ownerOf / properties -/

/-- `ownerOf` answers only for a recorded name that is unexpired together with every enclosing name up to
the TLD, and then with the recorded owner. -/
theorem ownerOf_only_live_chain (s : State) (env : Env) (n : Name) (o : Hash) (h : ownerOf s env n = some o) :
    (∀ m ∈ chain 0 (split dot n), live s env.now m = true) ∧ ownerRec s n = some o := by
  unfold ownerOf at h
  dsimp only at h
  split at h
  · simp at h
  · cases hf : fragNameState s env.now n (split dot n) with
    | none => rw [hf] at h; simp at h
    | some ns =>
      rw [hf] at h; simp at h
      obtain ⟨hg, hlt, hp⟩ := fragNameState_some hf
      refine ⟨?_, by simp [ownerRec, hg, h]⟩
      rw [chain_zero_split]
      intro m hm
      rcases List.mem_cons.mp hm with rfl | hm
      · exact (live_iff s env.now m).mpr ⟨ns, hg, hlt⟩
      · exact (parentExpired_false_iff s env.now 1 _).mp hp m hm

theorem properties_only_live_chain (s : State) (env : Env) (n : Name) (p : Name × Int × Hash)
    (h : properties s env n = some p) :
    (∀ m ∈ chain 0 (split dot n), live s env.now m = true) ∧
    ∃ ns, mget s.names n = some ns ∧ p = (ns.name, ns.exp, ns.admin) := by
  unfold properties at h
  dsimp only at h
  split at h
  · simp at h
  · cases hf : fragNameState s env.now n (split dot n) with
    | none => rw [hf] at h; simp at h
    | some ns =>
      rw [hf] at h; simp at h
      obtain ⟨hg, hlt, hp⟩ := fragNameState_some hf
      refine ⟨?_, ns, hg, h.symm⟩
      rw [chain_zero_split]
      intro m hm
      rcases List.mem_cons.mp hm with rfl | hm
      · exact (live_iff s env.now m).mpr ⟨ns, hg, hlt⟩
      · exact (parentExpired_false_iff s env.now 1 _).mp hp m hm

/-- conversely, under an unexpired chain `ownerOf` does answer -/
theorem ownerOf_answers (s : State) (env : Env) (n : Name) (hl : isTLD n = false)
    (hc : ∀ m ∈ chain 0 (split dot n), live s env.now m = true) : ∃ o, ownerOf s env n = some o := by
  rw [chain_zero_split] at hc
  obtain ⟨ns, hg, hlt⟩ := (live_iff s env.now n).mp (hc n List.mem_cons_self)
  have hp : parentExpired s env.now 1 (split dot n) = false :=
    (parentExpired_false_iff s env.now 1 _).mpr (fun m hm => hc m (List.mem_cons_of_mem _ hm))
  refine ⟨ns.owner, ?_⟩
  unfold ownerOf
  simp only [isTLD_false_of_len hl, if_false, fragNameState, nameStateWithKey, hg, hp]
  have : ¬ env.now ≥ ns.exp := by omega
  simp [this]

/-! ### notifications -/

/-- Every change of the recorded owner of a non-TLD name (first registration, takeover, transfer) within
one invocation is announced by that invocation's notification list being exactly
`[Transfer(old owner | null, new owner, 1, name)]`: one notification, for that name, with those parties. -/
theorem one_transfer_per_owner_change (s s' : State) (env : Env) (op : Op) (r : Ret) (ev : List Event)
    (hinv : AccInv s) (h : step s env op = some (s', r, ev)) (n : Name) (hl : isTLD n = false)
    (hch : ownerRec s' n ≠ ownerRec s n) :
    ∃ new, ownerRec s' n = some new ∧ ev = [.transfer ((ownerRec s n).getD []) new 1 n] := by
  unfold ownerRec at *
  cases step_names_cases hinv h with
  | same e _ => rw [e] at hch; exact absurd rfl hch
  | selfTransfer k ns _ _ e _ => rw [e] at hch; exact absurd rfl hch
  | rewrite k ns ns' hg ho e _ =>
    rw [e, mget_mput] at hch
    by_cases c : k = n
    · subst c; simp [hg, ho] at hch
    · simp [c] at hch
  | tld k ns' hk _ e _ =>
    rw [e, mget_mput] at hch
    by_cases c : k = n
    · subst c; rw [hk] at hl; simp at hl
    · simp [c] at hch
  | move k ns ns' _ hg e hev =>
    rw [e, mget_mput] at hch ⊢
    by_cases c : k = n
    · subst c; exact ⟨ns'.owner, by simp, by simp [hg, hev]⟩
    · simp [c] at hch
  | new k ns' _ hg e hev =>
    rw [e, mget_mput] at hch ⊢
    by_cases c : k = n
    · subst c; exact ⟨ns'.owner, by simp, by simp [hg, hev]⟩
    · simp [c] at hch

/-- … and there is never more than one `Transfer` notification per invocation; when there is one,
`Transfer(from, to, amount, name)`, the amount is 1, `to` is the owner recorded afterwards and `from` the
owner recorded before (null for a first registration). -/
theorem transfer_event_sound (s s' : State) (env : Env) (op : Op) (r : Ret) (ev : List Event)
    (hinv : AccInv s) (h : step s env op = some (s', r, ev)) :
    (ev.filter isTransferEv).length ≤ 1 ∧
    ∀ f t a n, Event.transfer f t a n ∈ ev →
      a = 1 ∧ ownerRec s' n = some t ∧ f = (ownerRec s n).getD [] := by
  have none_case : (∀ e ∈ ev, isTransferEv e = false) →
      (ev.filter isTransferEv).length ≤ 1 ∧ ∀ f t a n, Event.transfer f t a n ∈ ev →
        a = 1 ∧ ownerRec s' n = some t ∧ f = (ownerRec s n).getD [] := by
    intro hno
    refine ⟨?_, ?_⟩
    · have : ev.filter isTransferEv = [] := by
        rw [List.filter_eq_nil_iff]; intro e he; simp [hno e he]
      simp [this]
    · intro f t a n hm
      have := hno _ hm
      simp [isTransferEv] at this
  unfold ownerRec
  cases step_names_cases hinv h with
  | same e hno => exact none_case hno
  | rewrite k ns ns' hg ho e hno => exact none_case hno
  | tld k ns' hk _ e hno => exact none_case hno
  | selfTransfer k ns _ hg e hev =>
    subst hev; subst e
    refine ⟨Nat.le_refl 1, ?_⟩
    intro f t a n hm
    simp at hm
    obtain ⟨rfl, rfl, rfl, rfl⟩ := hm
    simp [hg]
  | move k ns ns' _ hg e hev =>
    subst hev
    refine ⟨Nat.le_refl 1, ?_⟩
    intro f t a n hm
    simp at hm
    obtain ⟨rfl, rfl, rfl, rfl⟩ := hm
    simp [hg, e, mget_mput_self]
  | new k ns' _ hg e hev =>
    subst hev
    refine ⟨Nat.le_refl 1, ?_⟩
    intro f t a n hm
    simp at hm
    obtain ⟨rfl, rfl, rfl, rfl⟩ := hm
    simp [hg, e, mget_mput_self]

/-! ### non-vacuity: a concrete history with a registration, an expiry takeover by another owner, a
transfer and a renewal; block times around the expiration instant -/

def U1 : Hash := List.replicate 20 1
def U2 : Hash := List.replicate 20 2
def com : Name := [99, 111, 109]
def aCom : Name := [97, 46, 99, 111, 109]
def envC (now : Int) : Env := ⟨[], [], 1, 1, now, fun _ => true, true, 0⟩
def envU (u : Hash) (now : Int) : Env := ⟨[u], [], 0, 1, now, fun _ => true, true, 0⟩
def mail : Bytes := [101, 64, 120]

/-- `com` by the committee at 1000; `a.com` for U1 at 2000 with 100 s (expires at 102000) -/
def hist1 : List (Env × Op) :=
  [(envC 1000, .setPrice 1), (envC 1000, .registerTLD com mail 1 2 1000000 4),
   (envU U1 2000, .register aCom U1 mail 1 2 100 4)]

example : (run init hist1).supply = 1 ∧ balanceOf (run init hist1) U1 = some 1 ∧
    tokensOf (run init hist1) U1 = some [aCom] ∧ ownerRec (run init hist1) aCom = some U1 := by decide
-- exp − 1: still registered; exp: available again
example : isAvailable (run init hist1) (envU U2 101999) aCom = some false := by decide
example : isAvailable (run init hist1) (envU U2 102000) aCom = some true := by decide
example : ownerOf (run init hist1) (envU U2 101999) aCom = some U1 := by decide
example : ownerOf (run init hist1) (envU U2 102000) aCom = none := by decide
-- at exp − 1 a second registration is refused, at exp U2 takes the name over
example : (invoke (run init hist1) (envU U2 101999) (.register aCom U2 mail 1 2 100 4)).2 = some (.bool false, []) := by
  decide
example : (invoke (run init hist1) (envU U2 102000) (.register aCom U2 mail 1 2 100 4)).2 =
    some (.bool true, [.transfer U1 U2 1 aCom]) := by decide
example : let s := (invoke (run init hist1) (envU U2 102000) (.register aCom U2 mail 1 2 100 4)).1
    s.supply = 1 ∧ balanceOf s U1 = some 0 ∧ balanceOf s U2 = some 1 ∧ tokensOf s U1 = some [] ∧ tokensOf s U2 = some [aCom] := by
  decide
-- transfer by the owner, then the former owner is refused; renew by one year
example : (invoke (run init hist1) (envU U1 3000) (.transfer U2 aCom)).2 = some (.bool true, [.transfer U1 U2 1 aCom]) := by
  decide
example : (invoke (invoke (run init hist1) (envU U1 3000) (.transfer U2 aCom)).1 (envU U1 3001) (.transfer U1 aCom)).2 =
    some (.bool false, []) := by decide
example : (invoke (run init hist1) (envU U1 3000) (.renew aCom 1)).2 =
    some (.int (102000 + 31536000000), [.renew aCom 102000 (102000 + 31536000000)]) := by decide
-- ten years at most: 100 s + 10 years lies beyond now + 10 years
example : (invoke (run init hist1) (envU U1 3000) (.renew aCom 10)).2 = none := by decide

/-! ## Frame of the model, regenerated: who can write the NEP-11 accounting and the name states

Checked by kernel evaluation over `NeoFS.Generated.Footprint.table` (grouped by contract: `contracts`), the MAY-WRITE footprint recomputed from the Go sources on
every run (`extract footprint`; `Model/Footprint.lean`). -/
section Footprint
open NeoFS.Footprint NeoFS.Generated.Footprint

def fpTotalSupply : Fam := exactly NeoFS.Generated.nns_prefixTotalSupply_bytes
def fpBalances : Fam := startingWith NeoFS.Generated.nns_prefixBalance_bytes
def fpAccountTokens : Fam := startingWith NeoFS.Generated.nns_prefixAccountToken_bytes
def fpNames : Fam := startingWith NeoFS.Generated.nns_prefixName_bytes
def fpRoots : Fam := startingWith NeoFS.Generated.nns_prefixRoot_bytes

/-- totalSupply is written only by `register` (and deployment); balances and the per-owner token index only by `register` and
`transfer` (and the upgrade migration); nobody deletes totalSupply. -/
theorem nep11_accounting_written_only_by_register_and_transfer :
    onlyBy contracts "nns" "put" fpTotalSupply ["register", "_deploy"] = true ∧
    onlyBy contracts "nns" "delete" fpTotalSupply [] = true ∧
    onlyBy contracts "nns" "put" fpBalances ["register", "transfer", "_deploy"] = true ∧
    onlyBy contracts "nns" "delete" fpBalances ["register", "transfer", "_deploy"] = true ∧
    onlyBy contracts "nns" "put" fpAccountTokens ["register", "transfer", "_deploy"] = true ∧
    onlyBy contracts "nns" "delete" fpAccountTokens ["register", "transfer", "_deploy"] = true := by decide +kernel

/-- Name states (owner, admin, expiration) are written only by register / registerTLD / renew / transfer / setAdmin (and the
migration) and are never deleted; the TLD set only by registerTLD (and the migration); the NEP-11 `Transfer` notification comes
from `register` and `transfer` only. -/
theorem name_states_written_only_by_the_ownership_methods :
    onlyBy contracts "nns" "put" fpNames ["register", "registerTLD", "renew", "transfer", "setAdmin", "_deploy"] = true ∧
    onlyBy contracts "nns" "delete" fpNames [] = true ∧
    onlyBy contracts "nns" "put" fpRoots ["registerTLD", "_deploy"] = true ∧ onlyBy contracts "nns" "delete" fpRoots [] = true ∧
    namedOnlyBy contracts "nns" "notify" "Transfer" ["register", "transfer"] = true := by decide +kernel

example : does contracts "nns" "register" "put" fpTotalSupply = true ∧ does contracts "nns" "transfer" "put" fpBalances = true ∧
    does contracts "nns" "transfer" "delete" fpAccountTokens = true ∧ does contracts "nns" "renew" "put" fpNames = true ∧
    does contracts "nns" "registerTLD" "put" fpRoots = true ∧ named contracts "nns" "transfer" "notify" "Transfer" = true := by decide +kernel
example : onlyBy (withRow contracts ⟨"nns", "renew", "put", "", "", NeoFS.Generated.nns_prefixTotalSupply_bytes, true⟩)
    "nns" "put" fpTotalSupply ["register", "_deploy"] = false := by decide +kernel
end Footprint

end NeoFS.Props.C10
