import NeoFS.Lemmas.BalanceLocks
import NeoFS.Model.BalanceSystem
import NeoFS.Generated.Consts
import NeoFS.Generated.Footprint
/-! # C09 — Balance locks: funds stay on the lock account until burnt or until the first tick with
`epoch ≥ until`; then exactly the remainder returns to the parent and the lock account disappears

Property theorems only; helper lemmas are in `NeoFS/Lemmas/BalanceLocks.lean` (and the files it
imports), the model in `NeoFS/Model/Balance.lean`. Lock accounts are the records with
`parent ≠ []` (this is how `NewEpoch` recognises them). `unlockOne env e cur k` is one iteration of
the loop of `NewEpoch` on key `k`; `tickFold` is the whole loop over the sorted key snapshot. -/
namespace NeoFS.Props.C09
open NeoFS NeoFS.Balance

/-- HALTed `lock(d, f, t, amt, till)` inside the quantifier with `f ≠ t`: the lock record is exactly
`⟨amt, till, f⟩`, `f` pays exactly `amt` (and holds at least that much), nobody else is touched.
The quantifier lets `t` already hold a record with balance 0 (e.g. `⟨0,0,[]⟩` left by a
zero-amount transfer): its `till`/`parent` are replaced, as in the code.
(The invariant `SInv` is not needed.) -/
theorem lock_creates (s s' : State) (env : Env) (d : List Nat) (f t : Hash) (amt till : Int)
    (r : Option Bool) (ev : List Event) (hw : WFOp s (.lock d f t amt till)) (hft : f ≠ t)
    (h : invoke s env (.lock d f t amt till) = (s', some (r, ev))) :
    getAcc s'.accts t = ⟨amt, till, f⟩ ∧
      (getAcc s'.accts f).bal = (getAcc s.accts f).bal - amt ∧
      (∀ k, k ≠ f → k ≠ t → getAcc s'.accts k = getAcc s.accts k) ∧
      0 ≤ amt ∧ amt ≤ (getAcc s.accts f).bal := by
  obtain ⟨h0, hle, ht, _, hf, hothers⟩ :=
    lock_step_exact s s' env d f t amt till r ev hw.1 hw.2.1 hft (invoke_eq_halt_inv _ _ _ _ _ _ h)
  exact ⟨ht, hf, hothers, h0, hle⟩

/-- A tick with `e < till` (HALTed or not, by anybody): the record of `k` keeps `till` and `parent`
and its balance does not go down (it can only receive refunds of other locks whose parent is `k`).
Holds for every record, in particular for lock accounts (`parent ≠ []`). -/
theorem tick_small_inert (s : State) (env : Env) (e : Int) (k : Hash)
    (he : e < (getAcc s.accts k).till) :
    (getAcc (invoke s env (.newEpoch e)).1.accts k).till = (getAcc s.accts k).till ∧
      (getAcc (invoke s env (.newEpoch e)).1.accts k).parent = (getAcc s.accts k).parent ∧
      (getAcc s.accts k).bal ≤ (getAcc (invoke s env (.newEpoch e)).1.accts k).bal := by
  rcases invoke_tick_cases s env e with h | ⟨_, h⟩
  · rw [h]; exact ⟨rfl, rfl, Int.le_refl _⟩
  · rw [h]; exact foldl_inert_key env e _ (s.accts, []) k (Or.inr he)

/-- … and if no stored record names `k` as its parent, the record of `k` is not touched at all. -/
theorem tick_small_unchanged (s : State) (env : Env) (e : Int) (k : Hash)
    (he : e < (getAcc s.accts k).till) (hno : ∀ kv ∈ s.accts, kv.2.parent ≠ k) :
    getAcc (invoke s env (.newEpoch e)).1.accts k = getAcc s.accts k := by
  rcases invoke_tick_cases s env e with h | ⟨_, h⟩
  · rw [h]
  · rw [h]; exact foldl_nochild env e _ (s.accts, []) k (noChild_of_mem k s.accts hno) (Or.inr he)

/-- After a HALTed tick with epoch `e` no 20-byte address holds a lock record with `till ≤ e`:
all locks expiring at one tick are released by that tick. -/
theorem tick_releases_all (s : State) (env : Env) (e : Int) (h : SInv s) (ha : env.alphabet = true) :
    ¬ ∃ k : Hash, k.length = 20 ∧ (getAcc (invoke s env (.newEpoch e)).1.accts k).parent ≠ [] ∧
      (getAcc (invoke s env (.newEpoch e)).1.accts k).till ≤ e := by
  rintro ⟨k, hk, hp, ht⟩
  rw [invoke_tick_alpha s env e ha] at hp ht
  rcases tickFold_releases env e s.accts ⟨h.sheet.uniq, h.sheet.nonneg, h.parents⟩ k hk with h1 | h1
  · exact hp h1
  · exact absurd ht (by dsimp only at h1 ⊢; omega)

/-- The releasing iteration on an expired lock `k` with record `a`: `k` disappears, the parent gets
exactly `+a.bal` and keeps its other fields, every other record is unchanged, and exactly one
`Transfer`/`TransferX` pair with the unlock details is appended. -/
theorem unlock_exact (env : Env) (e : Int) (cur : Accts × List Event) (k : Hash)
    (hk : k.length = 20) (hp : (getAcc cur.1 k).parent ≠ []) (ht : (getAcc cur.1 k).till ≤ e)
    (hpl : (getAcc cur.1 k).parent.length = 20) (hpk : (getAcc cur.1 k).parent ≠ k)
    (hn : Nonneg cur.1) :
    getAcc (unlockOne env e cur k).1 k = Account.empty ∧
      getAcc (unlockOne env e cur k).1 (getAcc cur.1 k).parent =
        { getAcc cur.1 (getAcc cur.1 k).parent with
          bal := (getAcc cur.1 (getAcc cur.1 k).parent).bal + (getAcc cur.1 k).bal } ∧
      (∀ k', k' ≠ k → k' ≠ (getAcc cur.1 k).parent →
        getAcc (unlockOne env e cur k).1 k' = getAcc cur.1 k') ∧
      (unlockOne env e cur k).2 =
        cur.2 ++ [.transfer k (getAcc cur.1 k).parent (getAcc cur.1 k).bal,
                  .transferX k (getAcc cur.1 k).parent (getAcc cur.1 k).bal (4 :: encInt e)] :=
  unlockOne_exact env e cur k hk hp ht hpl hpk (getAcc_nonneg cur.1 k hn)

/-- Whole tick when `k` is the only 20-byte lock account that is due: `k` disappears, its parent
gets exactly the remaining balance, nobody else changes, one notification pair is emitted. -/
theorem tick_single_unlock (s : State) (env : Env) (e : Int) (k : Hash) (h : SInv s)
    (ha : env.alphabet = true) (hk : k.length = 20) (hp : (getAcc s.accts k).parent ≠ [])
    (ht : (getAcc s.accts k).till ≤ e) (hpk : (getAcc s.accts k).parent ≠ k)
    (hothers : ∀ k', k'.length = 20 → k' ≠ k →
      (getAcc s.accts k').parent = [] ∨ e < (getAcc s.accts k').till) :
    getAcc (invoke s env (.newEpoch e)).1.accts k = Account.empty ∧
      getAcc (invoke s env (.newEpoch e)).1.accts (getAcc s.accts k).parent =
        { getAcc s.accts (getAcc s.accts k).parent with
          bal := (getAcc s.accts (getAcc s.accts k).parent).bal + (getAcc s.accts k).bal } ∧
      (∀ k', k' ≠ k → k' ≠ (getAcc s.accts k).parent →
        getAcc (invoke s env (.newEpoch e)).1.accts k' = getAcc s.accts k') ∧
      (invoke s env (.newEpoch e)).2 = some (none,
        [.transfer k (getAcc s.accts k).parent (getAcc s.accts k).bal,
         .transferX k (getAcc s.accts k).parent (getAcc s.accts k).bal (4 :: encInt e)]) := by
  rw [invoke_tick_alpha s env e ha, tickFold_single env e s.accts k h.sheet.nonneg hk hp hothers]
  obtain ⟨h1, h2, h3, h4⟩ := unlockOne_exact env e (s.accts, []) k hk hp ht
    (getAcc_parentOK s.accts k h.parents hp) hpk (getAcc_nonneg s.accts k h.sheet.nonneg)
  exact ⟨h1, h2, h3, by rw [h4]; rfl⟩

/-- Any number of locks expiring at one tick: a due 20-byte lock account `k` whose address is
nobody's refund address is released with exactly its pre-tick balance — the tick's notifications
contain the pair `Transfer k parent bal`, `TransferX k parent bal unlock-details`
(and by `tick_releases_all` the record is gone afterwards). -/
theorem tick_unlock_emits (s : State) (env : Env) (e : Int) (k : Hash) (h : SInv s)
    (ha : env.alphabet = true) (hk : k.length = 20) (hp : (getAcc s.accts k).parent ≠ [])
    (ht : (getAcc s.accts k).till ≤ e) (hno : ∀ kv ∈ s.accts, kv.2.parent ≠ k) :
    ∃ ev1 ev2, (invoke s env (.newEpoch e)).2 = some (none,
      ev1 ++ [.transfer k (getAcc s.accts k).parent (getAcc s.accts k).bal,
              .transferX k (getAcc s.accts k).parent (getAcc s.accts k).bal (4 :: encInt e)] ++ ev2) := by
  obtain ⟨ev1, ev2, h1⟩ := tickFold_emits env e s.accts k h.sheet.nonneg hk hp ht hno
  exact ⟨ev1, ev2, by rw [invoke_tick_alpha s env e ha, h1]⟩

/-- An unlock never happens twice: on an absent record the iteration does nothing at all. -/
theorem no_double_unlock (env : Env) (e : Int) (cur : Accts × List Event) (k : Hash)
    (h : getAcc cur.1 k = Account.empty) : unlockOne env e cur k = cur :=
  unlockOne_noop env e cur k (Or.inl (by rw [h]; rfl))

/-- Whole later ticks: a record that is not a lock account (in particular a released, absent one)
is never debited by a tick and never becomes a lock account again; it can only be credited. -/
theorem released_stays_released (s : State) (env : Env) (e : Int) (k : Hash)
    (h : (getAcc s.accts k).parent = []) :
    (getAcc (invoke s env (.newEpoch e)).1.accts k).parent = [] ∧
      (getAcc (invoke s env (.newEpoch e)).1.accts k).till = (getAcc s.accts k).till ∧
      (getAcc s.accts k).bal ≤ (getAcc (invoke s env (.newEpoch e)).1.accts k).bal := by
  rcases invoke_tick_cases s env e with h1 | ⟨_, h1⟩
  · rw [h1]; exact ⟨h, rfl, Int.le_refl _⟩
  · rw [h1]
    obtain ⟨h2, h3, h4⟩ := foldl_inert_key env e (tickKeys s.accts) (s.accts, []) k (Or.inl h)
    exact ⟨h3.trans h, h2, h4⟩

/-- HALTed `burn(f, amt)` on a 20-byte address: the balance of `f` drops by exactly `amt`;
`till`/`parent` are kept while something remains, the record is deleted when it reaches 0; nobody
else changes; the supply decreases by `amt`. -/
theorem burn_reduces (s s' : State) (env : Env) (f : Hash) (amt : Int) (d : List Nat)
    (r : Option Bool) (ev : List Event) (hf : f.length = 20)
    (h : invoke s env (.burn f amt d) = (s', some (r, ev))) :
    0 ≤ amt ∧ amt ≤ (getAcc s.accts f).bal ∧
      (getAcc s'.accts f).bal = (getAcc s.accts f).bal - amt ∧
      (amt < (getAcc s.accts f).bal →
        getAcc s'.accts f = { getAcc s.accts f with bal := (getAcc s.accts f).bal - amt }) ∧
      (amt = (getAcc s.accts f).bal → f ∉ s'.accts.map (·.1) ∧ getAcc s'.accts f = Account.empty) ∧
      (∀ k, k ≠ f → getAcc s'.accts k = getAcc s.accts k) ∧
      s'.supply = s.supply - amt :=
  burn_step_exact s s' env f amt d r ev hf (invoke_eq_halt_inv _ _ _ _ _ _ h)

-- non-vacuity: the life of one lock account (mint 1000, pay 300, lock 100 until 2, burn 40,
-- tick 1 changes nothing, tick 2 returns the remaining 60, tick 3 finds nothing)
def h3 : List (Env × Op) := demo.take 3
def h4 : List (Env × Op) := demo.take 4
def h5 : List (Env × Op) := demo.take 5
def h6 : List (Env × Op) := demo.take 6
example : getAcc (run init h3).accts L = ⟨100, 2, A⟩ ∧ getAcc (run init h3).accts A = ⟨600, 0, []⟩ := by
  decide
example : WFOp (run init (demo.take 2)) (.lock [] A L 100 2) := by
  simp only [WFOp]; decide
-- a lock target that is not fresh: an empty record left by a zero-amount transfer is overwritten
def hz : List (Env × Op) := [(alpha, .mint A 1000 []), (asA, .transfer A L 0)]
example : L ∈ (run init hz).accts.map (·.1) ∧ getAcc (run init hz).accts L = ⟨0, 0, []⟩ := by decide
example : WFOp (run init hz) (.lock [] A L 100 2) := by
  simp only [WFOp]; decide
example : getAcc (invoke (run init hz) alpha (.lock [] A L 100 2)).1.accts L = ⟨100, 2, A⟩ ∧
    getAcc (invoke (run init hz) alpha (.lock [] A L 100 2)).1.accts A = ⟨900, 0, []⟩ := by decide
example : getAcc (run init h4).accts L = ⟨60, 2, A⟩ ∧ (run init h4).supply = 960 := by decide
example : getAcc (run init h5).accts L = ⟨60, 2, A⟩ := by decide
example : getAcc (run init h6).accts L = Account.empty ∧ getAcc (run init h6).accts A = ⟨660, 0, []⟩ := by
  decide
example : (invoke (run init h5) alpha (.newEpoch 2)).2 =
    some (none, [.transfer L A 60, .transferX L A 60 [4, 2]]) := by decide
example : (invoke (run init h6) alpha (.newEpoch 3)).2 = some (none, []) := by decide
-- the hypotheses of `tick_releases_all` / `tick_single_unlock` / `tick_unlock_emits` are met by
-- the state before the second tick
example : SInv (run init h5) :=
  C01_sheet h5 init inv_init (by simp only [h5, demo, List.take, WFHist, WFOp]; decide)
example : (getAcc (run init h5).accts L).parent ≠ [] ∧ (getAcc (run init h5).accts L).till ≤ 2 ∧
    (getAcc (run init h5).accts L).parent ≠ L ∧ ∀ kv ∈ (run init h5).accts, kv.2.parent ≠ L := by decide
example : ∀ k', k'.length = 20 → k' ≠ L →
    (getAcc (run init h5).accts k').parent = [] ∨ 2 < (getAcc (run init h5).accts k').till := by
  intro k' _ hne
  have hs : (run init h5).accts = [(L, ⟨60, 2, A⟩), (A, ⟨600, 0, []⟩), (B, ⟨300, 0, []⟩)] := by decide
  rw [hs]
  left
  rw [getAcc_cons_other _ _ _ _ (fun e => hne e.symm)]
  by_cases ha : A = k'
  · subst ha; rfl
  · rw [getAcc_cons_other _ _ _ _ ha]
    by_cases hb : B = k'
    · subst hb; rfl
    · rw [getAcc_cons_other _ _ _ _ hb]; rfl
-- two locks expiring at the same tick are both released
def two : List (Env × Op) :=
  [(alpha, .mint A 1000 []), (alpha, .lock [] A L 100 2), (alpha, .lock [] A B 50 3)]
example : (invoke (run init two) alpha (.newEpoch 3)).2 = some (none,
    [.transfer B A 50, .transferX B A 50 [4, 3], .transfer L A 100, .transferX L A 100 [4, 3]]) := by decide
example : getAcc (invoke (run init two) alpha (.newEpoch 3)).1.accts A = ⟨1000, 0, []⟩ ∧
    (invoke (run init two) alpha (.newEpoch 3)).1.accts.length = 1 := by decide
example : (getAcc (invoke (run init h4) alpha (.burn L 60 [])).1.accts L) = Account.empty := by decide

/-! ## The lock life cycle inside the system: ticks come from Netmap

`NeoFS.BalanceSystem` composes the Balance model with the part of Netmap it depends on: `netmap.newEpoch(e)` is refused
unless Alphabet-witnessed and `e` exceeds Netmap's epoch, and otherwise ticks the subscribed Balance contract with exactly
that `e` in the same transaction (the driver executes this model for the harness operation `nmtick`, a real
`netmap.newEpoch` on a chain where Balance is subscribed). -/
section System
open NeoFS.BalanceSystem

/-- A Netmap tick goes through exactly when the Alphabet signs and the epoch grows … -/
theorem system_tick_gate (d : BalanceSystem.State) (env : Env) (e : Int) :
    (BalanceSystem.invoke d env (.nmtick e)).2.isSome = true ↔ (env.alphabet = true ∧ d.nmEpoch < e) := by
  constructor
  · intro h
    by_cases hg : env.alphabet = true ∧ d.nmEpoch < e
    · exact hg
    · have : (env.alphabet && decide (d.nmEpoch < e)) = false := by
        by_cases ha : env.alphabet = true
        · have : ¬ d.nmEpoch < e := fun hl => hg ⟨ha, hl⟩
          simp [this]
        · simp [ha]
      simp [BalanceSystem.invoke, this] at h
  · rintro ⟨ha, hl⟩
    simp [BalanceSystem.invoke, ha, hl, invoke_tick_alpha _ _ _ ha]

/-- … then Balance is ticked with exactly that epoch and Netmap's epoch becomes `e`; a refused tick changes nothing in
either contract. -/
theorem system_tick_effect (d : BalanceSystem.State) (env : Env) (e : Int) :
    (BalanceSystem.invoke d env (.nmtick e)).1 =
      if env.alphabet = true ∧ d.nmEpoch < e then ⟨(Balance.invoke d.bal env (.newEpoch e)).1, e⟩ else d := by
  by_cases hg : env.alphabet = true ∧ d.nmEpoch < e
  · obtain ⟨ha, hl⟩ := hg
    simp [BalanceSystem.invoke, ha, hl, invoke_tick_alpha _ _ _ ha]
  · have : (env.alphabet && decide (d.nmEpoch < e)) = false := by
      by_cases ha : env.alphabet = true
      · have : ¬ d.nmEpoch < e := fun hl => hg ⟨ha, hl⟩
        simp [this]
      · simp [ha]
    simp [BalanceSystem.invoke, this, hg]

/-- Netmap's epoch never goes back, whatever is invoked by whomever: along every history of the system. -/
theorem system_epoch_monotone (hist : List (Env × BalanceSystem.Op)) (d : BalanceSystem.State) :
    d.nmEpoch ≤ (BalanceSystem.run d hist).nmEpoch := by
  induction hist generalizing d with
  | nil => exact Int.le_refl _
  | cons x rest ih =>
    obtain ⟨env, op⟩ := x
    refine Int.le_trans ?_ (ih _)
    cases op with
    | bal op => simp [BalanceSystem.invoke]
    | nmtick e =>
      rw [system_tick_effect]
      by_cases hg : env.alphabet = true ∧ d.nmEpoch < e
      · simp [hg]; omega
      · simp [hg]

/-- **After every successful Netmap tick no lock is overdue**: no 20-byte address holds a lock record whose `until` is at
or below Netmap's (new) epoch — all locks due at the tick were released by it, in the same transaction. -/
theorem system_no_overdue_lock_after_tick (d : BalanceSystem.State) (env : Env) (e : Int) (h : SInv d.bal)
    (hh : (BalanceSystem.invoke d env (.nmtick e)).2.isSome = true) :
    ¬ ∃ k : Hash, k.length = 20 ∧ (getAcc (BalanceSystem.invoke d env (.nmtick e)).1.bal.accts k).parent ≠ [] ∧
      (getAcc (BalanceSystem.invoke d env (.nmtick e)).1.bal.accts k).till ≤
        (BalanceSystem.invoke d env (.nmtick e)).1.nmEpoch := by
  have hg := (system_tick_gate d env e).mp hh
  rw [system_tick_effect]; simp only [hg, and_self, if_true]
  exact tick_releases_all d.bal env e h hg.1

/-- the quantifier of C01/C09 along a history of the system (Netmap ticks carry no restriction) -/
def SysWFHist (d : BalanceSystem.State) : List (Env × BalanceSystem.Op) → Prop
  | [] => True
  | (env, .bal op) :: rest => WFOp d.bal op ∧ SysWFHist (BalanceSystem.invoke d env (.bal op)).1 rest
  | (env, .nmtick e) :: rest => SysWFHist (BalanceSystem.invoke d env (.nmtick e)).1 rest

/-- The balance sheet of C01 holds after every history of the system as well (direct invocations and Netmap ticks
interleaved in any way), so the hypothesis of `system_no_overdue_lock_after_tick` is met at every reachable state. -/
theorem system_sheet_all_histories (hist : List (Env × BalanceSystem.Op)) (d : BalanceSystem.State) (h : SInv d.bal)
    (hw : SysWFHist d hist) : SInv (BalanceSystem.run d hist).bal := by
  induction hist generalizing d with
  | nil => exact h
  | cons x rest ih =>
    obtain ⟨env, op⟩ := x
    cases op with
    | bal op =>
      exact ih _ (by simpa [BalanceSystem.invoke] using inv_invoke d.bal env op h hw.1) hw.2
    | nmtick e =>
      refine ih _ ?_ hw
      rw [system_tick_effect]
      by_cases hg : env.alphabet = true ∧ d.nmEpoch < e
      · simp only [hg, and_self, if_true]; exact inv_invoke d.bal env (.newEpoch e) h trivial
      · simp only [hg, if_false]; exact h

-- non-vacuity: a lock until epoch 2 survives the Netmap tick to 1 and is released by the tick to 2; a stale tick is refused
def sysDemo : List (Env × BalanceSystem.Op) :=
  [(alpha, .bal (.mint A 1000 [])), (alpha, .bal (.lock [] A L 100 2)), (alpha, .nmtick 1)]
example : (getAcc (BalanceSystem.run BalanceSystem.init sysDemo).bal.accts L) = ⟨100, 2, A⟩ ∧
    (BalanceSystem.run BalanceSystem.init sysDemo).nmEpoch = 1 := by decide
example : (BalanceSystem.invoke (BalanceSystem.run BalanceSystem.init sysDemo) alpha (.nmtick 2)).2 =
    some (none, [.transfer L A 100, .transferX L A 100 [4, 2]]) := by decide
example : (BalanceSystem.invoke (BalanceSystem.run BalanceSystem.init sysDemo) alpha (.nmtick 1)).2 = none := by decide
example : SysWFHist BalanceSystem.init sysDemo := by simp only [sysDemo, SysWFHist, WFOp]; decide

end System

/-! ## Frame of the model, regenerated: who can create and remove (lock) account records

Checked by kernel evaluation over `NeoFS.Generated.Footprint.table` (grouped by contract: `contracts`), the MAY-WRITE footprint recomputed from the Go sources on
every run (`extract footprint`; `Model/Footprint.lean`). Lock accounts are account records, family `accPrefix ‖ address`. -/
section Footprint
open NeoFS.Footprint NeoFS.Generated.Footprint

def fpAccounts : Fam := startingWith NeoFS.Generated.balance_accPrefix_bytes

/-- Account records (hence lock accounts) are deleted only on the `token.transfer` path, i.e. by the six balance-moving methods
(and by the upgrade migration); the safe methods and `update` never remove or write one. The tick `newEpoch`, which releases the
locks, and `lock`, which creates them, write nothing but account records. -/
theorem account_records_removed_only_by_balance_moving_methods :
    onlyBy contracts "balance" "delete" fpAccounts ["transfer", "transferX", "mint", "burn", "lock", "newEpoch", "_deploy"] = true ∧
    onlyBy contracts "balance" "put" fpAccounts ["transfer", "transferX", "mint", "burn", "lock", "newEpoch", "_deploy"] = true ∧
    writesWithin contracts "balance" "newEpoch" [fpAccounts] = true ∧ writesWithin contracts "balance" "lock" [fpAccounts] = true := by
  decide +kernel

/-- The `Lock` notification comes from `lock` only; every method that can remove an account record also emits the
`Transfer`/`TransferX` pair (removal happens only inside the transfer helper). -/
theorem lock_notification_only_from_lock_and_removals_are_announced :
    namedOnlyBy contracts "balance" "notify" "Lock" ["lock"] = true ∧
    ["transfer", "transferX", "mint", "burn", "lock", "newEpoch"].all (fun m =>
      named contracts "balance" m "notify" "Transfer" && named contracts "balance" m "notify" "TransferX") = true := by decide +kernel

example : does contracts "balance" "newEpoch" "delete" fpAccounts = true ∧ does contracts "balance" "lock" "put" fpAccounts = true ∧
    named contracts "balance" "lock" "notify" "Lock" = true := by decide +kernel
example : onlyBy (withRow contracts ⟨"balance", "update", "delete", "", "", NeoFS.Generated.balance_accPrefix_bytes, false⟩)
    "balance" "delete" fpAccounts ["transfer", "transferX", "mint", "burn", "lock", "newEpoch", "_deploy"] = false := by decide +kernel
end Footprint

end NeoFS.Props.C09
