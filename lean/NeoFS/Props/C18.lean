import NeoFS.Lemmas.NNSSyntaxEntry
import NeoFS.Lemmas.NNSSyntaxInv
/-! # C18 — NNS accepts exactly well-formed names and record data

Property theorems only.  Model: `NeoFS/Model/NNSSyntax.lean` (the scanners of contracts/nns/contract.go and
the entry points that call them); specification: `NeoFS/Lemmas/NNSSyntaxSpec.lean` (character level, written
from the property text and RFC 4291, no scanner inside); lemmas: `NeoFS/Lemmas/NNSSyntax*.lean`.
Every statement quantifies over **all** byte strings (bytes as `Nat`). -/
namespace NeoFS.Props.C18
open NeoFS NeoFS.NNSSyntax NeoFS.NNSSyntax.Spec

/-! ## the constants of the property text are the constants of the sources -/

theorem bridge_name_lengths : Generated.nns_minDomainNameLength = 3 ∧ Generated.nns_maxDomainNameLength = 255 ∧
    Generated.nns_maxDomainNameFragmentLength = 63 ∧ Generated.nns_maxRootLength = 16 ∧
    Generated.nns_maxTXTRecordLength = 255 := ⟨rfl, rfl, rfl, rfl, rfl⟩

theorem bridge_record_types : Generated.nns_recordtype_A = 1 ∧ Generated.nns_recordtype_CNAME = 5 ∧
    Generated.nns_recordtype_TXT = 16 ∧ Generated.nns_recordtype_AAAA = 28 := ⟨rfl, rfl, rfl, rfl⟩

/-! ## the scanners accept exactly the well-formed strings -/

/-- `safeSplitAndCheck` (behind `register`, `registerTLD`, `isAvailable`, the name argument of the record methods
and CNAME data) returns an empty message **iff** the string is a well-formed name: 3..255 bytes, dot-separated
labels of 1..63 lower-case letters, digits and inner hyphens, last label at most 16 bytes and starting with a letter. -/
theorem name_accepted_iff_valid (s : Bytes) : (safeSplitAndCheck s).isSome = true ↔ ValidName s :=
  safeSplitAndCheck_isSome_iff s

/-- `checkIPv4` answers `true` **iff** the string is a canonical dotted quad (four octets, each `0` or digits
without leading zero, value ≤ 255) of a public unicast address; on every other string it answers `false` or FAULTs. -/
theorem ipv4_accepted_iff_canonical (s : Bytes) : checkIPv4 s = some true ↔ CanonIPv4 s :=
  checkIPv4_true_iff s

/-- `checkIPv6` answers `true` **iff** the string is an RFC 4291 form-1 or form-2 text (eight groups of 1..4
hexadecimal digits, or one `::` standing for at least one group) of a global unicast address. -/
theorem ipv6_accepted_iff_textual (s : Bytes) : checkIPv6 s = some true ↔ TextIPv6 s :=
  checkIPv6_true_iff s

/-- what the loop of `checkIPv6` leaves in its number array is the address the text denotes -/
theorem ipv6_loop_parses (s : Bytes) (v : List Nat) : LoopAccepts (split 58 s) (castL v) ↔ Denotes6 s v := by
  rw [loopAccepts_iff]; exact fragsDenote_iff s v

/-- the `switch typ` of `checkRecord`: data passes **iff** it is well-formed for its type (A: canonical public
IPv4, CNAME: a valid name, TXT: at most 255 bytes, AAAA: textual global-unicast IPv6; no other type passes). -/
theorem record_data_accepted_iff_wellformed (typ : Nat) (data : Bytes) :
    dataOK typ data = true ↔ WellFormedData typ data := dataOK_iff typ data

/-! ## the entry points: accepted iff well-formed and a syntax-free precondition holds -/

theorem isAvailable_accepts_iff (s : State) (env : Env) (n : Bytes) :
    (step s env (.avail n)).isSome = true ↔ ValidName n ∧ AvailPre s n := by
  simp only [step, isSome_map]; exact isAvailable_isSome_iff s n

theorem registerTLD_accepts_iff (s : State) (env : Env) (n : Bytes) :
    (step s env (.tld n)).isSome = true ↔ ValidName n ∧ TLDPre s env n := by
  simp only [step, isSome_map]; exact registerTLD_isSome_iff s env n

theorem register_accepts_iff (s : State) (env : Env) (n : Bytes) (o : Nat) :
    (step s env (.reg n o)).isSome = true ↔ ValidName n ∧ RegisterPre s env n o := by
  simp only [step, isSome_map]; exact register_isSome_iff s env n o

theorem addRecord_accepts_iff (s : State) (env : Env) (n : Bytes) (t : Nat) (d : Bytes) :
    (step s env (.add n t d)).isSome = true ↔
      ValidName n ∧ WellFormedData t d ∧ RecordPre s env n ∧ AddSlot s n t d := by
  simp only [step, isSome_map]; exact addRecord_isSome_iff s env n t d

theorem setRecord_accepts_iff (s : State) (env : Env) (n : Bytes) (t id : Nat) (d : Bytes) :
    (step s env (.set n t id d)).isSome = true ↔
      ValidName n ∧ WellFormedData t d ∧ RecordPre s env n ∧ SetSlot s n t id d := by
  simp only [step, isSome_map]; exact setRecord_isSome_iff s env n t id d

/-- no entry point lets a malformed name or malformed record data through, in any state, with any witnesses -/
theorem accepted_only_wellformed (s : State) (env : Env) (op : Op) (h : (step s env op).isSome = true) :
    WellFormedOp op := step_isSome_wellFormed s env op h

/-! ## everything else is rejected without any state change -/

/-- a malformed name or malformed record data makes the invocation FAULT and leaves the state as it was -/
theorem malformed_rejected_state_unchanged (s : State) (env : Env) (op : Op) (h : ¬ WellFormedOp op) :
    invoke s env op = (s, none) := by
  apply invoke_of_step_none
  cases hs : step s env op with
  | none => rfl
  | some r => exact absurd (step_isSome_wellFormed s env op (by rw [hs]; rfl)) h

/-- whatever the reason of a rejection (syntax, witnesses, state): a FAULT changes nothing -/
theorem rejected_state_unchanged (s : State) (env : Env) (op : Op) (h : (invoke s env op).2 = none) :
    (invoke s env op).1 = s := invoke_fault_state s env op h

/-! ## over all histories: nothing malformed is ever stored -/

/-- one invocation (any method, any arguments, any witnesses) keeps every stored root, name, record name and
record datum well-formed -/
theorem stored_wellformed_step (s : State) (env : Env) (op : Op) (h : StoredWellFormed s) :
    StoredWellFormed (invoke s env op).1 := invoke_wf s env op h

/-- after every history from the deployed state the contract holds well-formed names and record data only -/
theorem stored_wellformed_all_histories (hist : List (Env × Op)) : StoredWellFormed (run init hist) :=
  run_wf hist init init_wf

/-- a history that stores a TLD, a name and the F8 witness as an AAAA record, and refuses the F7 witness -/
example : (run init [(⟨[], true⟩, .tld [99, 111, 109]), (⟨[1], false⟩, .reg [97, 46, 99, 111, 109] 1),
    (⟨[1], false⟩, .add [97, 46, 99, 111, 109] 1 [43, 49, 46, 50, 46, 51, 46, 52]),
    (⟨[1], false⟩, .add [97, 46, 99, 111, 109] 28 [50, 48, 48, 49, 58, 102, 102, 102, 102, 58, 58, 49])]).recs =
    [(⟨[97, 46, 99, 111, 109], [97, 46, 99, 111, 109], 28⟩, [[50, 48, 48, 49, 58, 102, 102, 102, 102, 58, 58, 49]])] := by
  decide

/-! ## non-vacuity: concrete strings on both sides of every equivalence -/

/-- "neofs", "a.b", "xn--80a.x-1.com" are names; "ab", "A.com", "a..com", "-a.com", "a.1om", a 17-byte TLD are not -/
example : ValidName [110, 101, 111, 102, 115] := (name_accepted_iff_valid _).mp (by decide)
example : ValidName [97, 46, 98] := (name_accepted_iff_valid _).mp (by decide)
example : ValidName [120, 110, 45, 45, 56, 48, 97, 46, 120, 45, 49, 46, 99, 111, 109] :=
  (name_accepted_iff_valid _).mp (by decide)
example : ¬ ValidName [97, 98] := fun h => absurd ((name_accepted_iff_valid _).mpr h) (by decide)
example : ¬ ValidName [65, 46, 99, 111, 109] := fun h => absurd ((name_accepted_iff_valid _).mpr h) (by decide)
example : ¬ ValidName [97, 46, 46, 99, 111, 109] := fun h => absurd ((name_accepted_iff_valid _).mpr h) (by decide)
example : ¬ ValidName [45, 97, 46, 99, 111, 109] := fun h => absurd ((name_accepted_iff_valid _).mpr h) (by decide)
example : ¬ ValidName [97, 46, 49, 111, 109] := fun h => absurd ((name_accepted_iff_valid _).mpr h) (by decide)
example : ¬ ValidName (97 :: 46 :: List.replicate 17 97) :=
  fun h => absurd ((name_accepted_iff_valid _).mpr h) (by decide)
example : ValidName (97 :: 46 :: List.replicate 16 97) := (name_accepted_iff_valid _).mp (by decide)

/-- "8.8.8.8" and "223.255.255.254" are accepted; the F7 witnesses "+1.2.3.4" and "+05.2.3.4", "08.8.8.8",
"10.0.0.1", "8.8.8.0", "1.2.3" are not -/
example : CanonIPv4 [56, 46, 56, 46, 56, 46, 56] := (ipv4_accepted_iff_canonical _).mp (by decide)
example : CanonIPv4 [50, 50, 51, 46, 50, 53, 53, 46, 50, 53, 53, 46, 50, 53, 52] :=
  (ipv4_accepted_iff_canonical _).mp (by decide)
example : ¬ CanonIPv4 [43, 49, 46, 50, 46, 51, 46, 52] :=
  fun h => absurd ((ipv4_accepted_iff_canonical _).mpr h) (by decide)
example : ¬ CanonIPv4 [43, 48, 53, 46, 50, 46, 51, 46, 52] :=
  fun h => absurd ((ipv4_accepted_iff_canonical _).mpr h) (by decide)
example : ¬ CanonIPv4 [48, 56, 46, 56, 46, 56, 46, 56] :=
  fun h => absurd ((ipv4_accepted_iff_canonical _).mpr h) (by decide)
example : ¬ CanonIPv4 [49, 48, 46, 48, 46, 48, 46, 49] :=
  fun h => absurd ((ipv4_accepted_iff_canonical _).mpr h) (by decide)
example : ¬ CanonIPv4 [56, 46, 56, 46, 56, 46, 48] :=
  fun h => absurd ((ipv4_accepted_iff_canonical _).mpr h) (by decide)
/-- a FAULT inside the scanner ("8.8.8.1a": `std.Atoi` fails; "8.8.8.256": "not a byte") is a rejection too -/
example : checkIPv4 [56, 46, 56, 46, 56, 46, 49, 97] = none := by decide
example : checkIPv4 [56, 46, 56, 46, 56, 46, 50, 53, 54] = none := by decide

/-- the F8 witnesses "2001:ffff::1", "2001:f00::1" and the F9 witness "2003:1:2:3:4:5:6::" are addresses and are
accepted; "2001:db8::1", "::1", "2a00:::1", "2a00::12345", "2a00:1:2:3:4:5:6:7:8", "2a00::1.2.3.4" are not -/
example : TextIPv6 [50, 48, 48, 49, 58, 102, 102, 102, 102, 58, 58, 49] := (ipv6_accepted_iff_textual _).mp (by decide)
example : TextIPv6 [50, 48, 48, 49, 58, 102, 48, 48, 58, 58, 49] := (ipv6_accepted_iff_textual _).mp (by decide)
example : TextIPv6 [50, 48, 48, 51, 58, 49, 58, 50, 58, 51, 58, 52, 58, 53, 58, 54, 58, 58] :=
  (ipv6_accepted_iff_textual _).mp (by decide)
example : TextIPv6 [50, 65, 48, 48, 58, 49, 58, 50, 58, 51, 58, 52, 58, 53, 58, 54, 58, 70, 102] :=
  (ipv6_accepted_iff_textual _).mp (by decide)
example : ¬ TextIPv6 [50, 48, 48, 49, 58, 100, 98, 56, 58, 58, 49] :=
  fun h => absurd ((ipv6_accepted_iff_textual _).mpr h) (by decide)
example : ¬ TextIPv6 [58, 58, 49] := fun h => absurd ((ipv6_accepted_iff_textual _).mpr h) (by decide)
example : ¬ TextIPv6 [50, 97, 48, 48, 58, 58, 58, 49] :=
  fun h => absurd ((ipv6_accepted_iff_textual _).mpr h) (by decide)
example : ¬ TextIPv6 [50, 97, 48, 48, 58, 58, 49, 50, 51, 52, 53] :=
  fun h => absurd ((ipv6_accepted_iff_textual _).mpr h) (by decide)
example : ¬ TextIPv6 [50, 97, 48, 48, 58, 49, 58, 50, 58, 51, 58, 52, 58, 53, 58, 54, 58, 55, 58, 56] :=
  fun h => absurd ((ipv6_accepted_iff_textual _).mpr h) (by decide)
example : ¬ TextIPv6 [50, 97, 48, 48, 58, 58, 49, 46, 50, 46, 51, 46, 52] :=
  fun h => absurd ((ipv6_accepted_iff_textual _).mpr h) (by decide)

/-- a state with the TLD "com" and "a.com" owned by user 1 -/
def exState : State := ⟨[[99, 111, 109]], [([97, 46, 99, 111, 109], 1), ([99, 111, 109], 0)], []⟩

/-- well-formed data is stored, the same call with the F7 witness "+1.2.3.4" changes nothing, and so does
a call on the malformed name "A.com" -/
example : (invoke exState ⟨[1], false⟩ (.add [97, 46, 99, 111, 109] 1 [56, 46, 56, 46, 56, 46, 56])).1 ≠ exState := by
  decide
example : invoke exState ⟨[1], false⟩ (.add [97, 46, 99, 111, 109] 1 [43, 49, 46, 50, 46, 51, 46, 52]) =
    (exState, none) := malformed_rejected_state_unchanged _ _ _ (by
  rintro ⟨_, h⟩
  rcases h with ⟨_, h⟩ | ⟨h, _⟩ | ⟨h, _⟩ | ⟨h, _⟩
  · exact absurd ((ipv4_accepted_iff_canonical _).mpr h) (by decide)
  all_goals (exact absurd h (by decide)))
example : invoke exState ⟨[1], true⟩ (.reg [65, 46, 99, 111, 109] 1) = (exState, none) :=
  malformed_rejected_state_unchanged _ _ _ (fun h => absurd ((name_accepted_iff_valid _).mpr h) (by decide))
example : (invoke exState ⟨[1], false⟩ (.reg [98, 46, 99, 111, 109] 1)).2 = some (.bool true) := by decide
example : (step exState ⟨[], true⟩ (.tld [111, 114, 103])).isSome = true := by decide
example : (step exState ⟨[], false⟩ (.avail [98, 46, 99, 111, 109])) = some (exState, .bool true) := by decide

end NeoFS.Props.C18
