import NeoFS.Lemmas.NNSRes
import NeoFS.Lemmas.NNSAuth
import NeoFS.Lemmas.NNSHex
import NeoFS.Generated.Consts
import NeoFS.Generated.Footprint
set_option linter.unusedSimpArgs false
set_option linter.unusedVariables false
/-! # C12 — NNS records and resolution reflect exactly the record operations performed

The abstract table of the property is `Recs s tok n tb`: the values kept for name `n` and type byte `tb`
under the enclosing registered name `tok`, in the order `storage.Find` yields them. The theorems show that
add/set/deleteRecords refine list append / replace-by-index / clear on this table, that the three read
paths read it, how the enclosing name is found, how far `resolve` follows CNAMEs, the sub-name conflict
rule, and that expired names are unreachable.

The three read paths agree for every name at any depth below its enclosing registered name
(`read_paths_agree`, `resolve_agrees_without_cname`; F19, where `getRecords`/`getAllRecords` tested the
parent chain of the queried name, is repaired in the sources by f022f46). -/
namespace NeoFS.Props.C12
open NeoFS NeoFS.NNS

/-! ### bridge lemmas -/
theorem max_record_id : Generated.nns_maxRecordID = 15 := rfl          -- ids 0..15: at most 16 records
theorem type_codes : Generated.nns_recordtype_A = 1 ∧ Generated.nns_recordtype_CNAME = 5 ∧
    Generated.nns_recordtype_SOA = 6 ∧ Generated.nns_recordtype_TXT = 16 ∧ Generated.nns_recordtype_AAAA = 28 :=
  ⟨rfl, rfl, rfl, rfl, rfl⟩
theorem txt_limit : Generated.nns_maxTXTRecordLength = 255 := rfl

/-! ### the stored records are well-formed after every history -/

/-- After every history: per (enclosing name, name, type ≠ SOA) at most 16 values, pairwise distinct, at
most one CNAME, and ids are positions — the i-th element of the list is the stored record with id i, whose
own `ID` and `Name` fields say so too. -/
theorem records_wellformed (hist : List (Env × Op)) (tok n : Name) (tb : Nat) (htb : tb ≠ 6) :
    let s := run init hist
    (Recs s tok n tb).length ≤ 16 ∧ (Recs s tok n tb).Nodup ∧ (tb = 5 → (Recs s tok n tb).length ≤ 1) ∧
    (∀ i, (recsByType s tok n tb)[i]? = mget s.recs (tok, n, tb, i)) ∧
    (∀ i r, mget s.recs (tok, n, tb, i) = some r → r.id = (i : Int) ∧ r.name = n ∧ r.typ = (tb : Int)) := by
  intro s
  have hinv : RecInv s.recs := recInv_run hist init recInv_nil
  obtain ⟨k, hk, hc⟩ := hinv.contig tok n tb htb
  obtain ⟨l1, l2⟩ := recsByType_getElem s tok n tb k (by omega) hc
  have hlen : (Recs s tok n tb).length = k := by simp [Recs, l1]
  refine ⟨by omega, ?_, ?_, l2, ?_⟩
  · unfold List.Nodup
    rw [List.pairwise_iff_getElem]
    intro i j hi hj hij heq
    have ei : (Recs s tok n tb)[i]? = some (Recs s tok n tb)[i] := List.getElem?_eq_getElem hi
    have ej : (Recs s tok n tb)[j]? = some (Recs s tok n tb)[j] := List.getElem?_eq_getElem hj
    simp only [Recs, List.getElem?_map, l2] at ei ej
    cases h1 : mget s.recs (tok, n, tb, i) with
    | none => rw [h1] at ei; simp at ei
    | some r1 =>
      cases h2 : mget s.recs (tok, n, tb, j) with
      | none => rw [h2] at ej; simp at ej
      | some r2 =>
        rw [h1] at ei; rw [h2] at ej
        simp only [Option.map_some, Option.some.injEq] at ei ej
        have : r1.data = r2.data := by
          simp only [Recs] at heq
          rw [ei, ej]; exact heq
        have := hinv.distinct tok n tb i j r1 r2 htb h1 h2 this
        omega
  · intro h5
    rw [hlen]
    false_or_by_contra
    have h1 : (mget s.recs (tok, n, tb, 1)).isSome := (hc 1).mpr (by omega)
    subst h5
    have := hinv.cname tok n 1 h1
    omega
  · intro i r hg
    obtain ⟨k1, k2, k3⟩ := hinv.kv _ _ _ _ _ hg
    exact ⟨k3, k1, k2⟩

/-- Every state reached by a history from a fresh deployment satisfies the record invariant: this discharges
the hypothesis `RecInv s.recs` of the per-invocation theorems below for all reachable states. -/
theorem reachable_records (hist : List (Env × Op)) : RecInv (run init hist).recs := recInv_run hist init recInv_nil

/-! ### refinement of the three mutators -/

/-- `addRecord` appends the value to the list of its (enclosing name, name, type) and leaves every other
list — and names, roots, balances, supply, price — untouched. -/
theorem addRecord_refines (s s' : State) (env : Env) (n : Name) (typ : Int) (data : Bytes) (r : Ret) (ev : List Event)
    (hinv : RecInv s.recs) (h : step s env (.addRecord n typ data) = some (s', r, ev)) :
    ∃ tb : Nat, (tb : Int) = typ ∧ (typ = 1 ∨ typ = 5 ∨ typ = 16 ∨ typ = 28) ∧
      Recs s' (tokenOf s env.now n) n tb = Recs s (tokenOf s env.now n) n tb ++ [data] ∧
      (∀ tok' n' tb', tb' ≠ 6 → ¬(tok' = tokenOf s env.now n ∧ n' = n ∧ tb' = tb) →
        Recs s' tok' n' tb' = Recs s tok' n' tb') ∧
      sameLedger s s' := by
  have h' : addRecord s env n typ data = some (s', r, ev) := h
  obtain ⟨tok, _, _, hck, _⟩ := addRecord_inv h'
  obtain ⟨_, _, _, htyp, _⟩ := checkRecord_some hck
  obtain ⟨tb, k, s0, _, t1, t2, hk15, hc, hr0, g1, g2, hs1, hl0⟩ := addRecord_effect hinv h'
  obtain ⟨hl1, _⟩ := updateSoaSerial_some hs1
  refine ⟨tb, t1, htyp, ?_, ?_, sameLedger_trans hl0 hl1⟩
  · unfold Recs
    rw [recsByType_congr (fun i => soaSerial_other hs1 _ _ _ _ t2)]
    have e : recsByType s0 (tokenOf s env.now n) n tb =
        recsByType s (tokenOf s env.now n) n tb ++ [⟨n, typ, data, k⟩] := by
      apply List.ext_getElem?
      intro i
      obtain ⟨m1, m2⟩ := recsByType_getElem s0 _ n tb (k + 1) (by omega) g2
      obtain ⟨l1, l2⟩ := recsByType_getElem s _ n tb k (by omega) hc
      rw [m2, hr0, List.getElem?_append, l1, l2, mget_mput]
      by_cases c : i = k
      · subst c; simp
      · have : ¬((tokenOf s env.now n, n, tb, k) = (tokenOf s env.now n, n, tb, i)) := by
          intro cc; injection cc with _ c2; injection c2 with _ c3; injection c3 with _ c4; exact c c4.symm
        rw [if_neg this]
        by_cases c2 : i < k
        · simp [c2]
        · simp only [c2, if_false]
          have hn : mget s.recs (tokenOf s env.now n, n, tb, i) = none := by
            cases hg : mget s.recs (tokenOf s env.now n, n, tb, i) with
            | none => rfl
            | some v => have := (hc i).mp (by simp [hg]); omega
          rw [hn, List.getElem?_singleton]
          have : i - k ≠ 0 := by omega
          simp [this]
    rw [e]; simp
  · intro tok' n' tb' hne6 hx
    unfold Recs
    rw [recsByType_congr (fun i => soaSerial_other hs1 _ _ _ _ hne6)]
    rw [recsByType_congr]
    intro i
    rw [hr0]
    apply mget_mput_other
    intro c; injection c with c1 c2; injection c2 with c2 c3; injection c3 with c3 _
    exact hx ⟨c1.symm, c2.symm, c3.symm⟩

/-- `setRecord` replaces the value at the given index (which must exist) and nothing else. -/
theorem setRecord_refines (s s' : State) (env : Env) (n : Name) (typ id : Int) (data : Bytes) (r : Ret) (ev : List Event)
    (hinv : RecInv s.recs) (h : step s env (.setRecord n typ id data) = some (s', r, ev)) :
    ∃ tb idb : Nat, (tb : Int) = typ ∧ (idb : Int) = id ∧ idb < (Recs s (tokenOf s env.now n) n tb).length ∧
      Recs s' (tokenOf s env.now n) n tb = (Recs s (tokenOf s env.now n) n tb).set idb data ∧
      (∀ tok' n' tb', tb' ≠ 6 → ¬(tok' = tokenOf s env.now n ∧ n' = n ∧ tb' = tb) →
        Recs s' tok' n' tb' = Recs s tok' n' tb') ∧
      sameLedger s s' := by
  have h' : setRecord s env n typ id data = some (s', r, ev) := h
  obtain ⟨tb, idb, old, s0, _, t1, t2, hid, hold, hr0, g1, hs1, hl0⟩ := setRecord_effect hinv h'
  obtain ⟨hl1, _⟩ := updateSoaSerial_some hs1
  obtain ⟨k, hk, hc⟩ := hinv.contig (tokenOf s env.now n) n tb t2
  obtain ⟨l1, l2⟩ := recsByType_getElem s _ n tb k (by omega) hc
  obtain ⟨k0, hk0, hc0⟩ := g1.contig (tokenOf s env.now n) n tb t2
  obtain ⟨_, m2⟩ := recsByType_getElem s0 _ n tb k0 (by omega) hc0
  have hidk : idb < k := (hc idb).mp (by simp [hold])
  refine ⟨tb, idb, t1, hid, by simp [Recs, l1, hidk], ?_, ?_, sameLedger_trans hl0 hl1⟩
  · unfold Recs
    rw [recsByType_congr (fun i => soaSerial_other hs1 _ _ _ _ t2)]
    have e : recsByType s0 (tokenOf s env.now n) n tb =
        (recsByType s (tokenOf s env.now n) n tb).set idb ⟨n, typ, data, id⟩ := by
      apply List.ext_getElem?
      intro i
      rw [m2, hr0, List.getElem?_set, l1, l2, mget_mput]
      by_cases c : idb = i
      · subst c; simp [hidk]
      · have : ¬((tokenOf s env.now n, n, tb, idb) = (tokenOf s env.now n, n, tb, i)) := by
          intro cc; injection cc with _ c2; injection c2 with _ c3; injection c3 with _ c4; exact c c4
        simp [this, c]
    rw [e, List.map_set]
  · intro tok' n' tb' hne6 hx
    unfold Recs
    rw [recsByType_congr (fun i => soaSerial_other hs1 _ _ _ _ hne6)]
    rw [recsByType_congr]
    intro i
    rw [hr0]
    apply mget_mput_other
    intro c; injection c with c1 c2; injection c2 with c2 c3; injection c3 with c3 _
    exact hx ⟨c1.symm, c2.symm, c3.symm⟩

/-- `deleteRecords` refuses the SOA type, empties the list of one (enclosing name, name, type) and leaves
every other list untouched. -/
theorem deleteRecords_refines (s s' : State) (env : Env) (n : Name) (typ : Int) (r : Ret) (ev : List Event)
    (h : step s env (.deleteRecords n typ) = some (s', r, ev)) :
    typ ≠ 6 ∧ ∃ tb : Nat, byteOf typ = some tb ∧ tb ≠ 6 ∧
      Recs s' (tokenOf s env.now n) n tb = [] ∧
      (∀ tok' n' tb', tb' ≠ 6 → ¬(tok' = tokenOf s env.now n ∧ n' = n ∧ tb' = tb) →
        Recs s' tok' n' tb' = Recs s tok' n' tb') ∧
      sameLedger s s' := by
  have h' : deleteRecords s env n typ = some (s', r, ev) := h
  obtain ⟨h0, _, _, ns, tb, s1, _, _, htb, hs1, e⟩ := deleteRecords_inv h'
  injection e with e1 _; subst e1
  have h6 : typ ≠ 6 := h0
  have hne : tb ≠ 6 := by
    intro c; subst c
    unfold byteOf at htb
    split at htb
    · injection htb with htb
      by_cases hz : 0 ≤ typ
      · have : typ % 256 = typ := Int.emod_eq_of_lt hz (by omega)
        rw [this] at htb; omega
      · have : typ % 256 = typ + 256 := by omega
        rw [this] at htb; omega
    · simp at htb
  obtain ⟨hl1, _⟩ := updateSoaSerial_some hs1
  refine ⟨h6, tb, htb, hne, ?_, ?_, sameLedger_trans ⟨rfl, rfl, rfl, rfl, rfl, rfl⟩ hl1⟩
  · unfold Recs
    rw [recsByType_congr (fun i => soaSerial_other hs1 _ _ _ _ hne)]
    rw [recsByType_eq]
    have : ∀ i, mget (List.filter (fun kv => delPred (tokenOf s env.now n) n tb kv.1) s.recs)
        (tokenOf s env.now n, n, tb, i) = none := by
      intro i; rw [mget_del]; simp
    have e2 : (List.range 256).filterMap (fun i => mget ({ s with recs := s.recs.filter (fun kv =>
        !(kv.1.1 == tokenOf s env.now n && kv.1.2.1 == n && kv.1.2.2.1 == tb)) } : State).recs
        (tokenOf s env.now n, n, tb, i)) = [] := by
      rw [List.filterMap_eq_nil_iff]
      intro i _
      exact this i
    rw [e2]; rfl
  · intro tok' n' tb' hne6 hx
    unfold Recs
    rw [recsByType_congr (fun i => soaSerial_other hs1 _ _ _ _ hne6)]
    rw [recsByType_congr]
    intro i
    show mget (List.filter (fun kv => delPred (tokenOf s env.now n) n tb kv.1) s.recs) (tok', n', tb', i) = _
    rw [mget_del, if_neg hx]

/-- The mutators preserve the record invariant (so in particular `setRecord` cannot duplicate another
record's value — F16 — and `addRecord` respects the limits). -/
theorem record_invariant_step (s : State) (env : Env) (op : Op) (h : RecInv s.recs) :
    RecInv (invoke s env op).1.recs := recInv_step s env op h

/-! ### SOA -/

/-- No method ever removes an SOA record. -/
theorem soa_never_deleted (s : State) (env : Env) (op : Op) (tok n : Name) (i : Nat)
    (h : (mget s.recs (tok, n, 6, i)).isSome) : (mget (invoke s env op).1.recs (tok, n, 6, i)).isSome := by
  have put : ∀ (m : Map RKey Rec) k v, (mget m (tok, n, 6, i)).isSome → (mget (mput m k v) (tok, n, 6, i)).isSome := by
    intro m k v hm; rw [mget_mput]; split
    · simp
    · exact hm
  have serial : ∀ {s0 s1 : State} {now : Int} {t : Name}, updateSoaSerial s0 now t = some s1 →
      (mget s0.recs (tok, n, 6, i)).isSome → (mget s1.recs (tok, n, 6, i)).isSome := by
    intro s0 s1 now t hs hm
    obtain ⟨_, rec, a, b, c, d, e, f, g, _, _, hr⟩ := updateSoaSerial_some hs
    rw [hr]; exact put _ _ _ hm
  unfold invoke
  cases hst : step s env op with
  | none => exact h
  | some out =>
    obtain ⟨s', r, ev⟩ := out
    show (mget s'.recs (tok, n, 6, i)).isSome
    cases op with
    | setPrice p =>
      obtain ⟨_, _, _, e⟩ := setPrice_inv hst
      injection e with e1 _; subst e1; exact h
    | transfer to t =>
      obtain ⟨_, _, ns, _, hcase⟩ := transfer_inv hst
      rcases hcase with ⟨_, e⟩ | ⟨_, _, e⟩
      · injection e with e1 _; subst e1; exact h
      · injection e with e1 _; subst e1
        split
        · exact h
        · exact h
    | renew n' y =>
      obtain ⟨_, _, _, ns, _, _, _, _, e⟩ := renew_inv hst
      injection e with e1 _; subst e1; exact h
    | setAdmin n' a =>
      obtain ⟨_, _, ns, _, _, e⟩ := setAdmin_inv hst
      injection e with e1 _; subst e1; exact h
    | updateSOA n' e a b c d =>
      obtain ⟨_, _, _, s1, hs1, e⟩ := updateSOA_inv hst
      injection e with e1 _; subst e1
      obtain ⟨_, _, data, hr⟩ := putSoaRecord_some hs1
      rw [hr]; exact put _ _ _ h
    | registerTLD n' e a b c d =>
      obtain ⟨_, _, _, _, s1, hs1, e⟩ := registerTLD_inv hst
      injection e with e1 _; subst e1
      obtain ⟨_, _, _, _, _, _, _, tk, data, hr⟩ := saveDomain_some hs1
      rw [hr]; exact put _ _ _ h
    | register n' o e a b c d =>
      obtain ⟨_, _, _, _, _, _, _, _, _, hcase⟩ := register_inv hst
      rcases hcase with ⟨ns, _, _, e⟩ | ⟨ns, s1, _, _, _, hs1, e⟩ | ⟨s1, _, _, hs1, e⟩
      · injection e with e1 _; subst e1; exact h
      · injection e with e1 _; subst e1
        obtain ⟨_, _, _, _, _, _, _, tk, data, hr⟩ := saveDomain_some hs1
        show (mget s1.recs (tok, n, 6, i)).isSome
        rw [hr]; exact put _ _ _ h
      · injection e with e1 _; subst e1
        obtain ⟨_, _, _, _, _, _, _, tk, data, hr⟩ := saveDomain_some hs1
        show (mget s1.recs (tok, n, 6, i)).isSome
        rw [hr]; exact put _ _ _ h
    | addRecord n' t d =>
      obtain ⟨_, _, s1, _, _, _, _, _, hs1, e⟩ := addRecord_inv hst
      injection e with e1 _; subst e1
      exact serial hs1 (put _ _ _ h)
    | setRecord n' t i' d =>
      obtain ⟨_, _, _, _, s1, _, _, _, _, _, hs1, e⟩ := setRecord_inv hst
      injection e with e1 _; subst e1
      exact serial hs1 (put _ _ _ h)
    | deleteRecords n' t =>
      obtain ⟨h0, _, _, ns, tb, s1, _, _, htb, hs1, e⟩ := deleteRecords_inv hst
      injection e with e1 _; subst e1
      refine serial hs1 ?_
      show (mget (List.filter (fun kv => delPred (tokenOf s env.now n') n' tb kv.1) s.recs) (tok, n, 6, i)).isSome
      rw [mget_del]
      have hne : ¬(tok = tokenOf s env.now n' ∧ n = n' ∧ 6 = tb) := by
        rintro ⟨_, _, c⟩; subst c
        have h6 : t ≠ 6 := h0
        unfold byteOf at htb
        split at htb
        · injection htb with htb
          by_cases hz : 0 ≤ t
          · have : t % 256 = t := Int.emod_eq_of_lt hz (by omega)
            rw [this] at htb; omega
          · have : t % 256 = t + 256 := by omega
            rw [this] at htb; omega
        · simp at htb
      rw [if_neg hne]; exact h

/-- Every successful record mutation rewrites the SOA record of the enclosing registered name with the
block time as its serial (third field), keeping the other six fields. -/
theorem soa_serial_refreshed (s s' : State) (env : Env) (op : Op) (r : Ret) (ev : List Event)
    (h : step s env op = some (s', r, ev)) (n : Name)
    (hop : (∃ t d, op = .addRecord n t d) ∨ (∃ t i d, op = .setRecord n t i d) ∨ (∃ t, op = .deleteRecords n t)) :
    ∃ a b d e f g : Bytes, ∃ rec : Rec, mget s'.recs (tokenOf s env.now n, tokenOf s env.now n, 6, 0) = some rec ∧
      rec.data = a ++ space :: b ++ space :: itoa env.now ++ space :: d ++ space :: e ++ space :: f ++ space :: g := by
  have fin : ∀ {s0 : State}, updateSoaSerial s0 env.now (tokenOf s env.now n) = some s' →
      ∃ a b d e f g : Bytes, ∃ rec : Rec, mget s'.recs (tokenOf s env.now n, tokenOf s env.now n, 6, 0) = some rec ∧
        rec.data = a ++ space :: b ++ space :: itoa env.now ++ space :: d ++ space :: e ++ space :: f ++ space :: g := by
    intro s0 hs
    obtain ⟨_, rec, a, b, c, d, e, f, g, _, _, hr⟩ := updateSoaSerial_some hs
    exact ⟨a, b, d, e, f, g, _, by rw [hr]; exact mget_mput_self _ _ _, rfl⟩
  rcases hop with ⟨t, d, rfl⟩ | ⟨t, i, d, rfl⟩ | ⟨t, rfl⟩
  · obtain ⟨tok, _, s1, hck, _, _, _, _, hs1, e⟩ := addRecord_inv (show addRecord s env n t d = some (s', r, ev) from h)
    obtain ⟨_, htok, _⟩ := checkRecord_some hck
    injection e with e1 _; subst e1; subst htok
    exact fin hs1
  · obtain ⟨tok, _, _, _, s1, hck, _, _, _, _, hs1, e⟩ :=
      setRecord_inv (show setRecord s env n t i d = some (s', r, ev) from h)
    obtain ⟨_, htok, _⟩ := checkRecord_some hck
    injection e with e1 _; subst e1; subst htok
    exact fin hs1
  · obtain ⟨_, _, _, ns, tb, s1, _, _, _, hs1, e⟩ :=
      deleteRecords_inv (show deleteRecords s env n t = some (s', r, ev) from h)
    injection e with e1 _; subst e1
    exact fin hs1

/-! ### the read paths -/

/-- `getRecords` answers with the list of the table … -/
theorem getRecords_reads (s : State) (env : Env) (n : Name) (tb : Nat) (l : List Bytes) (hinv : RecInv s.recs)
    (hb : tb < 256) (h : getRecords s env n (tb : Int) = some l) : l = Recs s (tokenOf s env.now n) n tb := by
  unfold getRecords tokenIDFromName at h
  dsimp only at h
  split at h
  · simp at h
  · split at h
    · simp at h
    · rename_i tok htok
      split at htok
      · injection htok with htok; subst htok
        split at h
        · simp at h
        · split at h
          · simp at h
          · rename_i tb' htb'
            have : tb' = tb := by
              unfold byteOf at htb'
              split at htb'
              · injection htb' with htb'
                have : ((tb : Int) % 256) = tb := Int.emod_eq_of_lt (by omega) (by omega)
                rw [this] at htb'; omega
              · simp at htb'
            subst this
            injection h with h
            rw [← h, filter_typ_id hinv _ n tb' _ rfl]; rfl
      · simp at htok

/-- … and `getAllRecords` / every step of `resolve` iterate over a list whose entries of one type are that
same list, in the same order: the three read paths see the same stored values. -/
theorem allRecords_reads (s : State) (env : Env) (n : Name) (rs : List Rec) (hinv : RecInv s.recs)
    (h : allRecords s env n = some rs) (tb : Nat) (hb : tb < 256) :
    dataOf (tb : Int) rs = Recs s (tokenOf s env.now n) n tb := by
  unfold allRecords tokenIDFromName at h
  split at h
  · simp at h
  · rename_i tok htok
    split at htok
    · injection htok with htok; subst htok
      split at h
      · simp at h
      · injection h with h
        unfold dataOf Recs
        rw [← h, recsOfName_filter_type hinv _ n tb _ rfl hb]
    · simp at htok

/-- The read paths agree for every name, at any depth below its enclosing registered name: `getAllRecords`
answers exactly when the records of the name can be read through its enclosing name (`allRecords`, which
is also what every step of `resolve` reads), with the same list; and `getRecords` answers exactly then, with
the entries of the asked type of that list. All three FAULT together otherwise. -/
theorem read_paths_agree (s : State) (env : Env) (n : Name) (tb : Nat) (hinv : RecInv s.recs)
    (hl : isTLD n = false) (hb : tb < 256) :
    getAllRecords s env n = allRecords s env n ∧
    getRecords s env n (tb : Int) = (allRecords s env n).map (dataOf (tb : Int)) := by
  have hlen := isTLD_false_of_len hl
  constructor
  · unfold getAllRecords; rw [if_neg hlen]
  · unfold getRecords allRecords
    dsimp only
    rw [if_neg hlen]
    cases htok : tokenIDFromName s env n with
    | none => rfl
    | some tok =>
      dsimp only
      cases hf : fragNameState s env.now tok (split dot tok) with
      | none => rfl
      | some ns =>
        dsimp only
        rw [byteOf_nat tb hb]
        simp only [Option.map_some]
        unfold dataOf
        rw [recsOfName_filter_type hinv tok n tb _ rfl hb, filter_typ_id hinv tok n tb _ rfl]

/-! ### which enclosing name holds the records -/

/-- `tokenIDFromName`: among the name itself and its enclosing names down to the second level, longest
first, the first one that is registered and unexpired; the name itself if there is none. -/
theorem token_is_longest_live_suffix (s : State) (now : Int) (n : Name) :
    (tokenOf s now n = n ∧ ∀ c ∈ candidates n, live s now c = false) ∨
    (live s now (tokenOf s now n) = true ∧ ∃ longer shorter, candidates n = longer ++ tokenOf s now n :: shorter ∧
      ∀ c ∈ longer, live s now c = false) := tokenOf_spec s now n

/-! ### resolution: at most two CNAME links, by structural recursion on the budget -/

/-- no CNAME (or CNAME records asked for): the records of the name -/
theorem resolve_direct (s : State) (env : Env) (n : Name) (typ : Int) (rs : List Rec) (hl : isTLD n = false)
    (h0 : hop s env n = some rs) (hc : cnameOf rs = [] ∨ typ = 5) : resolve s env n typ = some (dataOf typ rs) := by
  unfold resolve
  rw [if_neg (isTLD_false_of_len hl), resolveAux_succ, h0]
  have : (cnameOf rs).length = 0 ∨ typ = cnameType := by
    rcases hc with c | c
    · left; rw [c]; rfl
    · right; exact c
  simp only [this, if_true, List.nil_append]

/-- one link: the records of the name followed by those of its CNAME target -/
theorem resolve_one_link (s : State) (env : Env) (n : Name) (typ : Int) (rs0 rs1 : List Rec) (hl : isTLD n = false)
    (ht : typ ≠ 5) (h0 : hop s env n = some rs0) (hc0 : cnameOf rs0 ≠ [])
    (h1 : hop s env (cnameOf rs0) = some rs1) (hc1 : cnameOf rs1 = []) :
    resolve s env n typ = some (dataOf typ rs0 ++ dataOf typ rs1) := by
  unfold resolve
  have n0 : ¬((cnameOf rs0).length = 0 ∨ typ = cnameType) := by
    rintro (c | c)
    · exact hc0 (List.eq_nil_of_length_eq_zero c)
    · exact ht c
  rw [if_neg (isTLD_false_of_len hl), resolveAux_succ, h0]
  simp only [n0, if_false]
  rw [resolveAux_succ, h1]
  simp [hc1]

/-- two links: still answered -/
theorem resolve_two_links (s : State) (env : Env) (n : Name) (typ : Int) (rs0 rs1 rs2 : List Rec) (hl : isTLD n = false)
    (ht : typ ≠ 5) (h0 : hop s env n = some rs0) (hc0 : cnameOf rs0 ≠ [])
    (h1 : hop s env (cnameOf rs0) = some rs1) (hc1 : cnameOf rs1 ≠ [])
    (h2 : hop s env (cnameOf rs1) = some rs2) (hc2 : cnameOf rs2 = []) :
    resolve s env n typ = some (dataOf typ rs0 ++ dataOf typ rs1 ++ dataOf typ rs2) := by
  unfold resolve
  have n0 : ¬((cnameOf rs0).length = 0 ∨ typ = cnameType) := by
    rintro (c | c)
    · exact hc0 (List.eq_nil_of_length_eq_zero c)
    · exact ht c
  have n1 : ¬((cnameOf rs1).length = 0 ∨ typ = cnameType) := by
    rintro (c | c)
    · exact hc1 (List.eq_nil_of_length_eq_zero c)
    · exact ht c
  rw [if_neg (isTLD_false_of_len hl), resolveAux_succ, h0]
  simp only [n0, if_false]
  rw [resolveAux_succ, h1]
  simp only [n1, if_false]
  rw [resolveAux_succ, h2]
  simp [hc2]

/-- a third link exhausts the budget: the call FAULTs whatever lies behind it — in particular on every
chain of four or more links and on every cycle (the property leaves exactly three links open; the code
refuses them). The recursion is structural on the budget, so `resolve` is total. -/
theorem resolve_three_links_fault (s : State) (env : Env) (n : Name) (typ : Int) (rs0 rs1 rs2 : List Rec)
    (ht : typ ≠ 5) (h0 : hop s env n = some rs0) (hc0 : cnameOf rs0 ≠ [])
    (h1 : hop s env (cnameOf rs0) = some rs1) (hc1 : cnameOf rs1 ≠ [])
    (h2 : hop s env (cnameOf rs1) = some rs2) (hc2 : cnameOf rs2 ≠ []) :
    resolve s env n typ = none := by
  unfold resolve
  split
  · rfl
  · have n0 : ¬((cnameOf rs0).length = 0 ∨ typ = cnameType) := by
      rintro (c | c)
      · exact hc0 (List.eq_nil_of_length_eq_zero c)
      · exact ht c
    have n1 : ¬((cnameOf rs1).length = 0 ∨ typ = cnameType) := by
      rintro (c | c)
      · exact hc1 (List.eq_nil_of_length_eq_zero c)
      · exact ht c
    have n2 : ¬((cnameOf rs2).length = 0 ∨ typ = cnameType) := by
      rintro (c | c)
      · exact hc2 (List.eq_nil_of_length_eq_zero c)
      · exact ht c
    rw [resolveAux_succ, h0]
    simp only [n0, if_false]
    rw [resolveAux_succ, h1]
    simp only [n1, if_false]
    rw [resolveAux_succ, h2]
    simp only [n2, if_false]
    rfl

/-- a name that cannot be read anywhere along the followed chain makes `resolve` FAULT -/
theorem resolve_unreachable_fault (s : State) (env : Env) (n : Name) (typ : Int) (h0 : hop s env n = none) :
    resolve s env n typ = none := by
  unfold resolve
  split
  · rfl
  · rw [resolveAux_succ, h0]

/-- `resolve` agrees with `getRecords` wherever no CNAME has to be followed (no CNAME record, or CNAME
records are asked for): same answer, same FAULT — for a name written without the optional trailing dot. -/
theorem resolve_agrees_without_cname (s : State) (env : Env) (n : Name) (tb : Nat) (hinv : RecInv s.recs)
    (hl : isTLD n = false) (hb : tb < 256) (hdot : n.getLast? ≠ some dot)
    (hc : ∀ rs, allRecords s env n = some rs → cnameOf rs = [] ∨ (tb : Int) = 5) :
    resolve s env n (tb : Int) = getRecords s env n (tb : Int) := by
  rw [(read_paths_agree s env n tb hinv hl hb).2]
  have hne : n.length ≠ 0 := by
    intro c
    have : n = [] := List.eq_nil_of_length_eq_zero c
    subst this
    simp [isTLD, split] at hl
  have hhop : hop s env n = allRecords s env n := by
    unfold hop stripDot
    rw [if_neg hne, if_neg hdot]
  cases hr : allRecords s env n with
  | none =>
    rw [resolve_unreachable_fault s env n _ (by rw [hhop, hr])]; rfl
  | some rs =>
    rw [resolve_direct s env n _ rs hl (by rw [hhop, hr]) (hc rs hr)]; rfl

/-! ### expired ⇒ unreachable -/

/-- Records are read only through an enclosing name that is registered and unexpired at the block time,
below unexpired parents of that enclosing name: whatever is stored under an expired name is unreachable for
all three read paths (`allRecords` is what `getAllRecords` and every step of `resolve` read). -/
theorem reads_only_live_token (s : State) (env : Env) (n : Name) :
    (∀ typ l, getRecords s env n typ = some l →
        live s env.now (tokenOf s env.now n) = true ∧
        parentExpired s env.now 1 (split dot (tokenOf s env.now n)) = false) ∧
    (∀ rs, getAllRecords s env n = some rs →
        live s env.now (tokenOf s env.now n) = true ∧
        parentExpired s env.now 1 (split dot (tokenOf s env.now n)) = false) ∧
    (∀ rs, allRecords s env n = some rs →
        live s env.now (tokenOf s env.now n) = true ∧
        parentExpired s env.now 1 (split dot (tokenOf s env.now n)) = false) := by
  have key : ∀ rs, allRecords s env n = some rs →
      live s env.now (tokenOf s env.now n) = true ∧
      parentExpired s env.now 1 (split dot (tokenOf s env.now n)) = false := by
    intro rs h
    unfold allRecords tokenIDFromName at h
    split at h
    · simp at h
    · rename_i tok htok
      split at htok
      · injection htok with htok; subst htok
        split at h
        · simp at h
        · rename_i ns hns
          obtain ⟨g1, g2, g3⟩ := fragNameState_some hns
          exact ⟨(live_iff _ _ _).mpr ⟨ns, g1, g2⟩, g3⟩
      · simp at htok
  refine ⟨?_, ?_, key⟩
  · intro typ l h
    unfold getRecords tokenIDFromName at h
    dsimp only at h
    split at h
    · simp at h
    · split at h
      · simp at h
      · rename_i tok htok
        split at htok
        · injection htok with htok; subst htok
          split at h
          · simp at h
          · rename_i ns hns
            obtain ⟨g1, g2, g3⟩ := fragNameState_some hns
            exact ⟨(live_iff _ _ _).mpr ⟨ns, g1, g2⟩, g3⟩
        · simp at htok
  · intro rs h
    unfold getAllRecords at h
    split at h
    · simp at h
    · exact key rs h

/-! ### the sub-name conflict rule -/

/-- `conflict` is exactly "the parent holds a record whose name is `<something>.` followed by the new name":
true sub-names only (F15 repaired: a record of `xa.b.com` does not block `a.b.com`). -/
theorem conflict_iff_true_subname (s : State) (parent n : Name) :
    conflict s parent n = true ↔
      ∃ kv ∈ s.recs, kv.1.1 = parent ∧ ∃ pre : Name, kv.2.name = pre ++ dot :: n := by
  unfold conflict isSubnameOf
  rw [List.any_eq_true]
  constructor
  · rintro ⟨kv, hm, hp⟩
    simp only [Bool.and_eq_true, beq_iff_eq, List.isSuffixOf_iff_suffix] at hp
    obtain ⟨t, ht⟩ := hp.2
    exact ⟨kv, hm, hp.1, t, ht.symm⟩
  · rintro ⟨kv, hm, hp, pre, hpre⟩
    refine ⟨kv, hm, ?_⟩
    simp only [Bool.and_eq_true, beq_iff_eq, List.isSuffixOf_iff_suffix]
    exact ⟨hp, pre, hpre.symm⟩

/-- A name cannot be registered while its parent holds records of sub-names of it. -/
theorem register_conflict_rule (s s' : State) (env : Env) (n : Name) (o : Hash) (e : Bytes) (a b c d : Int)
    (r : Ret) (ev : List Event) (h : step s env (.register n o e a b c d) = some (s', r, ev)) :
    ¬ ∃ kv ∈ s.recs, kv.1.1 = parentName n ∧ ∃ pre : Name, kv.2.name = pre ++ dot :: n := by
  obtain ⟨_, _, _, _, _, hcf, _⟩ := register_inv (show register s env n o e a b c d = some (s', r, ev) from h)
  intro hx
  have := (conflict_iff_true_subname s (parentName n) n).mpr hx
  unfold parentName at this
  rw [hcf] at this; simp at this

/-! ### concrete names and histories for the examples -/

def U1 : Hash := List.replicate 20 1
def U2 : Hash := List.replicate 20 2
def com : Name := [99, 111, 109]
def aCom : Name := [97, 46, 99, 111, 109]
def bCom : Name := [98, 46, 99, 111, 109]
def cCom : Name := [99, 46, 99, 111, 109]
def dCom : Name := [100, 46, 99, 111, 109]
def xACom : Name := [120, 46, 97, 46, 99, 111, 109]
def xYACom : Name := [120, 46, 121, 46, 97, 46, 99, 111, 109]
def aBCom : Name := [97, 46, 98, 46, 99, 111, 109]
def xaBCom : Name := [120, 97, 46, 98, 46, 99, 111, 109]
def zABCom : Name := [122, 46, 97, 46, 98, 46, 99, 111, 109]
def envC (now : Int) : Env := ⟨[], [], 1, 1, now, fun _ => true, true, 0⟩
def envU (u : Hash) (now : Int) : Env := ⟨[u], [], 0, 1, now, fun _ => true, true, 0⟩
def mail : Bytes := [101, 64, 120]
def one : Bytes := [111, 110, 101]
def two : Bytes := [116, 119, 111]

def hist0 : List (Env × Op) :=
  [(envC 1000, .setPrice 1), (envC 1000, .registerTLD com mail 1 2 1000000 4),
   (envU U1 2000, .register aCom U1 mail 1 2 1000 4), (envU U1 2001, .register bCom U1 mail 1 2 1000 4),
   (envU U1 2002, .register cCom U1 mail 1 2 1000 4), (envU U1 2003, .register dCom U1 mail 1 2 1000 4)]

/-- F19 repaired (f022f46): after `addRecord("x.y.a.com", TXT, "one")` with only `a.com` registered, all three
read paths return the record (before the repair `getRecords` and `getAllRecords` FAULTed here) -/
def sDeep : State := (invoke (run init hist0) (envU U1 3000) (.addRecord xYACom 16 one)).1
example : resolve sDeep (envU U2 3001) xYACom 16 = some [one] := by decide
example : getRecords sDeep (envU U2 3001) xYACom 16 = some [one] := by decide
example : (getAllRecords sDeep (envU U2 3001) xYACom).map (fun rs => rs.map (·.data)) = some [one] := by decide

/-! ### hex-LE contract-address records -/

/-- A contract hash written to its `<name>.neofs` TXT record as little-endian hex (`Uint160.StringLE`) is
read back identically by the contracts (`common.ResolveFSContractWithNNS`: `std.Atoi(_, 16)` per byte pair,
two's complement, back to front) and by the Go side (`rpc/nns.AddressFromRecord` and
`deploy.readContractOnChainStateByDomainName`, both `util.Uint160DecodeStringLE`). -/
theorem hexLE_roundtrip (h : Bytes) (hl : h.length = 20) (hb : ∀ b ∈ h, b < 256) :
    Hex.decodeCommon (Hex.encodeLE h) = some h ∧ Hex.decodeStringLE (Hex.encodeLE h) = some h := by
  have hr : ∀ b ∈ h.reverse, b < 256 := fun b hm => hb b (List.mem_reverse.mp hm)
  have hlen : (Hex.encodeLE h).length = 40 := by
    unfold Hex.encodeLE; rw [Hex.length_encode, List.length_reverse, hl]
  constructor
  · unfold Hex.decodeCommon
    rw [if_pos hlen]
    unfold Hex.encodeLE
    rw [Hex.pairsDecode_encode _ hr]
    simp
  · unfold Hex.decodeStringLE
    rw [if_pos hlen]
    unfold Hex.encodeLE
    rw [Hex.hexDecode_encode _ hr]
    simp

/-- the readers agree on every 40-character record they both accept is implied for the hex-LE form; a
concrete hash with high bytes (two's complement path of `std.Atoi`) -/
example : Hex.decodeCommon (Hex.encodeLE ([255, 128, 127, 0, 1] ++ List.replicate 15 200)) =
    some ([255, 128, 127, 0, 1] ++ List.replicate 15 200) := by decide

/-! ### non-vacuity -/

def hist1 : List (Env × Op) :=
  hist0 ++ [(envU U1 3000, .addRecord aCom 16 one), (envU U1 3001, .addRecord aCom 16 two),
            (envU U1 3002, .addRecord xACom 16 one)]

example : getRecords (run init hist1) (envU U2 4000) aCom 16 = some [one, two] := by decide
example : getRecords (run init hist1) (envU U2 4000) xACom 16 = some [one] := by decide
example : resolve (run init hist1) (envU U2 4000) (aCom ++ [46]) 16 = some [one, two] := by decide
-- F16 repaired: setRecord refuses another record's value, accepts its own and a new one
example : (invoke (run init hist1) (envU U1 4000) (.setRecord aCom 16 1 one)).2 = none := by decide
example : (invoke (run init hist1) (envU U1 4000) (.setRecord aCom 16 1 two)).2 = some (.null, []) := by decide
example : getRecords (invoke (run init hist1) (envU U1 4000) (.setRecord aCom 16 0 mail)).1 (envU U2 4001) aCom 16 =
    some [mail, two] := by decide
-- duplicates and the SOA type are refused; deleteRecords empties the type
example : (invoke (run init hist1) (envU U1 4000) (.addRecord aCom 16 two)).2 = none := by decide
example : (invoke (run init hist1) (envU U1 4000) (.deleteRecords aCom 6)).2 = none := by decide
example : getRecords (invoke (run init hist1) (envU U1 4000) (.deleteRecords aCom 16)).1 (envU U2 4001) aCom 16 = some [] := by
  decide
-- expiry: a.com expires at 1002000; at that instant its records are unreachable
example : getRecords (run init hist1) (envU U2 1001999) aCom 16 = some [one, two] := by decide
example : getRecords (run init hist1) (envU U2 1002000) aCom 16 = none := by decide
example : resolve (run init hist1) (envU U2 1002000) aCom 16 = none := by decide
-- F15 repaired: b.com holds a record for xa.b.com; a.b.com is available and can be registered;
-- a record for z.a.b.com (a true sub-name) blocks it
def hist2 : List (Env × Op) := hist0 ++ [(envU U1 3000, .addRecord xaBCom 16 one)]
example : isAvailable (run init hist2) (envU U2 3001) aBCom = some true := by decide
example : (invoke (run init hist2) (envU U1 3001) (.register aBCom U1 mail 1 2 100 4)).2 =
    some (.bool true, [.transfer [] U1 1 aBCom]) := by decide
def hist3 : List (Env × Op) := hist0 ++ [(envU U1 3000, .addRecord zABCom 16 one)]
example : isAvailable (run init hist3) (envU U2 3001) aBCom = some false := by decide
example : (invoke (run init hist3) (envU U1 3001) (.register aBCom U1 mail 1 2 100 4)).2 = none := by decide
-- sub-names that contain the whole name once more (the model's test is "ends with `.`+name", which is what the code's
-- LAST-occurrence search decides; a first-occurrence search finds the name at index 0 / after a letter and misses
-- these): a.com holds a record for x.a.com.x.a.com (both occurrences at label boundaries; `com` is a legal inner
-- label) resp. yx.a.com.x.a.com (first occurrence after a letter): x.a.com is not available and cannot be
-- registered, the record stays readable; x.a.com.yx.a.com (ends with the text after a letter) does not block it
def xAComTwice : Name := xACom ++ dot :: xACom
def yxAComXACom : Name := 121 :: xACom ++ dot :: xACom
def xAComYxACom : Name := xACom ++ dot :: 121 :: xACom
example : conflict (run init (hist0 ++ [(envU U1 3000, .addRecord xAComTwice 16 one)])) aCom xACom = true := by decide
example : conflict (run init (hist0 ++ [(envU U1 3000, .addRecord yxAComXACom 16 one)])) aCom xACom = true := by decide
example : conflict (run init (hist0 ++ [(envU U1 3000, .addRecord xAComYxACom 16 one)])) aCom xACom = false := by decide
def hist4 : List (Env × Op) := hist0 ++ [(envU U1 3000, .addRecord xAComTwice 16 one)]
example : isAvailable (run init hist4) (envU U2 3001) xACom = some false := by decide
example : (invoke (run init hist4) (envU U1 3001) (.register xACom U1 mail 1 2 100 4)).2 = none := by decide
example : resolve (run init hist4) (envU U2 3001) xAComTwice 16 = some [one] := by decide
example : getRecords (run init hist4) (envU U2 3001) xAComTwice 16 = some [one] := by decide
def hist5 : List (Env × Op) := hist0 ++ [(envU U1 3000, .addRecord yxAComXACom 16 one)]
example : isAvailable (run init hist5) (envU U2 3001) xACom = some false := by decide
example : (invoke (run init hist5) (envU U1 3001) (.register xACom U1 mail 1 2 100 4)).2 = none := by decide
def hist6 : List (Env × Op) := hist0 ++ [(envU U1 3000, .addRecord xAComYxACom 16 one)]
example : isAvailable (run init hist6) (envU U2 3001) xACom = some true := by decide
example : (invoke (run init hist6) (envU U1 3001) (.register xACom U1 mail 1 2 100 4)).2 =
    some (.bool true, [.transfer [] U1 1 xACom]) := by decide
-- CNAME chains a → b → c → d: two links answer, three links fail, a cycle fails
def chainHist (names : List (Name × Name)) : List (Env × Op) :=
  hist0 ++ [(envU U1 3000, .addRecord aCom 16 one), (envU U1 3001, .addRecord bCom 16 two),
            (envU U1 3002, .addRecord cCom 16 mail), (envU U1 3003, .addRecord dCom 16 one)] ++
    names.map (fun p => (envU U1 3100, .addRecord p.1 5 p.2))
example : resolve (run init (chainHist [(aCom, bCom)])) (envU U2 4000) aCom 16 = some [one, two] := by decide
example : resolve (run init (chainHist [(aCom, bCom), (bCom, cCom)])) (envU U2 4000) aCom 16 = some [one, two, mail] := by
  decide
set_option maxRecDepth 4000 in
example : resolve (run init (chainHist [(aCom, bCom), (bCom, cCom), (cCom, dCom)])) (envU U2 4000) aCom 16 = none := by
  decide
example : resolve (run init (chainHist [(aCom, bCom), (bCom, aCom)])) (envU U2 4000) aCom 16 = none := by decide
example : resolve (run init (chainHist [(aCom, bCom), (bCom, aCom)])) (envU U2 4000) aCom 5 = some [bCom] := by decide

/-! ## Frame of the model, regenerated: who can write records

Checked by kernel evaluation over `NeoFS.Generated.Footprint.table` (grouped by contract: `contracts`), the MAY-WRITE footprint recomputed from the Go sources on
every run (`extract footprint`; `Model/Footprint.lean`). -/
section Footprint
open NeoFS.Footprint NeoFS.Generated.Footprint

def fpRecords : Fam := startingWith NeoFS.Generated.nns_prefixRecord_bytes

/-- "getRecords/getAllRecords/resolve reflect exactly the successful addRecord/setRecord/deleteRecords calls": records are put only
by these, by the methods that write the SOA record (register, registerTLD, updateSOA) and by the upgrade migration, and are
deleted only by `deleteRecords`. The record methods write nothing but records. -/
theorem records_written_only_by_the_record_methods :
    onlyBy contracts "nns" "put" fpRecords
      ["addRecord", "setRecord", "deleteRecords", "register", "registerTLD", "updateSOA", "_deploy"] = true ∧
    onlyBy contracts "nns" "delete" fpRecords ["deleteRecords"] = true ∧
    ["addRecord", "setRecord", "deleteRecords", "updateSOA"].all (fun m => writesWithin contracts "nns" m [fpRecords]) = true := by
  decide +kernel

example : does contracts "nns" "addRecord" "put" fpRecords = true ∧ does contracts "nns" "setRecord" "put" fpRecords = true ∧
    does contracts "nns" "deleteRecords" "delete" fpRecords = true ∧ does contracts "nns" "deleteRecords" "put" fpRecords = true := by
  decide +kernel
example : onlyBy (withRow contracts ⟨"nns", "renew", "delete", "", "", NeoFS.Generated.nns_prefixRecord_bytes ++ [7], false⟩)
    "nns" "delete" fpRecords ["deleteRecords"] = false := by decide +kernel
end Footprint

end NeoFS.Props.C12
