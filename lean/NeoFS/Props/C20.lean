import NeoFS.Lemmas.EpochStoresRepGet
import NeoFS.Lemmas.EpochStoresAud
import NeoFS.Lemmas.EpochStoresEstSpec
import NeoFS.Lemmas.EpochStoresHist
import NeoFS.Generated.Consts
import NeoFS.Generated.Footprint
/-! # C20 — Epoch-keyed, per-owner and configuration stores return exactly what was put

Property theorems only. Model: `NeoFS/Model/EpochStores.lean` (byte-key level). Lemmas:
`NeoFS/Lemmas/EpochStores*.lean`.

All statements quantify over ALL histories `hist : List (Env × Op)` (any interleaving of any operations of
any family, accepted or FAULTing, any signer sets) run from the freshly deployed state `init`, unless they are
one-step statements about `step`. "Accepted" = the invocation HALTs. Epoch numbers are `EpochOK e`
(`0 ≤ e < 256^40`; the VM stops at 2^255).

The listing methods that `Find` by a prefix ending in a variable-length epoch encoding are NOT exact stores.
For them this file contains: the kernel-checked counterexample (`…_not_exact`), the exact characterisation of
what they return (`…_char`: the entries of every stored epoch whose key bytes begin with the queried bytes), and
the exactness under the explicit extra hypothesis that all stored epochs have encodings of one length
(`…_exact_partial`; the full-strength statement is the same without that hypothesis and is false). -/
namespace NeoFS.Props.C20
open NeoFS NeoFS.EpochStores

/-! ## constants: the literals of the property text vs. the constants regenerated from the sources -/

/-- "older than the documented deltas": `CleanupDelta = 3`, `TotalCleanupDelta = 4` -/
theorem cleanup_deltas : cleanupDelta = 3 ∧ totalCleanupDelta = 4 := ⟨rfl, rfl⟩

/-- key layout constants: `'c'`, `'r'`, `'o'`, owner 25 bytes, container id 32 bytes, estimation postfix 10 bytes,
audit key digest 24 bytes, `"cnr"`, `"est"`, `"config"` (both contracts) -/
theorem layout_constants :
    repCountP = 99 ∧ repValueP = 114 ∧ ownerP = 111 ∧ ownerSize = 25 ∧ cidSize = 32 ∧ postfixSize = 10 ∧
    auditKeySize = 24 ∧ cnrP = [99, 110, 114] ∧ estP = [101, 115, 116] ∧
    cfgP = [99, 111, 110, 102, 105, 103] ∧ cfgPF = cfgP := by decide

/-- no other storage key of the Netmap / NeoFS contracts begins with the configuration prefix, so the
configuration map can be modelled as a store of its own -/
theorem config_prefix_disjoint :
    (∀ k ∈ [Generated.netmap_snapshotEpoch_bytes, Generated.netmap_snapshotCountKey_bytes,
            Generated.netmap_snapshotCurrentIDKey_bytes, Generated.netmap_snapshotBlockKey_bytes,
            Generated.netmap_snapshotKeyPrefix_bytes, Generated.netmap_candidatePrefix,
            Generated.netmap_containerContractKey_bytes, Generated.netmap_balanceContractKey_bytes,
            Generated.netmap_newEpochSubscribersPrefix_bytes, Generated.netmap_node2CandidatePrefix_bytes,
            Generated.netmap_node2NetmapPrefix_bytes], ¬ (cfgP <+: k) ∧ ¬ (k <+: cfgP)) ∧
    (∀ k ∈ [Generated.neofs_alphabetKey_bytes, Generated.neofs_candidatesKey_bytes,
            Generated.neofs_notaryDisabledKey_bytes, Generated.neofs_processingContractKey_bytes,
            Generated.common_voteKey_bytes], ¬ (cfgPF <+: k) ∧ ¬ (k <+: cfgPF)) := by decide

/-- the estimation families of the Container contract do not overlap -/
theorem estimation_prefixes_disjoint : ¬ (cnrP <+: estP) ∧ ¬ (estP <+: cnrP) := by decide

/-! ## A. why fixed-width families are exact and epoch-keyed listings are not -/

/-- **find_family_exact**: for keys `P ‖ f x ‖ rest` with `f` of FIXED width, `Find(P ‖ f x)` returns exactly the
entries of `x` -/
theorem find_family_exact {α X : Type} (P : Bytes) (f : X → Bytes) (w : Nat) (hw : ∀ x, (f x).length = w)
    (s : Store α) (x x' : X) (rest : Bytes) (v : α) :
    (P ++ (f x' ++ rest), v) ∈ find s (P ++ f x) ↔ (P ++ (f x' ++ rest), v) ∈ s ∧ f x' = f x :=
  EpochStores.find_family_exact P f w hw s x x' rest v

/-- the general, variable-width fact: `Find(P ‖ f x)` returns an entry `P ‖ f x' ‖ rest` iff `f x` is a byte
prefix of `f x' ‖ rest` -/
theorem find_family_char {α X : Type} (P : Bytes) (f : X → Bytes) (s : Store α) (x x' : X) (rest : Bytes) (v : α) :
    (P ++ (f x' ++ rest), v) ∈ find s (P ++ f x) ↔ (P ++ (f x' ++ rest), v) ∈ s ∧ f x <+: f x' ++ rest :=
  EpochStores.find_family_char P f s x x' rest v

/-- the NeoVM integer encoding is NOT prefix-free: `enc 1 <+: enc 257`, `enc 0 = []`, `enc 1 <+: enc 65537` -/
theorem enc_not_prefix_free :
    encInt 1 <+: encInt 257 ∧ encInt 1 ≠ encInt 257 ∧ encInt 0 = [] ∧ encInt 1 <+: encInt 65537 ∧
    (encInt 1).length ≠ (encInt 257).length := by decide

/-- … but it is injective and round-trips on epoch numbers -/
theorem enc_roundtrip (e : Int) (h : EpochOK e) : decInt (encInt e) = e := decInt_encInt e h

theorem enc_injective (a b : Int) (ha : EpochOK a) (hb : EpochOK b) (h : encInt a = encInt b) : a = b :=
  encInt_inj a b ha hb h

/-- and among encodings of ONE length the prefix test is the equality test -/
theorem enc_same_length_exact (a b : Int) (r : Bytes) (ha : EpochOK a) (hb : EpochOK b)
    (hl : (encInt a).length = (encInt b).length) : encInt a <+: encInt b ++ r ↔ a = b :=
  encInt_prefix_same_length a b r ha hb hl

example : EpochOK 65536 := by unfold EpochOK; omega

/-! ## transaction atomicity -/

/-- a FAULTed invocation changes no store -/
theorem fault_changes_nothing (s : State) (env : Env) (op : Op) (h : step s env op = none) :
    (invoke s env op).1 = s := invoke_fault s env op h

/-! ## B. Reputation -/

def alphaEnv : Env := ⟨true, []⟩

/-- HALT ⇒ the Alphabet witnessed the put -/
theorem reputation_put_admitted (s s' : State) (env : Env) (e : Int) (p v : Bytes) (r : Ret) (ev : List Event)
    (h : step s env (.rput e p v) = some (s', r, ev)) : env.alpha = true := by
  rcases repEntry_halt s s' env _ r ev h with ⟨_, e2⟩ | ⟨_, _, _, _, ha, _, _⟩
  · simp only [repEntry, h] at e2; cases e2
  · exact ha

/-- **exact characterisation of `listByEpoch`** for all histories: it returns the id `enc e ‖ peer` of every
accepted put — of ANY epoch `e` — whose id bytes begin with `enc q` -/
theorem reputation_listByEpoch_char (hist : List (Env × Op)) (q : Int) (id : Bytes) :
    id ∈ repListByEpoch (run init hist).rep q ↔
      (∃ x ∈ repLog init hist, storageID x.1 x.2.1 = id) ∧ encInt q <+: id := by
  have h := repL_run hist init [] repL_init
  simp only [List.nil_append] at h
  exact mem_repListByEpoch _ _ h q id

/-- full-strength exactness ("listByEpoch q returns exactly the ids put under epoch q") is FALSE:
after one put under epoch 257, `listByEpoch(1)` returns its id although nothing was put under epoch 1 -/
theorem reputation_listByEpoch_not_exact :
    ∃ (hist : List (Env × Op)) (q : Int) (id : Bytes),
      id ∈ repListByEpoch (run init hist).rep q ∧ ∀ x ∈ repLog init hist, x.1 ≠ q := by
  refine ⟨[(alphaEnv, .rput 257 [7] [9])], 1, [1, 1, 7], by decide, ?_⟩
  have : repLog init [(alphaEnv, .rput 257 [7] [9])] = [(257, [7], [9])] := by decide
  rw [this]
  intro x hx
  simp only [List.mem_singleton] at hx
  subst hx
  decide

/-- `listByEpoch q` IS exact when every accepted put used an epoch whose encoding is as long as `enc q`.
(Full strength = this statement without `hlen`; refuted above.) -/
theorem reputation_listByEpoch_exact_partial (hist : List (Env × Op)) (q : Int) (hq : EpochOK q)
    (hok : ∀ x ∈ repLog init hist, EpochOK x.1)
    (hlen : ∀ x ∈ repLog init hist, (encInt x.1).length = (encInt q).length) (id : Bytes) :
    id ∈ repListByEpoch (run init hist).rep q ↔ ∃ x ∈ repLog init hist, x.1 = q ∧ id = storageID q x.2.1 := by
  rw [reputation_listByEpoch_char]
  constructor
  · rintro ⟨⟨x, hx, rfl⟩, hp⟩
    unfold storageID at hp
    have := (encInt_prefix_same_length q x.1 x.2.1 hq (hok x hx) (hlen x hx).symm).mp hp
    exact ⟨x, hx, this.symm, by rw [this]⟩
  · rintro ⟨x, hx, rfl, rfl⟩
    exact ⟨⟨x, hx, rfl⟩, List.prefix_append _ _⟩

example : [1, 7] ∈ repListByEpoch (run init [(alphaEnv, .rput 1 [7] [9]), (⟨false, []⟩, .rput 2 [8] [9])]).rep 1 := by
  decide

/-- **`getByID` is exact** (as a multiset: precisely the values put under the id) when all ids of the history
have one length — e.g. 33-byte peer keys and epochs of one encoding length.
(Full strength = without `hL`; refuted by `reputation_get_not_exact`.) -/
theorem reputation_getByID_exact_partial (hist : List (Env × Op)) (L : Nat) (hb : hist.length + 1 < 256 ^ 40)
    (hL : ∀ x ∈ repLog init hist, (storageID x.1 x.2.1).length = L) (id : Bytes) (hid : id.length = L) :
    (repGetByID (run init hist).rep id).Perm
      (((repLog init hist).filter (fun x => decide (storageID x.1 x.2.1 = id))).map (·.2.2)) := by
  have h := repG_run hist init [] L (repG_init L) (by simpa using hb) hL
  simp only [List.nil_append] at h
  exact repGetByID_perm _ _ L h id hid

/-- **`get(epoch, peer)` is exact** under the same hypothesis -/
theorem reputation_get_exact_partial (hist : List (Env × Op)) (L : Nat) (hb : hist.length + 1 < 256 ^ 40)
    (hL : ∀ x ∈ repLog init hist, (storageID x.1 x.2.1).length = L) (e : Int) (p : Bytes)
    (hid : (storageID e p).length = L) :
    (repGet (run init hist).rep e p).Perm
      (((repLog init hist).filter (fun x => decide (storageID x.1 x.2.1 = storageID e p))).map (·.2.2)) :=
  reputation_getByID_exact_partial hist L hb hL (storageID e p) hid

/-- without the one-length hypothesis `get` is not exact either: a value put under (257, [7]) is returned by
`get(1, [1, 7])` -/
theorem reputation_get_not_exact :
    ∃ (hist : List (Env × Op)) (e : Int) (p v : Bytes),
      v ∈ repGet (run init hist).rep e p ∧ ∀ x ∈ repLog init hist, ¬ (x.1 = e ∧ x.2.1 = p) := by
  refine ⟨[(alphaEnv, .rput 257 [7] [9])], 1, [1, 7], [9], by decide, ?_⟩
  have : repLog init [(alphaEnv, .rput 257 [7] [9])] = [(257, [7], [9])] := by decide
  rw [this]
  intro x hx
  simp only [List.mem_singleton] at hx
  subst hx
  decide

example : repGet (run init [(alphaEnv, .rput 5 [7] [9]), (alphaEnv, .rput 5 [7] [3]), (alphaEnv, .rput 5 [8] [4])]).rep 5 [7]
    = [[9], [3]] := by decide

/-! ## C. Audit -/

/-- **admission**: HALT ⇒ the header parses, the key in it is an Inner Ring member and witnesses the transaction;
the blob is stored unchanged under `ID(header)` -/
theorem audit_put_admitted (s s' : State) (env : Env) (ir : List Bytes) (raw h : Bytes) (r : Ret) (ev : List Event)
    (hs : step s env (.aput ir raw h) = some (s', r, ev)) :
    ∃ hdr, parseHeader raw = some hdr ∧ hdr.frm ∈ ir ∧ hdr.frm ∈ env.wit ∧
      s'.aud = put s.aud (auditID hdr.epoch hdr.cid h) raw := by
  simp only [step] at hs
  cases hp : audPut s.aud env ir raw h with
  | none => rw [hp] at hs; cases hs
  | some a =>
    rw [hp] at hs
    simp only [Option.some.injEq, Prod.mk.injEq] at hs
    obtain ⟨hh1, _, _⟩ := hs
    subst hh1
    obtain ⟨hdr, e1, e2, e3, _, _, e6⟩ := audPut_spec _ _ _ _ _ _ hp
    exact ⟨hdr, e1, e2, e3, e6⟩

/-- **`get(id)` is exact** for all histories: the last blob put under the id, `null` if none -/
theorem audit_get_exact (hist : List (Env × Op)) (id : Bytes) :
    audGet (run init hist).aud id = lastRaw (audLog init hist) id := by
  have h := audL_run hist init [] audL_init
  simp only [List.nil_append] at h
  exact h.2.2 id

/-- **`list()` is exact**: the ids of all accepted puts -/
theorem audit_list_exact (hist : List (Env × Op)) (id : Bytes) :
    id ∈ audList (run init hist).aud ↔ ∃ x ∈ audLog init hist, idA x = id := by
  have h := audL_run hist init [] audL_init
  simp only [List.nil_append] at h
  unfold audList
  rw [mem_audFind _ _ h [] id]
  simp

/-- **exact characterisation of `listByEpoch / listByCID / listByNode`**: the ids of all accepted puts whose
bytes begin with `enc q`, `enc q ‖ cid`, `enc q ‖ cid ‖ sha256(key)[:24]` -/
theorem audit_listByEpoch_char (hist : List (Env × Op)) (q : Int) (id : Bytes) :
    id ∈ audListByEpoch (run init hist).aud q ↔ (∃ x ∈ audLog init hist, idA x = id) ∧ encInt q <+: id := by
  have h := audL_run hist init [] audL_init
  simp only [List.nil_append] at h
  exact mem_audFind _ _ h _ id

theorem audit_listByCID_char (hist : List (Env × Op)) (q : Int) (cid id : Bytes) :
    id ∈ audListByCID (run init hist).aud q cid ↔
      (∃ x ∈ audLog init hist, idA x = id) ∧ encInt q ++ cid <+: id := by
  have h := audL_run hist init [] audL_init
  simp only [List.nil_append] at h
  exact mem_audFind _ _ h _ id

theorem audit_listByNode_char (hist : List (Env × Op)) (q : Int) (cid hk id : Bytes) :
    id ∈ audListByNode (run init hist).aud q cid hk ↔
      (∃ x ∈ audLog init hist, idA x = id) ∧ auditID q cid hk <+: id := by
  have h := audL_run hist init [] audL_init
  simp only [List.nil_append] at h
  exact mem_audFind _ _ h _ id

/-- `listByEpoch q` is exact when all accepted results carry epochs whose encoding is as long as `enc q` -/
theorem audit_listByEpoch_exact_partial (hist : List (Env × Op)) (q : Int) (hq : EpochOK q)
    (hok : ∀ x ∈ audLog init hist, EpochOK x.hdr.epoch)
    (hlen : ∀ x ∈ audLog init hist, (encInt x.hdr.epoch).length = (encInt q).length) (id : Bytes) :
    id ∈ audListByEpoch (run init hist).aud q ↔ ∃ x ∈ audLog init hist, x.hdr.epoch = q ∧ idA x = id := by
  rw [audit_listByEpoch_char]
  constructor
  · rintro ⟨⟨x, hx, rfl⟩, hp⟩
    unfold idA auditID at hp
    have := (encInt_prefix_same_length q x.hdr.epoch _ hq (hok x hx) (hlen x hx).symm).mp hp
    exact ⟨x, hx, this.symm, rfl⟩
  · rintro ⟨x, hx, rfl, rfl⟩
    exact ⟨⟨x, hx, rfl⟩, List.prefix_append _ _⟩

/-- `listByCID(q, cid)` is exact under the same hypothesis when container ids have one length -/
theorem audit_listByCID_exact_partial (hist : List (Env × Op)) (q : Int) (cid : Bytes) (hq : EpochOK q)
    (hok : ∀ x ∈ audLog init hist, EpochOK x.hdr.epoch)
    (hlen : ∀ x ∈ audLog init hist, (encInt x.hdr.epoch).length = (encInt q).length)
    (hcid : ∀ x ∈ audLog init hist, x.hdr.cid.length = cid.length) (id : Bytes) :
    id ∈ audListByCID (run init hist).aud q cid ↔
      ∃ x ∈ audLog init hist, x.hdr.epoch = q ∧ x.hdr.cid = cid ∧ idA x = id := by
  rw [audit_listByCID_char]
  constructor
  · rintro ⟨⟨x, hx, rfl⟩, hp⟩
    unfold idA auditID at hp
    obtain ⟨e1, e2⟩ := (prefix_two_same_length (hlen x hx).symm (hcid x hx).symm).mp hp
    exact ⟨x, hx, (encInt_inj _ _ hq (hok x hx) e1).symm, e2.symm, rfl⟩
  · rintro ⟨x, hx, rfl, rfl, rfl⟩
    refine ⟨⟨x, hx, rfl⟩, ?_⟩
    unfold idA auditID
    rw [← List.append_assoc]
    exact List.prefix_append _ _

/-- `listByNode(q, cid, key)` is exact under the same hypotheses (digests are 32 bytes): precisely the id of the
result that this auditor put for this container in this epoch -/
theorem audit_listByNode_exact_partial (hist : List (Env × Op)) (q : Int) (cid hk : Bytes) (hq : EpochOK q)
    (hok : ∀ x ∈ audLog init hist, EpochOK x.hdr.epoch)
    (hlen : ∀ x ∈ audLog init hist, (encInt x.hdr.epoch).length = (encInt q).length)
    (hcid : ∀ x ∈ audLog init hist, x.hdr.cid.length = cid.length)
    (hdig : hk.length = 32 ∧ ∀ x ∈ audLog init hist, x.h.length = 32) (id : Bytes) :
    id ∈ audListByNode (run init hist).aud q cid hk ↔
      ∃ x ∈ audLog init hist, x.hdr.epoch = q ∧ x.hdr.cid = cid ∧ x.h.take 24 = hk.take 24 ∧ idA x = id := by
  rw [audit_listByNode_char]
  constructor
  · rintro ⟨⟨x, hx, rfl⟩, hp⟩
    have hl : (auditID q cid hk).length = (idA x).length := by
      unfold idA auditID
      simp only [List.length_append, List.length_take, hlen x hx, hcid x hx, hdig.1, hdig.2 x hx]
    have he := hp.eq_of_length hl
    unfold idA auditID at he
    obtain ⟨e1, e2⟩ := List.append_inj he (hlen x hx).symm
    obtain ⟨e3, e4⟩ := List.append_inj e2 (hcid x hx).symm
    exact ⟨x, hx, (encInt_inj _ _ hq (hok x hx) e1).symm, e3.symm, e4.symm, rfl⟩
  · rintro ⟨x, hx, rfl, rfl, e4, rfl⟩
    refine ⟨⟨x, hx, rfl⟩, ?_⟩
    unfold idA auditID
    have : auditKeySize = 24 := rfl
    rw [this, e4]
    exact List.prefix_refl _

/-- a minimal DataAuditResult blob (version length 0, epoch 257, container id [5], key = 33 bytes `2`) -/
def sampleAudit : Bytes :=
  [10, 0, 17, 1, 1, 0, 0, 0, 0, 0, 0, 26, 3, 10, 1, 5, 34, 33] ++ List.replicate 33 2

/-- full-strength exactness of `listByEpoch` is false: a result of epoch 257 is listed for epoch 1 -/
theorem audit_listByEpoch_not_exact :
    ∃ (hist : List (Env × Op)) (q : Int) (id : Bytes),
      id ∈ audListByEpoch (run init hist).aud q ∧ ∀ x ∈ audLog init hist, x.hdr.epoch ≠ q := by
  refine ⟨[(⟨false, [List.replicate 33 2]⟩, .aput [List.replicate 33 2] sampleAudit (List.replicate 32 9))], 1,
    [1, 1, 5] ++ List.replicate 24 9, by decide, ?_⟩
  intro x hx
  have : (audLog init [(⟨false, [List.replicate 33 2]⟩, .aput [List.replicate 33 2] sampleAudit (List.replicate 32 9))]).map
      (·.hdr.epoch) = [257] := by decide
  have hm : x.hdr.epoch ∈ [(257 : Int)] := by rw [← this]; exact List.mem_map_of_mem (f := (·.hdr.epoch)) hx
  simp only [List.mem_singleton] at hm
  rw [hm]; decide

example : parseHeader sampleAudit = some ⟨257, [5], List.replicate 33 2⟩ := by decide

/-! ## D. Container size estimations -/

/-- **admission**: HALT ⇒ the container exists, the key witnesses the transaction and is a node of
`netmap.snapshot(1)`, the previous epoch's network map -/
theorem estimation_put_admitted (s s' : State) (env : Env) (snap : Option (List Bytes)) (e : Int) (cid : Bytes)
    (size : Int) (pub h : Bytes) (r : Ret) (ev : List Event)
    (hs : step s env (.cput snap e cid size pub h) = some (s', r, ev)) :
    cid ∈ s.cnt.live ∧ pub ∈ env.wit ∧ ∃ nodes, snap = some nodes ∧ pub ∈ nodes := by
  simp only [step] at hs
  cases hp : estPut s.cnt env snap e cid size pub h with
  | none => rw [hp] at hs; cases hs
  | some c' =>
    obtain ⟨h1, _, h3, h4⟩ := estPut_admitted _ _ _ _ _ _ _ _ _ hp
    exact ⟨h1, h3, h4⟩

/-- cleanup on a tick is Alphabet-only and, through the Netmap contract, only for a strictly larger epoch -/
theorem estimation_tick_admitted (s s' : State) (env : Env) (cur e : Int) (r : Ret) (ev : List Event)
    (hs : step s env (.tick cur e) = some (s', r, ev)) : env.alpha = true ∧ cur < e := by
  rcases step_cnr s s' env _ r ev hs with ⟨_, _⟩ | ⟨_, _, _, _, _, _, hop, _⟩ | ⟨E, hE, ha, _, _⟩
  · simp only [step] at hs
    split at hs
    · cases hs
    · split at hs
      · cases hs
      · exact ⟨alpha_of_not_not (by assumption), by omega⟩
  · cases hop
  · rcases hE with hop | ⟨cur', hop, hlt⟩
    · cases hop
    · cases hop; exact ⟨ha, hlt⟩

/-- **the estimation store is exact, with exactly the documented cleanup**: for every history inside the
quantifier (epoch numbers, 32-byte container ids, node key digests from a collision-free set `N`), the entry
stored for (epoch, container, node) is what the typed map `estSpec` holds — where an accepted
`putContainerSize(e, cid, ·, node)` drops exactly that node's estimations of that container with
`e − e' > 3` and stores the new one, an accepted `newEpoch(E)` (direct or via Netmap) drops exactly the
estimations with `E − e' > 4`, and nothing else changes anything -/
theorem estimations_refine_spec (hist : List (Env × Op)) (N : List Bytes) (hN : NodesOK N) (hok : EstHistOK N hist)
    (e : Int) (cid h : Bytes) (hw : EstWF e cid h) (hh : h ∈ N) :
    get (run init hist).cnt.cnr (estimationKey e cid h) = estSpec init hist (fun _ _ _ => none) e cid h :=
  (estR_run hist init _ N hN hok (estR_init N)).r1 e cid h hw hh

/-- and no other key is ever stored under `cnr` -/
theorem estimations_no_junk (hist : List (Env × Op)) (N : List Bytes) (hN : NodesOK N) (hok : EstHistOK N hist)
    (k : Bytes) (x : Est) :
    (k, x) ∈ (run init hist).cnt.cnr ↔
      ∃ e c h, EstWF e c h ∧ h ∈ N ∧ k = estimationKey e c h ∧ estSpec init hist (fun _ _ _ => none) e c h = some x :=
  estR_mem _ _ N (estR_run hist init _ N hN hok (estR_init N)) k x

/-- the deltas of the typed map are the property's literals (3 on put for the same container and node, 4 on
tick), spelled out -/
theorem spec_deltas (A : Spec) (e E : Int) (cid h : Bytes) (new : Est) (e' : Int) (c' h' : Bytes) :
    (specPut A e cid h new e' c' h' =
      if e' = e ∧ c' = cid ∧ h' = h then some new
      else if c' = cid ∧ h' = h ∧ e - e' > 3 then none else A e' c' h') ∧
    (specTick A E e' c' h' = if E - e' > 4 then none else A e' c' h') := ⟨rfl, rfl⟩

/-- one-step form of the tick cleanup on the byte-level store: `cleanupContainers(E)` never FAULTs on a store of
estimation keys and removes exactly the entries whose key epoch is more than `TotalCleanupDelta` behind -/
theorem estimation_cleanup_on_tick_exact (cnr : Store Est) (E : Int)
    (hshape : ∀ kv ∈ cnr, cnrP <+: kv.1 ∧ 45 ≤ kv.1.length) :
    ∃ cnr', cleanup cnr E = some cnr' ∧
      ∀ x, get cnr' x = if E - keyEpoch x > 4 then none else get cnr x := by
  obtain ⟨cnr', h1, h2, _, _⟩ := cleanup_spec cnr E hshape
  exact ⟨cnr', h1, fun x => by rw [h2 x, totalCleanupDelta_eq]⟩

/-- one-step form of the put-time cleanup: the loop of `updateEstimations` deletes exactly the keys of the listed
epochs with `e − old > CleanupDelta` and keeps exactly the other listed epochs (stated over the SET of listed
epochs: the `est…` record is internal bookkeeping, its order and multiplicities are not observable) -/
theorem estimation_cleanup_on_put_exact (s : Store Est) (e : Int) (cid h : Bytes) (old : List Int) (k : Bytes) (o : Int) :
    get (updLoop s e cid h old).1 k =
        (if (∃ o ∈ old, e - o > 3 ∧ k = estimationKey o cid h) then none else get s k) ∧
    (o ∈ (updLoop s e cid h old).2 ↔ o ∈ old ∧ ¬ (e - o > 3)) := by
  rw [updLoop_get, updLoop_mem_list, cleanupDelta_eq]
  exact ⟨rfl, Iff.rfl⟩

/-- the put-time cleanup depends only on the set of listed epochs: two lists with the same members (duplicates,
order) leave the same estimation records and keep the same set of epochs -/
theorem estimation_put_cleanup_depends_on_epoch_set (s : Store Est) (e : Int) (cid h : Bytes) (l l' : List Int)
    (hset : ∀ o, o ∈ l ↔ o ∈ l') (k : Bytes) (o : Int) :
    get (updLoop s e cid h l).1 k = get (updLoop s e cid h l').1 k ∧
    (o ∈ (updLoop s e cid h l).2 ↔ o ∈ (updLoop s e cid h l').2) := by
  refine ⟨updLoop_get_congr s e cid h l l' hset k, ?_⟩
  rw [updLoop_mem_list, updLoop_mem_list, hset o]

example : (updLoop ([] : Store Est) 10 [] [] [1, 1, 8, 1]).2 = [8] := by decide

/-- **exact characterisation of `iterateContainerSizes(e, cid)`** for all histories in the quantifier -/
theorem estimation_iterate_char (hist : List (Env × Op)) (N : List Bytes) (hN : NodesOK N) (hok : EstHistOK N hist)
    (e : Int) (cid : Bytes) (l : List Est) (h : estIter (run init hist).cnt e cid = some l) (x : Est) :
    x ∈ l ↔ ∃ e' c' h', EstWF e' c' h' ∧ h' ∈ N ∧ estSpec init hist (fun _ _ _ => none) e' c' h' = some x ∧
      encInt e ++ cid <+: encInt e' ++ (c' ++ h'.take 10) :=
  mem_estIter _ _ N (estR_run hist init _ N hN hok (estR_init N)) e cid l h x

/-- `iterateContainerSizes(e, cid)` is exact — precisely the estimations stored for (e, cid), one per node — when
all stored epochs have encodings as long as `enc e` -/
theorem estimation_iterate_exact_partial (hist : List (Env × Op)) (N : List Bytes) (hN : NodesOK N)
    (hok : EstHistOK N hist) (e : Int) (cid : Bytes) (l : List Est) (h : estIter (run init hist).cnt e cid = some l)
    (he : EpochOK e)
    (hlen : ∀ e' c' h', EstWF e' c' h' → h' ∈ N → estSpec init hist (fun _ _ _ => none) e' c' h' ≠ none →
      (encInt e').length = (encInt e).length) (x : Est) :
    x ∈ l ↔ ∃ h' ∈ N, estSpec init hist (fun _ _ _ => none) e cid h' = some x :=
  mem_estIter_exact _ _ N (estR_run hist init _ N hN hok (estR_init N)) e cid l h he hN hlen x

/-- **exact characterisation of `getContainerSize(id)`**: the container id is the last 32 bytes of the id and the
estimations are those of every stored key that begins with `id` (for an id `cnr ‖ enc e ‖ cid` handed out by
`listContainerSizes`: the estimations of (e, cid), plus those of keys that merely begin with these bytes) -/
theorem estimation_get_char (hist : List (Env × Op)) (N : List Bytes) (hN : NodesOK N) (hok : EstHistOK N hist)
    (id cid : Bytes) (l : List Est) (h : estGet (run init hist).cnt id = some (cid, l)) (x : Est) :
    cid = id.drop (id.length - 32) ∧ cnrP <+: id ∧
    (x ∈ l ↔ ∃ e' c' h', EstWF e' c' h' ∧ h' ∈ N ∧ estSpec init hist (fun _ _ _ => none) e' c' h' = some x ∧
      id <+: estimationKey e' c' h') :=
  mem_estGet _ _ N (estR_run hist init _ N hN hok (estR_init N)) id cid l h x

/-- **exact characterisation of `listContainerSizes(e)` and `iterateAllContainerSizes(e)`**: the ids / values of
every stored (epoch, container, node) whose key bytes begin with `enc e` — whatever its epoch -/
theorem estimation_list_char (hist : List (Env × Op)) (N : List Bytes) (hN : NodesOK N) (hok : EstHistOK N hist)
    (e : Int) (id : Bytes) :
    id ∈ estList (run init hist).cnt e ↔
      ∃ e' c' h', EstWF e' c' h' ∧ h' ∈ N ∧ estSpec init hist (fun _ _ _ => none) e' c' h' ≠ none ∧
        id = cnrP ++ (encInt e' ++ c') ∧ encInt e <+: encInt e' ++ (c' ++ h'.take 10) :=
  mem_estList _ _ N hN (estR_run hist init _ N hN hok (estR_init N)) e id

theorem estimation_iterateAll_char (hist : List (Env × Op)) (N : List Bytes) (hN : NodesOK N)
    (hok : EstHistOK N hist) (e : Int) (x : Est) :
    x ∈ (estIterAll (run init hist).cnt e).map (·.2) ↔
      ∃ e' c' h', EstWF e' c' h' ∧ h' ∈ N ∧ estSpec init hist (fun _ _ _ => none) e' c' h' = some x ∧
        encInt e <+: encInt e' ++ (c' ++ h'.take 10) :=
  mem_estIterAll _ _ N (estR_run hist init _ N hN hok (estR_init N)) e x

def cidA : Bytes := List.replicate 32 5
def nodeA : Bytes := List.replicate 33 2
def digA : Bytes := List.replicate 20 8
def nodeEnv : Env := ⟨false, [nodeA]⟩
def histA : List (Env × Op) :=
  [(alphaEnv, .cmk cidA), (nodeEnv, .cput (some [nodeA]) 257 cidA 100 nodeA digA)]

/-- full-strength exactness of `listContainerSizes` is false: an estimation of epoch 257 is listed for epoch 1 -/
theorem estimation_list_not_exact :
    cnrP ++ (encInt 257 ++ cidA) ∈ estList (run init histA).cnt 1 ∧
    (∀ kv ∈ (run init histA).cnt.cnr, keyEpoch kv.1 ≠ 1) := by decide

example : estIter (run init histA).cnt 257 cidA = some [⟨nodeA, 100⟩] := by decide
-- older than 3 on a put of the same node; older than 4 on a tick
example : (run init (histA ++ [(nodeEnv, .cput (some [nodeA]) 261 cidA 7 nodeA digA)])).cnt.cnr.length = 1 := by decide
example : (run init (histA ++ [(nodeEnv, .cput (some [nodeA]) 260 cidA 7 nodeA digA)])).cnt.cnr.length = 2 := by decide
example : (run init (histA ++ [(alphaEnv, .ctick 261)])).cnt.cnr.length = 1 := by decide
example : (run init (histA ++ [(alphaEnv, .ctick 262)])).cnt.cnr.length = 0 := by decide
example : (run init (histA ++ [(alphaEnv, .tick 261 262)])).cnt.cnr.length = 0 := by decide
-- not a node of the previous epoch's map / no witness: FAULT
example : step (run init histA) nodeEnv (.cput (some []) 258 cidA 1 nodeA digA) = none := by decide
example : step (run init histA) alphaEnv (.cput (some [nodeA]) 258 cidA 1 nodeA digA) = none := by decide

/-! ## E. NeoFSID -/

/-- **`key(owner)` is exact for all histories**: a key is returned for an owner iff an accepted `addKey` bound it to
that owner and no later accepted `removeKey` unbound it (owner ids are 25 bytes: fixed-width family) -/
theorem neofsid_key_exact (hist : List (Env × Op)) (owner k : Bytes) (ho : owner.length = 25) :
    k ∈ keysOf (run init hist).fsid owner ↔ fsidSpec init hist (fun _ _ => False) owner k :=
  (fsidR_run hist init _ fsidR_init).2 owner k ho

/-- the one-step reading of that map -/
theorem neofsid_spec_steps (A : FsidSpec) (s : State) (env : Env) (o : Bytes) (ks : List Bytes) (o' k : Bytes) :
    (fsidSpecEntry A s env (.iadd o ks) o' k ↔
      if (step s env (.iadd o ks)).isSome then (A o' k ∨ (o' = o ∧ k ∈ ks)) else A o' k) ∧
    (fsidSpecEntry A s env (.irm o ks) o' k ↔
      if (step s env (.irm o ks)).isSome then (A o' k ∧ ¬ (o' = o ∧ k ∈ ks)) else A o' k) := by
  unfold fsidSpecEntry
  constructor <;> (split <;> simp_all)

/-- HALT ⇒ Alphabet witness, 25-byte owner, 33-byte keys -/
theorem neofsid_mutation_admitted (s s' : State) (env : Env) (o : Bytes) (ks : List Bytes) (r : Ret) (ev : List Event)
    (hs : step s env (.iadd o ks) = some (s', r, ev) ∨ step s env (.irm o ks) = some (s', r, ev)) :
    env.alpha = true ∧ o.length = 25 ∧ ∀ k ∈ ks, k.length = 33 := by
  rcases hs with hs | hs
  · simp only [step] at hs
    cases hp : fsidAdd s.fsid env o ks with
    | none => rw [hp] at hs; cases hs
    | some f =>
      unfold fsidAdd at hp
      by_cases ha : fsidArgsOk o ks = true
      · by_cases hal : env.alpha = true
        · exact ⟨hal, (fsidArgsOk_iff o ks).mp ha⟩
        · simp [ha, hal] at hp
      · simp [ha] at hp
  · simp only [step] at hs
    cases hp : fsidRemove s.fsid env o ks with
    | none => rw [hp] at hs; cases hs
    | some f =>
      unfold fsidRemove at hp
      by_cases ha : fsidArgsOk o ks = true
      · by_cases hal : env.alpha = true
        · exact ⟨hal, (fsidArgsOk_iff o ks).mp ha⟩
        · simp [ha, hal] at hp
      · simp [ha] at hp

def ownerA : Bytes := List.replicate 25 1
def ownerB : Bytes := List.replicate 24 1 ++ [2]
def keyA : Bytes := List.replicate 33 3
def keyB : Bytes := List.replicate 33 4
example : keysOf (run init [(alphaEnv, .iadd ownerA [keyA, keyB]), (alphaEnv, .iadd ownerB [keyB]),
    (alphaEnv, .irm ownerA [keyB]), (⟨false, []⟩, .irm ownerA [keyA])]).fsid ownerA = [keyA] := by decide

/-! ## F. configuration maps of Netmap and NeoFS -/

/-- **`config(key)` is exact for all histories and ALL byte strings as keys** (also keys that are prefixes of one
another, the empty key, …): the value of the last accepted `setConfig` of exactly this key, `null` if none -/
theorem netmap_config_exact (hist : List (Env × Op)) (k : Bytes) :
    cfgGet cfgP (run init hist).nmc k = ncfgSpec init hist (fun _ => none) k :=
  (ncfgR_run hist init _ (cfgR_init cfgP)).2 k

/-- **`listConfig()` is exact**: precisely the pairs (key, value) with `config(key) = value` -/
theorem netmap_listConfig_exact (hist : List (Env × Op)) (k v : Bytes) :
    (k, v) ∈ cfgList cfgP (run init hist).nmc ↔ ncfgSpec init hist (fun _ => none) k = some v := by
  have h := ncfgR_run hist init _ (cfgR_init cfgP)
  rw [mem_cfgList cfgP _ h.1 k v, h.2 k]

theorem neofs_config_exact (hist : List (Env × Op)) (k : Bytes) :
    cfgGet cfgPF (run init hist).fsc k = fcfgSpec init hist (fun _ => none) k :=
  (fcfgR_run hist init _ (cfgR_init cfgPF)).2 k

theorem neofs_listConfig_exact (hist : List (Env × Op)) (k v : Bytes) :
    (k, v) ∈ cfgList cfgPF (run init hist).fsc ↔ fcfgSpec init hist (fun _ => none) k = some v := by
  have h := fcfgR_run hist init _ (cfgR_init cfgPF)
  rw [mem_cfgList cfgPF _ h.1 k v, h.2 k]

/-- the one-step reading of the configuration maps -/
theorem config_spec_steps (A : CfgSpec) (s : State) (env : Env) (id k v k' : Bytes) :
    ncfgSpecEntry A s env (.nset k v) k' =
      (if (step s env (.nset k v)).isSome then (if k' = k then some v else A k') else A k') ∧
    fcfgSpecEntry A s env (.fset id k v) k' =
      (if (step s env (.fset id k v)).isSome then (if k' = k then some v else A k') else A k') := by
  unfold ncfgSpecEntry fcfgSpecEntry
  constructor <;> (split <;> rfl)

/-- HALT ⇒ Alphabet witness; the NeoFS contract announces exactly the pair it stored -/
theorem config_set_admitted (s s' : State) (env : Env) (id k v : Bytes) (r : Ret) (ev : List Event) :
    (step s env (.nset k v) = some (s', r, ev) → env.alpha = true) ∧
    (step s env (.fset id k v) = some (s', r, ev) → env.alpha = true ∧ ev = [.setConfig id k v]) := by
  constructor
  · intro hs
    rcases step_nmc' s s' env _ r ev hs with ⟨k', v', hop, hp⟩ | ⟨h1, _⟩
    · unfold cfgSet at hp
      by_cases hal : env.alpha = true
      · exact hal
      · simp [hal] at hp
    · exact absurd rfl (h1 k v)
  · intro hs
    rcases step_fsc' s s' env _ r ev hs with ⟨id', k', v', hop, hp, hev⟩ | ⟨h1, _, _⟩
    · cases hop
      unfold cfgSet at hp
      by_cases hal : env.alpha = true
      · exact ⟨hal, hev⟩
      · simp [hal] at hp
    · exact absurd rfl (h1 id k v)

-- keys that are prefixes of one another do not disturb each other
example : let s := run init [(alphaEnv, .nset [97] [1]), (alphaEnv, .nset [97, 98] [2]), (alphaEnv, .nset [] [3]),
      (⟨false, []⟩, .nset [97] [9])]
    cfgGet cfgP s.nmc [97] = some [1] ∧ cfgGet cfgP s.nmc [97, 98] = some [2] ∧ cfgGet cfgP s.nmc [] = some [3] ∧
    cfgGet cfgP s.nmc [98] = none ∧ cfgList cfgP s.nmc = [([], [3]), ([97], [1]), ([97, 98], [2])] := by decide

/-! ## Frame of the models, regenerated: who can write the stores

Checked by kernel evaluation over `NeoFS.Generated.Footprint.table` (grouped by contract: `contracts`), the MAY-WRITE footprint recomputed from the Go sources on
every run (`extract footprint`; `Model/Footprint.lean`). `anyKey` is the family of all keys: Audit keys start with no constant. -/
section Footprint
open NeoFS.Footprint NeoFS.Generated.Footprint

def fpRepCount : Fam := startingWith NeoFS.Generated.reputation_reputationCountPrefix_bytes
def fpRepValue : Fam := startingWith NeoFS.Generated.reputation_reputationValuePrefix_bytes
def fpOwnerKeys : Fam := startingWith NeoFS.Generated.neofsid_ownerKeysPrefix_bytes
def fpEstimations : Fam := startingWith NeoFS.Generated.container_estimateKeyPrefix_bytes
def fpEstimationEpochs : Fam := startingWith NeoFS.Generated.container_singleEstimatePrefix_bytes
def fpNetmapConfig : Fam := startingWith NeoFS.Generated.netmap_configPrefix_bytes
def fpNeoFSConfig : Fam := startingWith NeoFS.Generated.neofs_configPrefix_bytes

/-- Reputation: only `put` stores anything (deployment apart), it writes only the counter and the value families and nothing is
ever deleted. Audit: only `put` stores anything and only the upgrade deletes. NeoFSID: owner keys are put only by `addKey` and
deleted only by `removeKey`. -/
theorem reputation_audit_neofsid_stores_written_only_by_their_methods :
    onlyBy contracts "reputation" "put" anyKey ["put"] = true ∧
    writesWithin contracts "reputation" "put" [fpRepCount, fpRepValue] = true ∧
    onlyBy contracts "reputation" "delete" anyKey ["_deploy"] = true ∧
    onlyBy contracts "audit" "put" anyKey ["put"] = true ∧ onlyBy contracts "audit" "delete" anyKey ["_deploy"] = true ∧
    onlyBy contracts "neofsid" "put" fpOwnerKeys ["addKey"] = true ∧ onlyBy contracts "neofsid" "delete" fpOwnerKeys ["removeKey"] = true ∧
    onlyBy contracts "neofsid" "put" anyKey ["addKey"] = true := by decide +kernel

/-- Container size estimations are stored only by `putContainerSize` and removed only by it (cleanup on put) and by the tick's
cleanup (the upgrade migration apart); the per-node epoch lists only by `putContainerSize`. -/
theorem estimations_written_only_by_put_and_cleanup :
    onlyBy contracts "container" "put" fpEstimations ["putContainerSize"] = true ∧
    onlyBy contracts "container" "delete" fpEstimations ["putContainerSize", "newEpoch", "_deploy"] = true ∧
    onlyBy contracts "container" "put" fpEstimationEpochs ["putContainerSize"] = true ∧
    writesWithin contracts "container" "putContainerSize" [fpEstimations, fpEstimationEpochs] = true ∧
    writesWithin contracts "container" "newEpoch" [fpEstimations] = true := by decide +kernel

/-- The configuration maps of Netmap and NeoFS are written only by `setConfig` (and at deployment) and never deleted. -/
theorem configuration_maps_written_only_by_setConfig :
    onlyBy contracts "netmap" "put" fpNetmapConfig ["setConfig", "_deploy"] = true ∧ onlyBy contracts "netmap" "delete" fpNetmapConfig [] = true ∧
    onlyBy contracts "neofs" "put" fpNeoFSConfig ["setConfig", "_deploy"] = true ∧ onlyBy contracts "neofs" "delete" fpNeoFSConfig [] = true := by
  decide +kernel

example : does contracts "reputation" "put" "put" fpRepCount = true ∧ does contracts "reputation" "put" "put" fpRepValue = true ∧
    does contracts "audit" "put" "put" anyKey = true ∧ does contracts "neofsid" "addKey" "put" fpOwnerKeys = true ∧
    does contracts "neofsid" "removeKey" "delete" fpOwnerKeys = true ∧ does contracts "container" "putContainerSize" "put" fpEstimations = true ∧
    does contracts "container" "newEpoch" "delete" fpEstimations = true ∧ does contracts "netmap" "setConfig" "put" fpNetmapConfig = true ∧
    does contracts "neofs" "setConfig" "put" fpNeoFSConfig = true := by decide +kernel
example : onlyBy (withRow contracts ⟨"neofsid", "key", "delete", "", "", NeoFS.Generated.neofsid_ownerKeysPrefix_bytes, false⟩)
    "neofsid" "delete" fpOwnerKeys ["removeKey"] = false := by decide +kernel
end Footprint

end NeoFS.Props.C20
