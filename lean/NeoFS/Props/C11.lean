import NeoFS.Lemmas.Threshold
import NeoFS.Lemmas.NNSAuth
import NeoFS.Generated.AccessIR
set_option linter.unusedSimpArgs false
set_option linter.unusedVariables false
/-! # C11 — NNS: only owner/admin/committee may change a name; sub-names need the parent

`Authorised s env op` (NeoFS/Lemmas/NNSAuth.lean) spells out, per method, whose witness the property
demands, evaluated on the state `s` in which the call is made. The theorems hold for every state, hence
for the state after every history: authorisation follows ownership through every transfer, expiry and
re-registration, and a former owner or admin has no authority left. -/
namespace NeoFS.Props.C11
open NeoFS NeoFS.NNS

/-! ### the committee gate -/

/-- bridge: the threshold expression of `checkCommittee` in the sources (regenerated from the Go AST as a `TExpr`)
evaluates, under Go semantics and for every committee size l ≥ 1, to the model's `committeeThreshold l`
(decided by the sound procedure `TExpr.computes`, so an equivalent rewrite of the expression keeps this true) -/
theorem committee_threshold_expression (l : Nat) (h : 1 ≤ l) :
    (Generated.Access.nnsCommitteeThresholdE.bind (TExpr.evalGo · l)) = some ((committeeThreshold l : Nat) : Int) := by
  have hd : (Generated.Access.nnsCommitteeThresholdE.map (TExpr.computes · TExpr.specMajority)) = some true := by
    decide +kernel
  cases he : Generated.Access.nnsCommitteeThresholdE with
  | none => simp [he] at hd
  | some e =>
    simp [he] at hd
    have : committeeThreshold l = l / 2 + 1 := by unfold committeeThreshold; omega
    simp [TExpr.computes_sound hd l h, TExpr.eval_specMajority, this]

/-- `l-(l-1)/2` is the committee majority `l/2+1` for every committee size -/
theorem committee_threshold_is_majority (l : Nat) (h : 1 ≤ l) : committeeThreshold l = l / 2 + 1 := by
  unfold committeeThreshold; omega

/-- The committee gate opens exactly for the majority account: the k-of-l multisignature account of the
committee keys carries the committee witness iff k = l/2+1. In particular no account of half the committee or
fewer (k ≤ l/2) passes, for even committee sizes too, and the genuine majority account always passes. -/
theorem committee_gate_exact (env : Env) : env.committee = true ↔ 1 ≤ env.cmtL ∧ env.cmtK = env.cmtL / 2 + 1 := by
  unfold Env.committee committeeWitness
  simp only [Bool.and_eq_true, decide_eq_true_eq, beq_iff_eq]
  constructor
  · rintro ⟨h1, h2⟩; exact ⟨h1, by rw [h2, committee_threshold_is_majority _ h1]⟩
  · rintro ⟨h1, h2⟩; exact ⟨h1, by rw [h2, committee_threshold_is_majority _ h1]⟩

theorem committee_gate_refuses_minority (env : Env) (h : env.cmtK ≤ env.cmtL / 2) : env.committee = false := by
  cases hc : env.committee with
  | false => rfl
  | true => have := (committee_gate_exact env).mp hc; omega

-- half of an even committee is refused, the majority accepted (l = 4 and 6)
example : committeeWitness 2 4 = false ∧ committeeWitness 3 4 = true ∧ committeeWitness 3 6 = false ∧
    committeeWitness 4 6 = true ∧ committeeWitness 1 1 = true ∧ committeeWitness 0 1 = false := by decide

/-- A HALTed invocation that did not answer `false` carried the witnesses the property names. -/
theorem mutation_authorised (s s' : State) (env : Env) (op : Op) (r : Ret) (ev : List Event)
    (h : step s env op = some (s', r, ev)) (hr : r ≠ .bool false) : Authorised s env op := by
  cases op with
  | setPrice p => exact (setPrice_inv h).1
  | registerTLD n e a b c d => exact (registerTLD_inv h).1
  | transfer to t =>
    obtain ⟨_, _, ns, hns, hcase⟩ := transfer_inv h
    rcases hcase with ⟨_, e⟩ | ⟨hw, _, _⟩
    · injection e with _ e2; injection e2 with e3 _; exact absurd e3 hr
    · exact ⟨ns, (nameStateWithKey_some hns).1, hw⟩
  | renew n y =>
    obtain ⟨_, _, _, ns, hns, hadm, _⟩ := renew_inv h
    exact ⟨ns, (fragNameState_some hns).1, (checkAdmin_iff env ns).mp hadm⟩
  | updateSOA n e a b c d =>
    obtain ⟨ns, hns, hadm, _⟩ := updateSOA_inv h
    exact ⟨ns, (fragNameState_some hns).1, (checkAdmin_iff env ns).mp hadm⟩
  | setAdmin n a =>
    obtain ⟨_, hadm, ns, hns, hw, _⟩ := setAdmin_inv h
    refine ⟨ns, (fragNameState_some hns).1, hw, ?_⟩
    rcases hadm with h0 | h1
    · exact Or.inl (List.eq_nil_of_length_eq_zero h0)
    · exact Or.inr h1
  | register n o e a b c d =>
    obtain ⟨_, _, _, _, hpar, _, _, hw, _, _⟩ := register_inv h
    refine ⟨hw, ?_⟩
    intro hl
    have := hpar hl
    unfold parentAuth at this
    unfold parentName
    cases hg : mget s.names (joinDots ((split dot n).drop 1)) with
    | none => rw [hg] at this; simp at this
    | some ns => rw [hg] at this; exact ⟨ns, rfl, (checkAdmin_iff env ns).mp this⟩
  | addRecord n t d =>
    obtain ⟨tok, _, _, hck, _⟩ := addRecord_inv h
    obtain ⟨_, htok, _, _, _, _, ns, hns, hadm⟩ := checkRecord_some hck
    subst htok
    exact ⟨ns, (fragNameState_some hns).1, (checkAdmin_iff env ns).mp hadm⟩
  | setRecord n t i d =>
    obtain ⟨tok, _, _, _, _, hck, _⟩ := setRecord_inv h
    obtain ⟨_, htok, _, _, _, _, ns, hns, hadm⟩ := checkRecord_some hck
    subst htok
    exact ⟨ns, (fragNameState_some hns).1, (checkAdmin_iff env ns).mp hadm⟩
  | deleteRecords n t =>
    obtain ⟨_, _, _, ns, _, _, hns, hadm, _⟩ := deleteRecords_inv h
    exact ⟨ns, (fragNameState_some hns).1, (checkAdmin_iff env ns).mp hadm⟩

/-- Every unauthorised attempt leaves the NNS state unchanged: it FAULTs (the transaction is rolled back)
or is refused with `false`, without any notification. -/
theorem unauthorised_inert (s : State) (env : Env) (op : Op) (h : ¬ Authorised s env op) :
    invoke s env op = (s, none) ∨ invoke s env op = (s, some (.bool false, [])) := by
  unfold invoke
  cases hst : step s env op with
  | none => exact Or.inl rfl
  | some out =>
    obtain ⟨s', r, ev⟩ := out
    by_cases hr : r = .bool false
    · subst hr
      obtain ⟨e1, e2⟩ := false_ret_inert hst
      subst e1; subst e2
      exact Or.inr rfl
    · exact absurd (mutation_authorised s s' env op r ev hst hr) h

/-- The same over histories: whatever happened before (transfers, expiries, re-registrations, changes of
admin), a call that changes the state reached by the history was authorised with respect to the ownership
recorded at that moment. -/
theorem mutation_authorised_history (hist : List (Env × Op)) (env : Env) (op : Op)
    (h : (invoke (run init hist) env op).1 ≠ run init hist) : Authorised (run init hist) env op := by
  false_or_by_contra
  rename_i hna
  rcases unauthorised_inert (run init hist) env op hna with e | e <;> rw [e] at h <;> exact h rfl

/-- A former owner has no authority left: after a successful transfer to somebody else the admin is cleared,
so without the new owner's witness renew, updateSOA, transfer and setAdmin of that name are unauthorised
(and therefore inert), whoever else signs — in particular the former owner and the former admin. -/
theorem former_owner_loses_authority (s s' : State) (env : Env) (to : Hash) (n : Name) (ev : List Event)
    (h : transfer s env to n = some (s', .bool true, ev))
    (hne : ∀ ns, mget s.names n = some ns → ns.owner ≠ to)
    (env' : Env) (hw : witness env' to = false) :
    (∀ y, ¬ Authorised s' env' (.renew n y)) ∧ (∀ e a b c d, ¬ Authorised s' env' (.updateSOA n e a b c d)) ∧
    (∀ x, ¬ Authorised s' env' (.transfer x n)) ∧ (∀ a, ¬ Authorised s' env' (.setAdmin n a)) := by
  obtain ⟨hto, _, ns, hns, hcase⟩ := transfer_inv h
  obtain ⟨hg, _⟩ := nameStateWithKey_some hns
  have hft := hne ns hg
  rcases hcase with ⟨_, e⟩ | ⟨_, _, e⟩
  · injection e with _ e2; injection e2 with e3 _; injection e3 with e4; simp at e4
  · injection e with e1 _
    rw [if_neg hft] at e1
    have hrec : mget s'.names n = some { ns with owner := to, admin := [] } := by
      subst e1; simp only [updateBalance_names]; rw [mget_mput_self]
    have hto' : to ≠ [] := by intro c; rw [c] at hto; simp at hto
    have noOA : ¬ OwnerOrAdmin env' { ns with owner := to, admin := [] } := by
      unfold OwnerOrAdmin
      simp [hto', hw]
    refine ⟨?_, ?_, ?_, ?_⟩
    · rintro y ⟨ns2, h2, h3⟩; rw [hrec] at h2; injection h2 with h2; subst h2; exact noOA h3
    · rintro e a b c d ⟨ns2, h2, h3⟩; rw [hrec] at h2; injection h2 with h2; subst h2; exact noOA h3
    · rintro x ⟨ns2, h2, h3⟩; rw [hrec] at h2; injection h2 with h2; subst h2; simp [hw] at h3
    · rintro a ⟨ns2, h2, h3, _⟩; rw [hrec] at h2; injection h2 with h2; subst h2; simp [hw] at h3

/-- Register: a second-level name needs nothing but the witness of the owner-to-be; deeper names need the
owner/admin of the directly enclosing name in addition (restated from `Authorised` for readability). -/
theorem register_needs_parent (s s' : State) (env : Env) (n : Name) (o : Hash) (e : Bytes) (a b c d : Int)
    (ev : List Event) (h : step s env (.register n o e a b c d) = some (s', .bool true, ev)) :
    witness env o = true ∧
    ((split dot n).length > 2 → ∃ ns, mget s.names (parentName n) = some ns ∧ OwnerOrAdmin env ns) :=
  mutation_authorised s s' env _ _ ev h (by simp)

/-! ### non-vacuity: owner, admin, former owner, parent owner, stranger, committee on a concrete history -/

def U1 : Hash := List.replicate 20 1
def U2 : Hash := List.replicate 20 2
def U3 : Hash := List.replicate 20 3
def com : Name := [99, 111, 109]
def aCom : Name := [97, 46, 99, 111, 109]
def bACom : Name := [98, 46, 97, 46, 99, 111, 109]
def envC (now : Int) : Env := ⟨[], [], 1, 1, now, fun _ => true, true, 0⟩
def envS (us : List Hash) (now : Int) : Env := ⟨us, [], 0, 1, now, fun _ => true, true, 0⟩
def mail : Bytes := [101, 64, 120]
def txt : Bytes := [118]

def hist1 : List (Env × Op) :=
  [(envC 1000, .setPrice 1), (envC 1000, .registerTLD com mail 1 2 1000000 4),
   (envS [U1] 2000, .register aCom U1 mail 1 2 1000 4), (envS [U1, U2] 2001, .setAdmin aCom U2)]

-- owner and admin may add records, a stranger may not (state unchanged)
example : (invoke (run init hist1) (envS [U1] 3000) (.addRecord aCom 16 txt)).2 = some (.null, []) := by decide
example : (invoke (run init hist1) (envS [U2] 3000) (.addRecord aCom 16 txt)).2 = some (.null, []) := by decide
example : (invoke (run init hist1) (envS [U3] 3000) (.addRecord aCom 16 txt)).2 = none := by decide
example : (invoke (run init hist1) (envC 3000) (.addRecord aCom 16 txt)).2 = none := by decide
-- third level: the parent's owner or admin together with the owner-to-be; the owner-to-be alone is refused
example : (invoke (run init hist1) (envS [U3] 3000) (.register bACom U3 mail 1 2 100 4)).2 = none := by decide
example : (invoke (run init hist1) (envS [U2, U3] 3000) (.register bACom U3 mail 1 2 100 4)).2 =
    some (.bool true, [.transfer [] U3 1 bACom]) := by decide
-- after a transfer to U3 the former owner U1 and the former admin U2 are refused, U3 succeeds
def hist2 : List (Env × Op) := hist1 ++ [(envS [U1] 3000, .transfer U3 aCom)]
example : (invoke (run init hist2) (envS [U1, U2] 4000) (.addRecord aCom 16 txt)).2 = none := by decide
example : (invoke (run init hist2) (envS [U1] 4000) (.transfer U1 aCom)).2 = some (.bool false, []) := by decide
example : (invoke (run init hist2) (envS [U1, U2] 4000) (.renew aCom 1)).2 = none := by decide
example : (invoke (run init hist2) (envS [U3] 4000) (.addRecord aCom 16 txt)).2 = some (.null, []) := by decide
-- TLDs: the committee only
example : (invoke (run init hist1) (envS [U1] 3000) (.renew com 1)).2 = none := by decide
example : ((invoke (run init hist1) (envC 3000) (.renew com 1)).2).isSome = true := by decide

end NeoFS.Props.C11
