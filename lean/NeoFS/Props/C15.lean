import NeoFS.Generated.Artifacts
import NeoFS.Generated.Consts
/-! # C15 — shipped executables, manifests and RPC bindings correspond to the sources

Translation validation. `NeoFS.Generated.Art` is rewritten on every run from (a) the artefacts shipped in the
working tree and (b) the output of the pinned neo-go compiler and binding generator run on the sources of the
same tree. The theorems below are finite comparisons over those tables, checked by Lean's kernel (`decide`).
Behavioural equality of a shipped executable with its source rests on byte equality with the compiler's output. -/
namespace NeoFS.Props.C15
open NeoFS.Generated NeoFS.Generated.Art

/-- result decoders the generated binding may apply to a manifest return type -/
def decoderOK (ret via wrap : String) : Bool :=
  if via == "Call" then
    if ret == "Any" then wrap == "unwrap.Item"
    else if ret == "Array" then
      wrap == "unwrap.Item" || wrap == "unwrap.Array" || wrap == "unwrap.ArrayOfBytes" || wrap == "unwrap.ArrayOfUTF8Strings"
        || wrap == "unwrap.ArrayOfBigInts" || wrap == "unwrap.ArrayOfBools" || wrap == "unwrap.ArrayOfUint160" || wrap == "unwrap.ArrayOfUint256"
        || wrap == "unwrap.ArrayOfPublicKeys"
    else if ret == "Boolean" then wrap == "unwrap.Bool"
    else if ret == "ByteArray" then wrap == "unwrap.Bytes"
    else if ret == "Hash160" then wrap == "unwrap.Uint160"
    else if ret == "Hash256" then wrap == "unwrap.Uint256"
    else if ret == "Integer" then wrap == "unwrap.BigInt"
    else if ret == "InteropInterface" then wrap == "unwrap.SessionIterator"
    else if ret == "Map" then wrap == "unwrap.Item" || wrap == "unwrap.Map"
    else if ret == "PublicKey" then wrap == "unwrap.PublicKey"
    else if ret == "String" then wrap == "unwrap.UTF8String"
    else false
  else if via == "CallAndExpandIterator" then ret == "InteropInterface" && wrap == "unwrap.Array"
  else wrap == ""          -- transaction-building calls decode nothing

/-- the call names a manifest method of that name and arity whose result the binding decodes compatibly
    (`CallAndExpandIterator` passes the item limit as one extra argument) -/
def callOK (abi : ABI) (k : Call) : Bool :=
  abi.methods.any fun m =>
    m.name == k.method && ((m.nparams : Int) == k.nargs - (if k.via == "CallAndExpandIterator" then 1 else 0)) &&
      decoderOK m.ret k.via k.wrap

def indexOf? (xs : List String) (x : String) : Option Nat :=
  match xs with
  | [] => none
  | y :: ys => if y == x then some 0 else (indexOf? ys x).map (· + 1)

/-- every contract that `c` resolves through NNS at deploy/run time and that is deployed to the same chain comes earlier -/
def depsBefore (order : List String) (c : ContractArt) : Bool :=
  match indexOf? order c.name with
  | none => true                                   -- main-chain contract: not in this list
  | some i => c.deps.all fun d => match indexOf? order d with
      | none => false
      | some j => decide (j < i)

def digitVal (c : Char) : Option Nat := if c.isDigit then some (c.toNat - 48) else none
def numOf : List Char → Nat → Option Nat
  | [], acc => some acc
  | c :: r, acc => match digitVal c with | none => none | some d => numOf r (acc * 10 + d)
def splitDots : List Char → List Char → List (List Char)
  | [], cur => [cur.reverse]
  | c :: r, cur => if c == '.' then cur.reverse :: splitDots r [] else splitDots r (c :: cur)
/-- "vMAJOR.MINOR.PATCH" ↦ MAJOR·10⁶ + MINOR·10³ + PATCH, the encoding of `common.Version` -/
def versionNumber (cs : List Char) : Option Int :=
  match cs with
  | 'v' :: r => match (splitDots r []).map (numOf · 0) with
    | [some a, some b, some c] => if b < 1000 ∧ c < 1000 then some ((a * 1000000 + b * 1000 + c : Nat) : Int) else none
    | _ => none
  | _ => none

/-- The shipped NEF files are byte-identical (SHA-256) to what the pinned compiler produces from the sources. -/
theorem executables_equal : ∀ c ∈ contracts, c.embNef = c.regNef ∧ c.embScript = c.regScript := by decide

/-- The shipped manifests are byte-identical to the regenerated ones, and their ABI tables (methods with arity,
return type and safe flag; events; permissions; standards) are equal entry by entry. -/
theorem manifests_equal : ∀ c ∈ contracts, c.embManifest = c.regManifest ∧ c.emb = c.reg := by decide

/-- The shipped RPC bindings are byte-identical to what the pinned generator produces from the manifests. -/
theorem bindings_regenerate : ∀ c ∈ contracts, c.embBinding = c.regBinding := by decide

/-- Every call made by a generated binding names an existing method of its contract with the right arity and a
compatible result decoder. -/
theorem bindings_call_existing_methods : ∀ c ∈ contracts, ∀ k ∈ c.calls, callOK c.emb k = true := by decide

/-- `GetFS` returns the contracts in dependency order: whatever a contract resolves through NNS comes earlier. -/
theorem fs_order_is_dependency_order : ∀ c ∈ contracts, depsBefore fsOrder c = true := by decide

/-- the deployment procedure walks through its stages in exactly that order, NNS first -/
theorem fs_order_matches_deploy_stages : fsOrder = deployStages ∧ fsOrder.head? = some "nns" ∧ fsOrder.Nodup := by decide

/-- both lists together are the eleven contracts -/
theorem order_lists_cover_all : ∀ c ∈ contracts, c.name ∈ fsOrder ++ mainOrder := by decide

/-- Every shipped executable reports the repository version: `version()` executed on the embedded NEF, the
constant `common.Version` in the sources, and the VERSION file agree. -/
theorem versions_agree :
    (∀ c ∈ contracts, c.version = toString common_Version) ∧ versionNumber versionFileChars = some common_Version := by decide

-- non-vacuity: the tables are populated
example : contracts.length = 11 ∧ 0 < (contracts.map (·.calls.length)).sum ∧ fsOrder.length = 9 := by decide

end NeoFS.Props.C15
