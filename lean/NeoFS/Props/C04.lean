import NeoFS.Lemmas.ContainerFinal
import NeoFS.Lemmas.ContainerLayout
import NeoFS.Generated.Consts
import NeoFS.Generated.Footprint
set_option linter.unusedSimpArgs false
set_option linter.unusedVariables false
/-! # C04 — Container registry matches the live set; deletion is complete and final

Property theorems only. Model: `NeoFS/Model/Container.lean`; specification (`Spec`, `abs`, `specStep`):
`NeoFS/Lemmas/ContainerSpec.lean`; helper lemmas: `NeoFS/Lemmas/Container*.lean`.

Quantifier of the property = all histories of put / putNamed / putMeta / delete / setEACL (plus the
configuration, funding and pre-registration operations around them) with any arguments, signers and
committee. The only assumption is the one every use of SHA-256 as an id makes: the id on an operation is
the digest of its blob and no two different blobs of one history have the same digest (`Consistent`,
reduced to `WFHist` by `collision_free_histories_are_wf`). -/
namespace NeoFS.Props.C04
open NeoFS NeoFS.Container

/-! ### histories -/

/-- If no two different blobs of a history carry the same id, the history is inside the quantifier. -/
theorem collision_free_histories_are_wf (roots : List Bytes) (hist : List (Env × Op))
    (h : Consistent (putsOf hist)) : WFHist (init roots) hist :=
  wfHist_of_consistent hist (init roots) (putsOf hist) h (by intro cid c hc; simp [init] at hc) (fun _ hp => hp)

/-- In particular: ids are digests under some hash function that is injective on the blobs of the history. -/
theorem hashed_histories_are_wf (roots : List Bytes) (hist : List (Env × Op)) (H : Bytes → Bytes)
    (hid : ∀ p, p ∈ putsOf hist → p.1 = H p.2)
    (hinj : ∀ p q, p ∈ putsOf hist → q ∈ putsOf hist → H p.2 = H q.2 → p.2 = q.2) : WFHist (init roots) hist := by
  apply collision_free_histories_are_wf
  intro p hp q hq he
  exact hinj p q hp hq (by rw [← hid p hp, ← hid q hq]; exact he)

/-- After every history the five index families, the tombstones and the alias records in NNS are mutually
consistent (`Inv`: unique keys; owner index ⇔ stored blob with that owner; eACL / alias / meta flag only for
stored containers; tombstoned ⇒ not stored; alias ⇔ exactly one TXT record of that domain). -/
theorem registry_consistent_after_every_history (roots : List Bytes) (hist : List (Env × Op))
    (hw : WFHist (init roots) hist) : Inv (run (init roots) hist) :=
  inv_run hist (init roots) (inv_init roots) hw

/-- one step of the same -/
theorem registry_consistent_step (env : Env) (s : State) (op : Op) (hI : Inv s) (hw : NoClash s op) :
    Inv (invoke env s op).1 := inv_invoke env s op hI hw

/-- "get(id) returns the stored blob whose SHA-256 is id": every stored blob was put under exactly the id it
is stored under, so with ids = digests the stored blob hashes to its key. -/
theorem stored_blob_has_its_id (roots : List Bytes) (hist : List (Env × Op)) (H : Bytes → Bytes)
    (hid : ∀ p, p ∈ putsOf hist → p.1 = H p.2) (cid : Bytes) (c : Cnr)
    (h : AL.get (run (init roots) hist).x cid = some c) : H c.value = cid := by
  have hS : StoredIn (run (init roots) hist) (putsOf hist) := by
    have : ∀ (hs : List (Env × Op)) (s : State) (l : List (Bytes × Bytes)), StoredIn s l → (∀ p, p ∈ putsOf hs → p ∈ l) →
        StoredIn (run s hs) l := by
      intro hs
      induction hs with
      | nil => intro s l h1 _; exact h1
      | cons x rest ih =>
        intro s l h1 h2
        obtain ⟨env, op⟩ := x
        apply ih
        · apply storedIn_invoke h1
          intro cid blob sg pub token name zone mt e
          subst e; apply h2; simp [putsOf]
        · intro p hp; apply h2
          cases op <;> simp [putsOf, hp]
    exact this hist (init roots) (putsOf hist) (by intro cid c hc; simp [init] at hc) (fun _ hp => hp)
  exact (hid (cid, c.value) (hS cid c h)).symm

/-! ### refinement to the live-set specification -/

/-- **Refinement, one invocation**: a HALTed operation changes the abstract state (live containers with blob,
owner, eACL, alias, meta flag; tombstones) exactly as `specStep` says; a FAULTed one changes nothing. -/
theorem refinement (env : Env) (s : State) (op : Op) (hI : Inv s) :
    abs (invoke env s op).1 =
      match (invoke env s op).2 with
      | .ok _ => specStep env.root (abs s) op
      | .error _ => abs s := Container.refinement env s op hI

/-- the specification run along a history: apply `specStep` for the invocations that HALTed -/
def specRun (s : State) (sp : Spec) : List (Env × Op) → Spec
  | [] => sp
  | (env, op) :: rest =>
    specRun (invoke env s op).1
      (match (invoke env s op).2 with
       | .ok _ => specStep env.root sp op
       | .error _ => sp) rest

/-- **Refinement, all histories**: `abs ∘ run = specRun ∘ abs`. -/
theorem refinement_all_histories (hist : List (Env × Op)) (s : State) (hI : Inv s) (hw : WFHist s hist) :
    abs (run s hist) = specRun s (abs s) hist := by
  induction hist generalizing s with
  | nil => rfl
  | cons x rest ih =>
    obtain ⟨env, op⟩ := x
    simp only [run, specRun]
    rw [ih _ (inv_invoke env s op hI hw.1) hw.2]
    congr 1
    exact Container.refinement env s op hI

/-! ### the read API describes exactly the live containers -/

/-- `get(id)`: the stored structure of a live container, "not found" otherwise -/
theorem get_exact (s : State) (hI : Inv s) (cid : Bytes) :
    readStep s (.get cid) = match (abs s).live cid with
      | none => .error .notFound
      | some i => .ok (.cnr i.cnr) := read_get hI cid

/-- `owner(id)`: the owner encoded in the stored blob (25 bytes at the offset given by the version field),
"not found" otherwise -/
theorem owner_exact (s : State) (hI : Inv s) (cid : Bytes) :
    readStep s (.owner cid) = (match (abs s).live cid with
      | none => .error .notFound
      | some i => .ok (.bytes i.owner)) ∧
    ∀ i, (abs s).live cid = some i → ownerOf i.cnr.value = some i.owner ∧ i.owner.length = 25 :=
  ⟨read_owner hI cid, fun i hi => ⟨(live_owner hI hi).1, (live_owner hI hi).2.1⟩⟩

/-- `alias(id)`: the last name set (Null if none), "not found" otherwise -/
theorem alias_exact (s : State) (hI : Inv s) (cid : Bytes) :
    readStep s (.alias cid) = match (abs s).live cid with
      | none => .error .notFound
      | some i => .ok (.optBytes i.alias) := read_alias hI cid

/-- `eACL(id)`: the last table set (the empty structure if none), "not found" otherwise -/
theorem eacl_exact (s : State) (hI : Inv s) (cid : Bytes) :
    readStep s (.eacl cid) = match (abs s).live cid with
      | none => .error .notFound
      | some i => .ok (.cnr (i.eacl.getD emptyCnr)) := read_eacl hI cid

/-- `list(owner)` and `containersOf(owner)` for a 25-byte owner id: every live id of that owner, each once,
and nothing else -/
theorem list_owner_exact (s : State) (hI : Inv s) (ow : Bytes) (how : ow.length = 25) :
    ∃ l, readStep s (.list ow) = .ok (.list l) ∧ readStep s (.containersOf ow) = .ok (.list l) ∧ l.Nodup ∧
      ∀ cid, cid ∈ l ↔ ∃ i, (abs s).live cid = some i ∧ i.owner = ow := by
  refine ⟨findO s ow, ?_, rfl, findO_nodup hI ow, fun cid => findO_owner_mem hI ow cid how⟩
  have : ow.length ≠ 0 := by omega
  simp [readStep, this]

/-- `list("")`, `containersOf("")`: every live id, each once, and nothing else -/
theorem list_all_exact (s : State) (hI : Inv s) :
    ∃ l1 l2, readStep s (.list []) = .ok (.list l1) ∧ readStep s (.containersOf []) = .ok (.list l2) ∧
      l1.Nodup ∧ l2.Nodup ∧ (∀ cid, cid ∈ l1 ↔ ∃ i, (abs s).live cid = some i) ∧
      (∀ cid, cid ∈ l2 ↔ ∃ i, (abs s).live cid = some i) :=
  ⟨AL.keys s.x, findO s [], by simp [readStep], rfl, hI.ux, findO_nodup hI [],
    fun cid => (liveAny_iff cid).symm, fun cid => findO_all_mem hI cid⟩

/-- `count()`: the number of live containers -/
theorem count_exact (s : State) (hI : Inv s) :
    ∃ l : List Bytes, l.Nodup ∧ (∀ cid, cid ∈ l ↔ ∃ i, (abs s).live cid = some i) ∧
      readStep s .count = .ok (.int l.length) :=
  ⟨AL.keys s.x, hI.ux, fun cid => (liveAny_iff cid).symm, rfl⟩

/-- the empty registry -/
def spec0 : Spec := ⟨fun _ => none, fun _ => False⟩

theorem abs_init (roots : List Bytes) : abs (init roots) = spec0 := by
  apply Spec.ext'
  · intro c; simp [abs, init, spec0]
  · intro c; simp [abs, init, spec0]

/-- **The property's first sentence, end to end**: start from the empty registry, run any history inside the
quantifier; let `sp` be what the specification says is live after the same history (`specRun` from `spec0`).
Then every getter answers from `sp` alone: the stored structure / owner / last name / last table of a live id,
"not found" for every other id. -/
theorem read_api_after_every_history (roots : List Bytes) (hist : List (Env × Op)) (hw : WFHist (init roots) hist)
    (cid : Bytes) :
    let sp := specRun (init roots) spec0 hist
    let s := run (init roots) hist
    (readStep s (.get cid) = match sp.live cid with
      | none => .error .notFound
      | some i => .ok (.cnr i.cnr)) ∧
    (readStep s (.owner cid) = match sp.live cid with
      | none => .error .notFound
      | some i => .ok (.bytes i.owner)) ∧
    (readStep s (.alias cid) = match sp.live cid with
      | none => .error .notFound
      | some i => .ok (.optBytes i.alias)) ∧
    (readStep s (.eacl cid) = match sp.live cid with
      | none => .error .notFound
      | some i => .ok (.cnr (i.eacl.getD emptyCnr))) := by
  intro sp s
  have hI : Inv s := inv_run hist (init roots) (inv_init roots) hw
  have hsp : abs s = sp := by
    show abs (run (init roots) hist) = specRun (init roots) spec0 hist
    rw [refinement_all_histories hist (init roots) (inv_init roots) hw, abs_init]
  rw [← hsp]
  exact ⟨read_get hI cid, read_owner hI cid, read_alias hI cid, read_eacl hI cid⟩

/-- … and the listings and the count enumerate exactly the ids live in `sp` (each once). -/
theorem listings_after_every_history (roots : List Bytes) (hist : List (Env × Op)) (hw : WFHist (init roots) hist)
    (ow : Bytes) (how : ow.length = 25) :
    let sp := specRun (init roots) spec0 hist
    let s := run (init roots) hist
    ∃ lo la : List Bytes,
      readStep s (.list ow) = .ok (.list lo) ∧ readStep s (.containersOf ow) = .ok (.list lo) ∧ lo.Nodup ∧
      (∀ cid, cid ∈ lo ↔ ∃ i, sp.live cid = some i ∧ i.owner = ow) ∧
      readStep s (.list []) = .ok (.list la) ∧ la.Nodup ∧ (∀ cid, cid ∈ la ↔ ∃ i, sp.live cid = some i) ∧
      readStep s .count = .ok (.int la.length) := by
  intro sp s
  have hI : Inv s := inv_run hist (init roots) (inv_init roots) hw
  have hsp : abs s = sp := by
    show abs (run (init roots) hist) = specRun (init roots) spec0 hist
    rw [refinement_all_histories hist (init roots) (inv_init roots) hw, abs_init]
  rw [← hsp]
  obtain ⟨lo, h1, h2, h3, h4⟩ := list_owner_exact s hI ow how
  exact ⟨lo, AL.keys s.x, h1, h2, h3, h4, by simp [readStep], hI.ux, fun cid => (liveAny_iff cid).symm, rfl⟩

/-! ### deletion is complete … -/

/-- A HALTed `delete` of a live container removes the blob, the owner-index entry (under every owner), the
eACL, the alias, the meta flag, leaves no TXT record pointing at the container in any NNS domain, and writes
the tombstone. -/
theorem delete_erases_everything (env : Env) (s s' : State) (cid sg token : Bytes) (r : Ret) (ev : List Ev)
    (hI : Inv s) (hlive : (abs s).live cid ≠ none)
    (h : invoke env s (.delete cid sg token) = (s', .ok (r, ev))) :
    AL.get s'.x cid = none ∧ (∀ ow, AL.get s'.o (ow, cid) = none) ∧ AL.get s'.eacl cid = none ∧
    AL.get s'.alias cid = none ∧ cid ∉ s'.m ∧ cid ∈ s'.d ∧
    (∀ dom dm, AL.get s'.doms dom = some dm → cid ∉ dm.txt) ∧
    (abs s').live cid = none ∧ (abs s').tomb cid := by
  have hI' : Inv s' := by
    have := inv_invoke env s (.delete cid sg token) hI trivial
    rw [h] at this; exact this
  have hst := invoke_ok h
  simp only [step] at hst
  split at hst
  · cases hst
  · rename_i s2 ev2 h2
    cases hst
    rcases deleteStep_ok h2 with ⟨hn, _, _⟩ | ⟨c0, owner, s1, hd⟩
    · exact absurd (abs_live_none hn) hlive
    · obtain ⟨fx, _, fd, _⟩ := del_fields hd
      have hx : AL.get s'.x cid = none := by rw [fx]; exact AL.get_del_self _ _
      have hal := hI'.sat_a cid hx
      refine ⟨hx, ?_, hI'.sat_e cid hx, hal, ?_, ?_, ?_, abs_live_none hx, ?_⟩
      · intro ow
        cases ho : AL.get s'.o (ow, cid) with
        | none => rfl
        | some v =>
          obtain ⟨_, c, hc, _⟩ := hI'.ox ow cid v ho
          rw [hx] at hc; cases hc
      · intro hm
        obtain ⟨c, hc⟩ := hI'.sat_m cid hm
        rw [hx] at hc; cases hc
      · rw [fd]; exact (mem_sadd _ _ _).mpr (Or.inl rfl)
      · intro dom dm hdm hmem
        have := hI'.rec_alias dom dm cid hdm hmem
        rw [hal] at this; cases this
      · show cid ∈ s'.d
        rw [fd]; exact (mem_sadd _ _ _).mpr (Or.inl rfl)

/-- … the name is free again: after the delete the alias domain holds no TXT record at all, so
`checkNiceNameAvailable` cannot answer "name is already taken" for the next container (defect F13 of the
unrepaired tree, where a re-aliased container left its first record behind). -/
theorem alias_name_reusable (env : Env) (s s' : State) (cid sg token dom : Bytes) (r : Ret) (ev : List Ev)
    (hI : Inv s) (hal : AL.get s.alias cid = some dom)
    (h : invoke env s (.delete cid sg token) = (s', .ok (r, ev))) :
    ∀ dm, AL.get s'.doms dom = some dm → dm.txt = [] := by
  have hI' : Inv s' := by
    have := inv_invoke env s (.delete cid sg token) hI trivial
    rw [h] at this; exact this
  have hlive : (abs s).live cid ≠ none := by
    intro hn
    cases hx : AL.get s.x cid with
    | none => have := hI.sat_a cid hx; rw [hal] at this; cases this
    | some c => rw [abs_live_some hx] at hn; cases hn
  obtain ⟨_, _, _, hal', _, _, _, _, _⟩ := delete_erases_everything env s s' cid sg token r ev hI hlive h
  intro dm hdm
  cases ht : dm.txt with
  | nil => rfl
  | cons c rest =>
    exfalso
    have hc : c ∈ dm.txt := by rw [ht]; exact List.mem_cons_self
    have h1 := hI'.rec_alias dom dm c hdm hc
    -- c ≠ cid and c had the same alias before: two records in one domain
    have hne : c ≠ cid := by intro e; subst e; rw [hal'] at h1; cases h1
    have hst := invoke_ok h
    simp only [step] at hst
    split at hst
    · cases hst
    · rename_i s2 ev2 h2
      cases hst
      rcases deleteStep_ok h2 with ⟨hn, _, _⟩ | ⟨c0, owner, s1, hd⟩
      · exact absurd (abs_live_none hn) hlive
      · obtain ⟨_, _, _, _, _, _, _, fal⟩ := del_fields hd
        rw [fal c] at h1
        simp only [hne, if_false] at h1
        obtain ⟨dm1, hdm1, hm1⟩ := hI.alias_rec c dom h1
        obtain ⟨dm2, hdm2, hm2⟩ := hI.alias_rec cid dom hal
        rw [hdm1] at hdm2; cases hdm2
        exact txt_two hm1 hm2 hne (hI.txt1 dom dm1 hdm1)

/-! ### … and final -/

/-- **tomb_final**: once an id is tombstoned, it stays tombstoned and is never live again — after every later
history, without any assumption on that history. -/
theorem tomb_final (s : State) (hD : DT s) (cid : Bytes) (h : cid ∈ s.d) (hist : List (Env × Op)) :
    (abs (run s hist)).tomb cid ∧ (abs (run s hist)).live cid = none := by
  obtain ⟨h1, h2⟩ := dt_run hist s hD
  exact ⟨h2 cid h, abs_live_none (h1 cid (h2 cid h))⟩

/-- the same from the initial state: for all histories `h1`, `h2` -/
theorem tomb_final_reachable (roots : List Bytes) (h1 h2 : List (Env × Op)) (cid : Bytes)
    (h : (abs (run (init roots) h1)).tomb cid) :
    (abs (run (run (init roots) h1) h2)).live cid = none :=
  (tomb_final _ (dt_run h1 _ (dt_init roots)).1 cid h h2).2

/-- a put of a tombstoned id FAULTs; with a well-formed blob the fault is "container was previously deleted" -/
theorem deleted_id_put_faults (env : Env) (s : State) (cid blob sg pub token name zone : Bytes) (mt : Option Bool)
    (h : cid ∈ s.d) :
    (∃ e, invoke env s (.put cid blob sg pub token name zone mt) = (s, .error e)) ∧
    (∀ ow, ownerOf blob = some ow →
      invoke env s (.put cid blob sg pub token name zone mt) = (s, .error .deleted)) := by
  have key : ∀ ow, ownerOf blob = some ow → putStep env s cid blob sg pub token name zone mt = .error .deleted := by
    intro ow ho
    unfold putStep
    dsimp only
    rw [ho]
    have : cid ∈ (if mt = some true then { s with m := sadd s.m cid } else s).d := by
      split <;> exact h
    simp [this]
  constructor
  · cases hst : putStep env s cid blob sg pub token name zone mt with
    | error e => exact ⟨e, by simp [invoke, step, hst]⟩
    | ok r =>
      obtain ⟨s', ev⟩ := r
      obtain ⟨_, _, _, _, _, hp⟩ := putStep_ok hst
      exact absurd h hp.notTomb
  · intro ow ho
    simp [invoke, step, key ow ho]

/-! ### notifications -/

/-- Each HALTed put emits exactly one `PutSuccess(cid, key)`, each HALTed delete of a stored container exactly
one `DeleteSuccess(cid)` (a delete that finds nothing returns silently), each HALTed setEACL exactly one
`SetEACLSuccess(cid, key)`; no other operation emits any of them (`expectedEvents`); a FAULT emits nothing. -/
theorem events_exact (env : Env) (s : State) (op : Op) :
    match (invoke env s op).2 with
    | .ok (_, ev) => cnrEvents ev = expectedEvents s op
    | .error _ => True := by
  unfold invoke
  cases hst : step env s op with
  | error e => trivial
  | ok r => obtain ⟨s', ret, ev⟩ := r; exact events_step hst

/-- A FAULTed invocation leaves the whole state (registry, NNS, balances, configuration) untouched. -/
theorem fault_inert (env : Env) (s : State) (op : Op) (e : Fault) (h : (invoke env s op).2 = .error e) :
    (invoke env s op).1 = s := by
  unfold invoke at *
  split at h
  · rfl
  · cases h

/-! ### storage layout (justifies the typed families of the model) -/

theorem families_disjoint (k1 k2 : Key) (h1 : k1.WF) (h2 : k2.WF) (h : k1.enc = k2.enc) : k1 = k2 :=
  Container.families_disjoint k1 k2 h1 h2 h

theorem find_x_exact (k : Key) (h : [120] <+: k.enc) : ∃ cid, k = .x cid := Container.find_x_exact k h

theorem find_o_exact (k : Key) (arg : Bytes) (h : (111 :: arg) <+: k.enc) :
    ∃ ow cid, k = .o ow cid ∧ arg <+: ow ++ cid := Container.find_o_exact k arg h

theorem find_o_owner (ow ow' cid : Bytes) (h1 : ow.length = 25) (h2 : ow'.length = 25) :
    ow <+: ow' ++ cid ↔ ow = ow' := Container.find_o_owner ow ow' cid h1 h2

/-- the one exception: ids beginning with "nsHasAlias" make the placement prefix `'n' ‖ cid` meet alias keys;
for all other ids it selects the placement family only -/
theorem find_nodes_exact (cid : Bytes) (hc : cid.length = 32) (hna : ¬ aliasLike cid) (k : Key) (hk : k.WF)
    (h : (110 :: cid) <+: k.enc) : ∃ rest, k = .nodes rest := Container.find_nodes_exact cid hc hna k hk h

theorem aliasLike_overlap : ∃ cid cid' : Bytes, cid.length = 32 ∧ cid'.length = 32 ∧ aliasLike cid ∧
    (110 :: cid ++ [0]) <+: (Key.alias cid').enc := Container.aliasLike_overlap

theorem prefixes_are_literals :
    (Generated.container_containerKeyPrefix_bytes.headD 0) = 120 ∧ (Generated.container_ownerKeyPrefix_bytes.headD 0) = 111 ∧
    (Generated.container_deletedKeyPrefix_bytes.headD 0) = 100 ∧ (Generated.container_containersWithMetaPrefix_bytes.headD 0) = 109 ∧
    (Generated.container_nodesPrefix_bytes.headD 0) = 110 ∧ (Generated.container_replicasNumberPrefix_bytes.headD 0) = 114 ∧
    (Generated.container_nextEpochNodesPrefix_bytes.headD 0) = 117 ∧
    Generated.container_eACLPrefix = [101, 65, 67, 76] ∧
    Generated.container_nnsHasAliasKey_bytes = [110, 110, 115, 72, 97, 115, 65, 108, 105, 97, 115] ∧
    Generated.container_singleEstimatePrefix_bytes = [101, 115, 116] ∧
    Generated.container_estimateKeyPrefix_bytes = [99, 110, 114] := Container.prefixes_are_literals

/-- the id and owner sizes of the source -/
theorem sizes_are_literals : Generated.container_containerIDSize = 32 := rfl

/-! ### non-vacuity: a concrete history on which the hypotheses hold and the conclusions are not trivial -/
section demo

def own : Bytes := 53 :: List.replicate 20 5 ++ [1, 2, 3, 4]
def acct : Bytes := List.replicate 20 5
def blob1 : Bytes := [10, 2, 0, 0, 9, 9, 9, 9] ++ own ++ [7, 7]
def blob2 : Bytes := [10, 0, 9, 9, 9, 9] ++ own
def cid1 : Bytes := List.replicate 32 1
def cid2 : Bytes := List.replicate 32 2
def pubk : Bytes := List.replicate 33 3
def alphaA : Bytes := List.replicate 20 7
def env0 : Env := ⟨List.replicate 20 9, alphaA, List.replicate 20 8, [List.replicate 20 11, List.replicate 20 12],
  Generated.container_nnsDefaultTLD_bytes, [alphaA]⟩
def aaa : Bytes := [97, 97, 97]
def bbb : Bytes := [98, 98, 98]
def table1 : Bytes := [0, 0, 1, 1, 1, 1] ++ cid1 ++ [5]

/-- fees 3 + 2, fund, putNamed(blob1,"aaa"), putNamed(blob1,"bbb") (re-alias), setEACL, put(blob2),
delete(blob1), then "aaa" is given to blob2 (the F13 scenario) -/
def demo : List (Env × Op) :=
  [ (env0, .setcfg feeKey [3]), (env0, .setcfg aliasFeeKey [2]),
    (env0, .bal (.mint acct 100 [])),
    (env0, .put cid1 blob1 [1] pubk [4] aaa [] none),
    (env0, .put cid1 blob1 [1] pubk [4] bbb [] none),
    (env0, .setEACL table1 [2] pubk [4]),
    (env0, .put cid2 blob2 [1] pubk [4] [] [] (some true)),
    (env0, .delete cid1 [1] [4]),
    (env0, .put cid2 blob2 [1] pubk [4] aaa [] none) ]

def roots0 : List Bytes := [Generated.container_nnsDefaultTLD_bytes]

def faultOf {α : Type} : Except Fault α → Option Fault
  | .error e => some e
  | .ok _ => none

-- the history is inside the quantifier
example : Consistent (putsOf demo) := by decide
example : WFHist (init roots0) demo := collision_free_histories_are_wf roots0 demo (by decide)
-- before the delete: both containers live, with alias "bbb.container", eACL and meta flag
example : ((abs (run (init roots0) (demo.take 7))).live cid1).map (·.alias) = some (some (bbb ++ 46 :: Generated.container_nnsDefaultTLD_bytes)) := by decide
example : ((abs (run (init roots0) (demo.take 7))).live cid1).map (·.eacl.isSome) = some true := by decide
example : ((abs (run (init roots0) (demo.take 7))).live cid2).map (·.metaOn) = some true := by decide
example : (readStep (run (init roots0) (demo.take 7)) (.list own)).toOption = some (.list [cid2, cid1]) := by decide
example : (readStep (run (init roots0) (demo.take 7)) .count).toOption = some (.int 2) := by decide
-- the delete HALTs, announces itself once, and erases everything
example : ((invoke env0 (run (init roots0) (demo.take 7)) (.delete cid1 [1] [4])).2.toOption.map (fun r => cnrEvents r.2)) =
    some [.deleteSuccess cid1] := by decide
example : (abs (run (init roots0) (demo.take 8))).live cid1 = none := by decide
example : cid1 ∈ (run (init roots0) (demo.take 8)).d := by decide
example : faultOf (readStep (run (init roots0) (demo.take 8)) (.get cid1)) = some .notFound := by decide
example : (run (init roots0) (demo.take 8)).doms.all (fun kv => kv.2.txt = []) = true := by decide
-- replay of the deleted container is refused for ever, the name "aaa" is usable again
example : faultOf (invoke env0 (run (init roots0) demo) (.put cid1 blob1 [1] pubk [4] [] [] none)).2 = some .deleted := by decide
example : ((abs (run (init roots0) demo)).live cid2).map (·.alias) = some (some (aaa ++ 46 :: Generated.container_nnsDefaultTLD_bytes)) := by decide

end demo

/-! ## Frame of the model, regenerated: which storage keys the registry methods can write

Checked by kernel evaluation over `NeoFS.Generated.Footprint.table` (grouped by contract: `contracts`), the MAY-WRITE footprint recomputed from the Go sources
on every run (`extract footprint`; vocabulary and the meaning of the checkers in `Model/Footprint.lean`). Families are named
through the regenerated constants. -/
section Footprint
open NeoFS.Footprint NeoFS.Generated.Footprint

def fpContainers : Fam := startingWith NeoFS.Generated.container_containerKeyPrefix_bytes
def fpOwnerIndex : Fam := startingWith NeoFS.Generated.container_ownerKeyPrefix_bytes
def fpMetaFlags : Fam := startingWith NeoFS.Generated.container_containersWithMetaPrefix_bytes
def fpEACL : Fam := startingWith NeoFS.Generated.container_eACLPrefix_bytes
def fpAlias : Fam := startingWith NeoFS.Generated.container_nnsHasAliasKey_bytes
/-- the placement roster `n ‖ cid ‖ vector ‖ key` (67 bytes) shares its first byte with the alias flags `nnsHasAlias ‖ cid` (43 bytes):
at the level of leading constants the roster family contains the alias family, the key lengths keep them apart; rows of exactly
this family are left out where the alias family is concerned -/
def fpRoster : Fam := startingWith NeoFS.Generated.container_nodesPrefix_bytes
def fpTombstones : Fam := startingWith NeoFS.Generated.container_deletedKeyPrefix_bytes

/-- "Deleting a container removes every trace of it": whatever storage family `put` (incl. the `putMeta` overload), `putNamed` or
`setEACL` can write, `delete` can delete — every put row of these methods lies inside the family of a delete row of `delete`;
and `delete` asks NNS to drop the alias record. -/
theorem delete_covers_everything_put_and_setEACL_write :
    putsCoveredBy contracts "container" ["put", "putNamed", "setEACL"] "delete" = true ∧
    named contracts "container" "delete" "call" "deleteRecords" = true := by decide +kernel

/-- The five per-container families named in the property are all among those `delete` deletes. -/
theorem delete_deletes_blob_owner_index_eacl_alias_meta :
    deletesAllOf contracts "container" "delete" [fpContainers, fpOwnerIndex, fpEACL, fpAlias, fpMetaFlags] = true := by decide +kernel

/-- "A deleted id can never be registered again": only `delete` writes a tombstone, and nothing ever deletes one (the upgrade
migration in `_deploy` excepted, which moves keys of unknown shape). -/
theorem tombstones_written_only_by_delete_and_never_removed :
    onlyBy contracts "container" "put" fpTombstones ["delete"] = true ∧
    onlyBy contracts "container" "delete" fpTombstones ["_deploy"] = true ∧
    does contracts "container" "delete" "put" fpTombstones = true := by decide +kernel

/-- Who can write the registry families at all: blobs and the owner index only `put`/`putNamed` (and the migration), eACL tables
only `setEACL`, the meta flag only `put` (its `putMeta` overload), the alias only `put`/`putNamed`; only `delete` (and the migration)
deletes any of them. -/
theorem registry_families_written_only_by_the_registry_methods :
    onlyBy contracts "container" "put" fpContainers ["put", "putNamed", "_deploy"] = true ∧
    onlyBy contracts "container" "put" fpOwnerIndex ["put", "putNamed", "_deploy"] = true ∧
    onlyBy contracts "container" "put" fpEACL ["setEACL"] = true ∧
    onlyBy contracts "container" "put" fpMetaFlags ["put"] = true ∧
    onlyByApartFrom contracts "container" "put" fpAlias (· == fpRoster) ["put", "putNamed"] = true ∧
    [fpContainers, fpOwnerIndex, fpEACL, fpMetaFlags].all
      (fun f => onlyBy contracts "container" "delete" f ["delete", "_deploy"]) = true ∧
    onlyByApartFrom contracts "container" "delete" fpAlias (· == fpRoster) ["delete", "_deploy"] = true := by decide +kernel

/-- "… and nothing else emits them": the three notifications come only from their methods. -/
theorem success_notifications_only_from_their_methods :
    namedOnlyBy contracts "container" "notify" "PutSuccess" ["put", "putNamed"] = true ∧
    namedOnlyBy contracts "container" "notify" "DeleteSuccess" ["delete"] = true ∧
    namedOnlyBy contracts "container" "notify" "SetEACLSuccess" ["setEACL"] = true := by decide +kernel

-- non-vacuity: the families are written by the methods named; a delete that forgot the eACL family would be refused
example : does contracts "container" "put" "put" fpContainers = true ∧ does contracts "container" "putNamed" "put" fpOwnerIndex = true ∧
    does contracts "container" "setEACL" "put" fpEACL = true ∧ does contracts "container" "put" "put" fpMetaFlags = true ∧
    does contracts "container" "putNamed" "put" fpAlias = true := by decide +kernel
example : named contracts "container" "put" "notify" "PutSuccess" = true ∧ named contracts "container" "delete" "notify" "DeleteSuccess" = true ∧
    named contracts "container" "setEACL" "notify" "SetEACLSuccess" = true := by decide +kernel
example : putsCoveredBy (withoutRows contracts (fun e => e.method == "delete" && e.kind == "delete" && e.bytes == fpEACL.bytes))
    "container" ["put", "putNamed", "setEACL"] "delete" = false := by decide +kernel
example : onlyBy (withRow contracts ⟨"container", "setEACL", "delete", "", "", NeoFS.Generated.container_deletedKeyPrefix_bytes, false⟩)
    "container" "delete" fpTombstones ["_deploy"] = false := by decide +kernel
end Footprint

end NeoFS.Props.C04
