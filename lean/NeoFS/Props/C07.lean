import NeoFS.Lemmas.Netmap
import NeoFS.Generated.Consts
import NeoFS.Generated.Footprint
/-! # C07 — Netmap candidates follow the add/update/remove state machine in both lists

Property theorems only. The specification `Spec.candStep` / `Spec.candRun` (NeoFS/Lemmas/NetmapSpec.lean) is
the property's own reading: a table `Key → (legacy record?, structured record?)`, changed only by accepted
requests. `abs s k = (candidate‖k record, 2‖k record)` reads the table off the model's two key families.
All statements hold for ALL states / ALL histories, all keys (present in the legacy list, the structured list,
both or neither), all state values including invalid ones, malformed keys and blobs. -/
namespace NeoFS.Props.C07
open NeoFS NeoFS.Netmap

/-! ### refinement: the candidate set is exactly what the successful requests imply -/

/-- one request (any of addPeer/addPeerIR/addNode/updateState/updateStateIR/deleteNode, any state, any
signers): it HALTs exactly when the specification accepts it, and then both candidate families hold exactly
the table the specification computes (add ⇒ Online under the key cut from the blob / carried by the node,
Online/Maintenance ⇒ only the state changes wherever the key exists, Offline/deleteNode ⇒ gone from both) -/
theorem request_refines_spec (s : State) (env : Env) (op : Op) (hop : Spec.isCandOp op = true) :
    (step s env op).map (fun r => abs r.1) = Spec.candStep (abs s) env.alphabet (fun k => env.witnesses.contains k) op :=
  cand_refines s env op hop

/-- any invocation at all (ticks and subscriptions included), successful or not: the table after it is the
specification's; a failed request has no effect -/
theorem invocation_refines_spec (s : State) (env : Env) (op : Op) :
    abs (invoke s env op).1 =
      (Spec.candStep (abs s) env.alphabet (fun k => env.witnesses.contains k) op).getD (abs s) :=
  abs_invoke s env op

/-- all histories: the two candidate lists agree with the table implied by the sequence of successful requests -/
theorem candidates_follow_requests (hist : List (Env × Op)) :
    abs (run init hist) = Spec.candRun Spec.Cand.empty hist := by
  rw [abs_run, abs_init]

/-- a request that fails changes nothing at all (not only the candidate families) -/
theorem failed_request_changes_nothing (s : State) (env : Env) (op : Op) (h : step s env op = none) :
    invoke s env op = (s, none) := by
  unfold invoke; rw [h]

/-- the read API lists exactly the table: `netmapCandidates` / `listCandidates` hold a record iff the table
holds it under some key, and no key occurs twice -/
theorem listings_are_the_table (hist : List (Env × Op)) :
    (∀ n, n ∈ netmapCandidates (run init hist) ↔ ∃ k, (Spec.candRun Spec.Cand.empty hist k).legacy = some n) ∧
    (∀ n, n ∈ listCandidates (run init hist) ↔ ∃ k, (Spec.candRun Spec.Cand.empty hist k).structured = some n) ∧
    ((run init hist).cands.keys).Nodup ∧ ((run init hist).cands2.keys).Nodup := by
  have hi : Inv (run init hist) := inv_run hist inv_init
  have ha := candidates_follow_requests hist
  have nodup : ∀ {α : Type} (m : Map α), Map.Sorted m → (Map.keys m).Nodup := by
    intro α m hm
    unfold Map.keys Map.Sorted at *
    rw [List.Nodup, List.pairwise_map]
    exact hm.imp (fun h => blt_ne _ _ h)
  refine ⟨?_, ?_, nodup _ hi.cands, nodup _ hi.cands2⟩
  · intro n
    rw [← ha]
    constructor
    · intro hn
      obtain ⟨⟨k, n'⟩, hm, e⟩ := List.mem_map.mp hn
      simp only at e; subst e
      exact ⟨k, Map.get_of_mem hi.cands hm⟩
    · rintro ⟨k, hk⟩
      exact List.mem_map.mpr ⟨(k, n), Map.mem_of_get hk, rfl⟩
  · intro n
    rw [← ha]
    constructor
    · intro hn
      obtain ⟨⟨k, n'⟩, hm, e⟩ := List.mem_map.mp hn
      simp only at e; subst e
      exact ⟨k, Map.get_of_mem hi.cands2 hm⟩
    · rintro ⟨k, hk⟩
      exact List.mem_map.mpr ⟨(k, n), Map.mem_of_get hk, rfl⟩

/-- along every history every stored record sits under the public key it carries (bytes 2..35 of the blob /
the `Key` field, 33 bytes) and is Online or under Maintenance — never Offline, never an unknown state -/
theorem records_wellformed (hist : List (Env × Op)) : Spec.CandWF (abs (run init hist)) := by
  rw [candidates_follow_requests]; exact candWF_run candWF_empty hist

/-- the same from the deployment whose snapshot count was changed once before anything else (`initWith k`, the further
roots of the histories; the candidate table does not depend on the snapshot count) -/
theorem candidates_follow_requests_resized (k : Nat) (hist : List (Env × Op)) :
    abs (run (initWith k) hist) = Spec.candRun Spec.Cand.empty hist := by
  rw [abs_run, abs_initWith]

theorem records_wellformed_resized (k : Nat) (hist : List (Env × Op)) : Spec.CandWF (abs (run (initWith k) hist)) := by
  rw [candidates_follow_requests_resized]; exact candWF_run candWF_empty hist

example :
    let a : Key := List.replicate 33 1
    let env : Env := ⟨true, [a], 9, fun _ => true, fun _ _ => true⟩
    (abs (run (initWith 256) [(env, .addNode ⟨[[97]], [], a, 1⟩), (env, .newEpoch 128)]) a).structured =
      some ⟨[[97]], [], a, 1⟩ := by decide

example :
    let a : Key := List.replicate 33 1
    let env : Env := ⟨true, [a], 9, fun _ => true, fun _ _ => true⟩
    let blob : Bytes := [0, 0] ++ a ++ [7]
    let s := run init [(env, .addPeer blob), (env, .addNode ⟨[[97]], [], a, 1⟩), (env, .updateState 3 a)]
    (netmapCandidates s, listCandidates s) = ([⟨blob, 3⟩], [⟨[[97]], [], a, 3⟩]) := by decide

/-! ### what the specification says, spelled out on the model -/

/-- an Online/Maintenance update of an existing candidate changes only the state, in every representation that
holds it, and touches no other key -/
theorem update_changes_only_state (s : State) (env : Env) (st : Int) (k : Key) (r : Halt)
    (hst : st = 1 ∨ st = 3) (h : step s env (.updateStateIR st k) = some r) :
    (abs r.1 k).legacy = (abs s k).legacy.map (fun n => { n with state := st }) ∧
    (abs r.1 k).structured = (abs s k).structured.map (fun n => { n with state := st }) ∧
    (∀ k', k' ≠ k → abs r.1 k' = abs s k') ∧
    ((abs s k).legacy.isSome = true ∨ (abs s k).structured.isSome = true) := by
  have hr := request_refines_spec s env (.updateStateIR st k) rfl
  rw [h] at hr
  simp only [Option.map_some, Spec.candStep] at hr
  cases ha : env.alphabet with
  | false => rw [ha] at hr; simp at hr
  | true =>
    rw [ha] at hr
    simp only [if_true, Spec.change] at hr
    by_cases hk : k.length ≠ 33
    · rw [if_pos hk] at hr; cases hr
    · rw [if_neg hk] at hr
      have h2 : st ≠ 2 := by omega
      rw [if_neg h2, if_pos hst] at hr
      cases hkn : Spec.known (abs s k) with
      | false => rw [hkn] at hr; simp at hr
      | true =>
        rw [hkn] at hr
        simp only [if_true, Option.some.injEq] at hr
        rw [hr]
        refine ⟨by simp [Spec.Cand.set, Spec.withState], by simp [Spec.Cand.set, Spec.withState],
          fun k' hk' => by simp [Spec.Cand.set, hk'], ?_⟩
        unfold Spec.known at hkn
        simpa [Bool.or_eq_true] using hkn

/-- updating an unknown candidate (Online / Maintenance) fails, an unknown state value fails — whoever signs -/
theorem unknown_candidate_or_state_fails (s : State) (env : Env) (st : Int) (k : Key)
    (h : (st ≠ 1 ∧ st ≠ 2 ∧ st ≠ 3) ∨ ((st = 1 ∨ st = 3) ∧ (abs s k).legacy = none ∧ (abs s k).structured = none)) :
    step s env (.updateStateIR st k) = none ∧ step s env (.updateState st k) = none := by
  have key : Spec.change (abs s) st k = none := by
    unfold Spec.change
    by_cases hk : k.length ≠ 33
    · rw [if_pos hk]
    · rw [if_neg hk]
      rcases h with ⟨h1, h2, h3⟩ | ⟨h1, h2, h3⟩
      · rw [if_neg h2, if_neg (by omega)]
      · have : st ≠ 2 := by omega
        rw [if_neg this, if_pos h1]
        simp [Spec.known, h2, h3]
  constructor
  · have hr := request_refines_spec s env (.updateStateIR st k) rfl
    simp only [Spec.candStep, key] at hr
    cases hs : step s env (.updateStateIR st k) with
    | none => rfl
    | some r => rw [hs] at hr; cases ha : env.alphabet <;> simp [ha] at hr
  · have hr := request_refines_spec s env (.updateState st k) rfl
    simp only [Spec.candStep, key] at hr
    cases hs : step s env (.updateState st k) with
    | none => rfl
    | some r => rw [hs] at hr; simp at hr

/-- Offline and deleteNode remove the candidate from both lists; removing an unknown or already removed
candidate succeeds without any other change -/
theorem removal_clears_both (s : State) (env : Env) (k : Key) (r : Halt)
    (h : step s env (.deleteNode k) = some r ∨ step s env (.updateStateIR 2 k) = some r ∨ step s env (.updateState 2 k) = some r) :
    (abs r.1 k).legacy = none ∧ (abs r.1 k).structured = none ∧ ∀ k', k' ≠ k → abs r.1 k' = abs s k' := by
  have key : ∀ c', Spec.change (abs s) 2 k = some c' →
      (c' k).legacy = none ∧ (c' k).structured = none ∧ ∀ k', k' ≠ k → c' k' = abs s k' := by
    intro c' hc
    unfold Spec.change at hc
    by_cases hk : k.length ≠ 33
    · rw [if_pos hk] at hc; cases hc
    · rw [if_neg hk, if_pos rfl] at hc; cases hc
      exact ⟨by simp [Spec.Cand.set], by simp [Spec.Cand.set], fun k' hk' => by simp [Spec.Cand.set, hk']⟩
  rcases h with h | h | h
  · have hr := request_refines_spec s env (.deleteNode k) rfl
    rw [h] at hr; simp only [Option.map_some, Spec.candStep] at hr
    cases ha : env.alphabet with
    | false => rw [ha] at hr; simp at hr
    | true => rw [ha] at hr; simp only [if_true] at hr; exact key _ hr.symm
  · have hr := request_refines_spec s env (.updateStateIR 2 k) rfl
    rw [h] at hr; simp only [Option.map_some, Spec.candStep] at hr
    cases ha : env.alphabet with
    | false => rw [ha] at hr; simp at hr
    | true => rw [ha] at hr; simp only [if_true] at hr; exact key _ hr.symm
  · have hr := request_refines_spec s env (.updateState 2 k) rfl
    rw [h] at hr; simp only [Option.map_some, Spec.candStep] at hr
    cases hc : (env.witnesses.contains k && env.alphabet) with
    | false => rw [hc] at hr; simp at hr
    | true => rw [hc] at hr; simp only [if_true] at hr; exact key _ hr.symm

example :
    let a : Key := List.replicate 33 1
    let env : Env := ⟨true, [a], 9, fun _ => true, fun _ _ => true⟩
    let s := run init [(env, .addNode ⟨[], [], a, 1⟩), (env, .deleteNode a)]
    (listCandidates s, (invoke s env (.deleteNode a)).2, (invoke s env (.updateStateIR 3 a)).2,
      (invoke s env (.updateStateIR 4 a)).2) =
    ([], some [.updateStateSuccess a 2], none, none) := by decide

/-! ### witnesses -/

/-- requests made by a node itself (addPeer, addNode, updateState) take effect only with both the node's own
witness and the Alphabet's -/
theorem node_requests_need_both_witnesses (s : State) (env : Env) :
    (∀ blob r, step s env (.addPeer blob) = some r →
        env.alphabet = true ∧ ∃ k, Spec.slice blob = some k ∧ k ∈ env.witnesses) ∧
    (∀ n r, step s env (.addNode n) = some r → env.alphabet = true ∧ n.key ∈ env.witnesses) ∧
    (∀ st k r, step s env (.updateState st k) = some r → env.alphabet = true ∧ k ∈ env.witnesses) := by
  refine ⟨?_, ?_, ?_⟩
  · intro blob r h
    have hr := request_refines_spec s env (.addPeer blob) rfl
    rw [h] at hr; simp only [Option.map_some, Spec.candStep] at hr
    cases hk : Spec.slice blob with
    | none => rw [hk] at hr; cases hr
    | some k =>
      rw [hk] at hr
      dsimp only at hr
      cases hc : (env.witnesses.contains k && env.alphabet) with
      | false => rw [hc] at hr; simp at hr
      | true =>
        simp only [Bool.and_eq_true] at hc
        exact ⟨hc.2, k, rfl, List.contains_iff_mem.mp hc.1⟩
  · intro n r h
    have hr := request_refines_spec s env (.addNode n) rfl
    rw [h] at hr; simp only [Option.map_some, Spec.candStep] at hr
    by_cases hc : n.state = 1 ∧ n.key.length = 33 ∧ env.witnesses.contains n.key = true ∧ env.alphabet = true
    · exact ⟨hc.2.2.2, List.contains_iff_mem.mp hc.2.2.1⟩
    · rw [if_neg hc] at hr; cases hr
  · intro st k r h
    have hr := request_refines_spec s env (.updateState st k) rfl
    rw [h] at hr; simp only [Option.map_some, Spec.candStep] at hr
    cases hc : (env.witnesses.contains k && env.alphabet) with
    | false => rw [hc] at hr; simp at hr
    | true =>
      simp only [Bool.and_eq_true] at hc
      exact ⟨hc.2, List.contains_iff_mem.mp hc.1⟩

/-- no request whatsoever changes the candidate table without the Alphabet's witness -/
theorem every_change_needs_alphabet (s : State) (env : Env) (op : Op) (ha : env.alphabet = false) :
    abs (invoke s env op).1 = abs s := by
  rw [invocation_refines_spec, ha]
  cases op with
  | addPeer blob => simp only [Spec.candStep]; cases Spec.slice blob <;> simp
  | addPeerIR blob => simp only [Spec.candStep]; cases Spec.slice blob <;> simp
  | addNode n => simp [Spec.candStep]
  | updateState st k => simp [Spec.candStep]
  | updateStateIR st k => simp [Spec.candStep]
  | deleteNode k => simp [Spec.candStep]
  | newEpoch e => rfl
  | subscribe c => rfl
  | updateSnapshotCount n => rfl

example :
    let a : Key := List.replicate 33 1
    let blob : Bytes := [0, 0] ++ a
    let n2 : Node2 := ⟨[], [], a, 1⟩
    ((step init ⟨true, [a], 1, fun _ => true, fun _ _ => true⟩ (.addPeer blob)).isSome,
     (step init ⟨true, [], 1, fun _ => true, fun _ _ => true⟩ (.addPeer blob)).isSome,
     (step init ⟨false, [a], 1, fun _ => true, fun _ _ => true⟩ (.addPeer blob)).isSome,
     (step init ⟨true, [], 1, fun _ => true, fun _ _ => true⟩ (.addPeerIR blob)).isSome,
     (step init ⟨true, [a], 1, fun _ => true, fun _ _ => true⟩ (.addNode n2)).isSome,
     (step init ⟨true, [], 1, fun _ => true, fun _ _ => true⟩ (.addNode n2)).isSome) =
    (true, false, false, true, true, false) := by decide

/-- ticks and subscriptions never touch the candidate set (this is also C06's "leaves the candidate set unchanged") -/
theorem ticks_and_subscriptions_keep_candidates (s : State) (env : Env) (op : Op)
    (hop : Spec.isCandOp op = false) : abs (invoke s env op).1 = abs s := by
  rw [invocation_refines_spec]
  cases op <;> first | rfl | cases hop

/-! ## Frame of the model, regenerated: who can write the candidate set

Checked by kernel evaluation over `NeoFS.Generated.Footprint.table` (grouped by contract: `contracts`), the MAY-WRITE footprint recomputed from the Go sources on
every run (`extract footprint`; `Model/Footprint.lean`). -/
section Footprint
open NeoFS.Footprint NeoFS.Generated.Footprint

def fpCandidates : Fam := startingWith NeoFS.Generated.netmap_candidatePrefix_bytes
def fpCandidates2 : Fam := startingWith NeoFS.Generated.netmap_node2CandidatePrefix_bytes

/-- "The candidate set is exactly what the sequence of successful addPeer/addPeerIR/addNode/updateState/updateStateIR/deleteNode
calls implies": no other method (the upgrade migration of the legacy format excepted) can put or delete a candidate key of either
format; the `add*` methods never delete one. -/
theorem candidates_written_only_by_the_candidate_methods :
    onlyBy contracts "netmap" "put" fpCandidates ["addPeer", "addPeerIR", "updateState", "updateStateIR", "deleteNode", "_deploy"] = true ∧
    onlyBy contracts "netmap" "put" fpCandidates2 ["addNode", "updateState", "updateStateIR", "deleteNode"] = true ∧
    onlyBy contracts "netmap" "delete" fpCandidates ["updateState", "updateStateIR", "deleteNode"] = true ∧
    onlyBy contracts "netmap" "delete" fpCandidates2 ["updateState", "updateStateIR", "deleteNode"] = true := by decide +kernel

/-- Each candidate method writes nothing but candidate keys. -/
theorem candidate_methods_write_only_candidates :
    ["addPeer", "addPeerIR", "addNode", "updateState", "updateStateIR", "deleteNode"].all
      (fun m => writesWithin contracts "netmap" m [fpCandidates, fpCandidates2]) = true := by decide +kernel

example : does contracts "netmap" "addPeer" "put" fpCandidates = true ∧ does contracts "netmap" "addNode" "put" fpCandidates2 = true ∧
    does contracts "netmap" "deleteNode" "delete" fpCandidates = true ∧ does contracts "netmap" "updateState" "delete" fpCandidates2 = true := by
  decide +kernel
example : onlyBy (withRow contracts ⟨"netmap", "setConfig", "put", "", "", NeoFS.Generated.netmap_candidatePrefix_bytes, false⟩)
    "netmap" "put" fpCandidates ["addPeer", "addPeerIR", "updateState", "updateStateIR", "deleteNode", "_deploy"] = false := by decide +kernel
end Footprint

end NeoFS.Props.C07
