import NeoFS.Lemmas.Balance
/-! # C01 — Balance: supply equals the sum of balances and no balance is ever negative

Property theorems only; helper lemmas are in `NeoFS/Lemmas/Balance.lean`, the model in
`NeoFS/Model/Balance.lean`. -/
namespace NeoFS.Props.C01
open NeoFS NeoFS.Balance

/-- One invocation (any method, any caller, any arguments inside the property's quantifier `WFOp`)
preserves: unique account records, no negative balance, `supply = Σ balances`. -/
theorem sheet_step (s : State) (env : Env) (op : Op) (h : SInv s) (hw : WFOp s op) :
    SInv (invoke s env op).1 := inv_invoke s env op h hw

/-- After every prefix of every history inside the quantifier the sheet is consistent. -/
theorem sheet_all_histories (hist : List (Env × Op)) (hw : WFHist init hist) :
    (run init hist).supply = total (run init hist).accts ∧ Nonneg (run init hist).accts :=
  C01_reachable hist hw

end NeoFS.Props.C01
