import NeoFS.Generated.Consts
import NeoFS.Lemmas.BalanceEvents
/-! # C01 — Balance: supply equals the sum of balances, no balance is ever negative, supply moves
only on mint/burn, failed calls are inert, notifications come in pairs and replay all balances

Property theorems only; helper lemmas are in `NeoFS/Lemmas/Balance.lean`, `BalanceMore.lean`,
`BalanceEvents.lean`, the model in `NeoFS/Model/Balance.lean`.
`WFOp` is the property's quantifier: Alphabet-only methods get 20-byte addresses, lock targets hold
no funds (a fresh address, or an empty record left there by e.g. a zero-amount transfer). Theorems that do not mention `WFOp`/`SInv` hold for every state and every argument. -/
namespace NeoFS.Props.C01
open NeoFS NeoFS.Balance

/-- One invocation (any method, any caller, any arguments inside the property's quantifier `WFOp`)
preserves: unique account records, no negative balance, `supply = Σ balances`. -/
theorem sheet_step (s : State) (env : Env) (op : Op) (h : SInv s) (hw : WFOp s op) :
    SInv (invoke s env op).1 := inv_invoke s env op h hw

/-- After every prefix of every history inside the quantifier the sheet is consistent. -/
theorem sheet_all_histories (hist : List (Env × Op)) (hw : WFHist init hist) :
    (run init hist).supply = total (run init hist).accts ∧ Nonneg (run init hist).accts :=
  C01_reachable hist hw

example : WFHist init demo := by
  simp only [demo, WFHist, WFOp]; decide
example : (run init demo).supply = 960 ∧ total (run init demo).accts = 960 := by decide

/-- `totalSupply` moves by `+amount` on a HALTed mint, by `-amount` on a HALTed burn and not at all
in every other case (any state, any caller, any arguments; `supplyDelta` is that table). -/
theorem supply_delta (s : State) (env : Env) (op : Op) :
    (invoke s env op).1.supply = s.supply + supplyDelta op (halted (invoke s env op)) :=
  supply_invoke s env op

/-- Reading of `supply_delta` for everything that is not a mint or a burn. -/
theorem supply_unchanged_unless_mint_burn (s : State) (env : Env) (op : Op)
    (hm : ∀ t amt d, op ≠ .mint t amt d) (hb : ∀ f amt d, op ≠ .burn f amt d) :
    (invoke s env op).1.supply = s.supply := by
  rw [supply_invoke]
  cases op with
  | mint t amt d => exact absurd rfl (hm t amt d)
  | burn f amt d => exact absurd rfl (hb f amt d)
  | _ => simp [supplyDelta]

example : supplyDelta (.mint A 1000 []) (halted (invoke init alpha (.mint A 1000 []))) = 1000 := by decide
example : supplyDelta (.burn A 400 []) (halted (invoke (run init demo) alpha (.burn A 400 []))) = -400 := by
  decide
example : supplyDelta (.mint A 1000 []) (halted (invoke init asA (.mint A 1000 []))) = 0 := by decide
example : supplyDelta (.newEpoch 7) (halted (invoke (run init demo) alpha (.newEpoch 7))) = 0 := by decide

/-- A FAULTed invocation changes nothing. -/
theorem fault_changes_nothing (s : State) (env : Env) (op : Op) (h : (invoke s env op).2 = none) :
    (invoke s env op).1 = s := fault_inert s env op h

/-- A public transfer that answers `false` changes nothing and notifies nothing. -/
theorem refusal_changes_nothing (s : State) (env : Env) (f t : Hash) (amt : Int) (ev : List Event)
    (h : (invoke s env (.transfer f t amt)).2 = some (some false, ev)) :
    (invoke s env (.transfer f t amt)).1 = s ∧ ev = [] := refusal_inert s env f t amt ev h

example : (invoke (run init demo) asA (.burn A 1 [])).2 = none := by decide
example : (invoke (run init demo) asA (.transfer B A 1)).2 = some (some false, []) := by decide

/-- The notifications of a HALTed invocation are adjacent pairs `Transfer f t a`, `TransferX f t a d`
with equal payload; for `lock` the pairs are followed by exactly one `Lock` notification
(`EventsShape`, `pairedThen`). -/
theorem events_paired (s : State) (env : Env) (op : Op) (r : Option Bool) (ev : List Event)
    (h : (invoke s env op).2 = some (r, ev)) : EventsShape op ev := paired_invoke s env op r ev h

/-- For every method but the tick the notification list of a HALTed, not refused invocation is
exactly one pair carrying the call's own from/to/amount (`opEvents`), plus `Lock` for `lock`. -/
theorem events_exact (s : State) (env : Env) (op : Op) (r : Option Bool) (ev : List Event)
    (h : (invoke s env op).2 = some (r, ev)) (hne : ∀ e, op ≠ .newEpoch e) (hr : r ≠ some false) :
    ev = opEvents op :=
  events_exact_step _ _ _ _ _ _ (invoke_some_inv _ _ _ _ _ h) hne hr

example : (invoke (run init demo) alpha (.lock [9] A L 100 5)).2 =
    some (none, [.transfer A L 100, .transferX A L 100 [3, 9], .lock [9] A L 100 5]) := by decide
example : EventsShape (.lock [9] A L 100 5)
    [.transfer A L 100, .transferX A L 100 [3, 9], .lock [9] A L 100 5] := by decide
example : ¬ Paired [.transfer A L 100, .transferX A L 99 []] := by decide
example : ¬ Paired [.transfer A L 100] := by decide

/-- Replaying the `Transfer` notifications of a HALTed invocation over the old balances gives the
new balance of every account. Needs the quantifier `WFOp` only for "the lock target holds no
funds" (`Lock` overwrites the target record without notifying); no invariant on `s` is needed. -/
theorem events_replay (s : State) (env : Env) (op : Op) (r : Option Bool) (ev : List Event)
    (hw : WFOp s op) (h : (invoke s env op).2 = some (r, ev)) (k : Hash) :
    (getAcc (invoke s env op).1.accts k).bal = applyEvents (fun k => (getAcc s.accts k).bal) ev k :=
  congrFun (replay_step _ _ _ _ _ _ (lockZero_of_wf s op hw) (invoke_some_inv _ _ _ _ _ h)) k

/-- The concatenated notification stream of a whole history (FAULTed invocations contribute
nothing) replays from the all-zero balance function to the final balance of every account. -/
theorem events_replay_histories (hist : List (Env × Op)) (hw : WFHist init hist) (k : Hash) :
    (getAcc (run init hist).accts k).bal = applyEvents (fun _ => 0) (histEvents init hist) k :=
  congrFun (replay_hist hist init (lockZeroHist_of_wf hist init hw)) k

example : histEvents init demo =
    [.transfer [] A 1000, .transferX [] A 1000 [1], .transfer A B 300, .transferX A B 300 [],
     .transfer A L 100, .transferX A L 100 [3], .lock [] A L 100 2,
     .transfer L [] 40, .transferX L [] 40 [2], .transfer L A 60, .transferX L A 60 [4, 2]] := by decide
example : applyEvents (fun _ => 0) (histEvents init demo) A = 660 := by decide
example : applyEvents (fun _ => 0) (histEvents init demo) L = 0 := by decide

/-- Bridge to the sources: the literals used by the model (`1 :: d`, `2 :: d`, `3 :: d`, `4 :: encInt e`,
20-byte addresses) are the constants of `common/transfer.go` and `contracts/balance/contract.go` as
regenerated from the working tree on every run (`NeoFS.Generated`). A changed constant breaks this lemma. -/
theorem model_constants_match_sources :
    NeoFS.Generated.common_mintPrefix = [1] ∧ NeoFS.Generated.common_burnPrefix = [2] ∧
    NeoFS.Generated.common_lockPrefix = [3] ∧ NeoFS.Generated.common_unlockPrefix = [4] ∧
    NeoFS.Generated.balance_accPrefix_bytes = [97] ∧ NeoFS.Generated.balance_circulation = "MainnetGAS" := by decide

-- a lock target that is NOT fresh: a zero-amount transfer left the empty record ⟨0,0,[]⟩ there;
-- the history is inside the quantifier, the lock overwrites the record, the replay still holds
def demoZ : List (Env × Op) :=
  [(alpha, .mint A 1000 []), (asA, .transfer A L 0), (alpha, .lock [7] A L 100 2)]
example : L ∈ (run init (demoZ.take 2)).accts.map (·.1) ∧
    getAcc (run init (demoZ.take 2)).accts L = ⟨0, 0, []⟩ := by decide
example : WFHist init demoZ := by
  simp only [demoZ, WFHist, WFOp]; decide
example : getAcc (run init demoZ).accts L = ⟨100, 2, A⟩ ∧ (run init demoZ).supply = 1000 ∧
    total (run init demoZ).accts = 1000 := by decide
example : applyEvents (fun _ => 0) (histEvents init demoZ) L = 100 ∧
    applyEvents (fun _ => 0) (histEvents init demoZ) A = 900 := by decide

end NeoFS.Props.C01
