import NeoFS.Generated.Consts
import NeoFS.Generated.Footprint
import NeoFS.Lemmas.BalanceEvents
/-! # C01 — Balance: supply equals the sum of balances, no balance is ever negative, supply moves
only on mint/burn, failed calls are inert, notifications come in pairs and replay all balances

Property theorems only; helper lemmas are in `NeoFS/Lemmas/Balance.lean`, `BalanceMore.lean`,
`BalanceEvents.lean`, the model in `NeoFS/Model/Balance.lean`.
`WFOp` is the property's quantifier: Alphabet-only methods get 20-byte addresses, lock targets hold
no funds (a fresh address, or an empty record left there by e.g. a zero-amount transfer). Theorems that do not mention `WFOp`/`SInv` hold for every state and every argument. -/
namespace NeoFS.Props.C01
open NeoFS NeoFS.Balance

/-- One invocation (any method, any caller, any arguments inside the property's quantifier `WFOp`)
preserves: unique account records, no negative balance, `supply = Σ balances`. -/
theorem sheet_step (s : State) (env : Env) (op : Op) (h : SInv s) (hw : WFOp s op) :
    SInv (invoke s env op).1 := inv_invoke s env op h hw

/-- After every prefix of every history inside the quantifier the sheet is consistent. -/
theorem sheet_all_histories (hist : List (Env × Op)) (hw : WFHist init hist) :
    (run init hist).supply = total (run init hist).accts ∧ Nonneg (run init hist).accts :=
  C01_reachable hist hw

example : WFHist init demo := by
  simp only [demo, WFHist, WFOp]; decide
example : (run init demo).supply = 960 ∧ total (run init demo).accts = 960 := by decide

/-- `totalSupply` moves by `+amount` on a HALTed mint, by `-amount` on a HALTed burn and not at all
in every other case (any state, any caller, any arguments; `supplyDelta` is that table). -/
theorem supply_delta (s : State) (env : Env) (op : Op) :
    (invoke s env op).1.supply = s.supply + supplyDelta op (halted (invoke s env op)) :=
  supply_invoke s env op

/-- Reading of `supply_delta` for everything that is not a mint or a burn. -/
theorem supply_unchanged_unless_mint_burn (s : State) (env : Env) (op : Op)
    (hm : ∀ t amt d, op ≠ .mint t amt d) (hb : ∀ f amt d, op ≠ .burn f amt d) :
    (invoke s env op).1.supply = s.supply := by
  rw [supply_invoke]
  cases op with
  | mint t amt d => exact absurd rfl (hm t amt d)
  | burn f amt d => exact absurd rfl (hb f amt d)
  | _ => simp [supplyDelta]

example : supplyDelta (.mint A 1000 []) (halted (invoke init alpha (.mint A 1000 []))) = 1000 := by decide
example : supplyDelta (.burn A 400 []) (halted (invoke (run init demo) alpha (.burn A 400 []))) = -400 := by
  decide
example : supplyDelta (.mint A 1000 []) (halted (invoke init asA (.mint A 1000 []))) = 0 := by decide
example : supplyDelta (.newEpoch 7) (halted (invoke (run init demo) alpha (.newEpoch 7))) = 0 := by decide

/-- A FAULTed invocation changes nothing. -/
theorem fault_changes_nothing (s : State) (env : Env) (op : Op) (h : (invoke s env op).2 = none) :
    (invoke s env op).1 = s := fault_inert s env op h

/-- A public transfer that answers `false` changes nothing and notifies nothing. -/
theorem refusal_changes_nothing (s : State) (env : Env) (f t : Hash) (amt : Int) (ev : List Event)
    (h : (invoke s env (.transfer f t amt)).2 = some (some false, ev)) :
    (invoke s env (.transfer f t amt)).1 = s ∧ ev = [] := refusal_inert s env f t amt ev h

example : (invoke (run init demo) asA (.burn A 1 [])).2 = none := by decide
example : (invoke (run init demo) asA (.transfer B A 1)).2 = some (some false, []) := by decide

/-- The notifications of a HALTed invocation are adjacent pairs `Transfer f t a`, `TransferX f t a d`
with equal payload; for `lock` the pairs are followed by exactly one `Lock` notification
(`EventsShape`, `pairedThen`). -/
theorem events_paired (s : State) (env : Env) (op : Op) (r : Option Bool) (ev : List Event)
    (h : (invoke s env op).2 = some (r, ev)) : EventsShape op ev := paired_invoke s env op r ev h

/-- For every method but the tick the notification list of a HALTed, not refused invocation is
exactly one pair carrying the call's own from/to/amount (`opEvents`), plus `Lock` for `lock`. -/
theorem events_exact (s : State) (env : Env) (op : Op) (r : Option Bool) (ev : List Event)
    (h : (invoke s env op).2 = some (r, ev)) (hne : ∀ e, op ≠ .newEpoch e) (hr : r ≠ some false) :
    ev = opEvents op :=
  events_exact_step _ _ _ _ _ _ (invoke_some_inv _ _ _ _ _ h) hne hr

example : (invoke (run init demo) alpha (.lock [9] A L 100 5)).2 =
    some (none, [.transfer A L 100, .transferX A L 100 [3, 9], .lock [9] A L 100 5]) := by decide
example : EventsShape (.lock [9] A L 100 5)
    [.transfer A L 100, .transferX A L 100 [3, 9], .lock [9] A L 100 5] := by decide
example : ¬ Paired [.transfer A L 100, .transferX A L 99 []] := by decide
example : ¬ Paired [.transfer A L 100] := by decide

/-- Replaying the `Transfer` notifications of a HALTed invocation over the old balances gives the
new balance of every account. Needs the quantifier `WFOp` only for "the lock target holds no
funds" (`Lock` overwrites the target record without notifying); no invariant on `s` is needed. -/
theorem events_replay (s : State) (env : Env) (op : Op) (r : Option Bool) (ev : List Event)
    (hw : WFOp s op) (h : (invoke s env op).2 = some (r, ev)) (k : Hash) :
    (getAcc (invoke s env op).1.accts k).bal = applyEvents (fun k => (getAcc s.accts k).bal) ev k :=
  congrFun (replay_step _ _ _ _ _ _ (lockZero_of_wf s op hw) (invoke_some_inv _ _ _ _ _ h)) k

/-- The concatenated notification stream of a whole history (FAULTed invocations contribute
nothing) replays from the all-zero balance function to the final balance of every account. -/
theorem events_replay_histories (hist : List (Env × Op)) (hw : WFHist init hist) (k : Hash) :
    (getAcc (run init hist).accts k).bal = applyEvents (fun _ => 0) (histEvents init hist) k :=
  congrFun (replay_hist hist init (lockZeroHist_of_wf hist init hw)) k

example : histEvents init demo =
    [.transfer [] A 1000, .transferX [] A 1000 [1], .transfer A B 300, .transferX A B 300 [],
     .transfer A L 100, .transferX A L 100 [3], .lock [] A L 100 2,
     .transfer L [] 40, .transferX L [] 40 [2], .transfer L A 60, .transferX L A 60 [4, 2]] := by decide
example : applyEvents (fun _ => 0) (histEvents init demo) A = 660 := by decide
example : applyEvents (fun _ => 0) (histEvents init demo) L = 0 := by decide

/-- Bridge to the sources: the literals used by the model (`1 :: d`, `2 :: d`, `3 :: d`, `4 :: encInt e`,
20-byte addresses) are the constants of `common/transfer.go` and `contracts/balance/contract.go` as
regenerated from the working tree on every run (`NeoFS.Generated`). A changed constant breaks this lemma. -/
theorem model_constants_match_sources :
    NeoFS.Generated.common_mintPrefix = [1] ∧ NeoFS.Generated.common_burnPrefix = [2] ∧
    NeoFS.Generated.common_lockPrefix = [3] ∧ NeoFS.Generated.common_unlockPrefix = [4] ∧
    NeoFS.Generated.balance_accPrefix_bytes = [97] ∧ NeoFS.Generated.balance_circulation = "MainnetGAS" := by decide

-- a lock target that is NOT fresh: a zero-amount transfer left the empty record ⟨0,0,[]⟩ there;
-- the history is inside the quantifier, the lock overwrites the record, the replay still holds
def demoZ : List (Env × Op) :=
  [(alpha, .mint A 1000 []), (asA, .transfer A L 0), (alpha, .lock [7] A L 100 2)]
example : L ∈ (run init (demoZ.take 2)).accts.map (·.1) ∧
    getAcc (run init (demoZ.take 2)).accts L = ⟨0, 0, []⟩ := by decide
example : WFHist init demoZ := by
  simp only [demoZ, WFHist, WFOp]; decide
example : getAcc (run init demoZ).accts L = ⟨100, 2, A⟩ ∧ (run init demoZ).supply = 1000 ∧
    total (run init demoZ).accts = 1000 := by decide
example : applyEvents (fun _ => 0) (histEvents init demoZ) L = 100 ∧
    applyEvents (fun _ => 0) (histEvents init demoZ) A = 900 := by decide

/-! ## Frame of the model, regenerated: which storage keys each Balance method can write

The model keeps the supply in one cell and the accounts in one map and lets only `mint`/`burn` touch the former. That frame
assumption is checked here against `NeoFS.Generated.Footprint.table` (grouped by contract: `contracts`), the MAY-WRITE footprint computed from the Go sources
on every run (closure over the static call graph, keys abstracted to their leading constant bytes; `Model/Footprint.lean`).
The key families are named through the regenerated constants, so a renamed or re-spelt constant does not matter and a
different byte does. -/
section Footprint
open NeoFS.Footprint NeoFS.Generated.Footprint

/-- the key of the total supply (`token.CirculationKey`) -/
def supplyKey : Fam := exactly NeoFS.Generated.balance_circulation_bytes
/-- the account records: `accPrefix ‖ address` -/
def accountKeys : Fam := startingWith NeoFS.Generated.balance_accPrefix_bytes

/-- Over the whole regenerated table: in the Balance contract only `mint` and `burn` can put the total-supply key, and no
method but the upgrade migration inside `_deploy` (which moves every 20-byte key under the account prefix) can delete it.
With `onlyBy_sound`: a put row of any other method concerns no key that is the supply key. -/
theorem supply_key_written_only_by_mint_and_burn :
    onlyBy contracts "balance" "put" supplyKey ["mint", "burn"] = true ∧
    onlyBy contracts "balance" "delete" supplyKey ["_deploy"] = true := by decide +kernel

/-- Every storage write of every Balance method other than `_deploy` lies in the account family, and for `mint`/`burn` in the
account family or at the supply key: nothing else in the contract's storage changes after deployment. -/
theorem balance_methods_write_only_accounts_and_supply :
    (methodsOf methods "balance").all (fun m => m == "_deploy" ||
      writesWithin contracts "balance" m (if m == "mint" || m == "burn" then [accountKeys, supplyKey] else [accountKeys])) = true := by
  decide +kernel

/-- The supply key and the account family cannot collide. -/
theorem supply_key_is_not_an_account_key : supplyKey.overlaps accountKeys = false := by decide +kernel

-- non-vacuity: the families ARE written, by the methods named
example : does contracts "balance" "mint" "put" supplyKey = true ∧ does contracts "balance" "burn" "put" supplyKey = true := by decide +kernel
example : does contracts "balance" "transfer" "put" accountKeys = true ∧ does contracts "balance" "transfer" "delete" accountKeys = true := by
  decide +kernel
example : writers contracts "balance" "put" supplyKey = ["burn", "mint"] := by decide +kernel
example : ["mint", "burn", "transfer", "transferX", "lock", "newEpoch"].all (methodsOf methods "balance").contains = true := by
  decide +kernel
-- a transfer that wrote the supply key, or a mint that wrote another constant key, would be refused
example : onlyBy (withRow contracts ⟨"balance", "transfer", "put", "", "", NeoFS.Generated.balance_circulation_bytes, true⟩)
    "balance" "put" supplyKey ["mint", "burn"] = false := by decide +kernel
example : writesWithin (withRow contracts ⟨"balance", "mint", "put", "", "", [77], true⟩) "balance" "mint" [accountKeys, supplyKey] = false := by
  decide +kernel
end Footprint

end NeoFS.Props.C01
