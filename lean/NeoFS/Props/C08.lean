import NeoFS.Lemmas.NetmapRingHist
import NeoFS.Lemmas.NetmapRingHalts
import NeoFS.Generated.Consts
import NeoFS.Generated.Footprint
/-! # C08 — Netmap history: the last N maps are retrievable exactly, across count changes

Model: `NeoFS/Model/NetmapRing.lean` (contracts/netmap/contract.go: `NewEpoch`, `UpdateSnapshotCount`,
`moveSnapshot`, `dropNetmap`, `fourBytesBE`, `Snapshot`, `SnapshotByEpoch`, `ListNodesEpoch`, `Netmap`).
Specification: `NeoFS/Lemmas/NetmapRingSpec.lean` (`Spec`: published maps newest first, count `N`, current
epoch, `valid` = number of most recent maps retained; `RingInv s p` = the contract state `s` stores exactly
what `p` says). Property statements only; the proofs are in `NeoFS/Lemmas/NetmapRing*.lean`.

Scope of the quantifiers (the property's own): consecutive ticks, epochs below 2³² (`fourBytesBE` is four bytes
wide; 2³² consecutive ticks are not reachable). `updateSnapshotCount` is quantified over ALL integers: the method's
guards accept exactly `1 ≤ K ≤ 256` (a ring index is one byte; count 0, negative counts and counts above 256 are
refused without effect). Nothing else is assumed: all old counts, all ring positions, all numbers of elapsed epochs,
all candidate sets, all signer sets. -/
namespace NeoFS.Props.C08
open NeoFS NeoFS.NetmapRing

/-! ### bridge to the regenerated constants and the storage layout -/

/-- the deployed snapshot count the specification starts from is the contract's constant -/
theorem default_count_bridge : Generated.netmap_DefaultSnapshotCount = 10 ∧ init.count = Spec.init.n := by
  constructor <;> rfl

/-- The key families the model treats as separate maps cannot collide: a ring slot key is
`snapshot_‖byte` (10 bytes), and none of the single keys `snapshotCount`, `snapshotCurrent`,
`snapshotEpoch`, `snapshotBlock` nor any key of the families `p…`, `2…`, `candidate…`, `e…`, `config…`
starts with `snapshot_`; the `p`, `2`, `c`(andidate/onfig), `e`, `s` families differ in their first byte,
and `candidate` / `config` differ in their second. -/
theorem layout_disjoint :
    let slot := Generated.netmap_snapshotKeyPrefix_bytes
    (∀ k ∈ [Generated.netmap_snapshotCountKey_bytes, Generated.netmap_snapshotCurrentIDKey_bytes,
            Generated.netmap_snapshotEpoch_bytes, Generated.netmap_snapshotBlockKey_bytes,
            Generated.netmap_node2NetmapPrefix_bytes, Generated.netmap_node2CandidatePrefix_bytes,
            Generated.netmap_candidatePrefix, Generated.netmap_newEpochSubscribersPrefix_bytes,
            Generated.netmap_configPrefix],
        slot.isPrefixOf k = false ∧ k.isPrefixOf slot = false) ∧
    ([Generated.netmap_node2NetmapPrefix_bytes.head?, Generated.netmap_node2CandidatePrefix_bytes.head?,
      Generated.netmap_candidatePrefix.head?, Generated.netmap_newEpochSubscribersPrefix_bytes.head?,
      slot.head?].Nodup) ∧
    Generated.netmap_candidatePrefix.head? = Generated.netmap_configPrefix.head? ∧
    (Generated.netmap_candidatePrefix.take 2 ≠ Generated.netmap_configPrefix.take 2) := by
  decide

/-! ### `fourBytesBE` -/

/-- `fourBytesBE(e)` is the 4-byte big-endian representation for `0 ≤ e < 2³²` … -/
theorem fourBytesBE_value (e : Nat) (h : e < 2 ^ 32) :
    be4 (e : Int) = [e / 256 / 256 / 256 % 256, e / 256 / 256 % 256, e / 256 % 256, e % 256] :=
  be4_nat e h

/-- … hence injective there: two epochs never share a node-list key. -/
theorem fourBytesBE_injective (a b : Nat) (ha : a < 2 ^ 32) (hb : b < 2 ^ 32)
    (h : be4 (a : Int) = be4 (b : Int)) : a = b := be4_inj_nat a b ha hb h

/-- The drop loop of `UpdateSnapshotCount` starts at `cur-old+1`, which is negative while fewer than `old`
epochs have elapsed. A negative loop variable aliases a *positive* epoch number (`-9 ↦ 247`); with
`old ≤ 256` that epoch is always in the future, so the negative iterations delete nothing that exists. -/
theorem fourBytesBE_negative_is_future (k : Int) (e cur : Nat) (hk : k < 0) (hlo : (cur : Int) - 255 ≤ k)
    (he : e ≤ cur) (hcur : cur < 2 ^ 32) : be4 k ≠ be4 (e : Int) := be4_neg_ne k e cur hk hlo he hcur

example : be4 (-9) = be4 247 ∧ be4 (-129) = be4 65407 ∧ be4 4294967296 = be4 0 := by decide

/-! ### the invariant -/

/-- the freshly deployed contract agrees with the initial specification (N = 10, nothing published) -/
theorem ringInv_init : RingInv init Spec.init := inv_init

/-- Under the invariant the Alphabet's tick of the next epoch HALTs, and without the Alphabet's witness it
FAULTs. -/
theorem tick_halts_iff (s : State) (p : Spec) (h : RingInv s p) (env : Env) :
    (newEpoch s env ((s.cur : Int) + 1)).isSome = env.alphabet := by
  by_cases ha : env.alphabet = true
  · obtain ⟨s', hs'⟩ := tick_halts s p h env ha
    rw [hs', ha]; rfl
  · have : env.alphabet = false := by simpa using ha
    simp [newEpoch, this]

/-- **A HALTing tick of the next epoch preserves the invariant**: the specification publishes the candidate
set, `valid := min (valid+1) N`. All counts, ring positions, epochs. -/
theorem ringInv_tick (s s' : State) (p : Spec) (env : Env) (h : RingInv s p) (hcur : s.cur + 1 < 2 ^ 32)
    (ht : newEpoch s env ((s.cur : Int) + 1) = some s') : RingInv s' (p.tick (published s)) :=
  inv_tick s s' p env h hcur ht

/-- **Every HALTing `updateSnapshotCount K` — any integer `K` — preserves the invariant** with `N := K`,
`valid := min valid K`: all old counts, all ring positions, all numbers of elapsed epochs (grow, shrink
below and above the current position). -/
theorem ringInv_resize (s s' : State) (p : Spec) (env : Env) (k : Int) (h : RingInv s p)
    (hr : updateSnapshotCount s env k = some s') : RingInv s' (p.resize k.toNat) :=
  inv_resize s s' p env k h hr

/-- only changed counts `1 ≤ K ≤ 256` signed by the Alphabet are accepted (F3: count 0 is refused; counts that
do not fit the one-byte ring index are refused) -/
theorem resize_accepts_only (s s' : State) (env : Env) (k : Int) (hr : updateSnapshotCount s env k = some s') :
    env.alphabet = true ∧ 0 < k ∧ k ≤ 256 ∧ (s.count : Int) ≠ k ∧ s'.count = k.toNat ∧ s'.cur = s.cur := by
  obtain ⟨hpos, hle⟩ := resize_bounds s s' env k hr
  obtain ⟨new, rfl⟩ : ∃ new : Nat, k = (new : Int) := ⟨k.toNat, by omega⟩
  obtain ⟨ha, _, _, hne, hcase⟩ := resize_some_nat s s' env new hr
  refine ⟨ha, hpos, hle, by omega, ?_, ?_⟩
  · rcases hcase with ⟨_, r, r', _, _, rfl⟩ | ⟨_, r, r', _, _, rfl⟩ <;> simp
  · rcases hcase with ⟨_, r, r', _, _, rfl⟩ | ⟨_, r, r', _, _, rfl⟩ <;> rfl

/-- **Any accepted count leaves the contract able to tick again.** -/
theorem accepted_count_ticks (s s' : State) (p : Spec) (env : Env) (k : Int) (h : RingInv s p)
    (hr : updateSnapshotCount s env k = some s') :
    ∃ s'', newEpoch s' ⟨true, false⟩ ((s'.cur : Int) + 1) = some s'' :=
  tick_halts s' _ (inv_resize s s' p env k h hr) ⟨true, false⟩ rfl

/-- **Counts above 256 are refused without effect**, in every state and for every signer set (the defect
repaired by `fix: netmap: refuse snapshot counts above 256`: such a count used to be accepted whenever the
resize had nothing to move, after which the contract could neither be resized nor, from ring index 255 on, tick). -/
theorem count_above_256_refused (s : State) (env : Env) (k : Int) (hk : 256 < k) :
    updateSnapshotCount s env k = none ∧ invoke s env (.updateSnapshotCount k) = (s, false) := by
  have h := resize_above_refused s env k hk
  exact ⟨h, by simp [invoke, step, h]⟩

/-- **Exactly when `updateSnapshotCount K` HALTs** (under the invariant, any integer `K`): the Alphabet signed,
`1 ≤ K ≤ 256`, `K` differs from the count, and every ring slot the move loop reads is present. The last condition
fails only while slots deleted by an earlier grow have not been refilled (`storage.Put(key, nil)` FAULTs). -/
theorem resize_halts_iff (s : State) (p : Spec) (h : RingInv s p) (env : Env) (k : Int) :
    (updateSnapshotCount s env k).isSome = true ↔
      env.alphabet = true ∧ 0 < k ∧ k ≤ 256 ∧ (s.count : Int) ≠ k ∧
      ∀ m ∈ movesOf s k.toNat, (rget s.ring m.1).isSome = true := by
  by_cases hpos : 0 < k
  · obtain ⟨new, rfl⟩ : ∃ new : Nat, k = (new : Int) := ⟨k.toNat, by omega⟩
    rw [Int.toNat_natCast, resize_halts_iff_nat s p h env new]
    constructor
    · rintro ⟨a, b, c, d, e⟩; exact ⟨a, by omega, by omega, by omega, e⟩
    · rintro ⟨a, b, c, d, e⟩; exact ⟨a, by omega, by omega, by omega, e⟩
  · constructor
    · intro hs
      obtain ⟨s', hs'⟩ := Option.isSome_iff_exists.mp hs
      exact absurd (resize_pos s s' env k hs') hpos
    · rintro ⟨_, b, _, _, _⟩; exact absurd b hpos

/-- On a ring without holes (after deployment, and again `new-old` ticks after a grow) every positive changed
count up to 256 signed by the Alphabet is accepted. -/
theorem resize_halts_on_full_ring (s : State) (p : Spec) (h : RingInv s p) (hf : Full s) (env : Env) (k : Int)
    (ha : env.alphabet = true) (h0 : 0 < k) (hk : k ≤ 256) (hne : (s.count : Int) ≠ k) :
    (updateSnapshotCount s env k).isSome = true :=
  (resize_halts_iff s p h env k).mpr ⟨ha, h0, hk, hne, full_moves s p h hf k.toNat⟩

/-- the deployed ring has no holes and ticks keep it so -/
theorem full_ring_init_and_tick :
    Full init ∧ ∀ (s s' : State) (env : Env) (e : Int), Full s → newEpoch s env e = some s' → Full s' :=
  ⟨full_init, full_tick⟩

/-- a FAULTing call (refused count, missing witness, a move of a never-filled slot) changes nothing -/
theorem fault_changes_nothing (s : State) (env : Env) (op : Op) (h : (invoke s env op).2 = false) :
    (invoke s env op).1 = s := by
  unfold invoke at *
  cases hs : step s env op with
  | none => rfl
  | some s' => simp [hs] at h

/-! ### what the read methods answer under the invariant (the property statement) -/

/-- `snapshot(d)`: exactly the map published `d` ticks ago for `d < valid`; empty for `valid ≤ d < N`;
an error for `d < 0` and `d ≥ N`. -/
theorem snapshot_exact (s : State) (p : Spec) (h : RingInv s p) (d : Int) :
    snapshot s d =
      if d < 0 ∨ (p.n : Int) ≤ d then none
      else if d.toNat < p.valid then some (p.ago d.toNat).legacy else some [] :=
  snapshot_eq s p h d

/-- `snapshotByEpoch(e)`: exactly the map published at epoch `e` for `cur - valid < e ≤ cur`; empty or an
error for older epochs; an error for future epochs. -/
theorem snapshotByEpoch_exact (s : State) (p : Spec) (h : RingInv s p) (e : Int) :
    snapshotByEpoch s e = p.snapshot ((p.cur : Int) - e) ∧
    (∀ en : Nat, e = (en : Int) → p.cur < en + p.valid → en ≤ p.cur →
        snapshotByEpoch s e = some (p.ago (p.cur - en)).legacy) ∧
    ((p.cur : Int) < e → snapshotByEpoch s e = none) ∧
    (e + (p.valid : Int) ≤ (p.cur : Int) → snapshotByEpoch s e = none ∨ snapshotByEpoch s e = some []) := by
  have hb := snapshotByEpoch_eq s p h e
  have hv := h.valid_le_n
  refine ⟨hb, ?_, ?_, ?_⟩
  · intro en he h1 h2
    rw [hb, Spec.snapshotByEpoch, Spec.snapshot]
    subst he
    have e1 : ((p.cur : Int) - (en : Int)).toNat = p.cur - en := by omega
    rw [if_neg (by omega), e1, if_pos (by omega)]
  · intro hf
    rw [hb, Spec.snapshotByEpoch, Spec.snapshot, if_pos (by omega)]
  · intro ho
    rw [hb, Spec.snapshotByEpoch, Spec.snapshot]
    by_cases hg : (p.cur : Int) - e < 0 ∨ (p.n : Int) ≤ (p.cur : Int) - e
    · left; rw [if_pos hg]
    · right; rw [if_neg hg, if_neg (by omega)]

/-- `listNodes(e)`: exactly the node list published at epoch `e` for `cur - valid < e ≤ cur`, empty for
every older and every future epoch. -/
theorem listNodes_exact (s : State) (p : Spec) (h : RingInv s p) (e : Nat) (he : e < 2 ^ 32) :
    listNodes s (e : Int) =
      if p.cur < e + p.valid ∧ e ≤ p.cur then (p.ago (p.cur - e)).nodes else [] :=
  listNodes_eq s p h e he

/-- `netmap()`: the map published by the last tick (empty before the first one) -/
theorem netmap_exact (s : State) (p : Spec) (h : RingInv s p) :
    netmap s = some (if 0 < p.valid then (p.ago 0).legacy else []) := netmap_eq s p h

/-- **Changing the count preserves the most recent min(old, new) retained maps unchanged and does not
bring back or keep anything older**: after an accepted `updateSnapshotCount K`, `snapshot(d)` and
`listNodes(cur-d)` answer as before for `d < min valid K`, and with nothing beyond. -/
theorem resize_preserves_recent_only (s s' : State) (p : Spec) (env : Env) (k : Int) (h : RingInv s p)
    (hr : updateSnapshotCount s env k = some s') :
    (∀ d : Nat, d < min p.valid k.toNat →
        snapshot s' (d : Int) = snapshot s (d : Int) ∧
        listNodes s' ((p.cur - d : Nat) : Int) = listNodes s ((p.cur - d : Nat) : Int)) ∧
    (∀ d : Nat, min p.valid k.toNat ≤ d → snapshot s' (d : Int) = none ∨ snapshot s' (d : Int) = some []) ∧
    (∀ e : Nat, e < 2 ^ 32 → ¬ (p.cur < e + min p.valid k.toNat ∧ e ≤ p.cur) → listNodes s' (e : Int) = []) := by
  have h' := inv_resize s s' p env k h hr
  have hpos := resize_pos s s' env k hr
  have hv := h.valid_le_n
  have hvc := h.valid_le_cur
  have hc := h.cur_lt
  obtain ⟨kn, rfl⟩ : ∃ kn : Nat, k = (kn : Int) := ⟨k.toNat, by omega⟩
  rw [Int.toNat_natCast] at h' ⊢
  have e1 : (p.resize kn).n = kn := rfl
  have e2 : (p.resize kn).valid = min p.valid kn := rfl
  have e3 : (p.resize kn).cur = p.cur := rfl
  refine ⟨?_, ?_, ?_⟩
  · intro d hd
    constructor
    · rw [snapshot_eq s' _ h', snapshot_eq s p h]
      unfold Spec.snapshot
      rw [e1, e2, Int.toNat_natCast, ago_resize]
      rw [if_neg (by omega), if_pos (by omega), if_neg (by omega), if_pos (by omega)]
    · rw [listNodes_eq s' _ h' _ (by omega), listNodes_eq s p h _ (by omega)]
      unfold Spec.listNodes
      rw [e2, e3, ago_resize]
      rw [if_pos (by omega), if_pos (by omega)]
  · intro d hd
    rw [snapshot_eq s' _ h']
    unfold Spec.snapshot
    rw [e1, e2, Int.toNat_natCast]
    by_cases hg : (d : Int) < 0 ∨ (kn : Int) ≤ (d : Int)
    · left; rw [if_pos hg]
    · right; rw [if_neg hg, if_neg (by omega)]
  · intro e he hout
    rw [listNodes_eq s' _ h' e he]
    unfold Spec.listNodes
    rw [e2, e3, if_neg hout]

/-! ### all histories -/

/-- **After every history inside the quantifier** (any interleaving of ticks of the next epoch, refused
calls, `updateSnapshotCount K` with any integer `K`, candidate changes; any signer sets) the contract state
agrees with the specification that was driven by the accepted calls only. -/
theorem ringInv_all_histories (ops : List (Env × Op)) (hw : WFHist init ops) :
    RingInv (run init ops) (runBoth init Spec.init ops).2 := by
  have := inv_run ops init Spec.init inv_init hw
  rw [runBoth_fst] at this; exact this

/-- Hence, after every such history, all four read methods answer exactly what the specification says. -/
theorem reads_all_histories (ops : List (Env × Op)) (hw : WFHist init ops) :
    let s := run init ops
    let p := (runBoth init Spec.init ops).2
    (∀ d : Int, snapshot s d = p.snapshot d) ∧
    (∀ e : Int, snapshotByEpoch s e = p.snapshotByEpoch e) ∧
    (∀ e : Nat, e < 2 ^ 32 → listNodes s (e : Int) = p.listNodes e) ∧
    netmap s = some p.netmap := by
  have h := ringInv_all_histories ops hw
  exact ⟨snapshot_eq _ _ h, snapshotByEpoch_eq _ _ h, listNodes_eq _ _ h, netmap_eq _ _ h⟩

/-- The specification's `valid` is the property's `min(N, elapsed)` as long as the count is not changed. -/
theorem valid_is_min_N_elapsed (ms : List Pub) :
    (ms.foldl Spec.tick Spec.init).valid = min 10 ms.length ∧ (ms.foldl Spec.tick Spec.init).n = 10 :=
  valid_ticks_only ms

/-! ### non-vacuity: a concrete history with shrink 10→3 at epoch 13, refused calls (count 0, 257, 2⁶³, stale
epoch, no witness), grow 3→5, a grow that FAULTs on a never-filled slot, and ticks in between -/

set_option maxRecDepth 100000

example : WFHist init exHist := by decide
example : (run init exHist).count = 5 ∧ (run init exHist).cur = 16 ∧ (run init exHist).id = 2 := by decide
example : (runBoth init Spec.init exHist).2.valid = 5 ∧ (runBoth init Spec.init exHist).2.n = 5 := by decide
-- epochs 12..16 are retained (three survived the shrink, then the ring grew and refilled), 11 is gone
example : snapshot (run init exHist) 0 = some [0, 1] ∧ snapshot (run init exHist) 4 = some [2, 4] ∧
    snapshot (run init exHist) 5 = none := by decide
example : listNodes (run init exHist) 12 = [2, 4] ∧ listNodes (run init exHist) 13 = [0, 2, 4] ∧ listNodes (run init exHist) 11 = [] ∧
    listNodes (run init exHist) 17 = [] := by decide
-- the grow 5→7 at epoch 15 had to move a never-filled slot and FAULTed; count 0 and the stale epoch were refused
example : (updateSnapshotCount (run init (exHist.take 47)) alpha 7).isNone = true := by decide
example : (updateSnapshotCount init alpha 256).isSome = true ∧ (updateSnapshotCount init alpha 257).isNone = true ∧
    (updateSnapshotCount (run init [(alpha, .updateSnapshotCount 1)]) alpha 300).isNone = true ∧
    (updateSnapshotCount (run init [(alpha, .updateSnapshotCount 1)]) alpha 256).isSome = true := by decide
example : (updateSnapshotCount init alpha 0).isNone = true ∧ (updateSnapshotCount init alpha 10).isNone = true ∧
    (updateSnapshotCount init nobody 3).isNone = true ∧ (updateSnapshotCount init alpha 3).isSome = true := by decide

/-! ## Frame of the model, regenerated: who can write the snapshot ring

Checked by kernel evaluation over `NeoFS.Generated.Footprint.table` (grouped by contract: `contracts`), the MAY-WRITE footprint recomputed from the Go sources on
every run (`extract footprint`; `Model/Footprint.lean`). -/
section Footprint
open NeoFS.Footprint NeoFS.Generated.Footprint

def fpSnapshots : Fam := startingWith NeoFS.Generated.netmap_snapshotKeyPrefix_bytes
def fpSnapshotCount : Fam := exactly NeoFS.Generated.netmap_snapshotCountKey_bytes
def fpSnapshotCurrent : Fam := exactly NeoFS.Generated.netmap_snapshotCurrentIDKey_bytes
def fpNetmap2 : Fam := startingWith NeoFS.Generated.netmap_node2NetmapPrefix_bytes

/-- The ring slots, the ring size and the ring position are written by `newEpoch`, `updateSnapshotCount` and deployment only; the
size only by `updateSnapshotCount` and deployment; slots are deleted only by `updateSnapshotCount`; the per-epoch structured maps
are deleted only by these two. The ring size and position are never deleted. -/
theorem snapshot_ring_written_only_by_tick_and_resize :
    onlyBy contracts "netmap" "put" fpSnapshots ["newEpoch", "updateSnapshotCount", "_deploy"] = true ∧
    onlyBy contracts "netmap" "delete" fpSnapshots ["updateSnapshotCount"] = true ∧
    onlyBy contracts "netmap" "put" fpSnapshotCount ["updateSnapshotCount", "_deploy"] = true ∧
    onlyBy contracts "netmap" "put" fpSnapshotCurrent ["newEpoch", "updateSnapshotCount", "_deploy"] = true ∧
    onlyBy contracts "netmap" "delete" fpSnapshotCount [] = true ∧ onlyBy contracts "netmap" "delete" fpSnapshotCurrent [] = true ∧
    onlyBy contracts "netmap" "delete" fpNetmap2 ["newEpoch", "updateSnapshotCount"] = true := by decide +kernel

/-- The four key sets are pairwise disjoint although they share the text `snapshot`. -/
theorem snapshot_key_families_disjoint :
    fpSnapshots.overlaps fpSnapshotCount = false ∧ fpSnapshots.overlaps fpSnapshotCurrent = false ∧
    fpSnapshotCount.overlaps fpSnapshotCurrent = false ∧
    fpSnapshots.overlaps (exactly NeoFS.Generated.netmap_snapshotEpoch_bytes) = false ∧
    fpSnapshots.overlaps (exactly NeoFS.Generated.netmap_snapshotBlockKey_bytes) = false := by decide +kernel

example : does contracts "netmap" "newEpoch" "put" fpSnapshots = true ∧ does contracts "netmap" "updateSnapshotCount" "delete" fpSnapshots = true ∧
    does contracts "netmap" "updateSnapshotCount" "put" fpSnapshotCount = true ∧ does contracts "netmap" "newEpoch" "put" fpSnapshotCurrent = true ∧
    does contracts "netmap" "newEpoch" "delete" fpNetmap2 = true := by decide +kernel
example : onlyBy (withRow contracts ⟨"netmap", "setConfig", "delete", "", "", NeoFS.Generated.netmap_snapshotKeyPrefix_bytes ++ [0], true⟩)
    "netmap" "delete" fpSnapshots ["updateSnapshotCount"] = false := by decide +kernel
end Footprint

end NeoFS.Props.C08
