import NeoFS.Lemmas.UpgradeBalance
import NeoFS.Lemmas.UpgradeContainer
import NeoFS.Lemmas.UpgradeNetmap2
import NeoFS.Lemmas.UpgradeAlphabet
import NeoFS.Lemmas.UpgradeNNS
/-! # C16 — Contract upgrade is committee-gated, version-monotonic, data-preserving

Property theorems only. Model: `NeoFS/Model/Upgrade*.lean`; helper lemmas: `NeoFS/Lemmas/Upgrade*.lean`.
`update k st env data nefOk` is `Update(script, manifest, data)` of contract `k` deployed with version
constant `st.ver` and storage `st.store`, in a transaction carrying the witnesses `env.witnesses` at
height `env.height`; `none` = FAULT. `get`/`put`/`del` work on the raw byte-keyed storage.

Sections: 1 gate (witness, version bounds, `AppendVersion`, atomicity, monotonicity) · 2 pending votes ·
3 Balance · 4 Container · 5 NeoFSID, Audit, Reputation, Proxy, NeoFS, Processing · 6 Netmap · 7 NNS.
One statement the property would like is FALSE of the current code; it has a kernel-checked negation
witness here (`container_57_byte_estimation_key_is_renamed` = finding F21) and the positive theorem carries
the hypothesis that excludes exactly that input class. (Finding F20 - an empty Netmap snapshot list
migrated to Null - was repaired by f42319b; `netmap_upgrade_keeps_empty_node_lists` states the repaired
behaviour.) -/
namespace NeoFS.Props.C16
open NeoFS NeoFS.Upgrade NeoFS.Generated

/-! ## 1. The gate -/

/-- bridges from the regenerated constants to the literals of the property text (0.15.4, 0.20.0, 20 blocks) -/
theorem bridge_prev_version : common_PrevVersion = 15004 := rfl
theorem bridge_version : common_Version = 20000 := rfl
theorem bridge_block_diff : common_blockDiff = 20 := rfl
theorem bridge_prefixes : accPrefix = 97 ∧ cnrPrefix = 120 ∧ ownPrefix = 111 := ⟨rfl, rfl, rfl⟩

/-- **update succeeds only with the committee-majority witness and inside the version gate.**
For every contract, state, signer set, caller data and height: a HALTed `update` was witnessed by the
`n/2+1` multi-signature account of the committee (`neofs`, `processing`: of the designated NeoFS
Alphabet), started from a version `15004 ≤ v < 20000`, and ends at version `20000`. -/
theorem update_halts_only_with_witness_and_gate (k : Kind) (st st' : CState) (env : Env) (data : Item)
    (nefOk : Bool) (h : update k st env data nefOk = some st') :
    (if k = .neofs ∨ k = .processing then Acct.msig (env.role.length / 2 + 1) env.role
      else Acct.msig (env.committee.length / 2 + 1) env.committee) ∈ env.witnesses ∧
    15004 ≤ st.ver ∧ st.ver < 20000 ∧ st'.ver = 20000 := by
  obtain ⟨ha, _, hc, hv, _⟩ := update_some h
  have hw := access_true ha
  have hg := (checkVersion_iff st.ver).mp hc
  refine ⟨?_, hg.1, hg.2, hv⟩
  cases k <;> simpa [requiredAcct] using hw

/-- **which NeoFS Alphabet the main-chain gate means**: a re-designation executed in block `N` (stored under `N+1`) is
the list `neofs.update` / `processing.update` see from block `N+1` on - they ask RoleManagement for index
`CurrentIndex()+1`, i.e. the index of their own block - and is not yet seen at index `N`; there the previous
designations decide. With `update_halts_only_with_witness_and_gate`: in block `N+1` only the NEW Alphabet's majority
can update. -/
theorem redesignation_in_force_from_next_block (ds : List (Int × List Nat)) (N : Int) (ks : List Nat) (later : Int)
    (hl : N + 1 ≤ later) :
    roleInForce (ds ++ [(N + 1, ks)]) later = ks ∧ roleInForce (ds ++ [(N + 1, ks)]) N = roleInForce ds N := by
  unfold roleInForce
  rw [List.foldl_append, List.foldl_append]
  simp only [List.foldl_cons, List.foldl_nil]
  constructor
  · simp [hl]
  · have : ¬ N + 1 ≤ N := by omega
    simp [this]

/-- **otherwise nothing changes**: without that witness, or outside the gate, the invocation FAULTs and the
contract (executable version and storage) is exactly what it was -/
theorem update_otherwise_nothing_changes (k : Kind) (st : CState) (env : Env) (data : Item) (nefOk : Bool)
    (h : ¬ ((if k = .neofs ∨ k = .processing then Acct.msig (env.role.length / 2 + 1) env.role
        else Acct.msig (env.committee.length / 2 + 1) env.committee) ∈ env.witnesses ∧
      15004 ≤ st.ver ∧ st.ver < 20000)) :
    invoke k st env (.update data nefOk) = (st, false) := by
  have hstep : step k st env (.update data nefOk) = update k st env data nefOk := rfl
  unfold invoke
  rw [hstep]
  cases hu : update k st env data nefOk with
  | none => rfl
  | some st' =>
    exfalso
    have := update_halts_only_with_witness_and_gate k st st' env data nefOk hu
    exact h ⟨this.1, this.2.1, this.2.2.1⟩

/-- every FAULTed invocation leaves the contract untouched (transaction atomicity as modelled) -/
theorem fault_changes_nothing (k : Kind) (st : CState) (env : Env) (op : Op)
    (h : (invoke k st env op).2 = false) : (invoke k st env op).1 = st := invoke_fault h

/-- **`AppendVersion` puts the running version last**: whatever the caller passes as `data`, the list
handed to `_deploy` ends with the version constant of the executable that runs `Update`… -/
theorem appended_version_is_last (data : Item) (ver : Int) (args : List Item)
    (h : appendVersion data ver = some args) : ∃ callerPart, args = callerPart ++ [Item.int ver] :=
  appendVersion_last h

/-- …and `_deploy` reads exactly that element: caller data cannot spoof the version -/
theorem deploy_reads_the_appended_version (data : Item) (ver : Int) (args : List Item)
    (h : appendVersion data ver = some args) : deployVersion args = some ver :=
  deployVersion_appendVersion h

/-- caller data has no influence at all on the upgrade of any contract but Alphabet (whose migration
reads contract addresses and its name from the data): two HALTed updates with different data agree -/
theorem caller_data_is_irrelevant (k : Kind) (hk : k ≠ .alphabet) (st st₁ st₂ : CState) (env : Env)
    (d₁ d₂ : Item) (h₁ : update k st env d₁ true = some st₁) (h₂ : update k st env d₂ true = some st₂) :
    st₁ = st₂ := by
  obtain ⟨_, _, _, v1, a1, _, m1⟩ := update_some h₁
  obtain ⟨_, _, _, v2, a2, _, m2⟩ := update_some h₂
  have : migrate k st.ver a1 env st.store = migrate k st.ver a2 env st.store := by
    cases k <;> first | rfl | exact absurd rfl hk
  rw [this, m2] at m1
  cases st₁; cases st₂
  simp only [Option.some.injEq] at m1
  simp only at v1 v2
  simp [v1, v2, m1]

/-- **version-monotonic** over every history of invocations (updates with any signers and data, raw
writes): the version never decreases, and it only ever moves to 20000 -/
theorem version_monotonic (k : Kind) (hist : List (Env × Op)) (st : CState) :
    st.ver ≤ (run k st hist).ver ∧ ((run k st hist).ver = st.ver ∨ (run k st hist).ver = 20000) := by
  refine ⟨run_ver_mono k hist st, ?_⟩
  induction hist generalizing st with
  | nil => left; rfl
  | cons x r ih =>
    obtain ⟨env, op⟩ := x
    unfold run
    have step1 : (invoke k st env op).1.ver = st.ver ∨ (invoke k st env op).1.ver = 20000 := by
      cases op with
      | update data nefOk =>
        rcases invoke_update_ver k st env data nefOk with h | ⟨_, h⟩
        · exact Or.inl h
        · exact Or.inr h
      | load s => left; simp [invoke, step]
    rcases ih (invoke k st env op).1 with h | h
    · rcases step1 with e | e
      · left; rw [h, e]
      · right; rw [h, e]
    · right; exact h

/-- an updated contract refuses every further update ("already of the latest version") -/
theorem updated_contract_refuses_update (k : Kind) (st : CState) (hv : st.ver = 20000) (env : Env) (data : Item)
    (nefOk : Bool) : update k st env data nefOk = none := by
  cases hu : update k st env data nefOk with
  | none => rfl
  | some st' =>
    have := (update_halts_only_with_witness_and_gate k st st' env data nefOk hu).2.2.1
    omega

-- non-vacuity: n = 7 committee; the 4-of-7 account passes, the Alphabet's 5-of-7 account and a single
-- member do not; the bounds are sharp
def c7 : List Nat := [0, 1, 2, 3, 4, 5, 6]
def byCommittee : Env := ⟨[.msig 4 c7], c7, [], 100, {}⟩
def byAlphabet : Env := ⟨[.msig 5 c7, .single 0], c7, [], 100, {}⟩
def byRoleMajority : Env := ⟨[.msig 2 [0, 1, 2]], c7, [0, 1, 2], 100, {}⟩
example : (update .proxy ⟨15004, []⟩ byCommittee .null true).map (·.ver) = some 20000 := by decide
example : (update .proxy ⟨19999, []⟩ byCommittee (.array [.int 20001]) true).map (·.ver) = some 20000 := by decide
example : update .proxy ⟨15003, []⟩ byCommittee .null true = none := by decide
example : update .proxy ⟨20000, []⟩ byCommittee .null true = none := by decide
example : update .proxy ⟨15004, []⟩ byAlphabet .null true = none := by decide
example : update .proxy ⟨15004, []⟩ byCommittee (.int 5) true = none := by decide
example : update .neofs ⟨15004, []⟩ byCommittee .null true = none := by decide
example : (update .neofs ⟨15004, []⟩ byRoleMajority .null true).map (·.ver) = some 20000 := by decide
example : (update .nns ⟨18000, []⟩ byCommittee .null true).map (·.ver) = some 20000 := by decide
example : deployVersion [.int 99999, .bytes [1], .int 19000] = some 19000 := by decide
-- re-designation {0,1,2} -> {3,4,5} executed in block 10: block 11 obeys the new Alphabet, block 10 still the old one
def roleAt (index : Int) : Env :=
  { byCommittee with role := roleInForce [(0, [0, 1, 2]), (11, [3, 4, 5])] index, witnesses := [.msig 2 [0, 1, 2]] }
example : update .neofs ⟨19999, []⟩ (roleAt 11) .null true = none ∧
    (update .neofs ⟨19999, []⟩ (roleAt 10) .null true).map (·.ver) = some 20000 ∧
    (update .neofs ⟨19999, []⟩ { roleAt 11 with witnesses := [.msig 2 [3, 4, 5]] } .null true).map (·.ver) = some 20000 := by
  decide

/-! ## 2. Pending votes block the upgrade of a non-notary contract -/

/-- **pending_vote_blocks**: Balance, Container, Netmap, NeoFSID or Reputation before 0.17 whose `notary`
flag reads true and whose (readable) ballot list holds a ballot at most 20 blocks old: `update` FAULTs,
whoever signs - so nothing changes (`fault_changes_nothing`). -/
theorem pending_vote_blocks (k : Kind)
    (hk : k = .balance ∨ k = .container ∨ k = .netmap ∨ k = .neofsid ∨ k = .reputation)
    (st : CState) (hn : NodupKeys st.store) (hv : st.ver < 17000) (env : Env) (data : Item) (nefOk : Bool)
    (nv : Bytes) (hflag : get st.store notaryKey = some nv) (htrue : bytesToBool nv = some true)
    (l : List Item) (hball : getBallots st.store = some l)
    (hpend : ∃ c ∈ l, ∃ bh, ballotHeight c = some bh ∧ env.height - bh ≤ 20) :
    update k st env data nefOk = none := by
  cases hu : update k st env data nefOk with
  | none => rfl
  | some st' =>
    exfalso
    obtain ⟨_, _, _, _, args, _, hm⟩ := update_some hu
    have hpend' : ∃ c ∈ l, ∃ bh, ballotHeight c = some bh ∧ env.height - bh ≤ common_blockDiff := hpend
    rcases hk with rfl | rfl | rfl | rfl | rfl
    · -- balance
      simp only [migrate, balanceMigrate, hv, if_true] at hm
      rw [switchToNotary_pending hflag htrue hball hpend'] at hm
      cases hm
    · -- container: the rename loop touches neither `notary` nor `ballots`
      simp only [migrate] at hm
      rw [containerMigrate_eq] at hm
      simp only [hv, if_true] at hm
      have e1 : get (cnrRename st.store) notaryKey = get st.store notaryKey :=
        get_cnrRename_short hn _ (by decide)
      have e2 : get (cnrRename st.store) voteKey = get st.store voteKey :=
        get_cnrRename_short hn _ (by decide)
      rw [switchToNotary_pending (e1 ▸ hflag) htrue ((getBallots_congr e2) ▸ hball) hpend'] at hm
      cases hm
    · -- netmap: stage one writes snapshot slots and candidates only
      simp only [migrate] at hm
      rw [netmapMigrate_eq] at hm
      cases h1 : (if st.ver < 16000 then netmapNodes16 st.store else some st.store) with
      | none => rw [h1] at hm; cases hm
      | some s1 =>
        rw [h1] at hm
        simp only at hm
        have keep : ∀ q ∈ [notaryKey, voteKey], get s1 q = get st.store q := by
          intro q hq
          by_cases h16 : st.ver < 16000
          · simp only [h16, if_true] at h1
            apply (touches_netmapNodes16_fine h1).get_eq
            have : ∀ q ∈ [notaryKey, voteKey], q.length ≠ 10 ∧ hasPrefix netmap_candidatePrefix q = false := by decide
            rintro (⟨j, e⟩ | hp)
            · apply (this q hq).1; rw [e]; simp [snapshotKey, netmap_snapshotKeyPrefix_bytes]
            · rw [(this q hq).2] at hp; cases hp
          · simp only [h16, if_false, Option.some.injEq] at h1; rw [h1]
        unfold netmapLate at hm
        simp only [hv, if_true] at hm
        rw [switchToNotary_pending ((keep notaryKey (by simp)) ▸ hflag) htrue
          ((getBallots_congr (keep voteKey (by simp))) ▸ hball) hpend'] at hm
        cases hm
    · -- neofsid
      simp only [migrate, neofsidMigrate, hv, if_true] at hm
      rw [switchToNotary_pending hflag htrue hball hpend'] at hm
      cases hm
    · -- reputation
      simp only [migrate, reputationMigrate, hv, if_true] at hm
      rw [switchToNotary_pending hflag htrue hball hpend'] at hm
      cases hm

/-- conversely, when `switchToNotary` goes through, no ballot was younger than 21 blocks, the flag is gone,
and apart from the listed legacy keys (and `ballots`) nothing was written -/
theorem switch_to_notary_effect (extra : List Bytes) (purge : Bool) (s s1 : Store) (h : Int)
    (hs : switchToNotary extra purge s h = some s1) :
    get s1 notaryKey = none ∧ (∀ q, q ∉ notaryKey :: voteKey :: extra → get s1 q = get s q) ∧
      (∀ q w, get s1 q = some w → get s q = some w) :=
  ⟨switchToNotary_flag_gone hs, switchToNotary_get_other hs, switchToNotary_sub hs⟩

-- non-vacuity: a ballot 20 blocks old blocks, 21 blocks old is purged
def ballotsAt (h : Int) : Bytes := ser (.array [.struct [.bytes [1, 2], .array [.bytes [3]], .int h]])
def nonNotary (h : Int) : Store := [(notaryKey, [1]), (voteKey, ballotsAt h), (netmapHashKey, [9])]
example : update .reputation ⟨16999, nonNotary 80⟩ byCommittee .null true = none := by decide
example : (update .reputation ⟨16999, nonNotary 79⟩ byCommittee .null true).map (·.store) =
    some [(netmapHashKey, [9])] := by decide
example : (update .balance ⟨16999, nonNotary 79⟩ byCommittee .null true).map (·.store) = some [] := by decide
example : (update .reputation ⟨17000, nonNotary 80⟩ byCommittee .null true).map (·.store) =
    some (nonNotary 80) := by decide

/-! ## 3. Balance -/

/-- **exact effect of `switchToAccPrefixes` on EVERY storage** (unique keys is all that is assumed): 20-byte
keys vanish, `a ‖ k` holds what `k` held, everything else is as it was -/
theorem balance_prefix_migration_exact (s : Store) (hn : NodupKeys s) (q : Bytes) :
    get (switchToAccPrefixes s) q =
      if q.length = 20 then none
      else if q.length = 21 ∧ q.head? = some 97 ∧ (get s q.tail).isSome then get s q.tail
      else get s q := get_switchToAccPrefixes hn q

/-- key-length separation of the Balance layout: no named key has 20 or 21 bytes or starts with `a` -/
theorem balance_key_separation : ∀ k ∈ balanceNamed, k.length ≠ 20 ∧ k.length ≠ 21 ∧ k.head? ≠ some 97 :=
  balanceNamed_sep

/-- **Balance upgrade preserves balances and supply**: for EVERY storage in the layout of a version before
0.20 (20-byte account keys + named keys, any values), a HALTed `update` leaves `balanceOf` of every account,
`totalSupply`, and the set of account records (as `NewEpoch` iterates them) exactly as they were; no bare
20-byte key remains. -/
theorem balance_upgrade_preserves (st st' : CState) (env : Env) (data : Item) (nefOk : Bool)
    (hn : NodupKeys st.store) (hold : BalanceOld st.store)
    (h : update .balance st env data nefOk = some st') :
    (∀ acc, acc.length = 20 → balanceOfNew st'.store acc = balanceOfOld st.store acc) ∧
    totalSupply st'.store = totalSupply st.store ∧
    (accountsNew st'.store).Perm (accountsOld st.store) ∧
    (∀ acc, acc.length = 20 → get st'.store acc = none) ∧
    NodupKeys st'.store := by
  obtain ⟨_, _, hc, _, args, _, hm⟩ := update_some h
  have hv : st.ver < 20000 := ((checkVersion_iff _).mp hc).2
  simp only [migrate] at hm
  refine ⟨?_, ?_, balance_accounts_perm hn hold hv hm, ?_, balance_nodup hn hm⟩
  · intro acc h20
    unfold balanceOfNew balanceOfOld accountBalanceAt
    rw [(balance_record_moves hn hold hv hm acc h20).1]
  · unfold totalSupply
    rw [balance_other_untouched hn hm _ (by decide) (by decide) circulation_not_deleted]
  · intro acc h20
    exact (balance_record_moves hn hold hv hm acc h20).2

-- non-vacuity: two accounts (one of them starting with the byte `a`), supply, non-notary leftovers
def accA : Bytes := [7, 7, 7, 7, 7, 7, 7, 7, 7, 7, 7, 7, 7, 7, 7, 7, 7, 7, 7, 7]
def accB : Bytes := [97, 1, 2, 3, 4, 5, 6, 7, 8, 9, 10, 11, 12, 13, 14, 15, 16, 17, 18, 19]
def balanceOldStore : Store :=
  [(accA, ser (.struct [.int 12345, .int 0, .null])), (accB, ser (.struct [.int 5, .int 9, .bytes accA])),
   (balance_circulation_bytes, encInt 12350), (notaryKey, [0]), (containerHashKey, [1])]
example : NodupKeys balanceOldStore ∧ BalanceOld balanceOldStore := by
  constructor
  · unfold NodupKeys; decide
  · unfold BalanceOld; decide
def balanceAfter : Option CState := update .balance ⟨15004, balanceOldStore⟩ byCommittee .null true
example : balanceAfter.map (fun st => (balanceOfNew st.store accA, balanceOfNew st.store accB, totalSupply st.store)) =
    some (some 12345, some 5, some 12350) := by decide
example : balanceAfter.map (fun st => (get st.store accA, get st.store notaryKey, st.store.length)) =
    some (none, none, 3) := by decide
example : balanceOfOld balanceOldStore accA = some 12345 ∧ balanceOfNew balanceOldStore accA = some 0 := by decide

/-! ## 4. Container -/

/-- **exact effect of the rename loop on EVERY storage**: 32- and 57-byte keys vanish, `x ‖ k` / `o ‖ k`
hold what the 32- / 57-byte key `k` held, everything else is as it was -/
theorem container_rename_exact (s : Store) (hn : NodupKeys s) (q : Bytes) :
    get (cnrRename s) q =
      if q.length = 32 ∨ q.length = 57 then none
      else if q.length = 33 ∧ q.head? = some 120 ∧ (get s q.tail).isSome then get s q.tail
      else if q.length = 58 ∧ q.head? = some 111 ∧ (get s q.tail).isSome then get s q.tail
      else get s q := get_cnrRename hn q

/-- **key-length separation** (this is what makes selecting by key length sound): in the documented
families - named keys, `eACL‖cid`, `nnsHasAlias‖cid`, `est…`, `cnr‖epoch‖cid‖postfix` with an epoch of at
most 9 bytes, and since 0.17 `x/d/m‖cid`, `o‖owner‖cid`, `r‖cid‖i`, `n/u‖cid‖vector‖counter` - no key other
than a bare container id has 32 bytes and none other than a bare owner-index key has 57 -/
theorem container_key_separation (k : Bytes) (h : CnrNewOnly k ∨ CnrOther k) : k.length ≠ 32 ∧ k.length ≠ 57 := by
  rcases h with h | h
  · exact cnrNewOnly_len h
  · exact ⟨(cnrOther_len h).1, (cnrOther_len h).2.1⟩

/-- **Container upgrade from the layout before 0.17**: for EVERY storage in that layout, after a HALTed
`update` every container record and its owner are answered as before (`get`, `owner`), `count` is the
number of containers, the container set and the owner index are the old ones re-keyed, no bare key
remains, and every other family (eACL, aliases, estimations, configuration) is untouched. -/
theorem container_upgrade_preserves_old_layout (st st' : CState) (env : Env) (data : Item) (nefOk : Bool)
    (hn : NodupKeys st.store) (hold : ContainerOld st.store)
    (h : update .container st env data nefOk = some st') :
    (∀ cid, cid.length = 32 → containerNew st'.store cid = containerOld st.store cid ∧
        ownerNew st'.store cid = ownerAt st.store cid ∧ get st'.store cid = none) ∧
    countNew st'.store = countOld st.store ∧
    (containersNew st'.store).Perm (containersOld st.store) ∧
    (ownerIndexNew st'.store).Perm (ownerIndexOld st.store) ∧
    (∀ k, k.length = 57 → get st'.store (111 :: k) = get st.store k ∧ get st'.store k = none) ∧
    (∀ q, CnrOther q → q ∉ [notaryKey, voteKey] → get st'.store q = get st.store q) := by
  obtain ⟨_, _, _, _, args, _, hm⟩ := update_some h
  simp only [migrate] at hm
  have hp := container_containers_perm hn hold hm
  refine ⟨?_, ?_, hp, container_index_perm hn hold hm, ?_, ?_⟩
  · intro cid h32
    obtain ⟨e1, e2⟩ := container_record_moves hn hold hm cid h32
    refine ⟨?_, ?_, e2⟩
    · unfold containerNew containerOld containerAt; rw [e1]
    · unfold ownerNew ownerAt containerAt; rw [e1]
  · unfold countNew countOld
    exact hp.length_eq
  · intro k h57; exact container_index_moves hn hold hm k h57
  · intro q hq hnv; exact container_other_untouched hn hm q hq hnv

/-- **`list(owner)`, `eACL(cid)`, `alias(cid)` after an upgrade from the layout before 0.17**: `list(owner)` /
`containersOf(owner)` list exactly the ids the bare owner index held for that owner; the extended ACL and
the alias of every container are answered as before -/
theorem container_upgrade_keeps_list_eacl_alias (st st' : CState) (env : Env) (data : Item) (nefOk : Bool)
    (hn : NodupKeys st.store) (hold : ContainerOld st.store)
    (h : update .container st env data nefOk = some st') :
    (∀ owner, (listNew st'.store owner).Perm (listOld st.store owner)) ∧
    (∀ cid, cid.length = 32 → eaclNew st'.store cid = eaclOld st.store cid ∧
      aliasNew st'.store cid = aliasOld st.store cid) := by
  obtain ⟨_, _, _, _, args, _, hm⟩ := update_some h
  simp only [migrate] at hm
  refine ⟨fun owner => container_list_perm hn hold hm owner, ?_⟩
  intro cid h32
  have e1 := (container_record_moves hn hold hm cid h32).1
  have lenE : (container_eACLPrefix ++ cid).length = 36 := by simp [container_eACLPrefix, h32]
  have lenA : (container_nnsHasAliasKey_bytes ++ cid).length = 43 := by simp [container_nnsHasAliasKey_bytes, h32]
  have pE : hasPrefix container_eACLPrefix (container_eACLPrefix ++ cid) = true := by
    unfold hasPrefix; rw [List.isPrefixOf_iff_prefix]; exact List.prefix_append _ _
  have pA : hasPrefix container_nnsHasAliasKey_bytes (container_nnsHasAliasKey_bytes ++ cid) = true := by
    unfold hasPrefix; rw [List.isPrefixOf_iff_prefix]; exact List.prefix_append _ _
  have short : ∀ k ∈ [notaryKey, voteKey], k.length ≠ 36 ∧ k.length ≠ 43 := by decide
  have e2 : get st'.store (container_eACLPrefix ++ cid) = get st.store (container_eACLPrefix ++ cid) :=
    container_other_untouched hn hm _ (Or.inr (Or.inl ⟨pE, lenE⟩)) (fun hmem => (short _ hmem).1 lenE)
  have e3 : get st'.store (container_nnsHasAliasKey_bytes ++ cid) = get st.store (container_nnsHasAliasKey_bytes ++ cid) :=
    container_other_untouched hn hm _ (Or.inr (Or.inr (Or.inl ⟨pA, lenA⟩))) (fun hmem => (short _ hmem).2 lenA)
  constructor
  · unfold eaclNew eaclOld eaclAt ownerAt containerAt; rw [e1, e2]
  · unfold aliasNew aliasOld aliasAt ownerAt containerAt; rw [e1, e3]

/-- **Container upgrade from the current layout (0.17 … 0.19)**: the rename loop runs again but finds
nothing: every stored item except `notary`/`ballots` is untouched, for every storage without 32- and
57-byte keys - in particular for every storage in the documented families (`container_key_separation`) -/
theorem container_upgrade_identity_current_layout (st st' : CState) (env : Env) (data : Item) (nefOk : Bool)
    (hn : NodupKeys st.store) (hnew : ContainerNew st.store)
    (h : update .container st env data nefOk = some st') :
    ∀ q, q ∉ [notaryKey, voteKey] → get st'.store q = get st.store q := by
  obtain ⟨_, _, _, _, args, _, hm⟩ := update_some h
  simp only [migrate] at hm
  intro q hq
  exact container_new_identity hn (containerNew_no_bare hnew) hm q hq

/-- **finding F21 (negation witness)**: the estimation family `cnr ‖ epoch ‖ cid ‖ postfix` has keys of
`45 + |epoch|` bytes; with a 12-byte epoch (≥ 2^87, which `putContainerSize` accepts from a storage node)
the key has 57 bytes and the next upgrade - from ANY version - moves it into the owner index. That is why
`CnrOther` bounds the epoch by 9 bytes. -/
theorem container_57_byte_estimation_key_is_renamed :
    ∃ (s : Store) (q : Bytes), NodupKeys s ∧ hasPrefix container_estimateKeyPrefix_bytes q = true ∧
      (get s q).isSome ∧ get (cnrRename s) q = none ∧ (get (cnrRename s) (111 :: q)).isSome :=
  ⟨[(container_estimateKeyPrefix_bytes ++ List.replicate 11 0 ++ [1] ++ List.replicate 42 9, [5])],
   container_estimateKeyPrefix_bytes ++ List.replicate 11 0 ++ [1] ++ List.replicate 42 9,
   by unfold NodupKeys; decide, by decide, by decide, by decide, by decide⟩

-- non-vacuity: one container with its index entry, an eACL, an estimation, configuration, a stale flag
def cidA : Bytes := List.replicate 32 3
def ownerA : Bytes := 53 :: List.replicate 24 8
def blobA : Bytes := [10, 4, 8, 2, 16, 8, 18, 27, 10, 25] ++ ownerA ++ [1, 2]
def containerOldStore : Store :=
  [(cidA, ser (.struct [.bytes blobA, .bytes [1], .bytes [2], .null])), (ownerA ++ cidA, cidA),
   (container_eACLPrefix ++ cidA, ser (.struct [.bytes [4], .bytes [5], .bytes [6], .bytes []])),
   (container_estimateKeyPrefix_bytes ++ [44, 1] ++ cidA ++ List.replicate 10 2, [7]),
   (container_nnsRootKey_bytes, [99]), (notaryKey, [0])]
example : NodupKeys containerOldStore := by unfold NodupKeys; decide
def containerAfter : Option CState := update .container ⟨16999, containerOldStore⟩ byCommittee .null true
example : containerAfter.map (fun st => (countNew st.store, ownerNew st.store cidA, listNew st.store ownerA)) =
    some (1, some ownerA, [cidA]) := by decide
example : containerAfter.map (fun st => (get st.store cidA, get st.store notaryKey, st.store.length)) =
    some (none, none, 5) := by decide
example : containerAfter.map (fun st => (containerNew st.store cidA).map ser) =
    some ((containerOld containerOldStore cidA).map ser) := by decide
example : countNew containerOldStore = 0 ∧ countOld containerOldStore = 1 := by decide
example : listOld containerOldStore ownerA = [cidA] ∧ (eaclOld containerOldStore cidA).isSome := by decide
example : containerAfter.map (fun st => ((eaclNew st.store cidA).map (·.map ser), aliasNew st.store cidA)) =
    some ((eaclOld containerOldStore cidA).map (·.map ser), some none) := by decide

/-! ## 5. NeoFSID, Audit, Reputation, Proxy, NeoFS, Processing -/

/-- for these six contracts a HALTed `update` changes nothing but the legacy keys `notary`, `ballots`,
`netmapScriptHash`, `containerScriptHash` - whatever the storage holds -/
theorem simple_contracts_preserve_everything_else (k : Kind)
    (hk : k = .neofsid ∨ k = .audit ∨ k = .reputation ∨ k = .proxy ∨ k = .neofs ∨ k = .processing)
    (st st' : CState) (env : Env) (data : Item) (nefOk : Bool) (h : update k st env data nefOk = some st')
    (q : Bytes) (hq : q ∉ legacyKeys) : get st'.store q = get st.store q := by
  obtain ⟨_, _, _, _, args, _, hm⟩ := update_some h
  exact simple_untouched hk hm q hq

/-- NeoFSID: `key(owner)` answers the same keys in the same order for every owner -/
theorem neofsid_upgrade_preserves_keys (st st' : CState) (env : Env) (data : Item) (nefOk : Bool)
    (h : update .neofsid st env data nefOk = some st') (owner : Bytes) :
    idKeys st'.store owner = idKeys st.store owner := by
  obtain ⟨_, _, _, _, args, _, hm⟩ := update_some h
  exact neofsid_keys_preserved hm owner

-- non-vacuity
def idOwner : Bytes := 53 :: List.replicate 24 1
def idStore : Store := [(111 :: idOwner ++ [2, 5], [1]), (111 :: idOwner ++ [2, 4], [1]), (netmapHashKey, [1]), (notaryKey, [1])]
example : (update .neofsid ⟨15004, idStore⟩ byCommittee .null true).map
    (fun st => (idKeys st.store idOwner, st.store.length)) = some ([[2, 4], [2, 5]], 2) := by decide
example : idKeys idStore idOwner = [[2, 4], [2, 5]] := by decide

/-! ## 5a. Alphabet (the non-notary contract distributes its GAS on upgrade)

`env.alpha` is what the migration sees of the chain: its own hash, the native Notary contract, the Netmap
contract with the answers of `netmap()` / `innerRingList()`, the NNS record of Proxy, and the native GAS /
Notary `Ledger` before the invocation. `ledgerAfterUpdate` is the ledger after it. Balances are sums of signed
entries; `cnt ks a` counts how often the account of key `a` occurs among the paid nodes. -/

/-- **Alphabet upgrade preserves the storage the read API reads**: whatever the storage held, a HALTed `update`
writes at most `notary`, `ballots` and `proxyScriptHash`; name, index, threshold and the Netmap address are
untouched (`name()` answers as before), and `proxyScriptHash`, if written, holds the 20-byte Proxy address passed
by the caller or the NNS record of Proxy -/
theorem alphabet_upgrade_preserves_storage (st st' : CState) (env : Env) (data : Item) (nefOk : Bool)
    (h : update .alphabet st env data nefOk = some st') :
    (∀ q, q ∉ [notaryKey, voteKey, alphaProxyKey] → get st'.store q = get st.store q) ∧
    (∀ k ∈ [alphabet_nameKey_bytes, alphabet_indexKey_bytes, alphabet_totalKey_bytes, alphabet_netmapKey_bytes],
      get st'.store k = get st.store k) ∧
    (get st'.store alphaProxyKey = get st.store alphaProxyKey ∨
      ∃ proxy, (proxy.length = 20 ∨ env.alpha.nnsProxy = some proxy) ∧ get st'.store alphaProxyKey = some proxy) := by
  have main : (∀ q, q ∉ [notaryKey, voteKey, alphaProxyKey] → get st'.store q = get st.store q) ∧
      (get st'.store alphaProxyKey = get st.store alphaProxyKey ∨
        ∃ proxy, (proxy.length = 20 ∨ env.alpha.nnsProxy = some proxy) ∧ get st'.store alphaProxyKey = some proxy) := by
    have pk1 : alphaProxyKey ≠ notaryKey := by decide
    have pk2 : alphaProxyKey ≠ voteKey := by decide
    rcases alphabet_update_cases h with ⟨_, args, _, hf⟩ | ⟨_, hs, _⟩
    · cases alphabetSwitchFull_outcome hf with
      | notarized _ hs _ => rw [hs]; exact ⟨fun _ _ => rfl, Or.inl rfl⟩
      | flagFalse nv _ _ hs _ =>
        rw [hs]
        refine ⟨fun q hq => get_del_other _ _ _ (fun e => hq (by simp [e])), Or.inl (get_del_other _ _ _ pk1)⟩
      | distributed nv _ _ proxy hlen _ _ hs =>
        rw [hs]
        refine ⟨?_, Or.inr ⟨proxy, hlen, ?_⟩⟩
        · intro q hq
          simp only [List.mem_cons, List.not_mem_nil, or_false, not_or] at hq
          rw [get_del_other _ _ _ hq.1, get_put_other _ _ _ _ hq.2.2, get_del_other _ _ _ hq.2.1]
        · rw [get_del_other _ _ _ pk1, get_put_self]
    · rw [hs]; exact ⟨fun _ _ => rfl, Or.inl rfl⟩
  refine ⟨main.1, ?_, main.2⟩
  intro k hk
  apply main.1
  have : ∀ k ∈ [alphabet_nameKey_bytes, alphabet_indexKey_bytes, alphabet_totalKey_bytes, alphabet_netmapKey_bytes],
      k ∉ [notaryKey, voteKey, alphaProxyKey] := by decide
  exact this k hk

/-- **GAS conservation and the documented split.** After a HALTed `update` of an Alphabet contract the total
amount of GAS is what it was, and either no GAS moved at all, or - version before 0.17, flag reads true, no
pending vote - with `b` the contract's balance, `n` the number of Inner Ring plus storage nodes and
`(toProxy, simple, part) = alphaShares b n` (= `b*3/4/2`, and the per-node rest split into the node's account and
its Notary deposit, the latter capped at 20 GAS): Proxy gains `toProxy`, the account of every node key gains `simple`
and its Notary deposit `part` per occurrence, the Notary contract holds the deposits, the contract loses exactly
the sum, and NO other account changes. -/
theorem alphabet_upgrade_gas (st st' : CState) (env : Env) (data : Item) (nefOk : Bool)
    (h : update .alphabet st env data nefOk = some st') :
    totalGas (ledgerAfterUpdate .alphabet st env data nefOk) = totalGas env.alpha.ledger ∧
    (ledgerAfterUpdate .alphabet st env data nefOk = env.alpha.ledger ∨
      ∃ nv proxy snKeys, st.ver < 17000 ∧ get st.store notaryKey = some nv ∧ bytesToBool nv = some true ∧
        nodeKeys env.alpha.nodes = some snKeys ∧ get st'.store alphaProxyKey = some proxy ∧
        (∀ a, balOf (ledgerAfterUpdate .alphabet st env data nefOk) a = balOf env.alpha.ledger a
          + (if proxy = a then (alphaShares (balOf env.alpha.ledger env.alpha.self)
                ((env.alpha.nodes.length + env.alpha.irKeys.length : Nat) : Int)).1 else 0)
          + (alphaShares (balOf env.alpha.ledger env.alpha.self)
                ((env.alpha.nodes.length + env.alpha.irKeys.length : Nat) : Int)).2.1 * cnt (env.alpha.irKeys ++ snKeys) a
          + (if env.alpha.notary = a then (alphaShares (balOf env.alpha.ledger env.alpha.self)
                ((env.alpha.nodes.length + env.alpha.irKeys.length : Nat) : Int)).2.2
              * ((env.alpha.irKeys ++ snKeys).length : Int) else 0)
          - (if env.alpha.self = a then (alphaShares (balOf env.alpha.ledger env.alpha.self)
                ((env.alpha.nodes.length + env.alpha.irKeys.length : Nat) : Int)).1
              + ((alphaShares (balOf env.alpha.ledger env.alpha.self)
                  ((env.alpha.nodes.length + env.alpha.irKeys.length : Nat) : Int)).2.1
                + (alphaShares (balOf env.alpha.ledger env.alpha.self)
                  ((env.alpha.nodes.length + env.alpha.irKeys.length : Nat) : Int)).2.2)
                * ((env.alpha.irKeys ++ snKeys).length : Int) else 0)) ∧
        (∀ a, depOf (ledgerAfterUpdate .alphabet st env data nefOk) a = depOf env.alpha.ledger a
          + (alphaShares (balOf env.alpha.ledger env.alpha.self)
                ((env.alpha.nodes.length + env.alpha.irKeys.length : Nat) : Int)).2.2 * cnt (env.alpha.irKeys ++ snKeys) a)) := by
  rcases alphabet_update_cases h with ⟨hv, args, _, hf⟩ | ⟨_, _, hl⟩
  · cases alphabetSwitchFull_outcome hf with
    | notarized _ _ hl => rw [hl]; exact ⟨rfl, Or.inl rfl⟩
    | flagFalse nv _ _ _ hl => rw [hl]; exact ⟨rfl, Or.inl rfl⟩
    | distributed nv hflag hb proxy _ _ hd hs =>
      obtain ⟨snKeys, hk, _, _, hbal, htot, hdep⟩ := alphaDistribute_spec hd
      refine ⟨htot, Or.inr ⟨nv, proxy, snKeys, hv, hflag, hb, hk, ?_, hbal, hdep⟩⟩
      rw [hs, get_del_other _ _ _ (by decide), get_put_self]
  · rw [hl]; exact ⟨rfl, Or.inl rfl⟩

/-- no GAS moves unless the contract is older than 0.17 AND its `notary` flag reads true -/
theorem alphabet_gas_untouched_unless_non_notary (st st' : CState) (env : Env) (data : Item) (nefOk : Bool)
    (h : update .alphabet st env data nefOk = some st')
    (hno : 17000 ≤ st.ver ∨ get st.store notaryKey = none ∨
      ∃ nv, get st.store notaryKey = some nv ∧ bytesToBool nv = some false) :
    ledgerAfterUpdate .alphabet st env data nefOk = env.alpha.ledger := by
  rcases alphabet_upgrade_gas st st' env data nefOk h with ⟨_, e | ⟨nv, _, _, hv, hflag, hb, _⟩⟩
  · exact e
  · exfalso
    rcases hno with h1 | h1 | ⟨nv', h1, h2⟩
    · omega
    · rw [h1] at hflag; cases hflag
    · rw [h1] at hflag; simp only [Option.some.injEq] at hflag; subst hflag; rw [hb] at h2; cases h2

/-- a FAULTed `update` (of any contract) moves no GAS; and what a distribution hands out never exceeds three
quarters of the balance: the contract keeps at least a quarter -/
theorem alphabet_fault_moves_no_gas_and_quarter_stays (k : Kind) (st : CState) (env : Env) (data : Item) (nefOk : Bool)
    (b n : Int) (hb : 0 ≤ b) (hn : 0 < n) :
    (update k st env data nefOk = none → ledgerAfterUpdate k st env data nefOk = env.alpha.ledger) ∧
    (alphaShares b n).1 + n * ((alphaShares b n).2.1 + (alphaShares b n).2.2) ≤ b * 3 / 4 :=
  ⟨ledgerAfterUpdate_fault, alphaShares_le b n hb hn⟩

/-- **a pending vote blocks the Alphabet upgrade**: flag reads true, a readable ballot at most 20 blocks old ⇒
`update` FAULTs - storage, version and GAS stay as they were -/
theorem alphabet_pending_vote_blocks (st : CState) (hv : st.ver < 17000) (env : Env) (data : Item) (nefOk : Bool)
    (nv : Bytes) (hflag : get st.store notaryKey = some nv) (htrue : bytesToBool nv = some true)
    (l : List Item) (hball : getBallots st.store = some l)
    (hpend : ∃ c ∈ l, ∃ bh, ballotHeight c = some bh ∧ env.height - bh ≤ 20) :
    update .alphabet st env data nefOk = none ∧
      ledgerAfterUpdate .alphabet st env data nefOk = env.alpha.ledger := by
  have hu : update .alphabet st env data nefOk = none := by
    cases hu : update .alphabet st env data nefOk with
    | none => rfl
    | some st' =>
      exfalso
      rcases alphabet_update_cases hu with ⟨_, args, _, hf⟩ | ⟨hnv, _, _⟩
      · rw [alphabetSwitchFull_pending hflag htrue hball hpend] at hf; cases hf
      · exact hnv hv
  exact ⟨hu, ledgerAfterUpdate_fault hu⟩

-- non-vacuity: a non-notary Alphabet contract holding 1000 GAS, one Inner Ring node and one storage node
def alphaArgs : Item := .array [.bool false, .bytes (List.replicate 20 1), .bytes (List.replicate 20 2), .bytes [97, 122]]
example : (update .alphabet ⟨16999, [(notaryKey, [0]), ([110, 97, 109, 101], [97, 122])]⟩ byCommittee alphaArgs true).map (·.store) =
    some [([110, 97, 109, 101], [97, 122])] := by decide
example : update .alphabet ⟨16999, [(notaryKey, [0])]⟩ byCommittee .null true = none := by decide
example : (update .alphabet ⟨17000, [(notaryKey, [1])]⟩ byCommittee .null true).map (·.store) = some [(notaryKey, [1])] := by decide
def selfH : Bytes := List.replicate 20 9
def notaryH : Bytes := List.replicate 20 8
def irKey : Bytes := 2 :: List.replicate 32 5
def snKey : Bytes := 3 :: List.replicate 32 6
def alphaWorld (gas : Int) : AlphaEnv :=
  { self := selfH, notary := notaryH, netmapHash := List.replicate 20 1,
    nodes := [.struct [.bytes ([10, 33] ++ snKey ++ [1]), .int 1]], irKeys := [irKey], notaryFee := 10000000,
    ledger := { bal := [(selfH, gas)] } }
def nonNotaryAlpha (gas : Int) : Env := { byCommittee with alpha := alphaWorld gas }
def alphaStore : Store := [(notaryKey, [1]), (alphabet_nameKey_bytes, [97, 122]), (alphaProxyKey, [7])]
-- 1000 GAS: 750 are distributed: 375 to Proxy, 187.5 per node = 167.5 to the account + 20 (the cap) as deposit
example : (update .alphabet ⟨16999, alphaStore⟩ (nonNotaryAlpha 100000000000) alphaArgs true).map (·.store) =
    some [(alphaProxyKey, List.replicate 20 2), (alphabet_nameKey_bytes, [97, 122])] := by decide
example :
    let L := ledgerAfterUpdate .alphabet ⟨16999, alphaStore⟩ (nonNotaryAlpha 100000000000) alphaArgs true
    (balOf L selfH, balOf L (List.replicate 20 2), balOf L irKey, balOf L snKey) =
      (25000000000, 37500000000, 16750000000, 16750000000) ∧
    (balOf L notaryH, depOf L irKey, depOf L snKey, totalGas L) = (4000000000, 2000000000, 2000000000, 100000000000) := by
  decide
-- 1 GAS unit: "no GAS in the contract"; 1 GAS: the deposit share is below the Notary minimum: FAULT, nothing moves
example : update .alphabet ⟨16999, alphaStore⟩ (nonNotaryAlpha 1) alphaArgs true = none := by decide
example : update .alphabet ⟨16999, alphaStore⟩ (nonNotaryAlpha 100000000) alphaArgs true = none ∧
    balOf (ledgerAfterUpdate .alphabet ⟨16999, alphaStore⟩ (nonNotaryAlpha 100000000) alphaArgs true) selfH = 100000000 := by
  decide
-- a ballot 20 blocks old blocks it
example : update .alphabet ⟨16999, (voteKey, ballotsAt 80) :: alphaStore⟩ (nonNotaryAlpha 100000000000) alphaArgs true = none := by
  decide


/-! ## 6. Netmap -/

/-- **configuration, epoch and snapshot bookkeeping survive every upgrade**, for every storage:
`listConfig()` (same records, same order), every `config(key)`, epoch, epoch block, current snapshot id,
snapshot count -/
theorem netmap_upgrade_preserves_configuration (st st' : CState) (env : Env) (data : Item) (nefOk : Bool)
    (h : update .netmap st env data nefOk = some st') :
    nmConfig st'.store = nmConfig st.store ∧
    (∀ key, get st'.store (netmap_configPrefix ++ key) = get st.store (netmap_configPrefix ++ key)) ∧
    (∀ k ∈ [netmap_snapshotEpoch_bytes, netmap_snapshotBlockKey_bytes, netmap_snapshotCurrentIDKey_bytes,
      netmap_snapshotCountKey_bytes], get st'.store k = get st.store k) := by
  obtain ⟨_, _, _, _, args, _, hm⟩ := update_some h
  simp only [migrate] at hm
  exact ⟨netmap_config_preserved hm, netmap_config_get hm, netmap_scalars_preserved hm⟩

/-- **node lists and candidates since 0.16 are not touched** -/
theorem netmap_upgrade_keeps_nodes_since_016 (st st' : CState) (env : Env) (data : Item) (nefOk : Bool)
    (hv : 16000 ≤ st.ver) (h : update .netmap st env data nefOk = some st') (k : Bytes)
    (hk : (∃ i, k = snapshotKey i) ∨ hasPrefix netmap_candidatePrefix k = true) :
    get st'.store k = get st.store k := by
  obtain ⟨_, _, _, _, args, _, hm⟩ := update_some h
  simp only [migrate] at hm
  exact netmap_nodes_untouched (by omega) hm k hk

/-- **node lists before 0.16 are preserved, empty lists included**: every snapshot slot below the snapshot
count holds, after the upgrade, the serialized array of the same number of nodes in the same order, each
`{BLOB}` turned into `{BLOB, Online}`; an absent slot stays absent. No hypothesis on the list. -/
theorem netmap_upgrade_converts_node_lists (st st' : CState) (env : Env) (data : Item) (nefOk : Bool)
    (hv : st.ver < 16000) (h : update .netmap st env data nefOk = some st')
    (c : Nat) (hc : snapshotCount st.store = some c) (i : Nat) (hi : i < c) :
    match get st.store (snapshotKey i) with
    | none => get st'.store (snapshotKey i) = none
    | some d => ∃ it nodes nn, deser d = some it ∧ elems it = some nodes ∧ NodesConv nodes nn ∧
        nn.length = nodes.length ∧ get st'.store (snapshotKey i) = some (ser (.array nn)) := by
  obtain ⟨_, _, _, _, args, _, hm⟩ := update_some h
  simp only [migrate] at hm
  have := netmap_snapshot_migrated hv hm c hc i hi
  cases hg : get st.store (snapshotKey i) with
  | none => rw [hg] at this; exact this
  | some d =>
    rw [hg] at this
    obtain ⟨d', hconv, hget⟩ := this
    unfold convSnapshot at hconv
    cases hd : deser d with
    | none => rw [hd] at hconv; cases hconv
    | some it =>
      rw [hd] at hconv
      simp only at hconv
      cases he : elems it with
      | none => rw [he] at hconv; cases hconv
      | some nodes =>
        rw [he] at hconv
        simp only at hconv
        cases hmn : mapNodes nodes with
        | none => rw [hmn] at hconv; cases hconv
        | some nn =>
          rw [hmn] at hconv
          simp only [Option.some.injEq] at hconv
          exact ⟨it, nodes, nn, hd, he, mapNodes_spec hmn, (mapNodes_spec hmn).length_eq, by rw [hget, hconv]⟩

/-- **an empty node list stays an empty node list** (the behaviour repaired by f42319b, finding F20): a
snapshot slot below the count that holds an empty list in the format before 0.16 holds the serialized empty
array after the upgrade, and `getSnapshot` - what `netmap()` and `snapshot(d)` answer with - reads it as the
empty array, not as Null -/
theorem netmap_upgrade_keeps_empty_node_lists (st st' : CState) (env : Env) (data : Item) (nefOk : Bool)
    (hv : st.ver < 16000) (h : update .netmap st env data nefOk = some st')
    (c : Nat) (hc : snapshotCount st.store = some c) (i : Nat) (hi : i < c)
    (d : Bytes) (hg : get st.store (snapshotKey i) = some d) (it : Item) (hd : deser d = some it)
    (he : elems it = some []) :
    get st'.store (snapshotKey i) = some (ser (.array [])) ∧
      (nmSnapshotAt st'.store i).map ser = some (ser (.array [])) := by
  have := netmap_upgrade_converts_node_lists st st' env data nefOk hv h c hc i hi
  rw [hg] at this
  obtain ⟨it', nodes, nn, hd', he', _, hlen, hget⟩ := this
  rw [hd] at hd'
  simp only [Option.some.injEq] at hd'
  subst hd'
  rw [he] at he'
  simp only [Option.some.injEq] at he'
  subst he'
  have : nn = [] := List.eq_nil_of_length_eq_zero (by simpa using hlen)
  subst this
  refine ⟨hget, ?_⟩
  unfold nmSnapshotAt
  rw [hget]
  decide

/-- **candidates before 0.16**: every record `{{BLOB}, state}` under `candidate ‖ key` is `{BLOB, state}` after
the upgrade, under the same key -/
theorem netmap_upgrade_converts_candidates (st st' : CState) (env : Env) (data : Item) (nefOk : Bool)
    (hn : NodupKeys st.store) (hv : st.ver < 16000) (h : update .netmap st env data nefOk = some st')
    (k d : Bytes) (hk : hasPrefix netmap_candidatePrefix k = true) (hg : get st.store k = some d) :
    ∃ d', candOldToNew d = some d' ∧ get st'.store k = some d' := by
  obtain ⟨_, _, _, _, args, _, hm⟩ := update_some h
  simp only [migrate] at hm
  exact netmap_candidate_migrated hv hn hm k d hk hg

/-- **NewEpoch subscribers before 0.19**: a storage without `e…` keys that names Balance and Container under
the legacy address keys ends with exactly these two as subscribers, Balance first (the order in which the
old code called them) -/
theorem netmap_upgrade_creates_subscribers (st st' : CState) (env : Env) (data : Item) (nefOk : Bool)
    (hv : st.ver < 19000) (h : update .netmap st env data nefOk = some st')
    (hnone : snapshot st.store subPrefix = []) (b c : Bytes)
    (hb : get st.store balanceHashKey = some b) (hc : get st.store containerHashKey = some c) :
    nmSubscribers st'.store = [b, c] := by
  obtain ⟨_, _, _, _, args, _, hm⟩ := update_some h
  simp only [migrate] at hm
  exact netmap_subscribers hv hm hnone b c hb hc

-- non-vacuity: one node in slot 0, the empty list in slot 1, a candidate, configuration, legacy address keys
def nodeBlob : Bytes := [10, 33, 2, 1, 1]
def netmapOldStore : Store :=
  [(snapshotKey 0, ser (.array [.struct [.bytes nodeBlob]])), (snapshotKey 1, ser (.array [])),
   (netmap_snapshotCountKey_bytes, [2]),
   (netmap_snapshotCurrentIDKey_bytes, []), (netmap_snapshotEpoch_bytes, [5]),
   (netmap_candidatePrefix ++ [2, 1, 1], ser (.struct [.struct [.bytes nodeBlob], .int 3])),
   (netmap_configPrefix ++ [65], [9]), (balanceHashKey, [11]), (containerHashKey, [12])]
def netmapAfter : Option CState := update .netmap ⟨15004, netmapOldStore⟩ byCommittee .null true
example : netmapAfter.map (fun st => ((nmNetmap st.store).map ser, (nmCandidates st.store).map (·.map ser))) =
    some (some (ser (.array [.struct [.bytes nodeBlob, .int 1]])),
      some [ser (.struct [.bytes nodeBlob, .int 3])]) := by decide
example : (nmSnapshotAt netmapOldStore 1).map ser = some (ser (.array [])) ∧
    netmapAfter.map (fun st => ((nmSnapshotAt st.store 1).map ser, get st.store (snapshotKey 1))) =
      some (some (ser (.array [])), some (ser (.array []))) := by decide
-- a ring longer than the default 10: the loop is bounded by the STORED count, slot 11 is converted as well; with a
-- stored count of 3 a stale slot 5 is not touched
def ringStore (count : Nat) (slot : Nat) : Store :=
  [(snapshotKey slot, ser (.array [.struct [.bytes nodeBlob]])), (netmap_snapshotCountKey_bytes, [count]),
   (balanceHashKey, [11]), (containerHashKey, [12])]
example : (update .netmap ⟨15004, ringStore 12 11⟩ byCommittee .null true).map (fun st => get st.store (snapshotKey 11)) =
    some (some (ser (.array [.struct [.bytes nodeBlob, .int 1]]))) := by decide
example : (update .netmap ⟨15004, ringStore 3 5⟩ byCommittee .null true).map (fun st => get st.store (snapshotKey 5)) =
    some (get (ringStore 3 5) (snapshotKey 5)) := by decide
example : netmapAfter.map (fun st => (nmConfig st.store, nmSubscribers st.store, get st.store balanceHashKey)) =
    some ([([65], [9])], [[11], [12]], none) := by decide

/-! ## 7. NNS -/

/-- **records, roots, total supply and the registration price are out of the migration's reach**: it writes
keys under the prefixes `0x01` (balances), `0x02` (account tokens) and `0x21` (name states) only -/
theorem nns_upgrade_keeps_records_roots_supply (st st' : CState) (env : Env) (data : Item) (nefOk : Bool)
    (h : update .nns st env data nefOk = some st') (q : Bytes)
    (hq : q.head? ≠ some 1 ∧ q.head? ≠ some 2 ∧ q.head? ≠ some 33) : get st'.store q = get st.store q := by
  obtain ⟨_, _, _, _, args, _, hm⟩ := update_some h
  simp only [migrate] at hm
  apply (touches_nnsMigrate hm).get_eq
  rintro (e | e | e)
  · exact hq.1 e
  · exact hq.2.1 e
  · exact hq.2.2 e

/-- since 0.18 the NNS upgrade does not write at all -/
theorem nns_upgrade_identity_since_018 (st st' : CState) (env : Env) (data : Item) (nefOk : Bool)
    (hv : 18000 ≤ st.ver) (h : update .nns st env data nefOk = some st') : st'.store = st.store := by
  obtain ⟨_, _, _, _, args, _, hm⟩ := update_some h
  simp only [migrate, nnsMigrate] at hm
  have : st.ver ≥ 18000 := hv
  simp only [this, if_true, Option.some.injEq] at hm
  exact hm.symm

/-- **names below a TLD keep their whole state** (owner, name, expiration, admin), byte for byte -/
theorem nns_upgrade_keeps_subdomains (st st' : CState) (env : Env) (data : Item) (nefOk : Bool)
    (hn : NodupKeys st.store) (hv : st.ver < 18000) (h : update .nns st env data nefOk = some st')
    (k val : Bytes) (hg : get st.store k = some val) (hh : k.head? = some 33)
    (it owner : Item) (name : Bytes) (rest : List Item)
    (hd : deser val = some it) (he : elems it = some (owner :: Item.bytes name :: rest))
    (hdot : name.contains 46 = true) : get st'.store k = some val := by
  obtain ⟨_, _, _, _, args, _, hm⟩ := update_some h
  simp only [migrate] at hm
  exact nns_subdomain_untouched hn hv hm k val hg hh it owner name rest hd he (by unfold isTLDName; rw [hdot]; rfl)

/-- **TLDs move to the committee**: a name without a dot keeps name, expiration and admin and loses its
owner (the documented intent of 0.18, asserted by the repository's own migration test) -/
theorem nns_upgrade_tld_loses_owner (st st' : CState) (env : Env) (data : Item) (nefOk : Bool)
    (hn : NodupKeys st.store) (hv : st.ver < 18000) (h : update .nns st env data nefOk = some st')
    (k val : Bytes) (hg : get st.store k = some val) (hh : k.head? = some 33)
    (o name : Bytes) (rest : List Item)
    (hd : deser val = some (Item.struct (Item.bytes o :: Item.bytes name :: rest)))
    (hdot : name.contains 46 = false) :
    get st'.store k = some (ser (Item.struct (Item.null :: Item.bytes name :: rest))) := by
  obtain ⟨_, _, _, _, args, _, hm⟩ := update_some h
  simp only [migrate] at hm
  exact nns_tld_owner_dropped hn hv hm k val hg hh o name rest hd (by unfold isTLDName; rw [hdot]; rfl)

/-- **the accounting of the TLD hand-over, for every old-layout storage** (`names` = the name states in key order,
`tldCount names o` = how many of them are TLDs held by `o`, `tldTokenKeys names` = their account-token keys
`0x02 ‖ owner ‖ tokenKey`):
* the balance record of every account `o` - what `balanceOf(o)` decodes - drops by exactly the number of TLDs `o`
  held, provided the old record was consistent (at least that number; the old-layout invariant "balance = number of
  names owned") and below `256^40`;
* of the account-token entries (what `tokensOf(o)` lists) exactly those of the TLDs disappear, every other one keeps
  its value;
* `totalSupply` is untouched (TLDs stay registered, only their owner goes). -/
theorem nns_upgrade_tld_accounting (st st' : CState) (env : Env) (data : Item) (nefOk : Bool)
    (hn : NodupKeys st.store) (hv : st.ver < 18000) (h : update .nns st env data nefOk = some st') :
    (∀ o, tldCount (snapshot st.store [33]) o ≤ storedIntOr0 st.store (1 :: o) →
        storedIntOr0 st.store (1 :: o) < 256 ^ 40 →
        storedIntOr0 st'.store (1 :: o) = storedIntOr0 st.store (1 :: o) - tldCount (snapshot st.store [33]) o) ∧
    (∀ q, q.head? = some 2 →
        get st'.store q = if q ∈ tldTokenKeys (snapshot st.store [33]) then none else get st.store q) ∧
    get st'.store [0] = get st.store [0] := by
  obtain ⟨_, _, _, _, args, _, hm⟩ := update_some h
  simp only [migrate] at hm
  have hm0 := hm
  unfold nnsMigrate at hm
  have : ¬ st.ver ≥ 18000 := by omega
  simp only [this, if_false] at hm
  obtain ⟨_, heads, _⟩ := nns_entries hn
  refine ⟨?_, ?_, ?_⟩
  · intro o h1 h2
    exact forNames_balance hm heads o ⟨h1, h2⟩
  · intro q hq
    exact forNames_tokens hm heads q hq
  · apply (touches_nnsMigrate hm0).get_eq
    rintro (e | e | e) <;> revert e <;> decide

-- non-vacuity: TLD "ab" owned by an account, sub-domain "c.ab", one record, supply
def tldKey : Bytes := 33 :: List.replicate 20 1
def subKey : Bytes := 33 :: List.replicate 20 2
def ownerN : Bytes := List.replicate 20 5
def nnsOldStore : Store :=
  [(tldKey, ser (.struct [.bytes ownerN, .bytes [97, 98], .int 1000, .null])),
   (subKey, ser (.struct [.bytes ownerN, .bytes [99, 46, 97, 98], .int 1000, .null])),
   (1 :: ownerN, [2]), (2 :: ownerN ++ List.replicate 20 1, [97, 98]), (2 :: ownerN ++ List.replicate 20 2, [99, 46, 97, 98]),
   ([0], [2]), (34 :: List.replicate 20 2, [7])]
def nnsAfter : Option CState := update .nns ⟨17999, nnsOldStore⟩ byCommittee .null true
example : nnsAfter.map (fun st => (nnsBalanceOf st.store ownerN, nnsTotalSupply st.store,
      get st.store subKey == get nnsOldStore subKey)) = some (some 1, some 2, true) := by decide
example : tldCount (snapshot nnsOldStore [33]) ownerN = 1 ∧ storedIntOr0 nnsOldStore (1 :: ownerN) = 2 ∧
    tldTokenKeys (snapshot nnsOldStore [33]) = [2 :: ownerN ++ List.replicate 20 1] ∧
    nnsAfter.map (fun st => storedIntOr0 st.store (1 :: ownerN)) = some 1 := by decide
example : nnsAfter.map (fun st => (get st.store tldKey, get st.store (2 :: ownerN ++ List.replicate 20 1), st.store.length)) =
    some (some (ser (.struct [.null, .bytes [97, 98], .int 1000, .null])), none, 6) := by decide

end NeoFS.Props.C16
