import NeoFS.Lemmas.NeoFSGas
import NeoFS.Lemmas.AlphabetEmit
import NeoFS.Generated.Consts
import NeoFS.Generated.Footprint
/-! # C19 — GAS handled by the governance contracts is accounted exactly

Property theorems only. Models: `NeoFS/Model/NeoFSMain.lean` (OnNEP17Payment, Withdraw, Cheque,
InnerRingCandidateAdd and native GAS `transfer` as the contract uses it; Notary mode and vote mode) and
`NeoFS/Model/AlphabetEmit.lean` (Emit and the payment callbacks of Alphabet, Proxy, Processing).
Helper lemmas: `NeoFS/Lemmas/NeoFSGas.lean`, `NeoFS/Lemmas/AlphabetEmit.lean`. -/
namespace NeoFS.Props.C19
open NeoFS NeoFS.Main

/-! ### bridges between regenerated constants and the literals of the property text -/

/-- 9000 GAS in fractions (GAS has 8 decimals) -/
theorem maxGAS_is_9000_GAS : maxGAS = 9000 * 100000000 := rfl
theorem maxWithdraw_is_9000 : maxWithdraw = 9000 := rfl
theorem ignoreMarker_bytes : ignoreMarker = [0x57, 0x0b] := rfl

/-! ### deposits -/

/-- the data shapes the contract takes for a deposit: the byte form of `data` (Null ↦ empty, byte string, Integer ↦
its bytes) is not the ignore marker and is either empty (the sender is credited) or 20 bytes long (the receiver) -/
def AcceptedShape (d : Data) : Prop :=
  ∃ b, d.form = some b ∧ b ≠ ignoreMarker ∧ (b.length = 0 ∨ b.length = 20)

/-- **Deposit is notified iff** the caller is the GAS contract, `0 < amount ≤ 9000 GAS` and the data has an
accepted shape — for every caller, sender, amount and data. -/
theorem deposit_notified_iff (callerIsGas : Bool) (frm : Hash) (amt : Int) (d : Data) :
    (∃ rcv, onPayment callerIsGas frm amt d = some [.deposit frm amt rcv]) ↔
      callerIsGas = true ∧ 0 < amt ∧ amt ≤ 9000 * 100000000 ∧ AcceptedShape d := by
  unfold onPayment AcceptedShape
  cases hf : d.form with
  | none => simp
  | some b =>
    simp only [Option.some.injEq]
    constructor
    · rintro ⟨rcv, h⟩
      rcases onPaymentBody_some h with ⟨_, e⟩ | ⟨hm, hc, h1, h2, h3⟩
      · cases e
      · refine ⟨hc, h1, by rw [← maxGAS_is_9000_GAS]; exact h2, b, rfl, hm, ?_⟩
        rcases h3 with ⟨h4, _⟩ | ⟨h4, _⟩
        · exact Or.inr h4
        · exact Or.inl h4
    · rintro ⟨hc, h1, h2, b', rfl, hm, h3⟩
      have h2' : ¬ maxGAS < amt := by rw [maxGAS_is_9000_GAS]; omega
      have h1' : ¬ amt ≤ 0 := by omega
      subst hc
      rcases h3 with h4 | h4
      · refine ⟨frm, ?_⟩
        have : ¬ b.length = 20 := by omega
        simp [onPaymentBody, hm, h1', h2', h4]
      · exact ⟨b, by simp [onPaymentBody, hm, h1', h2', h4]⟩

/-- the callback has three outcomes only: abort, silent return, or one `Deposit` carrying the true sender and
the true amount; the receiver is the 20-byte form of the data or, for empty data, the sender -/
theorem payment_outcomes (callerIsGas : Bool) (frm : Hash) (amt : Int) (d : Data) :
    onPayment callerIsGas frm amt d = none ∨ onPayment callerIsGas frm amt d = some [] ∨
    ∃ rcv, onPayment callerIsGas frm amt d = some [.deposit frm amt rcv] ∧
      (rcv = frm ∨ (d.form = some rcv ∧ rcv.length = 20)) := by
  unfold onPayment
  cases hf : d.form with
  | none => exact Or.inl rfl
  | some b =>
    simp only
    cases ho : onPaymentBody callerIsGas frm amt b with
    | none => exact Or.inl rfl
    | some evs =>
      rcases onPaymentBody_some ho with ⟨_, e⟩ | ⟨_, _, _, _, ⟨h4, e⟩ | ⟨_, e⟩⟩
      · subst e; exact Or.inr (Or.inl rfl)
      · subst e; exact Or.inr (Or.inr ⟨b, rfl, Or.inr ⟨rfl, h4⟩⟩)
      · subst e; exact Or.inr (Or.inr ⟨frm, rfl, Or.inl rfl⟩)

/-- the ignore marker: silent acceptance, for every caller and every amount -/
theorem ignore_marker_is_silent (callerIsGas : Bool) (frm : Hash) (amt : Int) :
    onPayment callerIsGas frm amt (.bytes ignoreMarker) = some [] := onPayment_marker callerIsGas frm amt

/-- **Reported deposits match the GAS actually received.** A GAS transfer to the contract that HALTs with
`true` moved exactly `amount` from the (witnessing) sender to the contract, and every `Deposit` it notifies
carries that sender and that amount, with `0 < amount ≤ 9000 GAS`. A refused transfer moves and reports nothing. -/
theorem deposit_reports_gas_received (w : World) (s : State) (env : Env) (frm : Hash) (amt : Int) (d : Data) (out : Halt)
    (h : step w s env (.deposit frm amt d) = some out) :
    (out.ret = some true →
      env.wit.contains frm = true ∧ out.st.gas = s.gas.move frm w.self amt ∧
      ∀ f a r, Event.deposit f a r ∈ out.evs → f = frm ∧ a = amt ∧ 0 < amt ∧ amt ≤ 9000 * 100000000) ∧
    (out.ret ≠ some true → out.st.gas = s.gas ∧ out.evs = []) := by
  obtain ⟨_, hc⟩ := deposit_char h
  rcases hc with ⟨hr, hw, _, _, _, hg, e, he, hev⟩ | ⟨hr, hg, hev⟩
  · refine ⟨fun _ => ⟨hw, hg, ?_⟩, fun c => absurd hr c⟩
    intro f a r hm
    rw [hev] at hm
    rcases List.mem_cons.mp hm with c | hm'
    · cases c
    · rcases payment_outcomes true frm amt d with h0 | h0 | ⟨rcv, h0, _⟩
      · rw [h0] at he; cases he
      · rw [h0] at he; simp only [Option.some.injEq] at he; subst he; cases hm'
      · rw [h0] at he; simp only [Option.some.injEq] at he; subst he
        simp only [List.mem_singleton, Event.deposit.injEq] at hm'
        obtain ⟨rfl, rfl, rfl⟩ := hm'
        have := (deposit_notified_iff true f a d).mp ⟨r, h0⟩
        exact ⟨rfl, rfl, this.2.1, this.2.2.1⟩
  · exact ⟨(fun c => by rw [hr] at c; cases c), fun _ => ⟨hg, hev⟩⟩

/-- GAS only: the callback invoked by anything but the GAS contract never reports a deposit and changes
nothing (it HALTs only for the ignore marker, otherwise it aborts) -/
theorem foreign_caller_never_deposits (w : World) (s : State) (env : Env) (frm : Hash) (amt : Int) (d : Data) (out : Halt)
    (h : step w s env (.pay frm amt d) = some out) : out.st = s ∧ out.evs = [] :=
  ⟨(pay_char h).1, (pay_char h).2.1⟩

/-! ### withdraw, candidate registration, cheque -/

/-- **Withdraw with Notary**: the configured fee goes once from the (witnessing) user to Processing, nothing
else moves; `0 ≤ amount ≤ 9000`; one `Withdraw(user, amount·10⁸)` is notified. -/
theorem withdraw_charges_fee_once_with_notary (w : World) (s : State) (env : Env) (u : Hash) (a : Int) (out : Halt)
    (hnd : s.nd = false) (hproc : s.proc ≠ w.self) (h : step w s env (.withdraw u a) = some out) :
    ∃ fee, cfgInt s.cfg withdrawFeeKey = some fee ∧ env.wit.contains u = true ∧ 0 ≤ a ∧ a ≤ 9000 ∧
      0 ≤ fee ∧ fee ≤ s.gas u ∧ out.st.gas = s.gas.move u s.proc fee ∧
      out.evs = [.gasT u s.proc fee, .withdraw u (a * 100000000)] := by
  obtain ⟨_, fee, h1, _, h3, h4, h5, _, h7⟩ :=
    withdraw_char (fun _ => hproc) (fun c => by rw [hnd] at c; cases c) h
  obtain ⟨h8, h9, h10, h11⟩ := h7 hnd
  exact ⟨fee, h1, h3, h4, by rw [← maxWithdraw_is_9000]; exact h5, h8, h9, h10, h11⟩

/-- **Withdraw without Notary**: the configured fee goes once per stored Alphabet key, in stored order, from the
user to that key's account: one GAS transfer per key, then `Withdraw(user, amount·10⁸)`. The user's balance falls
by `fee · n` (plus what it gets back if it owns one of the keys), every other account rises by `fee` per key it owns. -/
theorem withdraw_charges_fee_once_per_alphabet_key (w : World) (s : State) (env : Env) (u : Hash) (a : Int) (out : Halt)
    (hnd : s.nd = true) (hkeys : ∀ k ∈ s.keys, w.acc k ≠ some w.self) (h : step w s env (.withdraw u a) = some out) :
    ∃ (fee : Int) (accts : List Hash), cfgInt s.cfg withdrawFeeKey = some fee ∧ env.wit.contains u = true ∧ 0 ≤ a ∧ a ≤ 9000 ∧
      s.keys.map w.acc = accts.map some ∧ accts.length = s.keys.length ∧
      out.evs = accts.map (fun x => Event.gasT u x fee) ++ [.withdraw u (a * 100000000)] ∧
      ∀ x, out.st.gas x =
        s.gas x - (if x = u then fee * (s.keys.length : Int) else 0) + fee * ((accts.count x : Nat) : Int) := by
  obtain ⟨_, fee, h1, _, h3, h4, h5, h6, _⟩ :=
    withdraw_char (fun c => by rw [hnd] at c; cases c) (fun _ => hkeys) h
  obtain ⟨accts, e1, e2, e3, _⟩ := h6 hnd
  have hlen : accts.length = s.keys.length := by
    have := congrArg List.length e1
    simpa using this.symm
  refine ⟨fee, accts, h1, h3, h4, by rw [← maxWithdraw_is_9000]; exact h5, e1, hlen, e3, ?_⟩
  intro x
  rw [e2, foldl_move_apply, hlen]

/-- **Candidate registration** charges the configured fee exactly once: from the (witnessing) candidate's own
account to the contract; no `Deposit` is reported for it; the candidate is listed. -/
theorem candidate_registration_charges_fee_once (w : World) (s : State) (env : Env) (k : Key) (out : Halt)
    (h : step w s env (.candAdd k) = some out) :
    ∃ a fee, w.acc k = some a ∧ env.wit.contains a = true ∧ s.cands.contains k = false ∧
      cfgInt s.cfg candidateFeeKey = some fee ∧ 0 ≤ fee ∧ fee ≤ s.gas a ∧
      out.st = { s with cands := k :: s.cands, gas := s.gas.move a w.self fee } ∧
      out.evs = [.gasT a w.self fee] :=
  candAdd_char h

/-- **Cheque**: once the Alphabet approves (the method body runs), exactly `amount` goes from the contract to the
user, once, and the contract could afford it; `Cheque(id, user, amount, lockAcc)` is notified once. An invocation
that only counts a vote moves nothing. -/
theorem cheque_pays_exact_amount_once (w : World) (s : State) (env : Env) (id : Bytes) (u : Hash) (a : Int) (l : Bytes)
    (out : Halt) (h : step w s env (.cheque id u a l) = some out) :
    (out.fired = true → 0 ≤ a ∧ a ≤ s.gas w.self ∧ out.st.gas = s.gas.move w.self u a ∧
      out.evs.filter Event.isDecision = [.cheque id u a l]) ∧
    (out.fired = false → out.st.gas = s.gas ∧ out.evs = []) := by
  obtain ⟨h1, h2⟩ := cheque_char h
  obtain ⟨h3, _⟩ := cheque_effect h
  exact ⟨fun hf => ⟨(h1 hf).1, (h1 hf).2.1, (h1 hf).2.2.2, (h3 hf).2⟩, h2⟩

/-! ### Notary mode: only the 2n/3+1 account is the Alphabet -/

/-- The n/2+1 committee-majority threshold and the 2n/3+1 Alphabet threshold (`Vote.threshold`) give the same
multisignature account for 1, 2 and 4 keys only; for every other size (3, 5, 6, 7, …) the majority needs strictly
fewer signatures, so its account is a different one. -/
theorem majority_threshold_below_alphabet_threshold (n : Nat) (hn : 0 < n) :
    n / 2 + 1 ≤ Vote.threshold n ∧ (n / 2 + 1 = Vote.threshold n ↔ n = 1 ∨ n = 2 ∨ n = 4) := by
  unfold Vote.threshold
  omega

/-- **A cheque is paid (and the contract configured) only under the Alphabet's 2n/3+1 account.** Notary mode: when the
transaction does not carry the witness of `w.cmt` — in particular when it carries exactly the n/2+1 majority account
`maj ≠ w.cmt`, alone or next to unrelated accounts — `cheque`, `setConfig` and `alphabetUpdate` FAULT, and so does a
candidate removal that carries neither the candidate's witness nor the 2n/3+1 account of the stored keys. -/
theorem notary_needs_the_alphabet_account (w : World) (s : State) (env : Env) (hnd : s.nd = false)
    (hno : env.wit.contains w.cmt = false) :
    (∀ id u a l, step w s env (.cheque id u a l) = none) ∧
    (∀ id k v, step w s env (.setConfig id k v) = none) ∧
    (∀ id ks na, step w s env (.alphabetUpdate id ks na) = none) ∧
    (∀ k idh a, w.acc k = some a → env.wit.contains a = false → env.wit.contains s.saddr = false →
      step w s env (.candRemove k idh) = none) := by
  have hg : ∀ id pre, alphabetGate w s env id pre = none := by
    intro id pre
    simp only [alphabetGate, hnd, hno, Bool.false_eq_true, if_false, Bool.not_false, if_true]
  refine ⟨?_, ?_, ?_, ?_⟩
  · intro id u a l
    simp only [step, hg]
  · intro id k v
    simp only [step, hg]
  · intro id ks na
    simp only [step, hg]
    split <;> rfl
  · intro k idh a hk ha hs
    simp only [step, hk, ha, hnd, hs]
    simp

/-- … and nothing moves: with exactly the majority account `maj` (and possibly an unrelated `user`) as signers, none of
them the Alphabet account, the invocation leaves the whole state — the GAS ledger, the configuration, the key list —
untouched and notifies nothing. -/
theorem majority_account_moves_nothing (w : World) (s : State) (h : Int) (maj : Hash) (users : List Hash) (op : Op)
    (hnd : s.nd = false) (hmaj : maj ≠ w.cmt) (husers : ∀ u ∈ users, u ≠ w.cmt)
    (hop : (∃ id u a l, op = .cheque id u a l) ∨ (∃ id k v, op = .setConfig id k v) ∨
      (∃ id ks na, op = .alphabetUpdate id ks na)) :
    invoke w s ⟨maj :: users, h⟩ op = (s, none) := by
  have hno : (maj :: users).contains w.cmt = false := by
    rw [Bool.eq_false_iff]
    intro hc
    rcases List.mem_cons.mp (List.contains_iff_mem.mp hc) with e | e
    · exact hmaj e.symm
    · exact husers _ e rfl
  obtain ⟨h1, h2, h3, _⟩ := notary_needs_the_alphabet_account w s ⟨maj :: users, h⟩ hnd hno
  apply invoke_fault
  rcases hop with ⟨id, u, a, l, rfl⟩ | ⟨id, k, v, rfl⟩ | ⟨id, ks, na, rfl⟩
  · exact h1 id u a l
  · exact h2 id k v
  · exact h3 id ks na

/-! non-vacuity: a committee of 6 (5-of-6 Alphabet account `8…`, 4-of-6 majority account `5…`): the majority account
pays nothing, the Alphabet account pays the cheque; thresholds for n = 3..7 -/
example : (List.range 8).map (fun n => (n / 2 + 1, Vote.threshold n)) =
    [(1, 1), (1, 1), (2, 2), (2, 3), (3, 3), (3, 4), (4, 5), (4, 5)] := by decide

/-- **Ledger identity over all histories.** After any sequence of invocations (any callers, methods, arguments;
FAULTs are rolled back), in either mode: the contract's GAS balance equals its initial balance plus everything
received (accepted deposits, candidate fees) minus the cheques paid. Hypotheses are the harness's account
hygiene: nobody signs for the contract, Processing and key accounts are not the contract itself. -/
theorem ledger_identity (w : World) (hist : List (Env × Op)) (s : State) (hproc : s.proc ≠ w.self)
    (hacc : ∀ k a, w.acc k = some a → a ≠ w.self) (hwit : ∀ e ∈ hist, e.1.wit.contains w.self = false) :
    (run w s hist).gas w.self = s.gas w.self + (flows w s hist).1 - (flows w s hist).2 :=
  ledger_identity_run w hist s hproc hacc hwit

/-- one invocation of the identity: the balance moves by exactly `received − paid` -/
theorem ledger_step (w : World) (s : State) (env : Env) (op : Op) (out : Halt) (hs : Sane w s env)
    (h : step w s env op = some out) :
    out.st.gas w.self = s.gas w.self + received w s op out - paid op out :=
  (step_ledger hs h).1

/-! non-vacuity: a deposit of 100, a candidate fee of 11, a cheque of 50 in Notary mode -/
def exW : World := ⟨List.replicate 20 9, List.replicate 20 8, [([1], List.replicate 20 11), ([2], List.replicate 20 12)]⟩
def exS : State :=
  { nd := false, keys := [[1]], saddr := List.replicate 20 7, proc := List.replicate 20 6,
    cfg := [(withdrawFeeKey, [7]), (candidateFeeKey, [11])], cands := [], ballots := [],
    gas := fun h => if h = List.replicate 20 11 then 1000 else if h = List.replicate 20 12 then 500 else 0 }
def exHist : List (Env × Op) :=
  [(⟨[List.replicate 20 11], 1⟩, .deposit (List.replicate 20 11) 100 .null),
   (⟨[List.replicate 20 12], 2⟩, .candAdd [2]),
   (⟨[List.replicate 20 11], 3⟩, .withdraw (List.replicate 20 11) 5),
   (⟨[List.replicate 20 8], 4⟩, .cheque [1] (List.replicate 20 11) 50 [2]),
   (⟨[List.replicate 20 11], 5⟩, .deposit (List.replicate 20 11) 0 .null)]
example : flows exW exS exHist = (111, 50) := by decide
example : ((invoke exW { exS with gas := fun h => if h = exW.self then 100 else 0 } ⟨[List.replicate 20 5], 4⟩
    (.cheque [1] (List.replicate 20 11) 50 [2])).1.gas exW.self,
  (invoke exW { exS with gas := fun h => if h = exW.self then 100 else 0 } ⟨[List.replicate 20 5, List.replicate 20 12], 4⟩
    (.cheque [1] (List.replicate 20 11) 50 [2])).2.isNone,
  (invoke exW { exS with gas := fun h => if h = exW.self then 100 else 0 } ⟨[List.replicate 20 8], 4⟩
    (.cheque [1] (List.replicate 20 11) 50 [2])).1.gas exW.self) = (100, true, 50) := by decide
example : (run exW exS exHist).gas exW.self = 61 := by decide
example : (run exW exS exHist).gas (List.replicate 20 11) = 1000 - 100 - 7 + 50 := by decide
example : (run exW exS exHist).gas exS.proc = 7 := by decide
example : onPayment true [1] 5 (.bytes (List.replicate 20 3)) = some [.deposit [1] 5 (List.replicate 20 3)] := by decide
example : onPayment true [1] (9000 * 100000000 + 1) .null = none := by decide
example : onPayment true [1] (9000 * 100000000) .null = some [.deposit [1] 900000000000 [1]] := by decide
example : onPayment false [1] 5 .null = none := by decide
example : onPayment true [1] 5 (.int 2903) = some [] := by decide

/-! ### Alphabet emit -/
open NeoFS.Alphabet

/-- **Emit can be triggered only by its own Alphabet node**: a HALTed `Emit()` of the instance with index `i`
carries the witness of committee key number `i`. -/
theorem emit_only_by_own_alphabet_node (c : Instance) (cm wit ir : List Hash) (g : Ledger) (r : Ledger × List Alphabet.Event)
    (h : emit c cm wit ir g = some r) :
    0 ≤ c.index ∧ c.index.toNat < cm.length ∧ wit.contains (cm.getD c.index.toNat []) = true := by
  unfold emit at h
  by_cases h1 : c.index < 0
  · simp [h1] at h
  · rw [if_neg h1] at h
    by_cases h2 : cm.length ≤ c.index.toNat
    · simp [h2] at h
    · rw [if_neg h2] at h
      cases hw : wit.contains (cm.getD c.index.toNat []) with
      | false => rw [hw] at h; simp at h
      | true => exact ⟨by omega, by omega, rfl⟩

/-- **The split**, for every balance `g ≥ 0` and every Inner Ring size `N`: `⌊g/2⌋` goes to Proxy and
`⌊(g − ⌊g/2⌋)·7/8/N⌋` to each of the N Inner Ring nodes (per occurrence in the list), the contract keeps the rest;
nobody else's balance changes. Emit FAULTs unless `⌊g/2⌋ > 0` and `N > 0`. -/
theorem emit_split (c : Instance) (cm wit ir : List Hash) (g g' : Ledger) (evs : List Alphabet.Event)
    (hG : 0 ≤ g c.self) (hproxy : c.proxy ≠ c.self) (hir : ∀ a ∈ ir, a ≠ c.self)
    (h : emit c cm wit ir g = some (g', evs)) :
    0 < g c.self / 2 ∧ 0 < ir.length ∧
    ∀ x, g' x = g x
      - (if x = c.self then g c.self / 2 + perNode (g c.self) ir.length * (ir.length : Int) else 0)
      + (if x = c.proxy then g c.self / 2 else 0)
      + perNode (g c.self) ir.length * ((ir.count x : Nat) : Int) := by
  obtain ⟨_, _, _, h4, h5, h6, _⟩ := emit_char hG hproxy hir h
  refine ⟨h4, h5, fun x => ?_⟩
  rw [h6, foldl_move_apply, Ledger.move_apply]
  by_cases hx : x = c.self
  · have : ¬ x = c.proxy := fun e => hproxy (e ▸ hx)
    simp [hx, this]
    omega
  · simp [hx]

/-- the per-node share is the property's formula -/
theorem perNode_formula (G : Int) (N : Nat) : perNode G N = (G - G / 2) * 7 / 8 / (N : Int) := rfl

/-- **The rest the contract keeps is never negative** (no GAS is created) -/
theorem emit_keeps_nonnegative_rest (G : Int) (N : Nat) (hG : 0 ≤ G) (hN : 0 < N) :
    0 ≤ G - G / 2 - perNode G N * (N : Int) ∧ 0 ≤ perNode G N ∧ 0 ≤ G / 2 := by
  obtain ⟨h1, h2⟩ := perNode_bounds G N hG hN
  refine ⟨by omega, h1, by omega⟩

/-- **No GAS is created or lost**: over any duplicate-free set of accounts that contains the contract, Proxy and the
Inner Ring nodes, the total is the same before and after `Emit()`. -/
theorem emit_conserves_gas (c : Instance) (cm wit ir : List Hash) (g g' : Ledger) (evs : List Alphabet.Event)
    (hG : 0 ≤ g c.self) (hproxy : c.proxy ≠ c.self) (hir : ∀ a ∈ ir, a ≠ c.self)
    (h : emit c cm wit ir g = some (g', evs))
    (L : List Hash) (hn : L.Nodup) (hs : c.self ∈ L) (hp : c.proxy ∈ L) (hi : ∀ a ∈ ir, a ∈ L) :
    total L g' = total L g := by
  obtain ⟨_, _, _, _, _, h6, _⟩ := emit_char hG hproxy hir h
  rw [h6, total_foldl_move L c.self _ ir _ hn hs hi, total_move L g c.self c.proxy _ hn hs hp]

/-- the notifications of a HALTed `Emit()`: the NEO self-transfer, the transfer to Proxy, one transfer per node -/
theorem emit_transfers (c : Instance) (cm wit ir : List Hash) (g g' : Ledger) (evs : List Alphabet.Event)
    (hG : 0 ≤ g c.self) (hproxy : c.proxy ≠ c.self) (hir : ∀ a ∈ ir, a ≠ c.self)
    (h : emit c cm wit ir g = some (g', evs)) :
    evs = .neoT c.self c.self 0 :: .gasT c.self c.proxy (g c.self / 2) ::
      (if perNode (g c.self) ir.length ≠ 0 then ir.map (fun a => Alphabet.Event.gasT c.self a (perNode (g c.self) ir.length)) else []) :=
  (emit_char hG hproxy hir h).2.2.2.2.2.2

/-! non-vacuity: g = 1000, three nodes: 500 to Proxy, 145 each, 65 stay -/
def exInst : Instance := ⟨[1], 0, [2]⟩
def exG : Ledger := fun h => if h = [1] then 1000 else 0
example : (emit exInst [[10]] [[10]] [[3], [4], [5]] exG).map (fun r => ([[1], [2], [3], [4], [5]].map r.1, r.2.length)) =
    some ([65, 500, 145, 145, 145], 5) := by decide
example : emit exInst [[10]] [[11]] [[3], [4], [5]] exG = none := by decide
example : emit exInst [[10]] [[10]] [] exG = none := by decide
example : perNode 1000 3 = 145 := by decide
example : perNode 1001 3 = 146 := by decide
example : perNode 17 3 = 2 := by decide

/-! ### payment callbacks -/

/-- the Alphabet contract accepts GAS and NEO only -/
theorem alphabet_accepts_only_gas_and_neo (c : Caller) : alphabetOnPayment c = true ↔ c = .gas ∨ c = .neo := by
  cases c <;> simp [alphabetOnPayment]
/-- the Proxy contract accepts GAS only -/
theorem proxy_accepts_only_gas (c : Caller) : proxyOnPayment c = true ↔ c = .gas := by
  cases c <;> simp [proxyOnPayment]
/-- the Processing contract accepts GAS only -/
theorem processing_accepts_only_gas (c : Caller) : processingOnPayment c = true ↔ c = .gas := by
  cases c <;> simp [processingOnPayment]

/-- a payment callback of Alphabet, Proxy or Processing invoked by anything but a token contract (the entry
script, another contract) aborts -/
theorem callbacks_abort_for_foreign_callers (w : Gov) (s : GState) (wit : List Hash) (to : Hash)
    (hto : w.insts.any (fun i => i.self == to) = true ∨ to = w.proxy ∨ to = w.proc) :
    gstep w s wit (.call to) = none := by
  simp only [gstep]
  have : w.onPayment to .other = false := by
    unfold Gov.onPayment
    by_cases h1 : w.insts.any (fun i => i.self == to) = true
    · rw [if_pos h1]; decide
    · rw [if_neg h1]
      by_cases h2 : (to == w.proxy) = true
      · rw [if_pos h2]; decide
      · rw [if_neg h2]
        by_cases h3 : (to == w.proc) = true
        · rw [if_pos h3]; decide
        · exfalso
          rcases hto with h | h | h
          · exact h1 h
          · exact h2 (by simp [h])
          · exact h3 (by simp [h])
  rw [this]; simp

/-- Proxy and Processing take no NEO: a NEO transfer to them never HALTs with `true` (it is refused or FAULTs) -/
theorem proxy_and_processing_refuse_neo (w : Gov) (s : GState) (wit : List Hash) (frm to : Hash) (amt : Int) (out : GHalt)
    (hinst : w.insts.any (fun i => i.self == to) = false) (hto : to = w.proxy ∨ to = w.proc)
    (h : gstep w s wit (.neo frm to amt) = some out) : out.ret = some false ∧ out.st.neo = s.neo := by
  simp only [gstep] at h
  have hrej : (w.isContract to && !w.onPayment to .neo) = true := by
    have h1 : w.isContract to = true := by
      unfold Gov.isContract
      rcases hto with e | e <;> simp [e]
    have h2 : w.onPayment to .neo = false := by
      unfold Gov.onPayment
      rw [hinst]
      simp only [Bool.false_eq_true, if_false]
      by_cases h3 : (to == w.proxy) = true
      · rw [if_pos h3]; decide
      · rw [if_neg h3]
        by_cases h4 : (to == w.proc) = true
        · rw [if_pos h4]; decide
        · exfalso
          rcases hto with e | e
          · exact h3 (by simp [e])
          · exact h4 (by simp [e])
    simp [h1, h2]
  cases hn : nativeTransfer w .neo s.neo (wit.contains frm) frm to amt with
  | none => rw [hn] at h; cases h
  | some p =>
    obtain ⟨ok, g⟩ := p
    rw [hn] at h
    cases ok with
    | false => simp only [Option.some.injEq] at h; subst h; exact ⟨rfl, rfl⟩
    | true =>
      exfalso
      unfold nativeTransfer at hn
      split at hn
      · cases hn
      · split at hn
        · simp at hn
        · split at hn
          · simp at hn
          · split at hn
            · simp at hn
            · first
                | cases hn
                | (split at hn
                   · cases hn
                   · rename_i hc; exact hc hrej)

/-! ## Frame of the model, regenerated: which methods can move GAS or NEO

Checked by kernel evaluation over `NeoFS.Generated.Footprint.table` (grouped by contract: `contracts`), the MAY-WRITE footprint recomputed from the Go sources on
every run (`extract footprint`; `Model/Footprint.lean`): rows of kind `call` named `transfer` are the calls of `gas.Transfer` /
`neo.Transfer` (and of any contract's `transfer` with write permission) reachable from the method. -/
section Footprint
open NeoFS.Footprint NeoFS.Generated.Footprint

/-- GAS can leave or be moved by the NeoFS contract only in `withdraw` (fee), `innerRingCandidateAdd` (fee) and `cheque` (payout);
by an Alphabet contract only in `emit` (and when deployment forwards its GAS); Proxy and Processing never transfer anything. The
deposit/withdraw/cheque notifications come from their methods only. -/
theorem token_transfers_only_from_the_documented_methods :
    namedOnlyBy contracts "neofs" "call" "transfer" ["withdraw", "innerRingCandidateAdd", "cheque"] = true ∧
    namedOnlyBy contracts "alphabet" "call" "transfer" ["emit", "_deploy"] = true ∧
    namedOnlyBy contracts "proxy" "call" "transfer" [] = true ∧ namedOnlyBy contracts "processing" "call" "transfer" [] = true ∧
    namedOnlyBy contracts "neofs" "notify" "Deposit" ["onNEP17Payment"] = true ∧
    namedOnlyBy contracts "neofs" "notify" "Withdraw" ["withdraw"] = true ∧
    namedOnlyBy contracts "neofs" "notify" "Cheque" ["cheque"] = true := by decide +kernel

example : named contracts "neofs" "cheque" "call" "transfer" = true ∧ named contracts "neofs" "withdraw" "call" "transfer" = true ∧
    named contracts "alphabet" "emit" "call" "transfer" = true ∧ named contracts "neofs" "onNEP17Payment" "notify" "Deposit" = true := by
  decide +kernel
example : namedOnlyBy (withRow contracts ⟨"neofs", "bind", "call", "gas.transfer", "transfer", [], false⟩)
    "neofs" "call" "transfer" ["withdraw", "innerRingCandidateAdd", "cheque"] = false := by decide +kernel
end Footprint

end NeoFS.Props.C19
