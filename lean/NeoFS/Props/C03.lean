import NeoFS.Generated.AccessIR
import NeoFS.Model.AccessExpect
import NeoFS.Lemmas.Access
import NeoFS.Props.C03Defs
import NeoFS.Lemmas.Threshold
import NeoFS.Generated.Consts
import NeoFS.Generated.Footprint
/-! # C03 — every mutating contract method is inert without its required witnesses

`NeoFS.Generated.Access.methods` is regenerated from the Go sources on every run (one IR program per exported
function of the eleven contracts). The theorems say, for every method in that table and every valuation of its
witness atoms that does not meet the documented requirement (`NeoFS.Access.Expect.req`): every execution — for all
arguments, all storage contents, all loop counts — either FAULTs (and is rolled back) or performs no effect.
The abstraction (`Exec`) and its soundness theorem are in `Model/Access.lean` / `Lemmas/Access.lean`; the
translator is cross-checked by the dynamic product of `harness/access`. -/
namespace NeoFS.Props.C03
open NeoFS.Access NeoFS.Access.Expect NeoFS.Generated.Access

/-- Every method of every contract: without the documented witnesses it is inert (decided by `inertB`). -/
theorem table_inert : methods.all methodOK = true := by decide +kernel

/-- Semantic reading of `table_inert` through the soundness theorem: for every method whose requirement is a
witness formula `f`, every valuation (bit mask over its atoms) violating `f`, and every concrete execution of
its IR program started without effects — the execution ends in a FAULT or has performed no effect. -/
theorem unwitnessed_calls_are_inert (m : MethodIR) (hm : m ∈ methods) (f : Holds → Bool)
    (hreq : req m.contract m.method = .needs f) (mask : Nat) (hmask : mask < 2 ^ m.atoms.length)
    (hno : f (holdsOf m.atoms mask) = false) : Inert (maskVal mask) m.prog := by
  have h := List.all_eq_true.mp table_inert m hm
  unfold methodOK at h
  rw [hreq] at h
  have h2 := List.all_eq_true.mp h mask (List.mem_range.mpr hmask)
  rw [hno, Bool.false_or] at h2
  exact inertB_sound _ _ h2

/-- every program of the table mentions only atoms of its own atom table -/
theorem table_wellformed : methods.all atomsWF = true := by decide +kernel

/-- The same for ARBITRARY valuations of the witness atoms (not only bit masks): whenever the witnesses that hold do
not meet the documented requirement, every execution FAULTs or performs no effect. -/
theorem unwitnessed_calls_are_inert_all_valuations (m : MethodIR) (hm : m ∈ methods) (f : Holds → Bool)
    (hreq : req m.contract m.method = .needs f) (v : Val) (hno : f (holdsV m.atoms v) = false) :
    Inert v m.prog := by
  have hwf : ∀ w ∈ atomsIn m.prog, w < m.atoms.length := by
    have h := List.all_eq_true.mp table_wellformed m hm
    intro w hw
    have := List.all_eq_true.mp h w hw
    simpa using this
  have h := List.all_eq_true.mp table_inert m hm
  unfold methodOK at h
  rw [hreq] at h
  have h2 := List.all_eq_true.mp h (maskOf v m.atoms.length) (List.mem_range.mpr (maskOf_lt v _))
  rw [holdsOf_maskOf, hno, Bool.false_or] at h2
  apply inertB_sound
  unfold inertB at h2 ⊢
  rw [outs_maskOf v m.prog m.atoms.length hwf false]
  exact h2

/-- Methods without a listed requirement: with no witness at all they are inert. -/
theorem unguarded_default_inert (m : MethodIR) (hm : m ∈ methods)
    (hreq : req m.contract m.method = .anyGuard) : Inert (maskVal 0) m.prog := by
  have h := List.all_eq_true.mp table_inert m hm
  unfold methodOK at h
  rw [hreq] at h
  exact inertB_sound _ _ h

/-- The requirements are not vacuous: with all atoms granted, every guarded method can take effect. -/
theorem table_live : methods.all methodLive = true := by decide +kernel

/-- Methods declared safe contain no effect site at all (the VM additionally enforces read-only call flags). -/
theorem safe_methods_pure : methods.all (fun m => !m.safe || syntacticallyPure m.prog) = true := by decide +kernel

/-- `verify` of Proxy / Alphabet / Processing answers true only under an Alphabet multi-signature witness
(2n/3+1; for Proxy and Alphabet also the n/2+1 one; Processing: the address stored in the NeoFS contract). -/
theorem verify_needs_alphabet : methods.all verifyOK = true := by decide +kernel

/-- The threshold expressions of the sources (regenerated from the Go AST as `TExpr` values: the first argument of the
`CreateMultisigAccount` call of `common.Multiaddress`, for the Alphabet and for the committee branch, and of
`nns.checkCommittee`) are accepted by the kernel-evaluated decision procedure `TExpr.computes` against `n*2/3+1` and
`n/2+1`. Not a comparison of texts: any arithmetically equivalent way of writing them is accepted, anything else is not. -/
theorem threshold_expressions_decided :
    (multiaddressDefaultThresholdE.map (TExpr.computes · TExpr.specAlphabet)) = some true ∧
    (multiaddressCommitteeThresholdE.map (TExpr.computes · TExpr.specMajority)) = some true ∧
    (nnsCommitteeThresholdE.map (TExpr.computes · TExpr.specMajority)) = some true ∧
    committeeMultisigThresholds.all (fun o => o.map (TExpr.computes · TExpr.specMajority) == some true) = true ∧
    otherMultisigSites.all (fun p => p.2.map (TExpr.computes · TExpr.specAlphabet) == some true) = true := by
  decide +kernel

/-- … and therefore, by the soundness theorem of the procedure, for EVERY number of keys n ≥ 1 (no bound) the source
expressions evaluate under Go semantics (truncating division, fault on a zero divisor) to 2n/3+1 (Alphabet account) and
n/2+1 (committee accounts of `common` and of NNS). -/
theorem threshold_expressions (n : Nat) (h : 1 ≤ n) :
    (multiaddressDefaultThresholdE.bind (TExpr.evalGo · n)) = some ((n * 2 / 3 + 1 : Nat) : Int) ∧
    (multiaddressCommitteeThresholdE.bind (TExpr.evalGo · n)) = some ((n / 2 + 1 : Nat) : Int) ∧
    (nnsCommitteeThresholdE.bind (TExpr.evalGo · n)) = some ((n / 2 + 1 : Nat) : Int) ∧
    -- every multi-signature account the translator named `committee` because it is built in place over the committee keys
    (∀ o ∈ committeeMultisigThresholds, (o.bind (TExpr.evalGo · n)) = some ((n / 2 + 1 : Nat) : Int)) ∧
    -- every other function of the contracts that builds a multi-signature account from a key list (`neofs.multiaddress`)
    (∀ p ∈ otherMultisigSites, (p.2.bind (TExpr.evalGo · n)) = some ((n * 2 / 3 + 1 : Nat) : Int)) := by
  obtain ⟨h1, h2, h3, h4, h5⟩ := threshold_expressions_decided
  refine ⟨?_, ?_, ?_, ?_, ?_⟩
  · cases he : multiaddressDefaultThresholdE with
    | none => simp [he] at h1
    | some e => simp [he] at h1; simp [TExpr.computes_sound h1 n h, TExpr.eval_specAlphabet]
  · cases he : multiaddressCommitteeThresholdE with
    | none => simp [he] at h2
    | some e => simp [he] at h2; simp [TExpr.computes_sound h2 n h, TExpr.eval_specMajority]
  · cases he : nnsCommitteeThresholdE with
    | none => simp [he] at h3
    | some e => simp [he] at h3; simp [TExpr.computes_sound h3 n h, TExpr.eval_specMajority]
  · intro o ho
    rw [List.all_eq_true] at h4
    have := h4 o ho
    cases o with
    | none => simp at this
    | some e => simp at this; simp [TExpr.computes_sound this n h, TExpr.eval_specMajority]
  · intro p hp
    rw [List.all_eq_true] at h5
    have := h5 p hp
    cases hq : p.2 with
    | none => simp [hq] at this
    | some e => simp [hq] at this; simp [TExpr.computes_sound this n h, TExpr.eval_specAlphabet]

-- the procedure is not vacuous: equivalent spellings are accepted, different thresholds are refused
example : TExpr.computes (.sub .var (.div (.sub .var (.lit 1)) (.lit 3))) TExpr.specAlphabet = true := by decide +kernel
example : TExpr.computes (.div (.add .var (.lit 1)) (.lit 2)) TExpr.specMajority = false := by decide +kernel   -- (l+1)/2
example : TExpr.computes (.add (.div (.mul .var (.lit 2)) (.lit 3)) (.lit 1)) TExpr.specMajority = false := by decide +kernel
example : TExpr.computes (.div (.lit 6) (.sub .var (.lit 2))) TExpr.specMajority = false := by decide +kernel   -- non-literal divisor

/-- 2n/3+1 and n/2+1 are proper thresholds for every committee size and equal neo-go's
`n-(n-1)/3` (validators / Alphabet) and `n-(n-1)/2` (committee majority); NNS's `l-(l-1)/2` is the latter. -/
theorem thresholds (n : Nat) (h : 1 ≤ n) :
    1 ≤ n * 2 / 3 + 1 ∧ n * 2 / 3 + 1 ≤ n ∧ n * 2 / 3 + 1 = n - (n - 1) / 3 ∧
    1 ≤ n / 2 + 1 ∧ n / 2 + 1 ≤ n ∧ n / 2 + 1 = n - (n - 1) / 2 ∧
    n / 2 + 1 ≤ n * 2 / 3 + 1 := by omega

/-- the two accounts differ exactly for committee sizes n ≥ 3 with n ≠ 4 (so 1, 3 and 7 exercise both cases) -/
theorem thresholds_differ (n : Nat) (h : 1 ≤ n) : (n / 2 + 1 < n * 2 / 3 + 1) ↔ (n = 3 ∨ 5 ≤ n) := by omega

-- non-vacuity: the table is populated and contains guarded methods with several atoms
example : methods.any (fun m => m.contract == "netmap" && m.method == "addPeer" && m.atoms.length == 2) = true := by decide
example : 60 ≤ (methods.filter (fun m => !m.safe && !syntacticallyPure m.prog)).length := by decide +kernel
-- the F6 shape (`neofs.setConfig` guarded by a data test only) would be rejected by the decision procedure
example : inertB (maskVal 0) (.seq (.choice .fault .skip) (.seq (.choice .ret .skip) .effect)) = false := by decide

/-! ## Safe methods have an empty footprint (second, independent reading of the sources)

`NeoFS.Generated.Footprint.table` is computed by another extractor than the IR above (`extract footprint`: may-write closure
over the static call graph, no control flow). A method the manifest declares `safe` (flag taken from `config.yml` by the IR
extractor) must have NO row of kind put / delete / notify / call there: no storage write, no notification, no call that is
allowed to write or notify, through any helper, on any path. Read-only calls (`callro`) are allowed. -/
section Footprint

/-- Every method of the IR table is a method the footprint extractor knows, and every method marked `safe` in the manifest has an
empty footprint. -/
theorem safe_methods_have_empty_footprint :
    methods.all (fun m => (NeoFS.Footprint.methodsOf NeoFS.Generated.Footprint.methods m.contract).contains m.method &&
      (!m.safe || NeoFS.Footprint.noEffect NeoFS.Generated.Footprint.contracts m.contract m.method)) = true := by decide +kernel

/-- … and conversely: the two extractors see the same exported methods of every contract. -/
theorem footprint_and_ir_tables_list_the_same_methods :
    NeoFS.Generated.Footprint.methods.all (fun p =>
      let names := (methods.filter (fun m => m.contract == p.1)).map (·.method)
      p.2.all names.contains) = true := by decide +kernel

/-- The footprint table is well grouped: every row carries the label of its group and labels are distinct — so each per-contract
statement of the other property files (`Props/C01, C04, C06 … C20`, which look at one group) is a statement about ALL rows of
that contract in the whole table (`NeoFS.Footprint.rows_complete`, `onlyBy_sound`, `writesWithin_sound`). -/
theorem footprint_table_grouped_by_contract : NeoFS.Footprint.Grouped NeoFS.Generated.Footprint.contracts = true := by
  decide +kernel

-- non-vacuity: there are safe methods, and non-safe methods do have rows
example : 40 ≤ (methods.filter (·.safe)).length := by decide +kernel
example : NeoFS.Footprint.noEffect NeoFS.Generated.Footprint.contracts "balance" "transfer" = false := by decide +kernel
example : NeoFS.Footprint.noEffect NeoFS.Generated.Footprint.contracts "balance" "balanceOf" = true := by decide +kernel
end Footprint

end NeoFS.Props.C03
