import NeoFS.Generated.AccessIR
import NeoFS.Model.AccessExpect
import NeoFS.Lemmas.Access
/-! Definitions used by the C03 property theorems (decision functions run on the regenerated method table). -/
namespace NeoFS.Props.C03
open NeoFS.Access NeoFS.Access.Expect NeoFS.Generated.Access

/-- atoms of a method that hold under the bit mask -/
def holdsOf (atoms : List String) (mask : Nat) : Holds :=
  fun p => (atoms.zipIdx).any (fun ai => p ai.1 && mask.testBit ai.2)

/-- the decision run on every table entry -/
def methodOK (m : MethodIR) : Bool :=
  match req m.contract m.method with
  | .exempt _ => true
  | .needs f => (List.range (2 ^ m.atoms.length)).all fun mask =>
      f (holdsOf m.atoms mask) || inertB (maskVal mask) m.prog
  | .anyGuard => inertB (maskVal 0) m.prog

def syntacticallyPure : Stmt → Bool
  | .effect => false
  | .seq a b | .choice a b | .try a b | .ifW _ a b => syntacticallyPure a && syntacticallyPure b
  | .loop a | .scope a => syntacticallyPure a
  | .callIf c a b => syntacticallyPure c && syntacticallyPure a && syntacticallyPure b
  | _ => true

/-- … and that with all its atoms granted an effect is reachable at all (the requirement is not vacuous) -/
def methodLive (m : MethodIR) : Bool :=
  match req m.contract m.method with
  | .needs _ => syntacticallyPure m.prog || canEffectB (maskVal (2 ^ m.atoms.length - 1)) m.prog
  | _ => true

def verifyOK (m : MethodIR) : Bool :=
  if m.method == "verify" then
    (List.range (2 ^ m.atoms.length)).all fun mask =>
      verifyReq m.contract (holdsOf m.atoms mask) ||
        (outs (maskVal mask) m.prog false).all (fun r => r.1 != .retT)
  else true


end NeoFS.Props.C03
