import NeoFS.Generated.AccessIR
import NeoFS.Model.AccessExpect
import NeoFS.Lemmas.Access
import NeoFS.Lemmas.AccessVal
/-! Definitions used by the C03 property theorems (decision functions run on the regenerated method table). -/
namespace NeoFS.Props.C03
open NeoFS.Access NeoFS.Access.Expect NeoFS.Generated.Access

/-- atoms of a method that hold under the bit mask -/
def holdsOf (atoms : List String) (mask : Nat) : Holds :=
  fun p => (atoms.zipIdx).any (fun ai => p ai.1 && mask.testBit ai.2)

/-- the decision run on every table entry -/
def methodOK (m : MethodIR) : Bool :=
  match req m.contract m.method with
  | .exempt _ => true
  | .needs f => (List.range (2 ^ m.atoms.length)).all fun mask =>
      f (holdsOf m.atoms mask) || inertB (maskVal mask) m.prog
  | .anyGuard => inertB (maskVal 0) m.prog

def syntacticallyPure : Stmt → Bool
  | .effect => false
  | .seq a b | .choice a b | .try a b | .ifW _ a b => syntacticallyPure a && syntacticallyPure b
  | .loop a | .scope a => syntacticallyPure a
  | .callIf c a b => syntacticallyPure c && syntacticallyPure a && syntacticallyPure b
  | _ => true

/-- … and that with all its atoms granted an effect is reachable at all (the requirement is not vacuous) -/
def methodLive (m : MethodIR) : Bool :=
  match req m.contract m.method with
  | .needs _ => syntacticallyPure m.prog || canEffectB (maskVal (2 ^ m.atoms.length - 1)) m.prog
  | _ => true

def verifyOK (m : MethodIR) : Bool :=
  if m.method == "verify" then
    (List.range (2 ^ m.atoms.length)).all fun mask =>
      verifyReq m.contract (holdsOf m.atoms mask) ||
        (outs (maskVal mask) m.prog false).all (fun r => r.1 != .retT)
  else true


/-- atoms of a method that hold under an arbitrary valuation of atom indices -/
def holdsV (atoms : List String) (v : Val) : Holds :=
  fun p => (atoms.zipIdx).any (fun ai => p ai.1 && v ai.2)

/-- every atom index used by the program is an entry of the method's atom table -/
def atomsWF (m : MethodIR) : Bool := (atomsIn m.prog).all (fun w => decide (w < m.atoms.length))

theorem zipIdx_snd_lt {α : Type} (l : List α) (k : Nat) (ai : α × Nat) (h : ai ∈ l.zipIdx k) : ai.2 < k + l.length := by
  induction l generalizing k with
  | nil => simp at h
  | cons x xs ih =>
    simp only [List.zipIdx_cons, List.mem_cons] at h
    rcases h with rfl | h
    · simp
    · have := ih (k + 1) h
      simp only [List.length_cons]; omega

theorem holdsOf_maskOf (atoms : List String) (v : Val) :
    holdsOf atoms (maskOf v atoms.length) = holdsV atoms v := by
  funext p
  unfold holdsOf holdsV
  rw [Bool.eq_iff_iff]
  simp only [List.any_eq_true]
  constructor
  · rintro ⟨ai, hai, h⟩
    have hlt : ai.2 < atoms.length := by simpa using zipIdx_snd_lt atoms 0 ai hai
    rw [testBit_maskOf v atoms.length ai.2 hlt] at h
    exact ⟨ai, hai, h⟩
  · rintro ⟨ai, hai, h⟩
    have hlt : ai.2 < atoms.length := by simpa using zipIdx_snd_lt atoms 0 ai hai
    refine ⟨ai, hai, ?_⟩
    rw [testBit_maskOf v atoms.length ai.2 hlt]
    exact h

end NeoFS.Props.C03
