import NeoFS.Generated.Consts
import NeoFS.Generated.DeployFacts
import NeoFS.Lemmas.DeployHelpers
import NeoFS.Lemmas.NotaryBootstrapProgress
import NeoFS.Model.DeployRoles
/-! # C13 — committee-run deployment

Property theorems only, in two parts:

* layer 1, the pure helpers of `deploy/*.go` (model `NeoFS/Model/DeployHelpers.lean`, lemmas
  `NeoFS/Lemmas/DeployHelpers.lean`);
* layer 2, the Notary bootstrap as a message-level protocol model (model
  `NeoFS/Model/NotaryBootstrap.lean`, lemmas `NeoFS/Lemmas/NotaryBootstrap*.lean`), with the index maps
  of the leader's collection loop regenerated from `deploy/notary.go` (`Generated/DeployFacts.lean`).

The orchestration itself (layer 3) is validated by execution (harness/mininode), not proved.

Every theorem here holds for ALL inputs of the helper: every `uint64` amount (indeed every natural
number) and every receiver count, every `uint32` height, every well-formed shared-data value, every
byte string. -/
namespace NeoFS.Props.C13
open NeoFS NeoFS.DeployHelpers

/-! ## bridge lemmas: regenerated constants = literals of the property text -/

theorem span_is_100 : Generated.deploy_neoFSRuntimeTransactionModifier_span = 100 := rfl
theorem shared_len_is_28 : Generated.deploy_sharedTransactionDataLen = 28 := rfl
theorem checksum_len_is_4 : Generated.deploy_sharedTransactionDataChecksumLen = 4 := rfl
theorem alphabet_fmt : Generated.deploy_domainAlphabetFmt = "alphabet%d" := rfl
theorem notary_tx_domain : Generated.deploy_domainDesignateNotaryTx =
    Generated.deploy_domainDesignateNotaryPrefix ++ "tx" ++ "." ++ Generated.deploy_domainBootstrap := by decide

/-! ## divideFundsEvenly: the fund arithmetic is exact -/

/-- Exact result for every amount and every positive receiver count: receivers `0 … k−1` are called in
this order, receiver `i` is handed `⌊a/n⌋ + (1 if i < a mod n)`, and `k = n` unless `⌊a/n⌋ = 0`, in
which case only the `a mod n = a` receivers that get a unit are called. -/
theorem divide_exact (a n : Nat) (hn : 0 < n) :
    divideFundsEvenly a (n : Int) =
      some ((List.range (receivers a n)).map (fun i => (i, shareOf a n i))) :=
  DeployHelpers.divide_exact a n hn

/-- The shares sum to the input. -/
theorem shares_sum_to_input (a n : Nat) (hn : 0 < n) (l : List (Nat × Nat))
    (h : divideFundsEvenly a (n : Int) = some l) : sumShares l = a :=
  divide_sum a n hn l h

/-- Any two receivers' shares differ by at most one — including the receivers that are not called at
all (share 0): `shareOf` is the share of EVERY index `i < n`. -/
theorem shares_differ_by_at_most_one (a n i j : Nat) : shareOf a n i ≤ shareOf a n j + 1 := by
  unfold shareOf; split <;> split <;> omega

/-- A receiver that is not called would have received nothing: its share is 0. -/
theorem uncalled_share_is_zero (a n i : Nat) (hi : receivers a n ≤ i) (hin : i < n) :
    shareOf a n i = 0 := by
  unfold receivers at hi
  unfold shareOf
  split at hi
  · rename_i hq
    rw [hq, if_neg (by omega)]
  · omega

/-- Zero shares are skipped: whoever is called gets a positive amount. -/
theorem no_zero_share (a n : Nat) (hn : 0 < n) (l : List (Nat × Nat))
    (h : divideFundsEvenly a (n : Int) = some l) : ∀ p ∈ l, 0 < p.2 := by
  rw [DeployHelpers.divide_exact a n hn] at h
  simp only [Option.some.injEq] at h
  subst h
  intro p hp
  simp only [List.mem_map, List.mem_range] at hp
  obtain ⟨i, hi, rfl⟩ := hp
  simp only [shareOf]
  unfold receivers at hi
  split at hi
  · rw [if_pos hi]; omega
  · rename_i hq
    have : 0 < a / n := Nat.pos_of_ne_zero hq
    omega

/-- Nobody is called twice, nobody outside `0 … n−1`, and never more than `n` calls. -/
theorem receivers_le (a n : Nat) (hn : 0 < n) : receivers a n ≤ n := by
  unfold receivers; split
  · exact Nat.le_of_lt (Nat.mod_lt a hn)
  · exact Nat.le_refl n

/-- No `uint64` overflow: every share is at most the input. -/
theorem share_le_input (a n i : Nat) (hn : 0 < n) (hi : i < receivers a n) : shareOf a n i ≤ a := by
  have hd := Nat.div_add_mod a n
  have hm := Nat.mod_lt a hn
  have hle : a / n ≤ n * (a / n) := Nat.le_mul_of_pos_left _ hn
  unfold receivers at hi
  unfold shareOf
  split at hi
  · rename_i hq; rw [if_pos hi, hq]; omega
  · split <;> omega

/-- `n = 0` is the only rejected receiver count (run-time panic); a negative `int` is not rejected,
it makes no call at all. -/
theorem rejected_iff_zero (a : Nat) (n : Int) : divideFundsEvenly a n = none ↔ n = 0 := by
  unfold divideFundsEvenly
  constructor
  · intro h
    split at h
    · assumption
    · split at h <;> simp at h
  · intro h; rw [if_pos h]

theorem negative_count_calls_nobody (a : Nat) (n : Int) (h : n < 0) : divideFundsEvenly a n = some [] := by
  unfold divideFundsEvenly
  rw [if_neg (by omega), if_pos h]

example : divideFundsEvenly 16 3 = some [(0, 6), (1, 5), (2, 5)] := by decide
example : divideFundsEvenly 4 5 = some [(0, 1), (1, 1), (2, 1), (3, 1)] := by decide
example : divideFundsEvenly 0 5 = some [] := by decide
example : divideFundsEvenly 18446744073709551615 7 = some
    [(0, 2635249153387078803), (1, 2635249153387078802), (2, 2635249153387078802), (3, 2635249153387078802),
     (4, 2635249153387078802), (5, 2635249153387078802), (6, 2635249153387078802)] := by decide
example : divideFundsEvenly 5 0 = none := by decide
example : receivers 4 5 = 4 ∧ shareOf 4 5 4 = 0 := by decide

/-! ## neoFSRuntimeTransactionModifier: the deterministic nonce / ValidUntilBlock window -/

/-- For every `uint32` height: `nonce = 100·⌊h/100⌋` (no wrap-around in the multiplication). -/
theorem window_nonce (h : UInt32) : (window h).1.toNat = 100 * (h.toNat / 100) :=
  DeployHelpers.window_nonce h

/-- `100·N ≤ height < 100·(N+1)` for the `N` the nonce is built from. -/
theorem height_in_window (h : UInt32) :
    (window h).1.toNat ≤ h.toNat ∧ h.toNat < (window h).1.toNat + 100 := by
  rw [DeployHelpers.window_nonce]; omega

/-- `ValidUntilBlock = 100·(N+1)`, saturated at `MaxUint32` exactly when that does not fit into
`uint32` (no wrap-around in the addition). -/
theorem window_vub (h : UInt32) :
    (window h).2.toNat = min (100 * (h.toNat / 100) + 100) 4294967295 := by
  rw [DeployHelpers.window_vub]; split <;> omega

/-- The transaction is valid at the height it was made for, and for at most 100 blocks
(the only exception is the very last height `MaxUint32`, where no later block exists). -/
theorem vub_after_height (h : UInt32) (hm : h.toNat < 4294967295) :
    h.toNat < (window h).2.toNat ∧ (window h).2.toNat ≤ h.toNat + 100 := by
  rw [DeployHelpers.window_vub]; split <;> omega

/-- Determinism across members: two heights give the same nonce and ValidUntilBlock iff they lie in
the same window of 100 blocks — this is what makes the members' notary requests coincide. -/
theorem same_window_iff (h₁ h₂ : UInt32) : window h₁ = window h₂ ↔ h₁.toNat / 100 = h₂.toNat / 100 := by
  constructor
  · intro he
    have := congrArg (fun p => p.1.toNat) he
    simp only [DeployHelpers.window_nonce] at this
    omega
  · intro he
    have e1 : (window h₁).1 = (window h₂).1 := by
      apply UInt32.toNat_inj.mp; rw [DeployHelpers.window_nonce, DeployHelpers.window_nonce, he]
    have e2 : (window h₁).2 = (window h₂).2 := by
      apply UInt32.toNat_inj.mp; rw [DeployHelpers.window_vub, DeployHelpers.window_vub, he]
    exact Prod.ext e1 e2

/-- The modifier refuses exactly the invocations that did not HALT. -/
theorem modifier_refuses_iff (st : String) (h : UInt32) : modifier st h = none ↔ st ≠ "HALT" := by
  unfold modifier; split <;> simp_all

/-- ONE modifier used for a whole stage (built once before the loop of `syncNeoFSContract` /
`updateNNSContract`, applied to every update transaction): the i-th transaction gets the window of the
height current at the i-th application — whatever the height was when the modifier was built. -/
theorem modifier_seq_each_own_height (hs : List UInt32) (i : Nat) (hi : i < hs.length) :
    (modifierSeq "HALT" hs)[i]? = some (some (window hs[i])) := by
  simp [modifierSeq, modifier, hi]

/-- Two applications of the same modifier set the same nonce and ValidUntilBlock iff the heights at which
they happen lie in the same window of 100 blocks: members (or a restarted member) that reach the stage on
the same side of a multiple of 100 build the same main transaction, and a later window gives a new one. -/
theorem modifier_seq_same_iff (hs : List UInt32) (i j : Nat) (hi : i < hs.length) (hj : j < hs.length) :
    (modifierSeq "HALT" hs)[i]? = (modifierSeq "HALT" hs)[j]? ↔ hs[i].toNat / 100 = hs[j].toNat / 100 := by
  rw [modifier_seq_each_own_height hs i hi, modifier_seq_each_own_height hs j hj]
  simp only [Option.some.injEq]
  exact same_window_iff hs[i] hs[j]

/-- Applications at heights in different windows get different nonces (so the transactions differ). -/
theorem modifier_seq_different_windows (h₁ h₂ : UInt32) (hne : h₁.toNat / 100 ≠ h₂.toNat / 100) :
    (window h₁).1 ≠ (window h₂).1 := by
  intro he
  have := congrArg UInt32.toNat he
  rw [DeployHelpers.window_nonce, DeployHelpers.window_nonce] at this
  omega

/-- No transaction of the stage is born expired: at every application the height lies in the window set,
and ValidUntilBlock is after it (the last `uint32` height excepted). -/
theorem modifier_seq_never_expired (hs : List UInt32) (i : Nat) (hi : i < hs.length) (p : UInt32 × UInt32)
    (hp : (modifierSeq "HALT" hs)[i]? = some (some p)) :
    p.1.toNat ≤ hs[i].toNat ∧ hs[i].toNat < p.1.toNat + 100 ∧ (hs[i].toNat < 4294967295 → hs[i].toNat < p.2.toNat) := by
  rw [modifier_seq_each_own_height hs i hi] at hp
  simp only [Option.some.injEq] at hp
  subst hp
  exact ⟨(height_in_window hs[i]).1, (height_in_window hs[i]).2, fun h => (vub_after_height hs[i] h).1⟩

/-- A non-HALT state is refused at every application. -/
theorem modifier_seq_refuses (st : String) (hst : st ≠ "HALT") (hs : List UInt32) :
    modifierSeq st hs = hs.map (fun _ => none) := by
  simp [modifierSeq, modifier, hst]

example : modifierSeq "HALT" [50, 100, 199, 250] =
    [some (0, 100), some (100, 200), some (100, 200), some (200, 300)] := by decide
example : modifierSeq "HALT" [4294967199, 4294967200, 4294967295] =
    [some (4294967100, 4294967200), some (4294967200, 4294967295), some (4294967200, 4294967295)] := by decide
example : modifierSeq "HALT" [250, 50] = [some (200, 300), some (0, 100)] := by decide

example : window 0 = (0, 100) := by decide
example : window 199 = (100, 200) := by decide
example : window 4294967199 = (4294967100, 4294967200) := by decide
example : window 4294967200 = (4294967200, 4294967295) := by decide
example : window 4294967295 = (4294967200, 4294967295) := by decide
example : modifier "FAULT" 5 = none := by decide

/-! ## sharedTransactionData: codec and checksum -/

/-- Fixed length of the serialisation. -/
theorem bytes_length_28 (x : Shared) (h : x.WF) : x.bytes.length = 28 := bytes_length x h

/-- Fixed length of the string form (40 base64 characters). -/
theorem encoded_length_40 (x : Shared) (h : x.WF) : x.encodeToString.length = 40 := by
  unfold Shared.encodeToString
  rw [b64Enc_length, bytes_length x h]

/-- `decode (encode x) = x` for every well-formed value (20-byte sender, `uint32` fields). -/
theorem decode_encode (x : Shared) (h : x.WF) : decodeString x.encodeToString = some x := by
  unfold decodeString Shared.encodeToString
  rw [b64Dec_enc _ (bytes_lt x h)]
  exact decodeBytes_bytes x h

/-- Whatever string `decodeString` accepts holds (in base64) exactly the serialisation of the value it
returns, and that value is well formed: the decoder invents nothing. -/
theorem decode_sound (s : Bytes) (x : Shared) (h : decodeString s = some x) :
    x.WF ∧ b64Dec s = some x.bytes := by
  unfold decodeString at h
  split at h
  · simp at h
  · rename_i b hb
    have hlt := quanta_lt _ _ hb
    have := decodeBytes_sound b x hlt h
    exact ⟨this.1, by rw [hb, this.2]⟩

/-- Base64 of Go's `StdEncoding` round-trips on all byte strings. -/
theorem base64_roundtrip (l : Bytes) (h : ∀ b ∈ l, b < 256) : b64Dec (b64Enc l) = some l := b64Dec_enc l h

/-- `shiftChecksum (unshiftChecksum x d) = (true, d)`, for every hash function with at least four
output bytes (SHA-256 has 32). -/
theorem checksum_roundtrip (sha : Bytes → Bytes) (x : Shared) (d : Bytes) (h : 4 ≤ (sha x.bytes).length) :
    shiftChecksum sha x (unshiftChecksum sha x d) = (true, d) := shift_unshift sha x d h

/-- Exact acceptance condition: `true` with payload `p` iff the data is the 4-byte checksum followed by `p`. -/
theorem checksum_accepts_iff (sha : Bytes → Bytes) (x : Shared) (data p : Bytes) (h : 4 ≤ (sha x.bytes).length) :
    shiftChecksum sha x data = (true, p) ↔ data = (sha x.bytes).take 4 ++ p := shift_true_iff sha x data p h

/-- Mismatch ⇒ `false`: a checksum made for shared data with another digest prefix is refused. -/
theorem checksum_mismatch_refused (sha : Bytes → Bytes) (x y : Shared) (d : Bytes)
    (hx : 4 ≤ (sha x.bytes).length) (hy : 4 ≤ (sha y.bytes).length)
    (hne : (sha x.bytes).take 4 ≠ (sha y.bytes).take 4) :
    shiftChecksum sha y (unshiftChecksum sha x d) = (false, []) := shift_mismatch sha x y d hx hy hne

/-- Data shorter than a checksum is refused and handed back unchanged. -/
theorem checksum_short_refused (sha : Bytes → Bytes) (x : Shared) (data : Bytes) (h : data.length < 4) :
    shiftChecksum sha x data = (false, data) := shift_short sha x data h

/-- `sharedTxDataMatches`: a cached transaction is reused exactly when its nonce, its ValidUntilBlock and
its first signer are the ones of the shared data. -/
theorem matches_iff (txNonce txVub : Nat) (signers : List Bytes) (d : Shared) :
    sharedTxDataMatches txNonce txVub signers d = true ↔
      d.nonce = txNonce ∧ d.vub = txVub ∧ signers.head? = some d.sender := by
  unfold sharedTxDataMatches
  cases signers with
  | nil => simp
  | cons s r => simp [and_assoc]

def demoShared : Shared := ⟨[1, 2, 3, 4, 5, 6, 7, 8, 9, 10, 11, 12, 13, 14, 15, 16, 17, 18, 19, 20], 300, 4294967295⟩
def demoSha : Bytes → Bytes := fun b => [b.sum % 256, b.sum / 256 % 256, 7, 7, 7]

example : demoShared.WF := by
  refine ⟨by decide, ?_, by decide, by decide⟩
  decide
example : demoShared.bytes = [1, 2, 3, 4, 5, 6, 7, 8, 9, 10, 11, 12, 13, 14, 15, 16, 17, 18, 19, 20, 0, 0, 1, 44, 255, 255, 255, 255] := by decide
example : decodeString demoShared.encodeToString = some demoShared := by decide
example : decodeString (demoShared.encodeToString.take 39) = none := by decide
example : shiftChecksum demoSha demoShared (unshiftChecksum demoSha demoShared [7, 7]) = (true, [7, 7]) := by decide
example : shiftChecksum demoSha { demoShared with vub := 301 } (unshiftChecksum demoSha demoShared [7, 7]) = (false, []) := by decide

/-! ## NNS names of the bootstrap -/

/-- Distinct members publish their signatures under distinct names. -/
theorem signature_domains_distinct (i j : Int) (h : sigDomain i = sigDomain j) : i = j := sigDomain_inj i j h

/-- No member's signature domain is the domain that holds the shared transaction data. -/
theorem signature_domain_is_not_tx_domain (i : Int) : sigDomain i ≠ Generated.deploy_domainDesignateNotaryTx :=
  sigDomain_ne_tx i

/-- One name per Alphabet contract. -/
theorem alphabet_domains_distinct (i j : Int) (h : alphabetDomain i = alphabetDomain j) : i = j :=
  alphabetDomain_inj i j h

example : sigDomain 3 = "designate-committee-notary-3.bootstrap" := by decide
example : alphabetDomain 6 = "alphabet6" := by decide

/-! # Layer 2 — the Notary bootstrap (message-level model)

`M = majority n = n − (n−1)/2` signatures are needed; the leader is member 0 and has its own; `S` is
the set of members that take part ("live"); a round = every live member ticks once, then a block
includes what was sent (`round`); `rounds k` = `k` fair rounds of `S`; `run` = rounds under an
arbitrary environment (who ticks, who restarts with an empty process state, nonce, Go's map order,
loss of the designation transaction). `roleAt = some b` = the designation of the Notary role to the
committee was accepted in block `b`. -/
open NeoFS.NotaryBootstrap

/-! ## bridge lemmas: the regenerated shape of `deploy/notary.go` is the one the model mirrors -/

/-- leader loop `for i := 1; i < len(committee); i++`, domain `i`, key `i`, signer `j` writes domain
`j`, signatures appended in index order, an outdated own signature record is REPLACED (setRecord id 0) -/
theorem current_maps : current =
    { lo := fun _ => 1, hi := fun n => n, domOff := 0, keyOff := 0, sdOff := 0, sorted := true, replaceOutdated := true } := rfl

/-- member 0 leads; `M − 1` remote signatures are awaited, `M` being the committee's majority count (computed in
the tick or returned by a same-package helper); a signature is stored under the member's committee index only
after it verified (the store index is the key index; map or slice); the loop stops when enough are collected;
the monitor asked before (re)sending is `registerDomainTxMonitor` (sic) -/
theorem code_shape :
    Generated.DeployFacts.leaderIndex = 0 ∧ Generated.DeployFacts.needRemoteIsMajorityMinusOne = true ∧
    Generated.DeployFacts.breakWhenEnough = true ∧
    Generated.DeployFacts.leaderStoreOff = Generated.DeployFacts.leaderKeyOff ∧
    Generated.DeployFacts.designateGuardMonitor = "registerDomainTxMonitor" := by decide

theorem validity_of_shared_data_is_120_blocks :
    Generated.deploy_initDesignateNotaryRoleAsLeaderTick_defaultValidUntilBlockIncrement = 120 := rfl

/-- `GetMajorityHonestNodeCount n = n/2 + 1`: "a majority" -/
theorem majority_is_half_plus_one (n : Nat) (hn : 1 ≤ n) : majority n = n / 2 + 1 := by
  unfold majority; omega

/-! ## the bootstrap needs only a majority that includes the first member -/

/-- For EVERY committee size `n ≥ 2` and EVERY live set that contains the leader and at least `M` of the
members `0 … n−1`, the fair run of the code's index maps gets the designation accepted within five
rounds (register the tx-data domain, publish the shared data, register the signature domains, publish
the signatures, collect and send). -/
theorem bootstrap_completes (n maxInc : Nat) (S : Nat → Bool) (nonce h : Nat) (hn : 2 ≤ n) (h0 : S 0 = true)
    (hmaj : majority n ≤ (List.range n).countP S) (hinc : 4 ≤ maxInc) :
    ((rounds current n maxInc S nonce 5 (State.init h)).chain.roleAt).isSome = true :=
  completes_from_init current n maxInc S nonce (hyp_current n maxInc S hn h0 hmaj hinc) h

/-- A committee of one designates itself in a single round. -/
theorem bootstrap_completes_single (maxInc : Nat) (S : Nat → Bool) (nonce h : Nat) (h0 : S 0 = true) :
    (rounds current 1 maxInc S nonce 1 (State.init h)).chain.roleAt = some (h + 1) :=
  solo_completes current maxInc S nonce h h0

example : (rounds current 2 120 (fun _ => true) 7 5 (State.init 10)).chain.roleAt = some 15 := by decide
example : (rounds current 2 120 (fun _ => true) 7 4 (State.init 10)).chain.roleAt = none := by decide
example : (rounds current 3 120 (fun j => j != 1) 7 5 (State.init 10)).chain.roleAt = some 15 := by decide
example : (rounds current 7 120 (fun j => j != 2 && j != 5 && j != 6) 7 5 (State.init 10)).chain.roleAt = some 15 := by decide
example : majority 7 ≤ (List.range 7).countP (fun j => j != 2 && j != 5 && j != 6) := by decide

/-- Generic in the index maps (any loop bounds and offsets that stay inside the committee and read at
most `n − 1` domains): the bootstrap completes for the live set `S ∋ 0` IFF at least `M − 1` signers of
`S` are collectible, i.e. the leader reads the domain they write and verifies it with their key.
"Never" is meant: after no number of rounds. -/
theorem bootstrap_completes_iff (mp : Maps) (n maxInc : Nat) (S : Nat → Bool) (nonce h : Nat) (hn : 2 ≤ n)
    (h0 : S 0 = true) (hr : KeysInRange mp n) (hs : (loopIndices mp n).length ≤ n - 1) (hinc : 4 ≤ maxInc)
    (hrep : mp.replaceOutdated = true) :
    (∃ k, ((rounds mp n maxInc S nonce k (State.init h)).chain.roleAt).isSome = true) ↔
      majority n - 1 ≤ collectible mp n S :=
  completes_iff mp n maxInc S nonce h hn h0 hr hs hinc hrep

/-- With too few collectible signers the role is never designated — under ANY schedule in which only
members of `S` ever tick (any order, any restarts, any map order), for any index maps. -/
theorem too_few_collectible_never_completes (mp : Maps) (n maxInc : Nat) (S : Nat → Bool) (h : Nat) (hn : 2 ≤ n)
    (hcnt : collectible mp n S < majority n - 1) (envs : List Env)
    (hS : ∀ e ∈ envs, ∀ j, e.live j = true → S j = true) :
    (run mp n maxInc (State.init h) envs).chain.roleAt = none :=
  run_insufficient mp n maxInc S hn hcnt envs _ hS (ChainInv_fresh mp n S h) (KInv_nil mp n S _ rfl) rfl

/-- The index maps of the tree before `fix:` bbff1af (F11: `for i := range committee[1:]`, domain `i`,
key `i`): a committee of two can never finish, whoever takes part and however long it runs … -/
theorem pre_fix_maps_never_complete_for_two (maxInc h : Nat) (envs : List Env) :
    (run beforeFix 2 maxInc (State.init h) envs).chain.roleAt = none :=
  run_insufficient beforeFix 2 maxInc (fun _ => true) (by decide) (by decide) envs _ (fun _ _ _ _ => rfl)
    (ChainInv_fresh _ _ _ h) (KInv_nil _ _ _ _ rfl) rfl

/-- … and three members with member 1 absent (the majority {0, 2}) are stuck as well, while for the
code under test that majority suffices. -/
theorem pre_fix_maps_stuck_without_member_1 (maxInc h : Nat) (envs : List Env)
    (hS : ∀ e ∈ envs, ∀ j, e.live j = true → (j != 1) = true) :
    (run beforeFix 3 maxInc (State.init h) envs).chain.roleAt = none :=
  run_insufficient beforeFix 3 maxInc (fun j => j != 1) (by decide) (by decide) envs _ hS
    (ChainInv_fresh _ _ _ h) (KInv_nil _ _ _ _ rfl) rfl

example : collectible beforeFix 2 (fun _ => true) = 0 ∧ majority 2 - 1 = 1 := by decide
example : collectible current 2 (fun _ => true) = 1 := by decide
example : collectible beforeFix 3 (fun j => j != 1) = 0 ∧ collectible current 3 (fun j => j != 1) = 1 := by decide
example : collectible beforeFix 3 (fun j => j != 2) = 1 := by decide

/-! ## also when members are interrupted and restarted -/

/-- Interrupt the fair run of a majority `S ∋ 0` after ANY number `k` of rounds and restart ANY set `R` of
members with an empty process state: either the designation had already been accepted, or five more
fair rounds get it accepted. (Every committee size `n ≥ 2`; the shared data is valid for 120 blocks.) -/
theorem bootstrap_survives_restart (n maxInc : Nat) (S : Nat → Bool) (nonce h k : Nat) (R : Nat → Bool) (hn : 2 ≤ n)
    (h0 : S 0 = true) (hmaj : majority n ≤ (List.range n).countP S) (hinc : 10 ≤ maxInc) :
    ((rounds current n maxInc S nonce k (State.init h)).chain.roleAt).isSome = true ∨
    ((rounds current n maxInc S nonce 5 (restart R (rounds current n maxInc S nonce k (State.init h)))).chain.roleAt).isSome = true :=
  restart_anywhere current n maxInc S nonce (hyp_current n maxInc S hn h0 hmaj (by omega)) hinc h k R

/-- The same from ANY state the invariant `Good` describes (consistent leader state, genuine signature
records, no designation sent yet), whatever the history that led there, provided the shared data on
chain — if any — is valid for three more blocks. -/
theorem bootstrap_completes_from_any_good_state (n maxInc : Nat) (S : Nat → Bool) (nonce : Nat) (s : State) (hn : 2 ≤ n)
    (h0 : S 0 = true) (hmaj : majority n ≤ (List.range n).countP S) (hinc : 4 ≤ maxInc) (hg : Good current n S s)
    (hph : s.chain.txDom = false → s.chain.txRec = none)
    (hm : ∀ d, s.chain.txRec = some d → s.chain.height + 2 < d.vub) :
    ((rounds current n maxInc S nonce 5 s).chain.roleAt).isSome = true :=
  completes_from_good current n maxInc S nonce (hyp_current n maxInc S hn h0 hmaj hinc) s hg hph hm

example : (rounds current 4 120 (fun _ => true) 7 5
    (restart (fun j => j == 0 || j == 3) (rounds current 4 120 (fun _ => true) 7 3 (State.init 10)))).chain.roleAt = some 15 := by
  decide

/-! ## the leader down across the validity window of the shared data: members must REPLACE their signatures -/

/-- the leader publishes the shared data (two fair rounds), is down for eight rounds — the other member signs, the data
expires (`maxInc = 6`: valid for six blocks) —, comes back with an empty process state and regenerates the data; then
`k` fair rounds -/
def leaderDownAcrossExpiry (k : Nat) : List Env :=
  List.replicate 2 (fairEnv (fun _ => true) 7) ++
  List.replicate 8 ⟨fun j => j != 0, fun _ => false, 7, id, false⟩ ++
  [⟨fun _ => true, fun j => j == 0, 8, id, false⟩] ++ List.replicate k (fairEnv (fun _ => true) 9)

/-- Regenerated from `deploy/notary.go`: the member sets `recordExists` for every record it finds under its own
domain, so a signature of outdated shared data is replaced with `setRecord(id 0)`. -/
theorem outdated_signature_is_replaced : current.replaceOutdated = true := rfl

/-- For the code under test the history "leader down across the expiry while the required member has signed"
completes two rounds after the leader's return (generic form: `bootstrap_completes_from_any_good_state`, whose
invariant allows signature records of ANY earlier shared data). -/
theorem leader_down_across_expiry_completes :
    (run current 2 6 (State.init 10) (leaderDownAcrossExpiry 2)).chain.roleAt = some 23 := by decide

/-- If a member re-signed outdated data with `addRecord` instead (seeded change C13-6), NNS would keep its FIRST
signature as record #0 for ever, under every schedule … -/
theorem appending_keeps_the_first_signature (mp : Maps) (n maxInc : Nat) (S : Nat → Bool) (env : Env) (s : State) (k : Nat)
    (r : SigRec) (hrep : mp.replaceOutdated = false) (hc : ChainInv mp n S s.chain) (hk : s.chain.sigRec k = some r) :
    (round mp n maxInc env s).chain.sigRec k = some r :=
  append_keeps_first_record mp n maxInc S env s k r hrep hc hk

/-- … and the same history never gets the role designated: the leader reads the member's signature of the
expired data and skips it ("checksum … mismatches"), round after round. -/
theorem appending_stalls_after_regeneration :
    (run { current with replaceOutdated := false } 2 6 (State.init 10) (leaderDownAcrossExpiry 12)).chain.roleAt = none ∧
    (run { current with replaceOutdated := false } 2 6 (State.init 10) (leaderDownAcrossExpiry 12)).chain.sigRec 1 =
      some (signRec 1 ⟨17, 7⟩) := by decide

/-! ## the leader assembles a valid designation transaction from any such majority of signatures -/

/-- Safety, for every schedule whatsoever (who ticks, restarts, nonces, map order, lost transactions) and
every committee size: whatever transaction the leader sends next is never refused by the RPC node for
bad witnesses, and a sent designation is built from the shared data on chain, is not expired, and its
committee witness holds exactly `M` signatures of the transaction by members with strictly ascending
committee index (`validScript`: what CHECKMULTISIG demands). -/
theorem leader_composes_only_valid_designations (n maxInc h : Nat) (hn : 1 ≤ n) (envs : List Env) (env : Env) :
    let s := run current n maxInc (State.init h) envs
    (∀ d sc nx, (leaderOut current n maxInc env s).2 ≠ .designateRefused d sc nx) ∧
    (∀ d sc, (leaderOut current n maxInc env s).2 = .designate d sc →
      s.chain.txRec = some d ∧ s.chain.height < d.vub ∧ validScript n d sc) := by
  intro s
  have hinv : LInv n s.chain s.leader :=
    run_LInv current n maxInc hn rfl (keysInRange_current n) envs _ (LInv_init n _)
  have hp := leaderOut_post current n maxInc env s hn (orderOK_sorted current env rfl) (keysInRange_current n) hinv
  exact ⟨hp.1, fun d sc he => let r := hp.2.1 d sc he; ⟨r.1, r.2.1, r.2.2.1⟩⟩

/-- what `validScript` says, spelled out -/
theorem valid_script_means (n : Nat) (d : NotaryBootstrap.Shared) (sc : List Sig) (h : validScript n d sc) :
    sc.length = majority n ∧ (sc.map (·.signer)).Pairwise (· < ·) ∧ ∀ s ∈ sc, s.signer < n ∧ s.over = d := h

/-- Without the sorting (`fix:` 7a46371, F12) the same state under another Go map order yields a
transaction the node refuses: n = 4, all members live, signatures appended as [0, 2, 1]. -/
theorem unsorted_append_can_be_refused :
    ∃ (env : Env) (d : NotaryBootstrap.Shared) (sc : List Sig) (nx : NotaryBootstrap.Shared),
      (leaderOut { current with sorted := false } 4 120 env
        (rounds { current with sorted := false } 4 120 (fun _ => true) 7 4 (State.init 10))).2 = .designateRefused d sc nx ∧
      sc.map (·.signer) = [0, 2, 1] :=
  ⟨⟨fun _ => true, fun _ => false, 7, List.reverse, false⟩, ⟨131, 7⟩,
    [⟨0, ⟨131, 7⟩⟩, ⟨2, ⟨131, 7⟩⟩, ⟨1, ⟨131, 7⟩⟩], ⟨134, 7⟩, by decide⟩

example : (match (leaderOut current 4 120 ⟨fun _ => true, fun _ => false, 7, List.reverse, false⟩
      (rounds current 4 120 (fun _ => true) 7 4 (State.init 10))).2 with
    | .designate _ sc => sc.map (·.signer)
    | _ => []) = [0, 1, 2] := by decide

/-! ## running it again designates nothing -/

/-- Once the designation is visible (`checkRole` succeeds) no member sends anything, in any environment,
and it stays visible: `enableNotary` returns, a second run of the stage is inert. -/
theorem visible_role_nothing_sent (mp : Maps) (n maxInc : Nat) (env : Env) (s : State) (h : s.chain.roleVisible = true) :
    (leaderOut mp n maxInc env s).2 = .none ∧ (∀ j, (signerOut mp n env s j).2 = .none) ∧
    (round mp n maxInc env s).chain.roleVisible = true :=
  ⟨visible_leaderOut mp n maxInc env s h, fun j => visible_signerOut mp n env s j h, visible_stays mp n maxInc env s h⟩

example : (rounds current 3 120 (fun _ => true) 7 6 (State.init 10)).chain.roleVisible = true := by decide
example : (rounds current 3 120 (fun _ => true) 7 5 (State.init 10)).chain.roleVisible = false := by decide

/-! ## the role stages re-enter correctly after a restart at any point -/

/-- Regenerated from `deploy/deploy.go`, `notary.go`, `alphabet.go`: every pre-check of `checkCommitteeRoles`
queries the role of the stage its flag lets `Deploy` skip, each stage's loop checks and designates its own
role, and `initVoteForAlphabet` needs the NeoFSAlphabet role. -/
theorem prechecks_query_their_own_role : DeployRoles.OwnRoles DeployRoles.current := by decide

/-- Generic in the table: when every pre-check, loop and designation names its stage's own role, a run
(re)started on a chain in ANY role state — fresh, Notary only (cancelled between the two stages), Alphabet
only, both — gets through the role stages and `initVoteForAlphabet` with both roles designated. -/
theorem restart_in_any_role_state (t : DeployRoles.Table) (ht : DeployRoles.OwnRoles t) (c : DeployRoles.Roles) :
    DeployRoles.deployRoles t c = some ⟨true, true⟩ := by
  obtain ⟨h1, h2, h3, h4, h5, h6, h7⟩ := ht
  have g1 : (t.precheck.map (DeployRoles.read · c)).getD t.guardNotary false = c.notary := by
    rw [List.getD_eq_getElem?_getD, List.getElem?_map]
    rw [List.getD_eq_getElem?_getD] at h1
    cases hx : t.precheck[t.guardNotary]? with
    | none => rw [hx] at h1; simp at h1
    | some r => rw [hx] at h1; simp at h1; subst h1; simp [DeployRoles.read]
  have g2 : (t.precheck.map (DeployRoles.read · c)).getD t.guardAlphabet false = c.alphabet := by
    rw [List.getD_eq_getElem?_getD, List.getElem?_map]
    rw [List.getD_eq_getElem?_getD] at h4
    cases hx : t.precheck[t.guardAlphabet]? with
    | none => rw [hx] at h4; simp at h4
    | some r => rw [hx] at h4; simp at h4; subst h4; simp [DeployRoles.read]
  unfold DeployRoles.deployRoles
  simp only [g1, g2, h2, h3, h5, h6, h7]
  cases c with
  | mk n a => cases n <;> cases a <;> decide

/-- … in particular for the code under test. -/
theorem role_stages_survive_restart (c : DeployRoles.Roles) :
    DeployRoles.deployRoles DeployRoles.current c = some ⟨true, true⟩ :=
  restart_in_any_role_state _ prechecks_query_their_own_role c

/-- The copy-paste slip (the NeoFSAlphabet pre-check queries the P2PNotary role) is fatal exactly in the
window "Notary designated, NeoFSAlphabet not yet": the run skips `designateNeoFSAlphabet` and fails in
`initVoteForAlphabet`; in the three other role states nothing shows. -/
theorem copy_pasted_precheck_fails_in_the_window :
    DeployRoles.deployRoles { DeployRoles.current with precheck := ["P2PNotary", "P2PNotary"] } ⟨true, false⟩ = none ∧
    ∀ c, c ≠ ⟨true, false⟩ →
      DeployRoles.deployRoles { DeployRoles.current with precheck := ["P2PNotary", "P2PNotary"] } c = some ⟨true, true⟩ := by
  refine ⟨by decide, ?_⟩
  intro c hc
  cases c with
  | mk n a => cases n <;> cases a <;> first | decide | exact absurd rfl hc

example : DeployRoles.deployRoles DeployRoles.current ⟨true, false⟩ = some ⟨true, true⟩ := by decide
example : DeployRoles.deployRoles DeployRoles.current ⟨false, false⟩ = some ⟨true, true⟩ := by decide
example : DeployRoles.deployRoles { DeployRoles.current with loopAlphabet := "P2PNotary" } ⟨true, false⟩ = none := by decide

/-! ## a finding the model makes precise: the designation is sent at most once per process -/

/-- `triedDesignateRoleTx` is never reset and the guard before sending asks the wrong monitor
(`registerDomainTxMonitor`): a leader whose designation transaction was sent but not accepted never
sends another one, under any schedule, until its process is restarted — it regenerates the shared data
over and over instead. (Committees of at least two; no restart of member 0 in `envs`.) -/
theorem lost_designation_is_never_resent (mp : Maps) (n maxInc : Nat) (hn : 2 ≤ n) (envs : List Env) (s : State)
    (hf : ∀ e ∈ envs, e.fresh 0 = false) (ht : s.leader.tried = true) (hr : s.chain.roleAt = none) :
    (run mp n maxInc s envs).chain.roleAt = none :=
  tried_run mp n maxInc hn envs s hf ht hr

/-- such a state is reachable: four fair rounds, then a round whose designation transaction is lost -/
example :
    (round current 2 120 ⟨fun _ => true, fun _ => false, 7, id, true⟩
      (rounds current 2 120 (fun _ => true) 7 4 (State.init 10))).leader.tried = true ∧
    (round current 2 120 ⟨fun _ => true, fun _ => false, 7, id, true⟩
      (rounds current 2 120 (fun _ => true) 7 4 (State.init 10))).chain.roleAt = none := by decide

end NeoFS.Props.C13
