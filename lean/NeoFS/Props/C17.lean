import NeoFS.Lemmas.NeoFSMain
import NeoFS.Generated.Consts
import NeoFS.Generated.Footprint
/-! # C17 — vote-collected actions fire exactly at 2/3+1 distinct Alphabet votes

Property theorems only. Model: `NeoFS/Model/Vote.lean` (`common.Vote`, `RemoveVotes`, `InnerRingInvoker`) and
`NeoFS/Model/NeoFSMain.lean` (`cheque`, `alphabetUpdate`, `setConfig`, `innerRingCandidateRemove` of the
main-chain NeoFS contract running without Notary). Specification: `NeoFS.Vote.Spec` — one tally per decision
id (distinct voters, block of the last counted vote) — written in the property's own words with the
literals 20 and 2n/3+1. Helper lemmas: `NeoFS/Lemmas/Vote.lean`, `NeoFS/Lemmas/NeoFSMain.lean`.

Reading of the statement (DESIGN.md section 8): the property speaks about a fixed stored key list; an executed
`alphabetUpdate` changes n for ballots already open, so the history theorems carry the hypothesis `KeysFixed`.
A decision is identified by its id alone (that is how the contract keys its ballots): `cheque`, `alphabetUpdate`
and `setConfig` use the caller-supplied `id`, candidate removal uses `sha256(key ‖ "delete")`. A repeated vote
does not refresh the ballot's block height. -/
namespace NeoFS.Props.C17
open NeoFS NeoFS.Vote NeoFS.Main

/-! ### bridges between regenerated constants and the literals of the property text -/

theorem blockDiff_is_20 : blockDiff = 20 := rfl

theorem threshold_is_two_thirds_plus_one (n : Nat) : threshold n = 2 * n / 3 + 1 := by
  unfold threshold; rw [Nat.mul_comm]

/-! ### what the tally specification says (the property's clauses, one by one) -/

/-- the voters counted so far for `id` whose ballot has not expired at block `h` -/
def liveVoters (sp : Spec) (h : Int) (id : Bytes) : List Bytes :=
  match Tally.liveAt h (sp id) with
  | none => []
  | some t => t.voters

/-- the decision executes in this invocation iff the invoker has not voted on the live ballot yet and its
vote makes the number of distinct voters reach the threshold -/
theorem spec_fires_iff (thr : Nat) (sp : Spec) (h : Int) (id k : Bytes) :
    (Spec.step thr sp h id k).2 = true ↔ k ∉ liveVoters sp h id ∧ thr ≤ (liveVoters sp h id).length + 1 := by
  unfold Spec.step liveVoters
  cases Tally.liveAt h (sp id) with
  | none =>
    by_cases h1 : 1 < thr
    · simp [h1] <;> omega
    · simp [h1] <;> omega
  | some t =>
    by_cases hk : k ∈ t.voters
    · simp [hk]
    · by_cases h2 : t.voters.length + 1 < thr
      · simp [hk, h2]
      · simp [hk, h2] <;> omega

/-- repeated votes by one key count once: nothing changes and nothing executes -/
theorem repeated_vote_counts_once (thr : Nat) (sp : Spec) (h : Int) (id k : Bytes) (hk : k ∈ liveVoters sp h id) :
    Spec.step thr sp h id k = (sp, false) := by
  unfold Spec.step
  unfold liveVoters at hk
  cases hl : Tally.liveAt h (sp id) with
  | none => rw [hl] at hk; cases hk
  | some t => rw [hl] at hk; simp only at hk; simp [hk]

/-- votes for different ids never mix: a vote for `id` leaves the tally of every other id alone -/
theorem ids_never_mix (thr : Nat) (sp : Spec) (h : Int) (id k id' : Bytes) (hne : id' ≠ id) :
    (Spec.step thr sp h id k).1 id' = sp id' := by
  unfold Spec.step
  cases Tally.liveAt h (sp id) with
  | none => by_cases h1 : 1 < thr <;> simp [h1, Spec.set, hne]
  | some t =>
    by_cases hk : k ∈ t.voters
    · simp [hk]
    · by_cases h2 : t.voters.length + 1 < thr <;> simp [hk, h2, Spec.set, hne]

/-- stale ballots expire: more than 20 blocks after its last counted vote a ballot counts as absent,
the next vote starts a new one -/
theorem stale_ballot_restarts (thr : Nat) (sp : Spec) (h : Int) (id k : Bytes) (t : Tally)
    (ht : sp id = some t) (hs : h - t.last > 20) :
    liveVoters sp h id = [] ∧
    Spec.step thr sp h id k = if 1 < thr then (sp.set id (some ⟨[k], h⟩), false) else (sp.set id none, true) := by
  have hl : Tally.liveAt h (sp id) = none := by rw [ht]; simp [Tally.liveAt, hs]
  constructor
  · unfold liveVoters; rw [hl]
  · unfold Spec.step; rw [hl]

/-- a gap of exactly 20 blocks still counts -/
theorem gap_of_20_blocks_counts (sp : Spec) (h : Int) (id : Bytes) (t : Tally)
    (ht : sp id = some t) (hs : h - t.last ≤ 20) : liveVoters sp h id = t.voters := by
  unfold liveVoters
  rw [ht]
  have : ¬ h - t.last > 20 := by omega
  simp [Tally.liveAt, this]

/-- exactly once: the invocation that executes the decision closes its tally -/
theorem executed_decision_is_closed (thr : Nat) (sp : Spec) (h : Int) (id k : Bytes)
    (hf : (Spec.step thr sp h id k).2 = true) : (Spec.step thr sp h id k).1 id = none := by
  unfold Spec.step at hf ⊢
  generalize Tally.liveAt h (sp id) = o at hf ⊢
  cases o with
  | none =>
    by_cases h1 : 1 < thr
    · simp [h1] at hf
    · simp [h1, Spec.set]
  | some t =>
    by_cases hk : k ∈ t.voters
    · simp [hk] at hf
    · by_cases h2 : t.voters.length + 1 < thr
      · simp [hk, h2] at hf
      · simp [hk, h2, Spec.set]

example : (Spec.step 3 (fun _ => none) 5 [1] [7]).2 = false := by decide
example : liveVoters ((Spec.step 3 (fun _ => none) 5 [1] [7]).1) 25 [1] = [[7]] := by decide
example : liveVoters ((Spec.step 3 (fun _ => none) 5 [1] [7]).1) 26 [1] = [] := by decide

/-! ### the contract model against the specification: one invocation -/

/-- Invocations by anyone else are rejected and never count: in vote mode a vote-collected method invoked
without the witness of a stored Alphabet key (and not by the candidate itself) FAULTs, whatever its arguments,
and a FAULT leaves the whole state — ballots included — untouched. -/
theorem stranger_rejected (w : World) (s : State) (env : Env) (op : Op) (hnd : s.nd = true)
    (hv : isVoteCall w env op = true) (hi : invokerOf w s env = none) :
    step w s env op = none ∧ invoke w s env op = (s, none) := by
  have hs : step w s env op = none := by
    cases hst : step w s env op with
    | none => rfl
    | some out =>
      obtain ⟨id, k, r, hcv, _⟩ := step_vote_shape hnd hv hst
      have := castVote_some_invoker hcv
      rw [hi] at this; cases this
  exact ⟨hs, invoke_fault hs⟩

/-- The counted voter of an invocation is a stored key whose witness the transaction carries (the first such
key in stored order), never anything else. -/
theorem counted_voter_is_witnessing_stored_key (w : World) (s : State) (env : Env) (op : Op) (id k : Bytes)
    (h : castVote w s env op = some (id, k)) : k ∈ s.keys ∧ witKey w env k = some true :=
  invoker_some (invokerOf_some (castVote_some_invoker h))

/-- **fires_iff (one invocation)**. In vote mode, from any state whose ballots are well formed and stand for
the tallies `sp`: a HALTed invocation that casts a vote executes its method body iff the specification says the
decision executes now, i.e. iff the invoker's vote brings the distinct live voters of that id to 2n/3+1; the
new ballots stand for the new tallies and are well formed again. Every other HALTed invocation leaves the
ballots and the stored keys alone and notifies no decision. -/
theorem vote_step_refines (w : World) (s : State) (env : Env) (op : Op) (out : Halt) (sp : Spec) (H : Int)
    (hnd : s.nd = true) (hinv : BInv s.keys (threshold s.keys.length) H s.ballots) (hH : H ≤ env.height)
    (hrel : Rel H s.ballots sp) (h : step w s env op = some out) :
    match castVote w s env op with
    | none => out.st.ballots = s.ballots ∧ out.st.keys = s.keys ∧ out.st.nd = true ∧
        out.evs.filter Event.isDecision = []
    | some (id, k) =>
      k ∈ s.keys ∧ witKey w env k = some true ∧ out.st.nd = true ∧
      out.fired = (Spec.step (threshold s.keys.length) sp env.height id k).2 ∧
      Rel env.height out.st.ballots (Spec.step (threshold s.keys.length) sp env.height id k).1 ∧
      BInv s.keys (threshold s.keys.length) env.height out.st.ballots ∧
      (out.fired = false → out.st.keys = s.keys) :=
  step_refines hnd hinv hH hrel h

/-- fires_iff in the property's words: with `n` stored keys the method body runs in exactly the invocation
whose invoker has not voted on the live ballot of that id and whose vote makes the count reach ⌊2n/3⌋+1. -/
theorem fires_iff (w : World) (s : State) (env : Env) (op : Op) (out : Halt) (sp : Spec) (H : Int) (id k : Bytes)
    (hnd : s.nd = true) (hinv : BInv s.keys (threshold s.keys.length) H s.ballots) (hH : H ≤ env.height)
    (hrel : Rel H s.ballots sp) (h : step w s env op = some out) (hcv : castVote w s env op = some (id, k)) :
    out.fired = true ↔
      k ∉ liveVoters sp env.height id ∧ 2 * s.keys.length / 3 + 1 ≤ (liveVoters sp env.height id).length + 1 := by
  have := step_refines hnd hinv hH hrel h
  rw [hcv] at this
  simp only at this
  rw [this.2.2.2.1, spec_fires_iff, threshold_is_two_thirds_plus_one]

/-! ### the ghost flag is the observable effect: exactly one notification per executed decision -/

/-- cheque: executed ⇒ exactly the `Cheque(id, user, amount, lockAcc)` notification and the GAS transfer of
`amount` from the contract; not executed ⇒ no notification, no GAS moved. Config, candidates, keys untouched. -/
theorem cheque_takes_effect_iff_fired (w : World) (s : State) (env : Env) (id : Bytes) (u : Hash) (a : Int) (l : Bytes)
    (out : Halt) (h : step w s env (.cheque id u a l) = some out) :
    (out.fired = true →
      (∃ evs, mustTransfer w s.gas true w.self u a .null = some (out.st.gas, evs) ∧ out.evs = evs ++ [.cheque id u a l]) ∧
      out.evs.filter Event.isDecision = [.cheque id u a l]) ∧
    (out.fired = false → out.evs = [] ∧ out.st.gas = s.gas) ∧
    out.st.cfg = s.cfg ∧ out.st.cands = s.cands ∧ out.st.keys = s.keys :=
  cheque_effect h

/-- setConfig: executed ⇒ the record is written and `SetConfig(id, key, value)` notified once; otherwise nothing. -/
theorem setConfig_takes_effect_iff_fired (w : World) (s : State) (env : Env) (id key : Bytes) (val : Option Bytes)
    (out : Halt) (h : step w s env (.setConfig id key val) = some out) :
    (out.fired = true → ∃ v, val = some v ∧ out.evs = [.setConfig id key v] ∧ out.st.cfg = cfgPut s.cfg key v) ∧
    (out.fired = false → out.evs = [] ∧ out.st.cfg = s.cfg) ∧
    out.st.gas = s.gas ∧ out.st.cands = s.cands ∧ out.st.keys = s.keys :=
  setConfig_effect h

/-- alphabetUpdate: executed ⇒ the (non-empty, 33-byte-keyed) list is stored and `AlphabetUpdate(id, list)`
notified once; otherwise nothing. -/
theorem alphabetUpdate_takes_effect_iff_fired (w : World) (s : State) (env : Env) (id : Bytes) (ks : List Key) (na : Hash)
    (out : Halt) (h : step w s env (.alphabetUpdate id ks na) = some out) :
    (out.fired = true → out.evs = [.alphabetUpdate id ks] ∧ out.st.keys = ks ∧ out.st.saddr = na) ∧
    (out.fired = false → out.evs = [] ∧ out.st.keys = s.keys) ∧
    out.st.gas = s.gas ∧ out.st.cands = s.cands ∧ out.st.cfg = s.cfg ∧
    ks ≠ [] ∧ (∀ k ∈ ks, k.length = 33) :=
  alphabetUpdate_effect h

/-- candidate removal: executed ⇒ the candidate leaves the list; otherwise the list is untouched
(the method has no notification). -/
theorem candidateRemove_takes_effect_iff_fired (w : World) (s : State) (env : Env) (k : Key) (idh : Bytes)
    (out : Halt) (h : step w s env (.candRemove k idh) = some out) :
    (out.fired = true → out.st.cands = s.cands.filter (fun c => c != k)) ∧
    (out.fired = false → out.st.cands = s.cands) ∧
    out.evs = [] ∧ out.st.gas = s.gas ∧ out.st.cfg = s.cfg ∧ out.st.keys = s.keys :=
  candRemove_effect h

/-! ### all histories -/

/-- **All histories.** Take any sequence of invocations by anybody (Alphabet members, strangers, several
signers, any methods and arguments, several per block) at non-decreasing block heights, against a vote-mode
contract whose stored key list stays fixed, starting from well-formed ballots that stand for tallies `sp`.
Then for every HALTed vote-casting invocation of the history the model runs the method body iff the tally
specification executes the decision in that invocation. (`lock` pairs the two flags, invocation by invocation.) -/
theorem history_refines (w : World) (hist : List (Env × Op)) (s : State) (sp : Spec) (H : Int)
    (hnd : s.nd = true) (hinv : BInv s.keys (threshold s.keys.length) H s.ballots) (hrel : Rel H s.ballots sp)
    (hmono : Mono H hist) (hfix : KeysFixed w s.keys s hist) :
    ∀ p ∈ lock w s sp hist, p.1 = p.2 :=
  lock_agree w hist s sp H hnd hinv hrel hmono hfix

/-- the same from a freshly deployed contract: no ballots, no tallies -/
theorem history_refines_from_deploy (w : World) (hist : List (Env × Op)) (s : State) (H : Int)
    (hnd : s.nd = true) (hb : s.ballots = []) (hmono : Mono H hist) (hfix : KeysFixed w s.keys s hist) :
    ∀ p ∈ lock w s (fun _ => none) hist, p.1 = p.2 := by
  apply lock_agree w hist s (fun _ => none) H hnd _ _ hmono hfix
  · rw [hb]; exact ⟨by simp, by simp, by simp, by simp, by simp⟩
  · rw [hb]; intro id; rfl

/-- **Ballot invariant.** After every such history: one ballot per id, the voters of every ballot are distinct
stored keys, fewer than 2n/3+1 of them (a ballot that reaches the threshold is removed in the same invocation),
and `height` is the block of a past vote. -/
theorem ballot_invariant_all_histories (w : World) (hist : List (Env × Op)) (s : State) (H : Int)
    (hnd : s.nd = true) (hb : s.ballots = []) (hmono : Mono H hist) (hfix : KeysFixed w s.keys s hist) :
    ∃ H', BInv s.keys (threshold s.keys.length) H' (run w s hist).ballots ∧ (run w s hist).keys = s.keys := by
  apply run_inv w hist s H hnd _ hmono hfix
  rw [hb]; exact ⟨by simp, by simp, by simp, by simp, by simp⟩

/-! ### non-vacuity: n = 4 (threshold 3), the history of defect F6 -/

def exW : World := ⟨[9], [8], [([1], [11]), ([2], [12]), ([3], [13]), ([4], [14]), ([5], [15])]⟩
def exS : State :=
  { nd := true, keys := [[1], [2], [3], [4]], saddr := [], proc := [7], cfg := [], cands := [], ballots := [],
    gas := fun _ => 0 }
/-- A0, A1 vote for decision 01; the stranger (key 5, not stored) tries to complete it with its own value;
A2 completes it; A3 opens a new ballot -/
def exHist : List (Env × Op) :=
  [(⟨[[11]], 1⟩, .setConfig [1] [107] (some [118])), (⟨[[12]], 2⟩, .setConfig [1] [107] (some [118])),
   (⟨[[15]], 3⟩, .setConfig [1] [107] (some [153])), (⟨[[13]], 22⟩, .setConfig [1] [107] (some [118])),
   (⟨[[14]], 23⟩, .setConfig [1] [107] (some [118]))]

example : lock exW exS (fun _ => none) exHist = [(false, false), (false, false), (true, true), (false, false)] := by
  decide
example : (run exW exS exHist).cfg = [([107], [118])] := by decide
example : (run exW exS exHist).ballots = [⟨[1], [[4]], 23⟩] := by decide
example : Mono 0 exHist := by decide
example : KeysFixed exW exS.keys exS exHist := by decide
/-- the stranger's call is rejected -/
example : step exW (run exW exS (exHist.take 2)) ⟨[[15]], 3⟩ (.setConfig [1] [107] (some [153])) = none := by decide
/-- one block later than the window the ballot has expired: A2's vote would open a new one -/
example : (run exW exS (exHist.take 2 ++ [(⟨[[13]], 23⟩, .setConfig [1] [107] (some [118]))])).ballots
    = [⟨[1], [[3]], 23⟩] := by decide

/-! ## Frame of the model, regenerated: who can write ballots, the Alphabet list and the configuration

Checked by kernel evaluation over `NeoFS.Generated.Footprint.table` (grouped by contract: `contracts`), the MAY-WRITE footprint recomputed from the Go sources on
every run (`extract footprint`; `Model/Footprint.lean`). -/
section Footprint
open NeoFS.Footprint NeoFS.Generated.Footprint

def fpBallots : Fam := exactly NeoFS.Generated.common_voteKey_bytes
def fpAlphabet : Fam := exactly NeoFS.Generated.neofs_alphabetKey_bytes
def fpConfig : Fam := startingWith NeoFS.Generated.neofs_configPrefix_bytes
def fpCandidates : Fam := startingWith NeoFS.Generated.neofs_candidatesKey_bytes

/-- In the main-chain NeoFS contract the ballot list is written only by the four vote-collecting methods (and initialised at
deployment) and nobody deletes it; the stored Alphabet list only by `alphabetUpdate` (and deployment); configuration values only
by `setConfig` (and deployment); Inner Ring candidates are added only by `innerRingCandidateAdd` and removed only by
`innerRingCandidateRemove`; each voted action's notification comes from its method only. -/
theorem voted_state_written_only_by_the_vote_collecting_methods :
    onlyBy contracts "neofs" "put" fpBallots ["cheque", "alphabetUpdate", "setConfig", "innerRingCandidateRemove", "_deploy"] = true ∧
    onlyBy contracts "neofs" "delete" fpBallots [] = true ∧
    onlyBy contracts "neofs" "put" fpAlphabet ["alphabetUpdate", "_deploy"] = true ∧ onlyBy contracts "neofs" "delete" fpAlphabet [] = true ∧
    onlyBy contracts "neofs" "put" fpConfig ["setConfig", "_deploy"] = true ∧ onlyBy contracts "neofs" "delete" fpConfig [] = true ∧
    onlyBy contracts "neofs" "put" fpCandidates ["innerRingCandidateAdd"] = true ∧
    onlyBy contracts "neofs" "delete" fpCandidates ["innerRingCandidateRemove"] = true ∧
    namedOnlyBy contracts "neofs" "notify" "Cheque" ["cheque"] = true ∧
    namedOnlyBy contracts "neofs" "notify" "AlphabetUpdate" ["alphabetUpdate"] = true ∧
    namedOnlyBy contracts "neofs" "notify" "SetConfig" ["setConfig"] = true := by decide +kernel

example : does contracts "neofs" "cheque" "put" fpBallots = true ∧ does contracts "neofs" "alphabetUpdate" "put" fpAlphabet = true ∧
    does contracts "neofs" "setConfig" "put" fpConfig = true ∧ does contracts "neofs" "innerRingCandidateRemove" "delete" fpCandidates = true ∧
    named contracts "neofs" "cheque" "notify" "Cheque" = true := by decide +kernel
example : onlyBy (withRow contracts ⟨"neofs", "bind", "put", "", "", NeoFS.Generated.common_voteKey_bytes, true⟩)
    "neofs" "put" fpBallots ["cheque", "alphabetUpdate", "setConfig", "innerRingCandidateRemove", "_deploy"] = false := by decide +kernel
end Footprint

end NeoFS.Props.C17
