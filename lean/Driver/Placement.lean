import NeoFS.Base.Line
import NeoFS.Model.Placement
/-! Line-protocol driver for the placement model (property C14).

Signatures are symbolic tokens `kind.arg` (the harness turns them into real secp256r1 signatures and
checks the token's claim against a real verification): `ok.<pub>` = signature of the op's message by the
holder of `<pub>`, `mal.<pub>` = the same with `s ↦ n − s`, `ok2.<pub>` = a second valid signature (other nonce), everything else (`wm` wrong message, `sh`/`lg`
wrong length, `em` empty, `rnd` random bytes, `z` zeros) verifies for nobody. So the oracle of an op is
the table "token ↦ the key it verifies for". `bad=` lists the roster keys that are not curve points. -/
open NeoFS NeoFS.Placement

abbrev Tok := String

def tokVerifies (pub : Bytes) (t : Tok) : Bool :=
  match t.splitOn "." with
  | [k, a] => (k == "ok" || k == "mal" || k == "ok2") && parseHex a == pub
  | _ => false

def mkOracle (bad : List Bytes) : Oracle Tok :=
  { verify := fun _ pub t => tokVerifies pub t, badKey := fun k => bad.contains k }

def parseRow (s : String) : Row Tok :=
  if s == "null" then none else if s == "-" then some [] else some (s.splitOn ",")

def parseMatrix (s : String) : Matrix Tok :=
  if s == "null" then none else if s == "empty" then some [] else some ((s.splitOn "/").map parseRow)

def parseKeys (s : String) : Option (List Bytes) :=
  if s == "null" then none else some (parseHexList s)

def parseIntList (s : String) : Option (List Int) :=
  if s == "-" then some [] else (s.splitOn ",").mapM parseInt?

/-- `null` | `b:<hex>` (ByteString: every byte is one number) | `a:<int,…>` (Array). `none` = malformed line -/
def parseReps (s : String) : Option (Option (List Int)) :=
  if s == "null" then some none
  else if s.startsWith "b:" then some (some ((parseHex (s.drop 2).toString).map (fun (n : Nat) => (n : Int))))
  else if s.startsWith "a:" then (parseIntList (s.drop 2).toString).map some
  else none

/-- `key=value` fields -/
def field (ws : List String) (k : String) : Option String :=
  (ws.find? (fun w => w.startsWith (k ++ "="))).map (fun w => (w.drop (k.length + 1)).toString)

def optHex (v : String) : Option Bytes := if v == "absent" then none else some (parseHex v)
def optHexList (v : String) : Option (List Bytes) := if v == "absent" then none else some (parseHexList v)
def optInt (v : String) : Option Int := if v == "absent" then none else parseInt? v

structure Parsed where
  env : Env Tok
  op : Op Tok

def parseOp (sig : String) (ws : List String) : Option Parsed :=
  let alpha := (sig.splitOn ",").contains "alpha"
  let env0 : Env Tok := { alphabet := alpha, height := 0, magic := 0, oracle := mkOracle [] }
  match ws with
  | ["add", cid, vec, keys] => (parseInt? vec).map (fun v => ⟨env0, .add (parseHex cid) v (parseKeys keys)⟩)
  | ["commit", cid, reps] => (parseReps reps).map (fun r => ⟨env0, .commit (parseHex cid) r⟩)
  | ["nodes", cid, vec] => (parseInt? vec).map (fun v => ⟨env0, .nodes (parseHex cid) v⟩)
  | ["reps", cid] => some ⟨env0, .reps (parseHex cid)⟩
  | "verify" :: cid :: msg :: rest =>
    match field rest "bad", field rest "sigs" with
    | some bad, some sigs =>
      some ⟨{ env0 with oracle := mkOracle (parseHexList bad) },
            .verify (parseHex cid) (parseHex msg) (parseMatrix sigs)⟩
    | _, _ => none
  | "submit" :: rest =>
    match field rest "kind", field rest "magic", field rest "bad", field rest "sigs" with
    | some kind, some magic, some bad, some sigs =>
      match parseInt? magic with
      | none => none
      | some mg =>
        -- the height is normalised to 0: the line carries `validuntil − CurrentIndex`
        let env : Env Tok := { alphabet := alpha, height := 0, magic := mg, oracle := mkOracle (parseHexList bad) }
        if kind != "map" then some ⟨env, .submit none [] (parseMatrix sigs)⟩
        else
          match field rest "cid", field rest "oid", field rest "net", field rest "size", field rest "del",
                field rest "lock", field rest "vubd" with
          | some cid, some oid, some net, some size, some dl, some lk, some vub =>
            let mt : Meta := { cid := optHex cid, oid := optHex oid, network := optInt net, size := optInt size,
                               deleted := optHexList dl, locked := optHexList lk, validUntil := optInt vub }
            some ⟨env, .submit (some mt) [] (parseMatrix sigs)⟩
          | _, _, _, _, _, _, _ => none
    | _, _, _, _ => none
  | _ => none

def evStr : Event → String
  | .nodesUpdate c => s!"NodesUpdate({hexOf c})"
  | .objectPut c o => s!"ObjectPut({hexOf c},{hexOf o})"

def retStr : Ret → String
  | .null => "null"
  | .bool b => if b then "true" else "false"
  | .keys l => "[" ++ joinWith "," (l.map hexOf) ++ "]"
  | .ints l => "[" ++ joinWith "," (l.map (fun (z : Int) => toString z)) ++ "]"

def fam (s : Store) (p : Nat) (val : Bytes → String) : String :=
  let items := (s.filter (fun e => e.1.head? == some p)).map (fun e => s!"{hexOf (e.1.drop 1)}={val e.2}")
  "[" ++ joinWith ";" items ++ "]"

def fmtState (s : Store) : String :=
  s!"u={fam s pU hexOf} n={fam s pN hexOf} r={fam s pR (fun b => toString (decInt b))} m={fam s pM hexOf} other=same"

/-! branch ids for the evidence histogram (recomputed from the model's own guards) -/

def brAdd (s : Store) (alpha : Bool) (cid : Bytes) (vec : Int) (keys : Option (List Bytes)) : String :=
  if cid.length ≠ cidLen then "add.badcid"
  else if vec ≥ maxREPs then "add.vec-too-big"
  else if !validatePlacementIndex s cid vec then "add.gap"
  else if !alpha then "add.nowitness"
  else match byteOf vec, keys with
    | none, _ => "add.badvec"
    | _, none => "add.nullkeys"
    | some vb, some ks =>
      if ks.any (fun k => k.length ≠ keyLen) then "add.badkey"
      else
        let c := (lastCounter s (uKey cid ++ [vb])).getD 0
        let tag := if c = 0 then "first" else "cont"
        let n := c + ks.length
        let cross := if c < 128 ∧ n ≥ 128 then ".x127" else ""
        let cross2 := if c < 256 ∧ n ≥ 256 then ".x255" else ""
        s!"add.ok.{tag}{cross}{cross2}"

def brCommit (s : Store) (alpha : Bool) (cid : Bytes) (reps : Option (List Int)) : String :=
  if cid.length ≠ cidLen then "commit.badcid"
  else if !alpha then "commit.nowitness"
  else
    let pend := if (find s (uKey cid)).isEmpty then "nopending" else "pending"
    let old := if (find s (nKey cid)).isEmpty then "fresh" else "recommit"
    match reps with
    | none => s!"commit.null.{pend}.{old}"
    | some rs =>
      if rs.any (fun r => r > maxREPs) then "commit.rep-too-big"
      else if rs.length > 256 then "commit.too-many-reps"
      else s!"commit.ok.{pend}.{old}"

def brVerify (r : Option Bool) (s : Store) (cid : Bytes) (sigs : Matrix Tok) : String :=
  match r with
  | none => "verify.fault"
  | some true => if ((replicasNumbers s cid).getD []).isEmpty then "verify.true.vacuous" else "verify.true"
  | some false =>
    let n := ((replicasNumbers s cid).getD []).length
    if matrixLen sigs < n then "verify.false.missing-vector" else "verify.false"

def branch (s : Store) (env : Env Tok) : Op Tok → String
  | .add cid vec keys => brAdd s env.alphabet cid vec keys
  | .commit cid reps => brCommit s env.alphabet cid reps
  | .nodes cid vec => if (nodes s cid vec).isSome then "nodes.ok" else "nodes.fault"
  | .reps cid => if (replicasNumbers s cid).isSome then "reps.ok" else "reps.fault"
  | .verify cid msg sigs => brVerify (verifyPlacementSignatures env.oracle s cid msg sigs) s cid sigs
  | .submit mi raw sigs =>
    match submitObjectPut s env mi raw sigs with
    | some _ => "submit.ok"
    | none =>
      match mi with
      | none => "submit.notmap"
      | some mt =>
        match mt.cid with
        | none => "submit.fault.field"
        | some cid =>
          if cid.length = cidLen ∧ (get s (mKey cid)).isNone then "submit.fault.nometa"
          else match verifyPlacementSignatures env.oracle s cid raw sigs with
            | some false => "submit.fault.sigs-or-field"
            | _ => "submit.fault.field"

def stepLine (s : Store) (line : String) : Store × List String :=
  match words line with
  | [] => (s, [])
  | "case" :: rest =>
    let cids := match field rest "meta" with
      | some v => parseHexList v
      | none => []
    (initWith cids, [line.trimAscii.toString])
  | "op" :: sig :: rest =>
    match parseOp sig rest with
    | none => (s, ["bad-op"])
    | some ⟨env, op⟩ =>
      let (s', out) := invoke s env op
      let o := match out with
        | none => "FAULT"
        | some (r, ev) => s!"HALT ret={retStr r} ev=[{joinWith ";" (ev.map evStr)}]"
      (s', [s!"{o} | {fmtState s'} br={branch s env op}"])
  | _ => (s, ["bad-line"])

def main : IO Unit := runDriver NeoFS.Placement.init stepLine
