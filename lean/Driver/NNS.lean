import NeoFS.Base.Line
import NeoFS.Model.NNS
/-! Line-protocol driver for the NNS model (properties C10, C11, C12).

op line:  `op <now> <sig> <cmt> <caller> <ip> <recv> <method> <args…>`
  now    block time in ms (for `q.*` lines: the block time of the test invocation)
  sig    comma separated hex script hashes of the Global-scope signers, `-` = none
  cmt    `k/l`: a k-of-l multisignature account of the l committee keys signs (0 = none; `1` = `1/1`)
  caller hex script hash of the forwarding contract, `-` = called from the entry script
  ip     verdict of checkIPv4/checkIPv6 on the data argument (the scanners are the subject of C18)
  recv   0/1/2: receiver is no contract / a contract with onNEP11Payment / a contract without it
The verdict of `safeSplitAndCheck` is computed here by `nameSyntaxOK`, a direct transcription kept outside
the model (the model and its theorems take the verdict as an arbitrary oracle). -/
open NeoFS NeoFS.NNS

/-- `isAlNum` -/
def isAlNum (c : Nat) : Bool := (97 ≤ c && c ≤ 122) || (48 ≤ c && c ≤ 57)

/-- `checkFragment` -/
def fragOK (v : Bytes) (isRoot : Bool) : Bool :=
  let maxLen := if isRoot then 16 else 63
  if v.length == 0 || v.length > maxLen then false else
  let c := v.headD 0
  let firstOK := if isRoot then (97 ≤ c && c ≤ 122) else isAlNum c
  let mid := (v.drop 1).dropLast
  firstOK && mid.all (fun x => x == 45 || isAlNum x) && isAlNum (v.getLastD 0)

/-- `safeSplitAndCheck(name)` succeeds -/
def nameSyntaxOK (name : Bytes) : Bool :=
  if name.length < 3 || 255 < name.length then false else
  let frags := split dot name
  let l := frags.length
  (List.range l).all (fun i => fragOK (frags.getD i []) (i + 1 == l))

def sortStrings (xs : List String) : List String := (xs.toArray.qsort (· < ·)).toList

def fmtState (s : State) : String :=
  let names := s.names.map (fun kv => s!"{hexOf kv.1}:{hexOf kv.2.owner}:{hexOf kv.2.name}:{kv.2.exp}:{hexOf kv.2.admin}")
  let roots := s.roots.map hexOf
  let bal := s.bal.map (fun kv => s!"{hexOf kv.1}:{kv.2}")
  let toks := s.toks.map (fun kv => s!"{hexOf kv.1.1}/{hexOf kv.1.2}={hexOf kv.2}")
  let recs := s.recs.map (fun kv =>
    s!"{hexOf kv.1.1}/{hexOf kv.1.2.1}/{kv.1.2.2.1}/{kv.1.2.2.2}={hexOf kv.2.name}/{kv.2.typ}/{hexOf kv.2.data}/{kv.2.id}")
  let j := fun xs => joinWith ";" (sortStrings xs)
  s!"supply={s.supply} price={s.price} roots=[{j roots}] names=[{j names}] bal=[{j bal}] toks=[{j toks}] recs=[{j recs}]"

def evStr : Event → String
  | .transfer f t a n => s!"Transfer({hexOf f},{hexOf t},{a},{hexOf n})"
  | .setAdmin n o a => s!"SetAdmin({hexOf n},{hexOf o},{hexOf a})"
  | .renew n o e => s!"Renew({hexOf n},{o},{e})"

def retStr : Ret → String
  | .null => "null"
  | .bool true => "true"
  | .bool false => "false"
  | .int z => s!"{z}"

/-- `k/l`: a k-of-l multisignature account of the l committee keys signs (k = 0: none); the short forms `0`
and `1` stand for `0/1` and `1/1` (single-member committee) -/
def parseCmt (cmt : String) : Option (Nat × Nat) :=
  match cmt.splitOn "/" with
  | [k, l] => match parseNat? k, parseNat? l with
    | some k, some l => some (k, l)
    | _, _ => none
  | [k] => (parseNat? k).map (fun k => (k, 1))
  | _ => none

def mkEnv (now sig cmt caller ip recv : String) : Option Env :=
  match parseInt? now, parseNat? recv, parseCmt cmt with
  | some t, some rc, some (k, l) => some ⟨parseHexList sig, parseHex caller, k, l, t, nameSyntaxOK, ip == "1", rc⟩
  | _, _, _ => none

def ints (xs : List String) : Option (List Int) := xs.mapM parseInt?

def parseOp (ws : List String) : Option Op :=
  match ws with
  | ["register", n, o, e, a, b, c, d] =>
    (ints [a, b, c, d]).bind fun
      | [a, b, c, d] => some (.register (parseHex n) (parseHex o) (parseHex e) a b c d)
      | _ => none
  | ["registerTLD", n, e, a, b, c, d] =>
    (ints [a, b, c, d]).bind fun
      | [a, b, c, d] => some (.registerTLD (parseHex n) (parseHex e) a b c d)
      | _ => none
  | ["transfer", to, t] => some (.transfer (parseHex to) (parseHex t))
  | ["renew", n, y] => (parseInt? y).map (.renew (parseHex n))
  | ["renewDefault", n] => some (.renew (parseHex n) 1)
  | ["updateSOA", n, e, a, b, c, d] =>
    (ints [a, b, c, d]).bind fun
      | [a, b, c, d] => some (.updateSOA (parseHex n) (parseHex e) a b c d)
      | _ => none
  | ["setAdmin", n, a] => some (.setAdmin (parseHex n) (parseHex a))
  | ["addRecord", n, t, d] => (parseInt? t).map (fun t => .addRecord (parseHex n) t (parseHex d))
  | ["setRecord", n, t, i, d] =>
    match parseInt? t, parseInt? i with
    | some t, some i => some (.setRecord (parseHex n) t i (parseHex d))
    | _, _ => none
  | ["deleteRecords", n, t] => (parseInt? t).map (.deleteRecords (parseHex n))
  | ["setPrice", p] => (parseInt? p).map .setPrice
  | _ => none

def hexList (xs : List Bytes) : String := "[" ++ joinWith "," (xs.map hexOf) ++ "]"

def recStr (r : Rec) : String := s!"{hexOf r.name}/{r.typ}/{hexOf r.data}/{r.id}"

/-- read API; `none` = unknown query, `some none` = FAULT -/
def query (s : State) (env : Env) (ws : List String) : Option (Option String) :=
  match ws with
  | ["q.totalSupply"] => some (some s!"{totalSupply s}")
  | ["q.getPrice"] => some (some s!"{s.price}")
  | ["q.roots"] => some (some ("[" ++ joinWith "," (sortStrings (s.roots.map hexOf)) ++ "]"))
  | ["q.tokens"] => some (some ("[" ++ joinWith "," (sortStrings ((tokens s).map hexOf)) ++ "]"))
  | ["q.ownerOf", n] => some ((ownerOf s env (parseHex n)).map hexOf)
  | ["q.properties", n] =>
    some ((properties s env (parseHex n)).map (fun p => s!"\{{hexOf p.1},{p.2.1},{hexOf p.2.2}}"))
  | ["q.balanceOf", o] => some ((balanceOf s (parseHex o)).map (fun z => s!"{z}"))
  | ["q.tokensOf", o] =>
    some ((tokensOf s (parseHex o)).map (fun l => "[" ++ joinWith "," (sortStrings (l.map hexOf)) ++ "]"))
  | ["q.isAvailable", n] => some ((isAvailable s env (parseHex n)).map (fun b => if b then "true" else "false"))
  | ["q.getRecords", n, t] =>
    match parseInt? t with
    | some t => some ((getRecords s env (parseHex n) t).map hexList)
    | none => none
  | ["q.getAllRecords", n] =>
    some ((getAllRecords s env (parseHex n)).map (fun l => "[" ++ joinWith "," (l.map recStr) ++ "]"))
  | ["q.resolve", n, t] =>
    match parseInt? t with
    | some t => some ((resolve s env (parseHex n) t).map hexList)
    | none => none
  | _ => none

/-! Branch labels for the evidence histogram (`br=`): which guard of the method decided the outcome, in the
order of the code. Computed here from the model's own predicates; not part of the compared observation. -/

def whyNameState (s : State) (now : Int) (n : Name) (frags : List Bytes) : Option String :=
  match mget s.names n with
  | none => some "missing"
  | some ns => if now ≥ ns.exp then some "expired" else if parentExpired s now 1 frags then some "parent-dead" else none

def whyCheckRecord (s : State) (env : Env) (n : Name) (typ : Int) (data : Bytes) : Option String :=
  if !env.nameOK n then some "syntax" else
  let tok := tokenOf s env.now n
  let ok : Option Bool :=
    if typ = 1 ∨ typ = 28 then some env.ipOK else if typ = 5 then some (env.nameOK data)
    else if typ = 16 then some (decide (data.length ≤ 255)) else none
  match ok with
  | none => some "type"
  | some false => some "data"
  | some true =>
    if isTLD tok then some "tld" else
    match whyNameState s env.now tok (split dot tok) with
    | some w => some ("token-" ++ w)
    | none => match mget s.names tok with
      | some ns => if checkAdmin env ns then none else some "auth"
      | none => some "missing"

def sub (s : State) (env : Env) (n : Name) : String :=
  let tok := tokenOf s env.now n
  if tok == n then "own" else s!"sub{(split dot n).length - (split dot tok).length}"

def why (s : State) (env : Env) (op : Op) (out : Option (Ret × List Event)) : String :=
  match op with
  | .register n o _ _ _ _ _ =>
    let frags := split dot n
    if !env.nameOK n then "syntax" else if frags.length == 1 then "tld-denied"
    else if !s.roots.contains (frags.getLastD []) then "no-root"
    else if parentExpired s env.now 1 frags then "parent-dead"
    else if frags.length > 2 && !parentAuth s env n then "parent-auth"
    else if conflict s (joinDots (frags.drop 1)) n then "conflict"
    else if o.length != 20 then "owner-len" else if !witness env o then "owner-witness"
    else if s.price ≤ 0 then "price"
    else match mget s.names n, out with
      | some ns, _ => if env.now < ns.exp then "refused-unexpired" else if out.isNone then "recv-fault" else s!"takeover.l{frags.length}"
      | none, none => "recv-fault"
      | none, _ => s!"new.l{frags.length}"
  | .registerTLD n _ _ _ _ _ =>
    if !env.committee then "auth" else if !env.nameOK n then "syntax" else if !isTLD n then "not-tld"
    else if s.roots.contains n && !parentExpired s env.now 0 (split dot n) then "exists"
    else if s.roots.contains n then "re-register-expired" else "new"
  | .transfer to t =>
    if to.length != 20 then "to-len" else if isTLD t then "tld" else
    match mget s.names t with
    | none => "missing"
    | some ns => if env.now ≥ ns.exp then "expired" else if !witness env ns.owner then "refused"
      else if out.isNone then "recv-fault" else if ns.owner == to then "self" else if env.recv == 1 then "moved-to-contract" else "moved"
  | .renew n y =>
    if y < 1 ∨ y > 10 then "years" else if n.length > 255 then "len" else if s.price * y ≤ 0 then "price" else
    match whyNameState s env.now n (split dot n) with
    | some w => w
    | none => match mget s.names n with
      | some ns => if !checkAdmin env ns then "auth" else if out.isNone then "ten-years" else (if isTLD n then "ok-tld" else "ok")
      | none => "missing"
  | .updateSOA n _ _ _ _ _ =>
    match whyNameState s env.now n (split dot n) with
    | some w => w
    | none => match mget s.names n with
      | some ns => if !checkAdmin env ns then "auth" else if out.isNone then "syntax" else "ok"
      | none => "missing"
  | .setAdmin n a =>
    if isTLD n then "tld" else if a.length != 0 && !witness env a then "admin-witness" else
    match whyNameState s env.now n (split dot n) with
    | some w => w
    | none => match mget s.names n with
      | some ns => if !witness env ns.owner then "owner-witness" else if a.length == 0 then "cleared" else "set"
      | none => "missing"
  | .addRecord n t d =>
    match whyCheckRecord s env n t d with
    | some w => w
    | none =>
      let tok := tokenOf s env.now n
      match byteOf t with
      | none => "type-byte"
      | some tb =>
        let rs := recsByType s tok n tb
        if rs.any (fun r => r.data == d) then "dup" else if rs.length > 15 then "limit"
        else if t = 5 ∧ rs.length ≠ 0 then "second-cname" else if out.isNone then "soa-bad" else s!"ok.{sub s env n}.n{rs.length}"
  | .setRecord n t i d =>
    match whyCheckRecord s env n t d with
    | some w => w
    | none =>
      let tok := tokenOf s env.now n
      match byteOf t, byteOf i with
      | some tb, some ib =>
        if (mget s.recs (tok, n, tb, ib)).isNone then "no-such-id"
        else if (recsByType s tok n tb).any (fun r => r.id != i && r.data == d) then "dup"
        else if out.isNone then "soa-bad" else s!"ok.{sub s env n}"
      | _, _ => "byte-range"
  | .deleteRecords n t =>
    if t = 6 then "soa-type" else if !env.nameOK n then "syntax" else
    let tok := tokenOf s env.now n
    if isTLD tok then "tld" else
    match whyNameState s env.now tok (split dot tok) with
    | some w => "token-" ++ w
    | none => match mget s.names tok with
      | some ns => if !checkAdmin env ns then "auth" else if (byteOf t).isNone then "byte-range"
        else if out.isNone then "soa-bad" else s!"ok.{sub s env n}"
      | none => "missing"
  | .setPrice p => if !env.committee then "auth" else if p < 0 ∨ p > 1000000000000 then "range" else "ok"

/-- how many CNAME links `resolve` follows before it answers or FAULTs -/
def resolveLinks (s : State) (env : Env) : Nat → Name → Int → Nat → String
  | 0, _, _, k => s!"budget-exhausted.after{k}"
  | fuel + 1, name, typ, k =>
    let name := if name.getLast? = some dot then name.dropLast else name
    match (if name.length = 0 then none else allRecords s env name) with
    | none => s!"unreachable.after{k}"
    | some rs =>
      let cname := ((rs.filter (fun r => r.typ == 5)).map (·.data)).getLastD []
      if cname.length = 0 ∨ typ = 5 then s!"links{k}" else resolveLinks s env fuel cname typ (k + 1)

def whyQuery (s : State) (env : Env) (ws : List String) (halt : Bool) : String :=
  match ws with
  | ["q.resolve", n, t] =>
    match parseInt? t with
    | some t => if isTLD (parseHex n) then "tld" else resolveLinks s env 3 (parseHex n) t 0
    | none => "?"
  | ["q.getRecords", n, _] | ["q.getAllRecords", n] =>
    let n := parseHex n
    if halt then sub s env n else
    if isTLD n then "tld" else if !env.nameOK n then "syntax" else
    let tok := tokenOf s env.now n
    match whyNameState s env.now tok (split dot tok) with
    | some w => s!"{w}.{sub s env n}"
    | none => "?"
  | ["q.isAvailable", n] =>
    let n := parseHex n
    if !halt then "fault" else if live s env.now n then "registered" else
    if isTLD n then "tld" else if parentExpired s env.now 1 (split dot n) then "parent-dead"
    else if conflict s (joinDots ((split dot n).drop 1)) n then "conflict" else "free"
  | _ => if halt then "halt" else "fault"

def stepLine (s : State) (line : String) : State × List String :=
  match words line with
  | [] => (s, [])
  | "case" :: _ => (NeoFS.NNS.init, [line.trimAscii.toString])
  | "op" :: now :: sig :: cmt :: caller :: ip :: recv :: rest =>
    match mkEnv now sig cmt caller ip recv with
    | none => (s, ["bad-env"])
    | some env =>
      match rest with
      | ["tick"] => (s, [s!"HALT ret=null ev=[] | {fmtState s}"])
      | m :: _ =>
        if m.startsWith "q." then
          match query s env rest with
          | none => (s, ["bad-query"])
          | some none => (s, [s!"FAULT | - br={m}.{whyQuery s env rest false}"])
          | some (some r) => (s, [s!"HALT ret={r} | - br={m}.{whyQuery s env rest true}"])
        else
          match parseOp rest with
          | none => (s, ["bad-op"])
          | some op =>
            let (s', out) := invoke s env op
            match out with
            | none => (s', [s!"FAULT | {fmtState s'} br={m}.{why s env op out}"])
            | some (r, ev) =>
              (s', [s!"HALT ret={retStr r} ev=[{joinWith ";" (ev.map evStr)}] | {fmtState s'} br={m}.{why s env op out}"])
      | [] => (s, ["bad-op"])
  | _ => (s, ["bad-line"])

def main : IO Unit := runDriver NeoFS.NNS.init stepLine
