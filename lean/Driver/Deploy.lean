import NeoFS.Base.Line
import Driver.DeployHelpers
import Driver.NotaryBootstrap
/-! Line-protocol driver for property C13: helper ops go to the model of the pure helpers
(NeoFS/Model/DeployHelpers.lean), `boot`/`deploy` schedule ops to the Notary bootstrap model
(NeoFS/Model/NotaryBootstrap.lean). Stateless: every op line is evaluated on its own. -/
open NeoFS

def evalOp (ws : List String) : String :=
  match ws with
  | "boot" :: _ => Driver.NotaryBootstrap.evalOp ws
  | "deploy" :: _ => Driver.NotaryBootstrap.evalOp ws
  | "upgrade" :: _ => Driver.NotaryBootstrap.evalOp ws
  | _ => Driver.DeployHelpers.evalOp ws

def stepLine (s : Unit) (line : String) : Unit × List String :=
  match words line with
  | [] => (s, [])
  | "case" :: _ => (s, [line.trimAscii.toString])
  | "op" :: rest => (s, [evalOp rest])
  | _ => (s, ["bad-line"])

def main : IO Unit := runDriver () stepLine
