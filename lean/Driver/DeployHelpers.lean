import NeoFS.Base.Line
import NeoFS.Model.DeployHelpers
/-! Line-protocol evaluation of the pure deployment helpers (property C13, layer 1); `main` is in Driver/Deploy.lean.
Stateless: every op line is evaluated on its own. SHA-256 is not computed here: the harness passes
the digest of the serialised shared data next to the arguments. -/
namespace Driver.DeployHelpers
open NeoFS NeoFS.DeployHelpers

def parseShared (s v n : String) : Option Shared :=
  match parseNat? v, parseNat? n with
  | some v, some n => some ⟨parseHex s, v, n⟩
  | _, _ => none

def evalOp (ws : List String) : String :=
  match ws with
  | ["divide", a, n] =>
    match parseNat? a, parseInt? n with
    | some a, some n =>
      match divideFundsEvenly a n with
      | none => "FAULT br=div.panic"
      | some calls =>
        let br := if n < 0 then "div.neg" else if calls.isEmpty then "div.none"
          else if calls.length < n.toNat then "div.short" else if a % n.toNat = 0 then "div.even" else "div.rem"
        s!"HALT ret=[{joinWith ";" (calls.map (fun c => s!"{c.1}:{c.2}"))}] br={br}"
    | _, _ => "bad-op"
  | ["window", h, st] =>
    match parseNat? h with
    | some h =>
      match modifier (if st == "-" then "" else st) h.toUInt32 with
      | none => "FAULT br=win.state"
      | some (nonce, vub) =>
        let br := if vub == maxU32 then "win.sat" else "win.plain"
        s!"HALT ret={nonce.toNat},{vub.toNat} br={br}"
    | none => "bad-op"
  | "windowseq" :: st :: hs =>
    match hs.mapM parseNat? with
    | some hs =>
      let rs := modifierSeq (if st == "-" then "" else st) (hs.map Nat.toUInt32)
      if rs.all Option.isNone then "FAULT br=winseq.state"
      else
        let items := rs.map (fun r => match r with
          | some (nonce, vub) => s!"{nonce.toNat}:{vub.toNat}"
          | none => "ERR")
        let ws := (hs.map (· / 100)).eraseDups.length
        s!"HALT ret=[{joinWith ";" items}] br=winseq.windows{if ws ≥ 3 then "3+" else toString ws}"
    | none => "bad-op"
  | ["encode", s, v, n] =>
    match parseShared s v n with
    | some x => s!"HALT ret={hexOf x.bytes},{hexOf x.encodeToString} br=enc"
    | none => "bad-op"
  | ["decode", s] =>
    match decodeString (parseHex s) with
    | none => if (b64Dec (parseHex s)).isNone then "FAULT br=dec.base64" else "FAULT br=dec.length"
    | some x => s!"HALT ret={hexOf x.sender},{x.vub},{x.nonce} br=dec.ok"
  | ["unshift", s, v, n, data, dig] =>
    match parseShared s v n with
    | some x => s!"HALT ret={hexOf (unshiftChecksum (fun _ => parseHex dig) x (parseHex data))} br=unshift"
    | none => "bad-op"
  | ["shift", s, v, n, data, dig] =>
    match parseShared s v n with
    | some x =>
      let r := shiftChecksum (fun _ => parseHex dig) x (parseHex data)
      let br := if r.1 then "shift.ok" else if (parseHex data).length < checksumLen then "shift.short" else "shift.mismatch"
      s!"HALT ret={r.1},{hexOf r.2} br={br}"
    | none => "bad-op"
  | ["matches", s, v, n, tn, tv, sg] =>
    match parseShared s v n, parseNat? tn, parseNat? tv with
    | some x, some tn, some tv => s!"HALT ret={sharedTxDataMatches tn tv (parseHexList sg) x} br=matches"
    | _, _, _ => "bad-op"
  | ["sigdomain", i] =>
    match parseInt? i with
    | some i => s!"HALT ret={sigDomain i} br=sigdomain"
    | none => "bad-op"
  | ["alphadomain", i] =>
    match parseInt? i with
    | some i => s!"HALT ret={alphabetDomain i} br=alphadomain"
    | none => "bad-op"
  | _ => "bad-op"

end Driver.DeployHelpers
