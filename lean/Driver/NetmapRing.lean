import NeoFS.Base.Line
import NeoFS.Model.NetmapRing
/-! Line-protocol driver for the Netmap snapshot-ring model (property C08).
Op lines: `op <sig> tick <epoch> | resize <count> | addpeer <i> | addnode <i> | delnode <i>`,
`<sig>` = `-` or a `+`-joined subset of `alpha`, `cmt`, `m0`, `node`. -/
open NeoFS NeoFS.NetmapRing

def insBy {α : Type} (lt : α → α → Bool) (a : α) : List α → List α
  | [] => [a]
  | b :: l => if lt a b then a :: b :: l else b :: insBy lt a l
def sortBy {α : Type} (lt : α → α → Bool) : List α → List α
  | [] => []
  | a :: l => insBy lt a (sortBy lt l)

def dedup (xs : List Int) : List Int :=
  xs.foldr (fun x acc => match acc with | y :: _ => if x == y then acc else x :: acc | [] => [x]) []

def mapStr (m : NMap) : String := joinWith "." (m.map toString)
def optMapStr : Option NMap → String
  | none => "F"
  | some m => mapStr m

def hex8 (b : Bytes) : String := String.ofList (b.flatMap (fun n => [Nat.digitChar (n / 16), Nat.digitChar (n % 16)]))

def bytesLt : Bytes → Bytes → Bool
  | [], [] => false
  | [], _ => true
  | _, [] => false
  | a :: x, b :: y => if a < b then true else if b < a then false else bytesLt x y

def fmtRaw (s : State) : String :=
  let ring := (sortBy (fun a b => a.1 < b.1) s.ring).map (fun kv => s!"{kv.1}:{mapStr kv.2}")
  let pl := (sortBy (fun a b => bytesLt a.1 b.1) (s.pl.filter (fun kv => kv.2 != []))).map (fun kv => s!"{hex8 kv.1}:{mapStr kv.2}")
  s!"cnt={s.count} id={s.id} cur={s.cur} ring=[{joinWith ";" ring}] pl=[{joinWith ";" pl}] c1=[{mapStr s.c1}] c2=[{mapStr s.c2}]"

def winCap : Nat := 13

def intRange (a b : Int) : List Int := (List.range (b - a + 1).toNat).map (fun (i : Nat) => a + (i : Int))

def diffWindow (cnt : Nat) : List Int :=
  let m : Int := min cnt winCap
  dedup (sortBy (fun a b => decide (a < b)) (intRange (-1) (m + 1) ++ [(cnt : Int) - 1, cnt, (cnt : Int) + 1]))

def epochWindow (cnt cur : Nat) : List Int :=
  let m : Int := min cnt winCap
  let c : Int := cur
  dedup (sortBy (fun a b => decide (a < b)) (intRange (c - m - 2) (c + 2) ++ [c - cnt - 1, c - cnt, c - cnt + 1]))

/-- the windows are computed from min(count, 2^40) and min(epoch, 2^41), as in the harness -/
def fmtRead (s : State) : String :=
  let cw := min s.count (2 ^ 40)
  let ew := min s.cur (2 ^ 41)
  let ds := diffWindow cw
  let es := epochWindow cw ew
  let snap := ds.map (fun d => s!"{d}:{optMapStr (snapshot s d)}")
  let byE := es.map (fun e => s!"{e}:{optMapStr (snapshotByEpoch s e)}")
  let ln := es.map (fun e => s!"{e}:{mapStr (listNodes s e)}")
  let next := if (newEpoch s ⟨true, false⟩ ((s.cur : Int) + 1)).isSome then "H" else "F"
  s!"snap=[{joinWith ";" snap}] byE=[{joinWith ";" byE}] ln=[{joinWith ";" ln}] nm={optMapStr (netmap s)} ep={s.cur} next={next}"

def parseEnv (sig : String) : Env :=
  let parts := if sig == "-" then [] else sig.splitOn "+"
  ⟨parts.contains "alpha", parts.contains "node"⟩

def parseOp (ws : List String) : Option Op :=
  match ws with
  | ["tick", e] => (parseInt? e).map .newEpoch
  | ["tick", e, "q"] => (parseInt? e).map .newEpoch
  | ["resize", k] => (parseInt? k).map .updateSnapshotCount
  | ["addpeer", i] => (parseNat? i).map .addPeerIR
  | ["addnode", i] => (parseNat? i).map .addNode
  | ["delnode", i] => (parseNat? i).map .deleteNode
  | _ => none

def evStr : Op → String
  | .newEpoch e => s!"NewEpoch({e})"
  | .updateSnapshotCount _ => ""
  | .addPeerIR _ => "AddPeerSuccess"
  | .addNode _ => "AddNode"
  | .deleteNode _ => "UpdateStateSuccess"

def isRingOp : Op → Bool
  | .newEpoch _ => true
  | .updateSnapshotCount _ => true
  | _ => false

def stepLine (s : State) (line : String) : State × List String :=
  match words line with
  | [] => (s, [])
  | "case" :: _ => (NeoFS.NetmapRing.init, [line.trimAscii.toString])
  | "op" :: sig :: rest =>
    match parseOp rest with
    | none => (s, ["bad-op"])
    | some op =>
      let env := parseEnv sig
      let br := branch s env op
      let (s', ok) := invoke s env op
      let head := if ok then s!"HALT ev=[{evStr op}]" else "FAULT"
      let quiet := rest.getLast? == some "q"
      let tail := if isRingOp op && !quiet then s!" | {fmtRead s'}" else ""
      (s', [s!"{head} | {fmtRaw s'}{tail} br={br}"])
  | _ => (s, ["bad-line"])

def main : IO Unit := runDriver NeoFS.NetmapRing.init stepLine
