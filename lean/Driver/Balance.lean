import NeoFS.Base.Line
import NeoFS.Model.Balance
import NeoFS.Model.BalanceSystem
/-! Line-protocol driver for the Balance model (properties C01, C02, C09). -/
open NeoFS NeoFS.Balance

def evStr : Event → String
  | .transfer f t a => s!"Transfer({hexOf f},{hexOf t},{a})"
  | .transferX f t a d => s!"TransferX({hexOf f},{hexOf t},{a},{hexOf d})"
  | .lock d f t a u => s!"Lock({hexOf d},{hexOf f},{hexOf t},{a},{u})"

/-- sig: "alpha" | "cmt" | "-" | hex,hex,...   caller: hex | "-" -/
def parseEnv (sig caller : String) : Env :=
  if sig == "alpha" then ⟨[], parseHex caller, true⟩
  else if sig == "cmt" then ⟨[], parseHex caller, false⟩   -- committee majority: not the Alphabet account
  else ⟨parseHexList sig, parseHex caller, false⟩

def parseOp (ws : List String) : Option Op :=
  match ws with
  | ["transfer", f, t, a] => (parseInt? a).map (fun a => .transfer (parseHex f) (parseHex t) a)
  | ["transferX", f, t, a, d] => (parseInt? a).map (fun a => .transferX (parseHex f) (parseHex t) a (parseHex d))
  | ["mint", t, a, d] => (parseInt? a).map (fun a => .mint (parseHex t) a (parseHex d))
  | ["burn", f, a, d] => (parseInt? a).map (fun a => .burn (parseHex f) a (parseHex d))
  | ["lock", d, f, t, a, u] =>
    match parseInt? a, parseInt? u with
    | some a, some u => some (.lock (parseHex d) (parseHex f) (parseHex t) a u)
    | _, _ => none
  | ["tick", e] => (parseInt? e).map .newEpoch
  | _ => none

def fmtState (s : State) : String :=
  -- empty records (balance 0, no lock) read like missing ones through every API: not printed (the harness does the same)
  let ks := (isort (s.accts.map (·.1))).filter (fun k => let a := getAcc s.accts k; !(a.bal == 0 && a.till == 0 && a.parent.isEmpty))
  let items := ks.map (fun k => let a := getAcc s.accts k; s!"{hexOf k}:{a.bal}:{a.till}:{hexOf a.parent}")
  s!"supply={s.supply} accts=[{joinWith ";" items}]"

def stepLine (s : State) (line : String) : State × List String :=
  match words line with
  | [] => (s, [])
  | "case" :: _ => (NeoFS.Balance.init, [line.trimAscii.toString])
  | "op" :: sig :: caller :: rest =>
    match parseOp rest with
    | none => (s, ["bad-op"])
    | some op =>
      let (s', out) := invoke s (parseEnv sig caller) op
      let o := match out with
        | none => "FAULT"
        | some (r, ev) =>
          let rs := match r with | none => "null" | some true => "true" | some false => "false"
          s!"HALT ret={rs} ev=[{joinWith ";" (ev.map evStr)}]"
      (s', [s!"{o} | {fmtState s'}"])
  | _ => (s, ["bad-line"])

/-- the harness operation `nmtick` is a real `netmap.newEpoch(e)` transaction on a chain where Balance is subscribed: the
driver runs the composed model `NeoFS.BalanceSystem` (Netmap's epoch gate + the nested Balance tick) -/
def fmtOut (s' : State) (out : Option (Option Bool × List Event)) : String :=
  let o := match out with
    | none => "FAULT"
    | some (r, ev) =>
      let rs := match r with | none => "null" | some true => "true" | some false => "false"
      s!"HALT ret={rs} ev=[{joinWith ";" (ev.map evStr)}]"
  s!"{o} | {fmtState s'}"

def stepLineD (d : BalanceSystem.State) (line : String) : BalanceSystem.State × List String :=
  match words line with
  | "case" :: _ => (BalanceSystem.init, [line.trimAscii.toString])
  | ["op", sig, caller, "nmtick", e] =>
    match parseInt? e with
    | none => (d, ["bad-op"])
    | some e =>
      let (d', out) := BalanceSystem.invoke d (parseEnv sig caller) (.nmtick e)
      (d', [fmtOut d'.bal out])
  | "op" :: sig :: caller :: rest =>
    match parseOp rest with
    | none => (d, ["bad-op"])
    | some op =>
      let (d', out) := BalanceSystem.invoke d (parseEnv sig caller) (.bal op)
      (d', [fmtOut d'.bal out])
  | [] => (d, [])
  | _ => (d, ["bad-line"])
def main : IO Unit := runDriver BalanceSystem.init stepLineD
