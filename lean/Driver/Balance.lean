import NeoFS.Base.Line
import NeoFS.Model.Balance
/-! Line-protocol driver for the Balance model (properties C01, C02, C09). -/
open NeoFS NeoFS.Balance

def evStr : Event → String
  | .transfer f t a => s!"Transfer({hexOf f},{hexOf t},{a})"
  | .transferX f t a d => s!"TransferX({hexOf f},{hexOf t},{a},{hexOf d})"
  | .lock d f t a u => s!"Lock({hexOf d},{hexOf f},{hexOf t},{a},{u})"

/-- sig: "alpha" | "cmt" | "-" | hex,hex,...   caller: hex | "-" -/
def parseEnv (sig caller : String) : Env :=
  if sig == "alpha" then ⟨[], parseHex caller, true⟩
  else if sig == "cmt" then ⟨[], parseHex caller, false⟩   -- committee majority: not the Alphabet account
  else ⟨parseHexList sig, parseHex caller, false⟩

def parseOp (ws : List String) : Option Op :=
  match ws with
  | ["transfer", f, t, a] => (parseInt? a).map (fun a => .transfer (parseHex f) (parseHex t) a)
  | ["transferX", f, t, a, d] => (parseInt? a).map (fun a => .transferX (parseHex f) (parseHex t) a (parseHex d))
  | ["mint", t, a, d] => (parseInt? a).map (fun a => .mint (parseHex t) a (parseHex d))
  | ["burn", f, a, d] => (parseInt? a).map (fun a => .burn (parseHex f) a (parseHex d))
  | ["lock", d, f, t, a, u] =>
    match parseInt? a, parseInt? u with
    | some a, some u => some (.lock (parseHex d) (parseHex f) (parseHex t) a u)
    | _, _ => none
  | ["tick", e] => (parseInt? e).map .newEpoch
  | _ => none

def fmtState (s : State) : String :=
  -- empty records (balance 0, no lock) read like missing ones through every API: not printed (the harness does the same)
  let ks := (isort (s.accts.map (·.1))).filter (fun k => let a := getAcc s.accts k; !(a.bal == 0 && a.till == 0 && a.parent.isEmpty))
  let items := ks.map (fun k => let a := getAcc s.accts k; s!"{hexOf k}:{a.bal}:{a.till}:{hexOf a.parent}")
  s!"supply={s.supply} accts=[{joinWith ";" items}]"

def stepLine (s : State) (line : String) : State × List String :=
  match words line with
  | [] => (s, [])
  | "case" :: _ => (NeoFS.Balance.init, [line.trimAscii.toString])
  | "op" :: sig :: caller :: rest =>
    match parseOp rest with
    | none => (s, ["bad-op"])
    | some op =>
      let (s', out) := invoke s (parseEnv sig caller) op
      let o := match out with
        | none => "FAULT"
        | some (r, ev) =>
          let rs := match r with | none => "null" | some true => "true" | some false => "false"
          s!"HALT ret={rs} ev=[{joinWith ";" (ev.map evStr)}]"
      (s', [s!"{o} | {fmtState s'}"])
  | _ => (s, ["bad-line"])

/-- driver state: the Balance model state and (glue, modelled by C06) Netmap's epoch counter, needed only for the
`nmtick` operation: Netmap.newEpoch(e) FAULTs unless Alphabet-witnessed and `e` exceeds its current epoch, otherwise
it calls `newEpoch(e)` on the subscribed Balance contract in the same transaction -/
structure DState where
  s : State
  nmEpoch : Int

def fmtOut (s' : State) (out : Option (Option Bool × List Event)) : String :=
  let o := match out with
    | none => "FAULT"
    | some (r, ev) =>
      let rs := match r with | none => "null" | some true => "true" | some false => "false"
      s!"HALT ret={rs} ev=[{joinWith ";" (ev.map evStr)}]"
  s!"{o} | {fmtState s'}"

def stepLineD (d : DState) (line : String) : DState × List String :=
  match words line with
  | "case" :: _ => (⟨NeoFS.Balance.init, 0⟩, [line.trimAscii.toString])
  | ["op", sig, caller, "nmtick", e] =>
    match parseInt? e with
    | none => (d, ["bad-op"])
    | some e =>
      let env := parseEnv sig caller
      if env.alphabet && decide (d.nmEpoch < e) then
        let (s', out) := invoke d.s env (.newEpoch e)
        match out with
        | none => (d, [fmtOut d.s none])
        | some _ => (⟨s', e⟩, [fmtOut s' out])
      else (d, [fmtOut d.s none])
  | _ =>
    let (s', outs) := stepLine d.s line
    (⟨s', d.nmEpoch⟩, outs)
def main : IO Unit := runDriver (⟨NeoFS.Balance.init, 0⟩ : DState) stepLineD
