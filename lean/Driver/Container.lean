import NeoFS.Base.Line
import NeoFS.Model.Container
/-! Line-protocol driver for the Container model (properties C04, C05). -/
open NeoFS NeoFS.Container

structure DState where
  env : Env
  s : State

def hexList (l : List Bytes) : String := joinWith "," (l.map hexOf)

def sortB (l : List Bytes) : List Bytes := Balance.isort l

def cnrStr (c : Cnr) : String := s!"{hexOf c.value}:{hexOf c.sig}:{hexOf c.pub}:{hexOf c.token}"

def evStr : Ev → String
  | .putSuccess c p => s!"PutSuccess({hexOf c},{hexOf p})"
  | .deleteSuccess c => s!"DeleteSuccess({hexOf c})"
  | .setEACLSuccess c p => s!"SetEACLSuccess({hexOf c},{hexOf p})"
  | .bal (.transfer f t a) => s!"Transfer({hexOf f},{hexOf t},{a})"
  | .bal (.transferX f t a d) => s!"TransferX({hexOf f},{hexOf t},{a},{hexOf d})"
  | .bal (.lock d f t a u) => s!"Lock({hexOf d},{hexOf f},{hexOf t},{a},{u})"

def retStr : Ret → String
  | .null => "null"
  | .cnr c => s!"({cnrStr c})"
  | .bytes b => hexOf b
  | .optBytes none => "null"
  | .optBytes (some b) => hexOf b
  | .int n => toString n
  | .list l => s!"[{hexList (sortB l)}]"

def fmtState (s : State) : String :=
  let xs := (sortB (AL.keys s.x)).map (fun k => s!"{hexOf k}:{cnrStr ((AL.get s.x k).getD emptyCnr)}")
  let okeys := sortB (s.o.map (fun kv => kv.1.1 ++ kv.1.2))
  let os := okeys.map (fun k =>
    match s.o.find? (fun kv => kv.1.1 ++ kv.1.2 == k) with
    | some kv => s!"{hexOf kv.1.1}:{hexOf kv.1.2}:{hexOf kv.2}"
    | none => "?")
  let es := (sortB (AL.keys s.eacl)).map (fun k => s!"{hexOf k}:{cnrStr ((AL.get s.eacl k).getD emptyCnr)}")
  let als := (sortB (AL.keys s.alias)).map (fun k => s!"{hexOf k}:{hexOf ((AL.get s.alias k).getD [])}")
  let ds := (sortB (AL.keys s.doms)).map (fun k =>
    let dm := (AL.get s.doms k).getD ⟨[], []⟩
    s!"{hexOf k}:{hexOf dm.owner}:{hexList (sortB dm.txt)}")
  let cs := (sortB (AL.keys s.cfg)).map (fun k => s!"{hexOf k}:{hexOf ((AL.get s.cfg k).getD [])}")
  let bs := (sortB (s.bal.accts.map (·.1))).map (fun k => s!"{hexOf k}:{(Balance.getAcc s.bal.accts k).bal}")
  s!"x=[{joinWith ";" xs}] o=[{joinWith ";" os}] d=[{hexList (sortB s.d)}] m=[{hexList (sortB s.m)}] " ++
  s!"eacl=[{joinWith ";" es}] alias=[{joinWith ";" als}] unk=[] doms=[{joinWith ";" ds}] cfg=[{joinWith ";" cs}] " ++
  s!"bal=[{joinWith ";" bs}] supply={s.bal.supply}"

def parseWit (w : String) : List Bytes := parseHexList w

def parseMut (ws : List String) : Option (List Bytes × Op) :=
  match ws with
  | ["setcfg", w, k, v] => some (parseWit w, .setcfg (parseHex k) (parseHex v))
  | ["mint", w, t, a, d] => (parseInt? a).map (fun a => (parseWit w, .bal (.mint (parseHex t) a (parseHex d))))
  | ["burn", w, f, a, d] => (parseInt? a).map (fun a => (parseWit w, .bal (.burn (parseHex f) a (parseHex d))))
  | ["prereg", dm, o] => some ([], .prereg (parseHex dm) (parseHex o))
  | ["put", w, cid, b, sg, p, t] =>
    some (parseWit w, .put (parseHex cid) (parseHex b) (parseHex sg) (parseHex p) (parseHex t) [] [] none)
  | ["putn", w, cid, b, sg, p, t, n, z] =>
    some (parseWit w, .put (parseHex cid) (parseHex b) (parseHex sg) (parseHex p) (parseHex t) (parseHex n) (parseHex z) none)
  | ["putm", w, cid, b, sg, p, t, f] =>
    some (parseWit w, .put (parseHex cid) (parseHex b) (parseHex sg) (parseHex p) (parseHex t) [] [] (some (f == "1")))
  | ["del", w, cid, sg, t] => some (parseWit w, .delete (parseHex cid) (parseHex sg) (parseHex t))
  | ["seteacl", w, tb, sg, p, t] => some (parseWit w, .setEACL (parseHex tb) (parseHex sg) (parseHex p) (parseHex t))
  | _ => none

def parseRead (ws : List String) : Option Op :=
  match ws with
  | ["get", c] => some (.get (parseHex c))
  | ["owner", c] => some (.owner (parseHex c))
  | ["alias", c] => some (.alias (parseHex c))
  | ["eacl", c] => some (.eacl (parseHex c))
  | ["count"] => some .count
  | ["list", o] => some (.list (parseHex o))
  | ["cof", o] => some (.containersOf (parseHex o))
  | _ => none

def faultStr : Fault → String
  | .notFound => "FAULT:notfound"
  | .deleted => "FAULT:deleted"
  | .other => "FAULT"

/-- which branch of the model an operation takes (feeds the branch histogram of the evidence; the guards are
re-evaluated in the order of `putStep` / `deleteStep` / `setEACLStep`) -/
def branchOf (env : Env) (s : State) : Op → String
  | .setcfg .. => if alphaWitness env then "setcfg.halt" else "setcfg.fault.witness"
  | .bal (.mint ..) => "mint"
  | .bal (.burn ..) => "burn"
  | .bal _ => "bal"
  | .prereg .. => "prereg"
  | .put cid blob _ pub token name zone mt =>
    let s0 := if mt = some true then { s with m := sadd s.m cid } else s
    let kind := match mt with | none => (if name = [] then "put" else "putn") | some true => "putm1" | some false => "putm0"
    match ownerOf blob with
    | none => kind ++ ".fault.blob"
    | some owner =>
      if cid ∈ s0.d then kind ++ ".fault.deleted" else
      let named := decide (name ≠ [])
      let domain := name ++ dot :: (if zone = [] then env.root else zone)
      match (if named then checkNiceName env s0 domain else .ok false) with
      | .error _ =>
        (match nnsIsAvailable s0 domain with
         | .error _ => kind ++ ".fault.name-invalid"
         | .ok _ => match nnsOwnerOf s0 domain with
           | .error _ => kind ++ ".fault.name-owner"
           | .ok o => if o ≠ env.cmtAddr ∧ o ≠ env.self then kind ++ ".fault.name-foreign" else kind ++ ".fault.name-taken")
      | .ok needReg =>
        match putFee s0 named with
        | none => kind ++ ".fault.fee-config"
        | some fee =>
          let frm := walletToScriptHash owner
          let n : Int := env.alphabet.length
          let b := (Balance.getAcc s0.bal.accts frm).bal
          if b < fee * n then (if b + 1 = fee * n then kind ++ ".fault.balance-1" else kind ++ ".fault.balance")
          else if !alphaWitness env then kind ++ ".fault.witness"
          else match payFees env frm fee (feeDetails cid) env.alphabet (s0.bal, []) with
            | none => kind ++ ".fault.transfer"
            | some (b', _) =>
              let s1 := { s0 with bal := b', o := AL.put s0.o (owner, cid) cid, x := AL.put s0.x cid ⟨blob, [], pub, token⟩ }
              match (if named then putAlias env s1 cid domain needReg else .ok s1) with
              | .error _ => kind ++ ".fault.nns"
              | .ok _ =>
                if token.length = 0 && pub.length ≠ 33 then kind ++ ".fault.addkey"
                else if pub.length ≠ 33 then kind ++ ".fault.notify"
                else
                  let re := if (AL.get s.x cid).isSome then ".reput" else ".fresh"
                  let al := if named then (if needReg then ".register" else ".existing-domain") ++
                              (match AL.get s.alias cid with | some _ => ".realias" | none => "") else ""
                  let bd := if b = fee * n then ".exact" else if b = fee * n + 1 then ".plus1" else ""
                  let ow := if frm ∈ env.alphabet then ".owner-is-alphabet" else ""
                  let z := if fee = 0 then ".fee0" else ""
                  kind ++ ".halt" ++ re ++ al ++ bd ++ ow ++ z
  | .delete cid _ _ =>
    match AL.get s.x cid with
    | none => if cid ∈ s.d then "del.silent.tombstoned" else "del.silent.missing"
    | some _ =>
      if !alphaWitness env then "del.fault.witness" else
      match AL.get s.alias cid with
      | none => "del.halt.noalias"
      | some domain =>
        match nnsDeleteTXT env s.doms domain with
        | .error _ => "del.fault.nns-admin"
        | .ok _ => "del.halt.alias"
  | .setEACL table _ pub _ =>
    match eaclCID table with
    | none => if table.length < 2 then "eacl.fault.version" else "eacl.fault.cid"
    | some cid =>
      match AL.get s.x cid with
      | none => "eacl.fault.notfound"
      | some _ =>
        if !alphaWitness env then "eacl.fault.witness"
        else if pub.length ≠ 33 then "eacl.fault.notify"
        else if (AL.get s.eacl cid).isSome then "eacl.halt.replace" else "eacl.halt.first"
  | .get _ => "rd.get" | .owner _ => "rd.owner" | .alias _ => "rd.alias" | .eacl _ => "rd.eacl"
  | .count => "rd.count"
  | .list o => if o.length = 0 then "rd.list.all" else if o.length = 25 then "rd.list.owner" else "rd.list.prefix"
  | .containersOf o => if o.length = 0 then "rd.cof.all" else if o.length = 25 then "rd.cof.owner" else "rd.cof.prefix"

def dflt : DState := ⟨⟨[], [], [], [], [], []⟩, Container.init []⟩

def initLine (self alpha cmt alphabet root roots : String) : DState × List String :=
  let env : Env := ⟨parseHex self, parseHex alpha, parseHex cmt, parseHexList alphabet, parseHex root, []⟩
  let s := Container.init (parseHexList roots)
  (⟨env, s⟩, [s!"INIT | {fmtState s}"])

def stepLine (st : DState) (line : String) : DState × List String :=
  match words line with
  | [] => (st, [])
  | "case" :: _ => (dflt, [line.trimAscii.toString])
  | ["op", "init", self, alpha, cmt, alphabet, root, roots] => initLine self alpha cmt alphabet root roots
  -- trailing `vals=<v>`: number of consensus nodes of the chain (harness-side chain shape). The Alphabet the
  -- contract pays is the committee = the accounts listed in `alphabet`, whatever the validator count.
  | ["op", "init", self, alpha, cmt, alphabet, root, roots, _vals] => initLine self alpha cmt alphabet root roots
  | "op" :: rest =>
    match parseRead rest with
    | some op =>
      match (invoke st.env st.s op).2 with
      | .error e => (st, [faultStr e ++ s!" br={branchOf st.env st.s op}.fault"])
      | .ok (r, _) => (st, [s!"HALT ret={retStr r} br={branchOf st.env st.s op}.halt"])
    | none =>
      match parseMut rest with
      | none => (st, ["bad-op"])
      | some (wit, op) =>
        let env := { st.env with wit := wit }
        let (s', out) := invoke env st.s op
        let br := branchOf env st.s op
        let o := match out with
          | .error e => faultStr e ++ s!" br={br}"
          | .ok (_, ev) => s!"HALT ev=[{joinWith ";" (ev.map evStr)}] br={br}"
        (⟨st.env, s'⟩, [s!"{o} | {fmtState s'}"])
  | _ => (st, ["bad-line"])

def main : IO Unit := runDriver dflt stepLine
