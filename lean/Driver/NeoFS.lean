import NeoFS.Base.Line
import NeoFS.Model.NeoFSMain
import NeoFS.Model.AlphabetEmit
/-! Line-protocol driver for the main-chain governance models (properties C17, C19).

Two case kinds: `main` (the NeoFS contract, `NeoFS.Main.step`) and `gov` (Alphabet `emit` and the
payment callbacks, `NeoFS.Alphabet`).  Byte strings on op lines are `#TAG` (public key of an actor),
`@TAG` (its account), `-` (empty) or hex; the case line carries the table `tab=tag:key:account,…`.
Output uses the same abbreviation so that lines stay readable. -/
open NeoFS NeoFS.Vote

namespace Drv

structure Actor where
  tag : String
  key : Bytes
  acc : Bytes

abbrev Tab := List Actor

def splitAttrs (ws : List String) : List String × List (String × String) :=
  ws.foldl (fun (acc : List String × List (String × String)) w =>
    if w.startsWith "#" || w.startsWith "@" then (acc.1 ++ [w], acc.2)
    else match w.splitOn "=" with
      | [k, v] => if k.isEmpty then (acc.1 ++ [w], acc.2) else (acc.1, acc.2 ++ [(k, v)])
      | _ => (acc.1 ++ [w], acc.2)) ([], [])

def attr (as : List (String × String)) (k : String) : Option String := (as.find? (·.1 == k)).map (·.2)
def attrD (as : List (String × String)) (k d : String) : String := (attr as k).getD d

def parseTab (s : String) : Tab :=
  (s.splitOn ",").filterMap (fun e => match e.splitOn ":" with
    | [t, k, a] => some ⟨t, parseHex k, parseHex a⟩
    | _ => none)

def Tab.find (t : Tab) (tag : String) : Option Actor := List.find? (fun a => a.tag == tag) t

/-- `dyn`: the mutable account `saddr` -/
def resolve (t : Tab) (dyn : Bytes) (tok : String) : Bytes :=
  if tok.startsWith "#" then ((t.find (tok.drop 1).toString).map (·.key)).getD []
  else if tok.startsWith "@" then
    let tag := (tok.drop 1).toString
    if tag == "saddr" then dyn else ((t.find tag).map (·.acc)).getD []
  else parseHex tok

def resolveSig (t : Tab) (dyn : Bytes) (sig : String) : List Bytes :=
  if sig == "-" then [] else (sig.splitOn ",").map (fun tag =>
    if tag == "saddr" then dyn else ((t.find tag).map (·.acc)).getD [])

def showB (t : Tab) (b : Bytes) : String :=
  match (if b.length == 33 then List.find? (fun (a : Actor) => a.key == b) t else none) with
  | some a => "#" ++ a.tag
  | none =>
    match (if b.length == 20 then List.find? (fun (a : Actor) => a.tag != "saddr" && a.acc == b) t else none) with
    | some a => "@" ++ a.tag
    | none => hexOf b

def bytesLe (a b : Bytes) : Bool := decide (a ≤ b)
def insB (a : Bytes) : List Bytes → List Bytes
  | [] => [a]
  | b :: l => if bytesLe a b then a :: b :: l else b :: insB a l
def sortB : List Bytes → List Bytes
  | [] => []
  | a :: l => insB a (sortB l)

end Drv

open Drv

/-! ### main cases -/
namespace DrvMain
open NeoFS.Main

structure Ctx where
  w : World
  tab : Tab
  tracked : List Bytes
  light : Bool
  s : State

def parseData (t : Tab) (dyn : Bytes) (tok : String) : Option Data :=
  if tok == "nil" then some .null
  else if tok == "a" || tok == "t" || tok == "f" then some .other
  else if tok.startsWith "i:" then (parseInt? (tok.drop 2).toString).map .int
  else if tok.startsWith "b:" then some (.bytes (resolve t dyn (tok.drop 2).toString))
  else none

def parseOp (t : Tab) (dyn : Bytes) (ws : List String) (as : List (String × String)) : Option Op :=
  let r := resolve t dyn
  match ws with
  | ["skip", _] => some .skip
  | ["deposit", f, a, d] => do let a ← parseInt? a; let d ← parseData t dyn d; pure (.deposit (r f) a d)
  | ["xfer", f, to, a] => do let a ← parseInt? a; pure (.xfer (r f) (r to) a)
  | ["pay", _, f, a, d] => do let a ← parseInt? a; let d ← parseData t dyn d; pure (.pay (r f) a d)
  | ["withdraw", u, a] => do let a ← parseInt? a; pure (.withdraw (r u) a)
  | ["cheque", id, u, a, l] => do let a ← parseInt? a; pure (.cheque (r id) (r u) a (r l))
  | ["candadd", k] => some (.candAdd (r k))
  | ["candrm", k] => some (.candRemove (r k) (parseHex (attrD as "idh" "-")))
  | ["aupd", id, ks] =>
    let keys := if ks == "-" then [] else (ks.splitOn ",").map r
    some (.alphabetUpdate (r id) keys (parseHex (attrD as "na" "-")))
  | ["setcfg", id, k, v] => some (.setConfig (r id) (r k) (if v == "nil" then none else some (r v)))
  | _ => none

def evStr (t : Tab) : Event → String
  | .gasT f to a => s!"T({showB t f},{showB t to},{a})"
  | .deposit f a r => s!"Deposit({showB t f},{a},{showB t r},tx)"
  | .withdraw u a => s!"Withdraw({showB t u},{a},tx)"
  | .cheque id u a l => s!"Cheque({showB t id},{showB t u},{a},{showB t l})"
  | .alphabetUpdate id ks => s!"AlphabetUpdate({showB t id},[{joinWith "," (ks.map (showB t))}])"
  | .setConfig id k v => s!"SetConfig({showB t id},{showB t k},{showB t v})"

def fmtState (c : Ctx) : String :=
  let s := c.s
  let t := c.tab
  let cfgKeys := sortB (s.cfg.map (·.1))
  let cf := cfgKeys.map (fun k => s!"{hexOf k}:{hexOf ((cfgGet s.cfg k).getD [])}")
  let bl := s.ballots.map (fun b => s!"{hexOf b.id}:{b.height}:{joinWith "," (b.voters.map (showB t))}")
  let bal := if s.nd then s!"[{joinWith ";" bl}]" else "none"
  let gs := c.tracked.map (fun a => toString (s.gas a))
  s!"nd={if s.nd then "01" else "00"} keys=[{joinWith "," (s.keys.map (showB t))}] proc={showB t s.proc} cfg=[{joinWith ";" cf}] cand=[{joinWith "," ((sortB s.cands).map (showB t))}] bal={bal} gas=[{joinWith "," gs}] api={if c.light then "-" else "ok"}"

def initCtx (as : List (String × String)) : Ctx :=
  let tab := parseTab (attrD as "tab" "")
  let acc (tag : String) : Bytes := ((tab.find tag).map (·.acc)).getD []
  let w : World := ⟨acc "self", acc "cmt", (tab.filter (fun a => !a.key.isEmpty)).map (fun a => (a.key, a.acc))⟩
  let keys := (if attrD as "keys" "-" == "-" then [] else (attrD as "keys" "").splitOn ",").map
    (fun tag => ((tab.find tag).map (·.key)).getD [])
  let fee (name : String) (k : Bytes) : List (Bytes × Bytes) :=
    match parseInt? (attrD as name "none") with
    | some z => [(k, encInt z)]
    | none => []
  let gl := ((attrD as "gas" "").splitOn ",").filterMap (fun e => match e.splitOn ":" with
    | [tag, v] => (parseInt? v).map (fun z => (acc tag, z))
    | _ => none)
  let ledger : Ledger := fun h => ((gl.find? (fun kv => kv.1 == h)).map (·.2)).getD 0
  let s : State := { nd := attrD as "nd" "0" == "1", keys := keys, saddr := acc "saddr", proc := acc "proc",
                     cfg := fee "wfee" withdrawFeeKey ++ fee "cfee" candidateFeeKey, cands := [], ballots := [],
                     gas := ledger }
  ⟨w, tab, gl.map (·.1), attrD as "light" "0" == "1", s⟩

def branch (s : State) (op : Op) (out : Option (Option Bool × List Event)) (s' : State) : String :=
  let mode := if s.nd then "vote" else "notary"
  let name := match op with
    | .skip => "skip" | .deposit .. => "deposit" | .xfer .. => "xfer" | .pay .. => "pay" | .withdraw .. => "withdraw"
    | .cheque .. => "cheque" | .candAdd .. => "candadd" | .candRemove .. => "candrm"
    | .alphabetUpdate .. => "aupd" | .setConfig .. => "setcfg"
  let voted := match op with
    | .cheque .. | .candRemove .. | .alphabetUpdate .. | .setConfig .. => true
    | _ => false
  match out with
  | none => s!"{mode}.{name}.fault"
  | some (r, evs) =>
    let fired := evs.any (fun e => match e with
      | .cheque .. | .alphabetUpdate .. | .setConfig .. => true | _ => false) || s'.cands.length < s.cands.length
    let kind :=
      if voted && s.nd then
        (if fired then "fire"
         else if s'.ballots.length > s.ballots.length then "open"
         else if s'.ballots.length < s.ballots.length then "purge"
         else if s'.ballots == s.ballots then "dup" else "count")
      else if r == some false then "refused"
      else if evs.any (fun e => match e with | .deposit .. => true | _ => false) then "deposit"
      else "ok"
    s!"{mode}.{name}.{kind}"

def stepLine (c : Ctx) (ws : List String) : Ctx × String :=
  let (pos, as) := splitAttrs ws
  match pos with
  | sig :: rest =>
    match parseOp c.tab c.s.saddr rest as with
    | none => (c, "bad-op")
    | some op =>
      let env : Env := ⟨resolveSig c.tab c.s.saddr sig, (parseInt? (attrD as "h" "0")).getD 0⟩
      let (s1, out) := invoke c.w c.s env op
      -- keep the ledger a finite table over the accounts of the case (constant look-up cost); the harness
      -- never moves GAS to a well-formed account outside the table
      let accts := c.tab.map (·.acc)
      let tbl := accts.map (fun a => (a, s1.gas a))
      let s' : State := { s1 with gas := fun h => ((tbl.find? (fun kv => kv.1 == h)).map (·.2)).getD 0 }
      let o := match out with
        | none => "FAULT"
        | some (r, ev) =>
          let rs := match r with | none => "null" | some true => "true" | some false => "false"
          s!"HALT ret={rs} ev=[{joinWith ";" (ev.map (evStr c.tab))}]"
      let c' := { c with s := s' }
      let st := if attrD as "fin" "1" == "1" then fmtState c' else "~"
      (c', s!"{o} | {st} br={branch c.s op out s'}")
  | [] => (c, "bad-op")

end DrvMain

/-! ### gov cases: Alphabet emit and payment callbacks -/
namespace DrvGov
open NeoFS.Main NeoFS.Alphabet

structure Ctx where
  tab : Tab
  w : Gov
  trackedGas : List Bytes
  trackedNeo : List Bytes
  s : GState

def accOf (t : Tab) (tag : String) : Bytes := ((t.find tag).map (·.acc)).getD []

def initCtx (as : List (String × String)) : Ctx :=
  let tab := parseTab (attrD as "tab" "")
  let acc := accOf tab
  let proxy := acc "proxy"
  let insts := ((attrD as "inst" "").splitOn ",").filterMap (fun e => match e.splitOn ":" with
    | [tag, i] => (parseInt? i).map (fun z => (⟨acc tag, z, proxy⟩ : Instance))
    | _ => none)
  let committee := (if attrD as "cmtkeys" "-" == "-" then [] else (attrD as "cmtkeys" "").splitOn ",").map acc
  let ledgerOf (name : String) : List (Bytes × Int) :=
    ((attrD as name "").splitOn ",").filterMap (fun e => match e.splitOn ":" with
      | [tag, v] => (parseInt? v).map (fun z => (acc tag, z))
      | _ => none)
  let gl := ledgerOf "gas"
  let nl := ledgerOf "neo"
  let mk (l : List (Bytes × Int)) : Ledger := fun h => ((l.find? (fun kv => kv.1 == h)).map (·.2)).getD 0
  { tab := tab, w := ⟨insts, proxy, acc "proc", acc "probe", committee, acc "cmt"⟩,
    trackedGas := gl.map (·.1), trackedNeo := nl.map (·.1), s := ⟨mk gl, mk nl, []⟩ }

def evStr (t : Tab) : Alphabet.Event → String
  | .gasT f to a => s!"T({showB t f},{showB t to},{a})"
  | .neoT f to a => s!"N({showB t f},{showB t to},{a})"

def fmtState (c : Ctx) : String :=
  s!"ir=[{joinWith "," (c.s.ir.map (showB c.tab))}] gas=[{joinWith "," (c.trackedGas.map (fun a => toString (c.s.gas a)))}] neo=[{joinWith "," (c.trackedNeo.map (fun a => toString (c.s.neo a)))}]"

def parseOp (t : Tab) (ws : List String) : Option GOp :=
  let r := resolve t []
  match ws with
  | ["skip", _] => some .skip
  | ["fund", f, to, a] => (parseInt? a).map (fun a => .fund (r f) (r to) a)
  | ["neo", f, to, a] => (parseInt? a).map (fun a => .neo (r f) (r to) a)
  | ["call", to, _] => some (.call (r to))
  | ["desig", ks] => some (.desig (if ks == "-" then [] else (ks.splitOn ",").map (fun k => accOf t (k.drop 1).toString)))
  | ["emit", i] => some (.emit (r i))
  | _ => none

def opName : GOp → String
  | .skip => "skip" | .fund .. => "fund" | .neo .. => "neo" | .call .. => "call" | .desig .. => "desig" | .emit .. => "emit"

def stepLine (c : Ctx) (ws : List String) : Ctx × String :=
  let (pos, _) := splitAttrs ws
  match pos with
  | sig :: rest =>
    match parseOp c.tab rest with
    | none => (c, "bad-op")
    | some op =>
      let (s', out) := ginvoke c.w c.s (resolveSig c.tab [] sig) op
      let c' := { c with s := s' }
      match out with
      | none => (c', s!"FAULT | {fmtState c'} br=gov.{opName op}.fault")
      | some (r, ev) =>
        let rs := match r with | none => "null" | some true => "true" | some false => "false"
        let kind := match op with
          | .emit _ => if ev.length ≤ 2 then "proxyonly" else "full"
          | _ => if r == some false then "refused" else "ok"
        (c', s!"HALT ret={rs} ev=[{joinWith ";" (ev.map (evStr c.tab))}] | {fmtState c'} br=gov.{opName op}.{kind}")
  | [] => (c, "bad-op")

end DrvGov

inductive AnyCtx where
  | none
  | main (c : DrvMain.Ctx)
  | gov (c : DrvGov.Ctx)

def stepLine (c : AnyCtx) (line : String) : AnyCtx × List String :=
  match words line with
  | [] => (c, [])
  | "case" :: _ :: kind :: rest =>
    let (_, as) := splitAttrs rest
    let c' := if kind == "main" then AnyCtx.main (DrvMain.initCtx as)
              else if kind == "gov" then AnyCtx.gov (DrvGov.initCtx as) else AnyCtx.none
    (c', [line.trimAscii.toString])
  | "op" :: rest =>
    match c with
    | .main m => let (m', o) := DrvMain.stepLine m rest; (.main m', [o])
    | .gov g => let (g', o) := DrvGov.stepLine g rest; (.gov g', [o])
    | .none => (c, ["no-case"])
  | _ => (c, ["bad-line"])

def main : IO Unit := runDriver AnyCtx.none stepLine
