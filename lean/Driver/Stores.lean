import NeoFS.Base.Line
import NeoFS.Model.EpochStores
/-! Line-protocol driver for the EpochStores model (property C20). -/
open NeoFS NeoFS.EpochStores

/-- sig: "-" | comma separated items, each "alpha" or a hex public key -/
def parseEnv (sig : String) : Env :=
  if sig == "-" then ⟨false, []⟩ else
  let items := sig.splitOn ","
  ⟨items.contains "alpha", (items.filter (fun x => x != "alpha" && x != "cmt")).map parseHex⟩

def parseSnap (s : String) : Option (List Bytes) :=
  if s == "FAULT" then none else some (parseHexList s)

def parseOp (ws : List String) : Option Op :=
  match ws with
  | ["rput", e, p, v] => (parseInt? e).map (fun e => .rput e (parseHex p) (parseHex v))
  | ["rget", e, p] => (parseInt? e).map (fun e => .rget e (parseHex p))
  | ["rgetid", id] => some (.rgetid (parseHex id))
  | ["rlist", e] => (parseInt? e).map .rlist
  | ["aput", raw, h, ir] => some (.aput (parseHexList ir) (parseHex raw) (parseHex h))
  | ["aget", id] => some (.aget (parseHex id))
  | ["alist"] => some .alist
  | ["alistE", e] => (parseInt? e).map .alistE
  | ["alistC", e, cid] => (parseInt? e).map (fun e => .alistC e (parseHex cid))
  | ["alistN", e, cid, _key, h] => (parseInt? e).map (fun e => .alistN e (parseHex cid) (parseHex h))
  | ["cmk", _tag, cid] => some (.cmk (parseHex cid))
  | ["crm", cid] => some (.crm (parseHex cid))
  | ["cput", e, cid, size, pub, h, snap] =>
    match parseInt? e, parseInt? size with
    | some e, some size => some (.cput (parseSnap snap) e (parseHex cid) size (parseHex pub) (parseHex h))
    | _, _ => none
  | ["ctick", e] => (parseInt? e).map .ctick
  | ["tick", e, cur] =>
    match parseInt? e, parseInt? cur with
    | some e, some cur => some (.tick cur e)
    | _, _ => none
  | ["cget", id] => some (.cget (parseHex id))
  | ["clist", e] => (parseInt? e).map .clist
  | ["citer", e, cid] => (parseInt? e).map (fun e => .citer e (parseHex cid))
  | ["citerall", e] => (parseInt? e).map .citerall
  | ["iadd", o, ks] => some (.iadd (parseHex o) (parseHexList ks))
  | ["irm", o, ks] => some (.irm (parseHex o) (parseHexList ks))
  | ["ikey", o] => some (.ikey (parseHex o))
  | ["nset", _id, k, v] => some (.nset (parseHex k) (parseHex v))
  | ["nget", k] => some (.nget (parseHex k))
  | ["nlist"] => some .nlist
  | ["fset", id, k, v] => some (.fset (parseHex id) (parseHex k) (parseHex v))
  | ["fget", k] => some (.fget (parseHex k))
  | ["flist"] => some .flist
  | _ => none

def estStr (e : Est) : String := s!"{hexOf e.frm}:{e.size}"

def retStr : Ret → String
  | .null => "null"
  | .optBytes none => "null"
  | .optBytes (some b) => hexOf b
  | .list l => "[" ++ joinWith "," (l.map hexOf) ++ "]"
  | .kvs l => "[" ++ joinWith "," (l.map (fun kv => s!"{hexOf kv.1}:{hexOf kv.2}")) ++ "]"
  | .sizes cid l => "(" ++ hexOf cid ++ ",[" ++ joinWith "," (l.map estStr) ++ "])"
  | .ests l => "[" ++ joinWith "," (l.map estStr) ++ "]"
  | .kests l => "[" ++ joinWith "," (l.map (fun kv => s!"{hexOf kv.1}={estStr kv.2}")) ++ "]"

def evStr : Event → String
  | .setConfig id k v => s!"SetConfig({hexOf id},{hexOf k},{hexOf v})"

def storeStr (s : Store Bytes) : String :=
  "[" ++ joinWith ";" ((isort s).map (fun kv => s!"{hexOf kv.1}:{hexOf kv.2}")) ++ "]"

def bytesLe (a b : Bytes) : Bool := decide (a ≤ b)
def insB (a : Bytes) : List Bytes → List Bytes
  | [] => [a]
  | b :: l => if bytesLe a b then a :: b :: l else b :: insB a l
def sortB : List Bytes → List Bytes
  | [] => []
  | a :: l => insB a (sortB l)

def insI (a : Int) : List Int → List Int
  | [] => [a]
  | b :: l => if a < b then a :: b :: l else if a = b then b :: l else b :: insI a l
/-- sorted set of distinct integers -/
def sortSetI : List Int → List Int
  | [] => []
  | a :: l => insI a (sortSetI l)

/-- is this node's estimation of this container for epoch `e` still stored? (`ch` = cid ‖ h10, 42 bytes) -/
def estStored (c : CState) (ch : Bytes) (e : Int) : Bool :=
  c.cnr.any (fun kv => kv.1.length ≥ 45 && kv.1.drop (kv.1.length - 42) == ch &&
    decInt ((kv.1.drop 3).take (kv.1.length - 45)) == e)

/-- canonical form of an `est‖cid‖h20 ↦ []epoch` record (internal bookkeeping that no read method exposes): the
    sorted set of the listed epochs whose estimation is still stored; see the harness (`famState`) -/
def estCanon (c : CState) (kv : Bytes × List Int) : List Int :=
  let l := sortSetI kv.2
  if kv.1.length = 55 then l.filter (estStored c ((kv.1.drop 3).take 42)) else l

def cntStr (c : CState) : String :=
  let a := joinWith ";" ((isort c.cnr).map (fun kv => s!"{hexOf kv.1}:{estStr kv.2}"))
  let recs := ((isort c.est).map (fun kv => (kv.1, estCanon c kv))).filter (fun r => !r.2.isEmpty)
  let b := joinWith ";" (recs.map (fun r => s!"{hexOf r.1}:" ++ joinWith "," (r.2.map toString)))
  let l := joinWith ";" ((sortB c.live).map hexOf)
  s!"cnr=[{a}] est=[{b}] live=[{l}]"

inductive Fam where | rep | aud | cnt | fsid | nmc | fsc

def famOf : Op → Fam × Bool   -- family, is a read
  | .rput .. => (.rep, false) | .rget .. => (.rep, true) | .rgetid .. => (.rep, true) | .rlist .. => (.rep, true)
  | .aput .. => (.aud, false) | .aget .. => (.aud, true) | .alist => (.aud, true) | .alistE .. => (.aud, true)
  | .alistC .. => (.aud, true) | .alistN .. => (.aud, true)
  | .cmk .. => (.cnt, false) | .crm .. => (.cnt, false) | .cput .. => (.cnt, false) | .ctick .. => (.cnt, false)
  | .tick .. => (.cnt, false) | .cget .. => (.cnt, true) | .clist .. => (.cnt, true) | .citer .. => (.cnt, true)
  | .citerall .. => (.cnt, true)
  | .iadd .. => (.fsid, false) | .irm .. => (.fsid, false) | .ikey .. => (.fsid, true)
  | .nset .. => (.nmc, false) | .nget .. => (.nmc, true) | .nlist => (.nmc, true)
  | .fset .. => (.fsc, false) | .fget .. => (.fsc, true) | .flist => (.fsc, true)

def famStr (s : State) : Fam → String
  | .rep => "rep=" ++ storeStr s.rep
  | .aud => "aud=" ++ storeStr s.aud
  | .cnt => cntStr s.cnt
  | .fsid => "fsid=" ++ storeStr s.fsid
  | .nmc => "cfg=" ++ storeStr s.nmc
  | .fsc => "cfg=" ++ storeStr s.fsc

/-- coarse branch label for the evidence histogram: which guard decided -/
def branchOf (s : State) (env : Env) (op : Op) (halted : Bool) : String :=
  let h := if halted then "halt" else "fault"
  match op with
  | .rput e p _ =>
    if !env.alpha then "rput.noalpha" else
    let first := (get s.rep (repCountP :: storageID e p)).isNone
    s!"rput.{h}." ++ (if first then "first" else "again") ++ s!".enc{(encInt e).length}"
  | .rget .. => "rget" | .rgetid .. => "rgetid"
  | .rlist e => s!"rlist.enc{(encInt e).length}.n{(repListByEpoch s.rep e).length.min 3}"
  | .aput ir raw _ =>
    match parseHeader raw with
    | none => "aput.badheader"
    | some hdr =>
      match checkWitnessKey env hdr.frm with
      | none => "aput.badkeylen"
      | some w => if !w then "aput.nowitness" else if !ir.contains hdr.frm then "aput.notir" else s!"aput.{h}"
  | .aget id => if (audGet s.aud id).isSome then "aget.hit" else "aget.miss"
  | .alist => "alist"
  | .alistE e => s!"alistE.n{(audListByEpoch s.aud e).length.min 3}"
  | .alistC e c => s!"alistC.n{(audListByCID s.aud e c).length.min 3}"
  | .alistN e c hh => s!"alistN.n{(audListByNode s.aud e c hh).length.min 3}"
  | .cmk .. => "cmk" | .crm .. => "crm"
  | .cput snap e cid _ pub hh =>
    if !s.cnt.live.contains cid then "cput.nocontainer" else
    match checkWitnessKey env pub with
    | none => "cput.badkeylen"
    | some false => "cput.nowitness"
    | some true =>
      match snap with
      | none => "cput.nosnapshot"
      | some nodes =>
        if !nodes.contains pub then "cput.notnode" else
        let old := (get s.cnt.est (estP ++ (cid ++ hh))).getD []
        let dropped := old.filter (fun o => e - o > cleanupDelta)
        s!"cput.{h}.old{old.length.min 3}.drop{dropped.length.min 3}"
  | .ctick e =>
    if !env.alpha then "ctick.noalpha" else
    let n := match cleanup s.cnt.cnr e with | none => 0 | some c => s.cnt.cnr.length - c.length
    s!"ctick.{h}.del{n.min 3}"
  | .tick cur e =>
    if !env.alpha then "tick.noalpha" else if e ≤ cur then "tick.stale" else
    let n := match cleanup s.cnt.cnr e with | none => 0 | some c => s.cnt.cnr.length - c.length
    s!"tick.{h}.del{n.min 3}"
  | .cget .. => s!"cget.{h}"
  | .clist e => s!"clist.n{(estList s.cnt e).length.min 3}"
  | .citer .. => s!"citer.{h}"
  | .citerall e => s!"citerall.n{(estIterAll s.cnt e).length.min 3}"
  | .iadd o ks => if !fsidArgsOk o ks then "iadd.badargs" else if !env.alpha then "iadd.noalpha" else "iadd.halt"
  | .irm o ks => if !fsidArgsOk o ks then "irm.badargs" else if !env.alpha then "irm.noalpha" else "irm.halt"
  | .ikey .. => s!"ikey.{h}"
  | .nset .. => if !env.alpha then "nset.noalpha" else s!"nset.{h}"
  | .nget k => if (cfgGet cfgP s.nmc k).isSome then "nget.hit" else "nget.miss"
  | .nlist => "nlist"
  | .fset .. => if !env.alpha then "fset.noalpha" else s!"fset.{h}"
  | .fget k => if (cfgGet cfgPF s.fsc k).isSome then "fget.hit" else "fget.miss"
  | .flist => "flist"

def stepLine (s : State) (line : String) : State × List String :=
  match words line with
  | [] => (s, [])
  | "case" :: _ => (NeoFS.EpochStores.init, [line.trimAscii.toString])
  | "env" :: _ => (s, ["ENV"])
  | "op" :: sig :: rest =>
    match parseOp rest with
    | none => (s, ["bad-op"])
    | some op =>
      let env := parseEnv sig
      let (s', out) := invoke s env op
      let (fam, isRead) := famOf op
      let o := match out with
        | none => "FAULT"
        | some (r, ev) => s!"HALT ret={retStr r} ev=[{joinWith ";" (ev.map evStr)}]"
      let st := if isRead then "=" else famStr s' fam
      (s', [s!"{o} | {st} br={branchOf s env op out.isSome}"])
  | _ => (s, ["bad-line"])

def main : IO Unit := runDriver NeoFS.EpochStores.init stepLine
