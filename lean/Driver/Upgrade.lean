import NeoFS.Base.Line
import NeoFS.Model.UpgradeView
/-! Line-protocol driver of the upgrade model (property C16).

```
case <id> <wf|nonwf> k=<contract> n=<committee size> v=<version constant of the deployed executable>
op load q=<queries> kv=<key:value,…|->
op update q=<queries> sig=<signers|-> role=<key ids|-> data=<item> nef=<ok|bad> h=<ledger.CurrentIndex()>
```
signers: `m<m>.<id>-<id>…` (m-of-set multi-signature), `s<id>` (single key), `u<id>` (other account);
item: `n` | `t` | `f` | `i<int>` | `b<hex>` | `A(<item>;…)`.
Output: `HALT|FAULT | ver=… raw=[…] <read API of the contract for the queries>`. -/
open NeoFS NeoFS.Upgrade

structure DState where
  kind : Kind
  n : Nat
  st : CState
  updated : Bool      -- the executable was replaced: the harness-only raw methods are gone
  desigs : List (Int × List Nat) := []   -- NeoFSAlphabet designations: (index they are stored under, keys)

def parseKind (s : String) : Option Kind :=
  match s with
  | "balance" => some .balance | "container" => some .container | "netmap" => some .netmap
  | "nns" => some .nns | "neofsid" => some .neofsid | "alphabet" => some .alphabet
  | "audit" => some .audit | "reputation" => some .reputation | "proxy" => some .proxy
  | "neofs" => some .neofs | "processing" => some .processing
  | _ => none

/-- value of `key=` among the words -/
def attr (ws : List String) (key : String) : Option String :=
  match ws.find? (fun w => w.startsWith (key ++ "=")) with
  | none => none
  | some w => some ((w.drop (key.length + 1)).toString)

def parseIds (s : String) : List Nat :=
  if s == "-" || s == "" then [] else (s.splitOn "-").filterMap (·.toNat?)

def parseAcct (s : String) : Option Acct :=
  if s.startsWith "m" then
    match ((s.drop 1).toString).splitOn "." with
    | [m, ids] => m.toNat?.map (fun m => Acct.msig m (parseIds ids))
    | _ => none
  else if s.startsWith "s" then ((s.drop 1).toString).toNat?.map Acct.single
  else if s.startsWith "u" then ((s.drop 1).toString).toNat?.map Acct.user
  else none

def parseSigners (s : String) : List Acct :=
  if s == "-" then [] else (s.splitOn ",").filterMap parseAcct

def parseScalar (s : String) : Option Item :=
  if s == "n" then some .null
  else if s == "t" then some (.bool true)
  else if s == "f" then some (.bool false)
  else if s.startsWith "i" then ((s.drop 1).toString).toInt?.map Item.int
  else if s.startsWith "b" then some (.bytes (parseHex ((s.drop 1).toString)))
  else none

def parseItem (s : String) : Option Item :=
  if s.startsWith "A(" && s.endsWith ")" then
    let inner := ((s.drop 2).dropEnd 1).toString
    if inner == "" then some (.array [])
    else
      let parts := (inner.splitOn ";").map parseScalar
      if parts.all Option.isSome then some (.array (parts.filterMap id)) else none
  else parseScalar s

def parseKV (s : String) : Store :=
  if s == "-" then []
  else (s.splitOn ",").filterMap (fun e =>
    match e.splitOn ":" with
    | [k, v] => some (parseHex k, parseHex v)
    | _ => none)

/-- query groups: `/`-separated groups of comma-separated hex strings -/
def parseQueries (s : String) : List (List Bytes) := (s.splitOn "/").map parseHexList

mutual
def showItem : Item → String
  | .null => "n"
  | .bool b => if b then "t" else "f"
  | .int i => s!"i{i}"
  | .bytes b => s!"b{hexOf b}"
  | .buffer b => s!"u{hexOf b}"
  | .array l => "A[" ++ showItems l ++ "]"
  | .struct l => "S[" ++ showItems l ++ "]"
def showItems : List Item → String
  | [] => ""
  | [x] => showItem x
  | x :: r => showItem x ++ "," ++ showItems r
end

def optStr (f : α → String) : Option α → String
  | none => "!"
  | some x => f x

/-- the byte fields of a container / eACL structure, `/`-separated -/
def fieldsStr (it : Item) : String :=
  match elems it with
  | none => "?"
  | some l => joinWith "/" (l.map (fun f => match f with
      | .bytes b => hexOf b
      | .buffer b => hexOf b
      | .null => "-"
      | _ => "?"))

def showStore (s : Store) : String := joinWith ";" ((sortKV s).map (fun kv => s!"{hexOf kv.1}={hexOf kv.2}"))

def viewStr (k : Kind) (s : Store) (q : List (List Bytes)) : String :=
  let q0 := q.getD 0 []
  let q1 := q.getD 1 []
  match k with
  | .balance =>
    let bal := q0.map (fun a => s!"{hexOf a}:{optStr toString (balanceOfNew s a)}")
    s!" sup={optStr toString (totalSupply s)} bal=[{joinWith ";" bal}]"
  | .container =>
    let gets := q0.map (fun c => s!"{hexOf c}:{optStr fieldsStr (containerNew s c)}")
    let owns := q0.map (fun c => s!"{hexOf c}:{optStr hexOf (ownerNew s c)}")
    let lsts := q1.map (fun o => s!"{hexOf o}:[{joinWith ";" ((listNew s o).map hexOf)}]")
    let eacl := q0.map (fun c => s!"{hexOf c}:" ++ (match eaclNew s c with
      | none => "!" | some none => "-/-/-/-" | some (some it) => fieldsStr it))
    let alias := q0.map (fun c => s!"{hexOf c}:" ++ (match aliasNew s c with
      | none => "!" | some none => "null" | some (some b) => hexOf b))
    s!" cnt={countNew s} all=[{joinWith ";" ((allContainersNew s).map hexOf)}] get=[{joinWith ";" gets}]" ++
    s!" own=[{joinWith ";" owns}] lst=[{joinWith ";" lsts}] eacl=[{joinWith ";" eacl}] alias=[{joinWith ";" alias}]"
  | .netmap =>
    let epoch := match get s NeoFS.Generated.netmap_snapshotEpoch_bytes with
      | none => "null" | some b => if b.length ≤ 32 then toString (decInt b) else "!"
    let snaps := [0, 1, 2, 9, 10, 11].map (fun (d : Nat) => s!"{d}:{optStr showItem (nmSnapshot s d)}")
    let cand := match nmCandidates s with | none => "!" | some l => "[" ++ showItems l ++ "]"
    let cfg := (nmConfig s).map (fun kv => s!"{hexOf kv.1}={hexOf kv.2}")
    s!" epoch={epoch} nm={optStr showItem (nmNetmap s)} cand={cand} snap=[{joinWith ";" snaps}]" ++
    s!" cfg=[{joinWith ";" cfg}] subs=[{joinWith ";" ((nmSubscribers s).map hexOf)}]"
  | .nns =>
    let bal := q0.map (fun o => s!"{hexOf o}:{optStr toString (nnsBalanceOf s o)}")
    s!" sup={optStr toString (nnsTotalSupply s)} bal=[{joinWith ";" bal}]"
  | .neofsid =>
    let ks := q0.map (fun o => s!"{hexOf o}:[{joinWith ";" ((idKeys s o).map hexOf)}]")
    s!" keys=[{joinWith ";" ks}]"
  | .alphabet =>
    let nm := match get s NeoFS.Generated.alphabet_nameKey_bytes with | none => "null" | some b => hexOf b
    s!" name={nm}"
  | _ => ""

/-- `id:amount,…` -/
def parseAmounts (s : String) : List (Bytes × Int) :=
  if s == "-" || s == "" then []
  else (s.splitOn ",").filterMap (fun e =>
    match e.splitOn ":" with
    | [k, v] => v.toInt?.map (fun x => (parseHex k, x))
    | _ => none)

/-- `id:amount:till,…` (Notary deposits before the invocation) -/
def parseDeposits (s : String) : List (Bytes × Int) × List (Bytes × Int) :=
  if s == "-" || s == "" then ([], [])
  else
    let es := (s.splitOn ",").filterMap (fun e =>
      match e.splitOn ":" with
      | [k, v, t] => match v.toInt?, t.toInt? with
        | some x, some y => some (parseHex k, x, y)
        | _, _ => none
      | _ => none)
    (es.map (fun e => (e.1, e.2.1)), es.map (fun e => (e.1, e.2.2)))

def parseLedger (ws : List String) : Ledger :=
  let d := parseDeposits ((attr ws "dpt").getD "-")
  { bal := parseAmounts ((attr ws "led").getD "-"), dep := d.1, till := d.2 }

/-- the Alphabet contract's view of the chain, from the attributes the harness fills in -/
def parseAlpha (ws : List String) : AlphaEnv :=
  let hx := fun (k : String) => parseHex ((attr ws k).getD "-")
  { self := hx "self", notary := hx "ntr", netmapHash := hx "nmc",
    nodes := (parseHexList ((attr ws "nodes").getD "-")).map (fun b => Item.struct [Item.bytes b, Item.int 1]),
    irKeys := parseHexList ((attr ws "irk").getD "-"),
    nnsProxy := match attr ws "nns" with | none => none | some v => if v == "-" then none else some (parseHex v),
    rejecting := parseHexList ((attr ws "rej").getD "-"),
    notaryFee := ((attr ws "fee").bind (·.toInt?)).getD 0,
    ledger := parseLedger ws }

/-- GAS balances and Notary deposits of the accounts named in `acc=` -/
def ledgerStr (L : Ledger) (ws : List String) : String :=
  let acc := parseHexList ((attr ws "acc").getD "-")
  let gas := acc.map (fun a => s!"{hexOf a}:{balOf L a}")
  let dep := (acc.filter (fun a => a.length == 33)).map (fun a =>
    s!"{hexOf a}:{depOf L a}:" ++ (match tillOf L.till a with | some t => toString t | none => "-"))
  s!" gas=[{joinWith ";" gas}] dep=[{joinWith ";" dep}]"

def obs (d : DState) (halt : Bool) (q : List (List Bytes)) (br : String) (extra : String := "") : String :=
  (if halt then "HALT" else "FAULT") ++ s!" | ver={d.st.ver} raw=[{showStore d.st.store}]" ++
    viewStr d.kind d.st.store q ++ extra ++ s!" br={br}"

/-- smallest `height - ballot.Height` among readable ballots (for the branch histogram only) -/
def minGap (h : Int) (l : List Item) : Option Int :=
  l.foldl (fun acc c => match ballotHeight c with
    | none => acc
    | some bh => match acc with | none => some (h - bh) | some g => some (min g (h - bh))) none

/-- which way `switchToNotary` goes (histogram only) -/
def notaryBr (purge : Bool) (s : Store) (h : Int) : String :=
  match get s notaryKey with
  | none => "notarized"
  | some nv =>
    match bytesToBool nv with
    | none => "flag-unreadable"
    | some false => "flag-false"
    | some true =>
      if !purge then "flag-true" else
      let gap := match getBallots s with
        | some l => (match minGap h l with | some g => s!"gap{g}" | none => "noballots")
        | none => "ballots-unreadable"
      match tryPurgeVotes s h with
      | none => "flag-true.fault." ++ gap
      | some (false, _) => "flag-true.pending." ++ gap
      | some (true, _) => "flag-true.purged." ++ gap

/-- branch ids of an update for the evidence histogram -/
def branchOf (k : Kind) (st : CState) (env : Env) (data : Item) (nefOk : Bool) : String :=
  match updateAccess k env with
  | none => "access.fault"
  | some false => "access.denied"
  | some true =>
    match appendVersion data st.ver with
    | none => "append.fault"
    | some args =>
      if !nefOk then "management.reject"
      else if st.ver < NeoFS.Generated.common_PrevVersion then "gate.too-old"
      else if st.ver ≥ NeoFS.Generated.common_Version then "gate.not-older"
      else
        let kindS := (reprStr k).replace "NeoFS.Upgrade.Kind." ""
        let v := st.ver
        let sub : List String :=
          (if v < 17000 ∧ k ≠ .proxy ∧ k ≠ .neofs ∧ k ≠ .processing ∧ k ≠ .nns then
            [kindS ++ "." ++ notaryBr (k != .audit) st.store env.height] else []) ++
          (if k = .balance then [s!"balance.moved{(st.store.filter (fun kv => kv.1.length = 20)).length}"] else []) ++
          (if k = .container then [s!"container.moved{(st.store.filter (fun kv => kv.1.length = 32 ∨ kv.1.length = 57)).length}"] else []) ++
          (if k = .netmap ∧ v < 16000 then ["netmap.nodes16"] else []) ++
          (if k = .netmap ∧ v < 19000 then ["netmap.subscribers19"] else []) ++
          (if k = .nns ∧ v < 18000 then ["nns.tld18"] else [])
        let res := match migrate k v args env st.store with
          | none => kindS ++ ".migrate.fault"
          | some _ => kindS ++ ".ok"
        joinWith "," (res :: sub)

def stepLine (ds : Option DState) (line : String) : Option DState × List String :=
  let ws := words line
  match ws with
  | [] => (ds, [])
  | "case" :: _ =>
    match (attr ws "k").bind parseKind, (attr ws "n").bind (·.toNat?), (attr ws "v").bind (·.toInt?) with
    | some k, some n, some v =>
      -- the role of the case line is designated during the set-up, long before the first operation
      (some ⟨k, n, ⟨v, []⟩, false, [(0, parseIds ((attr ws "role").getD "-"))]⟩, [line.trimAscii.toString])
    | _, _, _ => (none, ["bad-case"])
  | "op" :: "load" :: _ =>
    match ds with
    | none => (ds, ["bad-line"])
    | some d =>
      let q := parseQueries ((attr ws "q").getD "-")
      let ex := if d.kind == .alphabet then ledgerStr (parseLedger ws) ws else ""
      if d.updated then (ds, [obs d false q "load.gone" ex])
      else
        let d' := { d with st := { d.st with store := parseKV ((attr ws "kv").getD "-") } }
        (some d', [obs d' true q "load" ex])
  | "op" :: "designate" :: _ =>
    -- designateAsRole(NeoFSAlphabet, keys) executed while ledger.CurrentIndex() = h, i.e. in block h+1: stored under h+2
    match ds with
    | none => (ds, ["bad-line"])
    | some d =>
      match (attr ws "h").bind (·.toInt?) with
      | some h =>
        let d' := { d with desigs := d.desigs ++ [(h + 2, parseIds ((attr ws "role").getD "-"))] }
        let ex := if d.kind == .alphabet then ledgerStr (parseLedger ws) ws else ""
        (some d', [obs d' true (parseQueries ((attr ws "q").getD "-")) "designate" ex])
      | none => (ds, ["bad-op"])
  | "op" :: "update" :: _ =>
    match ds with
    | none => (ds, ["bad-line"])
    | some d =>
      let q := parseQueries ((attr ws "q").getD "-")
      match (attr ws "data").bind parseItem, (attr ws "h").bind (·.toInt?) with
      | some data, some h =>
        let env : Env := ⟨parseSigners ((attr ws "sig").getD "-"), List.range d.n,
                          roleInForce d.desigs (h + 1), h,   -- the contracts ask for CurrentIndex()+1
                          if d.kind == .alphabet then parseAlpha ws else {}⟩
        let nefOk := (attr ws "nef").getD "ok" == "ok"
        let br := branchOf d.kind d.st env data nefOk
        let L' := ledgerAfterUpdate d.kind d.st env data nefOk
        let moved := d.kind == .alphabet && balOf L' env.alpha.self != balOf env.alpha.ledger env.alpha.self
        let (st', ok) := invoke d.kind d.st env (.update data nefOk)
        let d' := { d with st := st', updated := d.updated || ok }
        let ex := if d.kind == .alphabet then ledgerStr L' ws else ""
        (some d', [obs d' ok q (br ++ (if moved then ",alphabet.gas-distributed" else "")) ex])
      | _, _ => (ds, ["bad-op"])
  | _ => (ds, ["bad-line"])

def main : IO Unit := runDriver (none : Option DState) stepLine
