import NeoFS.Base.Line
import NeoFS.Model.NotaryBootstrap
/-! Line-protocol evaluation of the Notary bootstrap model (property C13, layers 2 and 3); `main` is in Driver/Deploy.lean.

* `op boot n=<n> live=<members>`: runs the model's fair rounds for that live set and prints whether the
  Notary role gets designated and with which signatures.
* `op deploy n=<n> … absent=<members> … rerun=<0|1>`: the bootstrap part is computed by the model for the
  live set `committee \ absent`; the rest of the line is the outcome the property demands of a converged
  run (roles, NNS id, one contract per name, one Alphabet contract per member, an inert second run) — a
  specification-level expectation, not a model of the orchestration code. -/
namespace Driver.NotaryBootstrap
open NeoFS NeoFS.NotaryBootstrap

def kvOf (ws : List String) (k : String) : Option String :=
  (ws.filterMap (fun w => match w.splitOn "=" with
    | [a, b] => if a == k then some b else none
    | _ => none)).head?

def natList (s : String) : List Nat :=
  if s == "-" || s == "" then [] else (s.splitOn ",").filterMap parseNat?

structure BootResult where
  designated : Bool
  rounds : Nat
  script : List Sig
  nnsWrites : Nat

/-- The model keeps per-member and per-domain data as functions; evaluating them through many rounds of
closures is exponential, so the driver tabulates them after every round (same values, below `bound`;
nobody writes a domain or is a member beyond it). -/
def freeze (bound : Nat) (s : State) : State :=
  let sd := (Array.range bound).map s.chain.sigDom
  let sr := (Array.range bound).map s.chain.sigRec
  let sg := (Array.range bound).map s.signer
  { chain := { s.chain with sigDom := fun k => sd.getD k false, sigRec := fun k => sr.getD k none },
    leader := s.leader, signer := fun j => sg.getD j Signer.init }

/-- fair rounds until the designation is accepted (at most `fuel`) -/
def bootLoop (n : Nat) (live : Nat → Bool) (lose : Bool) (leaderFreshFirst : Bool := false) : Nat → Nat → Nat → State → BootResult
  | 0, k, w, _ => ⟨false, k, [], w⟩
  | fuel + 1, k, w, s =>
    let env0 : Env := { fairEnv live (1000 + k) with fresh := fun j => leaderFreshFirst && k == 0 && j == 0 }
    -- `lose`: the first designation transaction the leader sends is lost
    let isDes := match (leaderOut current n 5760 env0 s).2 with | .designate _ _ => true | .designateSolo => true | _ => false
    let env : Env := { env0 with dropDesignate := lose && isDes && !s.leader.tried }
    let la := (leaderOut current n 5760 env s).2
    let s' := freeze (n + 8) (round current n 5760 env s)
    let w' := w + (match la with | .setTxRec _ => 1 | .designateRefused _ _ _ => 1 | _ => 0)
    match s'.chain.roleAt with
    | some _ =>
      let script := match la with
        | .designate _ sc => sc
        | .designateSolo => [⟨0, ⟨0, 0⟩⟩]
        | _ => []
      ⟨true, k + 1, script, w'⟩
    | none => bootLoop n live lose leaderFreshFirst fuel (k + 1) w' s'

def runBoot (n : Nat) (liveL : List Nat) (lose : Bool := false) : BootResult :=
  bootLoop n (fun j => liveL.contains j) lose false 200 0 0 (State.init 10)

/-- rounds of the given environment while `cont` holds (at most `fuel`) -/
def roundsWhile (n : Nat) (env : Env) (cont : State → Bool) : Nat → State → State
  | 0, s => s
  | fuel + 1, s => if cont s then roundsWhile n env cont fuel (freeze (n + 8) (round current n 5760 env s)) else s

/-- `leaderdown=<off>`: fair rounds until the shared data is on chain; the leader is down while the others go on until the
height is ValidUntilBlock + off of that data; the leader returns with an empty process state; fair rounds -/
def runBootLeaderDown (n : Nat) (liveL : List Nat) (off : Int) : BootResult :=
  let live := fun j => liveL.contains j
  let s1 := roundsWhile n (fairEnv live 1000) (fun s => s.chain.txRec.isNone) 10 (State.init 10)
  match s1.chain.txRec with
  | none => ⟨false, 0, [], 0⟩
  | some d =>
    let target := (d.vub : Int) + off
    let s2 := roundsWhile n (fairEnv (fun j => live j && j != 0) 1001) (fun s => (s.chain.height : Int) < target) 400 s1
    bootLoop n live false true 200 0 0 s2

def ascendingB : List Nat → Bool
  | a :: b :: r => a < b && ascendingB (b :: r)
  | _ => true

def evalOp (ws : List String) : String :=
  match ws with
  | "boot" :: rest =>
    match (kvOf rest "n").bind parseNat?, kvOf rest "live" with
    | some n, some lv =>
      let live := natList lv
      let r := match (kvOf rest "leaderdown").bind parseInt? with
        | some off => runBootLeaderDown n live off
        | none => runBoot n live ((kvOf rest "lose") == some "1")
      if r.designated then
        let signers := r.script.map (·.signer)
        s!"HALT ret=designated nsigs={signers.length} within={signers.all live.contains} ordered={ascendingB signers} br=boot.designated{if (kvOf rest "leaderdown").isSome then ".after-leader-down" else ""}.r{r.rounds}"
      else if (kvOf rest "lose") == some "1" then "HALT ret=stalled br=boot.stalled.lost-designation"
      else "HALT ret=stalled br=boot.stalled"
    | _, _ => "bad-op"
  | "deploy" :: rest =>
    match (kvOf rest "n").bind parseNat? with
    | some n =>
      let absent := natList ((kvOf rest "absent").getD "-")
      let live := (List.range n).filter (fun j => !absent.contains j)
      let r := runBoot n live
      if !r.designated then "HALT ret=bootstrap-stalled br=deploy.stalled"
      else
        let names := Generated.DeployFacts.systemDomains.length + n
        let rr := if (kvOf rest "rerun") == some "0" then "-" else "0/0"
        s!"HALT ret=ok | notary=true alphabet=true nns1=true contracts={n} names={names} rerun={rr} br=deploy.ok.n{n}"
    | none => "bad-op"
  | "upgrade" :: rest =>
    -- specification-level expectation: every contract of the previous version is updated exactly once to the supplied
    -- executable, names and roles as after a deployment, the run after the update is inert
    match (kvOf rest "n").bind parseNat? with
    | some n =>
      let names := Generated.DeployFacts.systemDomains.length + n
      s!"HALT ret=ok | notary=true alphabet=true nns1=true contracts={n} names={names} updated=true rerun=0/0 br=upgrade.ok.n{n}"
    | none => "bad-op"
  | _ => "bad-op"

end Driver.NotaryBootstrap
