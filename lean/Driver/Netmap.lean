import NeoFS.Base.Line
import NeoFS.Model.Netmap
/-! Line-protocol driver for the Netmap model (properties C06, C07).

`case <id> <kind> n=<committee size> self=<netmap hash> has=<hashes with newEpoch/1> probes=<probe hashes>
presub=<contracts subscribed by their own deployment> [count=<k>: updateSnapshotCount(k) was the first invocation]`
`op <g> h=<CurrentIndex> <sig> <method> <args…>` — see harness/netmap/run_test.go. -/
open NeoFS NeoFS.Netmap

structure World where
  st : State
  n : Nat
  self : Hash
  has : List Hash
  probes : List Hash
  rej : List Hash

def World.empty : World := ⟨NeoFS.Netmap.init, 1, [], [], [], []⟩

def attr (ws : List String) (name : String) : String :=
  match ws.find? (fun w => w.startsWith (name ++ "=")) with
  | some w => (w.drop (name.length + 1)).toString
  | none => "-"

def mkEnv (w : World) (sig : List String) (height : Int) : Env :=
  let alpha := sig.contains "alpha" || (sig.contains "cmt" && (2 * w.n / 3 + 1 == w.n / 2 + 1))
  { alphabet := alpha,
    witnesses := (sig.filter (fun s => s != "alpha" && s != "cmt")).map parseHex,
    height := height,
    hasNewEpoch := fun h => w.has.contains h,
    accepts := fun h _ => !(w.rej.contains h) && h != w.self }

def hexList (l : List Bytes) : String := if l.isEmpty then "-" else joinWith "," (l.map hexOf)
def attrList (l : List (Bytes × Bytes)) : String :=
  if l.isEmpty then "-" else joinWith "," (l.map (fun kv => hexOf kv.1 ++ "=" ++ hexOf kv.2))
def nodeStr (n : Node) : String := s!"{hexOf n.blob}:{n.state}"
def node2Str (n : Node2) : String := s!"{hexOf n.key}:{n.state}:{hexList n.addrs}:{attrList n.attrs}"
def nodesStr (l : List Node) : String := joinWith "," (l.map nodeStr)
def node2sStr (l : List Node2) : String := joinWith "," (l.map node2Str)
def kv2Str (l : List (Bytes × Node2)) : String := joinWith "," (l.map (fun kv => hexOf kv.1 ++ "=" ++ node2Str kv.2))

/-- Adler-32 of the canonical rendering (printed instead of long contents, same function in the harness) -/
def fp (s : String) : Nat :=
  let r := s.toList.foldl (fun (ab : Nat × Nat) c =>
    let a := (ab.1 + c.toNat) % 65521
    (a, (ab.2 + a) % 65521)) (1, 0)
  r.2 * 65536 + r.1

def evStr (probes : List Hash) : Event → Option String
  | .addPeerSuccess k => some s!"AddPeerSuccess({hexOf k})"
  | .addNode k a t => some s!"AddNode({hexOf k},{hexList a},{attrList t})"
  | .updateStateSuccess k st => some s!"UpdateStateSuccess({hexOf k},{st})"
  | .newEpoch e => some s!"NewEpoch({e})"
  | .subscription h => some s!"NewEpochSubscription({hexOf h})"
  | .called h e => if probes.contains h then some s!"Call({hexOf h},{e})" else none

/-- group consecutive entries by the first four key bytes -/
def groups : List (Bytes × Node2) → List (Bytes × List (Bytes × Node2))
  | [] => []
  | (k, v) :: r =>
    match groups r with
    | (g, l) :: gs => if g = k.take 4 then (g, (k.drop 4, v) :: l) :: gs else (k.take 4, [(k.drop 4, v)]) :: (g, l) :: gs
    | [] => [(k.take 4, [(k.drop 4, v)])]

def fmtState (s : State) : String :=
  let cand := joinWith ";" (s.cands.map (fun kv => hexOf kv.1 ++ "=" ++ nodeStr kv.2))
  let cand2 := joinWith ";" (s.cands2.map (fun kv => hexOf kv.1 ++ "=" ++ node2Str kv.2))
  let snap := joinWith ";" (s.snaps.map (fun kv => s!"{kv.1.headD 0}:{kv.2.length}:{fp (nodesStr kv.2)}"))
  let cur := match s.snaps.get [s.curId.toNat] with
    | some l => "[" ++ nodesStr l ++ "]"
    | none => "none"
  let gs := groups s.nm2
  let nm := joinWith ";" (gs.map (fun g => s!"{hexOf g.1}:{g.2.length}:{fp (kv2Str g.2)}"))
  let now := match gs.find? (fun g => g.1 == be4 s.epoch) with
    | some g => kv2Str g.2
    | none => ""
  let subs := joinWith ";" (s.subs.map (fun kv => s!"{kv.1.headD 0}:{hexOf (kv.1.drop 1)}"))
  let nmL := netmap s
  let nc := netmapCandidates s
  let lc := listCandidates s
  let ln := listNodes s
  s!"ep={s.epoch} blk={s.block} cnt={s.count} id={s.curId} cand=[{cand}] cand2=[{cand2}] snap=[{snap}] cur={cur} nm=[{nm}] now=[{now}] subs=[{subs}] api={s.epoch},{s.block},{nmL.length}:{fp (nodesStr nmL)},{nc.length}:{fp (nodesStr nc)},{lc.length}:{fp (node2sStr lc)},{ln.length}:{fp (node2sStr ln)}"

def parseAttrs (s : String) : Option (List (Bytes × Bytes)) :=
  if s == "-" then some [] else
  (s.splitOn ",").mapM (fun x =>
    match x.splitOn "=" with
    | [k, v] => some (parseHex k, parseHex v)
    | _ => none)

def parseOp (ws : List String) : Option Op :=
  match ws with
  | ["addPeer", b] => some (.addPeer (parseHex b))
  | ["addPeerIR", b] => some (.addPeerIR (parseHex b))
  | ["addNode", k, st, addrs, attrs] =>
    match parseInt? st, parseAttrs attrs with
    | some st, some ats => some (.addNode ⟨parseHexList addrs, ats, parseHex k, st⟩)
    | _, _ => none
  | ["updateState", st, k] => (parseInt? st).map (fun st => .updateState st (parseHex k))
  | ["updateStateIR", st, k] => (parseInt? st).map (fun st => .updateStateIR st (parseHex k))
  | ["deleteNode", k] => some (.deleteNode (parseHex k))
  | ["tick", e] => (parseInt? e).map .newEpoch
  | ["subscribe", h] => some (.subscribe (parseHex h))
  | ["setcount", n] => (parseInt? n).map .updateSnapshotCount
  | _ => none

/-- in which candidate lists is the key: L(egacy), S(tructured), LS, 0 -/
def presence (s : State) (k : Key) : String :=
  match s.cands.get k, s.cands2.get k with
  | some _, some _ => "LS"
  | some _, none => "L"
  | none, some _ => "S"
  | none, none => "0"

def stClass (st : Int) : String :=
  if st = stOffline then "off" else if st = stOnline then "on" else if st = stMaintenance then "mnt" else "badstate"

def ucsBranch (s : State) (k : Key) (st : Int) : String :=
  let c := stClass st
  if c == "badstate" then c
  else if c != "off" && presence s k == "0" then c ++ ".missing"
  else if k.length ≠ pkLen then c ++ ".badkey"
  else c ++ "." ++ presence s k

/-- branch id of the model (which guard decided) for the evidence histogram -/
def branchOf (s : State) (env : Env) : Op → String
  | .addPeer b =>
    match keyOf b with
    | none => "addPeer.short"
    | some k => if !nodeWitness env k then "addPeer.nonode" else if !env.alphabet then "addPeer.noalpha"
                else "addPeer.ok." ++ presence s k
  | .addPeerIR b =>
    if !env.alphabet then "addPeerIR.noalpha" else
    match keyOf b with
    | none => "addPeerIR.short"
    | some k => "addPeerIR.ok." ++ presence s k
  | .addNode n =>
    if n.state ≠ stOnline then "addNode.badstate" else if n.key.length ≠ pkLen then "addNode.badkey"
    else if !nodeWitness env n.key then "addNode.nonode" else if !env.alphabet then "addNode.noalpha"
    else "addNode.ok." ++ presence s n.key
  | .deleteNode k =>
    if k.length ≠ pkLen then "deleteNode.badkey" else if !env.alphabet then "deleteNode.noalpha"
    else "deleteNode." ++ presence s k
  | .updateState st k =>
    if k.length ≠ pkLen then "updateState.badkey" else if !nodeWitness env k then "updateState.nonode"
    else if !env.alphabet then "updateState.noalpha" else "updateState." ++ ucsBranch s k st
  | .updateStateIR st k =>
    if !env.alphabet then "updateStateIR.noalpha" else "updateStateIR." ++ ucsBranch s k st
  | .newEpoch e =>
    if !env.alphabet then "newEpoch.noalpha"
    else if e = s.epoch then "newEpoch.same" else if e < s.epoch then "newEpoch.older"
    else if !(subscribers s).all (fun h => env.accepts h e) then "newEpoch.rejected"
    else s!"newEpoch.ok.{if e > s.count then "drop" else "nodrop"}.subs{(subscribers s).length}"
  | .subscribe h =>
    if !env.alphabet then "subscribe.noalpha" else if h.length ≠ hashLen then "subscribe.badlen"
    else if !env.hasNewEpoch h then "subscribe.nomethod" else if (subscribers s).contains h then "subscribe.dup"
    else if (subscribers s).length ≥ 256 then "subscribe.full" else "subscribe.new"
  | .updateSnapshotCount n =>
    if !env.alphabet then "setcount.noalpha" else if n ≤ 0 then "setcount.nonpositive"
    else if n = s.count then "setcount.same" else "setcount.resize-unmodelled"

def startCase (ws : List String) : World :=
  let n := (parseNat? (attr ws "n")).getD 1
  -- `count=<k>`: the deployment whose snapshot count was changed once before anything else (`initWith k`)
  let root := match parseNat? (attr ws "count") with
    | some k => NeoFS.Netmap.initWith k
    | none => NeoFS.Netmap.init
  let w0 : World := { st := root, n := n, self := parseHex (attr ws "self"),
                      has := parseHexList (attr ws "has"), probes := parseHexList (attr ws "probes"), rej := [] }
  -- contracts subscribed by their own deployment (the deployment carries the Alphabet witness)
  let st := (parseHexList (attr ws "presub")).foldl (fun s h =>
    (invoke s (mkEnv w0 ["alpha"] 0) (.subscribe h)).1) w0.st
  { w0 with st := st }

def stepLine (w : World) (line : String) : World × List String :=
  match words line with
  | [] => (w, [])
  | "case" :: rest => (startCase rest, [line.trimAscii.toString])
  | "op" :: g :: h :: sig :: rest =>
    let height := ((h.drop 2).toString.toInt?).getD 0
    let sigs := if sig == "-" then [] else sig.splitOn ","
    let tail := fun (w' : World) => if g == "+" then "~" else fmtState w'.st
    match rest with
    | ["setrej", p, on] =>
      let ph := parseHex p
      let w' := { w with rej := if on == "1" then ph :: w.rej.filter (· != ph) else w.rej.filter (· != ph) }
      (w', [s!"HALT ev=[] | {tail w'}"])
    | _ =>
      match parseOp rest with
      | none => (w, ["bad-op"])
      | some op =>
        let env := mkEnv w sigs height
        let (s', out) := invoke w.st env op
        let w' := { w with st := s' }
        let br := branchOf w.st env op
        match out with
        | none => (w', [s!"FAULT | {tail w'} br={br}"])
        | some ev => (w', [s!"HALT ev=[{joinWith ";" (ev.filterMap (evStr w.probes))}] | {tail w'} br={br}"])
  | _ => (w, ["bad-line"])

def main : IO Unit := runDriver World.empty stepLine
