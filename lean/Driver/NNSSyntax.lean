import NeoFS.Base.Line
import NeoFS.Model.NNSSyntax
/-! Line-protocol driver for the NNS syntax model (property C18).

`op <tx|dry> <sig> <method> <args…>`; sig = `-` or a comma list of `cmt`, `u<k>`; strings are hex. -/
open NeoFS NeoFS.NNSSyntax

def parseUser (s : String) : Option Nat :=
  if s.startsWith "u" then (s.drop 1).toNat? else none

def parseEnv (sig : String) : Env :=
  if sig == "-" then ⟨[], false⟩
  else
    let ws := sig.splitOn ","
    ⟨ws.filterMap parseUser, ws.contains "cmt"⟩

def parseOp (ws : List String) : Option Op :=
  match ws with
  | ["avail", n] => some (.avail (parseHex n))
  | ["tld", n] => some (.tld (parseHex n))
  | ["reg", n, o] => (parseUser o).map (fun o => .reg (parseHex n) o)
  | ["add", n, t, d] => (parseNat? t).map (fun t => .add (parseHex n) t (parseHex d))
  | ["set", n, t, i, d] =>
    match parseNat? t, parseNat? i with
    | some t, some i => some (.set (parseHex n) t i (parseHex d))
    | _, _ => none
  | ["get", n, t] => (parseNat? t).map (fun t => .get (parseHex n) t)
  | _ => none

def insS (x : String) : List String → List String
  | [] => [x]
  | y :: r => if x < y then x :: y :: r else y :: insS x r
def sortS (l : List String) : List String := l.foldr insS []

def fmtState (s : State) : String :=
  let roots := sortS (s.roots.map hexOf)
  let doms := sortS (s.doms.map (fun d => s!"{hexOf d.1}:{d.2}"))
  let recs := sortS ((s.recs.filter (fun r => !r.2.isEmpty)).map (fun r =>
    s!"{hexOf r.1.token}/{hexOf r.1.name}/{r.1.typ}={joinWith "," (r.2.map hexOf)}"))
  s!"roots=[{joinWith "," roots}] doms=[{joinWith "," doms}] recs=[{joinWith ";" recs}]"

def fmtRet : Ret → String
  | .null => "null"
  | .bool true => "true"
  | .bool false => "false"
  | .list l => s!"[{joinWith "," (l.map hexOf)}]"

/-- branch ids of the validators an op runs through (feeds the branch histogram of the evidence) -/
def nameBr (tag : String) (n : Bytes) : String :=
  if n.length < minNameLength ∨ maxNameLength < n.length then tag ++ ".len"
  else if (safeSplitAndCheck n).isSome then tag ++ ".ok" else tag ++ ".frag"

def v4Br (d : Bytes) : String :=
  if d.length < 7 ∨ 15 < d.length then "v4.len"
  else if (split 46 d).length ≠ 4 then "v4.count"
  else match v4loop (split 46 d) with
    | none => "v4.fault"
    | some none => "v4.false"
    | some (some _) => if checkIPv4 d = some true then "v4.ok" else "v4.excluded"

def v6Br (d : Bytes) : String :=
  if d.length < 2 ∨ 39 < d.length then "v6.len"
  else
    let frs := split 58 d
    let l := frs.length
    if l < 3 ∨ 9 < l then "v6.count"
    else if l = 9 ∧ ¬((frs.getD 0 []).length = 0 ∧ (frs.getD 1 []).length = 0) ∧
        ¬((frs.getD 7 []).length = 0 ∧ (frs.getD 8 []).length = 0) then "v6.nine"
    else match v6loop frs l 0 frs ⟨false, List.replicate 8 0⟩ with
      | none => "v6.fault"
      | some none => "v6.false"
      | some (some st) =>
        if l < 8 ∧ st.hasEmpty = false then "v6.short"
        else if v6range st.nums then (if st.hasEmpty then "v6.ok.compressed" else "v6.ok.full") else "v6.range"

def dataBr (t : Nat) (d : Bytes) : String :=
  if t = typA then v4Br d
  else if t = typCNAME then nameBr "cname" d
  else if t = typTXT then (if d.length ≤ maxTXTLength then "txt.ok" else "txt.long")
  else if t = typAAAA then v6Br d
  else "type.unsupported"

def opBr : Op → String
  | .avail n => nameBr "avail" n
  | .tld n => nameBr "tld" n
  | .reg n _ => nameBr "reg" n
  | .add n t d => if (safeSplitAndCheck n).isSome then dataBr t d else nameBr "rec" n
  | .set n t _ d => if (safeSplitAndCheck n).isSome then dataBr t d else nameBr "rec" n
  | .get n _ => nameBr "get" n

def stepLine (s : State) (line : String) : State × List String :=
  match words line with
  | [] => (s, [])
  | "case" :: _ => (NeoFS.NNSSyntax.init, [line.trimAscii.toString])
  | "op" :: mode :: sig :: rest =>
    match parseOp rest with
    | none => (s, ["bad-op"])
    | some op =>
      let env := parseEnv sig
      let dry := mode == "dry"
      let (s', out) := if dry then dryRun s env op else invoke s env op
      let o := match out with
        | none => "FAULT"
        | some r => s!"HALT ret={fmtRet r}"
      let st := if dry then "=" else fmtState s'
      let halt := if out.isSome then "halt" else "fault"
      (s', [s!"{o} | {st} br={opBr op},{opBr op}.{halt}"])
  | _ => (s, ["bad-line"])

def main : IO Unit := runDriver NeoFS.NNSSyntax.init stepLine
