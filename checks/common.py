"""Shared machinery of ./check: build, Lean audit, harness/driver runs, diff, shrinking, verdict, evidence.

A property plug-in (checks/props.py) describes, per property id:
  lean      : list of Lean modules holding the property theorems (NeoFS.Props.Cxx)
  driver    : name of the lean_exe line-protocol driver of the model (or None)
  harness   : Go test package under harness/ (or None)
  monitors  : property ids whose monitor hits in that harness count for this check
  facts     : list of extractor outputs the property depends on
"""
import fcntl, hashlib, json, os, re, shutil, subprocess, sys, tempfile, time

VERIF = os.path.dirname(os.path.dirname(os.path.abspath(__file__)))
LEAN = os.path.join(VERIF, "lean")
HARNESS = os.path.join(VERIF, "harness")
BIN = os.path.join(VERIF, ".bin")
WORK = os.path.join(VERIF, ".work")
REPO = os.environ.get("VERIF_REPO", "/repo")

GOENV = dict(os.environ, GOFLAGS="-mod=mod", GOPROXY="off", GOSUMDB="off", GOTOOLCHAIN="local",
             CGO_ENABLED="0", VERIF_REPO=REPO)
ALLOWED_AXIOMS = {"propext", "Classical.choice", "Quot.sound"}
FORBIDDEN = re.compile(r"\b(sorry|admit|native_decide|bv_decide|implemented_by)\b|^\s*axiom\s|\bunsafe\s|maxHeartbeats\s+0")


def sh(cmd, cwd=None, env=None, timeout=None, inp=None):
    p = subprocess.run(cmd, cwd=cwd, env=env, stdout=subprocess.PIPE, stderr=subprocess.STDOUT,
                       timeout=timeout, input=inp, text=True, shell=isinstance(cmd, str))
    return p.returncode, p.stdout


class Lock:
    """flock around build steps so that several checks may be started at once"""
    def __init__(self, name):
        os.makedirs(WORK, exist_ok=True)
        self.path = os.path.join(VERIF, "." + name + ".lock")
    def __enter__(self):
        self.f = open(self.path, "w")
        fcntl.flock(self.f, fcntl.LOCK_EX)
    def __exit__(self, *a):
        fcntl.flock(self.f, fcntl.LOCK_UN)
        self.f.close()


_PIPE = None


def pipe_acquire():
    """one lock around `regenerate facts -> lake build -> #print axioms audit` of a check: the generated Lean files are shared,
    so two checks started at once (possibly against different VERIF_REPO trees) must not interleave inside that section"""
    global _PIPE
    if _PIPE is None:
        _PIPE = Lock("facts-lean")
        _PIPE.__enter__()


def pipe_release():
    global _PIPE
    if _PIPE is not None:
        _PIPE.__exit__()
        _PIPE = None


def log(*a):
    print("[check]", *a, flush=True)


# ---------------------------------------------------------------- builds

def build_go_tool(name, pkgdir, ldflags=None):
    """build a Go command under /verif (tools/, extract/) into .bin/"""
    out = os.path.join(BIN, name)
    with Lock("build-go"):
        os.makedirs(BIN, exist_ok=True)
        mf = modfile(pkgdir)
        cmd = ["go", "build", "-tags", "verif"] + mf
        if ldflags:
            cmd += ["-ldflags", ldflags]
        cmd += ["-o", out, "."]
        rc, o = sh(cmd, cwd=pkgdir, env=GOENV)
        if rc != 0:
            raise BuildError("go build %s failed:\n%s" % (name, o))
    return out


class BuildError(Exception):
    pass


def repo_tag():
    r = os.path.realpath(REPO)
    return "" if r == "/repo" else "_" + hashlib.sha256(r.encode()).hexdigest()[:8]


def modfile(moddir):
    """go.sum comes from the repository under test; when VERIF_REPO is not /repo the replace directive is
    redirected through an alternative module file (so mutants can be checked in a scratch copy)"""
    shutil.copy(os.path.join(REPO, "go.sum"), os.path.join(moddir, "go.sum"))
    if os.path.realpath(REPO) == "/repo":
        return []
    alt = os.path.join(moddir, "go.alt.mod")
    src = open(os.path.join(moddir, "go.mod")).read().replace("=> /repo", "=> " + os.path.realpath(REPO))
    open(alt, "w").write(src)
    shutil.copy(os.path.join(REPO, "go.sum"), os.path.join(moddir, "go.alt.sum"))
    return ["-modfile=" + alt]


def build_harness(pkg):
    """go test -c of harness/<pkg>, against the working tree of REPO (replace directive), tag verif"""
    out = os.path.join(BIN, "h_" + pkg + repo_tag())
    with Lock("build-go"):
        os.makedirs(BIN, exist_ok=True)
        mf = modfile(HARNESS)
        rc, o = sh(["go", "test", "-c", "-tags", "verif"] + mf + ["-o", out, "./" + pkg], cwd=HARNESS, env=GOENV)
        if rc != 0:
            raise BuildError("harness %s does not build against the working tree:\n%s" % (pkg, o))
    return out


def lake_build(targets):
    """returns (ok, output). Incremental; serialised by a lock."""
    with Lock("build-lean"):
        rc, o = sh(["lake", "build"] + targets, cwd=LEAN, timeout=3000)
    return rc == 0, o


def theorem_names(module):
    """names of the theorems stated in a Props module (these are the proof obligations)"""
    path = os.path.join(LEAN, module.replace(".", "/") + ".lean")
    src = open(path).read()
    ns = re.search(r"^namespace\s+(\S+)", src, re.M)
    prefix = ns.group(1) + "." if ns else ""
    return [prefix + m for m in re.findall(r"^theorem\s+(\S+)", src, re.M)]


def grep_forbidden(modules):
    """scan the transitive local sources for sorry/axiom/native_decide (comments stripped)"""
    hits = []
    for root, _, files in os.walk(LEAN):
        if ".lake" in root:
            continue
        for f in files:
            if not f.endswith(".lean"):
                continue
            p = os.path.join(root, f)
            src = open(p).read()
            src = re.sub(r"/-.*?-/", "", src, flags=re.S)
            for i, line in enumerate(src.split("\n")):
                line = re.sub(r"--.*", "", line)
                if FORBIDDEN.search(line):
                    hits.append("%s:%d: %s" % (os.path.relpath(p, LEAN), i + 1, line.strip()))
    return hits


def lean_audit(pid, modules):
    """build the property modules, then `#print axioms` for every theorem in them.
    returns dict(ok, obligations, discharged, failed=[names], axioms={thm: [..]}, output)"""
    names = []
    for m in modules:
        names += theorem_names(m)
    ok, out = lake_build(modules)
    res = dict(ok=ok, obligations=len(names), discharged=0, failed=[], axioms={}, output=out, names=names)
    if not ok:
        # which theorems are broken? map error lines to the theorem that contains them
        res["failed"] = broken_theorems(out, modules) or ["<build of %s>" % ",".join(modules)]
        return res
    os.makedirs(os.path.join(LEAN, "Audit"), exist_ok=True)
    apath = os.path.join(LEAN, "Audit", pid + ".lean")
    with open(apath, "w") as f:
        for m in modules:
            f.write("import %s\n" % m)
        for n in names:
            f.write("#print axioms %s\n" % n)
    with Lock("build-lean"):
        rc, o = sh(["lake", "env", "lean", apath], cwd=LEAN, timeout=1200)
    res["output"] += o
    cur = None
    for line in re.sub(r"\n[ \t]+", " ", o).split("\n"):
        m = re.match(r"'(\S+)' depends on axioms: \[(.*)\]", line)
        if m:
            res["axioms"][m.group(1)] = [a.strip() for a in m.group(2).split(",")]
            continue
        m = re.match(r"'(\S+)' does not depend on any axioms", line)
        if m:
            res["axioms"][m.group(1)] = []
    for n in names:
        ax = res["axioms"].get(n)
        if ax is None or not set(ax) <= ALLOWED_AXIOMS:
            res["failed"].append(n)
        else:
            res["discharged"] += 1
    bad = grep_forbidden(modules)
    if bad:
        res["failed"] += ["forbidden construct: " + b for b in bad]
    res["ok"] = not res["failed"]
    return res


def leanchecker(modules):
    """independent re-check of the compiled .olean files of the property modules (thorough tier)"""
    with Lock("build-lean"):
        rc, o = sh(["lake", "env", "leanchecker"] + list(modules), cwd=LEAN, timeout=3000)
    return rc == 0, o


def broken_theorems(out, modules):
    broken = []
    for m in re.finditer(r"error: (\S+\.lean):(\d+):\d+", out):
        path, line = os.path.join(LEAN, m.group(1)), int(m.group(2))
        try:
            src = open(path).read().split("\n")
        except OSError:
            continue
        name = None
        for i in range(min(line, len(src)) - 1, -1, -1):
            mm = re.match(r"^(theorem|lemma|def|example|instance)\s*(\S*)", src[i])
            if mm:
                name = "%s (%s:%d)" % (mm.group(2) or mm.group(1), m.group(1), line)
                break
        broken.append(name or "%s:%d" % (m.group(1), line))
    return sorted(set(broken))


# ---------------------------------------------------------------- harness / driver

def driver_path(name):
    return os.path.join(LEAN, ".lake", "build", "bin", name)


def run_harness(binpath, outdir, seed, tier, mode="gen", ops=None, shard="0/1", timeout=3000, extra_env=None):
    os.makedirs(outdir, exist_ok=True)
    env = dict(GOENV, VERIF_SEED=str(seed), VERIF_TIER=tier, VERIF_MODE=mode, VERIF_OUT=outdir, VERIF_SHARD=shard,
               GOMEMLIMIT="6GiB")
    if ops:
        env["VERIF_OPS"] = ops
    if extra_env:
        env.update(extra_env)
    rc, o = sh([binpath, "-test.run", "^TestRun$", "-test.timeout", "%ds" % timeout], cwd=outdir, env=env, timeout=timeout + 60)
    return rc, o


def run_driver(name, opsfile, outfile):
    # the driver executables are shared by all checks: while another check rebuilds them the file may be missing or busy
    # for a moment (ENOENT / ETXTBSY); wait and try again instead of failing the check
    last = None
    for attempt in range(30):
        try:
            with open(opsfile) as fi, open(outfile, "w") as fo:
                p = subprocess.run([driver_path(name)], stdin=fi, stdout=fo, stderr=subprocess.PIPE, text=True)
            return p.returncode, p.stderr
        except OSError as e:
            last = e
            time.sleep(2)
    return 127, "model driver %s could not be started: %s" % (name, last)


def strip_br(line):
    """model lines may carry ` br=...` (branch ids); they feed the histogram and are removed before the diff"""
    return re.sub(r"\s+br=\S*", "", line)


def diff_streams(ops_path, impl_path, model_path, limit=40):
    """returns (n_lines, diffs, branches) where diffs = list of dict(case, index, op, impl, model, ops_prefix)"""
    ops = open(ops_path).read().split("\n")
    impl = open(impl_path).read().split("\n")
    model = open(model_path).read().split("\n")
    diffs, branches = [], {}
    case_start, case_id = 0, None
    n = max(len(impl), len(model))
    bad_cases = set()
    for i in range(n):
        a = impl[i] if i < len(impl) else "<missing>"
        b = model[i] if i < len(model) else "<missing>"
        o = ops[i] if i < len(ops) else ""
        if o.startswith("case "):
            case_start, case_id = i, o.split()[1]
        for br in re.findall(r"\sbr=(\S*)", b):
            for x in br.split(","):
                if x:
                    branches[x] = branches.get(x, 0) + 1
        if a != strip_br(b) and case_id not in bad_cases:
            bad_cases.add(case_id)
            if len(diffs) < limit:
                diffs.append(dict(case=case_id, index=i - case_start, op=o, impl=a, model=strip_br(b),
                                  ops_prefix=ops[case_start:i + 1]))
    return n, diffs, branches, len(bad_cases)


def load_monitor(outdir):
    p = os.path.join(outdir, "monitor.jsonl")
    if not os.path.exists(p):
        return []
    return [json.loads(l) for l in open(p) if l.strip()]


def load_stats(outdir):
    p = os.path.join(outdir, "stats.json")
    if not os.path.exists(p):
        return {}
    return json.load(open(p))


# ---------------------------------------------------------------- known findings

def known_findings():
    p = os.path.join(VERIF, "known_findings.json")
    if not os.path.exists(p):
        return []
    return [f for f in json.load(open(p))["findings"] if f.get("status") == "known"]


def match_known(v, known):
    """a monitor hit is known only if property, call site and failure class are the listed ones and the
    detail matches the listed input class (regex)"""
    for k in known:
        if k["property"] == v["property"] and k["site"] == v["site"] and k["what"] == v["what"]:
            if re.search(k.get("detail_regex", ""), v.get("detail", "")):
                return k
    return None


# ---------------------------------------------------------------- shrinking

def shrink_ops(binpath, ops, still_fails, budget=30):
    """delta debugging (complement reduction) over the op lines of one case; ops[0] is the `case` line"""
    head, body = ops[0], ops[1:]
    n = 2
    while len(body) >= 2 and budget > 0:
        chunk = -(-len(body) // n)
        reduced = False
        for i in range(0, len(body), chunk):
            cand = body[:i] + body[i + chunk:]
            if not cand:
                continue
            budget -= 1
            if still_fails([head] + cand):
                body, n, reduced = cand, max(n - 1, 2), True
                break
            if budget <= 0:
                break
        if not reduced:
            if n >= len(body):
                break
            n = min(len(body), n * 2)
    return [head] + body


# ---------------------------------------------------------------- replay + evidence

def write_replay(pid, kind, payload):
    os.makedirs(os.path.join(VERIF, "replays"), exist_ok=True)
    blob = json.dumps(payload, sort_keys=True, indent=1)
    h = hashlib.sha256(blob.encode()).hexdigest()[:10]
    path = os.path.join("replays", "%s-%s-%s.json" % (pid, kind, h))
    with open(os.path.join(VERIF, path), "w") as f:
        f.write(blob)
    return path


def write_evidence(pid, ev):
    # evidence/ describes runs against /repo; a run against another tree (VERIF_REPO, used to try seeded changes) writes its
    # evidence under .work/ so that it never replaces the committed evidence
    d = os.path.join(VERIF, "evidence") if os.path.realpath(REPO) == "/repo" else os.path.join(WORK, "evidence-other-tree")
    os.makedirs(d, exist_ok=True)
    tmp = os.path.join(d, ".%s.%d.tmp" % (pid, os.getpid()))
    with open(tmp, "w") as f:
        json.dump(ev, f, indent=1)
    os.replace(tmp, os.path.join(d, pid + ".json"))


def workdir(pid):
    os.makedirs(WORK, exist_ok=True)
    return tempfile.mkdtemp(prefix=pid + "-", dir=WORK)


TRUSTED_BASE = [
    "Lean 4.33.0 kernel (leanchecker re-check in the thorough tier)",
    "axioms: at most propext, Classical.choice, Quot.sound (audited with #print axioms on every property theorem); no sorry/native_decide/bv_decide/own axioms",
    "hand-written Lean model of the contract code; tied to the code only by the correspondence run (differential testing on generated and corpus op sequences) and by regenerated facts",
    "NeoVM/neo-go runtime table of DESIGN.md section 4 (storage, Find snapshot semantics, integer encoding, transaction atomicity, CheckWitness, Notify manifest compliance)",
    "Go harness: generators, canonicalisation, property monitors",
]
