"""Registry: what each property's check consists of (see DESIGN.md section 7)."""

BALANCE_RULE = ("seeded random histories over 5 user accounts, a calling probe contract and fresh lock accounts: mint, "
                "public transfer (signed by the owner / somebody else / the Alphabet / called from a contract), transferX, burn, lock, "
                "epoch ticks; amounts from {0,1,balance,balance+-1,balance/2,-1,-balance,2^63,2^70,random}; every 4th case leaves "
                "the properties' quantifier (lock onto existing accounts) and is compared with the model only. "
                "distinct_nontrivial = distinct (operation, observation) pairs of HALTed invocations")

PROPS = {
    "C01": dict(lean=["NeoFS.Props.C01"], driver="drv_balance", harness="balance", monitors=["C01"],
                shards=dict(quick=1, thorough=16), rule=BALANCE_RULE),
    "C02": dict(lean=["NeoFS.Props.C02"], driver="drv_balance", harness="balance", monitors=["C02"],
                shards=dict(quick=1, thorough=16), rule=BALANCE_RULE),
    "C09": dict(lean=["NeoFS.Props.C09"], driver="drv_balance", harness="balance", monitors=["C09"],
                shards=dict(quick=1, thorough=16), rule=BALANCE_RULE),
}
