"""Registry: collects PROPS (what each check consists of) and CLAIMS (MANIFEST texts) from checks/specs/*.py."""
import importlib, os, pkgutil

PROPS, CLAIMS = {}, {}
_dir = os.path.join(os.path.dirname(os.path.abspath(__file__)), "specs")
for m in sorted(pkgutil.iter_modules([_dir]), key=lambda m: m.name):
    mod = importlib.import_module("checks.specs." + m.name)
    PROPS.update(getattr(mod, "PROPS", {}))
    CLAIMS.update(getattr(mod, "CLAIMS", {}))
