"""C03: when a table theorem no longer checks, name the methods and witness valuations that fail (Lean #eval on the regenerated table)."""
import os
from . import common as C

SCRIPT = '''import NeoFS.Generated.AccessIR
import NeoFS.Model.AccessExpect
import NeoFS.Props.C03Defs
open NeoFS.Access NeoFS.Access.Expect NeoFS.Generated.Access NeoFS.Props.C03
def badMasks (m : MethodIR) : List Nat :=
  match req m.contract m.method with
  | .exempt _ => []
  | .needs f => (List.range (2 ^ m.atoms.length)).filter fun mask =>
      !(f (holdsOf m.atoms mask) || inertB (maskVal mask) m.prog)
  | .anyGuard => if inertB (maskVal 0) m.prog then [] else [0]
def granted (m : MethodIR) (mask : Nat) : List String :=
  (m.atoms.zipIdx.filter (fun ai => mask.testBit ai.2)).map (·.1)
#eval (methods.filter (fun m => !(badMasks m).isEmpty)).map (fun m =>
  s!"NOT-INERT {m.contract}.{m.method}/{m.nparams} atoms={m.atoms} effect reachable with only {(badMasks m).map (granted m)} granted")
#eval (methods.filter (fun m => !methodLive m)).map (fun m => s!"NOT-LIVE {m.contract}.{m.method}/{m.nparams}")
#eval (methods.filter (fun m => m.safe && !syntacticallyPure m.prog)).map (fun m => s!"SAFE-METHOD-HAS-EFFECT {m.contract}.{m.method}/{m.nparams}")
#eval (methods.filter (fun m => !verifyOK m)).map (fun m => s!"VERIFY-TOO-WEAK {m.contract}.{m.method}")
'''


def diagnose(audit):
    os.makedirs(os.path.join(C.LEAN, "Audit"), exist_ok=True)
    path = os.path.join(C.LEAN, "Audit", "C03diag.lean")
    open(path, "w").write(SCRIPT)
    ok, out = C.lake_build(["NeoFS.Props.C03Defs", "NeoFS.Generated.AccessIR"])
    if not ok:
        return dict(diagnosis="definitions do not build", output=out[-1500:])
    with C.Lock("build-lean"):
        rc, o = C.sh(["lake", "env", "lean", path], cwd=C.LEAN, timeout=600)
    lines = [l for l in o.replace("\n ", " ").split("\n") if "NOT-" in l or "SAFE-" in l or "VERIFY-" in l]
    return dict(failing_table_entries=lines or [o[-1500:]])
